(* Varint.v — model of the `unsigned-varint` 0.8 crate (decode::u64 / usize on 64-bit targets,
   encode::u64 / usize).  Source: unsigned-varint-0.8.0/src/decode.rs `decode!` macro and encode.rs.

   decode!(buf, 9, u64):
       n = 0; for (i, b) in buf: n |= (b & 0x7f) << (i*7);
         if b & 0x80 == 0 { if b == 0 && i > 0 { NotMinimal } else { Ok(n, &buf[i+1..]) } }
         if i == 9 { Overflow }
       Insufficient
   `(k << (7 i))` on u64 drops the bits above bit 63 and the or-ed ranges are disjoint, hence
   n = (sum_i k_i * 2^(7 i)) mod 2^64. *)
From BS Require Export Bytes.

Inductive uv_result :=
| UvOk (n : N) (rest : bytes)
| UvInsufficient
| UvOverflow
| UvNotMinimal.

Definition two64 : N := 2 ^ 64.

Fixpoint uv_go (buf : bytes) (i : N) (acc : N) : uv_result :=
  match buf with
  | [] => UvInsufficient
  | b :: rest =>
      let acc' := (acc + (b mod 128) * 2 ^ (7 * i)) mod two64 in
      if b <? 128 then
        (if (b =? 0) && (0 <? i) then UvNotMinimal else UvOk acc' rest)
      else if i =? 9 then UvOverflow
      else uv_go rest (i + 1) acc'
  end.

(* unsigned_varint::decode::u64, and ::usize on a 64-bit target *)
Definition uv_decode (buf : bytes) : uv_result := uv_go buf 0 0.

(* unsigned_varint::encode::u64: minimal LEB128; at most 10 bytes for a u64 *)
Fixpoint uv_enc (fuel : nat) (n : N) : bytes :=
  match fuel with
  | O => [n mod 128]
  | S f => if n <? 128 then [n] else (n mod 128 + 128) :: uv_enc f (n / 128)
  end.

Definition uv_encode (n : N) : bytes := uv_enc 10 n.
