(* Props_C07.v — C07: the server sends a peer only blocks it currently wants.
   Model: Server.v (ServerBehaviour as lib.rs drives it); `sview Sz p hist` is the Bitswap reference view
   of p's wants folded from the wantlist messages p sent (full replaces, cancels remove, wants add — cap
   1024 — and a dispatch to p removes what was sent), defined from the history only. *)
From BS Require Import Bytes Cid Prefix Proto Types Server Server_lemmas Server_inv Server_proofs Server_live Tie_consts.
Open Scope N_scope.

(* every block in an observable QueueOutgoingMessages event to p: its CID was in p's reference view
   immediately before, is removed from it by the dispatch (so at most one copy per expressed want, never to
   a peer that did not ask, not after a cancel or an omitting full wantlist processed earlier), the prefix
   sent is the CID's prefix, the bytes are exactly what the store returned for that CID or what arrived as
   a new block for it; one event per peer per poll, no CID twice in it *)
Theorem C07_observable : forall Sz ops op p blocks,
  let st := snd (srun Sz ops) in
  let hist := fst (srun_l Sz ops) in
  In (OSend p blocks) (snd (sstep Sz st op)) ->
  exists bl, blocks = map erase_block bl /\ NoDup (map fst bl) /\
    (forall blocks', In (OSend p blocks') (snd (sstep Sz st op)) -> blocks' = blocks) /\
    forall c d, In (c, d) bl ->
      (exists s, sview Sz p hist = Some s /\ In c s) /\
      (exists s', sview Sz p (hist ++ [(op, snd (sstep_l Sz st op))]) = Some s' /\ ~ In c s') /\
      ((exists k, released_with hist k c (SHit d)) \/
       (exists bl0 o, In (SNewBlocks bl0, o) hist /\ In (c, d) bl0)).
Proof. exact Server_live.C07_observable. Qed.

(* the invariant behind it, for every reachable state: p waits for c exactly when c is in p's want set,
   no peer twice in a waiter list, and the want set IS the reference view *)
Theorem C07_invariant : forall Sz ops,
  let st := snd (srun Sz ops) in
  (forall p c, (exists l, waiters_of st c = Some l /\ In p l) <-> (exists s, wants_of st p = Some s /\ In c s)) /\
  (forall c l, waiters_of st c = Some l -> NoDup l /\ l <> []) /\
  (s_panic st = false -> forall p, wants_of st p = sview Sz p (fst (srun_l Sz ops))).
Proof. exact Srv_inv. Qed.

Theorem C07_no_panic : forall Sz ops, 32 <= Sz -> s_panic (snd (srun Sz ops)) = false.
Proof. exact server_no_panic. Qed.

Check C07_observable : forall Sz ops op p blocks,
  let st := snd (srun Sz ops) in
  let hist := fst (srun_l Sz ops) in
  In (OSend p blocks) (snd (sstep Sz st op)) ->
  exists bl, blocks = map erase_block bl /\ NoDup (map fst bl) /\
    (forall blocks', In (OSend p blocks') (snd (sstep Sz st op)) -> blocks' = blocks) /\
    forall c d, In (c, d) bl ->
      (exists s, sview Sz p hist = Some s /\ In c s) /\
      (exists s', sview Sz p (hist ++ [(op, snd (sstep_l Sz st op))]) = Some s' /\ ~ In c s') /\
      ((exists k, released_with hist k c (SHit d)) \/
       (exists bl0 o, In (SNewBlocks bl0, o) hist /\ In (c, d) bl0)).

(* non-vacuity: the running example of Server_proofs.v (two peers, overlapping want, cancel + want of one
   CID in one update, hit / miss / failure) does dispatch *)
Example C07_nonvacuous := C07_observable_ex.

Print Assumptions C07_observable.
Print Assumptions C07_invariant.
Print Assumptions C07_no_panic.
