(* Props_C07.v — C07: the server sends a peer only blocks it currently wants.
   Model: Server.v (ServerBehaviour as lib.rs drives it); `sview Sz p hist` is the Bitswap reference view
   of p's wants folded from the wantlist messages p sent (full replaces, cancels remove, wants add — cap
   1024 — and a dispatch to p removes what was sent), defined from the history only. *)
From BS Require Import Bytes Cid Prefix Proto Types Server Server_lemmas Server_inv Server_proofs Server_live Tie_consts.
From BS Require Import Tie_server.   (* tie lemmas: a source edit that changes what they extract breaks this file's closure *)
Open Scope N_scope.

(* every block in an observable QueueOutgoingMessages event to p: its CID was in p's reference view
   immediately before, is removed from it by the dispatch (so at most one copy per expressed want, never to
   a peer that did not ask, not after a cancel or an omitting full wantlist processed earlier), the prefix
   sent is the CID's prefix, the bytes are exactly what the store returned for that CID or what arrived as
   a new block for it; one event per peer per poll, no CID twice in it *)
Theorem C07_observable : forall Sz ops op p blocks,
  let st := snd (srun Sz ops) in
  let hist := fst (srun_l Sz ops) in
  In (OSend p blocks) (snd (sstep Sz st op)) ->
  exists bl, blocks = map erase_block bl /\ NoDup (map fst bl) /\
    (forall blocks', In (OSend p blocks') (snd (sstep Sz st op)) -> blocks' = blocks) /\
    forall c d, In (c, d) bl ->
      (exists s, sview Sz p hist = Some s /\ In c s) /\
      (exists s', sview Sz p (hist ++ [(op, snd (sstep_l Sz st op))]) = Some s' /\ ~ In c s') /\
      ((exists k, released_with hist k c (SHit d)) \/
       (exists bl0 o, In (SNewBlocks bl0, o) hist /\ In (c, d) bl0)).
Proof. exact Server_live.C07_observable. Qed.

(* the invariant behind it, for every reachable state: p waits for c exactly when c is in p's want set,
   no peer twice in a waiter list, and the want set IS the reference view *)
Theorem C07_invariant : forall Sz ops,
  let st := snd (srun Sz ops) in
  (forall p c, (exists l, waiters_of st c = Some l /\ In p l) <-> (exists s, wants_of st p = Some s /\ In c s)) /\
  (forall c l, waiters_of st c = Some l -> NoDup l /\ l <> []) /\
  (s_panic st = false -> forall p, wants_of st p = sview Sz p (fst (srun_l Sz ops))).
Proof. exact Srv_inv. Qed.

Theorem C07_no_panic : forall Sz ops, 32 <= Sz -> s_panic (snd (srun Sz ops)) = false.
Proof. exact server_no_panic. Qed.

Check C07_observable : forall Sz ops op p blocks,
  let st := snd (srun Sz ops) in
  let hist := fst (srun_l Sz ops) in
  In (OSend p blocks) (snd (sstep Sz st op)) ->
  exists bl, blocks = map erase_block bl /\ NoDup (map fst bl) /\
    (forall blocks', In (OSend p blocks') (snd (sstep Sz st op)) -> blocks' = blocks) /\
    forall c d, In (c, d) bl ->
      (exists s, sview Sz p hist = Some s /\ In c s) /\
      (exists s', sview Sz p (hist ++ [(op, snd (sstep_l Sz st op))]) = Some s' /\ ~ In c s') /\
      ((exists k, released_with hist k c (SHit d)) \/
       (exists bl0 o, In (SNewBlocks bl0, o) hist /\ In (c, d) bl0)).

(* non-vacuity: the running example of Server_proofs.v (two peers, overlapping want, cancel + want of one
   CID in one update, hit / miss / failure) does dispatch *)
Example C07_nonvacuous := C07_observable_ex.

Print Assumptions C07_observable.
Print Assumptions C07_invariant.
Print Assumptions C07_no_panic.

(* ---- network level (package G, Net_proofs21): every block batch in flight between two nodes of a reachable net was put
   there by a poll of the sender, holds no CID twice, and each of its CIDs was in the reference view of the receiver's
   wants at the sender just before that poll (WANT delivered and not since cancelled / replaced / served, in delivery
   order at the sender); the server half of every node is exactly Server.v run on the ops the net delivered to it. *)
From BS Require Import Net Net_proofs Net_proofs2 Net_proofs5 Net_proofs7 Net_proofs9 Net_proofs10 Net_proofs13 Net_props Net_proofs14 Net_proofs15 Net_proofs16 Net_proofs17 Net_proofs18 Net_proofs19 Net_proofs20 Net_proofs21 Server Server_inv Net_props2.
From Coq Require Import ZArith Lia.
Open Scope N_scope.

Theorem C07_net_only_wanted :
  forall (Sz : N) (Hh : hash_fn),
  32 <= Sz ->
  forall (n : nat) (ops : list nop),
  Forall (nop_good Sz Hh) ops ->
  let s := fst (nrun Sz Hh (net_init n) ops) in
  (forall (j : N) (nj : node),
   get_node s j = Some nj -> n_server nj = snd (srun_l Sz (sops_run Sz Hh (net_init n) ops j))) /\
  (forall m : bmsg,
   In m (wire_b s) ->
   exists ops1 ops2 : list nop,
     ops = ops1 ++ NPoll (bm_src m) :: ops2 /\
     NoDup (map fst (bm_blocks m)) /\
     (forall c : cid,
      In c (map fst (bm_blocks m)) ->
      exists view : list cid,
        sview Sz (bm_dst m) (fst (srun_l Sz (sops_run Sz Hh (net_init n) ops1 (bm_src m)))) = Some view /\
        In c view)).
Proof. exact (@Net_props2.C07_net_only_wanted). Qed.

Print Assumptions C07_net_only_wanted.

(* ---- seen from the receiving client (package K, with package G's C07_net_only_wanted): a client is only ever handed blocks
   it asked that very peer for. *)
From BS Require Import Types Wantlist Wantlist_proofs2 Client Client_proofs Client_proofs4 Net Net_proofs Net_proofs6 Net_props Net_proofs2 Net_proofs5 Net_proofs21 Net_proofs40 Net_proofs41 Net_proofs42 Net_proofs43 Net_proofs44 Net_proofs45 Net_proofs46 Net_proofs47 Server Net_props4.
From Coq Require Import ZArith Lia.
Open Scope N_scope.

Theorem client_receives_only_requested :
  forall (Sz : N) (Hh : hash_fn),
  32 <= Sz ->
  forall (n : nat) (ops : list nop) (i : N) (p : peer) (pres : list (cid * bool)) 
    (bl : list (cid * bytes)) (c : cid) (d : bytes),
  Forall (nop_good Sz Hh) ops ->
  In (CIncoming p pres bl) (cops_run Sz Hh (net_init n) ops i) ->
  In (c, d) bl ->
  pres = [] /\
  (exists (ops1 ops2 : list nop) (view : list cid),
     ops = ops1 ++ NPoll p :: ops2 /\
     sview Sz i (fst (srun_l Sz (sops_run Sz Hh (net_init n) ops1 p))) = Some view /\ In c view).
Proof. exact (@Net_props4.client_receives_only_requested). Qed.

Print Assumptions client_receives_only_requested.
