(* Net_proofs14.v — package G: the revision bookkeeping of the per-peer wantlist records.
   `WantlistState::synced_revision` never runs ahead of `Wantlist::revision`, and when the two are equal every
   CID the record holds is in the wantlist.  So a peer record that `is_updated` holds no CID that left the
   wantlist: at a quiet net (every peer record updated) "i's record of j says WANT_HAVE c was sent" implies
   "i wants c".  Holds in every reachable net (all steps, not only the schedule steps). *)
From BS Require Import Wantlist_proofs Client_proofs Client_proofs2 Client_proofs3 Client_proofs4
  Net Net_proofs2 Net_proofs3 Net_proofs5 Net_proofs6 Net_proofs7.
From Coq Require Import ZArith ZifyBool ZifyN ZifyNat Lia.
Open Scope N_scope.

Local Notation cid_eqb_spec := Wantlist_proofs.cid_eqb_spec.

Definition rv_peer (w : wl) (s : wls) : Prop :=
  synced_rev s <= wl_rev w /\
  (synced_rev s = wl_rev w -> forall x, In x (map fst (req s)) -> In x (wl_cids w)).

Definition RV (c : cstate) : Prop := forall p ps, In (p, ps) (cs_peers c) -> rv_peer (cs_wl c) (p_wl ps).

Lemma rv_mono w w' s s' :
  rv_peer w s -> wl_rev w <= wl_rev w' -> (wl_rev w' = wl_rev w -> wl_cids w' = wl_cids w) ->
  synced_rev s' = synced_rev s -> (forall x, In x (map fst (req s')) -> In x (map fst (req s))) ->
  rv_peer w' s'.
Proof.
  intros [H1 H2] Hle Heq Es Hk. split; [lia|]. intros E x Hx.
  assert (Hr : wl_rev w' = wl_rev w) by lia. rewrite (Heq Hr). apply H2; [lia | apply Hk, Hx].
Qed.

Lemma rv_new w : rv_peer w wls_new.
Proof. split; cbn; [lia | intros _ x []]. Qed.

Lemma wl_remove_rev w c :
  wl_rev w <= wl_rev (fst (wl_remove w c)) /\
  (wl_rev (fst (wl_remove w c)) = wl_rev w -> wl_cids (fst (wl_remove w c)) = wl_cids w).
Proof. unfold wl_remove. destruct (cid_mem c (wl_cids w)); cbn [fst wl_rev wl_cids]; split; try lia; auto. Qed.

Lemma RV_same c c' : cs_wl c' = cs_wl c -> cs_peers c' = cs_peers c -> RV c -> RV c'.
Proof. intros E1 E2 H p ps Hin. rewrite E1. rewrite E2 in Hin. apply (H _ _ Hin). Qed.

Lemma RV_init sdh : RV (cinit sdh).
Proof. intros p ps []. Qed.

(* ---------- generated wantlists ---------- *)
Lemma gen_update_rv s w : rv_peer w s -> rv_peer w (snd (wls_generate_update s w)).
Proof.
  intros H. rewrite gen_update_unfold. destruct (wls_is_updated s w); [exact H|].
  split; [unfold upd_body; cbn [snd synced_rev]; lia|]. intros _ x Hx. apply upd_body_keys in Hx. exact Hx.
Qed.

Lemma gen_full_rv s w : rv_peer w s -> rv_peer w (snd (wls_generate_full s w)).
Proof.
  intros [H1 H2]. destruct (gen_full_flags s w) as [_ Es]. split; [rewrite Es; exact H1|].
  intros _ x Hx. apply gen_full_keys in Hx. exact Hx.
Qed.

Lemma uh_gate_wl now ps ps1 : uh_gate now ps = Some ps1 -> p_wl ps1 = p_wl ps.
Proof.
  unfold uh_gate. destruct (p_ss ps) as [|t c|t c|t c|c]; try discriminate.
  - intros [= <-]. reflexivity.
  - destruct (now - t <? RECEIVE_REQUEST_TIMEOUT); [discriminate|]. intros [= <-]. reflexivity.
  - intros [= <-]. reflexivity.
Qed.

Lemma uh_peer_rv now w ch p ps :
  let '(ps', _, _, _) := uh_peer now w ch p ps in rv_peer w (p_wl ps) -> rv_peer w (p_wl ps').
Proof.
  pose proof (uh_peer_case now w ch p ps) as Hc. destruct (uh_peer now w ch p ps) as [[[ps' evs] outs] dead].
  inversion Hc as [Hgt | ps1 Hgt Hcn | ps1 wls' conns Hgt Hcn Hne Hsf Hgen | ps1 es wls' c0 bad conns sf Hgt Hcn Hsf Hgen Hsend Hin Hbad Hch]; subst.
  - auto.
  - rewrite (uh_gate_wl _ _ _ Hgt). auto.
  - cbn [p_wl]. intros H. rewrite <- (uh_gate_wl _ _ _ Hgt) in H. apply (gen_update_rv _ w) in H. rewrite Hgen in H. exact H.
  - cbn [p_wl]. intros H. rewrite <- (uh_gate_wl _ _ _ Hgt) in H. destruct (p_send_full ps1).
    + apply (gen_full_rv _ w) in H. rewrite Hgen in H. exact H.
    + apply (gen_update_rv _ w) in H. rewrite Hgen in H. exact H.
Qed.

Lemma RV_update_handlers c ch : RV c -> RV (fst (fst (Client.update_handlers c ch))).
Proof.
  intros H. unfold Client.update_handlers. rewrite uh_loop_flat. cbn [fst set_queue set_peers].
  intros p ps' Hin. cbn [cs_peers cs_wl] in *. apply uh_keep_in in Hin. destruct Hin as (ps & Hin & Hk).
  unfold uh_keep in Hk. cbn [fst snd] in Hk. pose proof (uh_peer_rv (cs_now c) (cs_wl c) ch p ps) as K.
  destruct (uh_peer (cs_now c) (cs_wl c) ch p ps) as [[[ps1 evs] outs] dead]. destruct dead; [destruct Hk|].
  destruct Hk as [[= <-]|[]]. apply K, (H _ _ Hin).
Qed.

Lemma RV_after_tasks c : RV c -> RV (after_tasks c).
Proof. destruct (after_tasks_frame c) as (_ & Ew & Ep & _). apply RV_same; assumption. Qed.

Lemma RV_handle c r : RV c -> RV (fst (handle_task_result c r)).
Proof.
  intros H. destruct r as [q x res|ok bl|]; cbn [handle_task_result].
  - destruct res; cbn [fst]; try (eapply RV_same; [..|exact H]; reflexivity).
    cbn [set_abort cs_wl]. unfold wl_insert. destruct (cid_mem x (wl_cids (cs_wl c))) eqn:M.
    + eapply RV_same; [..|exact H]; reflexivity.
    + cbn [fst]. intros p ps Hin. cbn [set_c2q set_peers set_wl set_abort cs_wl cs_peers] in *. unfold wanted_again_all in Hin.
      apply in_map_iff in Hin. destruct Hin as ([p0 ps0] & [= <- <-] & Hin). cbn [fst snd p_wl].
      eapply rv_mono; [apply (H _ _ Hin) | cbn [wl_rev]; lia | cbn [wl_rev]; intros E; lia | apply wanted_again_flags | apply wanted_again_keys].
  - destruct ok; cbn [fst]; [|exact H]. eapply RV_same; [..|exact H]; reflexivity.
  - exact H.
Qed.

Lemma RV_poll_iter ch c : RV c -> RV (fst (fst (poll_iter ch c))).
Proof.
  intros H.
  destruct (poll_iter_cases ch c) as [(ev & q & Hq & ->) | [(Hq & Ht & ->) | [(r & Hq & Ht & Hr & ->) | (Hq & Ht & Hr & ->)]]];
    cbn [fst snd].
  - eapply RV_same; [..|exact H]; reflexivity.
  - intros p ps Hin. cbn [fire_timer cs_peers cs_wl] in *. apply in_map_iff in Hin.
    destruct Hin as ([p0 ps0] & [= <- <-] & Hin). cbn [fst snd p_wl]. apply (H _ _ Hin).
  - apply RV_handle, RV_after_tasks, H.
  - apply RV_update_handlers, RV_after_tasks, H.
Qed.

(* ---------- blocks from a peer ---------- *)
Lemma inc_block_rv a b :
  wl_rev (ia_wl a) <= wl_rev (ia_wl (inc_block a b)) /\
  (wl_rev (ia_wl (inc_block a b)) = wl_rev (ia_wl a) -> wl_cids (ia_wl (inc_block a b)) = wl_cids (ia_wl a)) /\
  synced_rev (ia_pwl (inc_block a b)) = synced_rev (ia_pwl a) /\
  map fst (req (ia_pwl (inc_block a b))) = map fst (req (ia_pwl a)).
Proof.
  unfold inc_block. destruct (ia_panic a); [repeat split; auto; lia|]. destruct b as [x d]. unfold wl_remove.
  destruct (cid_mem x (wl_cids (ia_wl a))); cbn [negb].
  - cbn [ia_wl ia_pwl wl_rev wl_cids]. split; [lia|]. split; [intros E; lia|]. split; [reflexivity|].
    unfold wls_got_block. cbn [req]. apply al_modify_keys.
  - destruct (al_mem cid_eqb x (ia_c2q a)); cbn [ia_wl ia_pwl]; repeat split; auto; lia.
Qed.

Lemma inc_blocks_rv bl : forall a,
  wl_rev (ia_wl a) <= wl_rev (ia_wl (fold_left inc_block bl a)) /\
  (wl_rev (ia_wl (fold_left inc_block bl a)) = wl_rev (ia_wl a) -> wl_cids (ia_wl (fold_left inc_block bl a)) = wl_cids (ia_wl a)) /\
  synced_rev (ia_pwl (fold_left inc_block bl a)) = synced_rev (ia_pwl a) /\
  map fst (req (ia_pwl (fold_left inc_block bl a))) = map fst (req (ia_pwl a)).
Proof.
  induction bl as [|b bl IH]; intros a; cbn [fold_left]; [repeat split; auto; lia|].
  destruct (IH (inc_block a b)) as (I1 & I2 & I3 & I4). destruct (inc_block_rv a b) as (S1 & S2 & S3 & S4).
  split; [lia|]. split; [|split; congruence].
  intros E. rewrite I2 by lia. apply S2. lia.
Qed.

Lemma presences_rv l : forall s,
  synced_rev (fold_left apply_presence l s) = synced_rev s /\
  map fst (req (fold_left apply_presence l s)) = map fst (req s).
Proof.
  induction l as [|pr l IH]; intros s; cbn [fold_left]; [auto|]. destruct (IH (apply_presence s pr)) as [I1 I2].
  rewrite I1, I2. unfold apply_presence. destruct (snd pr); [unfold wls_got_have | unfold wls_got_dont_have]; cbn [req synced_rev];
    rewrite al_modify_keys; auto.
Qed.

Lemma RV_incoming c p pres blocks : RV c -> RV (fst (c_incoming c p pres blocks)).
Proof.
  intros H. unfold c_incoming. destruct (al_find N.eqb p (cs_peers c)) as [ps|] eqn:E; [|exact H].
  apply (al_find_some_in _ Client_proofs.Neqb_spec) in E.
  set (a0 := MkInc (cs_wl c) (fold_left apply_presence pres (p_wl ps)) (cs_c2q c) (cs_queue c) [] false).
  set (a := fold_left inc_block blocks a0).
  destruct (inc_blocks_rv blocks a0) as (I1 & I2 & I3 & I4). fold a in I1, I2, I3, I4. cbn [a0 ia_wl ia_pwl] in I1, I2, I3, I4.
  destruct (presences_rv pres (p_wl ps)) as [P1 P2].
  assert (Hbase : RV (MkCs (ia_queue a) (ia_wl a)
                        (al_modify N.eqb p (fun ps0 => MkPeer (p_conns ps0) (p_ss ps0) (ia_pwl a) (p_send_full ps0)) (cs_peers c))
                        (ia_c2q a) (cs_tasks c) (cs_ready c) (cs_next_task c) (cs_abort c) (cs_next_qid c)
                        (cs_deadline c) (cs_new_blocks c) (cs_now c) (cs_next_call c))).
  { intros k ps' Hin. cbn [cs_peers cs_wl] in *. apply in_al_modify in Hin. destruct Hin as (ps0 & Hin0 & ->).
    destruct (p =? k) eqn:Ek.
    - apply N.eqb_eq in Ek. subst k. cbn [p_wl]. apply (rv_mono (cs_wl c) _ (p_wl ps)); [apply (H _ _ E) | exact I1 | exact I2 | congruence|].
      intros x Hx. rewrite I4, P2 in Hx. exact Hx.
    - apply (rv_mono (cs_wl c) _ (p_wl ps0)); [apply (H _ _ Hin0) | exact I1 | exact I2 | reflexivity | auto]. }
  destruct (ia_panic a); [exact Hbase|]. destruct (ia_new a) as [|b nb]; [exact Hbase|]. cbn [fst].
  eapply RV_same; [..|exact Hbase]; reflexivity.
Qed.

(* ---------- every client step ---------- *)
Lemma RV_step c o : RV c -> RV (fst (cstep c o)).
Proof.
  intros H. destruct o; cbn [cstep fst].
  - unfold c_new_conn. destruct (al_mem N.eqb p (cs_peers c)); intros k ps Hin; cbn [set_peers cs_peers cs_wl] in *.
    + apply in_al_modify in Hin. destruct Hin as (ps0 & Hin0 & ->). destruct (p =? k); cbn [add_conn p_wl]; apply (H _ _ Hin0).
    + apply in_peers_ins in Hin. destruct Hin as [[= -> ->]|Hin]; [cbn; apply rv_new | apply (H _ _ Hin)].
  - unfold c_conn_closed. destruct (al_find N.eqb p (cs_peers c)); [|exact H].
    destruct (p_conns (remove_conn c0 p0)); intros k ps Hin; cbn [set_peers cs_peers cs_wl] in *.
    + unfold al_remove in Hin. apply filter_In in Hin. apply (H _ _ (proj1 Hin)).
    + apply in_al_modify in Hin. destruct Hin as (ps0 & Hin0 & ->). destruct (p =? k); cbn [remove_conn p_wl]; apply (H _ _ Hin0).
  - unfold c_get. destruct c0 as [x|]; cbn [fst]; (eapply RV_same; [..|exact H]; reflexivity).
  - rewrite c_cancel_unfold. cbv zeta. destruct (cancel_abort_frame c q) as (_ & _ & _ & Ew & Ep & _).
    assert (H1 : RV (cancel_abort c q)) by (eapply RV_same; eassumption).
    destruct (find_query q (cs_c2q (cancel_abort c q))) as [[x qs]|]; [destruct (swap_remove_q q qs)|]; try exact H1.
    intros k ps Hin. cbn [set_wl set_c2q cs_peers cs_wl] in *. destruct (wl_remove_rev (cs_wl (cancel_abort c q)) x) as [R1 R2].
    eapply rv_mono; [apply (H1 _ _ Hin) | exact R1 | exact R2 | reflexivity | auto].
  - apply RV_incoming, H.
  - intros k ps Hin. cbn [c_report set_peers cs_peers cs_wl] in *. apply in_al_modify in Hin. destruct Hin as (ps0 & Hin0 & ->).
    destruct (p =? k); [destruct (report_accepted ps0 c0)|]; cbn [p_wl]; apply (H _ _ Hin0).
  - unfold c_release. destruct (find (call_is call) (cs_tasks c)) as [[tid t]|]; [|exact H]. eapply RV_same; [..|exact H]; reflexivity.
  - eapply RV_same; [..|exact H]; reflexivity.
  - unfold c_poll. apply poll_loop_inv; [apply RV_poll_iter | exact H].
  - eapply RV_same; [..|exact H]; reflexivity.
Qed.

(* ---------- at the net level ---------- *)
Section NetRV.
  Variables (Sz : N) (Hh : hash_fn).
  Hypothesis HSz : 32 <= Sz.

  Definition net_rv (s : net) : Prop := forall i n, get_node s i = Some n -> RV (n_client n).

  Lemma csteps_RV c c' : csteps Sz c c' -> RV c -> RV c'.
  Proof. induction 1 as [c|c o c' Ho _ IH]; intros H; [exact H|]. apply IH, RV_step, H. Qed.

  Lemma net_rv_step s o : net_ok Sz Hh s -> nop_wf Sz o -> net_rv s -> net_rv (fst (nstep Sz Hh s o)).
  Proof.
    intros Hok Ho Hr k n' Hk. destruct (nstep_moved Sz Hh HSz s o Hok Ho k n' Hk) as (n & Hn & Hs).
    eapply csteps_RV; [exact Hs | apply (Hr _ _ Hn)].
  Qed.

  Lemma net_rv_init n : net_rv (net_init n).
  Proof.
    intros i nd Hg. unfold get_node in Hg. cbn [nodes net_init] in Hg. apply nth_error_In, repeat_spec in Hg. subst nd. apply RV_init.
  Qed.

  Lemma net_rv_run ops : forall s,
    Forall (nop_good Sz Hh) ops -> Forall (nop_wf Sz) ops -> net_ok Sz Hh s -> net_rv s -> net_rv (fst (nrun Sz Hh s ops)).
  Proof.
    induction ops as [|o ops IH]; intros s Hg Hw Hok Hr; [exact Hr|]. rewrite (nrun_cons Sz Hh). cbn [fst].
    inversion Hg; subst. inversion Hw; subst. apply IH; try assumption.
    - apply net_ok_step; assumption.
    - apply net_rv_step; assumption.
  Qed.
End NetRV.
