(* Client_proofs10.v — package N, part 1: DEFINITIONS for "what a peer is sent does not depend on how many
   connections carry it" (C15 at trace level).  No lemma here; the proofs are in Client_proofs11/12/13.v.

   One-connection world.  `K : peer -> conn` names THE connection of each peer in the one-connection history
   (Net.v uses `fun _ => CONN`).
   * `norm K s`        : the client state s with every peer entry collapsed to the single connection `K p`
                         (connection set := [K p]; the connection named in the sending state := K p; likewise the
                         connection of an `EvSend` still in the event queue).  Everything else is kept.
   * `sim s1 s2`       : the relation of the task: equal states except that, per peer entry, the connection sets may
                         differ (both non-empty) and the connection named in the sending state may differ (same
                         constructor, same time stamp).
   * `proj_op K s o`   : what the op o, applied in the (several-connections) state s, becomes in the one-connection
                         history: a list of 0 or 1 ops.
        CNewConn p c     erased iff p already has an entry (a further connection), else CNewConn p (K p)
        CConnClosed p c  CConnClosed p (K p) iff c is the LAST connection of p's entry; erased otherwise (c is not
                         the last one, is not a connection of the entry, or p has no entry: in the last two cases
                         the op does nothing to s)
        CReport p c r    CReport p (K p) (r renamed) iff the report is accepted in s, i.e. c is the connection
                         named in p's sending state (client.rs:336-343); erased otherwise (the op does nothing to s)
        CPoll ch         CPoll (ch with every choice (p, c) renamed to (p, K p))
        every other op   itself
   * `project_from K s ops`, `project K sdh ops` : the projection of a history, computed along the run.
   * `op_ok s o`, `churn_ok_from s ops`, `churn_ok sdh ops` : the executable side condition "fault-free churn":
        at every CPoll, no peer entry is in a FAULT state (`SsFailed c`, or `SsRequested t c` with the
        RECEIVE_REQUEST_TIMEOUT expired) while a connection other than c remains.  (A fault on the only connection
        is allowed: the entry is dropped in both worlds.)  Nothing else is required: reports from connections
        that are not the sending one, closes of connections that are not open, and closing the connection named in
        a RequestReceived/Sending state are all covered by the theorem. *)
From BS Require Import Types Wantlist Client Client_proofs.
From Coq Require Import ZArith List. Import ListNotations.
Open Scope N_scope.

(* ---------- the relation of the task ---------- *)
Definition sim_ss (a b : sending_state) : Prop :=
  match a, b with
  | SsReady, SsReady => True
  | SsRequested t1 _, SsRequested t2 _ => t1 = t2
  | SsRequestReceived t1 _, SsRequestReceived t2 _ => t1 = t2
  | SsSending t1 _, SsSending t2 _ => t1 = t2
  | SsFailed _, SsFailed _ => True
  | _, _ => False
  end.

Definition sim_peer (a b : peer * peer_state) : Prop :=
  fst a = fst b /\ p_conns (snd a) <> [] /\ p_conns (snd b) <> [] /\ sim_ss (p_ss (snd a)) (p_ss (snd b)) /\
  p_wl (snd a) = p_wl (snd b) /\ p_send_full (snd a) = p_send_full (snd b).

Definition sim (s1 s2 : cstate) : Prop :=
  Forall2 sim_peer (cs_peers s1) (cs_peers s2) /\
  cs_queue s1 = cs_queue s2 /\ cs_wl s1 = cs_wl s2 /\ cs_c2q s1 = cs_c2q s2 /\ cs_tasks s1 = cs_tasks s2 /\
  cs_ready s1 = cs_ready s2 /\ cs_next_task s1 = cs_next_task s2 /\ cs_abort s1 = cs_abort s2 /\
  cs_next_qid s1 = cs_next_qid s2 /\ cs_deadline s1 = cs_deadline s2 /\ cs_new_blocks s1 = cs_new_blocks s2 /\
  cs_now s1 = cs_now s2 /\ cs_next_call s1 = cs_next_call s2.

(* every entry has exactly the connection K p, and its sending state names no other connection *)
Definition names_only (k : conn) (ss : sending_state) : Prop :=
  match ss with
  | SsReady => True
  | SsRequested _ c | SsRequestReceived _ c | SsSending _ c | SsFailed c => c = k
  end.

Definition single_conn_state (K : peer -> conn) (s : cstate) : Prop :=
  forall p ps, In (p, ps) (cs_peers s) -> p_conns ps = [K p] /\ names_only (K p) (p_ss ps).

(* ---------- collapsing a state to one connection per peer ---------- *)
Definition ren_ss (k : conn) (ss : sending_state) : sending_state :=
  match ss with
  | SsReady => SsReady
  | SsRequested t _ => SsRequested t k
  | SsRequestReceived t _ => SsRequestReceived t k
  | SsSending t _ => SsSending t k
  | SsFailed _ => SsFailed k
  end.

Definition ren_rp (k : conn) (r : sending_report) : sending_report :=
  match r with
  | RpReady => RpReady
  | RpRequestReceived _ => RpRequestReceived k
  | RpSending _ => RpSending k
  | RpFailed _ => RpFailed k
  end.

Definition norm_ps (K : peer -> conn) (p : peer) (ps : peer_state) : peer_state :=
  MkPeer [K p] (ren_ss (K p) (p_ss ps)) (p_wl ps) (p_send_full ps).

Definition norm_entry (K : peer -> conn) (e : peer * peer_state) : peer * peer_state :=
  (fst e, norm_ps K (fst e) (snd e)).

Definition norm_ev (K : peer -> conn) (e : event) : event :=
  match e with EvSend p _ f es => EvSend p (K p) f es | _ => e end.

Definition norm (K : peer -> conn) (s : cstate) : cstate :=
  MkCs (map (norm_ev K) (cs_queue s)) (cs_wl s) (map (norm_entry K) (cs_peers s)) (cs_c2q s) (cs_tasks s) (cs_ready s)
       (cs_next_task s) (cs_abort s) (cs_next_qid s) (cs_deadline s) (cs_new_blocks s) (cs_now s) (cs_next_call s).

(* outputs up to connection names; OBadChoice is the harness artefact of Client.v's `choice` input *)
Definition norm_out (K : peer -> conn) (o : cout) : cout :=
  match o with OSendWantlist p _ f es => OSendWantlist p (K p) f es | _ => o end.

Definition not_bad (o : cout) : bool := match o with OBadChoice => false | _ => true end.

(* the (peer, full, entries) of the wantlists sent, in order; and everything else except OBadChoice *)
Definition sent_of (o : cout) : list (peer * bool * list gen_entry) :=
  match o with OSendWantlist p _ f es => [(p, f, es)] | _ => [] end.
Definition sent (outs : list cout) : list (peer * bool * list gen_entry) := flat_map sent_of outs.
Definition other_out (o : cout) : bool :=
  match o with OSendWantlist _ _ _ _ | OBadChoice => false | _ => true end.

(* ---------- the projection ---------- *)
Definition ren_choice (K : peer -> conn) (ch : list (peer * conn)) : list (peer * conn) :=
  map (fun e => (fst e, K (fst e))) ch.

Definition proj_op (K : peer -> conn) (s : cstate) (o : cop) : list cop :=
  match o with
  | CNewConn p c => if al_mem N.eqb p (cs_peers s) then [] else [CNewConn p (K p)]
  | CConnClosed p c =>
      match al_find N.eqb p (cs_peers s) with
      | None => []
      | Some ps => match n_remove c (p_conns ps) with [] => [CConnClosed p (K p)] | _ => [] end
      end
  | CReport p c r =>
      match al_find N.eqb p (cs_peers s) with
      | None => []
      | Some ps => if report_accepted ps c then [CReport p (K p) (ren_rp (K p) r)] else []
      end
  | CPoll ch => [CPoll (ren_choice K ch)]
  | _ => [o]
  end.

Fixpoint project_from (K : peer -> conn) (s : cstate) (ops : list cop) : list cop :=
  match ops with
  | [] => []
  | o :: r => proj_op K s o ++ project_from K (fst (cstep s o)) r
  end.

Definition project (K : peer -> conn) (sdh : bool) (ops : list cop) : list cop := project_from K (cinit sdh) ops.

(* ---------- the side condition ---------- *)
(* the connection a poll would remove from the entry: a failed or unacknowledged transmission (uh_gate) *)
Definition fault_conn (now : time) (ps : peer_state) : option conn :=
  match p_ss ps with
  | SsRequested t c => if now - t <? RECEIVE_REQUEST_TIMEOUT then None else Some c
  | SsFailed c => Some c
  | _ => None
  end.

Definition peer_ok (now : time) (ps : peer_state) : bool :=
  match fault_conn now ps with
  | None => true
  | Some c => match n_remove c (p_conns ps) with [] => true | _ => false end
  end.

Definition peers_ok (s : cstate) : bool := forallb (fun e => peer_ok (cs_now s) (snd e)) (cs_peers s).

Definition op_ok (s : cstate) (o : cop) : bool :=
  match o with CPoll _ => peers_ok s | _ => true end.

Fixpoint churn_ok_from (s : cstate) (ops : list cop) : bool :=
  match ops with
  | [] => true
  | o :: r => op_ok s o && churn_ok_from (fst (cstep s o)) r
  end.

Definition churn_ok (sdh : bool) (ops : list cop) : bool := churn_ok_from (cinit sdh) ops.

(* ---------- histories that name only the single connection of each peer ---------- *)
Definition rp_single (k : conn) (r : sending_report) : bool :=
  match r with RpReady => true | RpRequestReceived c | RpSending c | RpFailed c => c =? k end.

Definition op_single (K : peer -> conn) (o : cop) : bool :=
  match o with
  | CNewConn p c | CConnClosed p c => c =? K p
  | CReport p c r => (c =? K p) && rp_single (K p) r
  | CPoll ch => forallb (fun e => snd e =? K (fst e)) ch
  | _ => true
  end.

(* ---------- running from a state (as Net_proofs40.cl_tr / cl_outs) ---------- *)
Definition run_st (s : cstate) (ops : list cop) : cstate := snd (crun_from s ops).
Definition run_outs (s : cstate) (ops : list cop) : list cout := all_outs (fst (crun_from s ops)).
