(* Net_proofs22.v — package G: towards settle_terminates.  What is proved here: a quiet net is a fixpoint of the fair round as
   far as anything observable goes — a further `round` emits no event, puts nothing on a wire, starts no store call and
   leaves the net quiet (Net.v only claimed this in a comment).  So `quietb` really is "nothing left to do", and the
   result of `settle`, when quiet, is stable under any number of further fair rounds.
   NOT proved: that `settle`'s fuel always suffices (see the report). *)
From BS Require Import Server_lemmas Server_inv Server_proofs Server_live Wantlist_proofs Client_proofs Client_proofs2
  Client_proofs3 Client_proofs4 Net Net_proofs2 Net_proofs3 Net_proofs4 Net_proofs5 Net_proofs6 Net_proofs7 Net_proofs8
  Net_proofs9 Net_proofs10 Net_proofs17.
From Coq Require Import ZArith ZifyBool ZifyN ZifyNat Lia.
Open Scope N_scope.

Section QuietStable.
  Variables (Sz : N) (Hh : hash_fn).
  Hypothesis HSz : 32 <= Sz.

  Lemma idle_peer_fin now w p ps :
    peer_idle w (p, ps) = true ->
    sends1 w (p, ps) = [] /\ fst (fin1 now w (p, ps)) = p /\ peer_idle w (fin1 now w (p, ps)) = true.
  Proof.
    unfold peer_idle. cbn [snd]. rewrite !andb_true_iff. intros [[Hr Hsf] Hup]. apply negb_true_iff in Hsf.
    unfold sends1, fin1. cbn [fst snd]. destruct (p_ss ps); try discriminate. rewrite Hsf.
    rewrite gen_update_unfold, Hup. cbn [negb andb is_nil fst snd]. unfold peer_idle. cbn [snd p_ss p_send_full p_wl]. rewrite Hup. auto.
  Qed.

  Lemma quiet_poll s k :
    net_ok Sz Hh s -> quietb s = true ->
    quietb (fst (nstep Sz Hh s (NPoll k))) = true /\ snd (nstep Sz Hh s (NPoll k)) = [].
  Proof.
    intros Hok Hq. cbn [nstep]. destruct (get_node s k) as [n|] eqn:Hg; [|unfold do_poll; rewrite Hg; auto].
    destruct (do_poll_nf Sz Hh s k n Hok Hg) as (sC & outsC & [Hrun HCC Hto Heq]). cbn zeta in Heq. rewrite Heq. cbn [fst snd].
    pose proof (quiet_node s k n Hq Hg) as Hidle. unfold node_idle, client_idle in Hidle. rewrite !andb_true_iff in Hidle.
    destruct Hidle as [[[[[[[Hqu Htk] Hrd] Hnb] Htr] Hpeers] Hsv] Hcalls]. apply is_nil_true in Hqu, Htk, Hrd, Hnb, Hcalls. apply negb_true_iff in Htr.
    assert (Eat : after_timer (n_client n) = set_queue (n_client n) []).
    { unfold after_timer. change (timer_ready (set_queue (n_client n) [])) with (timer_ready (n_client n)). rewrite Htr. reflexivity. }
    rewrite Eat in Hrun.
    destruct (tasks_run_empty _ _ _ Hrun Htk) as (HtC & HoC & HnbC & HwC & HpC). subst outsC. cbn [set_queue cs_new_blocks cs_wl cs_peers] in HnbC, HwC, HpC.
    destruct (tasks_run_frame _ _ _ Hrun) as (Fq & En & Ed & Frd & _). cbn [set_queue cs_queue cs_now cs_deadline] in Fq, En, Ed.
    unfold srv_poll. rewrite HnbC, Hnb. destruct (do_poll_idle _ Hsv) as [Hout Hidle']. rewrite Hout.
    cbn [sv_calls sv_blocks filter map cl_calls cl_events]. rewrite Hcalls, Hqu. cbn [app ev_levs flat_map map].
    pose proof Hq as Hq0. unfold quietb in Hq0. rewrite !andb_true_iff in Hq0. destruct Hq0 as [[Hww Hwb] Hall].
    assert (HL : flat_map (sends1 (cs_wl sC)) (cs_peers sC) = []).
    { apply flat_map_nil. intros [p ps] Hin. rewrite HwC, HpC in *. rewrite forallb_forall in Hpeers. apply (idle_peer_fin (now s) _ p ps (Hpeers _ Hin)). }
    rewrite HL. cbn [map]. rewrite !app_nil_r. split; [|reflexivity].
    unfold quietb. cbn [wire_w wire_b nodes]. rewrite Hww, Hwb. cbn [andb].
    rewrite forallb_forall in *. intros x Hx. apply In_nth_error in Hx. destruct Hx as (p & Hp).
    destruct (Nat.eq_dec p (N.to_nat k)) as [->|Hne].
    - rewrite nth_set_nth_eq in Hp by (eapply get_node_lt; exact Hg). injection Hp as <-.
      unfold node_idle, client_idle. cbn [n_client n_server n_calls set_peers set_new_blocks set_queue cs_queue cs_tasks cs_ready cs_new_blocks cs_peers cs_wl].
      rewrite HtC, Frd, Hidle'. cbn [is_nil andb]. rewrite !andb_true_r.
      apply andb_true_iff. split.
      + unfold timer_ready in *. cbn [set_peers set_new_blocks set_queue cs_deadline cs_now]. rewrite En, Ed, Htr. reflexivity.
      + rewrite forallb_forall. intros e He. apply in_map_iff in He. destruct He as ([p0 ps0] & <- & Hin). rewrite HpC in Hin. rewrite HwC.
        apply (idle_peer_fin (now s) _ p0 ps0 (Hpeers _ Hin)).
    - rewrite nth_set_nth_neq in Hp by lia. apply Hall. eapply nth_error_In. exact Hp.
  Qed.

  Lemma quiet_polls ks : forall s, net_ok Sz Hh s -> quietb s = true ->
    quietb (fst (nrun Sz Hh s (map NPoll ks))) = true /\ snd (nrun Sz Hh s (map NPoll ks)) = [] /\ net_ok Sz Hh (fst (nrun Sz Hh s (map NPoll ks))).
  Proof.
    induction ks as [|k ks IH]; intros s Hok Hq; cbn [map]; [cbn; auto|]. rewrite (nrun_cons Sz Hh). cbn [fst snd].
    destruct (quiet_poll s k Hok Hq) as [Hq1 He1].
    assert (Hok1 : net_ok Sz Hh (fst (nstep Sz Hh s (NPoll k)))) by (apply net_ok_step; [exact HSz | exact I | exact Hok]).
    destruct (IH _ Hok1 Hq1) as (Hq2 & He2 & Hok2). rewrite He1, He2. auto.
  Qed.

  (* a quiet net stays quiet under a fair round, and the round is silent *)
  Theorem quiet_round_stable s :
    net_ok Sz Hh s -> quietb s = true -> quietb (fst (round Sz Hh s)) = true /\ snd (round Sz Hh s) = [].
  Proof.
    intros Hok Hq. unfold round. destruct (quiet_polls (seqN 0 (length (nodes s))) s Hok Hq) as (Hq1 & He1 & Hok1). fold (polls_of s) in Hq1, He1, Hok1.
    destruct (nrun Sz Hh s (polls_of s)) as [s1 e1]. cbn [fst snd] in *. subst e1.
    assert (Hst : stores_of s1 = []).
    { apply stores_of_nil. intros k n Hk. pose proof (quiet_node s1 k n Hq1 Hk) as Hi. unfold node_idle in Hi. rewrite !andb_true_iff in Hi.
      apply is_nil_true, Hi. }
    rewrite Hst. cbn [nrun].
    assert (Hd : deliveries_of s1 = []).
    { unfold deliveries_of. pose proof Hq1 as Hq0. unfold quietb in Hq0. rewrite !andb_true_iff in Hq0. destruct Hq0 as [[Hww Hwb] _].
      apply is_nil_true in Hww, Hwb. rewrite Hww, Hwb. reflexivity. }
    rewrite Hd. cbn [nrun fst snd app]. auto.
  Qed.

  (* hence: once `settle` has reached a quiet net, settling again (with any fuel) changes nothing *)
  Corollary settle_loop_quiet fuel s : quietb s = true -> settle_loop Sz Hh fuel s = (s, []).
  Proof. intros Hq. destruct fuel; cbn [settle_loop]; rewrite Hq; reflexivity. Qed.

  Corollary settle_idempotent s :
    quietb (fst (settle Sz Hh s)) = true -> settle Sz Hh (fst (settle Sz Hh s)) = (fst (settle Sz Hh s), []).
  Proof. intros Hq. unfold settle at 1. apply settle_loop_quiet, Hq. Qed.
End QuietStable.
