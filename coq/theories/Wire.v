(* Wire.v — one wantlist end to end over the wire: the client connection handler of the SENDER (Handler.v over
   FramedWrite.v, package E) composed with the inbound stream of the RECEIVER (Streams.v: IncomingStream over FramedRead +
   Codec + process_message, package H) through the real codec (Codec.v).  This is the byte-level justification of the
   "atomic delivery" abstraction of Net.v: if the sender's handler reports Ready, the bytes the stream accepted are exactly
   one frame, and however the receiver's reads cut those bytes (and wherever its task is woken), the receiver's behaviour is
   handed exactly one IncomingMessage whose server part is that wantlist — nothing else, nothing twice, nothing truncated. *)
From BS Require Import Bytes Varint Varint_proofs Cid Prefix Hasher Proto Incoming Qp ProtoCodec RefProto Frame Framed
                       Codec Frame_proofs Framed_proofs ProtoCodec_proofs RefProto_proofs Codec_proofs
                       Prefix_proofs Incoming_proofs Streams Streams_proofs Types FramedWrite Handler Handler_proofs.
From Coq Require Import ZArith ZifyBool ZifyN ZifyNat Lia.
Open Scope N_scope.

(* what process_message makes of a message that carries only a wantlist *)
Lemma process_wantlist_message Sz Hh (w : wantlist) :
  process_message Sz Hh (wantlist_message w)
  = PmOk (MkIncoming None (if w_full w || negb (match w_entries w with [] => true | _ => false end) then Some w else None)).
Proof. reflexivity. Qed.

Definition announces (w : wantlist) : bool := w_full w || negb (match w_entries w with [] => true | _ => false end).

(* receiver side alone: the frame of a wantlist message, cut anywhere, followed by the end of the stream *)
Theorem wire_receive_wantlist Sz Hh chk (w : wantlist) evs :
  wf_message (wantlist_message w) -> size_ok write_message (wantlist_message w) ->
  live evs -> ev_data evs = codec_encode (wantlist_message w) ->
  stream_out Sz Hh chk (evs ++ [Eof])
  = (if announces w then [MkIncoming None (Some w)] else [], SfEnd).
Proof.
  intros WF SZ LV DATA.
  rewrite (C10_stream_out_chunking Sz Hh chk [wantlist_message w] evs).
  - cbn [deliver]. rewrite process_wantlist_message. fold (announces w). cbn [sfinal_of].
    unfold forwarded. cbn [in_client in_server]. destruct (announces w); reflexivity.
  - constructor; [exact WF|constructor].
  - constructor; [exact SZ|constructor].
  - exact LV.
  - cbn [map concat]. rewrite app_nil_r. exact DATA.
Qed.

(* sender + receiver: a disciplined run of the sender's handler that ends with Ready reported for its last wantlist w wrote
   exactly the frame of w on one stream; any reads of those bytes give the receiver exactly w *)
Theorem C14_wire_delivery Sz Hh chk (c : conn) (ops : list hop) :
  disciplined codec_encode true c ops = true ->
  let st := handler_final codec_encode c ops in
  let outs := handler_outs codec_encode c ops in
  h_queue st = [] -> last (reports outs) RpReady = RpReady -> sent_ws ops <> [] ->
  exists id w ws0,
    sent_ws ops = ws0 ++ [w] /\ wrote_on id outs = codec_encode (wantlist_message w) /\
    (wf_message (wantlist_message w) -> size_ok write_message (wantlist_message w) ->
     forall evs, live evs -> ev_data evs = wrote_on id outs ->
       stream_out Sz Hh chk (evs ++ [Eof]) = (if announces w then [MkIncoming None (Some w)] else [], SfEnd)).
Proof.
  intros D st outs Q R S.
  destruct (C14_ready_means_delivered codec_encode c ops D Q R S) as (fr0 & id & w & ws0 & _ & E2 & E3).
  exists id, w, ws0. split; [exact E2|]. split; [exact E3|].
  intros WF SZ evs LV DATA. apply wire_receive_wantlist; try assumption.
  subst outs. rewrite DATA. exact E3.
Qed.

(* non-vacuity, with the real codec: a full wantlist with one WANT_HAVE entry, the stream accepting 2 bytes, then the rest; the
   receiver reads it in three pieces with a wake-up in between *)
Definition wire_entry : entry := MkEntry [1; 85; 18; 3; 1; 2; 3] 1 false WTHave true.
Definition wire_w : wantlist := MkWantlist [wire_entry] true.
Definition wire_ops : list hop :=
  [HSendWantlist wire_w; HPoll []; HSetStream; HPoll [WAccept 2]; HPoll [WAccept 100; FlushOk]].
Definition wire_frame : bytes := codec_encode (wantlist_message wire_w).
Definition wire_evs : list read_ev :=
  [Chunk (firstn 1 wire_frame); ReadPending; Chunk (firstn 5 (skipn 1 wire_frame)); Chunk (skipn 6 wire_frame)].

Example C14_wire_delivery_ex :
  disciplined codec_encode true 7 wire_ops = true
  /\ h_queue (handler_final codec_encode 7 wire_ops) = []
  /\ last (reports (handler_outs codec_encode 7 wire_ops)) RpReady = RpReady
  /\ sent_ws wire_ops = [wire_w]
  /\ wrote_on 0 (handler_outs codec_encode 7 wire_ops) = wire_frame
  /\ wf_messageb (wantlist_message wire_w) = true
  /\ len (write_message (wantlist_message wire_w)) <=? max_message_size = true
  /\ ev_data wire_evs = wire_frame
  /\ stream_out 64 (fun _ _ => HErr UnknownMultihashCode) true (wire_evs ++ [Eof]) = ([MkIncoming None (Some wire_w)], SfEnd).
Proof. vm_compute. repeat split; reflexivity. Qed.
