(* Props_C13.v — C13: state held per peer and per query is bounded and released (server: Server_proofs; client: Client_proofs4/5).
   Statements restated verbatim from the proof files and closed by `exact`; nothing else is proved here. *)
From BS Require Import Bytes Cid Proto Types Server Server_proofs Tie_consts Wantlist Client Client_proofs Client_proofs2 Client_proofs3 Client_proofs4 Client_proofs5.
From BS Require Import Tie_server.   (* tie lemmas: a source edit that changes what they extract breaks this file's closure *)
Open Scope N_scope.

Theorem C13_cap :
  forall Sz ops p s,
  wants_of (snd (srun Sz ops)) p = Some s -> NoDup s /\ len s <= MAX_WANTLIST_ENTRIES_PER_PEER.
Proof. exact (Server_proofs.C13_cap). Qed.

Theorem C13_server_released :
  forall Sz ops1 ops2 p,
  (forall op, In op ops2 -> op <> SNewConn p) ->
  let st := snd (srun Sz (ops1 ++ SDisconnected p :: ops2)) in
  s_panic st = false ->
  wants_of st p = None /\ (forall c l, waiters_of st c = Some l -> ~ In p l).
Proof. exact (Server_proofs.C13_server_released). Qed.

Theorem C13_server_proportional :
  forall Sz ops,
  let st := snd (srun Sz ops) in
  s_panic st = false ->
  map fst (s_wants st) = connected ops /\ NoDup (connected ops) /\
  len (s_wants st) = len (connected ops) /\
  (forall c l, waiters_of st c = Some l -> NoDup l /\ l <> [] /\ forall q, In q l -> In q (connected ops)) /\
  NoDup (map fst (s_waiting st)) /\
  len (s_waiting st) <= MAX_WANTLIST_ENTRIES_PER_PEER * len (connected ops).
Proof. exact (Server_proofs.C13_server_proportional). Qed.

Theorem C13_client_peer_released sdh ops p :
  open_conns p ops = [] -> al_find N.eqb p (cs_peers (st_after sdh ops)) = None.
Proof. exact (Client_proofs4.C13_client_peer_released sdh ops p). Qed.

Theorem C13_query_released sdh ops :
  let s := st_after sdh ops in
  (forall q tid, In (q, tid) (cs_abort s) <->
                 exists c t, In (tid, t) (cs_tasks s) /\ t_kind t = TGet q c /\ t_aborted t = false) /\
  NoDup (map fst (cs_abort s)) /\
  (forall c, In c (wl_cids (cs_wl s)) <-> In c (map fst (cs_c2q s))) /\
  NoDup (wl_cids (cs_wl s)) /\ NoDup (map fst (cs_c2q s)) /\
  (forall c qs, In (c, qs) (cs_c2q s) -> qs <> []) /\
  NoDup (c2q_qids (cs_c2q s)) /\
  (forall q, In q (c2q_qids (cs_c2q s)) ->
     q < count_gets ops /\ ~ In q (out_qids (outs_after sdh ops)) /\
     ~ In q (task_qids (cs_tasks s)) /\ ~ In q (queue_qids (cs_queue s))).
Proof. exact (Client_proofs5.C13_query_released sdh ops). Qed.

Print Assumptions C13_cap.
Print Assumptions C13_server_released.
Print Assumptions C13_server_proportional.
Print Assumptions C13_client_peer_released.
Print Assumptions C13_query_released.

(* ---- client half, proportional bound (package I, Client_proofs7/8).  For ANY op list: one peer entry per peer with an
   open connection at most, its connections a duplicate-free non-empty SUBSET of the open ones; per-peer request states
   keyed by wantlist CIDs plus the CIDs that left the wantlist since that peer's last generated wantlist (`stale_cids`,
   reset by every poll in which the peer may be sent to); tasks = running lookups of live queries + puts in flight +
   aborted lookups awaiting the next poll; event queue drained by every poll; new_blocks emptied by get_new_blocks.
   Two requested clauses are FALSE of the model and of the Rust (…_refuted): (1) a connection (and with its last one the
   peer entry) leaves the client's table on a Failed report / 1 s request timeout although the connection is still open;
   (2) a peer blocked in RequestReceived/Sending keeps request states of CIDs nobody wants any more until it may be sent
   to again (retention of at most its last generated wantlist, no growth: C13_req_states_shrink). *)
From BS Require Import Types Wantlist Wantlist_proofs Client Client_proofs Client_proofs2 Client_proofs3 Client_proofs4 Client_proofs5 Client_proofs7 Client_proofs8 Client_proofs9 Client_props2.
From Coq Require Import ZArith List. Import ListNotations.
Open Scope N_scope.

Theorem C13_client_proportional :
  forall (sdh : bool) (ops : list cop),
  let s := st_after sdh ops in
  (NoDup (map fst (cs_peers s)) /\
   (forall (p : peer) (ps : peer_state),
    In (p, ps) (cs_peers s) ->
    p_conns ps <> [] /\
    NoDup (p_conns ps) /\
    incl (p_conns ps) (open_conns p ops) /\
    (length (p_conns ps) <= length (open_conns p ops))%nat /\ In p (connected_peers ops)) /\
   (length (cs_peers s) <= length (connected_peers ops))%nat) /\
  (forall (p : N) (ps : peer_state),
   al_find N.eqb p (cs_peers s) = Some ps ->
   NoDup (keys (p_wl ps)) /\
   (forall c : cid, In c (keys (p_wl ps)) -> In c (wl_cids (cs_wl s)) \/ In c (stale_cids p sdh ops)) /\
   (length (req (p_wl ps)) <= length (cs_c2q s) + length (stale_cids p sdh ops))%nat) /\
  (NoDup (map fst (cs_tasks s)) /\
   (forall (tid : N) (t : task),
    In (tid, t) (cs_tasks s) ->
    match t_kind t with
    | TGet q _ => t_aborted t = false /\ In (q, tid) (cs_abort s) \/ t_aborted t = true /\ In tid (cs_ready s)
    | TPut bl => bl <> []
    end) /\
   length (cs_tasks s) =
   (length (cs_abort s) + length (filter aborted_get (cs_tasks s)) + length (filter is_put (cs_tasks s)))%nat /\
   (length (filter aborted_get (cs_tasks s)) <= length (cs_ready s))%nat /\
   NoDup (cs_ready s) /\
   incl (cs_ready s) (map fst (cs_tasks s)) /\ (length (cs_ready s) <= length (cs_tasks s))%nat) /\
  ((forall (p : peer) (c : conn) (f : bool) (es : list gen_entry), ~ In (EvSend p c f es) (cs_queue s)) /\
   length (cs_queue s) = length (queue_qids (cs_queue s)) /\
   NoDup (queue_qids (cs_queue s)) /\
   (forall q : qid,
    In q (queue_qids (cs_queue s)) ->
    q < count_gets ops /\
    ~ In q (out_qids (outs_after sdh ops)) /\ ~ In q (task_qids (cs_tasks s)) /\ ~ In q (c2q_qids (cs_c2q s)))) /\
  (forall (ops0 : list cop) (ch : list (peer * conn)),
   ops = ops0 ++ [CPoll ch] ->
   cs_ready s = [] /\
   cs_queue s = [] /\
   (forall (tid : N) (t : task),
    In (tid, t) (cs_tasks s) ->
    exists n : N,
      t_call t = Some n /\
      t_result t = None /\
      match t_kind t with
      | TGet q _ => t_aborted t = false /\ In (q, tid) (cs_abort s)
      | TPut bl => bl <> []
      end) /\
   filter aborted_get (cs_tasks s) = [] /\
   length (cs_tasks s) = (length (cs_abort s) + length (filter is_put (cs_tasks s)))%nat /\
   (forall (p : peer) (ps : peer_state),
    is_open p (st_after sdh ops0) = true ->
    al_find N.eqb p (cs_peers s) = Some ps ->
    stale_cids p sdh ops = [] /\
    incl (keys (p_wl ps)) (wl_cids (cs_wl s)) /\ (length (req (p_wl ps)) <= length (cs_c2q s))%nat)) /\
  cs_new_blocks (fst (cstep s CTakeNewBlocks)) = [].
Proof. exact (@Client_props2.C13_client_proportional). Qed.

Theorem C13_peers_bounded :
  forall (sdh : bool) (ops : list cop),
  let s := st_after sdh ops in
  NoDup (map fst (cs_peers s)) /\
  (forall (p : peer) (ps : peer_state),
   In (p, ps) (cs_peers s) ->
   p_conns ps <> [] /\
   NoDup (p_conns ps) /\
   incl (p_conns ps) (open_conns p ops) /\
   (length (p_conns ps) <= length (open_conns p ops))%nat /\ In p (connected_peers ops)) /\
  (length (cs_peers s) <= length (connected_peers ops))%nat.
Proof. exact (@Client_props2.C13_peers_bounded). Qed.

Theorem C13_conns_step :
  forall (s : cstate) (o : cop) (p : peer) (ps' : peer_state),
  NoDup (map fst (cs_peers s)) ->
  In (p, ps') (cs_peers (fst (cstep s o))) ->
  (exists c : conn, o = CNewConn p c /\ al_find N.eqb p (cs_peers s) = None /\ p_conns ps' = [c]) \/
  (exists ps : peer_state,
     al_find N.eqb p (cs_peers s) = Some ps /\
     (p_conns ps' = p_conns ps \/
      (exists c : conn, o = CNewConn p c /\ p_conns ps' = p_conns (add_conn c ps)) \/
      (exists c : conn, o = CConnClosed p c /\ p_conns ps' = n_remove c (p_conns ps)) \/
      (exists (ch : list (peer * conn)) (c0 : N),
         o = CPoll ch /\
         p_conns ps' = n_remove c0 (p_conns ps) /\
         (p_ss ps = SsFailed c0 \/
          (exists t : time, p_ss ps = SsRequested t c0 /\ (cs_now s - t <? RECEIVE_REQUEST_TIMEOUT) = false))))).
Proof. exact (@Client_props2.C13_conns_step). Qed.

Theorem C13_req_states_bounded :
  forall (sdh : bool) (ops : list cop) (p : N) (ps : peer_state),
  let s := st_after sdh ops in
  al_find N.eqb p (cs_peers s) = Some ps ->
  NoDup (keys (p_wl ps)) /\
  (forall c : cid, In c (keys (p_wl ps)) -> In c (wl_cids (cs_wl s)) \/ In c (stale_cids p sdh ops)) /\
  (length (req (p_wl ps)) <= length (cs_c2q s) + length (stale_cids p sdh ops))%nat.
Proof. exact (@Client_props2.C13_req_states_bounded). Qed.

Theorem C13_req_states_after_poll :
  forall (sdh : bool) (ops : list cop) (ch : list (peer * conn)) (p : peer) (ps : peer_state),
  let s := st_after sdh (ops ++ [CPoll ch]) in
  is_open p (st_after sdh ops) = true ->
  al_find N.eqb p (cs_peers s) = Some ps ->
  incl (keys (p_wl ps)) (wl_cids (cs_wl s)) /\ (length (req (p_wl ps)) <= length (cs_c2q s))%nat.
Proof. exact (@Client_props2.C13_req_states_after_poll). Qed.

Theorem C13_req_states_shrink :
  forall (s : cstate) (o : cop) (p : peer) (ps' : peer_state),
  NoDup (map fst (cs_peers s)) ->
  INVBJ s ->
  is_open p s = false \/ (forall ch : list (peer * conn), o <> CPoll ch) ->
  al_find N.eqb p (cs_peers (fst (cstep s o))) = Some ps' ->
  keys (p_wl ps') = [] \/
  (exists ps : peer_state, al_find N.eqb p (cs_peers s) = Some ps /\ incl (keys (p_wl ps')) (keys (p_wl ps))).
Proof. exact (@Client_props2.C13_req_states_shrink). Qed.

Theorem C13_tasks_bounded :
  forall (sdh : bool) (ops : list cop),
  let s := st_after sdh ops in
  NoDup (map fst (cs_tasks s)) /\
  (forall (tid : N) (t : task),
   In (tid, t) (cs_tasks s) ->
   match t_kind t with
   | TGet q _ => t_aborted t = false /\ In (q, tid) (cs_abort s) \/ t_aborted t = true /\ In tid (cs_ready s)
   | TPut bl => bl <> []
   end) /\
  length (cs_tasks s) =
  (length (cs_abort s) + length (filter aborted_get (cs_tasks s)) + length (filter is_put (cs_tasks s)))%nat /\
  (length (filter aborted_get (cs_tasks s)) <= length (cs_ready s))%nat /\
  NoDup (cs_ready s) /\
  incl (cs_ready s) (map fst (cs_tasks s)) /\ (length (cs_ready s) <= length (cs_tasks s))%nat.
Proof. exact (@Client_props2.C13_tasks_bounded). Qed.

Theorem C13_tasks_after_poll :
  forall (sdh : bool) (ops : list cop) (ch : list (peer * conn)),
  let s := st_after sdh (ops ++ [CPoll ch]) in
  cs_ready s = [] /\
  cs_queue s = [] /\
  (forall (tid : N) (t : task),
   In (tid, t) (cs_tasks s) ->
   exists n : N,
     t_call t = Some n /\
     t_result t = None /\
     match t_kind t with
     | TGet q _ => t_aborted t = false /\ In (q, tid) (cs_abort s)
     | TPut bl => bl <> []
     end) /\
  filter aborted_get (cs_tasks s) = [] /\
  length (cs_tasks s) = (length (cs_abort s) + length (filter is_put (cs_tasks s)))%nat.
Proof. exact (@Client_props2.C13_tasks_after_poll). Qed.

Theorem C13_queue_bounded :
  forall (sdh : bool) (ops : list cop),
  let s := st_after sdh ops in
  (forall (p : peer) (c : conn) (f : bool) (es : list gen_entry), ~ In (EvSend p c f es) (cs_queue s)) /\
  length (cs_queue s) = length (queue_qids (cs_queue s)) /\
  NoDup (queue_qids (cs_queue s)) /\
  (forall q : qid,
   In q (queue_qids (cs_queue s)) ->
   q < count_gets ops /\
   ~ In q (out_qids (outs_after sdh ops)) /\ ~ In q (task_qids (cs_tasks s)) /\ ~ In q (c2q_qids (cs_c2q s))).
Proof. exact (@Client_props2.C13_queue_bounded). Qed.

Theorem C13_new_blocks_taken :
  forall s : cstate,
  cs_new_blocks (fst (cstep s CTakeNewBlocks)) = [] /\
  snd (cstep s CTakeNewBlocks) = [ONewBlocks (cs_new_blocks s)].
Proof. exact (@Client_props2.C13_new_blocks_taken). Qed.

Theorem C13_peers_exact_refuted :
  exists (ops : list cop) (p : peer),
    open_conns p ops <> [] /\ al_find N.eqb p (cs_peers (st_after true ops)) = None.
Proof. exact (@Client_props2.C13_peers_exact_refuted). Qed.

Theorem C13_conns_exact_refuted :
  exists (ops : list cop) (p : N) (ps : peer_state) (c : conn),
    al_find N.eqb p (cs_peers (st_after true ops)) = Some ps /\ In c (open_conns p ops) /\ ~ In c (p_conns ps).
Proof. exact (@Client_props2.C13_conns_exact_refuted). Qed.

Theorem C13_req_states_after_poll_refuted :
  exists (ops : list cop) (ch : list (peer * conn)) (p : N) (ps : peer_state),
    let s := st_after true (ops ++ [CPoll ch]) in
    al_find N.eqb p (cs_peers s) = Some ps /\
    wl_cids (cs_wl s) = [] /\
    cs_c2q s = [] /\
    cs_abort s = [] /\
    cs_tasks s = [] /\
    keys (p_wl ps) = [ex_c1; ex_c2; ex_c3] /\ stale_cids p true (ops ++ [CPoll ch]) = [ex_c1; ex_c2; ex_c3].
Proof. exact (@Client_props2.C13_req_states_after_poll_refuted). Qed.

Print Assumptions C13_client_proportional.
Print Assumptions C13_peers_bounded.
Print Assumptions C13_conns_step.
Print Assumptions C13_req_states_bounded.
Print Assumptions C13_req_states_after_poll.
Print Assumptions C13_req_states_shrink.
Print Assumptions C13_tasks_bounded.
Print Assumptions C13_tasks_after_poll.
Print Assumptions C13_queue_bounded.
Print Assumptions C13_new_blocks_taken.
Print Assumptions C13_peers_exact_refuted.
Print Assumptions C13_conns_exact_refuted.
Print Assumptions C13_req_states_after_poll_refuted.

(* ---- lifted to networks (package K): a node's client holds state for j only while the net connects them; once the event
   of a query is out the client holds nothing about it. *)
From BS Require Import Types Wantlist Wantlist_proofs2 Client Client_proofs Client_proofs4 Net Net_proofs Net_proofs6 Net_props Net_proofs2 Net_proofs5 Net_proofs21 Net_proofs40 Net_proofs41 Net_proofs42 Net_proofs43 Net_proofs44 Net_proofs45 Net_proofs46 Net_proofs47 Server Net_props4.
From Coq Require Import ZArith Lia.
Open Scope N_scope.

Theorem C13_net_client_released :
  forall (Sz : N) (Hh : hash_fn) (n : nat) (ops : list nop) (i j : N) (ni : node),
  get_node (fst (nrun Sz Hh (net_init n) ops)) i = Some ni ->
  Net.connected (fst (nrun Sz Hh (net_init n) ops)) i j = false ->
  al_find N.eqb j (cs_peers (n_client ni)) = None.
Proof. exact (@Net_props4.C13_net_client_released). Qed.

Theorem C13_net_peers_connected :
  forall (Sz : N) (Hh : hash_fn) (n : nat) (ops : list nop) (i : N) (j : peer) (ni : node) (ps : peer_state),
  get_node (fst (nrun Sz Hh (net_init n) ops)) i = Some ni ->
  In (j, ps) (cs_peers (n_client ni)) ->
  Net.connected (fst (nrun Sz Hh (net_init n) ops)) i j = true /\ p_conns ps = [CONN].
Proof. exact (@Net_props4.C13_net_peers_connected). Qed.

Theorem C13_net_query_released :
  forall (Sz : N) (Hh : hash_fn) (n : nat) (ops : list nop) (i : N) (q : qid) (ni : node),
  get_node (fst (nrun Sz Hh (net_init n) ops)) i = Some ni ->
  In (i, q) (ev_keys (snd (nrun Sz Hh (net_init n) ops))) ->
  ~ In q (task_qids (cs_tasks (n_client ni))) /\
  ~ In q (c2q_qids (cs_c2q (n_client ni))) /\
  ~ In q (queue_qids (cs_queue (n_client ni))) /\ ~ In q (map fst (cs_abort (n_client ni))).
Proof. exact (@Net_props4.C13_net_query_released). Qed.

Print Assumptions C13_net_client_released.
Print Assumptions C13_net_peers_connected.
Print Assumptions C13_net_query_released.
