(* Props_C13.v — C13: state held per peer and per query is bounded and released (server: Server_proofs; client: Client_proofs4/5).
   Statements restated verbatim from the proof files and closed by `exact`; nothing else is proved here. *)
From BS Require Import Bytes Cid Proto Types Server Server_proofs Tie_consts Wantlist Client Client_proofs Client_proofs2 Client_proofs3 Client_proofs4 Client_proofs5.
Open Scope N_scope.

Theorem C13_cap :
  forall Sz ops p s,
  wants_of (snd (srun Sz ops)) p = Some s -> NoDup s /\ len s <= MAX_WANTLIST_ENTRIES_PER_PEER.
Proof. exact (Server_proofs.C13_cap). Qed.

Theorem C13_server_released :
  forall Sz ops1 ops2 p,
  (forall op, In op ops2 -> op <> SNewConn p) ->
  let st := snd (srun Sz (ops1 ++ SDisconnected p :: ops2)) in
  s_panic st = false ->
  wants_of st p = None /\ (forall c l, waiters_of st c = Some l -> ~ In p l).
Proof. exact (Server_proofs.C13_server_released). Qed.

Theorem C13_server_proportional :
  forall Sz ops,
  let st := snd (srun Sz ops) in
  s_panic st = false ->
  map fst (s_wants st) = connected ops /\ NoDup (connected ops) /\
  len (s_wants st) = len (connected ops) /\
  (forall c l, waiters_of st c = Some l -> NoDup l /\ l <> [] /\ forall q, In q l -> In q (connected ops)) /\
  NoDup (map fst (s_waiting st)) /\
  len (s_waiting st) <= MAX_WANTLIST_ENTRIES_PER_PEER * len (connected ops).
Proof. exact (Server_proofs.C13_server_proportional). Qed.

Theorem C13_client_peer_released sdh ops p :
  open_conns p ops = [] -> al_find N.eqb p (cs_peers (st_after sdh ops)) = None.
Proof. exact (Client_proofs4.C13_client_peer_released sdh ops p). Qed.

Theorem C13_query_released sdh ops :
  let s := st_after sdh ops in
  (forall q tid, In (q, tid) (cs_abort s) <->
                 exists c t, In (tid, t) (cs_tasks s) /\ t_kind t = TGet q c /\ t_aborted t = false) /\
  NoDup (map fst (cs_abort s)) /\
  (forall c, In c (wl_cids (cs_wl s)) <-> In c (map fst (cs_c2q s))) /\
  NoDup (wl_cids (cs_wl s)) /\ NoDup (map fst (cs_c2q s)) /\
  (forall c qs, In (c, qs) (cs_c2q s) -> qs <> []) /\
  NoDup (c2q_qids (cs_c2q s)) /\
  (forall q, In q (c2q_qids (cs_c2q s)) ->
     q < count_gets ops /\ ~ In q (out_qids (outs_after sdh ops)) /\
     ~ In q (task_qids (cs_tasks s)) /\ ~ In q (queue_qids (cs_queue s))).
Proof. exact (Client_proofs5.C13_query_released sdh ops). Qed.

Print Assumptions C13_cap.
Print Assumptions C13_server_released.
Print Assumptions C13_server_proportional.
Print Assumptions C13_client_peer_released.
Print Assumptions C13_query_released.
