(* Props_C13.v — C13: state held per peer and per query is bounded and released (server: Server_proofs; client: Client_proofs4/5).
   Statements restated verbatim from the proof files and closed by `exact`; nothing else is proved here. *)
From BS Require Import Bytes Cid Proto Types Server Server_proofs Tie_consts Wantlist Client Client_proofs Client_proofs2 Client_proofs3 Client_proofs4 Client_proofs5.
From BS Require Import Tie_server.   (* tie lemmas: a source edit that changes what they extract breaks this file's closure *)
Open Scope N_scope.

Theorem C13_cap :
  forall Sz ops p s,
  wants_of (snd (srun Sz ops)) p = Some s -> NoDup s /\ len s <= MAX_WANTLIST_ENTRIES_PER_PEER.
Proof. exact (Server_proofs.C13_cap). Qed.

Theorem C13_server_released :
  forall Sz ops1 ops2 p,
  (forall op, In op ops2 -> op <> SNewConn p) ->
  let st := snd (srun Sz (ops1 ++ SDisconnected p :: ops2)) in
  s_panic st = false ->
  wants_of st p = None /\ (forall c l, waiters_of st c = Some l -> ~ In p l).
Proof. exact (Server_proofs.C13_server_released). Qed.

Theorem C13_server_proportional :
  forall Sz ops,
  let st := snd (srun Sz ops) in
  s_panic st = false ->
  map fst (s_wants st) = connected ops /\ NoDup (connected ops) /\
  len (s_wants st) = len (connected ops) /\
  (forall c l, waiters_of st c = Some l -> NoDup l /\ l <> [] /\ forall q, In q l -> In q (connected ops)) /\
  NoDup (map fst (s_waiting st)) /\
  len (s_waiting st) <= MAX_WANTLIST_ENTRIES_PER_PEER * len (connected ops).
Proof. exact (Server_proofs.C13_server_proportional). Qed.

Theorem C13_client_peer_released sdh ops p :
  open_conns p ops = [] -> al_find N.eqb p (cs_peers (st_after sdh ops)) = None.
Proof. exact (Client_proofs4.C13_client_peer_released sdh ops p). Qed.

Theorem C13_query_released sdh ops :
  let s := st_after sdh ops in
  (forall q tid, In (q, tid) (cs_abort s) <->
                 exists c t, In (tid, t) (cs_tasks s) /\ t_kind t = TGet q c /\ t_aborted t = false) /\
  NoDup (map fst (cs_abort s)) /\
  (forall c, In c (wl_cids (cs_wl s)) <-> In c (map fst (cs_c2q s))) /\
  NoDup (wl_cids (cs_wl s)) /\ NoDup (map fst (cs_c2q s)) /\
  (forall c qs, In (c, qs) (cs_c2q s) -> qs <> []) /\
  NoDup (c2q_qids (cs_c2q s)) /\
  (forall q, In q (c2q_qids (cs_c2q s)) ->
     q < count_gets ops /\ ~ In q (out_qids (outs_after sdh ops)) /\
     ~ In q (task_qids (cs_tasks s)) /\ ~ In q (queue_qids (cs_queue s))).
Proof. exact (Client_proofs5.C13_query_released sdh ops). Qed.

Print Assumptions C13_cap.
Print Assumptions C13_server_released.
Print Assumptions C13_server_proportional.
Print Assumptions C13_client_peer_released.
Print Assumptions C13_query_released.

(* ---- client half, proportional bound (package I, Client_proofs7/8).  For ANY op list: one peer entry per peer with an
   open connection at most, its connections a duplicate-free non-empty SUBSET of the open ones; per-peer request states
   keyed by wantlist CIDs plus the CIDs that left the wantlist since that peer's last generated wantlist (`stale_cids`,
   reset by every poll in which the peer may be sent to); tasks = running lookups of live queries + puts in flight +
   aborted lookups awaiting the next poll; event queue drained by every poll; new_blocks emptied by get_new_blocks.
   Two requested clauses are FALSE of the model and of the Rust (…_refuted): (1) a connection (and with its last one the
   peer entry) leaves the client's table on a Failed report / 1 s request timeout although the connection is still open;
   (2) a peer blocked in RequestReceived/Sending keeps request states of CIDs nobody wants any more until it may be sent
   to again (retention of at most its last generated wantlist, no growth: C13_req_states_shrink). *)
From BS Require Import Types Wantlist Wantlist_proofs Client Client_proofs Client_proofs2 Client_proofs3 Client_proofs4 Client_proofs5 Client_proofs7 Client_proofs8 Client_proofs9 Client_props2.
From Coq Require Import ZArith List. Import ListNotations.
Open Scope N_scope.

Theorem C13_client_proportional :
  forall (sdh : bool) (ops : list cop),
  let s := st_after sdh ops in
  (NoDup (map fst (cs_peers s)) /\
   (forall (p : peer) (ps : peer_state),
    In (p, ps) (cs_peers s) ->
    p_conns ps <> [] /\
    NoDup (p_conns ps) /\
    incl (p_conns ps) (open_conns p ops) /\
    (length (p_conns ps) <= length (open_conns p ops))%nat /\ In p (connected_peers ops)) /\
   (length (cs_peers s) <= length (connected_peers ops))%nat) /\
  (forall (p : N) (ps : peer_state),
   al_find N.eqb p (cs_peers s) = Some ps ->
   NoDup (keys (p_wl ps)) /\
   (forall c : cid, In c (keys (p_wl ps)) -> In c (wl_cids (cs_wl s)) \/ In c (stale_cids p sdh ops)) /\
   (length (req (p_wl ps)) <= length (cs_c2q s) + length (stale_cids p sdh ops))%nat) /\
  (NoDup (map fst (cs_tasks s)) /\
   (forall (tid : N) (t : task),
    In (tid, t) (cs_tasks s) ->
    match t_kind t with
    | TGet q _ => t_aborted t = false /\ In (q, tid) (cs_abort s) \/ t_aborted t = true /\ In tid (cs_ready s)
    | TPut bl => bl <> []
    end) /\
   length (cs_tasks s) =
   (length (cs_abort s) + length (filter aborted_get (cs_tasks s)) + length (filter is_put (cs_tasks s)))%nat /\
   (length (filter aborted_get (cs_tasks s)) <= length (cs_ready s))%nat /\
   NoDup (cs_ready s) /\
   incl (cs_ready s) (map fst (cs_tasks s)) /\ (length (cs_ready s) <= length (cs_tasks s))%nat) /\
  ((forall (p : peer) (c : conn) (f : bool) (es : list gen_entry), ~ In (EvSend p c f es) (cs_queue s)) /\
   length (cs_queue s) = length (queue_qids (cs_queue s)) /\
   NoDup (queue_qids (cs_queue s)) /\
   (forall q : qid,
    In q (queue_qids (cs_queue s)) ->
    q < count_gets ops /\
    ~ In q (out_qids (outs_after sdh ops)) /\ ~ In q (task_qids (cs_tasks s)) /\ ~ In q (c2q_qids (cs_c2q s)))) /\
  (forall (ops0 : list cop) (ch : list (peer * conn)),
   ops = ops0 ++ [CPoll ch] ->
   cs_ready s = [] /\
   cs_queue s = [] /\
   (forall (tid : N) (t : task),
    In (tid, t) (cs_tasks s) ->
    exists n : N,
      t_call t = Some n /\
      t_result t = None /\
      match t_kind t with
      | TGet q _ => t_aborted t = false /\ In (q, tid) (cs_abort s)
      | TPut bl => bl <> []
      end) /\
   filter aborted_get (cs_tasks s) = [] /\
   length (cs_tasks s) = (length (cs_abort s) + length (filter is_put (cs_tasks s)))%nat /\
   (forall (p : peer) (ps : peer_state),
    is_open p (st_after sdh ops0) = true ->
    al_find N.eqb p (cs_peers s) = Some ps ->
    stale_cids p sdh ops = [] /\
    incl (keys (p_wl ps)) (wl_cids (cs_wl s)) /\ (length (req (p_wl ps)) <= length (cs_c2q s))%nat)) /\
  cs_new_blocks (fst (cstep s CTakeNewBlocks)) = [].
Proof. exact (@Client_props2.C13_client_proportional). Qed.

Theorem C13_peers_bounded :
  forall (sdh : bool) (ops : list cop),
  let s := st_after sdh ops in
  NoDup (map fst (cs_peers s)) /\
  (forall (p : peer) (ps : peer_state),
   In (p, ps) (cs_peers s) ->
   p_conns ps <> [] /\
   NoDup (p_conns ps) /\
   incl (p_conns ps) (open_conns p ops) /\
   (length (p_conns ps) <= length (open_conns p ops))%nat /\ In p (connected_peers ops)) /\
  (length (cs_peers s) <= length (connected_peers ops))%nat.
Proof. exact (@Client_props2.C13_peers_bounded). Qed.

Theorem C13_conns_step :
  forall (s : cstate) (o : cop) (p : peer) (ps' : peer_state),
  NoDup (map fst (cs_peers s)) ->
  In (p, ps') (cs_peers (fst (cstep s o))) ->
  (exists c : conn, o = CNewConn p c /\ al_find N.eqb p (cs_peers s) = None /\ p_conns ps' = [c]) \/
  (exists ps : peer_state,
     al_find N.eqb p (cs_peers s) = Some ps /\
     (p_conns ps' = p_conns ps \/
      (exists c : conn, o = CNewConn p c /\ p_conns ps' = p_conns (add_conn c ps)) \/
      (exists c : conn, o = CConnClosed p c /\ p_conns ps' = n_remove c (p_conns ps)) \/
      (exists (ch : list (peer * conn)) (c0 : N),
         o = CPoll ch /\
         p_conns ps' = n_remove c0 (p_conns ps) /\
         (p_ss ps = SsFailed c0 \/
          (exists t : time, p_ss ps = SsRequested t c0 /\ (cs_now s - t <? RECEIVE_REQUEST_TIMEOUT) = false))))).
Proof. exact (@Client_props2.C13_conns_step). Qed.

Theorem C13_req_states_bounded :
  forall (sdh : bool) (ops : list cop) (p : N) (ps : peer_state),
  let s := st_after sdh ops in
  al_find N.eqb p (cs_peers s) = Some ps ->
  NoDup (keys (p_wl ps)) /\
  (forall c : cid, In c (keys (p_wl ps)) -> In c (wl_cids (cs_wl s)) \/ In c (stale_cids p sdh ops)) /\
  (length (req (p_wl ps)) <= length (cs_c2q s) + length (stale_cids p sdh ops))%nat.
Proof. exact (@Client_props2.C13_req_states_bounded). Qed.

Theorem C13_req_states_after_poll :
  forall (sdh : bool) (ops : list cop) (ch : list (peer * conn)) (p : peer) (ps : peer_state),
  let s := st_after sdh (ops ++ [CPoll ch]) in
  is_open p (st_after sdh ops) = true ->
  al_find N.eqb p (cs_peers s) = Some ps ->
  incl (keys (p_wl ps)) (wl_cids (cs_wl s)) /\ (length (req (p_wl ps)) <= length (cs_c2q s))%nat.
Proof. exact (@Client_props2.C13_req_states_after_poll). Qed.

Theorem C13_req_states_shrink :
  forall (s : cstate) (o : cop) (p : peer) (ps' : peer_state),
  NoDup (map fst (cs_peers s)) ->
  INVBJ s ->
  is_open p s = false \/ (forall ch : list (peer * conn), o <> CPoll ch) ->
  al_find N.eqb p (cs_peers (fst (cstep s o))) = Some ps' ->
  keys (p_wl ps') = [] \/
  (exists ps : peer_state, al_find N.eqb p (cs_peers s) = Some ps /\ incl (keys (p_wl ps')) (keys (p_wl ps))).
Proof. exact (@Client_props2.C13_req_states_shrink). Qed.

Theorem C13_tasks_bounded :
  forall (sdh : bool) (ops : list cop),
  let s := st_after sdh ops in
  NoDup (map fst (cs_tasks s)) /\
  (forall (tid : N) (t : task),
   In (tid, t) (cs_tasks s) ->
   match t_kind t with
   | TGet q _ => t_aborted t = false /\ In (q, tid) (cs_abort s) \/ t_aborted t = true /\ In tid (cs_ready s)
   | TPut bl => bl <> []
   end) /\
  length (cs_tasks s) =
  (length (cs_abort s) + length (filter aborted_get (cs_tasks s)) + length (filter is_put (cs_tasks s)))%nat /\
  (length (filter aborted_get (cs_tasks s)) <= length (cs_ready s))%nat /\
  NoDup (cs_ready s) /\
  incl (cs_ready s) (map fst (cs_tasks s)) /\ (length (cs_ready s) <= length (cs_tasks s))%nat.
Proof. exact (@Client_props2.C13_tasks_bounded). Qed.

Theorem C13_tasks_after_poll :
  forall (sdh : bool) (ops : list cop) (ch : list (peer * conn)),
  let s := st_after sdh (ops ++ [CPoll ch]) in
  cs_ready s = [] /\
  cs_queue s = [] /\
  (forall (tid : N) (t : task),
   In (tid, t) (cs_tasks s) ->
   exists n : N,
     t_call t = Some n /\
     t_result t = None /\
     match t_kind t with
     | TGet q _ => t_aborted t = false /\ In (q, tid) (cs_abort s)
     | TPut bl => bl <> []
     end) /\
  filter aborted_get (cs_tasks s) = [] /\
  length (cs_tasks s) = (length (cs_abort s) + length (filter is_put (cs_tasks s)))%nat.
Proof. exact (@Client_props2.C13_tasks_after_poll). Qed.

Theorem C13_queue_bounded :
  forall (sdh : bool) (ops : list cop),
  let s := st_after sdh ops in
  (forall (p : peer) (c : conn) (f : bool) (es : list gen_entry), ~ In (EvSend p c f es) (cs_queue s)) /\
  length (cs_queue s) = length (queue_qids (cs_queue s)) /\
  NoDup (queue_qids (cs_queue s)) /\
  (forall q : qid,
   In q (queue_qids (cs_queue s)) ->
   q < count_gets ops /\
   ~ In q (out_qids (outs_after sdh ops)) /\ ~ In q (task_qids (cs_tasks s)) /\ ~ In q (c2q_qids (cs_c2q s))).
Proof. exact (@Client_props2.C13_queue_bounded). Qed.

Theorem C13_new_blocks_taken :
  forall s : cstate,
  cs_new_blocks (fst (cstep s CTakeNewBlocks)) = [] /\
  snd (cstep s CTakeNewBlocks) = [ONewBlocks (cs_new_blocks s)].
Proof. exact (@Client_props2.C13_new_blocks_taken). Qed.

Theorem C13_peers_exact_refuted :
  exists (ops : list cop) (p : peer),
    open_conns p ops <> [] /\ al_find N.eqb p (cs_peers (st_after true ops)) = None.
Proof. exact (@Client_props2.C13_peers_exact_refuted). Qed.

Theorem C13_conns_exact_refuted :
  exists (ops : list cop) (p : N) (ps : peer_state) (c : conn),
    al_find N.eqb p (cs_peers (st_after true ops)) = Some ps /\ In c (open_conns p ops) /\ ~ In c (p_conns ps).
Proof. exact (@Client_props2.C13_conns_exact_refuted). Qed.

Theorem C13_req_states_after_poll_refuted :
  exists (ops : list cop) (ch : list (peer * conn)) (p : N) (ps : peer_state),
    let s := st_after true (ops ++ [CPoll ch]) in
    al_find N.eqb p (cs_peers s) = Some ps /\
    wl_cids (cs_wl s) = [] /\
    cs_c2q s = [] /\
    cs_abort s = [] /\
    cs_tasks s = [] /\
    keys (p_wl ps) = [ex_c1; ex_c2; ex_c3] /\ stale_cids p true (ops ++ [CPoll ch]) = [ex_c1; ex_c2; ex_c3].
Proof. exact (@Client_props2.C13_req_states_after_poll_refuted). Qed.

Print Assumptions C13_client_proportional.
Print Assumptions C13_peers_bounded.
Print Assumptions C13_conns_step.
Print Assumptions C13_req_states_bounded.
Print Assumptions C13_req_states_after_poll.
Print Assumptions C13_req_states_shrink.
Print Assumptions C13_tasks_bounded.
Print Assumptions C13_tasks_after_poll.
Print Assumptions C13_queue_bounded.
Print Assumptions C13_new_blocks_taken.
Print Assumptions C13_peers_exact_refuted.
Print Assumptions C13_conns_exact_refuted.
Print Assumptions C13_req_states_after_poll_refuted.

(* ---- lifted to networks (package K): a node's client holds state for j only while the net connects them; once the event
   of a query is out the client holds nothing about it. *)
From BS Require Import Types Wantlist Wantlist_proofs2 Client Client_proofs Client_proofs4 Net Net_proofs Net_proofs6 Net_props Net_proofs2 Net_proofs5 Net_proofs21 Net_proofs40 Net_proofs41 Net_proofs42 Net_proofs43 Net_proofs44 Net_proofs45 Net_proofs46 Net_proofs47 Server Net_props4.
From Coq Require Import ZArith Lia.
Open Scope N_scope.

Theorem C13_net_client_released :
  forall (Sz : N) (Hh : hash_fn) (n : nat) (ops : list nop) (i j : N) (ni : node),
  get_node (fst (nrun Sz Hh (net_init n) ops)) i = Some ni ->
  Net.connected (fst (nrun Sz Hh (net_init n) ops)) i j = false ->
  al_find N.eqb j (cs_peers (n_client ni)) = None.
Proof. exact (@Net_props4.C13_net_client_released). Qed.

Theorem C13_net_peers_connected :
  forall (Sz : N) (Hh : hash_fn) (n : nat) (ops : list nop) (i : N) (j : peer) (ni : node) (ps : peer_state),
  get_node (fst (nrun Sz Hh (net_init n) ops)) i = Some ni ->
  In (j, ps) (cs_peers (n_client ni)) ->
  Net.connected (fst (nrun Sz Hh (net_init n) ops)) i j = true /\ p_conns ps = [CONN].
Proof. exact (@Net_props4.C13_net_peers_connected). Qed.

Theorem C13_net_query_released :
  forall (Sz : N) (Hh : hash_fn) (n : nat) (ops : list nop) (i : N) (q : qid) (ni : node),
  get_node (fst (nrun Sz Hh (net_init n) ops)) i = Some ni ->
  In (i, q) (ev_keys (snd (nrun Sz Hh (net_init n) ops))) ->
  ~ In q (task_qids (cs_tasks (n_client ni))) /\
  ~ In q (c2q_qids (cs_c2q (n_client ni))) /\
  ~ In q (queue_qids (cs_queue (n_client ni))) /\ ~ In q (map fst (cs_abort (n_client ni))).
Proof. exact (@Net_props4.C13_net_query_released). Qed.

Print Assumptions C13_net_client_released.
Print Assumptions C13_net_peers_connected.
Print Assumptions C13_net_query_released.

(* ---- lifted to networks (package Q): per-peer and per-query state of BOTH halves is bounded and released in every reachable net —
   any number of nodes, connections, queries and steps, every schedule of deliveries and store completions Net.v can produce.
   Two requested statements are false of the faithful composition and are registered as `_refuted` with the strongest true variant:
   lookups started for a peer outlive its disconnect (the blocks they load are discarded), and a client whose peer is blocked in a
   transmission keeps request states nobody wants (`C13_net_client_total_partial` counts them as `stale_total`). *)
From BS Require Import Net_proofs50 Net_proofs51 Net_proofs52 Net_proofs53 Net_proofs54 Net_props5.

Theorem C13_net_server_bounded :
  forall (Sz : N) (Hh : hash_fn),
  32 <= Sz ->
  forall (n : nat) (ops : list nop),
  Forall (nop_good Sz Hh) ops ->
  let s := fst (nrun Sz Hh (net_init n) ops) in
  forall (j : N) (nj : node),
  get_node s j = Some nj ->
  let st := n_server nj in
  (NoDup (map fst (s_wants st)) /\
   (forall p : peer, In p (map fst (s_wants st)) <-> Net.connected s j p = true) /\
   (forall (p : N) (ws : list cid),
    alookup N.eqb p (s_wants st) = Some ws ->
    NoDup ws /\ len ws <= MAX_WANTLIST_ENTRIES_PER_PEER /\ Net.connected s j p = true) /\
   (length (s_wants st) <= npeers s j)%nat) /\
  (NoDup (map fst (s_waiting st)) /\
   (forall (c : cid) (l : list peer),
    alookup cid_eqb c (s_waiting st) = Some l ->
    NoDup l /\
    l <> [] /\
    (forall p : peer,
     In p l ->
     Net.connected s j p = true /\ (exists ws : list cid, alookup N.eqb p (s_wants st) = Some ws /\ In c ws))) /\
   regs_total (s_waiting st) = wants_total (s_wants st) /\ (wants_total (s_wants st) <= 1024 * npeers s j)%nat) /\
  ((tasks_n st <= count_smsg (sops_run Sz Hh (net_init n) ops j))%nat /\
   (tasks_n st <= count_dw j ops)%nat /\
   (forall t : task, In t (s_ready st) -> (task_size t <= 1024)%nat) /\
   (forall (k : N) (c : cid) (t : task),
    In (k, (c, t)) (s_blocked st) -> (task_size t + 1 <= 1024)%nat /\ k < s_next_call st) /\
   NoDup (map fst (s_blocked st)) /\
   (forall (k : N) (c : cid),
    In (KSGet k c) (n_calls nj) ->
    k < s_next_call st /\ (forall (c' : cid) (t : task), In (k, (c', t)) (s_blocked st) -> c' = c))) /\
  s_panic st = false.
Proof. exact (@Net_props5.C13_net_server_bounded). Qed.

Theorem C13_net_lookup_released :
  forall (Sz : N) (Hh : hash_fn),
  32 <= Sz ->
  forall (s : net) (j k : N) (nj : node) (m : N) (c : cid),
  net_ok Sz Hh s ->
  get_node s j = Some nj ->
  nth_error (n_calls nj) (N.to_nat k) = Some (KSGet m c) ->
  exists nj' : node,
    get_node (fst (nstep Sz Hh s (NStore j k))) j = Some nj' /\
    n_calls nj' = remove_nth (N.to_nat k) (n_calls nj) /\
    ~ In m (map fst (s_blocked (n_server nj'))) /\
    (tasks_n (n_server nj') <= tasks_n (n_server nj))%nat /\
    s_wants (n_server nj') = s_wants (n_server nj) /\ s_waiting (n_server nj') = s_waiting (n_server nj).
Proof. exact (@Net_props5.C13_net_lookup_released). Qed.

Theorem C13_net_server_calls_exact :
  forall (Sz : N) (Hh : hash_fn),
  32 <= Sz ->
  forall (n : nat) (ops : list nop),
  Forall (nop_good Sz Hh) ops ->
  Forall (Net_proofs7.nop_wf Sz) ops ->
  let s := fst (nrun Sz Hh (net_init n) ops) in
  forall (j : N) (nj : node),
  get_node s j = Some nj ->
  let st := n_server nj in
  NoDup (srv_calls (n_calls nj)) /\
  (forall k : N, In k (srv_calls (n_calls nj)) <-> In k (map fst (s_blocked st))) /\
  (forall (k : N) (c : cid), In (KSGet k c) (n_calls nj) <-> (exists t : task, In (k, (c, t)) (s_blocked st))) /\
  length (srv_calls (n_calls nj)) = length (s_blocked st) /\
  (length (srv_calls (n_calls nj)) <= count_dw j ops)%nat.
Proof. exact (@Net_props5.C13_net_server_calls_exact). Qed.

Theorem C13_net_wires_between_connected :
  forall (Sz : N) (Hh : hash_fn) (n : nat) (ops : list nop), wires_conn (fst (nrun Sz Hh (net_init n) ops)).
Proof. exact (@Net_props5.reachable_wires_conn). Qed.

Theorem C13_net_server_released :
  forall (Sz : N) (Hh : hash_fn),
  32 <= Sz ->
  forall (n : nat) (ops : list nop),
  Forall (nop_good Sz Hh) ops ->
  let s := fst (nrun Sz Hh (net_init n) ops) in
  forall j p : N,
  Net.connected s j p = false ->
  (forall nj : node,
   get_node s j = Some nj ->
   alookup N.eqb p (s_wants (n_server nj)) = None /\
   (forall (c : cid) (l : list peer), alookup cid_eqb c (s_waiting (n_server nj)) = Some l -> ~ In p l)) /\
  (forall m : bmsg, In m (wire_b s) -> b_touches j p m = false) /\
  (forall m : wmsg, In m (wire_w s) -> w_touches j p m = false).
Proof. exact (@Net_props5.C13_net_server_released). Qed.

Theorem C13_net_server_released_after :
  forall (Sz : N) (Hh : hash_fn),
  32 <= Sz ->
  forall (n : nat) (ops1 : list nop) (a b : N) (ops2 : list nop),
  Forall (nop_good Sz Hh) (ops1 ++ NDisconnect a b :: ops2) ->
  (forall o : nop, In o ops2 -> o <> NConnect a b /\ o <> NConnect b a) ->
  let s := fst (nrun Sz Hh (net_init n) (ops1 ++ NDisconnect a b :: ops2)) in
  (forall na : node,
   get_node s a = Some na ->
   alookup N.eqb b (s_wants (n_server na)) = None /\
   (forall (c : cid) (l : list peer), alookup cid_eqb c (s_waiting (n_server na)) = Some l -> ~ In b l)) /\
  (forall nb : node,
   get_node s b = Some nb ->
   alookup N.eqb a (s_wants (n_server nb)) = None /\
   (forall (c : cid) (l : list peer), alookup cid_eqb c (s_waiting (n_server nb)) = Some l -> ~ In a l)) /\
  (forall m : bmsg, In m (wire_b s) -> b_touches a b m = false) /\
  (forall m : wmsg, In m (wire_w s) -> w_touches a b m = false).
Proof. exact (@Net_props5.C13_net_server_released_after). Qed.

Theorem C13_net_outq_empty :
  forall (Sz : N) (Hh : hash_fn),
  32 <= Sz ->
  forall (n : nat) (ops : list nop),
  Forall (nop_good Sz Hh) ops ->
  forall (j : N) (nj : node),
  get_node (fst (nrun Sz Hh (net_init n) ops)) j = Some nj -> s_outq (n_server nj) = [].
Proof. exact (@Net_props5.reachable_outq_nil). Qed.

Theorem C13_net_lookups_outlive_disconnect_refuted :
  exists (ops : list nop) (j p : N) (nj : node) (k : N) (c : cid) (t : task),
    Forall (nop_good SZ toyH) ops /\
    Forall (Net_proofs7.nop_wf SZ) ops /\
    (exists ops1 : list nop, ops = ops1 ++ [NDisconnect p j]) /\
    get_node (fst (nrun SZ toyH (net_init 2) ops)) j = Some nj /\
    Net.connected (fst (nrun SZ toyH (net_init 2) ops)) j p = false /\
    s_wants (n_server nj) = [] /\
    s_waiting (n_server nj) = [] /\
    s_blocked (n_server nj) = [(k, (c, t))] /\
    t_peer t = p /\
    n_calls nj = [KSGet k c] /\
    option_map (fun n : node => s_ready (n_server n))
      (get_node (fst (nrun SZ toyH (net_init 2) (ops ++ [NStore j 0]))) j) =
    Some [{| t_peer := p; t_done := [(c, SHit d1)]; t_todo := [] |}] /\
    option_map (fun n : node => (tasks_n (n_server n), s_outq (n_server n)))
      (get_node (fst (nrun SZ toyH (net_init 2) (ops ++ [NStore j 0; NPoll j]))) j) = 
    Some (0%nat, []) /\ wire_b (fst (nrun SZ toyH (net_init 2) (ops ++ [NStore j 0; NPoll j]))) = [].
Proof. exact (@Net_props5.C13_net_server_released_refuted). Qed.

Theorem C13_net_client_bounded :
  forall (Sz : N) (Hh : hash_fn),
  32 <= Sz ->
  forall (n : nat) (ops : list nop),
  Forall (nop_good Sz Hh) ops ->
  let s := fst (nrun Sz Hh (net_init n) ops) in
  let evs := snd (nrun Sz Hh (net_init n) ops) in
  forall (i : N) (ni : node),
  get_node s i = Some ni ->
  let cl := n_client ni in
  let g := cops_run Sz Hh (net_init n) ops i in
  (NoDup (map fst (cs_peers cl)) /\
   (forall (p : peer) (ps : peer_state),
    In (p, ps) (cs_peers cl) -> Net.connected s i p = true /\ p_conns ps = [CONN]) /\
   (forall p : N, Net.connected s i p = false -> al_find N.eqb p (cs_peers cl) = None) /\
   (length (cs_peers cl) <= npeers s i)%nat) /\
  (forall (p : N) (ps : peer_state),
   al_find N.eqb p (cs_peers cl) = Some ps ->
   NoDup (Client_proofs7.keys (p_wl ps)) /\
   (forall c : cid,
    In c (Client_proofs7.keys (p_wl ps)) ->
    In c (wl_cids (cs_wl cl)) \/ In c (Client_proofs7.stale_cids p true g)) /\
   (length (req (p_wl ps)) <= length (cs_c2q cl) + length (Client_proofs7.stale_cids p true g))%nat) /\
  (NoDup (wl_cids (cs_wl cl)) /\
   NoDup (map fst (cs_c2q cl)) /\
   NoDup (c2q_qids (cs_c2q cl)) /\
   length (wl_cids (cs_wl cl)) = length (cs_c2q cl) /\
   (forall c : cid, In c (wl_cids (cs_wl cl)) <-> (exists qs : list qid, In (c, qs) (cs_c2q cl))) /\
   (forall (c : cid) (qs : list qid),
    In (c, qs) (cs_c2q cl) ->
    qs <> [] /\
    (forall q : qid,
     In q qs ->
     q < count_ngets i ops /\
     ~ In (i, q) (ev_keys evs) /\ ~ In q (task_qids (cs_tasks cl)) /\ ~ In q (queue_qids (cs_queue cl))))) /\
  (NoDup (map fst (cs_tasks cl)) /\
   (forall (tid : N) (t : Client.task),
    In (tid, t) (cs_tasks cl) ->
    match t_kind t with
    | TGet q _ =>
        t_aborted t = false /\ In (q, tid) (cs_abort cl) \/ t_aborted t = true /\ In tid (cs_ready cl)
    | TPut bl => bl <> []
    end) /\
   length (cs_tasks cl) =
   (length (cs_abort cl) + length (filter Client_proofs8.aborted_get (cs_tasks cl)) +
    length (filter Client_proofs8.is_put (cs_tasks cl)))%nat /\
   (length (filter Client_proofs8.aborted_get (cs_tasks cl)) <= length (cs_ready cl))%nat /\
   NoDup (cs_ready cl) /\
   incl (cs_ready cl) (map fst (cs_tasks cl)) /\
   NoDup (map fst (cs_abort cl)) /\
   (forall (q : qid) (tid : N),
    In (q, tid) (cs_abort cl) ->
    q < count_ngets i ops /\
    (exists (c : cid) (t : Client.task),
       In (tid, t) (cs_tasks cl) /\ t_kind t = TGet q c /\ t_aborted t = false))) /\
  (forall (p : peer) (c : conn) (f : bool) (es : list gen_entry), ~ In (EvSend p c f es) (cs_queue cl)) /\
  length (cs_queue cl) = length (queue_qids (cs_queue cl)) /\
  NoDup (queue_qids (cs_queue cl)) /\
  (forall q : qid,
   In q (queue_qids (cs_queue cl)) ->
   q < count_ngets i ops /\
   ~ In (i, q) (ev_keys evs) /\ ~ In q (task_qids (cs_tasks cl)) /\ ~ In q (c2q_qids (cs_c2q cl))).
Proof. exact (@Net_props5.C13_net_client_bounded). Qed.

Theorem C13_net_wantlist_only_live :
  forall (Sz : N) (Hh : hash_fn) (n : nat) (ops : list nop) (i : N) (ni : node) (c : cid),
  get_node (fst (nrun Sz Hh (net_init n) ops)) i = Some ni ->
  In c (wl_cids (cs_wl (n_client ni))) ->
  exists (q : qid) (qs : list qid),
    In (c, qs) (cs_c2q (n_client ni)) /\
    In q qs /\
    q < count_ngets i ops /\
    ~ In (i, q) (ev_keys (snd (nrun Sz Hh (net_init n) ops))) /\
    (forall ops1 ops2 : list nop,
     ops = ops1 ++ NCancel i q :: ops2 ->
     q < count_ngets i ops1 ->
     exists ni1 : node,
       get_node (fst (nrun Sz Hh (net_init n) ops1)) i = Some ni1 /\
       In q (queue_qids (cs_queue (n_client ni1)))).
Proof. exact (@Net_props5.C13_net_wantlist_only_live). Qed.

Theorem C13_net_query_cancel_released :
  forall (Sz : N) (Hh : hash_fn) (n : nat) (ops1 : list nop) (i q : N) (ops2 : list nop) (ni : node),
  q < count_ngets i ops1 ->
  ~ In (i, q) (ev_keys (snd (nrun Sz Hh (net_init n) ops1))) ->
  (forall ni1 : node,
   get_node (fst (nrun Sz Hh (net_init n) ops1)) i = Some ni1 -> ~ In q (queue_qids (cs_queue (n_client ni1)))) ->
  get_node (fst (nrun Sz Hh (net_init n) (ops1 ++ NCancel i q :: ops2))) i = Some ni ->
  ~ In q (c2q_qids (cs_c2q (n_client ni))) /\
  ~ In q (queue_qids (cs_queue (n_client ni))) /\
  ~ In q (map fst (cs_abort (n_client ni))) /\
  (forall (tid : N) (t : Client.task) (c : cid),
   In (tid, t) (cs_tasks (n_client ni)) -> t_kind t = TGet q c -> t_aborted t = true).
Proof. exact (@Net_props5.C13_net_query_cancel_released). Qed.

Theorem C13_net_query_released_all :
  forall (Sz : N) (Hh : hash_fn) (n : nat) (ops : list nop) (i : N) (q : qid) (ni : node),
  get_node (fst (nrun Sz Hh (net_init n) ops)) i = Some ni ->
  In (i, q) (ev_keys (snd (nrun Sz Hh (net_init n) ops))) \/
  (exists ops1 ops2 : list nop,
     ops = ops1 ++ NCancel i q :: ops2 /\
     q < count_ngets i ops1 /\
     (forall ni1 : node,
      get_node (fst (nrun Sz Hh (net_init n) ops1)) i = Some ni1 ->
      ~ In q (queue_qids (cs_queue (n_client ni1))))) ->
  ~ In q (c2q_qids (cs_c2q (n_client ni))) /\
  ~ In q (queue_qids (cs_queue (n_client ni))) /\
  ~ In q (map fst (cs_abort (n_client ni))) /\
  (forall (tid : N) (t : Client.task) (c : cid),
   In (tid, t) (cs_tasks (n_client ni)) -> t_kind t = TGet q c -> t_aborted t = true).
Proof. exact (@Net_props5.C13_net_query_released_all). Qed.

Theorem C13_net_total_bound :
  forall (Sz : N) (Hh : hash_fn),
  32 <= Sz ->
  forall (n : nat) (ops : list nop),
  Forall (nop_good Sz Hh) ops ->
  let s := fst (nrun Sz Hh (net_init n) ops) in
  forall (j : N) (nj : node),
  get_node s j = Some nj ->
  let st := n_server nj in
  s_outq st = [] /\
  (srv_size st <= 2 * 1024 * npeers s j + 1025 * tasks_n st)%nat /\
  (srv_work st <= srv_size st)%nat /\
  (tasks_n st <= count_dw j ops)%nat /\
  (Forall (Net_proofs7.nop_wf Sz) ops ->
   (forall (k : N) (c : cid) (t : task), In (k, (c, t)) (s_blocked st) -> In (KSGet k c) (n_calls nj)) /\
   (length (s_blocked st) <= length (srv_calls (n_calls nj)))%nat).
Proof. exact (@Net_props5.C13_net_total_bound). Qed.

Theorem C13_net_client_total_partial :
  forall (Sz : N) (Hh : hash_fn),
  32 <= Sz ->
  forall (n : nat) (ops : list nop),
  Forall (nop_good Sz Hh) ops ->
  let s := fst (nrun Sz Hh (net_init n) ops) in
  forall (i : N) (ni : node),
  get_node s i = Some ni ->
  let cl := n_client ni in
  let g := cops_run Sz Hh (net_init n) ops i in
  (reqs_total (cs_peers cl) <= npeers s i * length (cs_c2q cl) + stale_total g (cs_peers cl))%nat /\
  (cl_size cl <=
   (4 + npeers s i) * live_queries cl + stale_total g (cs_peers cl) +
   2 *
   (length (filter Client_proofs8.aborted_get (cs_tasks cl)) +
    length (filter Client_proofs8.is_put (cs_tasks cl))))%nat.
Proof. exact (@Net_props5.C13_net_client_total_partial). Qed.

Theorem C13_net_client_total_refuted :
  exists (ops : list nop) (i : N) (ni : node),
    Forall (nop_good SZ toyH) ops /\
    Forall (Net_proofs7.nop_wf SZ) ops /\
    get_node (fst (nrun SZ toyH (net_init 2) ops)) i = Some ni /\
    live_queries (n_client ni) = 0%nat /\
    cs_tasks (n_client ni) = [] /\
    wl_cids (cs_wl (n_client ni)) = [] /\
    npeers (fst (nrun SZ toyH (net_init 2) ops)) i = 1%nat /\
    map (fun e : peer * peer_state => (fst e, Client_proofs7.keys (p_wl (snd e)))) (cs_peers (n_client ni)) =
    [(1, [c1])] /\ cl_size (n_client ni) = 1%nat.
Proof. exact (@Net_props5.C13_net_client_total_refuted). Qed.

Print Assumptions C13_net_server_bounded.
Print Assumptions C13_net_lookup_released.
Print Assumptions C13_net_server_calls_exact.
Print Assumptions C13_net_wires_between_connected.
Print Assumptions C13_net_server_released.
Print Assumptions C13_net_server_released_after.
Print Assumptions C13_net_outq_empty.
Print Assumptions C13_net_lookups_outlive_disconnect_refuted.
Print Assumptions C13_net_client_bounded.
Print Assumptions C13_net_wantlist_only_live.
Print Assumptions C13_net_query_cancel_released.
Print Assumptions C13_net_query_released_all.
Print Assumptions C13_net_total_bound.
Print Assumptions C13_net_client_total_partial.
Print Assumptions C13_net_client_total_refuted.
