(* RefProto.v — reference decoder for the Bitswap 1.2.0 `Message`, written from
   /repo/src/proto/message.proto and the proto3 wire-format rules only (no cursors, no quick-protobuf).

   1. A byte string is tokenised into a list of fields `(field number, payload)`; the wire type is the
      constructor of the payload: 0 = PVarint, 1 = PFixed64, 2 = PBytes, 5 = PFixed32.
        key     = varint, must be < 2^32; field number = key / 8, must be >= 1; wire type = key mod 8
        varint  = at most ten bytes, little-endian base 128, value taken modulo 2^64; non-minimal
                  encodings are accepted
        wire types 3, 4 (groups), 6, 7 are rejected.
   2. The token list is interpreted against the schema:
        * a field number with the wire type the schema expects sets (singular scalar: last one wins),
          appends (repeated), or MERGES (singular message field `wantlist`: the payload is decoded on
          top of the value decoded so far, as proto3 prescribes);
        * any other (field number, wire type) is an unknown field and is skipped;
        * int32 / enum = low 32 bits of the varint (kept as the u32 bit pattern, as in Proto.v);
          an enum number that is not declared decodes as the default (first) value;
          bool = (varint <> 0).

   `in_classb` is the class of encodings on which quick-protobuf 0.8.1 is expected to agree with this
   decoder (C11_accept_noncanonical).  It excludes exactly the two places where quick-protobuf deviates
   from proto3:
     * values read with `read_varint32` where the 64-bit value does not fit 32 bits and the excess is
       significant: bool varints >= 2^32, lengths of known length-delimited fields >= 2^32
       (int32/enum fields are NOT restricted: there truncation to 32 bits is what proto3 asks for, so
       ten-byte negative numbers are in the class);
     * the singular message field `wantlist` occurring more than once (quick-protobuf replaces, proto3
       merges).
   Everything else is inside: any field order, unknown fields anywhere, explicit defaults, non-minimal
   varints. *)
From BS Require Export Bytes Proto.

Inductive payload :=
| PVarint (v : N)
| PFixed64 (b : bytes)
| PBytes (b : bytes)
| PFixed32 (b : bytes).

Definition token : Type := N * payload.

Definition wire_type (p : payload) : N :=
  match p with PVarint _ => 0 | PFixed64 _ => 1 | PBytes _ => 2 | PFixed32 _ => 5 end.

(* base-128 varint, at most `n` more bytes; k = index of the next byte; acc = value so far *)
Fixpoint ref_varint_go (n : nat) (k acc : N) (w : bytes) : option (N * bytes) :=
  match n, w with
  | O, _ => None
  | _, [] => None
  | S n', b :: r =>
      let acc' := acc + (b mod 128) * 2 ^ (7 * k) in
      if b <? 128 then Some (acc' mod 2 ^ 64, r) else ref_varint_go n' (k + 1) acc' r
  end.
Definition ref_varint (w : bytes) : option (N * bytes) := ref_varint_go 10 0 0 w.

(* split off exactly n bytes *)
Definition take (n : N) (w : bytes) : option (bytes * bytes) :=
  if n <=? len w then Some (firstn (N.to_nat n) w, skipn (N.to_nat n) w) else None.

Definition ref_token (w : bytes) : option (token * bytes) :=
  match ref_varint w with
  | None => None
  | Some (key, r) =>
      if (key <? 2 ^ 32) && (1 <=? key / 8) then
        let f := key / 8 in
        let wt := key mod 8 in
        if wt =? 0 then
          match ref_varint r with Some (v, r') => Some ((f, PVarint v), r') | None => None end
        else if wt =? 1 then
          match take 8 r with Some (b, r') => Some ((f, PFixed64 b), r') | None => None end
        else if wt =? 2 then
          match ref_varint r with
          | Some (l, r1) =>
              match take l r1 with Some (b, r') => Some ((f, PBytes b), r') | None => None end
          | None => None
          end
        else if wt =? 5 then
          match take 4 r with Some (b, r') => Some ((f, PFixed32 b), r') | None => None end
        else None
      else None
  end.

(* every token takes at least two bytes, so `length w` is enough fuel *)
Fixpoint tokenise_go (fuel : nat) (w : bytes) : option (list token) :=
  match w with
  | [] => Some []
  | _ :: _ =>
      match fuel with
      | O => None
      | S f =>
          match ref_token w with
          | None => None
          | Some (t, r) =>
              match tokenise_go f r with
              | Some ts => Some (t :: ts)
              | None => None
              end
          end
      end
  end.
Definition tokenise (w : bytes) : option (list token) := tokenise_go (length w) w.

(* scalar conversions *)
Definition ref_int32 (v : N) : N := v mod 2 ^ 32.
Definition ref_bool (v : N) : bool := negb (v =? 0).
Definition ref_want_type (v : N) : want_type := if ref_int32 v =? 1 then WTHave else WTBlock.
Definition ref_presence_type (v : N) : presence_type := if ref_int32 v =? 1 then PDontHave else PHave.

(* fold a partial step function over the tokens *)
Fixpoint fold_opt {M} (step : M -> token -> option M) (ts : list token) (m : M) : option M :=
  match ts with
  | [] => Some m
  | t :: ts' => match step m t with Some m' => fold_opt step ts' m' | None => None end
  end.

(* message Entry { bytes block = 1; int32 priority = 2; bool cancel = 3; WantType wantType = 4;
                   bool sendDontHave = 5; } *)
Definition ref_entry_step (m : entry) (t : token) : option entry :=
  match t with
  | (f, PBytes b) =>
      if f =? 1 then Some (MkEntry b (e_priority m) (e_cancel m) (e_want_type m) (e_send_dont_have m))
      else Some m
  | (f, PVarint v) =>
      if f =? 2 then Some (MkEntry (e_block m) (ref_int32 v) (e_cancel m) (e_want_type m) (e_send_dont_have m))
      else if f =? 3 then Some (MkEntry (e_block m) (e_priority m) (ref_bool v) (e_want_type m) (e_send_dont_have m))
      else if f =? 4 then Some (MkEntry (e_block m) (e_priority m) (e_cancel m) (ref_want_type v) (e_send_dont_have m))
      else if f =? 5 then Some (MkEntry (e_block m) (e_priority m) (e_cancel m) (e_want_type m) (ref_bool v))
      else Some m
  | _ => Some m
  end.

Definition ref_entry_into (m : entry) (w : bytes) : option entry :=
  match tokenise w with Some ts => fold_opt ref_entry_step ts m | None => None end.
Definition ref_entry (w : bytes) : option entry := ref_entry_into default_entry w.

(* message Wantlist { repeated Entry entries = 1; bool full = 2; } *)
Definition ref_wantlist_step (m : wantlist) (t : token) : option wantlist :=
  match t with
  | (f, PBytes b) =>
      if f =? 1 then
        match ref_entry b with
        | Some e => Some (MkWantlist (w_entries m ++ [e]) (w_full m))
        | None => None
        end
      else Some m
  | (f, PVarint v) =>
      if f =? 2 then Some (MkWantlist (w_entries m) (ref_bool v)) else Some m
  | _ => Some m
  end.

Definition ref_wantlist_into (m : wantlist) (w : bytes) : option wantlist :=
  match tokenise w with Some ts => fold_opt ref_wantlist_step ts m | None => None end.
Definition ref_wantlist (w : bytes) : option wantlist := ref_wantlist_into default_wantlist w.

(* message Block { bytes prefix = 1; bytes data = 2; } *)
Definition ref_block_step (m : block) (t : token) : option block :=
  match t with
  | (f, PBytes b) =>
      if f =? 1 then Some (MkBlock b (b_data m))
      else if f =? 2 then Some (MkBlock (b_prefix m) b)
      else Some m
  | _ => Some m
  end.
Definition ref_block (w : bytes) : option block :=
  match tokenise w with Some ts => fold_opt ref_block_step ts default_block | None => None end.

(* message BlockPresence { bytes cid = 1; BlockPresenceType type = 2; } *)
Definition ref_presence_step (m : block_presence) (t : token) : option block_presence :=
  match t with
  | (f, PBytes b) => if f =? 1 then Some (MkPresence b (bp_type m)) else Some m
  | (f, PVarint v) => if f =? 2 then Some (MkPresence (bp_cid m) (ref_presence_type v)) else Some m
  | _ => Some m
  end.
Definition ref_presence (w : bytes) : option block_presence :=
  match tokenise w with Some ts => fold_opt ref_presence_step ts default_presence | None => None end.

(* message Message { Wantlist wantlist = 1; repeated Block payload = 3;
                     repeated BlockPresence blockPresences = 4; int32 pendingBytes = 5; } *)
Definition ref_message_step (m : message) (t : token) : option message :=
  match t with
  | (f, PBytes b) =>
      if f =? 1 then
        (* singular message field: merge into what is there *)
        match ref_wantlist_into (match m_wantlist m with Some w => w | None => default_wantlist end) b with
        | Some w => Some (MkMessage (Some w) (m_payload m) (m_presences m) (m_pending_bytes m))
        | None => None
        end
      else if f =? 3 then
        match ref_block b with
        | Some x => Some (MkMessage (m_wantlist m) (m_payload m ++ [x]) (m_presences m) (m_pending_bytes m))
        | None => None
        end
      else if f =? 4 then
        match ref_presence b with
        | Some x => Some (MkMessage (m_wantlist m) (m_payload m) (m_presences m ++ [x]) (m_pending_bytes m))
        | None => None
        end
      else Some m
  | (f, PVarint v) =>
      if f =? 5 then Some (MkMessage (m_wantlist m) (m_payload m) (m_presences m) (ref_int32 v)) else Some m
  | _ => Some m
  end.

Definition ref_decode (w : bytes) : option message :=
  match tokenise w with Some ts => fold_opt ref_message_step ts default_message | None => None end.

(* ------------------------------------------------------------------------------------------ *)
(* The class of encodings on which quick-protobuf agrees with the reference decoder           *)

Definition ref_two32 : N := 2 ^ 32.

Definition class_tokens (w : bytes) (p : token -> bool) : bool :=
  match tokenise w with Some ts => forallb p ts | None => false end.

Definition class_entry_tok (t : token) : bool :=
  match t with
  | (f, PBytes b) => if f =? 1 then len b <? ref_two32 else true
  | (f, PVarint v) => if (f =? 3) || (f =? 5) then v <? ref_two32 else true
  | _ => true
  end.
Definition class_entry (w : bytes) : bool := class_tokens w class_entry_tok.

Definition class_wantlist_tok (t : token) : bool :=
  match t with
  | (f, PBytes b) => if f =? 1 then (len b <? ref_two32) && class_entry b else true
  | (f, PVarint v) => if f =? 2 then v <? ref_two32 else true
  | _ => true
  end.
Definition class_wantlist (w : bytes) : bool := class_tokens w class_wantlist_tok.

Definition class_block_tok (t : token) : bool :=
  match t with
  | (f, PBytes b) => if (f =? 1) || (f =? 2) then len b <? ref_two32 else true
  | _ => true
  end.
Definition class_block (w : bytes) : bool := class_tokens w class_block_tok.

Definition class_presence_tok (t : token) : bool :=
  match t with
  | (f, PBytes b) => if f =? 1 then len b <? ref_two32 else true
  | _ => true
  end.
Definition class_presence (w : bytes) : bool := class_tokens w class_presence_tok.

Definition class_message_tok (t : token) : bool :=
  match t with
  | (f, PBytes b) =>
      if f =? 1 then (len b <? ref_two32) && class_wantlist b
      else if f =? 3 then (len b <? ref_two32) && class_block b
      else if f =? 4 then (len b <? ref_two32) && class_presence b
      else true
  | _ => true
  end.

Definition is_wantlist_tok (t : token) : bool :=
  match t with (f, PBytes _) => f =? 1 | _ => false end.

Definition in_classb (w : bytes) : bool :=
  (len w <? 2 ^ 64)                                   (* the length is a usize *)
  && class_tokens w class_message_tok
  && match tokenise w with
     | Some ts => len (filter is_wantlist_tok ts) <=? 1
     | None => false
     end.

Definition in_class (w : bytes) : Prop := in_classb w = true.
