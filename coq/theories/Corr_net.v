(* Corr_net.v — engine `net`: 2-4 complete nodes (real Behaviour, ConnHandlers, codec) wired by the harness's
   mini swarm over in-memory pipes (harness/src/e_net.rs), random histories of connect / disconnect / get /
   cancel / local put / evict / clock advances under harness-chosen schedules, read chunkings and blockstore
   latencies, followed by a fault-free continuation: settle, two refresh periods, settle.
   No model is run beside it (the components are tied one by one by the other engines; Net.v composes the
   models): this file only holds the END-TO-END oracles evaluated on what the implementation did. *)
From BS Require Export Bytes.
Open Scope N_scope.

Inductive nnode := NNode (prefix : N) (held wants : list N) (records : list (N * list N)) (tasks : N).
Inductive nquery := NQuery (node q c : N) (cancelled : bool) (events : list (bool * bool)).   (* (is_response, data is the block of c) *)
Inductive nobs := NObs (settled : bool) (nodes : list nnode) (conns : list (N * N)) (queries : list nquery) (foreign : N).

Definition nin := (N * N)%type.
Definition case := (nin * nobs)%type.
Definition model (x : nin) : unit := tt.
Definition corr (x : case) : bool := true.

Definition n_mem (x : N) (l : list N) : bool := existsb (N.eqb x) l.
Definition node_at (ns : list nnode) (i : N) : option nnode := nth_error ns (N.to_nat i).
Definition prefix_of (ns : list nnode) (i : N) : N := match node_at ns i with Some (NNode p _ _ _ _) => p | None => 99 end.
Definition held_by (ns : list nnode) (i c : N) : bool := match node_at ns i with Some (NNode _ h _ _ _) => n_mem c h | None => false end.
Definition connected (cs : list (N * N)) (i j : N) : bool :=
  existsb (fun e => ((fst e =? i) && (snd e =? j)) || ((fst e =? j) && (snd e =? i))) cs.
Definition neighbours (cs : list (N * N)) (n : nat) (i : N) : list N :=
  filter (fun j => connected cs i j) (map N.of_nat (seq 0 n)).
Definition subset_b (a b : list N) : bool := forallb (fun x => n_mem x b) a.
Definition set_eq_b (a b : list N) : bool := subset_b a b && subset_b b a.

(* C02: after the fault-free continuation every uncancelled query whose block is held by a node that is
   connected (same protocol name) got exactly one response carrying the block *)
Definition oracle_C02 (x : case) : bool :=
  match snd x with
  | NObs settled ns cs qs _ =>
      settled &&
      forallb (fun q => match q with
                        | NQuery i _ c cancelled evs =>
                            let has_holder := existsb (fun j => (prefix_of ns j =? prefix_of ns i) && held_by ns j c)
                                                      (neighbours cs (length ns) i) in
                            if cancelled || negb has_holder then true
                            else match evs with [(true, true)] => true | _ => false end
                        end) qs
  end.

(* C03 / C01 sanity end to end: at most one event per query, none for unissued ids, responses carry the right block *)
Definition oracle_C03 (x : case) : bool :=
  match snd x with
  | NObs _ _ _ qs foreign =>
      (foreign =? 0) &&
      forallb (fun q => match q with
                        | NQuery _ _ _ cancelled evs =>
                            match evs with
                            | [] => true
                            | [(true, ok)] => ok && negb cancelled
                            | [(false, _)] => negb cancelled
                            | _ => false
                            end
                        end) qs
  end.

(* C14, second half: with nothing in flight after a refresh, the serving side's record of a requester's wants
   equals the requester's live wants *)
Definition oracle_C14 (x : case) : bool :=
  match snd x with
  | NObs settled ns cs _ _ =>
      negb settled ||
      forallb (fun e =>
                 let check (i j : N) :=
                   if negb (prefix_of ns i =? prefix_of ns j) then true else
                   match node_at ns i, node_at ns j with
                   | Some (NNode _ _ wants_i _ _), Some (NNode _ _ _ records_j _) =>
                       match find (fun r => fst r =? i) records_j with
                       | Some r => set_eq_b (snd r) wants_i
                       | None => false
                       end
                   | _, _ => false
                   end in
                 check (fst e) (snd e) && check (snd e) (fst e)) cs
  end.

(* C20: nodes configured with different prefixes never record each other's wants *)
Definition oracle_C20 (x : case) : bool :=
  match snd x with
  | NObs _ ns _ _ _ =>
      forallb (fun j => match node_at ns j with
                        | Some (NNode pj _ _ records _) =>
                            forallb (fun r => (prefix_of ns (fst r) =? pj) || match snd r with [] => true | _ => false end) records
                        | None => true
                        end) (map N.of_nat (seq 0 (length ns)))
  end.

Definition oracle (x : case) : bool := oracle_C02 x && oracle_C03 x && oracle_C14 x && oracle_C20 x.
