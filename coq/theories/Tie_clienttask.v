(* Tie_clienttask.v — what `ClientBehaviour::poll` (/repo/src/client.rs) does with a finished blockstore task, as regenerated into
   Extracted.v on every run (one coded statement list per arm of `match task_result`), against Client.v: the model's
   `handle_task_result` IS the interpretation of the extracted table (`tie_ctask`).  An arm that swallows an error, answers from the
   wrong branch, forgets `wanted_again` or the registration of the query changes the table and the lemma fails by computation. *)
From BS Require Import Bytes Cid Types Wantlist Client Extracted.
From Coq Require Import List NArith Bool.
Import ListNotations.
Open Scope N_scope.

(* which arm a task result is matched by (patterns of the translator) *)
Definition result_pattern (r : task_result) : N :=
  match r with
  | TrGet _ _ (SHit _) => 0
  | TrGet _ _ SMiss => 1
  | TrGet _ _ SFail => 2
  | TrSet true _ => 3
  | TrSet false _ => 4
  | TrCancelled => 5
  end.

Fixpoint find_task_arm (t : list (N * list (N * list N))) (k : N) : option (list (N * list N)) :=
  match t with [] => None | (a, b) :: r => if a =? k then Some b else find_task_arm r k end.

Definition tjunk (s : cstate) : cstate * list cout := (s, [OOutOfFuel]).

(* one plain statement; `true` = the arm returned *)
Definition texec_stmt (c : N) (r : task_result) (s : cstate) : cstate * list cout * bool :=
  match c, r with
  | 40, TrGet q _ (SHit data) => (s, [OResponse q data], true)
  | 41, TrGet q c _ => (set_c2q s (c2q_push c q (cs_c2q s)), [], false)
  | 42, TrGet q _ _ => (s, [OError q 1], true)
  | 43, TrSet _ bl => (set_new_blocks s (cs_new_blocks s ++ bl), [], false)
  | 44, TrGet _ c _ => (set_peers s (wanted_again_all c (cs_peers s)), [], false)
  | _, _ => (s, [OOutOfFuel], true)
  end.

Fixpoint trun_stmts (cs : list N) (r : task_result) (s : cstate) : cstate * list cout * bool :=
  match cs with
  | [] => (s, [], false)
  | c :: cs' =>
      let '(s1, o1, ret) := texec_stmt c r s in
      if ret then (s1, o1, true) else let '(s2, o2, ret2) := trun_stmts cs' r s1 in (s2, o1 ++ o2, ret2)
  end.

Definition texec_item (it : N * list N) (r : task_result) (s : cstate) : cstate * list cout * bool :=
  match it, r with
  | (0, [c]), _ => texec_stmt c r s
  | (26, cs), TrGet _ c _ =>                       (* if self.wantlist.insert(cid) { cs } *)
      let (w', inserted) := wl_insert (cs_wl s) c in
      let s1 := set_wl s w' in
      if inserted then trun_stmts cs r s1 else (s1, [], false)
  | _, _ => (s, [OOutOfFuel], true)
  end.

Fixpoint trun_items (its : list (N * list N)) (r : task_result) (s : cstate) : cstate * list cout * bool :=
  match its with
  | [] => (s, [], false)
  | it :: its' =>
      let '(s1, o1, ret) := texec_item it r s in
      if ret then (s1, o1, true) else let '(s2, o2, ret2) := trun_items its' r s1 in (s2, o1 ++ o2, ret2)
  end.

Definition interp_task (prelude : N) (arms : list (N * list (N * list N))) (s : cstate) (r : task_result) : cstate * list cout :=
  match prelude with
  | 0 =>
      (* `if let TaskResult::Get(query_id, ..) = &task_result { self.query_abort_handle.remove(query_id); }` *)
      let s1 := match r with TrGet q _ _ => set_abort s (al_remove N.eqb q (cs_abort s)) | _ => s end in
      match find_task_arm arms (result_pattern r) with
      | Some body => let '(s2, o, _) := trun_items body r s1 in (s2, o)
      | None => tjunk s1
      end
  | _ => tjunk s
  end.

Lemma tie_ctask : forall s r, handle_task_result s r = interp_task Extracted.ctask_prelude Extracted.ctask_arms s r.
Proof.
  intros s r. unfold handle_task_result.
  destruct r as [q c res|ok bl|]; [destruct res as [data| |]|destruct ok|];
    cbv [interp_task Extracted.ctask_prelude Extracted.ctask_arms find_task_arm result_pattern N.eqb Pos.eqb
         trun_items texec_item trun_stmts texec_stmt app]; try reflexivity.
  destruct (wl_insert _ c) as [w' ins]. destruct ins; reflexivity.
Qed.

Lemma tie_ctask_tables : Extracted.ctask_prelude = 0 /\ map fst Extracted.ctask_arms = [0; 1; 2; 3; 4; 5].
Proof. split; reflexivity. Qed.
