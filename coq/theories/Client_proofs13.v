(* Client_proofs13.v — package N, part 4: the theorems of the task (restated in Client_props3.v). *)
From BS Require Import Types Wantlist Wantlist_proofs Client Client_proofs Client_proofs3 Client_proofs4 Client_proofs9
  Client_proofs10 Client_proofs11 Client_proofs12.
From Coq Require Import ZArith ZifyBool ZifyN ZifyNat Lia.
Open Scope N_scope.

(* ---------- C15 at trace level, from any reachable state ---------- *)
Theorem C15_trace_connection_independence_from K sdh ops0 ops :
  let s0 := st_after sdh ops0 in
  churn_ok_from s0 ops = true ->
  let ops1 := project_from K s0 ops in
  let s1 := run_st (norm K s0) ops1 in
  s1 = norm K (st_after sdh (ops0 ++ ops)) /\
  sim (st_after sdh (ops0 ++ ops)) s1 /\
  single_conn_state K s1 /\
  forallb (op_single K) ops1 = true /\
  filter not_bad (run_outs (norm K s0) ops1) = map (norm_out K) (filter not_bad (run_outs s0 ops)) /\
  sent (run_outs (norm K s0) ops1) = sent (run_outs s0 ops) /\
  filter other_out (run_outs (norm K s0) ops1) = filter other_out (run_outs s0 ops).
Proof.
  intros s0 Hok ops1 s1. destruct (sim_from K sdh ops0 ops Hok) as [E1 E2]. fold s0 in E1, E2. fold ops1 in E1, E2. fold s1 in E1.
  unfold s0 in E1. rewrite run_st_after in E1.
  destruct (outs_agree K _ _ E2) as [E3 E4].
  split; [exact E1|]. split; [|split; [|split; [|split; [exact E2 | split; [exact E3 | exact E4]]]]].
  - rewrite E1. apply sim_norm; [apply GOOD_run | apply (INVS_run sdh (ops0 ++ ops))].
  - rewrite E1. apply norm_single.
  - apply project_from_single.
Qed.

(* ---------- C15 at trace level, whole histories ---------- *)
Theorem C15_trace_connection_independence K sdh ops :
  churn_ok sdh ops = true ->
  let ops1 := project K sdh ops in
  st_after sdh ops1 = norm K (st_after sdh ops) /\
  sim (st_after sdh ops) (st_after sdh ops1) /\
  single_conn_state K (st_after sdh ops1) /\
  forallb (op_single K) ops1 = true /\
  filter not_bad (outs_after sdh ops1) = map (norm_out K) (filter not_bad (outs_after sdh ops)) /\
  sent (outs_after sdh ops1) = sent (outs_after sdh ops) /\
  filter other_out (outs_after sdh ops1) = filter other_out (outs_after sdh ops).
Proof.
  intros Hok ops1. exact (C15_trace_connection_independence_from K sdh [] ops Hok).
Qed.

(* every prefix of the projected history is the projection of a prefix: the one-connection run is in step *)
Theorem C15_trace_prefixes K sdh a b :
  churn_ok sdh (a ++ b) = true ->
  project K sdh (a ++ b) = project K sdh a ++ project_from K (st_after sdh a) b /\
  st_after sdh (project K sdh a) = norm K (st_after sdh a) /\
  single_conn_state K (st_after sdh (project K sdh a)).
Proof.
  intros Hok. unfold churn_ok in Hok. rewrite churn_ok_from_app in Hok. apply Bool.andb_true_iff in Hok. destruct Hok as [Ha _].
  split; [unfold project; rewrite project_from_app; reflexivity|].
  destruct (C15_trace_connection_independence K sdh a Ha) as (E1 & _ & E3 & _). split; assumption.
Qed.

(* ---------- the side condition is needed: a fault while another connection remains ---------- *)
Definition K0 (p : peer) : conn := 0.

Definition refute_ops : list cop :=
  [CNewConn 7 1; CNewConn 7 2; CPoll [(7, 1)]; CReport 7 1 (RpFailed 1); CPoll [(7, 2)]].

Theorem C15_trace_connection_independence_refuted :
  exists ops,
    churn_ok true ops = false /\
    sent (outs_after true ops) = [(7, true, []); (7, true, [])] /\
    sent (outs_after true (project K0 true ops)) = [(7, true, [])] /\
    al_find N.eqb 7 (cs_peers (st_after true ops)) <> None /\
    al_find N.eqb 7 (cs_peers (st_after true (project K0 true ops))) = None.
Proof. exists refute_ops. vm_compute. repeat split; try reflexivity. discriminate. Qed.

(* ---------- the fault case ---------- *)
Lemma one_conn_fault_drops sdh H p ps k ch :
  al_find N.eqb p (cs_peers (st_after sdh H)) = Some ps -> p_conns ps = [k] -> p_ss ps = SsFailed k ->
  (forall c f es, ~ In (OSendWantlist p c f es) (snd (c_poll (st_after sdh H) ch))) /\
  al_find N.eqb p (cs_peers (st_after sdh (H ++ [CPoll ch]))) = None.
Proof.
  intros Hf Hc Hss. destruct (C05_full_after_fault sdh H ch p ps k Hf (or_introl Hss)) as [Hall Hex].
  assert (Hno : forall c f es, ~ In (OSendWantlist p c f es) (snd (c_poll (st_after sdh H) ch))).
  { intros c f es Hin. destruct (Hall c f es Hin) as (_ & Hne & Hin'). rewrite Hc in Hin'. destruct Hin' as [E | []]. congruence. }
  split; [exact Hno|]. rewrite st_after_snoc. cbn [cstep]. destruct Hex as [(c & es & Hin) | Hnone]; [exfalso; eapply Hno, Hin | exact Hnone].
Qed.

Theorem C15_trace_close_sending_connection K sdh ops1 p c c' ps ch ops2 :
  let s1 := st_after sdh ops1 in
  al_find N.eqb p (cs_peers s1) = Some ps ->
  report_accepted ps c = true ->          (* a transmission to p is outstanding on connection c *)
  In c' (p_conns ps) -> c' <> c ->        (* and p has another connection *)
  (* the handler's Failed report is delivered, then connection c is closed *)
  let ops := ops1 ++ [CReport p c (RpFailed c); CConnClosed p c] in
  let s := st_after sdh ops in
  let s' := st_after sdh (ops ++ [CPoll ch]) in
  al_find N.eqb p (cs_peers s) = Some (MkPeer (n_remove c (p_conns ps)) (SsFailed c) (p_wl ps) (p_send_full ps)) /\
  churn_ok_from s [CPoll ch] = false /\
  (* the next wantlist p is sent is the FULL one, over a remaining connection; the entry is kept *)
  (exists c1 es, In (OSendWantlist p c1 true es) (snd (c_poll s ch))) /\
  (forall c1 f es, In (OSendWantlist p c1 f es) (snd (c_poll s ch)) -> f = true /\ c1 <> c /\ In c1 (p_conns ps)) /\
  al_find N.eqb p (cs_peers s') <> None /\
  (* from then on every fault-free continuation is that of the one-connection client started in the collapsed state *)
  (churn_ok_from s' ops2 = true ->
     let s2 := run_st (norm K s') (project_from K s' ops2) in
     s2 = norm K (st_after sdh (ops ++ CPoll ch :: ops2)) /\
     sim (st_after sdh (ops ++ CPoll ch :: ops2)) s2 /\
     single_conn_state K s2 /\
     sent (run_outs (norm K s') (project_from K s' ops2)) = sent (run_outs s' ops2) /\
     filter other_out (run_outs (norm K s') (project_from K s' ops2)) = filter other_out (run_outs s' ops2)) /\
  (* whereas the one-connection client, told of the same failed transmission, sends p nothing and drops the entry *)
  (churn_ok sdh ops1 = true ->
     let H := project K sdh ops1 ++ [CReport p (K p) (RpFailed (K p))] in
     (forall c1 f es, ~ In (OSendWantlist p c1 f es) (snd (c_poll (st_after sdh H) (ren_choice K ch)))) /\
     al_find N.eqb p (cs_peers (st_after sdh (H ++ [CPoll (ren_choice K ch)]))) = None).
Proof.
  intros s1 Hf Hacc Hc' Hne ops s s'.
  (* the state after the report *)
  set (psF := MkPeer (p_conns ps) (SsFailed c) (p_wl ps) (p_send_full ps)).
  assert (HfF : al_find N.eqb p (cs_peers (st_after sdh (ops1 ++ [CReport p c (RpFailed c)]))) = Some psF).
  { rewrite st_after_snoc. fold s1. cbn [cstep fst c_report set_peers cs_peers]. rewrite (al_find_modify _ Neqb_spec), N.eqb_refl, Hf.
    cbn [option_map]. rewrite Hacc. reflexivity. }
  assert (Eops : ops = (ops1 ++ [CReport p c (RpFailed c)]) ++ [CConnClosed p c]) by (unfold ops; rewrite <- app_assoc; reflexivity).
  assert (HfS : al_find N.eqb p (cs_peers s) = Some (MkPeer (n_remove c (p_conns ps)) (SsFailed c) (p_wl ps) (p_send_full ps))).
  { unfold s. rewrite Eops, st_after_snoc.
    destruct (C15_close_one_keeps_peer (st_after sdh (ops1 ++ [CReport p c (RpFailed c)])) p c psF c' HfF Hc' Hne) as (E & _). exact E. }
  assert (Hnin : ~ In c (p_conns (MkPeer (n_remove c (p_conns ps)) (SsFailed c) (p_wl ps) (p_send_full ps)))).
  { cbn [p_conns]. intros Hin. apply n_remove_In in Hin. destruct Hin as [_ Hin]. congruence. }
  destruct (fault_poll_full sdh ops p c _ ch HfS eq_refl Hnin) as (F1 & F2 & F3). fold s in F1, F2, F3.
  split; [exact HfS|]. split; [|split; [exact F1 | split; [|split; [|split]]]].
  - (* the fault is not churn_ok *)
    cbn [churn_ok_from op_ok]. rewrite Bool.andb_true_r. unfold peers_ok.
    destruct (forallb (fun e => peer_ok (cs_now s) (snd e)) (cs_peers s)) eqn:E; [|reflexivity]. exfalso.
    rewrite forallb_forall in E. specialize (E _ (al_find_some_in _ Neqb_spec _ _ _ HfS)). cbn [snd] in E.
    unfold peer_ok, fault_conn in E. cbn [p_ss p_conns] in E.
    assert (Hin : In c' (n_remove c (n_remove c (p_conns ps)))) by (apply n_remove_In; split; [apply n_remove_In; auto | exact Hne]).
    destruct (n_remove c (n_remove c (p_conns ps))); [destruct Hin | discriminate].
  - intros c1 f es Hin. destruct (F2 c1 f es Hin) as (G1 & G2 & G3). split; [exact G1|]. split; [exact G2|].
    cbn [p_conns] in G3. apply n_remove_In in G3. apply G3.
  - unfold s'. rewrite st_after_snoc. exact F3.
  - intros Hok2 s2.
    destruct (C15_trace_connection_independence_from K sdh (ops ++ [CPoll ch]) ops2 Hok2) as (E1 & E2 & E3 & _ & _ & E6 & E7).
    replace ((ops ++ [CPoll ch]) ++ ops2) with (ops ++ CPoll ch :: ops2) in E1, E2 by (rewrite <- app_assoc; reflexivity).
    split; [exact E1|]. split; [exact E2|]. split; [exact E3|]. split; [exact E6 | exact E7].
  - intros Hok1 H.
    destruct (C15_trace_connection_independence K sdh ops1 Hok1) as (E1 & _).
    set (k := K p).
    assert (HfH : al_find N.eqb p (cs_peers (st_after sdh H)) = Some (MkPeer [k] (SsFailed k) (p_wl ps) (p_send_full ps))).
    { unfold H. rewrite st_after_snoc, E1. fold s1. cbn [cstep fst c_report set_peers cs_peers norm]. rewrite (al_find_modify _ Neqb_spec), N.eqb_refl.
      rewrite find_norm, Hf. cbn [option_map].
      assert (Ea : report_accepted (norm_ps K p ps) k = true).
      { unfold report_accepted in *. cbn [norm_ps p_ss]. destruct (p_ss ps); cbn [sending_conn ren_ss] in *; try discriminate; apply N.eqb_refl. }
      fold k. rewrite Ea. reflexivity. }
    apply (one_conn_fault_drops sdh H p _ k (ren_choice K ch) HfH); reflexivity.
Qed.

(* the full wantlist after the fault is NOT the one a reconnecting one-connection client would send: the
   several-connections client keeps the peer's answers (here a DONT_HAVE for ex_c1), the reconnecting one asks again *)
Definition reconnect_ops1 : list cop :=
  [CNewConn 7 1; CNewConn 7 2; CGet (Some ex_c1); CPoll [(7, 1)]; CRelease 0 SMiss; CReport 7 1 RpReady; CPoll [(7, 1)];
   CIncoming 7 [(ex_c1, false)] []].

Theorem C15_trace_close_as_reconnect_refuted :
  exists ops1,
    churn_ok true ops1 = true /\
    (* several connections: connection 1 fails and is closed; the full wantlist on connection 2 does not ask for ex_c1 again *)
    sent (snd (c_poll (st_after true (ops1 ++ [CReport 7 1 (RpFailed 1); CConnClosed 7 1])) [(7, 2)])) = [(7, true, [])] /\
    (* one connection: it fails, the entry is dropped; after the reconnection everything is asked again *)
    sent (outs_after true (project K0 true ops1 ++ [CReport 7 0 (RpFailed 0); CPoll [(7, 0)]; CNewConn 7 0])) =
      sent (outs_after true (project K0 true ops1)) /\
    sent (snd (c_poll (st_after true (project K0 true ops1 ++ [CReport 7 0 (RpFailed 0); CPoll [(7, 0)]; CNewConn 7 0])) [(7, 0)])) =
      [(7, true, [(KWantHave, ex_c1)])].
Proof. exists reconnect_ops1. vm_compute. repeat split; reflexivity. Qed.

(* ---------- non-vacuity: three connections to one peer, opened and closed around gets and reports ---------- *)
Definition churn_ex : list cop :=
  [CNewConn 7 1; CGet (Some ex_c1); CPoll [(7, 1)]; CRelease 0 SMiss; CNewConn 7 2;
   CReport 7 1 (RpRequestReceived 1); CReport 7 1 (RpSending 1); CNewConn 7 3; CReport 7 1 RpReady;
   CPoll [(7, 3)]; CConnClosed 7 1; CReport 7 3 (RpSending 3); CReport 7 2 RpReady; CReport 7 3 RpReady;
   CGet (Some ex_c2); CPoll [(7, 2)]; CRelease 1 SMiss; CPoll [(7, 2)]; CConnClosed 7 3;
   CIncoming 7 [(ex_c1, false)] []; CReport 7 2 RpReady; CAdvance 30000; CPoll [(7, 2)]; CConnClosed 7 2].

Example C15_trace_example :
  churn_ok true churn_ex = true /\
  project K0 true churn_ex =
    [CNewConn 7 0; CGet (Some ex_c1); CPoll [(7, 0)]; CRelease 0 SMiss;
     CReport 7 0 (RpRequestReceived 0); CReport 7 0 (RpSending 0); CReport 7 0 RpReady;
     CPoll [(7, 0)]; CReport 7 0 (RpSending 0); CReport 7 0 RpReady;
     CGet (Some ex_c2); CPoll [(7, 0)]; CRelease 1 SMiss; CPoll [(7, 0)];
     CIncoming 7 [(ex_c1, false)] []; CReport 7 0 RpReady; CAdvance 30000; CPoll [(7, 0)]; CConnClosed 7 0] /\
  outs_after true churn_ex =
    [OQuery 0; OGet 0 ex_c1; OSendWantlist 7 1 true []; OSendWantlist 7 3 false [(KWantHave, ex_c1)];
     OQuery 1; OGet 1 ex_c2; OSendWantlist 7 2 false [(KWantHave, ex_c2)]; OSendWantlist 7 2 true [(KWantHave, ex_c2)]] /\
  outs_after true (project K0 true churn_ex) =
    [OQuery 0; OGet 0 ex_c1; OSendWantlist 7 0 true []; OSendWantlist 7 0 false [(KWantHave, ex_c1)];
     OQuery 1; OGet 1 ex_c2; OSendWantlist 7 0 false [(KWantHave, ex_c2)]; OSendWantlist 7 0 true [(KWantHave, ex_c2)]] /\
  (* just before the last close: connections 1 and 3 are gone, the exchange state is that of the one-connection run *)
  cs_peers (st_after true (firstn 23 churn_ex)) =
    [(7, MkPeer [2] (SsRequested 30000 2) (MkWls [(ex_c1, GotDontHave); (ex_c2, SentWantHave)] false 2) false)] /\
  cs_peers (st_after true (project K0 true (firstn 23 churn_ex))) =
    [(7, MkPeer [0] (SsRequested 30000 0) (MkWls [(ex_c1, GotDontHave); (ex_c2, SentWantHave)] false 2) false)] /\
  cs_peers (st_after true churn_ex) = [] /\ cs_peers (st_after true (project K0 true churn_ex)) = [].
Proof. vm_compute. repeat split; reflexivity. Qed.

(* the fault theorem's hypotheses are met: after `reconnect_ops1` plus a poll that sends on connection 1 *)
Example C15_trace_close_example :
  let ops1 := reconnect_ops1 ++ [CReport 7 1 RpReady; CGet (Some ex_c2); CPoll [(7, 1)]; CRelease 1 SMiss; CPoll [(7, 1)]] in
  churn_ok true ops1 = true /\
  (exists ps, al_find N.eqb 7 (cs_peers (st_after true ops1)) = Some ps /\ report_accepted ps 1 = true /\ In 2 (p_conns ps)) /\
  let ops := ops1 ++ [CReport 7 1 (RpFailed 1); CConnClosed 7 1] in
  snd (c_poll (st_after true ops) [(7, 2)]) = [OSendWantlist 7 2 true [(KWantHave, ex_c2)]] /\
  let s' := st_after true (ops ++ [CPoll [(7, 2)]]) in
  let ops2 := [CReport 7 2 RpReady; CNewConn 7 3; CCancel 1; CPoll [(7, 3)]; CConnClosed 7 2] in
  churn_ok_from s' ops2 = true /\
  project_from K0 s' ops2 = [CReport 7 0 RpReady; CCancel 1; CPoll [(7, 0)]] /\
  run_outs s' ops2 = [OSendWantlist 7 3 false [(KCancel, ex_c2)]] /\
  run_outs (norm K0 s') (project_from K0 s' ops2) = [OSendWantlist 7 0 false [(KCancel, ex_c2)]].
Proof. vm_compute. split; [reflexivity|]. split; [eexists; split; [reflexivity|]; split; [reflexivity | right; left; reflexivity]|]. repeat split; reflexivity. Qed.

(* ---------- the statement was tested before it was proved; the test also shows that churn_ok is exact ---------- *)
(* pseudo-random histories (a tiny LCG): 2 peers, 3 connection names, 3 CIDs, every kind of op, reports from any
   connection, faults and time-outs included.  For each history: is it churn_ok, and do the several-connections run and
   its projection send the same (peer, full, entries) lists?  Tally (ok & equal, ok & different, not ok & equal,
   not ok & different): the second component is 0 by the theorem; the third is 0 too, i.e. in this sample EVERY history
   that violates churn_ok is told apart by what is sent. *)
Definition lcg (x : N) : N := (x * 1103515245 + 12345) mod 2147483648.
Definition pickn (x m : N) : N := (x / 65536) mod m.
Definition cidk (k : N) : cid := MkCid V1 85 (MkMh 18 [k; k; k]).

Definition gen_op (a b c d : N) : cop :=
  let p := 1 + pickn b 2 in
  let cn := 1 + pickn c 3 in
  match pickn a 20 with
  | 0 | 1 | 2 => CNewConn p cn
  | 3 | 4 => CConnClosed p cn
  | 5 | 6 => CGet (Some (cidk (pickn b 3)))
  | 7 => CCancel (pickn b 6)
  | 8 => CIncoming p [(cidk (pickn c 3), N.even (pickn d 2))] []
  | 9 => CIncoming p [] [(cidk (pickn c 3), [pickn d 4])]
  | 10 | 11 | 12 =>
      CReport p cn (match pickn d 8 with 0 | 1 | 2 => RpRequestReceived cn | 3 | 4 => RpSending cn | 5 | 6 => RpReady | _ => RpFailed cn end)
  | 13 | 14 => CRelease (pickn b 8) (match pickn c 4 with 0 => SHit [1] | 1 => SFail | _ => SMiss end)
  | 15 => CAdvance (match pickn b 4 with 0 => 100 | 1 => 400 | 2 => 1000 | _ => 30000 end)
  | 16 | 17 | 18 => CPoll [(1, 1 + pickn b 3); (2, 1 + pickn c 3)]
  | _ => CTakeNewBlocks
  end.

Fixpoint gen_ops (n : nat) (x : N) : list cop :=
  match n with
  | O => []
  | S n' => let a := lcg x in let b := lcg a in let c := lcg b in let d := lcg c in gen_op a b c d :: gen_ops n' d
  end.

Fixpoint seeds (n : nat) (x : N) : list N := match n with O => [] | S n' => x :: seeds n' (lcg (x + 7)) end.

Definition gen_entry_eqb (a b : gen_entry) : bool :=
  match fst a, fst b with KWantHave, KWantHave | KWantBlock, KWantBlock | KCancel, KCancel => cid_eqb (snd a) (snd b) | _, _ => false end.
Definition sent_eqb (a b : list (peer * bool * list gen_entry)) : bool :=
  list_eqb (fun x y => (fst (fst x) =? fst (fst y)) && Bool.eqb (snd (fst x)) (snd (fst y)) && list_eqb gen_entry_eqb (snd x) (snd y)) a b.

Definition tally (n : nat) (l : list N) : N * N * N * N :=
  fold_left (fun acc seed =>
    let '(a, b, c, d) := acc in
    let ops := gen_ops n seed in
    let eq := sent_eqb (sent (outs_after true ops)) (sent (outs_after true (project K0 true ops))) in
    if churn_ok true ops then (if eq then (a + 1, b, c, d) else (a, b + 1, c, d))
    else (if eq then (a, b, c + 1, d) else (a, b, c, d + 1))) l (0, 0, 0, 0).

Example C15_trace_random_test : tally 40 (seeds 400 4242) = (326, 0, 0, 74).
Proof. vm_compute. reflexivity. Qed.
