(* Net_proofs4.v — package F: the server half and the blockstore as the network sees them: every block a node
   holds, queues or sends is `good` (its data hashes to its CID); store calls and parked lookups agree. *)
From BS Require Import Server_lemmas Server_inv Server_proofs Server_live Net Wantlist_proofs Net_proofs2.
From Coq Require Import ZArith ZifyBool ZifyN ZifyNat Lia.
Open Scope N_scope.

Section ServerGood.
  Variables (Sz : N) (Hh : hash_fn).
  Hypothesis HSz : 32 <= Sz.
  Local Notation G := (good Sz Hh).

  Definition done_good (t : Server.task) : Prop := forall c d, In (c, SHit d) (Server.t_done t) -> G (c, d).

  Definition sgood (st : sstate) : Prop :=
    Forall G (s_outq st) /\
    (forall t, In t (s_ready st) -> done_good t) /\
    (forall k c t, In (k, (c, t)) (s_blocked st) -> done_good t).

  Definition SV (st : sstate) : Prop := Server_inv.Inv st /\ BK st /\ s_panic st = false /\ sgood st.

  Definition sop_good (st : sstate) (op : sop) : Prop :=
    match op with
    | SNewBlocks bl => Forall G bl
    | SRelease k (SHit d) => forall c t, In (k, (c, t)) (s_blocked st) -> G (c, d)
    | _ => True
    end.

  Lemma hits_good res : (forall c d, In (c, SHit d) res -> G (c, d)) -> Forall G (hits res).
  Proof. intros H. apply Forall_forall. intros [c d] Hin. apply hits_In in Hin. apply H, Hin. Qed.

  Lemma finished_hits_good ready : (forall t, In t ready -> done_good t) -> Forall G (finished_hits ready).
  Proof.
    intros H. apply Forall_forall. intros b Hb. unfold finished_hits in Hb. apply in_flat_map in Hb.
    destruct Hb as (t & Ht & Hb). destruct (Server.t_todo t); [|destruct Hb].
    pose proof (hits_good _ (H t Ht)) as Hg. rewrite Forall_forall in Hg. apply Hg, Hb.
  Qed.

  Lemma sgood_poll st : Server_inv.Inv st -> sgood st -> sgood (fst (Server.do_poll st)).
  Proof.
    intros HI (Hq & Hr & Hb). destruct (do_poll_spec st HI) as (st1 & out1 & wants' & wt' & bat & Hf & Hdp & _ & _).
    rewrite Hdp. cbn [fst]. split; [constructor|]. split; [intros t []|]. cbn [s_blocked].
    intros k c t Hin. pose proof (fold_run_task_blocked_inv (s_ready st) (poll_start st) [] k c t) as Hinv.
    rewrite Hf in Hinv. cbn [fst snd poll_start s_blocked] in Hinv. destruct (Hinv Hin) as [Ho|(t0 & Ht0 & _ & Hd & _)].
    - eapply Hb, Ho.
    - intros c0 d0 Hin0. rewrite Hd in Hin0. eapply Hr; eassumption.
  Qed.

  Lemma sgood_step st op : Server_inv.Inv st -> BK st -> sgood st -> sop_good st op -> sgood (fst (sstep_l Sz st op)).
  Proof.
    intros HI HB Hg Hop. unfold sstep_l. destruct (s_panic st); [exact Hg|]. pose proof Hg as (Hq & Hr & Hb).
    destruct op as [q|q w order|bl|q|k r|]; cbn [fst].
    - unfold new_connection. destruct (alookup N.eqb q (s_wants st)); exact Hg.
    - unfold process_incoming_message. destruct (alookup N.eqb q (s_wants st)) as [old|]; [|exact Hg].
      destruct (process_wantlist Sz old w); [exact Hg|]. split; [exact Hq|]. split; [|exact Hb]. cbn [s_ready].
      intros t Hin. apply in_app_iff in Hin. destruct Hin as [Hin|[<-|[]]]; [apply Hr, Hin|]. intros c d [].
    - split; [|split; assumption]. cbn [new_blocks_available s_outq]. apply Forall_app. split; assumption.
    - unfold peer_disconnected. destruct (alookup N.eqb q (s_wants st)); exact Hg.
    - unfold release. destruct (alookup N.eqb k (s_blocked st)) as [[c t]|] eqn:E; [|exact Hg].
      pose proof (alookup_Some_In N.eqb Neqb_spec _ _ _ E) as Hin.
      split; [exact Hq|]. split; cbn [s_ready s_blocked].
      + intros t0 Hin0. apply in_app_iff in Hin0. destruct Hin0 as [Hin0|[<-|[]]]; [apply Hr, Hin0|].
        unfold done_good. intros c0 d0. cbn [Server.t_done]. rewrite in_app_iff.
        intros [H0|[Heq|[]]]; [eapply Hb; eassumption|]. injection Heq as <- ->. cbn in Hop. eapply Hop, Hin.
      + intros k0 c0 t0 Hin0. unfold adel in Hin0. apply filter_In in Hin0. eapply Hb, Hin0.
    - apply sgood_poll; assumption.
  Qed.

  Lemma SV_step st op : SV st -> sop_good st op -> SV (fst (sstep_l Sz st op)).
  Proof.
    intros (HI & HB & Hp & Hg) Hop. split; [apply sstep_l_inv, HI|]. split; [apply sstep_l_BK; assumption|].
    split; [apply sstep_l_no_panic; assumption | apply sgood_step; assumption].
  Qed.

  Lemma SV_init : SV sinit.
  Proof.
    split; [apply sinit_inv|]. split; [split; cbn; [constructor | tauto]|]. split; [reflexivity|].
    split; [constructor|]. split; [intros t []|intros k c t []].
  Qed.

  (* the batches of one poll carry good blocks *)
  Lemma poll_sends_good st p bl : SV st -> In (LSend p bl) (snd (Server.do_poll st)) -> Forall G bl.
  Proof.
    intros (HI & _ & _ & (Hq & Hr & _)) Hin.
    destruct (do_poll_spec st HI) as (st1 & out1 & wants' & wt' & bat & Hf & Hdp & HU & Hgets).
    rewrite Hdp in Hin. cbn [snd] in Hin. apply in_app_iff in Hin. destruct Hin as [Hin|Hin].
    - destruct (Hgets _ Hin) as (k & c & [=]).
    - apply in_map_iff in Hin. destruct Hin as ([p' bl'] & [= <- <-] & Hin).
      apply Forall_forall. intros b Hb.
      assert (Hbg : In b (bget p' bat)).
      { unfold bget. assert (Hnd : NoDup (map fst bat)) by (apply bsorted_NoDup, (uh_sorted _ _ _ HU)).
        rewrite (In_alookup N.eqb Neqb_spec _ _ _ Hnd Hin). exact Hb. }
      destruct (uh_from _ _ _ HU p' b Hbg) as [Hd _]. apply in_app_iff in Hd.
      destruct Hd as [Hd|Hd]; [rewrite Forall_forall in Hq; apply Hq, Hd|].
      pose proof (finished_hits_good _ Hr) as Hfg. rewrite Forall_forall in Hfg. apply Hfg, Hd.
  Qed.
End ServerGood.

(* ---------- call numbers of one poll ---------- *)
Lemma fold_run_task_gets_range ready : forall st out k c,
  In (LGet k c) (snd (fold_left run_task ready (st, out))) ->
  In (LGet k c) out \/ (s_next_call st <= k < s_next_call (fst (fold_left run_task ready (st, out)))).
Proof.
  induction ready as [|t ready IH]; intros st out k c; cbn [fold_left]; [auto|].
  destruct (Server.t_todo t) as [|c0 rest] eqn:Et.
  - rewrite (run_task_nil _ _ _ Et). intros H. apply IH in H. cbn [s_next_call] in H. exact H.
  - rewrite (run_task_cons _ _ _ _ _ Et). intros H. pose proof (fold_run_task_calls ready
      (MkS (s_wants st) (s_waiting st) (s_outq st) (s_ready st)
           (s_blocked st ++ [(s_next_call st, (c0, MkTask (t_peer t) (t_done t) rest))]) (s_next_call st + 1) (s_panic st) (s_bad_order st))
      (out ++ [LGet (s_next_call st) c0])) as Hmono. cbn [s_next_call] in Hmono.
    apply IH in H. cbn [s_next_call] in H. destruct H as [H|H].
    + apply in_app_iff in H. destruct H as [H|[[= <- <-]|[]]]; [left; exact H|]. right. lia.
    + right. lia.
Qed.

Lemma do_poll_calls st k c :
  Server_inv.Inv st -> BK st -> In (LGet k c) (snd (Server.do_poll st)) ->
  s_next_call st <= k < s_next_call (fst (Server.do_poll st)) /\
  forall c' t, In (k, (c', t)) (s_blocked (fst (Server.do_poll st))) -> c' = c.
Proof.
  intros HI HB Hin. destruct (do_poll_spec st HI) as (st1 & out1 & wants' & wt' & bat & Hf & Hdp & _ & _).
  pose proof (sstep_l_BK 0 st SPoll HI HB) as HB'. unfold sstep_l in HB'.
  assert (HB1 : BK (fst (Server.do_poll st))) by (destruct (s_panic st); [|exact HB']; rewrite Hdp; cbn [fst];
     pose proof (fold_run_task_BK (s_ready st) (poll_start st) [] HB) as Hb; rewrite Hf in Hb; exact Hb).
  rewrite Hdp in *. cbn [fst snd s_next_call s_blocked] in *.
  apply in_app_iff in Hin. destruct Hin as [Hin|Hin]; [|apply in_map_iff in Hin; destruct Hin as (x & [=] & _)].
  pose proof (fold_run_task_gets_range (s_ready st) (poll_start st) [] k c) as Hr. rewrite Hf in Hr. cbn [fst snd poll_start s_next_call] in Hr.
  destruct (Hr Hin) as [[]|Hrange]. split; [exact Hrange|].
  pose proof (fold_run_task_get_parked (s_ready st) (poll_start st) [] k c) as Hp. rewrite Hf in Hp. cbn [fst snd] in Hp.
  destruct (Hp Hin) as [[]|(t' & Ht')]. intros c' t Hb.
  destruct HB1 as [Hnd _]. cbn [s_blocked] in Hnd.
  pose proof (In_alookup N.eqb Neqb_spec _ _ _ Hnd Ht') as E1. pose proof (In_alookup N.eqb Neqb_spec _ _ _ Hnd Hb) as E2. congruence.
Qed.

Lemma do_poll_blocked_old st k c t :
  Server_inv.Inv st -> In (k, (c, t)) (s_blocked (fst (Server.do_poll st))) ->
  In (k, (c, t)) (s_blocked st) \/ s_next_call st <= k.
Proof.
  intros HI Hin. destruct (do_poll_spec st HI) as (st1 & out1 & wants' & wt' & bat & Hf & Hdp & _ & _).
  rewrite Hdp in Hin. cbn [fst s_blocked] in Hin.
  pose proof (fold_run_task_blocked_inv (s_ready st) (poll_start st) [] k c t) as Hinv. rewrite Hf in Hinv. cbn [fst snd poll_start s_blocked] in Hinv.
  destruct (Hinv Hin) as [Ho|(t0 & _ & _ & _ & _ & Hg)]; [left; exact Ho|]. right.
  pose proof (fold_run_task_gets_range (s_ready st) (poll_start st) [] k c) as Hr. rewrite Hf in Hr. cbn [fst snd poll_start s_next_call] in Hr.
  destruct (Hr Hg) as [[]|Hrange]. lia.
Qed.

Lemma do_poll_next_call_mono st : Server_inv.Inv st -> s_next_call st <= s_next_call (fst (Server.do_poll st)).
Proof.
  intros HI. destruct (do_poll_spec st HI) as (st1 & out1 & wants' & wt' & bat & Hf & Hdp & _ & _). rewrite Hdp. cbn [fst s_next_call].
  pose proof (fold_run_task_calls (s_ready st) (poll_start st) []) as H. rewrite Hf in H. exact H.
Qed.
