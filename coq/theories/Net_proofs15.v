(* Net_proofs15.v — package G: helper lemmas for `records sound` (C14): update wantlists of a client whose record of
   the peer covers its whole wantlist are CANCEL-only; what a server's want set for p can be after a poll, a
   cancel-only update, a full wantlist; which per-peer records a block batch changes. *)
From BS Require Import Server_lemmas Server_inv Server_proofs Server_live Wantlist_proofs Client_proofs Client_proofs2
  Client_proofs3 Client_proofs4 Net Net_proofs2 Net_proofs3 Net_proofs4 Net_proofs5 Net_proofs6 Net_proofs7 Net_proofs8
  Net_proofs9.
From Coq Require Import ZArith ZifyBool ZifyN ZifyNat Lia.
Open Scope N_scope.

Local Notation cid_eqb_spec := Wantlist_proofs.cid_eqb_spec.
Local Notation MAXW := MAX_WANTLIST_ENTRIES_PER_PEER.

(* ---------- a poll of a client without pending lookups leaves the peer records alone until update_handlers ---------- *)
Lemma tasks_run_noget_peers s outs s' : tasks_run s outs s' -> no_gets s -> cs_peers s' = cs_peers s.
Proof.
  induction 1 as [s Hr | s r outs s' Hr Hrun IH]; intros Hn.
  - destruct (after_tasks_frame s) as (_ & _ & Ep & _). exact Ep.
  - destruct (after_tasks_frame s) as (_ & _ & Ep & _).
    assert (Hn1 : no_gets (after_tasks s)) by (unfold no_gets; eapply no_gets_from; [apply (proj1 (after_tasks_tasks s)) | exact Hn]).
    pose proof (proj2 (after_tasks_tasks s)) as Hres. rewrite Hr in Hres. destruct Hres as (tid & t & t0 & Hin & (K & _) & Hro).
    destruct (Hn _ _ Hin) as (bl0 & Ek). rewrite <- K in Ek.
    destruct r as [q x res|ok bl|].
    + destruct Hro as (Hk & _). congruence.
    + assert (Hs : cs_peers (fst (handle_task_result (after_tasks s) (TrSet ok bl))) = cs_peers (after_tasks s) /\
                   cs_tasks (fst (handle_task_result (after_tasks s) (TrSet ok bl))) = cs_tasks (after_tasks s))
        by (destruct ok; cbn; auto).
      destruct Hs as (S1 & S3). rewrite IH; [congruence|]. unfold no_gets. rewrite S3. exact Hn1.
    + destruct Hro as (_ & q & x & Hk). congruence.
Qed.

(* ---------- records that cover the wantlist ---------- *)
Definition all_swh (w : wl) (s : wls) : Prop := forall x, In x (wl_cids w) -> rget x s = Some SentWantHave.

Lemma all_swh_shrink w w' s : (forall x, In x (wl_cids w') -> In x (wl_cids w)) -> all_swh w s -> all_swh w' s.
Proof. intros Hs H x Hx. apply H, Hs, Hx. Qed.

Lemma gen_update_swh w s :
  NoDup (map fst (req s)) -> all_swh w s ->
  all_swh w (snd (wls_generate_update s w)) /\
  (forall k x, In (k, x) (fst (wls_generate_update s w)) -> k = KCancel /\ In x (map fst (req s))) /\
  (forall x, rget x s = Some SentWantHave ->
     rget x (snd (wls_generate_update s w)) = Some SentWantHave \/ In (KCancel, x) (fst (wls_generate_update s w))).
Proof.
  intros Hnd Hall. rewrite gen_update_unfold. destruct (wls_is_updated s w); cbn [fst snd].
  - split; [exact Hall|]. split; [intros k x []|]. intros x Hx. left. exact Hx.
  - split; [|split].
    + intros x Hx. rewrite upd_body_rget. pose proof Hx as Hm. apply cid_mem_In in Hm. rewrite Hm, (Hall _ Hx). reflexivity.
    + intros k x Hin. apply (upd_body_entries _ _ _ _ Hnd) in Hin. destruct Hin as [(st & Hr & Hin)|(_ & Hw & Hr)].
      * unfold upd_entries in Hin. cbn [fst snd] in Hin. destruct (cid_mem x (wl_cids w)) eqn:M.
        -- apply cid_mem_In in M. rewrite (Hall _ M) in Hr. injection Hr as <-. destruct Hin.
        -- split; [|apply rget_none_keys; congruence]. destruct st; cbn in Hin; try (destruct Hin as [[= <-]|[]]; reflexivity). destruct Hin.
      * rewrite (Hall _ Hw) in Hr. discriminate.
    + intros x Hx. destruct (cid_mem x (wl_cids w)) eqn:M.
      * left. rewrite upd_body_rget, M, Hx. reflexivity.
      * right. apply (upd_body_entries _ _ _ _ Hnd). left. exists SentWantHave. split; [exact Hx|].
        unfold upd_entries. cbn [fst snd]. rewrite M. left. reflexivity.
Qed.

(* ---------- the entries of a wire wantlist, parsed ---------- *)
Section Parse2.
  Variable Sz : N.
  Hypothesis HSz : 32 <= Sz.

  Lemma entry_cids_false_rev sdh es x :
    (forall k y, In (k, y) es -> wf_cid Sz y) ->
    In x (entry_cids Sz false (map (entry_of sdh) es)) -> exists k, k <> KCancel /\ In (k, x) es.
  Proof.
    induction es as [|[k y] es IH]; intros Hwf; [intros []|]. cbn [map entry_cids].
    assert (Hy : wf_cid Sz y) by (eapply Hwf; left; reflexivity).
    assert (IH' := IH (fun k0 x0 H => Hwf k0 x0 (or_intror H))).
    destruct k; cbn [entry_of fst snd new_want_have_entry new_want_block_entry new_cancel_entry e_cancel e_block Bool.eqb].
    - rewrite (cid_read_write0 Sz y HSz Hy). intros [<-|H]; [exists KWantHave; split; [discriminate | left; reflexivity]|].
      destruct (IH' H) as (k & Hk & Hin). exists k. split; [exact Hk | right; exact Hin].
    - rewrite (cid_read_write0 Sz y HSz Hy). intros [<-|H]; [exists KWantBlock; split; [discriminate | left; reflexivity]|].
      destruct (IH' H) as (k & Hk & Hin). exists k. split; [exact Hk | right; exact Hin].
    - intros H. destruct (IH' H) as (k & Hk & Hin). exists k. split; [exact Hk | right; exact Hin].
  Qed.

  Lemma entry_cids_cancel_conv sdh es x :
    wf_cid Sz x -> In (KCancel, x) es -> In x (entry_cids Sz true (map (entry_of sdh) es)).
  Proof.
    intros Hwf. induction es as [|[k y] es IH]; [intros []|]. cbn [map entry_cids]. intros [Heq|Hin].
    - injection Heq as -> ->. cbn [entry_of fst snd new_cancel_entry e_cancel e_block Bool.eqb].
      rewrite (cid_read_write0 Sz x HSz Hwf). left. reflexivity.
    - specialize (IH Hin). destruct (Bool.eqb (e_cancel (entry_of sdh (k, y))) true); [|exact IH].
      destruct (cid_read_bytes Sz (e_block (entry_of sdh (k, y)))); [right|..]; exact IH.
  Qed.

  Lemma add_capped_sub l : forall s x, In x (add_capped l s) -> In x l \/ In x s.
  Proof.
    induction l as [|y l IH]; intros s x H; cbn [add_capped] in H; [auto|].
    destruct (MAXW <=? len s); [auto|]. apply IH in H. destruct H as [H|H]; [left; right; exact H|].
    apply cadd_In in H. destruct H as [->|H]; [left; left; reflexivity | right; exact H].
  Qed.

  (* ---------- the server's want set for p, backwards ---------- *)
  Lemma msg_other_rev st q w order p x :
    q <> p -> wantsP (s_wants (fst (sstep_l Sz st (SMsg q w order)))) p x -> wantsP (s_wants st) p x.
  Proof.
    intros Hq. unfold sstep_l. destruct (s_panic st); [auto|]. cbn [fst]. unfold process_incoming_message.
    destruct (alookup N.eqb q (s_wants st)) as [old|]; [|auto]. destruct (process_wantlist Sz old w); [auto|]. cbn [s_wants].
    intros (s0 & Hs0 & Hc). exists s0. split; [|exact Hc]. rewrite (alookup_aset_neq N.eqb Server_lemmas.Neqb_spec) in Hs0 by congruence. exact Hs0.
  Qed.

  Lemma cancel_msg_rev st p sdh es order x :
    Server_inv.Inv st -> s_panic st = false -> (forall k y, In (k, y) es -> k = KCancel /\ wf_cid Sz y) ->
    wantsP (s_wants (fst (sstep_l Sz st (SMsg p (proto_of sdh false es) order)))) p x ->
    wantsP (s_wants st) p x /\ ~ In (KCancel, x) es.
  Proof.
    intros (HW & _ & _) Hp Hes. unfold sstep_l. rewrite Hp.
    - cbn [fst]. unfold process_incoming_message. destruct (alookup N.eqb p (s_wants st)) as [old|] eqn:Eo.
      2:{ intros (s0 & Hs0 & _). congruence. }
      destruct (proj2 HW _ _ Eo) as [Hnd Hlo].
      destruct (process_wantlist Sz old (proto_of sdh false es)) as [|new adds rems] eqn:Epw;
        [exfalso; eapply process_wantlist_no_panic; eassumption|].
      destruct (process_wantlist_spec Sz old _ new adds rems Hnd Hlo Epw) as [_ Hnew]. cbn [s_wants].
      intros (s0 & Hs0 & Hc). rewrite (alookup_aset_eq N.eqb Server_lemmas.Neqb_spec) in Hs0. injection Hs0 as <-.
      rewrite Hnew in Hc. unfold view_msg in Hc. cbn [proto_of w_full w_entries] in Hc.
      apply add_capped_sub in Hc. destruct Hc as [Hc|Hc].
      + exfalso. apply (entry_cids_false_rev sdh es x) in Hc; [|intros k y Hy; apply (Hes _ _ Hy)].
        destruct Hc as (k & Hk & Hin). apply Hk, (Hes _ _ Hin).
      + apply fold_cremove_In in Hc. destruct Hc as [Ho Hn]. split; [exists old; auto|].
        intros Hin. apply Hn. apply entry_cids_cancel_conv; [apply (Hes _ _ Hin) | exact Hin].
  Qed.
End Parse2.

(* ---------- a server poll, backwards ---------- *)
Lemma do_poll_wants_rev st p x :
  Server_inv.Inv st -> wantsP (s_wants (fst (Server.do_poll st))) p x ->
  wantsP (s_wants st) p x /\ ~ In x (map fst (s_outq st ++ finished_hits (s_ready st))).
Proof.
  intros HI. destruct (do_poll_spec st HI) as (st1 & out1 & wants' & wt' & bat & Hf & Hdp & HU & _).
  rewrite Hdp. cbn [fst s_wants]. intros H. apply (uh_all _ _ _ HU) in H. exact H.
Qed.

(* a block dispatched to p is not in p's want set afterwards *)
Lemma do_poll_send_unwanted st p bl x :
  Server_inv.Inv st -> In (LSend p bl) (snd (Server.do_poll st)) -> In x (map fst bl) ->
  ~ wantsP (s_wants (fst (Server.do_poll st))) p x.
Proof.
  intros HI Hin Hx Hw. destruct (do_poll_wants_rev st p x HI Hw) as [_ Hn]. apply Hn.
  destruct (do_poll_spec st HI) as (st1 & out1 & wants' & wt' & bat & Hf & Hdp & HU & Hgets).
  rewrite Hdp in Hin. cbn [snd] in Hin. apply in_app_iff in Hin.
  destruct Hin as [Hin|Hin]; [destruct (Hgets _ Hin) as (k & c0 & [=])|].
  apply in_map_iff in Hin. destruct Hin as ([p' bl'] & [= <- <-] & Hin).
  apply in_map_iff in Hx. destruct Hx as (b & <- & Hb).
  assert (Hbg : In b (bget p' bat)).
  { unfold bget. assert (Hnd : NoDup (map fst bat)) by (apply bsorted_NoDup, (uh_sorted _ _ _ HU)).
    rewrite (In_alookup N.eqb Server_lemmas.Neqb_spec _ _ _ Hnd Hin). exact Hb. }
  destruct (uh_from _ _ _ HU p' b Hbg) as [Hd _]. apply in_map. exact Hd.
Qed.

(* ---------- which records a block batch changes ---------- *)
Lemma inc_block_rget a b y :
  (y <> fst b \/ In y (wl_cids (ia_wl (inc_block a b)))) -> rget y (ia_pwl (inc_block a b)) = rget y (ia_pwl a).
Proof.
  unfold inc_block. destruct (ia_panic a); [reflexivity|]. destruct b as [x d]. cbn [fst]. unfold wl_remove.
  destruct (cid_mem x (wl_cids (ia_wl a))) eqn:M; cbn [negb].
  - cbn [ia_wl ia_pwl wl_cids]. intros H. rewrite rget_got_block. destruct (cid_eqb x y) eqn:E; [|reflexivity].
    apply cid_eqb_spec in E. subst y. destruct H as [H|H]; [congruence|]. apply cid_remove_In in H. tauto.
  - destruct (al_mem cid_eqb x (ia_c2q a)); reflexivity.
Qed.

Lemma inc_blocks_rget bl : forall a y,
  (~ In y (map fst bl) \/ In y (wl_cids (ia_wl (fold_left inc_block bl a)))) ->
  rget y (ia_pwl (fold_left inc_block bl a)) = rget y (ia_pwl a).
Proof.
  induction bl as [|b bl IH]; intros a y H; cbn [fold_left]; [reflexivity|].
  rewrite IH.
  - apply inc_block_rget. destruct H as [H|H]; [left; intros ->; apply H; left; reflexivity|].
    right. destruct (cid_mem y (wl_cids (ia_wl (inc_block a b)))) eqn:M; [apply cid_mem_In, M|].
    apply (inc_blocks_wl_shrinks bl) in M. apply cid_mem_In in H. cbn [fold_left] in H. congruence.
  - destruct H as [H|H]; [left; intros Hy; apply H; right; exact Hy | right; exact H].
Qed.

Lemma c_incoming_peer cl a blocks q psq :
  NoDup (map fst (cs_peers cl)) -> In (q, psq) (cs_peers cl) ->
  exists psq', In (q, psq') (cs_peers (fst (c_incoming cl a [] blocks))) /\
    p_send_full psq' = p_send_full psq /\ p_ss psq' = p_ss psq /\ (q <> a -> psq' = psq) /\
    (forall y, (~ In y (map fst blocks) \/ In y (wl_cids (cs_wl (fst (c_incoming cl a [] blocks))))) ->
               rget y (p_wl psq') = rget y (p_wl psq)).
Proof.
  intros Hnd Hin. unfold c_incoming. destruct (al_find N.eqb a (cs_peers cl)) as [ps|] eqn:E.
  2:{ cbn [fst]. exists psq. auto. }
  cbn [fold_left]. set (a0 := MkInc (cs_wl cl) (p_wl ps) (cs_c2q cl) (cs_queue cl) [] false). set (af := fold_left inc_block blocks a0).
  apply (al_find_some_in _ Client_proofs.Neqb_spec) in E.
  assert (Hp : exists psq',
            In (q, psq') (al_modify N.eqb a (fun ps0 => MkPeer (p_conns ps0) (p_ss ps0) (ia_pwl af) (p_send_full ps0)) (cs_peers cl)) /\
            p_send_full psq' = p_send_full psq /\ p_ss psq' = p_ss psq /\ (q <> a -> psq' = psq) /\
            (forall y, (~ In y (map fst blocks) \/ In y (wl_cids (ia_wl af))) -> rget y (p_wl psq') = rget y (p_wl psq))).
  { unfold al_modify. destruct (a =? q) eqn:Eq.
    - apply N.eqb_eq in Eq. subst q. assert (psq = ps) by (eapply NoDup_keys_in_eq; eassumption). subst psq.
      exists (MkPeer (p_conns ps) (p_ss ps) (ia_pwl af) (p_send_full ps)). split; [|split; [reflexivity|split; [reflexivity|split]]].
      + apply in_map_iff. exists (a, ps). cbn [fst snd]. rewrite N.eqb_refl. auto.
      + intros H. congruence.
      + intros y Hy. cbn [p_wl]. unfold af. rewrite (inc_blocks_rget blocks a0 y Hy). reflexivity.
    - exists psq. split; [|auto]. apply in_map_iff. exists (q, psq). cbn [fst snd]. rewrite Eq. auto. }
  destruct (ia_panic af); [|destruct (ia_new af) as [|b0 nb]]; cbn [fst push_task cs_wl cs_peers]; exact Hp.
Qed.
