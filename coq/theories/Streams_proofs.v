(* Streams_proofs.v — lemmas and theorems about Streams.v (C16 at stream / connection level). *)
From BS Require Import Bytes Varint Varint_proofs Cid Prefix Hasher Proto Incoming Qp ProtoCodec RefProto Frame Framed
                       Codec Frame_proofs Framed_proofs ProtoCodec_proofs RefProto_proofs Codec_proofs
                       Prefix_proofs Incoming_proofs Streams.
From Coq Require Import ZArith ZifyBool ZifyN ZifyNat Lia.
Open Scope N_scope.

(* ---------- list helpers ---------- *)

Definition is_prefix {A} (a b : list A) : Prop := exists tl, b = a ++ tl.

Lemma is_prefix_refl {A} (a : list A) : is_prefix a a.
Proof. exists []. rewrite app_nil_r. reflexivity. Qed.

Lemma is_prefix_nil {A} (a : list A) : is_prefix [] a.
Proof. exists a. reflexivity. Qed.

Lemma is_prefix_cons {A} (x : A) a b : is_prefix a b -> is_prefix (x :: a) (x :: b).
Proof. intros [tl ->]. exists tl. reflexivity. Qed.

Lemma is_prefix_trans {A} (a b c : list A) : is_prefix a b -> is_prefix b c -> is_prefix a c.
Proof. intros [t1 ->] [t2 ->]. exists (t1 ++ t2). rewrite app_assoc. reflexivity. Qed.

Lemma nth_error_set_nth_same {A} (l : list A) : forall n x y,
  nth_error l n = Some y -> nth_error (set_nth n x l) n = Some x.
Proof.
  induction l as [|z l IH]; intros n x y H; destruct n as [|n]; cbn [nth_error set_nth] in *; try discriminate.
  - reflexivity.
  - eapply IH; eassumption.
Qed.

Lemma nth_error_set_nth_other {A} (l : list A) : forall n m x,
  n <> m -> nth_error (set_nth n x l) m = nth_error l m.
Proof.
  induction l as [|z l IH]; intros n m x Hnm; [reflexivity|].
  destruct n as [|n]; destruct m as [|m]; cbn [nth_error set_nth]; try reflexivity; try congruence.
  apply IH. congruence.
Qed.

Lemma length_set_nth {A} (l : list A) : forall n x, length (set_nth n x l) = length l.
Proof.
  induction l as [|z l IH]; intros n x; [reflexivity|].
  destruct n as [|n]; cbn [set_nth length]; [reflexivity|]. rewrite IH. reflexivity.
Qed.

Lemma read_ev_eq_dec (a b : read_ev) : {a = b} + {a <> b}.
Proof. decide equality. apply (list_eq_dec N.eq_dec). Defined.

Lemma list_eq_dec_events (a b : list read_ev) : {a = b} + {a <> b}.
Proof. apply (list_eq_dec read_ev_eq_dec). Defined.

Set Default Proof Using "Type".

Section StreamsProofs.
  Variable msg : Type.
  Variable parse : bytes -> N -> parse_result msg.
  Variable proc : msg -> pm_result.

  Local Notation decode := (frame_decode parse).
  Local Notation pn := (poll_next parse).
  Local Notation so_fuel := (so_fuel parse proc).
  Local Notation so_from := (so_from parse proc).
  Local Notation is_poll_fuel := (is_poll_fuel parse proc).
  Local Notation is_poll := (is_poll parse proc).
  Local Notation poll_stream := (poll_stream parse proc).
  Local Notation polls_from := (polls_from parse proc).
  Local Notation conn_steps := (conn_steps parse proc).

  (* ---------- fuel ---------- *)

  Lemma stream_fuel_measure buf evs : stream_fuel buf evs = S (measure buf evs).
  Proof. reflexivity. Qed.

  Lemma pn_item_measure buf evs m b evs' :
    pn buf evs = (Item m, b, evs') -> (measure b evs' < measure buf evs)%nat.
  Proof. intros H. exact (poll_next_measure msg parse buf evs (Item m) b evs' H I). Qed.

  Lemma pn_pending_measure buf evs b e evs' :
    pn buf evs = (Pending, b, e :: evs') -> (measure b (e :: evs') < measure buf evs)%nat.
  Proof.
    intros H. apply (poll_next_measure msg parse buf evs Pending b (e :: evs') H). discriminate.
  Qed.

  Lemma so_fuel_irrel f1 : forall f2 buf evs,
    (measure buf evs < f1)%nat -> (measure buf evs < f2)%nat -> so_fuel f1 buf evs = so_fuel f2 buf evs.
  Proof.
    induction f1 as [|f1 IH]; intros f2 buf evs H1 H2; [lia|]. destruct f2 as [|f2]; [lia|].
    cbn [Streams.so_fuel]. destruct (pn buf evs) as [[o b] evs'] eqn:E. destruct o; try reflexivity.
    - apply pn_item_measure in E. destruct (proc m) as [inc| |]; try reflexivity.
      rewrite (IH f2 b evs') by lia. reflexivity.
    - destruct evs' as [|e evs']; [reflexivity|]. apply pn_pending_measure in E. apply IH; lia.
  Qed.

  Lemma so_fuel_from f buf evs : (measure buf evs < f)%nat -> so_fuel f buf evs = so_from buf evs.
  Proof. intros H. unfold Streams.so_from. apply so_fuel_irrel; [assumption|]. rewrite stream_fuel_measure. lia. Qed.

  Lemma so_fuel_enough f : forall buf evs, (measure buf evs < f)%nat -> snd (so_fuel f buf evs) <> SfFuel.
  Proof.
    induction f as [|f IH]; intros buf evs H; [lia|]. cbn [Streams.so_fuel].
    destruct (pn buf evs) as [[o b] evs'] eqn:E. destruct o; cbn [snd]; try discriminate.
    - apply pn_item_measure in E. destruct (proc m) as [inc| |]; cbn [snd]; try discriminate.
      specialize (IH b evs'). destruct (so_fuel f b evs') as [ms fin]. cbn [snd] in *. apply IH. lia.
    - destruct evs' as [|e evs']; [cbn [snd]; discriminate|]. apply pn_pending_measure in E. apply IH. lia.
  Qed.

  Lemma so_from_fuel buf evs : snd (so_from buf evs) <> SfFuel.
  Proof. apply so_fuel_enough. rewrite stream_fuel_measure. lia. Qed.

  (* one step of the whole-life run, fuel-free *)
  Lemma so_from_step buf evs :
    so_from buf evs =
    match pn buf evs with
    | (Item m, buf', evs') =>
        match proc m with
        | PmOk inc => let (ms, fin) := so_from buf' evs' in (if forwarded inc then inc :: ms else ms, fin)
        | PmClose => ([], SfClosed)
        | PmPanic => ([], SfPanic)
        end
    | (Pending, buf', evs') => match evs' with [] => ([], SfPending) | _ :: _ => so_from buf' evs' end
    | (StreamErr, _, _) => ([], SfErr)
    | (StreamEnd, _, _) => ([], SfEnd)
    | (Panicked, _, _) => ([], SfPanic)
    | (Looped, _, _) => ([], SfLoop)
    end.
  Proof.
    unfold Streams.so_from at 1. rewrite stream_fuel_measure. cbn [Streams.so_fuel].
    destruct (pn buf evs) as [[o b] evs'] eqn:E. destruct o; try reflexivity.
    - apply pn_item_measure in E. destruct (proc m) as [inc| |]; try reflexivity.
      rewrite so_fuel_from by assumption. reflexivity.
    - destruct evs' as [|e evs']; [reflexivity|]. apply pn_pending_measure in E.
      apply so_fuel_from. assumption.
  Qed.

  Lemma is_poll_fuel_irrel f1 : forall f2 buf evs,
    (measure buf evs < f1)%nat -> (measure buf evs < f2)%nat -> is_poll_fuel f1 buf evs = is_poll_fuel f2 buf evs.
  Proof.
    induction f1 as [|f1 IH]; intros f2 buf evs H1 H2; [lia|]. destruct f2 as [|f2]; [lia|].
    cbn [Streams.is_poll_fuel]. destruct (pn buf evs) as [[o b] evs'] eqn:E. destruct o; try reflexivity.
    apply pn_item_measure in E. destruct (proc m) as [inc| |]; try reflexivity.
    destruct (forwarded inc); [reflexivity|]. apply IH; lia.
  Qed.

  Lemma is_poll_step buf evs :
    is_poll buf evs =
    match pn buf evs with
    | (Item m, buf', evs') =>
        match proc m with
        | PmOk inc => if forwarded inc then (IsMsg inc, buf', evs') else is_poll buf' evs'
        | PmClose => (IsDone SfClosed, buf', evs')
        | PmPanic => (IsPanic, buf', evs')
        end
    | (Pending, buf', evs') => (IsPending, buf', evs')
    | (StreamErr, buf', evs') => (IsDone SfErr, buf', evs')
    | (StreamEnd, buf', evs') => (IsDone SfEnd, buf', evs')
    | (Panicked, buf', evs') => (IsPanic, buf', evs')
    | (Looped, buf', evs') => (IsLoop, buf', evs')
    end.
  Proof.
    unfold Streams.is_poll at 1. rewrite stream_fuel_measure. cbn [Streams.is_poll_fuel].
    destruct (pn buf evs) as [[o b] evs'] eqn:E. destruct o; try reflexivity.
    apply pn_item_measure in E. destruct (proc m) as [inc| |]; try reflexivity.
    destruct (forwarded inc); [reflexivity|]. unfold Streams.is_poll.
    apply is_poll_fuel_irrel; [assumption|]. rewrite stream_fuel_measure. lia.
  Qed.

  (* a poll never reports out-of-fuel *)
  Lemma is_poll_fuel_enough f : forall buf evs o b e,
    (measure buf evs < f)%nat -> is_poll_fuel f buf evs = (o, b, e) -> o <> IsFuel.
  Proof.
    induction f as [|f IH]; intros buf evs o b e H Hp; [lia|]. cbn [Streams.is_poll_fuel] in Hp.
    destruct (pn buf evs) as [[o' b'] evs'] eqn:E.
    destruct o'; try (injection Hp as <- _ _; discriminate).
    apply pn_item_measure in E. destruct (proc m) as [inc| |]; try (injection Hp as <- _ _; discriminate).
    destruct (forwarded inc); [injection Hp as <- _ _; discriminate|].
    eapply IH; [|eassumption]. lia.
  Qed.

  Lemma is_poll_no_fuel buf evs o b e : is_poll buf evs = (o, b, e) -> o <> IsFuel.
  Proof. apply is_poll_fuel_enough. rewrite stream_fuel_measure. lia. Qed.

  (* ---------- more read events: what a run has done stays done ---------- *)

  Lemma read_loop_app more : forall evs buf o b evs',
    read_loop parse buf evs = (o, b, evs') ->
    (o = Pending /\ evs' = []) \/ read_loop parse buf (evs ++ more) = (o, b, evs' ++ more).
  Proof.
    induction evs as [|e evs IH]; intros buf o b evs' H; cbn [read_loop app] in *.
    - injection H as <- <- <-. left. split; reflexivity.
    - destruct (read_of e) as [bs| |].
      + destruct (decode (buf ++ bs)) as [| |m rest| |]; try (right; injection H as <- <- <-; reflexivity).
        destruct (len bs =? 0).
        * destruct (eof_branch parse (buf ++ bs)) as [o' b']. right. injection H as <- <- <-. reflexivity.
        * apply IH. assumption.
      + right. injection H as <- <- <-. reflexivity.
      + right. injection H as <- <- <-. reflexivity.
  Qed.

  Lemma pn_app more buf evs o b evs' :
    pn buf evs = (o, b, evs') ->
    (o = Pending /\ evs' = []) \/ pn buf (evs ++ more) = (o, b, evs' ++ more).
  Proof.
    unfold poll_next. destruct (decode buf) as [| |m rest| |]; intros H;
      try (right; injection H as <- <- <-; reflexivity).
    apply read_loop_app. assumption.
  Qed.

  Lemma so_from_app more n : forall buf evs, (measure buf evs < n)%nat ->
    is_prefix (fst (so_from buf evs)) (fst (so_from buf (evs ++ more)))
    /\ (snd (so_from buf evs) <> SfPending -> so_from buf (evs ++ more) = so_from buf evs).
  Proof.
    induction n as [|n IH]; intros buf evs Hn; [lia|].
    rewrite (so_from_step buf evs), (so_from_step buf (evs ++ more)).
    destruct (pn buf evs) as [[o b] evs'] eqn:E.
    destruct (pn_app more _ _ _ _ _ E) as [[-> ->]|E'].
    - cbn [fst snd]. split; [apply is_prefix_nil|congruence].
    - rewrite E'. destruct o; try (split; [apply is_prefix_refl|reflexivity]).
      + apply pn_item_measure in E. destruct (proc m) as [inc| |]; try (split; [apply is_prefix_refl|reflexivity]).
        destruct (IH b evs' ltac:(lia)) as [H1 H2].
        destruct (so_from b evs') as [ms fin], (so_from b (evs' ++ more)) as [ms' fin']. cbn [fst snd] in *.
        split.
        * destruct (forwarded inc); [apply is_prefix_cons|]; assumption.
        * intros Hf. specialize (H2 Hf). injection H2 as -> ->. reflexivity.
      + destruct evs' as [|e evs'].
        * cbn [fst snd]. split; [apply is_prefix_nil|congruence].
        * apply pn_pending_measure in E. cbn [app]. apply IH. lia.
  Qed.

  (* ---------- a Pending poll leaves a buffer on which the decoder waits ---------- *)

  Lemma eof_branch_not_pending buf o b : eof_branch parse buf = (o, b) -> o <> Pending.
  Proof.
    unfold eof_branch. destruct buf as [|x buf]; [intros [= <- _]; discriminate|].
    destruct (decode (x :: buf)); intros [= <- _]; discriminate.
  Qed.

  Lemma read_loop_pending_waits : forall evs buf b evs',
    decode buf = DNeedMore -> read_loop parse buf evs = (Pending, b, evs') -> decode b = DNeedMore.
  Proof.
    induction evs as [|e evs IH]; intros buf b evs' Hd H; cbn [read_loop] in H.
    - injection H as <- <-. assumption.
    - destruct (read_of e) as [bs| |]; try discriminate.
      + destruct (decode (buf ++ bs)) as [| |m rest| |] eqn:E; try discriminate.
        destruct (len bs =? 0).
        * destruct (eof_branch parse (buf ++ bs)) as [o' b'] eqn:Eb. injection H as -> <- <-.
          apply eof_branch_not_pending in Eb. congruence.
        * eapply IH; eassumption.
      + injection H as <- <-. assumption.
  Qed.

  Lemma pn_pending_waits buf evs b evs' : pn buf evs = (Pending, b, evs') -> decode b = DNeedMore.
  Proof.
    unfold poll_next. destruct (decode buf) eqn:E; try discriminate. apply read_loop_pending_waits. assumption.
  Qed.

  Lemma pn_idle b : decode b = DNeedMore -> pn b [] = (Pending, b, []).
  Proof. intros H. unfold poll_next. rewrite H. reflexivity. Qed.

  Lemma is_poll_pending_waits n : forall buf evs b e,
    (measure buf evs < n)%nat -> is_poll buf evs = (IsPending, b, e) -> decode b = DNeedMore.
  Proof.
    induction n as [|n IH]; intros buf evs b e Hn H; [lia|]. rewrite is_poll_step in H.
    destruct (pn buf evs) as [[o b'] evs'] eqn:E. destruct o; try discriminate.
    - apply pn_item_measure in E. destruct (proc m) as [inc| |]; try discriminate.
      destruct (forwarded inc); [discriminate|]. eapply IH; [|eassumption]. lia.
    - injection H as <- <-. eapply pn_pending_waits. eassumption.
  Qed.

  Lemma is_poll_idle b : decode b = DNeedMore -> is_poll b [] = (IsPending, b, []).
  Proof. intros H. rewrite is_poll_step, (pn_idle b H). reflexivity. Qed.

  (* a poll that lets the stream go on has consumed something *)
  Lemma is_poll_measure n : forall buf evs o b e,
    (measure buf evs < n)%nat -> is_poll buf evs = (o, b, e) ->
    match o with IsMsg _ => True | IsPending => e <> [] | _ => False end ->
    (measure b e < measure buf evs)%nat.
  Proof.
    induction n as [|n IH]; intros buf evs o b e Hn H Ho; [lia|]. rewrite is_poll_step in H.
    destruct (pn buf evs) as [[o' b'] evs'] eqn:E.
    destruct o'; try (injection H as <- <- <-; contradiction).
    - apply pn_item_measure in E. destruct (proc m) as [inc| |]; try (injection H as <- <- <-; contradiction).
      destruct (forwarded inc); [injection H as <- <- <-; assumption|].
      assert (H' := IH b' evs' o b e ltac:(lia) H Ho). lia.
    - injection H as <- <- <-. destruct evs' as [|x evs']; [congruence|].
      apply pn_pending_measure in E. assumption.
  Qed.

  (* the whole-life run in terms of IncomingStream::poll_next *)
  Lemma so_from_is_poll n : forall buf evs, (measure buf evs < n)%nat ->
    so_from buf evs =
    match is_poll buf evs with
    | (IsMsg inc, b, e) => let (ms, fin) := so_from b e in (inc :: ms, fin)
    | (IsPending, b, e) => match e with [] => ([], SfPending) | _ :: _ => so_from b e end
    | (IsDone why, _, _) => ([], why)
    | (IsPanic, _, _) => ([], SfPanic)
    | (IsLoop, _, _) => ([], SfLoop)
    | (IsFuel, _, _) => ([], SfFuel)
    end.
  Proof.
    induction n as [|n IH]; intros buf evs Hn; [lia|]. rewrite so_from_step, is_poll_step.
    destruct (pn buf evs) as [[o b] evs'] eqn:E. destruct o; try reflexivity.
    apply pn_item_measure in E. destruct (proc m) as [inc| |]; try reflexivity.
    destruct (forwarded inc); [reflexivity|].
    rewrite <- (IH b evs') by lia. destruct (so_from b evs'); reflexivity.
  Qed.

  Lemma so_from_poll buf evs :
    so_from buf evs =
    match is_poll buf evs with
    | (IsMsg inc, b, e) => let (ms, fin) := so_from b e in (inc :: ms, fin)
    | (IsPending, b, e) => match e with [] => ([], SfPending) | _ :: _ => so_from b e end
    | (IsDone why, _, _) => ([], why)
    | (IsPanic, _, _) => ([], SfPanic)
    | (IsLoop, _, _) => ([], SfLoop)
    | (IsFuel, _, _) => ([], SfFuel)
    end.
  Proof. apply (so_from_is_poll (S (measure buf evs))). lia. Qed.

  Lemma is_poll_done_ended_n n : forall buf evs why b e,
    (measure buf evs < n)%nat -> is_poll buf evs = (IsDone why, b, e) -> sfinal_ended why = true.
  Proof.
    induction n as [|n IH]; intros buf evs why b e Hn H; [lia|]. rewrite is_poll_step in H.
    destruct (pn buf evs) as [[o b'] evs'] eqn:E. destruct o; try discriminate;
      try (injection H as <- _ _; reflexivity).
    apply pn_item_measure in E. destruct (proc m) as [inc| |]; try discriminate;
      try (injection H as <- _ _; reflexivity).
    destruct (forwarded inc); [discriminate|]. eapply IH; [|eassumption]. lia.
  Qed.

  Lemma is_poll_done_ended buf evs why b e : is_poll buf evs = (IsDone why, b, e) -> sfinal_ended why = true.
  Proof. apply (is_poll_done_ended_n (S (measure buf evs))). lia. Qed.

  (* ---------- n successive polls of one stream ---------- *)

  Local Notation alive b e := (MkSstate b e SfPending).

  Lemma polls_dead n : forall st, ss_status st <> SfPending -> polls_from n st = ([], st).
  Proof.
    induction n as [|n IH]; intros st H; [reflexivity|]. cbn [Streams.polls_from].
    unfold Streams.poll_stream. destruct (ss_status st) eqn:E; try congruence; rewrite IH by congruence; reflexivity.
  Qed.

  Lemma polls_idle n : forall b, decode b = DNeedMore -> polls_from n (alive b []) = ([], alive b []).
  Proof.
    induction n as [|n IH]; intros b H; [reflexivity|]. cbn [Streams.polls_from].
    unfold Streams.poll_stream. cbn [ss_status ss_buf ss_evs]. rewrite (is_poll_idle b H), IH by assumption.
    reflexivity.
  Qed.

  Lemma poll_stream_alive b e :
    poll_stream (alive b e) =
    match is_poll b e with
    | (IsMsg inc, b', e') => (Some inc, alive b' e')
    | (IsPending, b', e') => (None, alive b' e')
    | (IsDone why, b', e') => (None, MkSstate b' e' why)
    | (IsPanic, b', e') => (None, MkSstate b' e' SfPanic)
    | (IsLoop, b', e') => (None, MkSstate b' e' SfLoop)
    | (IsFuel, b', e') => (None, MkSstate b' e' SfFuel)
    end.
  Proof. reflexivity. Qed.

  (* however often it is polled, a stream yields a prefix of its whole-life output *)
  Lemma polls_prefix n : forall buf evs,
    is_prefix (fst (polls_from n (alive buf evs))) (fst (so_from buf evs)).
  Proof.
    induction n as [|n IH]; intros buf evs; [apply is_prefix_nil|].
    cbn [Streams.polls_from]. rewrite poll_stream_alive, (so_from_poll buf evs).
    destruct (is_poll buf evs) as [[o b] e] eqn:E. destruct o.
    - specialize (IH b e). destruct (polls_from n (alive b e)) as [ms st''], (so_from b e) as [ms' fin].
      cbn [fst] in *. apply is_prefix_cons. assumption.
    - rewrite polls_dead by (cbn [ss_status]; apply is_poll_done_ended in E; destruct why; discriminate).
      apply is_prefix_nil.
    - destruct e as [|x e].
      + rewrite polls_idle
          by (eapply (is_poll_pending_waits (S (measure buf evs))); [|eassumption]; lia).
        apply is_prefix_nil.
      + specialize (IH b (x :: e)). destruct (polls_from n (alive b (x :: e))) as [ms st'']. assumption.
    - rewrite polls_dead by (cbn [ss_status]; discriminate). apply is_prefix_nil.
    - rewrite polls_dead by (cbn [ss_status]; discriminate). apply is_prefix_nil.
    - rewrite polls_dead by (cbn [ss_status]; discriminate). apply is_prefix_nil.
  Qed.

  Lemma so_from_idle b : decode b = DNeedMore -> so_from b [] = ([], SfPending).
  Proof. intros H. rewrite so_from_step, (pn_idle b H). reflexivity. Qed.

  (* polled often enough, it yields all of it and ends up in the same way *)
  Lemma polls_enough n : forall buf evs, (measure buf evs < n)%nat ->
    fst (polls_from n (alive buf evs)) = fst (so_from buf evs)
    /\ ss_status (snd (polls_from n (alive buf evs))) = snd (so_from buf evs).
  Proof.
    induction n as [|n IH]; intros buf evs Hn; [lia|].
    cbn [Streams.polls_from]. rewrite poll_stream_alive, (so_from_poll buf evs).
    destruct (is_poll buf evs) as [[o b] e] eqn:E. destruct o.
    - assert (Hm := is_poll_measure (S (measure buf evs)) buf evs _ _ _ (Nat.lt_succ_diag_r _) E I).
      destruct (IH b e ltac:(lia)) as [H1 H2].
      destruct (polls_from n (alive b e)) as [ms st''], (so_from b e) as [ms' fin].
      cbn [fst snd] in *. subst. split; reflexivity.
    - rewrite polls_dead by (cbn [ss_status]; apply is_poll_done_ended in E; destruct why; discriminate).
      split; reflexivity.
    - destruct e as [|x e].
      + rewrite polls_idle
          by (eapply (is_poll_pending_waits (S (measure buf evs))); [|eassumption]; lia).
        split; reflexivity.
      + assert (Hm := is_poll_measure (S (measure buf evs)) buf evs _ _ _ (Nat.lt_succ_diag_r _) E ltac:(discriminate)).
        destruct (IH b (x :: e) ltac:(lia)) as [H1 H2].
        destruct (polls_from n (alive b (x :: e))) as [ms st'']. cbn [fst snd] in *. split; assumption.
    - rewrite polls_dead by (cbn [ss_status]; discriminate). split; reflexivity.
    - rewrite polls_dead by (cbn [ss_status]; discriminate). split; reflexivity.
    - rewrite polls_dead by (cbn [ss_status]; discriminate). split; reflexivity.
  Qed.

  (* ---------- a stream whose whole life is free of panics / hangs never makes a poll panic ---------- *)

  Definition safe_state (st : sstate) : Prop :=
    match ss_status st with
    | SfPending => sfinal_fatal (snd (so_from (ss_buf st) (ss_evs st))) = false
    | s => sfinal_fatal s = false
    end.

  Lemma safe_state_not_fatal st : safe_state st -> sfinal_fatal (ss_status st) = false.
  Proof. unfold safe_state. destruct (ss_status st); intros H; try assumption; reflexivity. Qed.

  Lemma poll_stream_safe st : safe_state st -> safe_state (snd (poll_stream st)).
  Proof.
    destruct st as [b e s]. destruct s; try (intros H; exact H).
    unfold safe_state at 1. cbn [ss_status ss_buf ss_evs]. intros H.
    rewrite poll_stream_alive. rewrite so_from_poll in H.
    destruct (is_poll b e) as [[o b'] e'] eqn:E. destruct o; cbn [snd] in *; unfold safe_state; cbn [ss_status ss_buf ss_evs].
    - destruct (so_from b' e') as [ms fin]. exact H.
    - apply is_poll_done_ended in E. destruct why; try discriminate; reflexivity.
    - destruct e' as [|x e'].
      + rewrite so_from_idle; [reflexivity|].
        eapply (is_poll_pending_waits (S (measure b e))); [|eassumption]. lia.
      + exact H.
    - discriminate.
    - discriminate.
    - discriminate.
  Qed.

  (* ---------- the connection: what stream k contributes ---------- *)

  Lemma of_stream_app k a b : of_stream k (a ++ b) = of_stream k a ++ of_stream k b.
  Proof.
    induction a as [|[j m] a IH]; [reflexivity|]. cbn [app of_stream].
    destruct (j =? k); [cbn [app]; rewrite IH|]; auto.
  Qed.

  (* no event carries the number of a stream that does not exist *)
  Lemma conn_steps_absent schedule : forall c k,
    nth_error c (N.to_nat k) = None -> of_stream k (fst (conn_steps c schedule)) = [].
  Proof.
    induction schedule as [|j rest IH]; intros c k Hk; [reflexivity|]. cbn [Streams.conn_steps].
    destruct (nth_error c (N.to_nat j)) as [st|] eqn:Ej; [|apply IH; assumption].
    destruct (poll_stream st) as [o st'].
    destruct (sfinal_fatal (ss_status st')); [reflexivity|].
    assert (Hk' : nth_error (set_nth (N.to_nat j) st' c) (N.to_nat k) = None).
    { apply nth_error_None. rewrite length_set_nth. apply nth_error_None. assumption. }
    specialize (IH _ _ Hk'). destruct (conn_steps (set_nth (N.to_nat j) st' c) rest) as [out r].
    cbn [fst] in *. destruct o as [inc|]; [|assumption]. cbn [of_stream].
    destruct (j =? k) eqn:Ejk; [|assumption]. assert (j = k) by lia. subst. congruence.
  Qed.

  (* always: the events of stream k are what some number of polls of it (at most those scheduled) yield *)
  Lemma conn_steps_of_stream_some schedule : forall c k st,
    nth_error c (N.to_nat k) = Some st ->
    exists n, (n <= polls_of k schedule)%nat /\ of_stream k (fst (conn_steps c schedule)) = fst (polls_from n st).
  Proof.
    induction schedule as [|j rest IH]; intros c k st Hk.
    - exists O. split; [cbn [polls_of]; lia|reflexivity].
    - cbn [Streams.conn_steps polls_of].
      destruct (nth_error c (N.to_nat j)) as [stj|] eqn:Ej.
      + destruct (j =? k) eqn:Ejk.
        * assert (j = k) by lia. subst j. rewrite Hk in Ej. injection Ej as <-.
          destruct (poll_stream st) as [o st'] eqn:Ep.
          destruct (sfinal_fatal (ss_status st')); [exists O; split; [lia|reflexivity]|].
          destruct (IH (set_nth (N.to_nat k) st' c) k st' (nth_error_set_nth_same _ _ _ _ Hk)) as [n [Hn Hof]].
          exists (S n). split; [lia|]. cbn [Streams.polls_from]. rewrite Ep.
          destruct (conn_steps (set_nth (N.to_nat k) st' c) rest) as [out r].
          destruct (polls_from n st') as [ms st'']. cbn [fst] in *.
          destruct o as [inc|]; [|assumption]. cbn [of_stream]. rewrite N.eqb_refl, Hof. reflexivity.
        * destruct (poll_stream stj) as [o st'].
          destruct (sfinal_fatal (ss_status st')); [exists O; split; [lia|reflexivity]|].
          assert (Hk' : nth_error (set_nth (N.to_nat j) st' c) (N.to_nat k) = Some st).
          { rewrite nth_error_set_nth_other; [assumption|]. lia. }
          destruct (IH _ k st Hk') as [n [Hn Hof]]. exists n. split; [assumption|].
          destruct (conn_steps (set_nth (N.to_nat j) st' c) rest) as [out r]. cbn [fst] in *.
          destruct o as [inc|]; [|assumption]. cbn [of_stream]. rewrite Ejk. assumption.
      + destruct (IH c k st Hk) as [n [Hn Hof]]. exists n. split; [|assumption].
        destruct (j =? k); lia.
  Qed.

  (* when no stream can panic: exactly as many polls as the schedule contains *)
  Lemma conn_steps_of_stream_safe schedule : forall c k st,
    (forall i sti, nth_error c i = Some sti -> safe_state sti) ->
    nth_error c (N.to_nat k) = Some st ->
    of_stream k (fst (conn_steps c schedule)) = fst (polls_from (polls_of k schedule) st)
    /\ fst (snd (conn_steps c schedule)) = COk.
  Proof.
    induction schedule as [|j rest IH]; intros c k st Hsafe Hk; [split; reflexivity|].
    cbn [Streams.conn_steps polls_of].
    destruct (nth_error c (N.to_nat j)) as [stj|] eqn:Ej.
    - assert (Hsj := poll_stream_safe stj (Hsafe _ _ Ej)).
      destruct (poll_stream stj) as [o st'] eqn:Ep. cbn [snd] in Hsj.
      rewrite (safe_state_not_fatal _ Hsj).
      assert (Hsafe' : forall i sti, nth_error (set_nth (N.to_nat j) st' c) i = Some sti -> safe_state sti).
      { intros i sti Hi. destruct (Nat.eq_dec (N.to_nat j) i) as [<-|Hne].
        - rewrite (nth_error_set_nth_same _ _ _ _ Ej) in Hi. injection Hi as <-. assumption.
        - rewrite nth_error_set_nth_other in Hi by assumption. eapply Hsafe; eassumption. }
      destruct (j =? k) eqn:Ejk.
      + assert (j = k) by lia. subst j. rewrite Hk in Ej. injection Ej as <-.
        destruct (IH (set_nth (N.to_nat k) st' c) k st' Hsafe' (nth_error_set_nth_same _ _ _ _ Hk)) as [Hof Hok].
        cbn [Streams.polls_from]. rewrite Ep.
        destruct (conn_steps (set_nth (N.to_nat k) st' c) rest) as [out r].
        destruct (polls_from (polls_of k rest) st') as [ms st'']. cbn [fst snd] in *.
        split; [|assumption]. destruct o as [inc|]; [|assumption]. cbn [of_stream]. rewrite N.eqb_refl, Hof. reflexivity.
      + assert (Hk' : nth_error (set_nth (N.to_nat j) st' c) (N.to_nat k) = Some st).
        { rewrite nth_error_set_nth_other; [assumption|]. lia. }
        destruct (IH _ k st Hsafe' Hk') as [Hof Hok].
        destruct (conn_steps (set_nth (N.to_nat j) st' c) rest) as [out r]. cbn [fst snd] in *.
        split; [|assumption]. destruct o as [inc|]; [|assumption]. cbn [of_stream]. rewrite Ejk. assumption.
    - destruct (j =? k) eqn:Ejk; [assert (j = k) by lia; subst; congruence|]. apply IH; assumption.
  Qed.

  (* ---------- the statements for an arbitrary parser / processor ---------- *)

  Local Notation g_stream_out := (g_stream_out parse proc).
  Local Notation g_stream_polls := (g_stream_polls parse proc).
  Local Notation g_conn_run := (g_conn_run parse proc).
  Local Notation g_conn_run_full := (g_conn_run_full parse proc).

  Theorem g_stream_out_fuel evs : snd (g_stream_out evs) <> SfFuel.
  Proof. apply so_from_fuel. Qed.

  Theorem g_prefix_stable evs more :
    is_prefix (fst (g_stream_out evs)) (fst (g_stream_out (evs ++ more)))
    /\ (snd (g_stream_out evs) <> SfPending -> g_stream_out (evs ++ more) = g_stream_out evs).
  Proof. unfold Streams.g_stream_out. apply (so_from_app more (S (measure [] evs))). lia. Qed.

  Lemma decode_nil : decode [] = DNeedMore.
  Proof. reflexivity. Qed.

  Lemma g_stream_polls_nil n : g_stream_polls n [] = [].
  Proof. unfold Streams.g_stream_polls, ss_init. rewrite (polls_idle n [] decode_nil). reflexivity. Qed.

  Theorem g_stream_polls_prefix n evs : is_prefix (g_stream_polls n evs) (fst (g_stream_out evs)).
  Proof. apply polls_prefix. Qed.

  Theorem g_stream_polls_enough n evs :
    (stream_fuel [] evs <= n)%nat -> g_stream_polls n evs = fst (g_stream_out evs).
  Proof. intros H. apply polls_enough. rewrite stream_fuel_measure in H. lia. Qed.

  Lemma nth_error_init (streams : list (list read_ev)) : forall i st,
    nth_error (map ss_init streams) i = Some st -> st = ss_init (nth i streams []) /\ In (nth i streams []) streams.
  Proof.
    induction streams as [|evs streams IH]; intros i st H; destruct i as [|i]; cbn [map nth_error nth] in *;
      try discriminate.
    - injection H as <-. split; [reflexivity|left; reflexivity].
    - destruct (IH i st H) as [H1 H2]. split; [assumption|right; assumption].
  Qed.

  Lemma nth_error_init_none (streams : list (list read_ev)) : forall i,
    nth_error (map ss_init streams) i = None -> nth i streams [] = [].
  Proof.
    induction streams as [|evs streams IH]; intros i H; destruct i as [|i]; cbn [map nth_error nth] in *;
      try discriminate; try reflexivity.
    apply IH. assumption.
  Qed.

  Definition g_safe (evs : list read_ev) : Prop := sfinal_fatal (snd (g_stream_out evs)) = false.

  (* 2a. always a prefix *)
  Theorem g_conn_prefix streams schedule k :
    is_prefix (of_stream k (g_conn_run streams schedule)) (fst (g_stream_out (nth (N.to_nat k) streams []))).
  Proof.
    unfold Streams.g_conn_run, Streams.g_conn_run_full.
    destruct (nth_error (map ss_init streams) (N.to_nat k)) as [st|] eqn:E.
    - destruct (conn_steps_of_stream_some schedule _ k st E) as [n [_ ->]].
      apply nth_error_init in E. destruct E as [-> _]. apply polls_prefix.
    - rewrite (conn_steps_absent schedule _ k E). apply is_prefix_nil.
  Qed.

  (* 2b. exactly the polls the schedule gives it, whatever the other streams carry *)
  Theorem g_conn_of_stream streams schedule k :
    (forall evs, In evs streams -> g_safe evs) ->
    of_stream k (g_conn_run streams schedule) = g_stream_polls (polls_of k schedule) (nth (N.to_nat k) streams [])
    /\ fst (snd (g_conn_run_full streams schedule)) = COk.
  Proof.
    intros Hsafe. unfold Streams.g_conn_run, Streams.g_conn_run_full.
    assert (Hs : forall i sti, nth_error (map ss_init streams) i = Some sti -> safe_state sti).
    { intros i sti Hi. apply nth_error_init in Hi. destruct Hi as [-> Hin]. apply Hsafe in Hin. exact Hin. }
    destruct (nth_error (map ss_init streams) (N.to_nat k)) as [st|] eqn:E.
    - destruct (conn_steps_of_stream_safe schedule _ k st Hs E) as [H1 H2]. split; [|assumption].
      rewrite H1. apply nth_error_init in E. destruct E as [-> _]. reflexivity.
    - rewrite (conn_steps_absent schedule _ k E), (nth_error_init_none _ _ E), g_stream_polls_nil.
      split; [reflexivity|].
      clear E. generalize (map ss_init streams) Hs. clear Hs Hsafe streams.
      induction schedule as [|j rest IH]; intros c Hs; [reflexivity|]. cbn [Streams.conn_steps].
      destruct (nth_error c (N.to_nat j)) as [stj|] eqn:Ej; [|apply IH; assumption].
      assert (Hsj := poll_stream_safe stj (Hs _ _ Ej)).
      destruct (poll_stream stj) as [o st'] eqn:Ep. cbn [snd] in Hsj.
      rewrite (safe_state_not_fatal _ Hsj).
      assert (Hs' : forall i sti, nth_error (set_nth (N.to_nat j) st' c) i = Some sti -> safe_state sti).
      { intros i sti Hi. destruct (Nat.eq_dec (N.to_nat j) i) as [<-|Hne].
        - rewrite (nth_error_set_nth_same _ _ _ _ Ej) in Hi. injection Hi as <-. assumption.
        - rewrite nth_error_set_nth_other in Hi by assumption. eapply Hs; eassumption. }
      specialize (IH _ Hs'). destruct (conn_steps (set_nth (N.to_nat j) st' c) rest) as [out r]. exact IH.
  Qed.

  (* 2c. polled often enough: all of it *)
  Theorem g_conn_complete streams schedule k :
    (forall evs, In evs streams -> g_safe evs) ->
    polled_enough k (nth (N.to_nat k) streams []) schedule = true ->
    of_stream k (g_conn_run streams schedule) = fst (g_stream_out (nth (N.to_nat k) streams [])).
  Proof.
    intros Hsafe Hen. rewrite (proj1 (g_conn_of_stream streams schedule k Hsafe)).
    apply g_stream_polls_enough. unfold polled_enough in Hen. apply Nat.leb_le. assumption.
  Qed.

  (* 2d. the other streams' bytes do not matter *)
  Theorem g_conn_independent streams streams' schedule k :
    (forall evs, In evs streams -> g_safe evs) -> (forall evs, In evs streams' -> g_safe evs) ->
    nth (N.to_nat k) streams [] = nth (N.to_nat k) streams' [] ->
    of_stream k (g_conn_run streams schedule) = of_stream k (g_conn_run streams' schedule).
  Proof.
    intros H1 H2 Hk. rewrite (proj1 (g_conn_of_stream streams schedule k H1)),
      (proj1 (g_conn_of_stream streams' schedule k H2)), Hk. reflexivity.
  Qed.

  (* 3. a stream that ended (error, close, end) after yielding `incs`: exactly `incs` from it, whatever follows on
        it, and everything from the others *)
  Theorem g_ended_costs_own_stream streams schedule j evs1 more incs fin :
    (N.to_nat j < length streams)%nat ->
    nth (N.to_nat j) streams [] = evs1 ++ more ->
    g_stream_out evs1 = (incs, fin) -> sfinal_ended fin = true ->
    (forall evs, In evs streams -> evs <> evs1 ++ more -> g_safe evs) ->
    (forall k, (N.to_nat k < length streams)%nat -> polled_enough k (nth (N.to_nat k) streams []) schedule = true) ->
    of_stream j (g_conn_run streams schedule) = incs
    /\ forall k, k <> j -> of_stream k (g_conn_run streams schedule) = fst (g_stream_out (nth (N.to_nat k) streams [])).
  Proof.
    intros Hjr Hj Hout Hfin Hsafe Hen.
    assert (Hstable : g_stream_out (evs1 ++ more) = (incs, fin)).
    { rewrite <- Hout. apply (proj2 (g_prefix_stable evs1 more)). rewrite Hout. cbn [snd].
      destruct fin; discriminate. }
    assert (Hall : forall evs, In evs streams -> g_safe evs).
    { intros evs Hin. destruct (list_eq_dec_events evs (evs1 ++ more)) as [->|Hne]; [|apply Hsafe; assumption].
      unfold g_safe. rewrite Hstable. cbn [snd]. destruct fin; try discriminate; reflexivity. }
    split.
    - rewrite (g_conn_complete streams schedule j Hall (Hen j Hjr)), Hj, Hstable. reflexivity.
    - intros k _. destruct (lt_dec (N.to_nat k) (length streams)) as [Hk|Hk].
      + apply g_conn_complete; [assumption|apply Hen; assumption].
      + rewrite (proj1 (g_conn_of_stream streams schedule k Hall)).
        rewrite (nth_overflow streams []) by lia. rewrite g_stream_polls_nil.
        unfold Streams.g_stream_out. rewrite (so_from_idle [] decode_nil). reflexivity.
  Qed.
End StreamsProofs.

Arguments g_safe {msg} parse proc evs.
Arguments safe_state {msg} parse proc st.

(* ================= the real instance: qp_parse / process_message ================= *)

Lemma stream_safe_g Sz Hh chk streams :
  forallb (stream_safe Sz Hh chk) streams = true ->
  forall evs, In evs streams -> g_safe (qp_parse chk) (process_message Sz Hh) evs.
Proof.
  intros H evs Hin. rewrite forallb_forall in H. specialize (H evs Hin).
  unfold stream_safe, stream_out in H. unfold g_safe. destruct (sfinal_fatal _); [discriminate|reflexivity].
Qed.

(* the model never runs out of fuel *)
Theorem stream_out_fuel : forall Sz Hh chk evs, snd (stream_out Sz Hh chk evs) <> SfFuel.
Proof. intros. apply g_stream_out_fuel. Qed.

(* C16 "messages applied earlier stay applied": whatever arrives later on a stream, what it has yielded so far stays
   yielded (no hypothesis: also across a panic), and a stream that has stopped (ended, failed to decode, was closed
   by process_message — or panicked) yields nothing more and stops the same way *)
Theorem C16_stream_prefix_stable : forall Sz Hh chk evs more,
  is_prefix (fst (stream_out Sz Hh chk evs)) (fst (stream_out Sz Hh chk (evs ++ more)))
  /\ (snd (stream_out Sz Hh chk evs) <> SfPending ->
      stream_out Sz Hh chk (evs ++ more) = stream_out Sz Hh chk evs).
Proof. intros. apply g_prefix_stable. Qed.

(* polling: the first n polls yield a prefix of the stream's output, all of it when n is large enough *)
Theorem stream_polls_prefix : forall Sz Hh chk n evs,
  is_prefix (stream_polls Sz Hh chk n evs) (fst (stream_out Sz Hh chk evs)).
Proof. intros. apply g_stream_polls_prefix. Qed.

Theorem stream_polls_enough : forall Sz Hh chk n evs,
  (stream_fuel [] evs <= n)%nat -> stream_polls Sz Hh chk n evs = fst (stream_out Sz Hh chk evs).
Proof. intros. apply g_stream_polls_enough. assumption. Qed.

(* C16 "later streams are processed normally", unconditional part: for every connection and schedule, what the
   behaviour receives from stream k is a prefix of what stream k yields on its own *)
Theorem C16_streams_prefix : forall Sz Hh chk streams schedule k,
  is_prefix (of_stream k (conn_run Sz Hh chk streams schedule))
            (fst (stream_out Sz Hh chk (nth (N.to_nat k) streams []))).
Proof. intros. apply g_conn_prefix. Qed.

(* ... and when no stream of the connection panics / hangs (class F2), it is exactly what the polls the schedule
   gives to k yield on k's own read events: a function of (events of k, number of polls of k) only *)
Theorem C16_stream_of_conn : forall Sz Hh chk streams schedule k,
  forallb (stream_safe Sz Hh chk) streams = true ->
  of_stream k (conn_run Sz Hh chk streams schedule)
  = stream_polls Sz Hh chk (polls_of k schedule) (nth (N.to_nat k) streams [])
  /\ fst (snd (conn_run_full Sz Hh chk streams schedule)) = COk.
Proof. intros Sz Hh chk streams schedule k H. apply g_conn_of_stream. apply stream_safe_g. assumption. Qed.

Theorem C16_streams_complete : forall Sz Hh chk streams schedule k,
  forallb (stream_safe Sz Hh chk) streams = true ->
  polled_enough k (nth (N.to_nat k) streams []) schedule = true ->
  of_stream k (conn_run Sz Hh chk streams schedule) = fst (stream_out Sz Hh chk (nth (N.to_nat k) streams [])).
Proof. intros Sz Hh chk streams schedule k H. apply g_conn_complete. apply stream_safe_g. assumption. Qed.

(* replacing the read events of every other stream by any other (panic-free) events changes nothing for k *)
Theorem C16_streams_independent : forall Sz Hh chk streams streams' schedule k,
  forallb (stream_safe Sz Hh chk) streams = true -> forallb (stream_safe Sz Hh chk) streams' = true ->
  nth (N.to_nat k) streams [] = nth (N.to_nat k) streams' [] ->
  of_stream k (conn_run Sz Hh chk streams schedule) = of_stream k (conn_run Sz Hh chk streams' schedule).
Proof.
  intros Sz Hh chk streams streams' schedule k H1 H2. apply g_conn_independent; apply stream_safe_g; assumption.
Qed.

(* a stream that ended after yielding incs costs only itself *)
Theorem C16_ended_stream_costs_own_stream : forall Sz Hh chk streams schedule j evs1 more incs fin,
  (N.to_nat j < length streams)%nat ->
  nth (N.to_nat j) streams [] = evs1 ++ more ->
  stream_out Sz Hh chk evs1 = (incs, fin) -> sfinal_ended fin = true ->
  (forall evs, In evs streams -> evs <> evs1 ++ more -> stream_safe Sz Hh chk evs = true) ->
  (forall k, (N.to_nat k < length streams)%nat -> polled_enough k (nth (N.to_nat k) streams []) schedule = true) ->
  of_stream j (conn_run Sz Hh chk streams schedule) = incs
  /\ forall k, k <> j ->
     of_stream k (conn_run Sz Hh chk streams schedule) = fst (stream_out Sz Hh chk (nth (N.to_nat k) streams [])).
Proof.
  intros Sz Hh chk streams schedule j evs1 more incs fin Hjr Hj Hout Hfin Hsafe Hen.
  apply (g_ended_costs_own_stream message (qp_parse chk) (process_message Sz Hh) streams schedule j evs1 more incs fin);
    try assumption.
  intros evs Hin Hne. specialize (Hsafe evs Hin Hne). unfold stream_safe, stream_out in Hsafe. unfold g_safe.
  destruct (sfinal_fatal _); [discriminate|reflexivity].
Qed.

(* ================= byte level: frames of good messages, then a bad frame ================= *)

Unset Default Proof Using.

Section StreamsWire.
  Variable msg : Type.
  Variable parse : bytes -> N -> parse_result msg.
  Variable proc : msg -> pm_result.

  Local Notation decode := (frame_decode parse).
  Local Notation pn := (poll_next parse).
  Local Notation so_fuel := (so_fuel parse proc).

  (* what a run of frames does to the decoder: a frame yields an item, or is refused *)
  Inductive unit_res := UItem (m : msg) | UErr.

  (* F is one frame: while incomplete the decoder waits; once complete — whatever follows it in the buffer — the
     decoder returns the item and leaves exactly what follows, or fails *)
  Definition unit_ok (F : bytes) (u : unit_res) : Prop :=
    (forall a b, b <> [] -> a ++ b = F -> decode a = DNeedMore)
    /\ forall tail, decode (F ++ tail) = match u with UItem m => DItem m tail | UErr => DErr end.

  Fixpoint units_out (us : list unit_res) : list incoming * option sfinal :=
    match us with
    | [] => ([], None)
    | UErr :: _ => ([], Some SfErr)
    | UItem m :: us' =>
        match proc m with
        | PmOk inc => let (r, f) := units_out us' in (if forwarded inc then inc :: r else r, f)
        | PmClose => ([], Some SfClosed)
        | PmPanic => ([], Some SfPanic)
        end
    end.

  Lemma unit_ok_nonempty F u : unit_ok F u -> F <> [].
  Proof.
    intros [_ H2] ->. specialize (H2 []). cbn [app] in H2.
    change (decode []) with (@DNeedMore msg) in H2. destruct u; discriminate.
  Qed.

  (* one read loop while inside frame F *)
  Lemma read_loop_unit_or_wait F u tl : unit_ok F u ->
    forall evs buf q R,
    live evs -> q <> [] -> buf ++ q = F -> ev_data evs = q ++ R ->
    (exists rest evs',
       read_loop parse buf (evs ++ tl) =
         (match u with UItem m => Item m | UErr => StreamErr end,
          match u with UItem m => rest | UErr => F ++ rest end, evs' ++ tl)
       /\ rest ++ ev_data evs' = R /\ live evs' /\ (length evs' < length evs)%nat)
    \/ (exists buf' q' evs',
       read_loop parse buf (evs ++ tl) = (Pending, buf', evs' ++ tl)
       /\ q' <> [] /\ buf' ++ q' = F /\ ev_data evs' = q' ++ R
       /\ live evs' /\ (length evs' < length evs)%nat).
  Proof.
    intros [Hw Hd]. induction evs as [|e evs IH]; intros buf q R Hlive Hq Hbuf Hdata.
    - cbn [ev_data] in Hdata. symmetry in Hdata. apply app_eq_nil in Hdata. tauto.
    - inversion Hlive as [|e' evs0 He Hevs]; subst e' evs0.
      destruct e as [c| | |]; cbn [live_ev] in He; try contradiction.
      + cbn [app ev_data] in *. rewrite (read_loop_chunk msg parse) by exact He.
        apply app_eq_app_strict in Hdata. destruct Hdata as [[l [Hl1 Hl2]]|[l [Hl [Hl1 Hl2]]]].
        * left. subst c R. rewrite app_assoc, Hbuf, Hd.
          exists l, evs. cbn [length]. destruct u; (repeat split; try assumption; try reflexivity; lia).
        * assert (Hbuf' : (buf ++ c) ++ l = F) by (rewrite <- app_assoc, Hl1; assumption).
          rewrite (Hw (buf ++ c) l Hl Hbuf').
          destruct (IH (buf ++ c) l R Hevs Hl Hbuf' Hl2)
            as [[rest [evs' [H1 [H2 [H3 H4]]]]]|[buf' [q' [evs' [H1 [H2 [H3 [H4 [H5 H6]]]]]]]]].
          -- left. exists rest, evs'. cbn [length]. repeat split; try assumption. lia.
          -- right. exists buf', q', evs'. cbn [length]. repeat split; try assumption. lia.
      + right. cbn [app ev_data read_loop read_of] in *.
        exists buf, q, evs. cbn [length]. repeat split; try assumption. lia.
  Qed.

  (* frames Fs (with outcomes us) followed by anything, cut into reads anywhere, with wake-ups anywhere: if the
     outcomes stop the stream, the run is what they say — nothing after the stopping frame is looked at *)
  Lemma so_units_live tl : forall f Fs us buf evs extra incs fin,
    Forall2 unit_ok Fs us -> live evs ->
    buf ++ ev_data evs = concat Fs ++ extra ->
    units_out us = (incs, Some fin) ->
    (length Fs + length evs < f)%nat ->
    so_fuel f buf (evs ++ tl) = (incs, fin).
  Proof.
    induction f as [|f IH]; intros Fs us buf evs extra incs fin Hok Hlive Heq Hout Hf; [lia|].
    destruct Hok as [|F u Fs us HF Hok]; [cbn [units_out] in Hout; discriminate|].
    cbn [length] in Hf. assert (HF' := HF). destruct HF' as [Hw Hd].
    cbn [concat] in Heq. rewrite <- app_assoc in Heq.
    cbn [Streams.so_fuel].
    apply app_eq_app_strict in Heq. destruct Heq as [[l [Hl1 Hl2]]|[l [Hl [Hl1 Hl2]]]].
    - subst buf. unfold poll_next. rewrite Hd. destruct u as [m|].
      + cbn [units_out] in Hout. destruct (proc m) as [inc| |]; try (injection Hout as <- <-; reflexivity).
        destruct (units_out us) as [r fo] eqn:Er. injection Hout as <- ->.
        rewrite (IH Fs us l evs extra r fin) by (try assumption; try lia; symmetry; assumption).
        reflexivity.
      + cbn [units_out] in Hout. injection Hout as <- <-. reflexivity.
    - unfold poll_next. rewrite (Hw buf l Hl Hl1).
      destruct (read_loop_unit_or_wait F u tl HF evs buf l _ Hlive Hl Hl1 Hl2)
        as [[rest [evs' [H1 [H2 [H3 H4]]]]]|[buf' [q' [evs' [H1 [H2 [H3 [H4 [H5 H6]]]]]]]]].
      + rewrite H1. destruct u as [m|].
        * cbn [units_out] in Hout. destruct (proc m) as [inc| |]; try (injection Hout as <- <-; reflexivity).
          destruct (units_out us) as [r fo] eqn:Er. injection Hout as <- ->.
          rewrite (IH Fs us rest evs' extra r fin) by (try assumption; lia). reflexivity.
        * cbn [units_out] in Hout. injection Hout as <- <-. reflexivity.
      + rewrite H1. destruct evs' as [|e evs'].
        { cbn [ev_data] in H4. symmetry in H4. apply app_eq_nil in H4. tauto. }
        change ((e :: evs') ++ tl) with (e :: (evs' ++ tl)). cbv iota.
        change (e :: (evs' ++ tl)) with ((e :: evs') ++ tl).
        apply (IH (F :: Fs) (u :: us) buf' (e :: evs') extra incs fin);
          [constructor; assumption | assumption | | assumption | cbn [length] in *; lia].
        rewrite H4. cbn [concat]. rewrite <- !app_assoc. rewrite (app_assoc buf'), H3. reflexivity.
  Qed.

  (* the good messages: those process_message accepts; what they yield *)
  Definition g_yielded (ms : list msg) : list incoming :=
    flat_map (fun m => match proc m with PmOk inc => if forwarded inc then [inc] else [] | _ => [] end) ms.

  Lemma units_out_good ms us incs fo :
    (forall m, In m ms -> exists inc, proc m = PmOk inc) ->
    units_out us = (incs, fo) -> units_out (map UItem ms ++ us) = (g_yielded ms ++ incs, fo).
  Proof.
    intros Hgood Hus. induction ms as [|m ms IH]; [exact Hus|].
    cbn [map app units_out g_yielded flat_map].
    destruct (Hgood m (or_introl eq_refl)) as [inc ->].
    fold (g_yielded ms). rewrite IH by (intros m' Hm'; apply Hgood; right; assumption).
    destruct (forwarded inc); reflexivity.
  Qed.

  Variable body : msg -> bytes.
  Variable wf : msg -> Prop.
  Local Notation encode := (frame_encode body).

  Lemma unit_ok_encode (Hexact : parse_exact_hyp parse body wf) m :
    wf m -> size_ok body m -> unit_ok (encode m) (UItem m).
  Proof.
    intros Hwf Hsize. split.
    - intros a b Hb Heq. apply (C10_prefix_needs_more msg parse body m a Hsize). exists b. split; assumption.
    - intros tail. apply (C10_frame_exact msg parse body wf Hexact); assumption.
  Qed.

  Lemma units_ok_encode (Hexact : parse_exact_hyp parse body wf) ms :
    Forall wf ms -> Forall (size_ok body) ms -> Forall2 unit_ok (map encode ms) (map UItem ms).
  Proof.
    intros Hwf Hsize. induction ms as [|m ms IH]; [constructor|].
    inversion Hwf; inversion Hsize; subst. constructor; [apply unit_ok_encode; assumption|].
    apply IH; assumption.
  Qed.

  (* good frames, then a frame `bad` with outcome ubad that stops the stream *)
  Theorem g_stream_out_bad_frame (Hexact : parse_exact_hyp parse body wf) ms bad ubad fin evs extra more :
    Forall wf ms -> Forall (size_ok body) ms ->
    (forall m, In m ms -> exists inc, proc m = PmOk inc) ->
    unit_ok bad ubad -> units_out [ubad] = ([], Some fin) ->
    live evs -> ev_data evs = concat (map encode ms) ++ bad ++ extra ->
    g_stream_out parse proc (evs ++ more) = (g_yielded ms, fin).
  Proof.
    intros Hwf Hsize Hgood Hbad Hub Hlive Hdata.
    unfold g_stream_out, so_from.
    assert (Hlen : (length (map encode ms ++ [bad]) + length evs < stream_fuel [] (evs ++ more))%nat).
    { unfold stream_fuel. rewrite ev_bytes_data, Hdata, !app_length, map_length. cbn [length].
      assert (H : (length ms <= length (concat (map encode ms)))%nat)
        by (apply length_concat_le, encode_nonempty).
      assert (Hb := unit_ok_nonempty _ _ Hbad). destruct bad; [congruence|]. cbn [length]. lia. }
    rewrite (so_units_live more _ (map encode ms ++ [bad]) (map UItem ms ++ [ubad]) [] evs extra
               (g_yielded ms ++ []) fin).
    - rewrite app_nil_r. reflexivity.
    - apply Forall2_app; [apply units_ok_encode; assumption|constructor; [assumption|constructor]].
    - assumption.
    - cbn [app]. rewrite Hdata, concat_app. cbn [concat]. rewrite app_nil_r, <- app_assoc. reflexivity.
    - apply units_out_good; assumption.
    - assumption.
  Qed.
End StreamsWire.

Arguments UItem {msg} m.
Arguments UErr {msg}.
Arguments unit_ok {msg} parse F u.
Arguments units_out {msg} proc us.
Arguments g_yielded {msg} proc ms.

(* ---------- the real instance ---------- *)

(* what the good messages ms yield: their IncomingMessages, the empty ones left out *)
Definition yielded (Sz : N) (Hh : hash_fn) (ms : list message) : list incoming :=
  g_yielded (process_message Sz Hh) ms.

(* a frame that does not decode: the decoder waits while it is incomplete and fails once it is complete, whatever
   follows it *)
Definition undecodable (chk : bool) (bad : bytes) : Prop :=
  (forall a b, b <> [] -> a ++ b = bad -> codec_decode chk a = DNeedMore)
  /\ forall tail, codec_decode chk (bad ++ tail) = DErr.

(* the frame of a message on which process_message says "close" (bad presence CID, bad block prefix, fatal hasher
   error: Props_C16.C16_bad_presence_closes / C16_fatal_block_closes) *)
Definition closing (Sz : N) (Hh : hash_fn) (bad : bytes) : Prop :=
  exists m, wf_message m /\ size_ok write_message m /\ bad = codec_encode m /\ process_message Sz Hh m = PmClose.

(* e.g. a length prefix announcing more than 4 MiB *)
Lemma oversize_header_undecodable chk n : max_message_size < n -> n < two64 -> undecodable chk (uv_encode n).
Proof.
  intros Hbig Hn. split.
  - intros a b Hb Heq. apply (Frame_proofs.C09_short_prefix_waits message (qp_parse chk) n a Hn).
    exists b. split; assumption.
  - intros tail. apply (Frame_proofs.C09_oversize_fails_on_prefix message (qp_parse chk) (uv_encode n) n tail); [|assumption].
    rewrite <- (app_nil_r (uv_encode n)) at 1. apply uv_decode_encode. assumption.
Qed.

Theorem stream_out_bad_frame : forall Sz Hh chk ms bad evs extra more,
  Forall wf_message ms -> Forall (size_ok write_message) ms ->
  (forall m, In m ms -> exists inc, process_message Sz Hh m = PmOk inc) ->
  live evs -> ev_data evs = concat (map codec_encode ms) ++ bad ++ extra ->
  (undecodable chk bad -> stream_out Sz Hh chk (evs ++ more) = (yielded Sz Hh ms, SfErr))
  /\ (closing Sz Hh bad -> stream_out Sz Hh chk (evs ++ more) = (yielded Sz Hh ms, SfClosed)).
Proof.
  intros Sz Hh chk ms bad evs extra more Hwf Hsize Hgood Hlive Hdata. split.
  - intros Hbad.
    apply (g_stream_out_bad_frame message (qp_parse chk) (process_message Sz Hh) write_message wf_message
             (qp_parse_exact chk) ms bad UErr SfErr evs extra more); try assumption. reflexivity.
  - intros [m [Hm1 [Hm2 [-> Hm3]]]].
    apply (g_stream_out_bad_frame message (qp_parse chk) (process_message Sz Hh) write_message wf_message
             (qp_parse_exact chk) ms (codec_encode m) (UItem m) SfClosed evs extra more); try assumption.
    + apply (unit_ok_encode message (qp_parse chk) write_message wf_message (qp_parse_exact chk)); assumption.
    + cbn [units_out]. rewrite Hm3. reflexivity.
Qed.

(* C16 in the words of the property: stream j carries the frames of messages ms that process fine, then a frame that
   does not decode or a message process_message closes the stream on, then anything; the reads may be cut anywhere
   and the task may be woken anywhere.  Then the behaviour receives from j exactly what ms yield, and from every
   other stream all of its output. *)
Theorem C16_bad_frame_costs_own_stream : forall Sz Hh chk streams schedule j ms bad evs1 extra more,
  (N.to_nat j < length streams)%nat ->
  nth (N.to_nat j) streams [] = evs1 ++ more ->
  live evs1 -> ev_data evs1 = concat (map codec_encode ms) ++ bad ++ extra ->
  Forall wf_message ms -> Forall (size_ok write_message) ms ->
  (forall m, In m ms -> exists inc, process_message Sz Hh m = PmOk inc) ->
  (undecodable chk bad \/ closing Sz Hh bad) ->
  (forall evs, In evs streams -> evs <> evs1 ++ more -> stream_safe Sz Hh chk evs = true) ->
  (forall k, (N.to_nat k < length streams)%nat -> polled_enough k (nth (N.to_nat k) streams []) schedule = true) ->
  of_stream j (conn_run Sz Hh chk streams schedule) = yielded Sz Hh ms
  /\ forall k, k <> j ->
     of_stream k (conn_run Sz Hh chk streams schedule) = fst (stream_out Sz Hh chk (nth (N.to_nat k) streams [])).
Proof.
  intros Sz Hh chk streams schedule j ms bad evs1 extra more Hjr Hj Hlive Hdata Hwf Hsize Hgood Hbad Hsafe Hen.
  destruct (stream_out_bad_frame Sz Hh chk ms bad evs1 extra [] Hwf Hsize Hgood Hlive Hdata) as [H1 H2].
  rewrite app_nil_r in H1, H2.
  destruct Hbad as [Hbad|Hbad].
  - apply (C16_ended_stream_costs_own_stream Sz Hh chk streams schedule j evs1 more (yielded Sz Hh ms) SfErr);
      try assumption; [apply H1; assumption|reflexivity].
  - apply (C16_ended_stream_costs_own_stream Sz Hh chk streams schedule j evs1 more (yielded Sz Hh ms) SfClosed);
      try assumption; [apply H2; assumption|reflexivity].
Qed.

(* ================= process-as-you-go = decode everything, then process ================= *)

Definition sfinal_of (f : final) : sfinal :=
  match f with
  | FEnd => SfEnd | FErr => SfErr | FPending => SfPending | FPanic => SfPanic | FLoop => SfLoop | FFuel => SfFuel
  end.

Section StreamsDeliver.
  Variable msg : Type.
  Variable parse : bytes -> N -> parse_result msg.
  Variable proc : msg -> pm_result.

  (* the messages FramedRead decodes over the whole stream, processed afterwards; stops at the first close / panic *)
  Fixpoint deliver (ms : list msg) (fin : final) : list incoming * sfinal :=
    match ms with
    | [] => ([], sfinal_of fin)
    | m :: ms' =>
        match proc m with
        | PmOk inc => let (r, f) := deliver ms' fin in (if forwarded inc then inc :: r else r, f)
        | PmClose => ([], SfClosed)
        | PmPanic => ([], SfPanic)
        end
    end.

  Lemma so_fuel_deliver f : forall buf evs,
    so_fuel parse proc f buf evs = let (ms, fin) := run_fuel parse f buf evs in deliver ms fin.
  Proof.
    induction f as [|f IH]; intros buf evs; [reflexivity|]. cbn [so_fuel run_fuel].
    destruct (poll_next parse buf evs) as [[o b] evs']. destruct o; try reflexivity.
    - rewrite IH. destruct (run_fuel parse f b evs') as [ms fin]. cbn [deliver].
      destruct (proc m); reflexivity.
    - destruct evs' as [|e evs']; [reflexivity|]. apply IH.
  Qed.

  Theorem g_stream_out_deliver evs :
    g_stream_out parse proc evs = let (ms, fin) := run_stream parse evs in deliver ms fin.
  Proof. apply so_fuel_deliver. Qed.
End StreamsDeliver.

Arguments deliver {msg} proc ms fin.

Theorem stream_out_deliver : forall Sz Hh chk evs,
  stream_out Sz Hh chk evs =
  let (ms, fin) := codec_run_stream chk evs in deliver (process_message Sz Hh) ms fin.
Proof. intros. apply g_stream_out_deliver. Qed.

(* ================= a panic / hang comes from a buffer the decoder panics / hangs on ================= *)

Section StreamsTotal.
  Variable msg : Type.
  Variable parse : bytes -> N -> parse_result msg.
  Variable proc : msg -> pm_result.
  Hypothesis Hproc : forall m, proc m <> PmPanic.

  Local Notation decode := (frame_decode parse).

  Definition data_inv (buf : bytes) (evs : list read_ev) (r : poll_out msg * bytes * list read_ev) : Prop :=
    match r with
    | (Panicked, b, _) | (Looped, b, _) =>
        (decode b = DPanic \/ decode b = DLoop) /\ exists post, buf ++ ev_data evs = b ++ post
    | (Item _, b, evs') | (Pending, b, evs') => exists pre, buf ++ ev_data evs = pre ++ b ++ ev_data evs'
    | _ => True
    end.

  Lemma eof_branch_needmore b : decode b = DNeedMore ->
    eof_branch parse b = (StreamEnd, b) \/ eof_branch parse b = (StreamErr, b).
  Proof.
    intros H. unfold eof_branch. destruct b as [|x b]; [left; reflexivity|]. rewrite H. right. reflexivity.
  Qed.

  Lemma read_loop_data : forall evs buf, data_inv buf evs (read_loop parse buf evs).
  Proof.
    induction evs as [|e evs IH]; intros buf.
    - cbn [read_loop data_inv ev_data]. exists []. reflexivity.
    - assert (Hdata : forall bs,
        data_inv buf (Chunk bs :: evs)
          match decode (buf ++ bs) with
          | DItem m rest => (Item m, rest, evs)
          | DErr => (StreamErr, buf ++ bs, evs)
          | DPanic => (Panicked, buf ++ bs, evs)
          | DLoop => (Looped, buf ++ bs, evs)
          | DNeedMore =>
              if len bs =? 0 then let (o, b) := eof_branch parse (buf ++ bs) in (o, b, evs)
              else read_loop parse (buf ++ bs) evs
          end).
      { intros bs. destruct (decode (buf ++ bs)) as [| |m rest| |] eqn:E; unfold data_inv; cbn [ev_data].
        - exact I.
        - destruct (len bs =? 0).
          + destruct (eof_branch_needmore _ E) as [-> | ->]; exact I.
          + specialize (IH (buf ++ bs)). unfold data_inv in *.
            destruct (read_loop parse (buf ++ bs) evs) as [[o b] evs']. rewrite <- app_assoc in IH. exact IH.
        - apply (decode_item_suffix msg parse) in E. destruct E as [pre [_ Hpre]].
          exists pre. rewrite (app_assoc buf bs), Hpre, <- app_assoc. reflexivity.
        - split; [left; assumption|]. exists (ev_data evs). rewrite (app_assoc buf bs). reflexivity.
        - split; [right; assumption|]. exists (ev_data evs). rewrite (app_assoc buf bs). reflexivity. }
      destruct e as [bs| | |]; cbn [read_loop read_of].
      + apply Hdata.
      + specialize (Hdata []). cbn [ev_data app] in Hdata.
        unfold data_inv in *. cbn [ev_data]. rewrite app_nil_r in *.
        change (len (@nil N) =? 0) with true in *. cbv iota in Hdata.
        destruct (decode buf) as [| |m rest| |]; exact Hdata.
      + exact I.
      + cbn [data_inv ev_data]. exists []. reflexivity.
  Qed.

  Lemma pn_data buf evs : data_inv buf evs (poll_next parse buf evs).
  Proof.
    unfold poll_next. destruct (decode buf) as [| |m rest| |] eqn:E.
    - exact I.
    - apply read_loop_data.
    - apply (decode_item_suffix msg parse) in E. destruct E as [pre [_ Hpre]].
      exists pre. rewrite Hpre, <- app_assoc. reflexivity.
    - split; [left; assumption|]. exists (ev_data evs). reflexivity.
    - split; [right; assumption|]. exists (ev_data evs). reflexivity.
  Qed.

  Lemma so_from_fatal n : forall buf evs, (measure buf evs < n)%nat ->
    sfinal_fatal (snd (so_from parse proc buf evs)) = true ->
    exists bad pre post, (decode bad = DPanic \/ decode bad = DLoop) /\ buf ++ ev_data evs = pre ++ bad ++ post.
  Proof.
    induction n as [|n IH]; intros buf evs Hn Hf; [lia|]. rewrite so_from_step in Hf.
    assert (Hd := pn_data buf evs).
    destruct (poll_next parse buf evs) as [[o b] evs'] eqn:E. unfold data_inv in Hd.
    destruct o; cbn [snd sfinal_fatal] in Hf; try discriminate.
    - apply pn_item_measure in E. destruct (proc m) as [inc| |] eqn:Ep; cbn [snd sfinal_fatal] in Hf; try discriminate.
      + destruct (so_from parse proc b evs') as [ms fin] eqn:Es. cbn [snd] in Hf.
        destruct (IH b evs' ltac:(lia)) as [bad [pre' [post' [Hbad Heq]]]]; [rewrite Es; exact Hf|].
        destruct Hd as [pre Hd]. exists bad, (pre ++ pre'), post'. split; [assumption|].
        rewrite Hd, Heq, <- !app_assoc. reflexivity.
      + exfalso. exact (Hproc m Ep).
    - destruct evs' as [|e evs']; [cbn [snd sfinal_fatal] in Hf; discriminate|].
      apply pn_pending_measure in E.
      destruct (IH b (e :: evs') ltac:(lia) Hf) as [bad [pre' [post' [Hbad Heq]]]].
      destruct Hd as [pre Hd]. exists bad, (pre ++ pre'), post'. split; [assumption|].
      rewrite Hd, Heq, <- !app_assoc. reflexivity.
    - destruct Hd as [Hbad [post Hd]]. exists b, [], post. split; assumption.
    - destruct Hd as [Hbad [post Hd]]. exists b, [], post. split; assumption.
  Qed.
End StreamsTotal.

Theorem stream_unsafe_only_F2 : forall Sz Hh chk evs,
  32 <= Sz -> sha_respecting Hh -> stream_safe Sz Hh chk evs = false ->
  exists pre buf post, ev_data evs = pre ++ buf ++ post /\ codec_overrun buf = true.
Proof.
  intros Sz Hh chk evs HS Hsha Hunsafe.
  assert (Hf : sfinal_fatal (snd (so_from (qp_parse chk) (process_message Sz Hh) [] evs)) = true).
  { unfold stream_safe, stream_out, g_stream_out in Hunsafe. destruct (sfinal_fatal _); [reflexivity|discriminate]. }
  destruct (so_from_fatal message (qp_parse chk) (process_message Sz Hh)
              (fun m => process_message_no_panic Sz Hh m HS Hsha) (S (measure [] evs)) [] evs
              (Nat.lt_succ_diag_r _) Hf) as [bad [pre [post [Hbad Heq]]]].
  exists pre, bad, post. split; [exact Heq|].
  destruct (codec_overrun bad) eqn:Eo; [reflexivity|].
  destruct (codec_decode_total chk bad Eo) as [H1 H2]. unfold codec_decode in *. destruct Hbad; contradiction.
Qed.

(* ================= C09 lifted: the FramedRead buffers of a connection ================= *)

Section StreamsBuffers.
  Variable msg : Type.
  Variable parse : bytes -> N -> parse_result msg.
  Variable proc : msg -> pm_result.

  Definition bounded_state (st : sstate) : Prop :=
    len (ss_buf st) < buffer_bound /\ wf_events (ss_evs st).

  Lemma is_poll_bound n : forall buf evs o b e,
    (measure buf evs < n)%nat -> wf_events evs -> len buf < buffer_bound ->
    is_poll parse proc buf evs = (o, b, e) -> len b < buffer_bound /\ wf_events e.
  Proof.
    induction n as [|n IH]; intros buf evs o b e Hn Hwf Hb H; [lia|]. rewrite is_poll_step in H.
    destruct (poll_next parse buf evs) as [[o' b'] evs'] eqn:E.
    assert (Hbd := C09_poll_next_bound msg parse buf evs o' b' evs' Hwf Hb E).
    destruct o'; try (injection H as _ <- <-; exact Hbd).
    apply pn_item_measure in E. destruct (proc m) as [inc| |]; try (injection H as _ <- <-; exact Hbd).
    destruct (forwarded inc); [injection H as _ <- <-; exact Hbd|].
    destruct Hbd as [Hb' Hwf']. eapply (IH b' evs'); try eassumption. lia.
  Qed.

  Lemma poll_stream_bounded st : bounded_state st -> bounded_state (snd (poll_stream parse proc st)).
  Proof.
    intros [Hb Hwf]. unfold poll_stream. destruct (ss_status st); try (split; assumption).
    destruct (is_poll parse proc (ss_buf st) (ss_evs st)) as [[o b] e] eqn:E.
    apply (is_poll_bound (S (measure (ss_buf st) (ss_evs st)))) in E; [|lia|assumption|assumption].
    destruct o; exact E.
  Qed.

  Lemma Forall_set_nth {A} (P : A -> Prop) (l : list A) : forall n x,
    Forall P l -> P x -> Forall P (set_nth n x l).
  Proof.
    induction l as [|y l IH]; intros n x Hl Hx; [constructor|]. inversion Hl; subst.
    destruct n as [|n]; cbn [set_nth]; constructor; try assumption. apply IH; assumption.
  Qed.

  Lemma conn_steps_bounded schedule : forall c,
    Forall bounded_state c ->
    Forall bounded_state (snd (snd (conn_steps parse proc c schedule)))
    /\ length (snd (snd (conn_steps parse proc c schedule))) = length c.
  Proof.
    induction schedule as [|j rest IH]; intros c Hc; [split; [assumption|reflexivity]|].
    cbn [conn_steps]. destruct (nth_error c (N.to_nat j)) as [st|] eqn:Ej; [|apply IH; assumption].
    assert (Hst : bounded_state st).
    { rewrite Forall_forall in Hc. apply Hc. eapply nth_error_In. eassumption. }
    apply poll_stream_bounded in Hst. destruct (poll_stream parse proc st) as [o st']. cbn [snd] in Hst.
    assert (Hc' := Forall_set_nth bounded_state c (N.to_nat j) st' Hc Hst).
    destruct (sfinal_fatal (ss_status st')).
    - cbn [snd]. split; [assumption|apply length_set_nth].
    - destruct (IH _ Hc') as [H1 H2].
      destruct (conn_steps parse proc (set_nth (N.to_nat j) st' c) rest) as [out [cf c'']]. cbn [snd] in *.
      split; [assumption|]. rewrite H2. apply length_set_nth.
  Qed.

  Lemma conn_buffered_bound c : Forall bounded_state c ->
    conn_buffered c <= conn_alive c * buffer_bound /\ conn_alive c <= len c.
  Proof.
    induction c as [|st c IH]; intros H; [unfold conn_buffered, conn_alive, len; cbn [fold_right length]; lia|].
    inversion H as [|x l [Hb _] Hc]; subst.
    destruct (IH Hc) as [H1 H2]. unfold conn_buffered, conn_alive in *. cbn [fold_right]. rewrite len_cons.
    destruct (ss_status st); lia.
  Qed.
End StreamsBuffers.

(* between any two polls of any schedule, every FramedRead buffer of the connection holds fewer than
   10 + MAX_MESSAGE_SIZE + 8192 bytes, so a connection with s live inbound streams buffers at most s times that
   (inside a poll the same bound holds after every read: Framed_proofs.C09_buffer_bound, per stream) *)
Theorem C09_conn_buffer_bound : forall Sz Hh chk streams schedule,
  Forall wf_events streams ->
  let c := snd (snd (conn_run_full Sz Hh chk streams schedule)) in
  Forall (fun st => len (ss_buf st) < 10 + max_message_size + 8192) c
  /\ conn_buffered c <= conn_alive c * (10 + max_message_size + 8192)
  /\ conn_alive c <= len streams.
Proof.
  intros Sz Hh chk streams schedule Hwf. cbv zeta. unfold conn_run_full, g_conn_run_full.
  assert (Hinit : Forall bounded_state (map ss_init streams)).
  { apply Forall_forall. intros st Hin. apply in_map_iff in Hin. destruct Hin as [evs [<- Hin]].
    split; [cbn [ss_init ss_buf]; rewrite len_nil; unfold buffer_bound, max_message_size, initial_capacity; lia|].
    rewrite Forall_forall in Hwf. apply Hwf. assumption. }
  destruct (conn_steps_bounded message (qp_parse chk) (process_message Sz Hh) schedule _ Hinit) as [H1 H2].
  set (c := snd (snd (conn_steps (qp_parse chk) (process_message Sz Hh) (map ss_init streams) schedule))) in *.
  destruct (conn_buffered_bound c H1) as [H3 H4].
  change buffer_bound with (10 + max_message_size + 8192) in *.
  split; [|split].
  - eapply Forall_impl; [|exact H1]. intros st [Hb _]. exact Hb.
  - exact H3.
  - unfold len in *. rewrite H2, map_length in H4. exact H4.
Qed.

(* C10 lifted to the stream: the frames of ms cut into reads anywhere, with wake-ups anywhere, then end of stream:
   the stream yields what processing ms in order yields (up to the first message that closes it), however it was cut *)
Theorem C10_stream_out_chunking : forall Sz Hh chk ms evs,
  Forall wf_message ms -> Forall (size_ok write_message) ms ->
  live evs -> ev_data evs = concat (map codec_encode ms) ->
  stream_out Sz Hh chk (evs ++ [Eof]) = deliver (process_message Sz Hh) ms FEnd.
Proof.
  intros Sz Hh chk ms evs Hwf Hsize Hlive Hdata. rewrite stream_out_deliver. unfold codec_run_stream.
  rewrite (C10_chunking_wakeups message (qp_parse chk) write_message wf_message (qp_parse_exact chk) ms evs
             Hwf Hsize Hlive Hdata).
  reflexivity.
Qed.
