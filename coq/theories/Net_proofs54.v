(* Net_proofs54.v — package Q, part 5: the server's outstanding store calls in `n_calls` are EXACTLY its parked lookups.
   Net_proofs24's `SLk` (net_live) says every parked task has its store call outstanding; this file proves the converse for
   every reachable net: the server call numbers in `n_calls` are pairwise distinct and each belongs to a parked task
   (`s_blocked`).  Hence  #server calls outstanding = #parked tasks <= #lookup tasks <= #wantlist messages delivered. *)
From BS Require Import Server_lemmas Server_inv Server_proofs Server_live Wantlist_proofs Client_proofs
  Net Net_proofs2 Net_proofs3 Net_proofs4 Net_proofs5 Net_proofs6 Net_proofs7 Net_proofs9 Net_proofs10 Net_proofs11 Net_proofs21 Net_proofs24
  Net_proofs28 Net_proofs32 Net_proofs50 Net_proofs53.
From Coq Require Import ZArith ZifyBool ZifyN ZifyNat Lia.
Open Scope N_scope.

(* ---------------------------------------------------------------- lists *)
Lemma srv_calls_app a b : srv_calls (a ++ b) = srv_calls a ++ srv_calls b.
Proof. unfold srv_calls. apply flat_map_app. Qed.

Lemma remove_nth_split {A} k : forall (l : list A) a, nth_error l k = Some a -> exists l1 l2, l = l1 ++ a :: l2 /\ remove_nth k l = l1 ++ l2.
Proof.
  induction k as [|k IH]; intros [|x l] a Hn; cbn in Hn; try discriminate.
  - injection Hn as ->. exists [], l. auto.
  - destruct (IH l a Hn) as (l1 & l2 & -> & E). exists (x :: l1), l2. cbn. rewrite E. auto.
Qed.

Definition get_num (o : lout) : list N := match o with LGet k _ => [k] | _ => [] end.
Definition get_nums (l : list lout) : list N := flat_map get_num l.

Lemma get_nums_app a b : get_nums (a ++ b) = get_nums a ++ get_nums b.
Proof. unfold get_nums. apply flat_map_app. Qed.

Lemma get_nums_In k l : In k (get_nums l) <-> exists c, In (LGet k c) l.
Proof.
  unfold get_nums. rewrite in_flat_map. split.
  - intros ([m c|p bl] & Hin & Hk); cbn [get_num] in Hk; [destruct Hk as [<-|[]]; eauto | destruct Hk].
  - intros (c & Hin). exists (LGet k c). split; [exact Hin | left; reflexivity].
Qed.

Lemma srv_calls_sv l : srv_calls (sv_calls l) = get_nums l.
Proof. induction l as [|[k c|p bl] l IH]; cbn; [reflexivity | f_equal; exact IH | exact IH]. Qed.

Lemma srv_calls_cl l : srv_calls (cl_calls l) = [].
Proof. induction l as [|o l IH]; [reflexivity|]. destruct o; cbn; exact IH. Qed.

Lemma get_nums_sends (bat : batches) : get_nums (map (fun pb => LSend (fst pb) (snd pb)) bat) = [].
Proof. induction bat as [|x bat IH]; [reflexivity | exact IH]. Qed.

(* the store calls started by one pass over the ready queue: fresh, pairwise distinct numbers *)
Lemma fold_run_task_gets lo ready : forall st out,
  lo <= s_next_call st ->
  NoDup (get_nums out) -> (forall k, In k (get_nums out) -> lo <= k < s_next_call st) ->
  let r := fold_left run_task ready (st, out) in
  NoDup (get_nums (snd r)) /\ (forall k, In k (get_nums (snd r)) -> lo <= k < s_next_call (fst r)).
Proof.
  induction ready as [|t ready IH]; intros st out Hlo Hnd Hb; cbn [fold_left]; [cbn [fst snd]; auto|].
  destruct (Server.t_todo t) as [|c rest] eqn:Et.
  - rewrite (run_task_nil _ _ _ Et). apply IH; cbn [s_next_call]; assumption.
  - rewrite (run_task_cons _ _ _ _ _ Et). apply IH; cbn [s_next_call].
    + lia.
    + rewrite get_nums_app. cbn. apply NoDup_app_intro; [exact Hnd | repeat constructor; cbn; tauto|].
      intros x Hx [<-|[]]. specialize (Hb _ Hx). lia.
    + intros k Hk. rewrite get_nums_app in Hk. apply in_app_iff in Hk. cbn in Hk. destruct Hk as [Hk|[<-|[]]]; [specialize (Hb _ Hk); lia | lia].
Qed.

(* ---------------------------------------------------------------- the node invariant *)
Definition SA (st : sstate) : Prop := Server_inv.Inv st /\ BK st /\ s_panic st = false.

Definition CBs (st : sstate) (calls : list scall) : Prop :=
  NoDup (srv_calls calls) /\ forall k, In k (srv_calls calls) -> In k (map fst (s_blocked st)).

Definition CA (n : node) : Prop := SA (n_server n) /\ CBs (n_server n) (n_calls n).

Section CallsExact.
  Variables (Sz : N) (Hh : hash_fn).
  Hypothesis HSz : 32 <= Sz.

  Lemma SA_step st op : SA st -> SA (fst (sstep_l Sz st op)).
  Proof. intros (HI & HB & Hp). split; [apply sstep_l_inv, HI|]. split; [apply sstep_l_BK; assumption | apply sstep_l_no_panic; assumption]. Qed.

  Lemma blocked_keep st op :
    match op with SPoll | SRelease _ _ => False | _ => True end ->
    s_blocked (fst (sstep_l Sz st op)) = s_blocked st /\ s_next_call (fst (sstep_l Sz st op)) = s_next_call st.
  Proof.
    intros Hop. unfold sstep_l. destruct (s_panic st); [auto|]. destruct op as [p|p w order|bl|p|k r|]; try contradiction; cbn [fst].
    - unfold new_connection. destruct (alookup N.eqb p (s_wants st)); auto.
    - unfold process_incoming_message. destruct (alookup N.eqb p (s_wants st)); [|auto]. destruct (process_wantlist Sz l w); auto.
    - auto.
    - unfold peer_disconnected. destruct (alookup N.eqb p (s_wants st)); auto.
  Qed.

  Lemma CA_srv_keep n op c' :
    match op with SPoll | SRelease _ _ => False | _ => True end ->
    CA n -> CA (MkNode c' (fst (srv Sz (n_server n) op)) (n_store n) (n_calls n)).
  Proof.
    intros Hop [HS [H1 H2]]. split; cbn [n_server n_calls]; [apply SA_step, HS|]. split; [exact H1|].
    unfold srv. rewrite (proj1 (blocked_keep (n_server n) op Hop)). exact H2.
  Qed.

  Definition RC (n n' : node) : Prop := CA n -> CA n'.

  Lemma RC_refl n : RC n n.
  Proof. intros H. exact H. Qed.
  Lemma RC_trans a b c : RC a b -> RC b c -> RC a c.
  Proof. unfold RC. auto. Qed.

  Lemma RC_report n p c r : RC n (node_report n p c r).
  Proof. intros H. exact H. Qed.
  Lemma RC_advance n ms : RC n (node_advance n ms).
  Proof. intros H. exact H. Qed.
  Lemma RC_get n c : RC n (node_get Sz n c).
  Proof. intros H. exact H. Qed.
  Lemma RC_cancel n q : RC n (node_cancel n q).
  Proof. intros H. exact H. Qed.
  Lemma RC_put n c d : RC n (node_put n c d).
  Proof. intros H. exact H. Qed.
  Lemma RC_evict n c : RC n (node_evict n c).
  Proof. intros H. exact H. Qed.
  Lemma RC_conn n j : RC n (node_connected Sz n j CONN).
  Proof. intros H. unfold node_connected. apply CA_srv_keep; [exact I | exact H]. Qed.
  Lemma RC_disc n j : RC n (node_disconnected Sz n j CONN).
  Proof. intros H. unfold node_disconnected. apply CA_srv_keep; [exact I | exact H]. Qed.

  Lemma RC_incoming n p m : RC n (fst (node_incoming Sz Hh n p m)).
  Proof.
    intros H. unfold node_incoming. destruct (process_message Sz Hh m) as [inc| |]; cbn [fst]; try exact H.
    destruct (match in_client inc with
              | Some cm => cstep (n_client n) (CIncoming p (map to_pres (cm_presences cm)) (cm_blocks cm))
              | None => (n_client n, [])
              end) as [c1 o1]. cbn [fst].
    destruct (in_server inc) as [w|]; [apply CA_srv_keep; [exact I | exact H] | exact H].
  Qed.

  Lemma RC_store n k : RC n (node_store Sz n k).
  Proof.
    intros H. unfold node_store. destruct (nth_error (n_calls n) (N.to_nat k)) as [call|] eqn:En; [|exact H].
    destruct (remove_nth_split _ _ _ En) as (l1 & l2 & El & Er). destruct H as [HS [H1 H2]].
    destruct call as [m c|m bl|m c]; (split; cbn [n_server n_calls]; unfold CBs).
    - exact HS.
    - rewrite Er. rewrite El, srv_calls_app in H1, H2. cbn in H1, H2. rewrite srv_calls_app. split; assumption.
    - exact HS.
    - rewrite Er. rewrite El, srv_calls_app in H1, H2. cbn in H1, H2. rewrite srv_calls_app. split; assumption.
    - apply SA_step, HS.
    - rewrite Er. rewrite El, srv_calls_app in H1, H2. change (srv_calls (KSGet m c :: l2)) with (m :: srv_calls l2) in H1, H2.
      rewrite srv_calls_app. split; [apply NoDup_remove_1 in H1; exact H1|].
      intros x Hx. assert (Hne : x <> m).
      { intros ->. apply NoDup_remove_2 in H1. contradiction. }
      assert (Hin : In x (map fst (s_blocked (n_server n)))).
      { apply H2. apply in_app_iff in Hx. apply in_app_iff. destruct Hx as [Hx|Hx]; [left; exact Hx | right; right; exact Hx]. }
      destruct HS as (_ & _ & Hp). unfold srv, sstep_l. rewrite Hp. cbn [fst]. unfold release.
      destruct (alookup N.eqb m (s_blocked (n_server n))) as [[c' t']|]; [|exact Hin]. cbn [s_blocked].
      apply in_map_iff in Hin. destruct Hin as ([x' y] & Hx' & Hin). cbn [fst] in Hx'. subst x'.
      apply in_map_iff. exists (x, y). split; [reflexivity|]. unfold adel. apply filter_In. split; [exact Hin|]. cbn [fst].
      apply negb_true_iff, N.eqb_neq. congruence.
  Qed.

  Lemma RC_poll n : RC n (fst (node_poll Sz n)).
  Proof.
    intros [HS [H1 H2]]. unfold node_poll.
    destruct (cstep (n_client n) (CPoll [])) as [c1 o1]. destruct (cstep c1 CTakeNewBlocks) as [c2 o2].
    set (s1 := match cl_new_blocks o2 with [] => n_server n | _ :: _ => fst (srv Sz (n_server n) (SNewBlocks (cl_new_blocks o2))) end).
    assert (HS1 : SA s1) by (unfold s1; destruct (cl_new_blocks o2); [exact HS | apply SA_step, HS]).
    assert (Hk1 : s_blocked s1 = s_blocked (n_server n) /\ s_next_call s1 = s_next_call (n_server n))
      by (unfold s1; destruct (cl_new_blocks o2); [auto | apply blocked_keep; exact I]).
    destruct Hk1 as [Eb1 En1].
    pose proof (SA_step s1 SPoll HS1) as HS2.
    destruct (srv Sz s1 SPoll) as [s2 o3] eqn:E3. cbn [fst]. split; cbn [n_server n_calls].
    - unfold srv in E3. rewrite E3 in HS2. exact HS2.
    - destruct HS1 as (_ & (_ & Hbk) & Hp1). unfold srv, sstep_l in E3. rewrite Hp1 in E3.
      unfold Server.do_poll in E3. fold (poll_start s1) in E3.
      pose proof (fold_run_task_gets (s_next_call s1) (s_ready s1) (poll_start s1) []) as Hg.
      pose proof (fold_run_task_blocked_old (s_ready s1) (poll_start s1) []) as Hold.
      pose proof (fold_run_task_get_parked (s_ready s1) (poll_start s1) []) as Hpk.
      cbv zeta in Hg. destruct (fold_left run_task (s_ready s1) (poll_start s1, [])) as [st1 out1]. cbn [fst snd] in *.
      destruct Hg as [Hg1 Hg2]; [cbn; lia | constructor | intros k []|].
      unfold update_handlers in E3. destruct (fold_left uh_block (s_outq st1) (s_wants st1, s_waiting st1, [])) as [[w wt] bat].
      injection E3 as <- <-. unfold CBs. cbn [s_blocked].
      rewrite !srv_calls_app, srv_calls_cl, srv_calls_sv, get_nums_app, get_nums_sends, app_nil_r. cbn [app]. split.
      + apply NoDup_app_intro; [exact H1 | exact Hg1|]. intros x Hx Hy. apply H2 in Hx. rewrite <- Eb1 in Hx. apply Hbk in Hx.
        specialize (Hg2 _ Hy). lia.
      + intros x Hx. apply in_app_iff in Hx. destruct Hx as [Hx|Hx].
        * apply H2 in Hx. rewrite <- Eb1 in Hx. apply in_map_iff in Hx. destruct Hx as (y & <- & Hy). apply in_map. apply Hold. exact Hy.
        * apply get_nums_In in Hx. destruct Hx as (c & Hc). destruct (Hpk x c Hc) as [[]|(t' & Ht')]. apply in_map_iff. exists (x, (c, t')). auto.
  Qed.

  Lemma CA_init : CA node_init.
  Proof.
    split; cbn [node_init n_server n_calls].
    - split; [apply sinit_inv|]. split; [split; cbn; [constructor | tauto] | reflexivity].
    - split; [constructor | intros k []].
  Qed.

  Definition net_ca (s : net) : Prop := forall k n, get_node s k = Some n -> CA n.

  Lemma net_ca_step s o : net_ok Sz Hh s -> nop_wf Sz o -> net_ca s -> net_ca (fst (nstep Sz Hh s o)).
  Proof.
    intros Hok Ho H k n' Hk.
    pose proof (nstep_movedR Sz Hh HSz RC True RC_refl RC_trans RC_poll RC_report RC_store RC_incoming RC_advance
                  (fun _ => RC_conn) (fun _ => RC_disc) (fun _ n c _ => RC_get n c) (fun _ => RC_cancel) (fun _ => RC_put) (fun _ => RC_evict)
                  s o Hok Ho (or_intror (or_intror I))) as Hm.
    destruct (Hm k n' Hk) as (n & Hn & HR). apply HR, (H _ _ Hn).
  Qed.

  Lemma net_ca_run ops : forall s,
    Forall (nop_good Sz Hh) ops -> Forall (nop_wf Sz) ops -> net_ok Sz Hh s -> net_ca s -> net_ca (fst (nrun Sz Hh s ops)).
  Proof.
    induction ops as [|o ops IH]; intros s Hg Hw Hok H; [exact H|].
    inversion Hg as [|? ? Hg1 Hg2]; subst. inversion Hw as [|? ? Hw1 Hw2]; subst. rewrite (nrun_cons Sz Hh). cbn [fst].
    apply IH; [assumption | assumption | apply net_ok_step; assumption | apply net_ca_step; assumption].
  Qed.

  (* ---------- the server's outstanding store calls are exactly its parked lookups ---------- *)
  Theorem C13_net_server_calls_exact n ops :
    Forall (nop_good Sz Hh) ops -> Forall (nop_wf Sz) ops ->
    let s := fst (nrun Sz Hh (net_init n) ops) in
    forall j nj, get_node s j = Some nj ->
    let st := n_server nj in
    NoDup (srv_calls (n_calls nj)) /\
    (forall k, In k (srv_calls (n_calls nj)) <-> In k (map fst (s_blocked st))) /\
    (forall k c, In (KSGet k c) (n_calls nj) <-> exists t, In (k, (c, t)) (s_blocked st)) /\
    length (srv_calls (n_calls nj)) = length (s_blocked st) /\
    (length (srv_calls (n_calls nj)) <= count_dw j ops)%nat.
  Proof.
    intros Hg Hw s j nj Hj st.
    assert (Hca : net_ca s).
    { apply net_ca_run; [exact Hg | exact Hw | apply net_ok_init, HSz|]. intros k nd Hk. unfold get_node in Hk. cbn [nodes net_init] in Hk.
      apply nth_error_In, repeat_spec in Hk. subst nd. apply CA_init. }
    destruct (Hca j nj Hj) as [(_ & (Hnd & _) & _) [H1 H2]]. fold st in Hnd, H2.
    destruct (C13_net_total_bound Sz Hh HSz n ops Hg j nj Hj) as (_ & _ & _ & Hdw & Hlive). fold s st in Hdw, Hlive.
    destruct (Hlive Hw) as [Hcall Hlen].
    destruct (C13_net_server_bounded Sz Hh HSz n ops Hg j nj Hj) as (_ & _ & (_ & _ & _ & _ & _ & Hag) & _). fold st in Hag.
    assert (Hiff : forall k, In k (srv_calls (n_calls nj)) <-> In k (map fst (s_blocked st))).
    { intros k. split; [apply H2|]. intros Hk. apply in_map_iff in Hk. destruct Hk as ([k' [c t]] & <- & Hin). cbn [fst].
      apply srv_calls_In. exists c. eapply Hcall, Hin. }
    assert (Heq : length (srv_calls (n_calls nj)) = length (s_blocked st)).
    { rewrite <- (map_length fst (s_blocked st)). apply Nat.le_antisymm; apply NoDup_incl_length; try assumption; intros k Hk; apply Hiff, Hk. }
    split; [exact H1|]. split; [exact Hiff|]. split; [|split; [exact Heq|]].
    - intros k c. split; [|intros (t & Hin); eapply Hcall, Hin].
      intros Hin. assert (Hk : In k (map fst (s_blocked st))) by (apply H2, srv_calls_In; eauto).
      apply in_map_iff in Hk. destruct Hk as ([k' [c' t]] & Hk' & Hin'). cbn [fst] in Hk'. subst k'.
      destruct (Hag k c Hin) as [_ Hc]. rewrite (Hc c' t Hin') in Hin'. eauto.
    - rewrite Heq. unfold tasks_n in Hdw. lia.
  Qed.
End CallsExact.
