(* Net_proofs32.v — package J, part 10: the registered network theorems WITHOUT the "fuel sufficed" hypotheses, for a `settle`
   that is given enough fuel.

   `settle_phi s := settle_loop (Phi s) s` is Net.v's `settle` with the fuel `Phi s` of Net_proofs23 instead of `settle_fuel s`;
   `refresh_phi` is `settle_phi` after the 30 s advance.  For every reachable net `settle_phi` ends quiet (Net_proofs28), and
   whenever Net.v's `settle` ends quiet it returns exactly what `settle_phi` returns (`settle_quiet_agrees`): the hypothesis
   `quietb (fst (settle …)) = true` of C02_direct, C02_multi_hop, C14_records_* says "the concrete fuel was enough" and nothing
   more.  The theorems are proved here for any settle-like function `g` (a run of schedule steps that ends quiet on nets that
   satisfy the invariants and starts with a round when the net is not quiet) and instantiated with `settle_phi`; the proofs are
   those of Net_proofs10/12/13/18 with the quiet hypotheses discharged. *)
From BS Require Import Server_lemmas Server_inv Server_proofs Server_live Wantlist_proofs Client_proofs Client_proofs2
  Client_proofs3 Client_proofs4 Net Net_proofs2 Net_proofs3 Net_proofs4 Net_proofs5 Net_proofs6 Net_proofs7 Net_proofs8
  Net_proofs9 Net_proofs10 Net_proofs11 Net_proofs12 Net_proofs13 Net_proofs14 Net_proofs15 Net_proofs16 Net_proofs17 Net_proofs18
  Net_proofs22 Net_proofs23 Net_proofs24 Net_proofs27 Net_proofs28.
From Coq Require Import ZArith ZifyBool ZifyN ZifyNat Lia.
Open Scope N_scope.

Section Phi.
  Variables (Sz : N) (Hh : hash_fn).
  Hypothesis HSz : 32 <= Sz.
  Local Notation RI := (RI Sz Hh).

  Definition settle_phi (s : net) : net * list nevent := settle_loop Sz Hh (Phi s) s.
  Definition refresh_phi (s : net) : net * list nevent := settle_phi (advance Sz Hh SEND_FULL_INTERVAL s).

  (* two runs of the loop that both end quiet are the same run *)
  Lemma settle_loop_agree : forall k k' s,
    quietb (fst (settle_loop Sz Hh k s)) = true -> quietb (fst (settle_loop Sz Hh k' s)) = true ->
    settle_loop Sz Hh k s = settle_loop Sz Hh k' s.
  Proof.
    assert (H0 : forall (k : nat) s, quietb s = false -> quietb (fst (settle_loop Sz Hh 0 s)) = true -> False).
    { intros k s Hq H. cbn [settle_loop] in H. rewrite Hq in H. cbn [fst] in H. congruence. }
    induction k as [|k IH]; intros k' s H1 H2; destruct (quietb s) eqn:Hq.
    - destruct k'; cbn [settle_loop]; rewrite Hq; reflexivity.
    - exfalso. exact (H0 0%nat s Hq H1).
    - destruct k'; cbn [settle_loop]; rewrite Hq; reflexivity.
    - destruct k' as [|k']; [exfalso; exact (H0 0%nat s Hq H2)|].
      cbn [settle_loop] in *. rewrite Hq in *. destruct (round Sz Hh s) as [s1 e1]. specialize (IH k' s1).
      destruct (settle_loop Sz Hh k s1) as [s2 e2]. destruct (settle_loop Sz Hh k' s1) as [s2' e2']. cbn [fst] in *.
      specialize (IH H1 H2). injection IH as -> ->. reflexivity.
  Qed.

  Theorem settle_phi_quiet s : RI s -> quietb (fst (settle_phi s)) = true.
  Proof. intros HR. apply (settle_loop_enough Sz Hh HSz); [exact HR | lia]. Qed.

  Theorem settle_quiet_agrees s : RI s -> quietb (fst (settle Sz Hh s)) = true -> settle Sz Hh s = settle_phi s.
  Proof. intros HR Hq. apply settle_loop_agree; [exact Hq | apply settle_phi_quiet, HR]. Qed.

  Lemma RI_advance s ms : RI s -> RI (advance Sz Hh ms s).
  Proof.
    intros [Hok Hl]. unfold advance. split; [apply net_ok_step; [exact HSz | exact I | exact Hok] | apply (net_live_step Sz Hh HSz); [exact Hok | exact I | exact Hl]].
  Qed.

  Theorem refresh_phi_quiet s : RI s -> quietb (fst (refresh_phi s)) = true.
  Proof. intros HR. apply settle_phi_quiet, RI_advance, HR. Qed.

  Theorem refresh_quiet_agrees s : RI s -> quietb (fst (refresh Sz Hh s)) = true -> refresh Sz Hh s = refresh_phi s.
  Proof. intros HR Hq. apply settle_quiet_agrees; [apply RI_advance, HR | exact Hq]. Qed.

  Lemma settle_phi_run s : exists ops, Forall sched ops /\ settle_phi s = nrun Sz Hh s ops.
  Proof. apply settle_loop_run. Qed.

  Lemma settle_phi_unfold s : RI s -> quietb s = false -> exists f, fst (settle_phi s) = fst (settle_loop Sz Hh f (fst (round Sz Hh s))).
  Proof.
    intros HR Hq. destruct (round_decreases Sz Hh HSz s HR Hq) as [_ Hlt]. unfold settle_phi.
    destruct (Phi s) as [|f]; [lia|]. exists f. cbn [settle_loop]. rewrite Hq.
    destruct (round Sz Hh s) as [s1 e1]. cbn [fst]. destruct (settle_loop Sz Hh f s1). reflexivity.
  Qed.

  Lemma settle_phi_RI s : RI s -> RI (fst (settle_phi s)).
  Proof. intros HR. destruct (settle_phi_run s) as (ops & Hs & E). rewrite E. apply (Phi_run Sz Hh HSz ops Hs s HR). Qed.
End Phi.

(* ---------- the theorems, for any settle-like function ---------- *)
Section Generic.
  Variables (Sz : N) (Hh : hash_fn).
  Hypothesis HSz : 32 <= Sz.
  Local Notation RI := (RI Sz Hh).
  Variable g : net -> net * list nevent.
  Hypothesis g_run : forall s, exists ops, Forall sched ops /\ g s = nrun Sz Hh s ops.
  Hypothesis g_quiet : forall s, RI s -> quietb (fst (g s)) = true.
  Hypothesis g_unfold : forall s, RI s -> quietb s = false -> exists f, fst (g s) = fst (settle_loop Sz Hh f (fst (round Sz Hh s))).

  Definition rg (s : net) : net * list nevent := g (advance Sz Hh SEND_FULL_INTERVAL s).

  Lemma g_RI s : RI s -> RI (fst (g s)).
  Proof. intros HR. destruct (g_run s) as (ops & Hs & E). rewrite E. apply (Phi_run Sz Hh HSz ops Hs s HR). Qed.

  Lemma rg_quiet s : RI s -> quietb (fst (rg s)) = true.
  Proof. intros HR. apply g_quiet, RI_advance; assumption. Qed.

  Lemma rg_RI s : RI s -> RI (fst (rg s)).
  Proof. intros HR. apply g_RI, RI_advance; assumption. Qed.

  Lemma reachable_RI n ops : Forall (nop_good Sz Hh) ops -> Forall (nop_wf Sz) ops -> RI (fst (nrun Sz Hh (net_init n) ops)).
  Proof. intros Hg Hw. split; [apply reachable_ok; assumption | apply reachable_live; assumption]. Qed.

  (* --- C02_direct --- *)
  Lemma refresh_clears_g i j c s1 :
    i <> j -> RI s1 -> net_wf Sz s1 -> quietb s1 = true -> Net.connected s1 i j = true ->
    (exists st d, store_of s1 j = Some st /\ store_get st c = SHit d) -> (length (wl_i i s1) <= 1024)%nat ->
    exists ops2, Forall sched ops2 /\ rg s1 = nrun Sz Hh (advance Sz Hh SEND_FULL_INTERVAL s1) ops2 /\
                 P2 Sz Hh i j c true (advance Sz Hh SEND_FULL_INTERVAL s1) /\
                 P2 Sz Hh i j c true (fst (rg s1)) /\ ~ In c (wl_i i (fst (rg s1))).
  Proof.
    intros Hij HR1 Hwf1 Hq1 Hconn1 Hst Hsize. pose proof (rg_quiet s1 HR1) as Hq2. destruct HR1 as [Hok1 Hl1].
    pose proof (P2_after_advance Sz Hh HSz i j c true s1 Hij Hok1 Hwf1 Hq1 Hconn1 (fun _ => Hst) Hsize) as HP.
    unfold rg in *. set (s1' := advance Sz Hh SEND_FULL_INTERVAL s1) in *.
    destruct (g_run s1') as (ops2 & Hs2 & E2). rewrite E2 in *.
    pose proof (P2_run Sz Hh HSz i j c true ops2 s1' Hij Hs2 HP) as HP2.
    exists ops2. split; [exact Hs2|]. split; [reflexivity|]. split; [exact HP|]. split; [exact HP2|].
    apply (quiet_not_wanted Sz Hh i j c true _ eq_refl HP2 Hq2).
  Qed.

  Theorem C02_direct_g (i j : N) (q : qid) (c : cid) n ops :
    Forall (nop_good Sz Hh) ops -> Forall (nop_wf Sz) ops ->
    let s := fst (nrun Sz Hh (net_init n) ops) in
    live_query i q c s -> Net.connected s i j = true ->
    (exists st d, store_of s j = Some st /\ store_get st c = SHit d) ->
    let r1 := g s in
    let r2 := rg (fst r1) in
    (length (wl_i i (fst r1)) <= 1024)%nat ->
    answered i q (snd r1 ++ snd r2).
  Proof.
    intros Hg Hw s Hlive Hconn Hstore r1 r2 Hsize.
    pose proof (reachable_RI n ops Hg Hw) as HR. fold s in HR.
    pose proof (g_quiet s HR) as Hq1. pose proof (rg_quiet (fst (g s)) (g_RI s HR)) as Hq2. fold r1 in Hq1, Hq2. fold r2 in Hq2.
    destruct (run_both Sz Hh HSz ops (net_init n) Hg Hw (net_ok_init Sz Hh HSz n) (net_wf_init Sz n)) as [Hok Hwf]. fold s in Hok, Hwf.
    destruct (connected_neq Sz Hh HSz s i j Hok Hconn) as (Hij & _).
    assert (Ha : alive i q c s).
    { destruct Hlive as (cl & qs & E & Hin & Hq). exists cl. split; [exact E|]. left. exists qs. auto. }
    destruct (g_run s) as (ops1 & Hs1 & E1). subst r2 r1. rewrite E1 in *.
    destruct (sched_run_facts Sz Hh HSz ops1 s j c Hs1 Hok Hwf) as (Hok1 & Hwf1 & Hc1 & Hst1). cbn zeta in *.
    set (s1 := fst (nrun Sz Hh s ops1)) in *.
    destruct (alive_run Sz Hh HSz i q c ops1 s Hs1 Hok Ha) as [Ha1|(d & Hd)]; [|exists d; apply in_app_iff; auto]. fold s1 in Ha1.
    assert (Hconn1 : Net.connected s1 i j = true) by (unfold Net.connected in *; rewrite Hc1; exact Hconn).
    pose proof (P2_after_advance Sz Hh HSz i j c true s1 Hij Hok1 Hwf1 Hq1 Hconn1 (fun _ => Hst1 Hstore) Hsize) as HP.
    unfold rg in *. set (s1' := advance Sz Hh SEND_FULL_INTERVAL s1) in *.
    destruct (g_run s1') as (ops2 & Hs2 & E2). rewrite E2 in *.
    pose proof (P2_run Sz Hh HSz i j c true ops2 s1' Hij Hs2 HP) as HP2. set (s2 := fst (nrun Sz Hh s1' ops2)) in *.
    assert (Ha1' : alive i q c s1').
    { destruct Ha1 as (cl & E & H). exists (c_advance cl SEND_FULL_INTERVAL). split.
      - unfold s1'. rewrite (client_after_advance Sz Hh i), E. reflexivity.
      - exact H. }
    destruct (alive_run Sz Hh HSz i q c ops2 s1' Hs2 (p2_ok _ _ _ _ _ _ _ HP) Ha1') as [Ha2|(d & Hd)]; [|exists d; apply in_app_iff; auto].
    exfalso. fold s2 in Ha2. apply (quiet_not_wanted Sz Hh i j c true s2 eq_refl HP2 Hq2).
    apply (alive_quiet_wanted Sz Hh i q c s2 (p2_ok _ _ _ _ _ _ _ HP2) Hq2 Ha2).
  Qed.

  (* --- C02_multi_hop --- *)
  Theorem C02_multi_hop_g (i j k : N) (qi qj : qid) (c : cid) n ops :
    Forall (nop_good Sz Hh) ops -> Forall (nop_wf Sz) ops ->
    let s := fst (nrun Sz Hh (net_init n) ops) in
    live_query i qi c s -> live_query j qj c s ->
    Net.connected s i j = true -> Net.connected s j k = true ->
    (exists st d, store_of s k = Some st /\ store_get st c = SHit d) ->
    let r1 := g s in
    let r2 := rg (fst r1) in
    let r3 := rg (fst r2) in
    (length (wl_i j (fst r1)) <= 1024)%nat -> (length (wl_i i (fst r2)) <= 1024)%nat ->
    answered i qi (snd r1 ++ snd r2 ++ snd r3).
  Proof.
    intros Hg Hw s Hli Hlj Hcij Hcjk Hstore r1 r2 r3 Hsz1 Hsz2.
    pose proof (reachable_RI n ops Hg Hw) as HR. fold s in HR.
    pose proof (g_RI s HR) as HR1. pose proof (rg_RI _ HR1) as HR2.
    pose proof (g_quiet s HR) as Hq1. pose proof (rg_quiet _ HR1) as Hq2. pose proof (rg_quiet _ HR2) as Hq3.
    fold r1 in HR1, HR2, Hq1, Hq2, Hq3. fold r2 in HR2, Hq2, Hq3. fold r3 in Hq3.
    destruct (run_both Sz Hh HSz ops (net_init n) Hg Hw (net_ok_init Sz Hh HSz n) (net_wf_init Sz n)) as [Hok Hwf]. fold s in Hok, Hwf.
    assert (Hcc : net_cc s).
    { unfold s. clear - HSz Hg Hw. assert (H : forall ops s0, Forall (nop_good Sz Hh) ops -> Forall (nop_wf Sz) ops ->
          net_ok Sz Hh s0 -> net_cc s0 -> net_cc (fst (nrun Sz Hh s0 ops))).
      { induction ops0 as [|o ops0 IH]; intros s0 G W Hok0 Hc0; [exact Hc0|]. rewrite (nrun_cons Sz Hh). cbn [fst].
        inversion G; subst. inversion W; subst. apply IH; try assumption; [apply net_ok_step | apply (net_cc_step Sz Hh HSz)]; assumption. }
      apply H; [exact Hg | exact Hw | apply net_ok_init; exact HSz | apply net_cc_init]. }
    destruct (connected_neq Sz Hh HSz s i j Hok Hcij) as (Hij & _). destruct (connected_neq Sz Hh HSz s j k Hok Hcjk) as (Hjk & _).
    assert (Hai : alive i qi c s) by (destruct Hli as (cl & qs & E & Hin & Hq); exists cl; split; [exact E | left; exists qs; auto]).
    assert (HDj : forall nj, get_node s j = Some nj -> D c nj).
    { intros nj Hgj. left. destruct Hlj as (cl & qs & E & Hin & _). unfold client_of in E. rewrite Hgj in E. injection E as <-.
      destruct (nk_invb _ _ _ _ _ (no_nodes _ _ _ Hok _ _ Hgj)) as (_ & _ & Hk & _). apply Hk. apply in_map_iff. exists (c, qs). auto. }
    (* first settle *)
    destruct (g_run s) as (ops1 & Hs1 & E1). subst r3 r2 r1. rewrite E1 in *.
    destruct (sched_run_facts Sz Hh HSz ops1 s k c Hs1 Hok Hwf) as (Hok1 & Hwf1 & Hc1 & Hst1). cbn zeta in *.
    destruct (phase_run Sz Hh HSz c j ops1 s (sched_phase _ Hs1) Hok Hwf Hcc HDj) as (_ & _ & Hcc1 & HDj1). cbn zeta in *.
    set (s1 := fst (nrun Sz Hh s ops1)) in *.
    destruct (alive_run Sz Hh HSz i qi c ops1 s Hs1 Hok Hai) as [Ha1|(d & Hd)]; [|exists d; apply in_app_iff; auto]. fold s1 in Ha1.
    assert (Hcij1 : Net.connected s1 i j = true) by (unfold Net.connected in *; rewrite Hc1; exact Hcij).
    assert (Hcjk1 : Net.connected s1 j k = true) by (unfold Net.connected in *; rewrite Hc1; exact Hcjk).
    (* first refresh: j gets the block from k *)
    destruct (refresh_clears_g j k c s1 Hjk HR1 Hwf1 Hq1 Hcjk1 (Hst1 Hstore) Hsz1) as (ops2 & Hs2 & E2 & HP1' & HP2 & Hnw2).
    rewrite E2 in *. set (s1' := advance Sz Hh SEND_FULL_INTERVAL s1) in *. set (s2 := fst (nrun Sz Hh s1' ops2)) in *.
    assert (Hph2 : Forall (phase_op) (NAdvance SEND_FULL_INTERVAL :: ops2)) by (constructor; [right; eauto | apply sched_phase, Hs2]).
    destruct (phase_run Sz Hh HSz c j _ s1 Hph2 Hok1 Hwf1 Hcc1 HDj1) as (Hok2 & Hwf2 & Hcc2 & HDj2). cbn zeta in *.
    rewrite (nrun_cons Sz Hh) in Hok2, Hwf2, Hcc2, HDj2. cbn [fst] in Hok2, Hwf2, Hcc2, HDj2.
    change (fst (nstep Sz Hh s1 (NAdvance SEND_FULL_INTERVAL))) with s1' in *. fold s2 in Hok2, Hwf2, Hcc2, HDj2.
    destruct (alive_run Sz Hh HSz i qi c ops2 s1' Hs2 (p2_ok _ _ _ _ _ _ _ HP1') (alive_advance Sz Hh i qi c s1 _ Ha1)) as [Ha2|(d & Hd)];
      [|exists d; apply in_app_iff; right; apply in_app_iff; auto]. fold s2 in Ha2.
    assert (Hstj2 : exists st d, store_of s2 j = Some st /\ store_get st c = SHit d).
    { destruct (connected_neq Sz Hh HSz s1 j k Hok1 Hcjk1) as (_ & Hej & _).
      assert (Hgj2 : exists nj, get_node s2 j = Some nj).
      { destruct (get_node s2 j) as [nj|] eqn:E; [eauto|]. exfalso.
        pose proof (p2_conn _ _ _ _ _ _ _ HP2) as Hc2. destruct (connected_neq Sz Hh HSz s2 j k Hok2 Hc2) as (_ & H & _). contradiction. }
      destruct Hgj2 as (nj & Hgj2). destruct (D_quiet c s2 j nj Hq2 Hgj2 (HDj2 _ Hgj2)) as [Hwl|(d & Hd)].
      - exfalso. apply Hnw2. unfold wl_i, client_of. rewrite Hgj2. exact Hwl.
      - exists (n_store nj), d. unfold store_of. rewrite Hgj2. auto. }
    assert (Hcij2 : Net.connected s2 i j = true).
    { destruct (sched_run_facts Sz Hh HSz ops2 s1' j c Hs2 (p2_ok _ _ _ _ _ _ _ HP1') (p2_wf _ _ _ _ _ _ _ HP1')) as (_ & _ & Hc2 & _). cbn zeta in Hc2.
      fold s2 in Hc2. unfold Net.connected in *. rewrite Hc2. exact Hcij1. }
    (* second refresh: i gets the block from j *)
    destruct (refresh_clears_g i j c s2 Hij HR2 Hwf2 Hq2 Hcij2 Hstj2 Hsz2) as (ops3 & Hs3 & E3 & HP2' & HP3 & Hnw3).
    rewrite E3 in *. set (s2' := advance Sz Hh SEND_FULL_INTERVAL s2) in *. set (s3 := fst (nrun Sz Hh s2' ops3)) in *.
    destruct (alive_run Sz Hh HSz i qi c ops3 s2' Hs3 (p2_ok _ _ _ _ _ _ _ HP2') (alive_advance Sz Hh i qi c s2 _ Ha2)) as [Ha3|(d & Hd)];
      [|exists d; apply in_app_iff; right; apply in_app_iff; auto]. fold s3 in Ha3.
    exfalso. apply Hnw3. apply (alive_quiet_wanted Sz Hh i qi c s3 (p2_ok _ _ _ _ _ _ _ HP3) Hq3 Ha3).
  Qed.

  (* --- C14: the records agree, are sound, are equal --- *)
  Lemma refresh_registers_g i j s1 :
    i <> j -> RI s1 -> net_wf Sz s1 -> quietb s1 = true -> Net.connected s1 i j = true ->
    (length (wl_i i s1) <= 1024)%nat ->
    forall c, In c (wl_i i (fst (rg s1))) ->
      exists st, server_of (fst (rg s1)) j = Some st /\ wantsP (s_wants st) i c /\ waitsP (s_waiting st) i c.
  Proof.
    intros Hij HR1 Hwf1 Hq1 Hconn1 Hsize c Hc. pose proof (rg_quiet s1 HR1) as Hq2. destruct HR1 as [Hok1 Hl1].
    assert (Hno : false = true -> exists st d, store_of s1 j = Some st /\ store_get st c = SHit d) by discriminate.
    pose proof (P2_after_advance Sz Hh HSz i j c false s1 Hij Hok1 Hwf1 Hq1 Hconn1 Hno Hsize) as HP.
    unfold rg in *. set (s1' := advance Sz Hh SEND_FULL_INTERVAL s1) in *.
    destruct (g_run s1') as (ops2 & Hs2 & E2). rewrite E2 in *.
    pose proof (P2_run Sz Hh HSz i j c false ops2 s1' Hij Hs2 HP) as HP2.
    destruct (quiet_wanted_registered Sz Hh i j c _ HP2 Hq2 Hc) as (st & E & Hw). exists st. split; [exact E|]. split; [exact Hw|].
    unfold server_of in E. destruct (get_node (fst (nrun Sz Hh s1' ops2)) j) as [nj|] eqn:Hg; [|discriminate]. injection E as <-.
    destruct (nk_sv _ _ _ _ _ (no_nodes _ _ _ (p2_ok _ _ _ _ _ _ _ HP2) _ _ Hg)) as ((_ & _ & HL) & _). apply HL, Hw.
  Qed.

  Lemma refresh_sound_g i j c s1 :
    i <> j -> RI s1 -> net_wf Sz s1 -> net_rv s1 -> quietb s1 = true -> Net.connected s1 i j = true ->
    (length (wl_i i s1) <= 1024)%nat ->
    forall st, server_of (fst (rg s1)) j = Some st -> wantsP (s_wants st) i c -> In c (wl_i i (fst (rg s1))).
  Proof.
    intros Hij HR1 Hwf Hrv Hq Hc Hsz st Est Hw. pose proof (rg_quiet s1 HR1) as Hq2. pose proof (RI_advance Sz Hh HSz s1 SEND_FULL_INTERVAL HR1) as HR1'.
    destruct HR1 as [Hok Hl1]. unfold rg in *. set (s1' := advance Sz Hh SEND_FULL_INTERVAL s1) in *.
    destruct (QP_after_advance Sz Hh HSz i j s1 Hok Hwf Hq Hc Hsz) as [HQ HA]. fold s1' in HQ, HA.
    assert (Hrv' : net_rv s1') by (apply (net_rv_step Sz Hh HSz); [exact Hok | exact I | exact Hrv]).
    destruct (g_unfold s1' HR1' (QA_not_quiet i j _ HA)) as (f & Ef). rewrite Ef in *.
    pose proof (round1 Sz Hh HSz i j c Hij s1' HQ) as HPB.
    destruct (round_run Sz Hh s1') as (opsR & HsR & ER). destruct (sched_all Sz Hh _ HsR) as [HgR HwR].
    assert (HrvR : net_rv (fst (round Sz Hh s1'))) by (rewrite ER; apply (net_rv_run Sz Hh HSz); [exact HgR | exact HwR | apply (qp_ok _ _ _ _ _ HQ) | exact Hrv']).
    set (sR := fst (round Sz Hh s1')) in *.
    destruct (settle_loop_run Sz Hh f sR) as (ops2 & Hs2 & E2). rewrite E2 in *. destruct (sched_all Sz Hh _ Hs2) as [Hg2 Hw2].
    pose proof (PB_run Sz Hh HSz i j c Hij ops2 sR Hs2 HPB) as HPB2.
    assert (Hrv2 : net_rv (fst (nrun Sz Hh sR ops2))) by (apply (net_rv_run Sz Hh HSz); [exact Hg2 | exact Hw2 | apply (pb_ok _ _ _ _ _ _ HPB) | exact HrvR]).
    apply (PB_quiet_sound Sz Hh i j c _ HPB2 Hrv2 Hq2). exists st. auto.
  Qed.

  Theorem C14_records_equal_g (i j : N) n ops :
    Forall (nop_good Sz Hh) ops -> Forall (nop_wf Sz) ops ->
    let s := fst (nrun Sz Hh (net_init n) ops) in
    Net.connected s i j = true ->
    let r1 := g s in
    let r2 := rg (fst r1) in
    (length (wl_i i (fst r1)) <= 1024)%nat ->
    forall c, In c (wl_i i (fst r2)) <-> (exists st, server_of (fst r2) j = Some st /\ wantsP (s_wants st) i c).
  Proof.
    intros Hg Hw s Hconn r1 r2 Hsize c.
    pose proof (reachable_RI n ops Hg Hw) as HR. fold s in HR.
    pose proof (g_RI s HR) as HR1. pose proof (g_quiet s HR) as Hq1. fold r1 in HR1, Hq1.
    destruct (run_both Sz Hh HSz ops (net_init n) Hg Hw (net_ok_init Sz Hh HSz n) (net_wf_init Sz n)) as [Hok Hwf]. fold s in Hok, Hwf.
    assert (Hrv : net_rv s) by (apply (net_rv_run Sz Hh HSz); [exact Hg | exact Hw | apply net_ok_init; exact HSz | apply net_rv_init]).
    destruct (connected_neq Sz Hh HSz s i j Hok Hconn) as (Hij & _).
    destruct (g_run s) as (ops1 & Hs1 & E1). subst r2 r1. rewrite E1 in *.
    destruct (sched_run_facts Sz Hh HSz ops1 s j c Hs1 Hok Hwf) as (Hok1 & Hwf1 & Hc1 & _). cbn zeta in *.
    destruct (sched_all Sz Hh _ Hs1) as [Hg1 Hw1].
    assert (Hrv1 : net_rv (fst (nrun Sz Hh s ops1))) by (apply (net_rv_run Sz Hh HSz); assumption).
    set (s1 := fst (nrun Sz Hh s ops1)) in *.
    assert (Hconn1 : Net.connected s1 i j = true) by (unfold Net.connected in *; rewrite Hc1; exact Hconn).
    split.
    - intros Hc. destruct (refresh_registers_g i j s1 Hij HR1 Hwf1 Hq1 Hconn1 Hsize c Hc) as (st & E & Hwc & _). eauto.
    - intros (st & E & Hwc). exact (refresh_sound_g i j c s1 Hij HR1 Hwf1 Hrv1 Hq1 Hconn1 Hsize st E Hwc).
  Qed.
End Generic.

(* ---------- the instance: settle with fuel Phi ---------- *)
Section PhiTheorems.
  Variables (Sz : N) (Hh : hash_fn).
  Hypothesis HSz : 32 <= Sz.

  Theorem C02_direct_phi (i j : N) (q : qid) (c : cid) n ops :
    Forall (nop_good Sz Hh) ops -> Forall (nop_wf Sz) ops ->
    let s := fst (nrun Sz Hh (net_init n) ops) in
    live_query i q c s -> Net.connected s i j = true ->
    (exists st d, store_of s j = Some st /\ store_get st c = SHit d) ->
    let r1 := settle_phi Sz Hh s in
    let r2 := refresh_phi Sz Hh (fst r1) in
    (length (wl_i i (fst r1)) <= 1024)%nat ->
    answered i q (snd r1 ++ snd r2).
  Proof.
    exact (C02_direct_g Sz Hh HSz (settle_phi Sz Hh) (settle_phi_run Sz Hh) (settle_phi_quiet Sz Hh HSz) i j q c n ops).
  Qed.

  Theorem C02_multi_hop_phi (i j k : N) (qi qj : qid) (c : cid) n ops :
    Forall (nop_good Sz Hh) ops -> Forall (nop_wf Sz) ops ->
    let s := fst (nrun Sz Hh (net_init n) ops) in
    live_query i qi c s -> live_query j qj c s ->
    Net.connected s i j = true -> Net.connected s j k = true ->
    (exists st d, store_of s k = Some st /\ store_get st c = SHit d) ->
    let r1 := settle_phi Sz Hh s in
    let r2 := refresh_phi Sz Hh (fst r1) in
    let r3 := refresh_phi Sz Hh (fst r2) in
    (length (wl_i j (fst r1)) <= 1024)%nat -> (length (wl_i i (fst r2)) <= 1024)%nat ->
    answered i qi (snd r1 ++ snd r2 ++ snd r3).
  Proof.
    exact (C02_multi_hop_g Sz Hh HSz (settle_phi Sz Hh) (settle_phi_run Sz Hh) (settle_phi_quiet Sz Hh HSz) i j k qi qj c n ops).
  Qed.

  Theorem C14_records_equal_phi (i j : N) n ops :
    Forall (nop_good Sz Hh) ops -> Forall (nop_wf Sz) ops ->
    let s := fst (nrun Sz Hh (net_init n) ops) in
    Net.connected s i j = true ->
    let r1 := settle_phi Sz Hh s in
    let r2 := refresh_phi Sz Hh (fst r1) in
    (length (wl_i i (fst r1)) <= 1024)%nat ->
    forall c, In c (wl_i i (fst r2)) <-> (exists st, server_of (fst r2) j = Some st /\ wantsP (s_wants st) i c).
  Proof.
    exact (C14_records_equal_g Sz Hh HSz (settle_phi Sz Hh) (settle_phi_run Sz Hh) (settle_phi_quiet Sz Hh HSz) (settle_phi_unfold Sz Hh HSz) i j n ops).
  Qed.
End PhiTheorems.
