(* Incoming.v — model of /repo/src/incoming_stream.rs `process_message` (lines 109-176) and of the
   "an empty message is not forwarded" rule of `IncomingStream::poll_next`.

   ClientMessage holds two FnvHashMaps; they are modelled as association lists with map semantics
   (`insert` replaces the value of an existing key); the order of an association list is meaningless
   and the harness compares them as sets. *)
From BS Require Export Bytes Cid Prefix Hasher Proto.

Record client_msg := MkClientMsg {
  cm_presences : list (cid * presence_type);
  cm_blocks : list (cid * bytes)
}.

Record incoming := MkIncoming {
  in_client : option client_msg;
  in_server : option wantlist
}.

Fixpoint assoc_insert {V} (k : cid) (v : V) (l : list (cid * V)) : list (cid * V) :=
  match l with
  | [] => [(k, v)]
  | (k', v') :: rest => if cid_eqb k' k then (k, v) :: rest else (k', v') :: assoc_insert k v rest
  end.

Inductive pm_result :=
| PmOk (m : incoming)        (* Some(incoming_msg) *)
| PmClose                    (* None: the stream is closed *)
| PmPanic.

(* block presences: an invalid CID is fatal *)
Fixpoint pm_presences (S : N) (ps : list block_presence) (acc : list (cid * presence_type))
  : option (list (cid * presence_type)) + unit :=     (* inl (Some acc) | inl None = close | inr tt = panic *)
  match ps with
  | [] => inl (Some acc)
  | p :: rest =>
      match cid_read_bytes S (bp_cid p) with
      | ROk c => pm_presences S rest (assoc_insert c (bp_type p) acc)
      | RErr => inl None
      | RPanic => inr tt
      end
  end.

(* payload: unparsable prefix is fatal; UnknownMultihashCode / Custom skip the block; any other
   hasher error is fatal *)
Fixpoint pm_payload (S : N) (H : hash_fn) (bs : list block) (acc : list (cid * bytes)) (touched : bool)
  : option (list (cid * bytes) * bool) + unit :=
  match bs with
  | [] => inl (Some (acc, touched))
  | b :: rest =>
      match prefix_from_bytes (b_prefix b) with
      | None => inl None
      | Some p =>
          match prefix_to_cid S H p (b_data b) with
          | TOk c => pm_payload S H rest (assoc_insert c (b_data b) acc) true
          | TErr UnknownMultihashCode => pm_payload S H rest acc touched
          | TErr CustomErr => pm_payload S H rest acc touched
          | TErr _ => inl None
          | TPanic => inr tt
          end
      end
  end.

Definition process_message (S : N) (H : hash_fn) (m : message) : pm_result :=
  match pm_presences S (m_presences m) [] with
  | inr _ => PmPanic
  | inl None => PmClose
  | inl (Some pres) =>
      match pm_payload S H (m_payload m) [] false with
      | inr _ => PmPanic
      | inl None => PmClose
      | inl (Some (blocks, touched)) =>
          (* `client` is created by the first presence or the first accepted block *)
          let client :=
            match m_presences m, touched with
            | [], false => None
            | _, _ => Some (MkClientMsg pres blocks)
            end in
          let server :=
            match m_wantlist m with
            | Some w => if w_full w || negb (match w_entries w with [] => true | _ => false end)
                        then Some w else None
            | None => None
            end in
          PmOk (MkIncoming client server)
      end
  end.

(* IncomingStream::poll_next forwards a processed message only if it has a client or a server part *)
Definition forwarded (m : incoming) : bool :=
  match in_client m, in_server m with None, None => false | _, _ => true end.
