(* Convert.v — model of /repo/src/utils.rs convert_multihash / convert_cid
   (Multihash::<NEW_S>::wrap(code, digest) and CidGeneric::new(version, codec, hash).ok()). *)
From BS Require Export Bytes Cid Prefix Hasher.

Definition convert_multihash (S' : N) (mh : multihash) : option multihash :=
  mh_wrap S' (mh_code mh) (mh_digest mh).

Definition convert_cid (S' : N) (c : cid) : option cid :=
  match convert_multihash S' (c_hash c) with
  | None => None
  | Some mh => match cid_new (c_ver c) (c_codec c) mh with
               | inl c' => Some c'
               | inr _ => None
               end
  end.
