(* Props_C04.v — C04: each peer's view of the wantlist converges to the live queries. lit_ghost = the ghost folds exactly as first written, ref_ghost = with the refinement of 'solicited' that wanted_again forces (a CID wanted anew after this peer delivered it leaves 'told'): the two *_refuted witnesses show the literal reading is false, the *_partial theorems are the strongest true variants; view_sound / view_complete hold at full strength.
   Statements restated verbatim from the proof files and closed by `exact`; nothing else is proved here. *)
From BS Require Import Bytes Cid Proto Types Wantlist Wantlist_proofs Wantlist_proofs2 Tie_wantlist Tie_consts.
From BS Require Import Tie_client.   (* tie lemmas: a source edit that changes what they extract breaks this file's closure *)
Open Scope N_scope.

Theorem C04_view_sound sdh h c :
  nothing_to_send (st_of sdh h) ->
  In c (g_view (lit_ghost sdh h)) -> In c (wl_cids (fst (st_of sdh h))).
Proof. exact (Wantlist_proofs2.C04_view_sound sdh h c). Qed.

Theorem C04_view_complete sdh h c :
  nothing_to_send (st_of sdh h) ->
  In c (wl_cids (fst (st_of sdh h))) ->
  In c (g_view (lit_ghost sdh h)) \/ In c (g_dont_have (lit_ghost sdh h)) \/ In c (g_delivered (lit_ghost sdh h)).
Proof. exact (Wantlist_proofs2.C04_view_complete sdh h c). Qed.

Theorem C04_full_exact_partial sdh h :
  let st := st_of sdh h in
  let es := fst (wls_generate_full (snd st) (fst st)) in
  NoDup (map snd es) /\ (forall k c, In (k, c) es -> k <> KCancel) /\
  forall c, In c (map snd es) <-> In c (wl_cids (fst st)) /\ ~ In c (g_dont_have (ref_ghost sdh h)).
Proof. exact (Wantlist_proofs2.C04_full_exact_partial sdh h). Qed.

Theorem C04_gap_closes_partial sdh h c :
  let h' := h ++ [HGenFull] in
  In c (g_view (ref_ghost sdh h')) <->
  In c (wl_cids (fst (st_of sdh h'))) /\ ~ In c (g_dont_have (ref_ghost sdh h')).
Proof. exact (Wantlist_proofs2.C04_gap_closes_partial sdh h c). Qed.

Theorem C04_rewant_announced sdh h0 c h1 h2 :
  In c (wl_cids (fst (st_of sdh h0))) ->            (* c is wanted, so the block is accepted *)
  Forall (after_block_ok c) h1 ->                    (* until c is wanted again: no DONT_HAVE c *)
  Forall (after_insert_ok c) h2 ->                   (* then, before the next wantlist: c stays wanted *)
  let st := st_of sdh (h0 ++ [HBlock c] ++ h1 ++ [HInsert c] ++ h2) in
  (exists k, k <> KCancel /\ In (k, c) (fst (wls_generate_update (snd st) (fst st)))) /\
  (exists k, k <> KCancel /\ In (k, c) (fst (wls_generate_full (snd st) (fst st)))).
Proof. exact (Wantlist_proofs2.C04_rewant_announced sdh h0 c h1 h2). Qed.

Theorem C04_full_exact_refuted :
  exists sdh h c,
    let st := st_of sdh h in
    In c (map snd (fst (wls_generate_full (snd st) (fst st)))) /\ In c (g_dont_have (lit_ghost sdh h)).
Proof. exact (Wantlist_proofs2.C04_full_exact_refuted). Qed.

Theorem C04_gap_closes_refuted :
  exists sdh h c,
    let h' := h ++ [HGenFull] in
    In c (g_view (lit_ghost sdh h')) /\ In c (g_dont_have (lit_ghost sdh h')).
Proof. exact (Wantlist_proofs2.C04_gap_closes_refuted). Qed.

Print Assumptions C04_view_sound.
Print Assumptions C04_view_complete.
Print Assumptions C04_full_exact_partial.
Print Assumptions C04_gap_closes_partial.
Print Assumptions C04_rewant_announced.
Print Assumptions C04_full_exact_refuted.
Print Assumptions C04_gap_closes_refuted.
