(* Props_C04.v — C04: each peer's view of the wantlist converges to the live queries. lit_ghost = the ghost folds exactly as first written, ref_ghost = with the refinement of 'solicited' that wanted_again forces (a CID wanted anew after this peer delivered it leaves 'told'): the two *_refuted witnesses show the literal reading is false, the *_partial theorems are the strongest true variants; view_sound / view_complete hold at full strength.
   Statements restated verbatim from the proof files and closed by `exact`; nothing else is proved here. *)
From BS Require Import Bytes Cid Proto Types Wantlist Wantlist_proofs Wantlist_proofs2 Tie_wantlist Tie_consts.
From BS Require Import Tie_client.   (* tie lemmas: a source edit that changes what they extract breaks this file's closure *)
Open Scope N_scope.

Theorem C04_view_sound sdh h c :
  nothing_to_send (st_of sdh h) ->
  In c (g_view (lit_ghost sdh h)) -> In c (wl_cids (fst (st_of sdh h))).
Proof. exact (Wantlist_proofs2.C04_view_sound sdh h c). Qed.

Theorem C04_view_complete sdh h c :
  nothing_to_send (st_of sdh h) ->
  In c (wl_cids (fst (st_of sdh h))) ->
  In c (g_view (lit_ghost sdh h)) \/ In c (g_dont_have (lit_ghost sdh h)) \/ In c (g_delivered (lit_ghost sdh h)).
Proof. exact (Wantlist_proofs2.C04_view_complete sdh h c). Qed.

Theorem C04_full_exact_partial sdh h :
  let st := st_of sdh h in
  let es := fst (wls_generate_full (snd st) (fst st)) in
  NoDup (map snd es) /\ (forall k c, In (k, c) es -> k <> KCancel) /\
  forall c, In c (map snd es) <-> In c (wl_cids (fst st)) /\ ~ In c (g_dont_have (ref_ghost sdh h)).
Proof. exact (Wantlist_proofs2.C04_full_exact_partial sdh h). Qed.

Theorem C04_gap_closes_partial sdh h c :
  let h' := h ++ [HGenFull] in
  In c (g_view (ref_ghost sdh h')) <->
  In c (wl_cids (fst (st_of sdh h'))) /\ ~ In c (g_dont_have (ref_ghost sdh h')).
Proof. exact (Wantlist_proofs2.C04_gap_closes_partial sdh h c). Qed.

Theorem C04_rewant_announced sdh h0 c h1 h2 :
  In c (wl_cids (fst (st_of sdh h0))) ->            (* c is wanted, so the block is accepted *)
  Forall (after_block_ok c) h1 ->                    (* until c is wanted again: no DONT_HAVE c *)
  Forall (after_insert_ok c) h2 ->                   (* then, before the next wantlist: c stays wanted *)
  let st := st_of sdh (h0 ++ [HBlock c] ++ h1 ++ [HInsert c] ++ h2) in
  (exists k, k <> KCancel /\ In (k, c) (fst (wls_generate_update (snd st) (fst st)))) /\
  (exists k, k <> KCancel /\ In (k, c) (fst (wls_generate_full (snd st) (fst st)))).
Proof. exact (Wantlist_proofs2.C04_rewant_announced sdh h0 c h1 h2). Qed.

Theorem C04_full_exact_refuted :
  exists sdh h c,
    let st := st_of sdh h in
    In c (map snd (fst (wls_generate_full (snd st) (fst st)))) /\ In c (g_dont_have (lit_ghost sdh h)).
Proof. exact (Wantlist_proofs2.C04_full_exact_refuted). Qed.

Theorem C04_gap_closes_refuted :
  exists sdh h c,
    let h' := h ++ [HGenFull] in
    In c (g_view (lit_ghost sdh h')) /\ In c (g_dont_have (lit_ghost sdh h')).
Proof. exact (Wantlist_proofs2.C04_gap_closes_refuted). Qed.

Print Assumptions C04_view_sound.
Print Assumptions C04_view_complete.
Print Assumptions C04_full_exact_partial.
Print Assumptions C04_gap_closes_partial.
Print Assumptions C04_rewant_announced.
Print Assumptions C04_full_exact_refuted.
Print Assumptions C04_gap_closes_refuted.

(* ---- lifted (package K): every peer entry of Client.v — and of every node of a reachable net — is a state of the Wantlist.v
   history model, so the view theorems above apply to it literally. *)
From BS Require Import Types Wantlist Wantlist_proofs2 Client Client_proofs Client_proofs4 Net Net_proofs Net_proofs6 Net_props Net_proofs2 Net_proofs5 Net_proofs21 Net_proofs40 Net_proofs41 Net_proofs42 Net_proofs43 Net_proofs44 Net_proofs45 Net_proofs46 Net_proofs47 Server Net_props4.
From Coq Require Import ZArith Lia.
Open Scope N_scope.

Theorem client_state_is_history :
  forall (sdh : bool) (ops : list cop) (p : peer) (ps : peer_state),
  In (p, ps) (cs_peers (st_after sdh ops)) ->
  exists h : list hev,
    st_of sdh h = (cs_wl (st_after sdh ops), p_wl ps) /\
    haves_ok (fun (c : cid) (b : bool) => got_pres p c b ops) h.
Proof. exact (@Net_props4.client_state_is_history). Qed.

Theorem C04_net_view_sound :
  forall (Sz : N) (Hh : hash_fn) (n : nat) (ops : list nop) (i : N) (j : peer) (ni : node) (ps : peer_state),
  get_node (fst (nrun Sz Hh (net_init n) ops)) i = Some ni ->
  In (j, ps) (cs_peers (n_client ni)) ->
  nothing_to_send (cs_wl (n_client ni), p_wl ps) ->
  exists h : list hev,
    st_of true h = (cs_wl (n_client ni), p_wl ps) /\
    pres_free h /\ (forall c : cid, In c (g_view (lit_ghost true h)) -> In c (wl_cids (cs_wl (n_client ni)))).
Proof. exact (@Net_props4.C04_net_view_sound). Qed.

Theorem C04_net_view_complete :
  forall (Sz : N) (Hh : hash_fn) (n : nat) (ops : list nop) (i : N) (j : peer) (ni : node) (ps : peer_state),
  get_node (fst (nrun Sz Hh (net_init n) ops)) i = Some ni ->
  In (j, ps) (cs_peers (n_client ni)) ->
  nothing_to_send (cs_wl (n_client ni), p_wl ps) ->
  exists h : list hev,
    st_of true h = (cs_wl (n_client ni), p_wl ps) /\
    pres_free h /\
    (forall c : cid,
     In c (wl_cids (cs_wl (n_client ni))) ->
     In c (g_view (lit_ghost true h)) \/ In c (g_delivered (lit_ghost true h))).
Proof. exact (@Net_props4.C04_net_view_complete). Qed.

Print Assumptions client_state_is_history.
Print Assumptions C04_net_view_sound.
Print Assumptions C04_net_view_complete.
