(* NetF_proofs11.v — package P, part 11: WINDOWED runs.  A run is windowed (`wshape fops ops`) when every fault `FFailW i j d` is
   followed by steps of Net.v that are neither a poll of the sender i, nor a delivery from i to j, nor a connect / disconnect
   of the pair (`win i j`, NetF_proofs9), and then by the close of the connection (`NDisconnect i j` or `FReconnect i j`).
   Such a run is a run of Net.v (`windowed_run`): the failed wantlist is delivered (d = true) or stays in flight until the
   connection is closed (d = false).  Hence `RI`, `settle_terminates`, C14_records_equal and C02_direct for every net reachable
   by a windowed run.  (The episodic runs of NetF_proofs2 are the windowed runs with empty windows.) *)
From BS Require Import Server_lemmas Server_inv Wantlist_proofs Client_proofs Client_proofs2 Client_proofs3 Client_proofs4
  Net Net_proofs2 Net_proofs3 Net_proofs4 Net_proofs5 Net_proofs6 Net_proofs7 Net_proofs9 Net_proofs10 Net_proofs24 Net_proofs28
  Net_proofs32 Net_proofs35 Net_proofs36
  NetF NetF_proofs NetF_proofs2 NetF_proofs3 NetF_proofs4 NetF_proofs5 NetF_proofs9 NetF_proofs10.
From Coq Require Import ZArith ZifyBool ZifyN ZifyNat Lia.
Open Scope N_scope.

Definition closer_f (i j : N) (c : bool) : fop := if c then FReconnect i j else FOp (NDisconnect i j).
Definition closer_n (i j : N) (c : bool) : list nop := if c then [NDisconnect i j; NConnect i j] else [NDisconnect i j].

Inductive wshape : list fop -> list nop -> Prop :=
| ws_nil : wshape [] []
| ws_op o r l : wshape r l -> wshape (FOp o :: r) (o :: l)
| ws_rec a b r l : wshape r l -> wshape (FReconnect a b :: r) (NDisconnect a b :: NConnect a b :: l)
| ws_fault i j d W c r l :
    Forall (win i j) W -> wshape r l ->
    wshape (FFailW i j d :: map FOp W ++ closer_f i j c :: r)
           ((if d then [NDeliverW i j] else []) ++ W ++ closer_n i j c ++ l).

Section Windowed.
  Variables (Sz : N) (Hh : hash_fn).
  Hypothesis HSz : 32 <= Sz.
  Local Notation inv := (inv Sz Hh).

  Lemma inv_run ops : Forall (nop_good Sz Hh) ops -> forall s, inv s -> inv (fst (nrun Sz Hh s ops)).
  Proof.
    induction 1 as [|o ops Ho _ IH]; intros s Hs; [exact Hs|]. rewrite (nrun_cons Sz Hh). cbn [fst]. apply IH, (inv_step Sz Hh HSz); assumption.
  Qed.

  Lemma closer_good i j c : Forall (nop_good Sz Hh) (closer_n i j c).
  Proof. destruct c; repeat constructor. Qed.

  Theorem windowed_run_from fops ops : wshape fops ops -> Forall (nop_good Sz Hh) ops -> forall s, inv s ->
    frun Sz Hh s fops = nrun Sz Hh s ops.
  Proof.
    induction 1 as [|o r l _ IH|a b r l _ IH|i j d W c r l HW _ IH]; intros Hg s Hinv.
    - reflexivity.
    - inversion Hg as [|? ? Hg1 Hg2]; subst. rewrite frun_cons, (nrun_cons Sz Hh). cbn [fstep].
      rewrite (IH Hg2 _ (inv_step Sz Hh HSz s o Hg1 Hinv)). reflexivity.
    - inversion Hg as [|? ? _ Hg1]; subst. inversion Hg1 as [|? ? _ Hg2]; subst.
      rewrite frun_cons, !(nrun_cons Sz Hh). cbn [fstep nstep fst snd]. unfold do_reconnect.
      set (sD := do_connect Sz (do_disconnect Sz s a b) a b).
      assert (HinvD : inv sD) by (apply (inv_step Sz Hh HSz _ (NConnect a b) I), (inv_step Sz Hh HSz _ (NDisconnect a b) I), Hinv).
      rewrite (IH Hg2 sD HinvD). reflexivity.
    - (* a fault, its window, the close *)
      apply Forall_app in Hg. destruct Hg as [Hgd Hg]. apply Forall_app in Hg. destruct Hg as [HgW Hg]. apply Forall_app in Hg. destruct Hg as [_ Hgl].
      set (seg := (if d then [NDeliverW i j] else []) ++ W ++ closer_n i j c).
      assert (Hseg : Forall (nop_good Sz Hh) seg) by (unfold seg; repeat (apply Forall_app; split); [exact Hgd | exact HgW | apply closer_good]).
      assert (E : frun Sz Hh s (FFailW i j d :: map FOp W ++ [closer_f i j c]) = nrun Sz Hh s seg).
      { destruct Hinv as [Hok Hwc]. unfold seg, closer_f, closer_n. destruct d.
        - apply (windowed_true_run Sz Hh HSz i j s W c Hok Hwc HW HgW).
        - apply (windowed_false_run Sz Hh HSz i j s W c Hok Hwc HW HgW). }
      replace (FFailW i j d :: map FOp W ++ closer_f i j c :: r) with ((FFailW i j d :: map FOp W ++ [closer_f i j c]) ++ r)
        by (cbn [app]; rewrite <- app_assoc; reflexivity).
      replace ((if d then [NDeliverW i j] else []) ++ W ++ closer_n i j c ++ l) with (seg ++ l)
        by (unfold seg; rewrite <- !app_assoc; reflexivity).
      rewrite frun_app, (nrun_app Sz Hh), E. rewrite (IH Hgl _ (inv_run seg Hseg s Hinv)). reflexivity.
  Qed.

  Theorem windowed_run n fops ops :
    wshape fops ops -> Forall (nop_good Sz Hh) ops -> frun Sz Hh (net_init n) fops = nrun Sz Hh (net_init n) ops.
  Proof. intros Hs Hg. apply (windowed_run_from fops ops Hs Hg), (inv_init Sz Hh HSz). Qed.

  (* an episodic run is a windowed run *)
  Theorem erase_wshape : forall k fops, (length fops <= k)%nat -> forall ops, erase fops = Some ops -> wshape fops ops.
  Proof.
    induction k as [|k IH]; intros fops Hlen ops He.
    { destruct fops; [|cbn in Hlen; lia]. cbn in He. injection He as <-. constructor. }
    destruct fops as [|x r]; [cbn in He; injection He as <-; constructor|]. cbn [length] in Hlen.
    destruct x as [o|i j d|i j]; cbn [erase] in He.
    - destruct (erase r) as [l|] eqn:Er; [|discriminate]. cbn in He. injection He as <-. constructor. apply (IH r ltac:(lia) l Er).
    - destruct r as [|x r']; [discriminate|]. destruct (closes i j x) eqn:Ecl; [|discriminate].
      destruct (erase (x :: r')) as [l0|] eqn:Er; [|discriminate]. cbn in He. injection He as <-.
      destruct (closes_inv i j x Ecl) as [->| ->]; cbn [erase] in Er; destruct (erase r') as [l1|] eqn:Er'; try discriminate; cbn in Er; injection Er as <-.
      + apply (ws_fault i j d [] true r' l1 (Forall_nil _)). apply (IH r' ltac:(cbn [length] in Hlen; lia) l1 Er').
      + apply (ws_fault i j d [] false r' l1 (Forall_nil _)). apply (IH r' ltac:(cbn [length] in Hlen; lia) l1 Er').
    - destruct (erase r) as [l|] eqn:Er; [|discriminate]. cbn in He. injection He as <-. constructor. apply (IH r ltac:(lia) l Er).
  Qed.

  (* ---------- what it buys ---------- *)
  Theorem reachableF_RI_windowed n fops ops :
    wshape fops ops -> Forall (nop_good Sz Hh) ops -> Forall (nop_wf Sz) ops ->
    RI Sz Hh (fst (frun Sz Hh (net_init n) fops)).
  Proof. intros Hs Hg Hw. rewrite (windowed_run n fops ops Hs Hg). apply reachable_RI; assumption. Qed.

  Theorem settle_terminates_F_windowed n fops ops :
    wshape fops ops -> Forall (nop_good Sz Hh) ops -> Forall (nop_wf Sz) ops ->
    quietb (fst (settle Sz Hh (fst (frun Sz Hh (net_init n) fops)))) = true.
  Proof. intros Hs Hg Hw. apply (settle_terminates_RI Sz Hh HSz), (reachableF_RI_windowed n fops ops); assumption. Qed.

  Theorem C05_net_records_equal_windowed (i j : N) n fops ops :
    wshape fops ops -> Forall (nop_good Sz Hh) ops -> Forall (nop_wf Sz) ops ->
    let s := fst (frun Sz Hh (net_init n) fops) in
    Net.connected s i j = true ->
    let r1 := settle Sz Hh s in
    let r2 := refresh Sz Hh (fst r1) in
    (length (wl_i i (fst r1)) <= 1024)%nat ->
    forall c, In c (wl_i i (fst r2)) <-> (exists st, server_of (fst r2) j = Some st /\ wantsP (s_wants st) i c).
  Proof.
    intros Hs Hg Hw. rewrite (windowed_run n fops ops Hs Hg). exact (C14_records_equal_unconditional Sz Hh HSz i j n ops Hg Hw).
  Qed.

  Theorem C05_net_query_answered_windowed (i j : N) (q : qid) (c : cid) n fops ops :
    wshape fops ops -> Forall (nop_good Sz Hh) ops -> Forall (nop_wf Sz) ops ->
    let s := fst (frun Sz Hh (net_init n) fops) in
    live_query i q c s -> Net.connected s i j = true ->
    (exists st d, store_of s j = Some st /\ store_get st c = SHit d) ->
    let r1 := settle Sz Hh s in
    let r2 := refresh Sz Hh (fst r1) in
    (length (wl_i i (fst r1)) <= 1024)%nat ->
    answered i q (snd r1 ++ snd r2).
  Proof.
    intros Hs Hg Hw. rewrite (windowed_run n fops ops Hs Hg). exact (C02_direct_unconditional Sz Hh HSz i j q c n ops Hg Hw).
  Qed.
End Windowed.
