(* Net_proofs8.v — package F: the server half on the way from a delivered wantlist to a dispatched block. *)
From BS Require Import Server_lemmas Server_inv Server_proofs Server_live Net Net_proofs2 Net_proofs4.
From Coq Require Import ZArith ZifyBool ZifyN ZifyNat Lia.
Open Scope N_scope.

Local Notation MAXW := MAX_WANTLIST_ENTRIES_PER_PEER.

(* ---------- what a generated wantlist parses to ---------- *)
Section Parse.
  Variable Sz : N.
  Hypothesis HSz : 32 <= Sz.

  Lemma entry_cids_len cancel es : (length (entry_cids Sz cancel es) <= length es)%nat.
  Proof.
    induction es as [|e es IH]; cbn [entry_cids length]; [lia|].
    destruct (Bool.eqb (e_cancel e) cancel); [|lia]. destruct (cid_read_bytes Sz (e_block e)); cbn [length]; lia.
  Qed.

  Lemma entry_cids_want sdh es c :
    wf_cid Sz c -> In (KWantHave, c) es -> In c (entry_cids Sz false (map (entry_of sdh) es)).
  Proof.
    intros Hwf. induction es as [|[k x] es IH]; [intros []|]. cbn [map entry_cids]. intros [Heq|Hin].
    - injection Heq as -> ->. cbn [entry_of fst snd new_want_have_entry e_cancel e_block Bool.eqb].
      rewrite (cid_read_write0 Sz c HSz Hwf). left. reflexivity.
    - specialize (IH Hin). destruct (Bool.eqb (e_cancel (entry_of sdh (k, x))) false); [|exact IH].
      destruct (cid_read_bytes Sz (e_block (entry_of sdh (k, x)))); [right|..]; exact IH.
  Qed.

  Lemma entry_cids_cancel sdh es c :
    (forall k x, In (k, x) es -> wf_cid Sz x) -> In c (entry_cids Sz true (map (entry_of sdh) es)) -> In (KCancel, c) es.
  Proof.
    induction es as [|[k x] es IH]; intros Hwf; [intros []|]. cbn [map entry_cids].
    assert (Hx : wf_cid Sz x) by (eapply Hwf; left; reflexivity).
    assert (IH' := IH (fun k0 x0 H => Hwf k0 x0 (or_intror H))).
    destruct k; cbn [entry_of fst snd new_want_have_entry new_want_block_entry new_cancel_entry e_cancel e_block Bool.eqb].
    - intros H. right. apply IH', H.
    - intros H. right. apply IH', H.
    - rewrite (cid_read_write0 Sz x HSz Hx). intros [<-|H]; [left; reflexivity | right; apply IH', H].
  Qed.

  Lemma add_capped_keeps l : forall s c, In c s -> In c (add_capped l s).
  Proof.
    induction l as [|x l IH]; intros s c H; cbn [add_capped]; [exact H|].
    destruct (MAXW <=? len s); [exact H|]. apply IH, cadd_In. right. exact H.
  Qed.

  Lemma add_capped_adds l : forall s c, In c l -> len s + len l <= MAXW -> In c (add_capped l s).
  Proof.
    induction l as [|x l IH]; intros s c Hin Hlen; [destruct Hin|]. cbn [add_capped]. rewrite len_cons in Hlen.
    destruct (MAXW <=? len s) eqn:E; [lia|]. destruct Hin as [<-|Hin].
    - apply add_capped_keeps, cadd_In. left. reflexivity.
    - apply IH; [exact Hin|]. pose proof (cadd_len x s). lia.
  Qed.
End Parse.

(* ---------- pending lookups ---------- *)
Definition lk (c : cid) (t : Server.task) : Prop := In c (Server.t_todo t) \/ exists d, In (c, SHit d) (Server.t_done t).

Definition pend (c : cid) (st : sstate) : Prop :=
  In c (map fst (s_outq st)) \/ (exists t, In t (s_ready st) /\ lk c t) \/
  (exists k c' t, In (k, (c', t)) (s_blocked st) /\ (c' = c \/ lk c t)).

Lemma pend_frame c st st' :
  pend c st ->
  (forall x, In x (s_outq st) -> In x (s_outq st')) ->
  (forall t, In t (s_ready st) -> In t (s_ready st')) ->
  (forall x, In x (s_blocked st) -> In x (s_blocked st')) ->
  pend c st'.
Proof.
  intros [H|[(t & H & Hd)|(k & c' & t & H & Hd)]] H1 H2 H3.
  - left. apply in_map_iff in H. destruct H as (x & <- & Hx). apply in_map, H1, Hx.
  - right. left. exists t. auto.
  - right. right. exists k, c', t. auto.
Qed.

Lemma quiescent_no_pend c st : s_ready st = [] -> s_blocked st = [] -> s_outq st = [] -> ~ pend c st.
Proof.
  intros H1 H2 H3 [H|[(t & H & _)|(k & c' & t & H & _)]].
  - rewrite H3 in H. destruct H.
  - rewrite H1 in H. destruct H.
  - rewrite H2 in H. destruct H.
Qed.

Section Steps.
  Variable Sz : N.
  Hypothesis HSz : 32 <= Sz.

  (* steps that only add work *)
  Lemma pend_other st op c :
    match op with SRelease _ _ | SPoll => False | _ => True end ->
    pend c st -> pend c (fst (sstep_l Sz st op)).
  Proof.
    intros Ho Hp. unfold sstep_l. destruct (s_panic st); [exact Hp|].
    destruct op as [q|q w order|bl|q|k r|]; cbn [fst]; try contradiction.
    - apply (pend_frame c st); auto; unfold new_connection; destruct (alookup N.eqb q (s_wants st)); auto.
    - apply (pend_frame c st); auto; unfold process_incoming_message;
        destruct (alookup N.eqb q (s_wants st)) as [old|]; auto; destruct (process_wantlist Sz old w); auto.
      cbn [s_ready]. intros t Ht. apply in_app_iff. auto.
    - apply (pend_frame c st); auto. cbn [new_blocks_available s_outq]. intros x Hx. apply in_app_iff. auto.
    - apply (pend_frame c st); auto; unfold peer_disconnected; destruct (alookup N.eqb q (s_wants st)); auto.
  Qed.

  (* a completed store call *)
  Lemma pend_release st k r c :
    BK st -> pend c st ->
    (forall t, In (k, (c, t)) (s_blocked st) -> exists d, r = SHit d) ->
    pend c (release st k r).
  Proof.
    intros HB Hp Hr. unfold release. destruct (alookup N.eqb k (s_blocked st)) as [[c0 t0]|] eqn:E; [|exact Hp].
    pose proof (alookup_Some_In N.eqb Neqb_spec _ _ _ E) as Hin0.
    destruct Hp as [H|[(t & H & Hd)|(k' & c' & t & H & Hd)]].
    - left. exact H.
    - right. left. exists t. cbn [s_ready]. split; [apply in_app_iff; auto | exact Hd].
    - destruct (N.eq_dec k' k) as [->|Hne].
      + assert (Heq : (c', t) = (c0, t0)).
        { apply (In_alookup N.eqb Neqb_spec) in H; [|apply HB]. congruence. }
        injection Heq as -> ->. right. left. eexists. cbn [s_ready]. split; [apply in_app_iff; right; left; reflexivity|].
        destruct Hd as [->|[Ht|(d & Hd)]].
        * destruct (Hr _ Hin0) as (d & ->). right. exists d. cbn [Server.t_done]. apply in_app_iff. right. left. reflexivity.
        * left. exact Ht.
        * right. exists d. cbn [Server.t_done]. apply in_app_iff. left. exact Hd.
      + right. right. exists k', c', t. cbn [s_blocked]. split; [|exact Hd].
        unfold adel. apply filter_In. split; [exact H|]. cbn [fst]. apply negb_true_iff. lia.
  Qed.

  (* a poll: the lookup goes on, or the block is dispatched to everybody who wants it *)
  Lemma pend_poll st p c :
    Server_inv.Inv st -> pend c st -> wantsP (s_wants st) p c ->
    (wantsP (s_wants (fst (Server.do_poll st))) p c /\ pend c (fst (Server.do_poll st))) \/
    (exists bl, In (LSend p bl) (snd (Server.do_poll st)) /\ In c (map fst bl)).
  Proof.
    intros HI Hp Hw. destruct (do_poll_spec st HI) as (st1 & out1 & wants' & wt' & bat & Hf & Hdp & HU & _).
    rewrite Hdp. cbn [fst snd s_wants].
    assert (Hcase : In c (map fst (s_outq st ++ finished_hits (s_ready st))) \/
                    exists k c' t, In (k, (c', t)) (s_blocked st1) /\ (c' = c \/ lk c t)).
    { destruct Hp as [H|[(t & H & Hd)|(k' & c' & t & H & Hd)]].
      - left. rewrite map_app, in_app_iff. auto.
      - destruct (Server.t_todo t) as [|cn rest] eqn:Et.
        + left. rewrite map_app, in_app_iff. right. destruct Hd as [Ht|(d & Hd)]; [rewrite Et in Ht; destruct Ht|].
          apply in_map_iff. exists (c, d). split; [reflexivity|].
          unfold finished_hits. apply in_flat_map. exists t. split; [exact H|]. rewrite Et. apply hits_In. exact Hd.
        + right. destruct (fold_run_task_blocked_new (s_ready st) (poll_start st) [] t cn rest H Et) as (k & Hk).
          rewrite Hf in Hk. cbn [fst] in Hk. eexists k, cn, _. split; [exact Hk|].
          destruct Hd as [Ht|(d & Hd)].
          * rewrite Et in Ht. destruct Ht as [->|Ht]; [left; reflexivity | right; left; exact Ht].
          * right. right. exists d. exact Hd.
      - right. exists k', c', t. split; [|exact Hd].
        pose proof (fold_run_task_blocked_old (s_ready st) (poll_start st) [] _ H) as Hb. rewrite Hf in Hb. exact Hb. }
    destruct (In_cid_dec c (map fst (s_outq st ++ finished_hits (s_ready st)))) as [Hq|Hnq].
    - right. exists (bget p bat).
      assert (Hnw : ~ wantsP wants' p c) by (intros Hx; apply (uh_all _ _ _ HU) in Hx; tauto).
      destruct Hw as (s0 & Hs0 & Hc0). pose proof (uh_wants _ _ _ HU p) as Hlook. cbn [fst snd] in Hlook. rewrite Hs0 in Hlook.
      cbn [option_map] in Hlook.
      assert (Hcb : In c (map fst (bget p bat))).
      { destruct (In_cid_dec c (map fst (bget p bat))) as [H|H]; [exact H|]. exfalso. apply Hnw.
        exists (rm_blocks (bget p bat) s0). split; [exact Hlook|]. apply rm_blocks_In. split; assumption. }
      split; [|exact Hcb]. apply in_app_iff. right. apply in_map_iff.
      unfold bget in *. destruct (alookup N.eqb p bat) as [l|] eqn:El; [|destruct Hcb].
      exists (p, l). split; [reflexivity|]. apply (alookup_Some_In N.eqb Neqb_spec). exact El.
    - left. split.
      + apply (uh_all _ _ _ HU). split; assumption.
      + destruct Hcase as [Hq|(k & c' & t & Hb & Hd)]; [contradiction|]. right. right. exists k, c', t. auto.
  Qed.

  (* the same without a pending lookup: a want stays registered, or the block is dispatched *)
  Lemma wants_poll st p c :
    Server_inv.Inv st -> wantsP (s_wants st) p c ->
    wantsP (s_wants (fst (Server.do_poll st))) p c \/
    (exists bl, In (LSend p bl) (snd (Server.do_poll st)) /\ In c (map fst bl)).
  Proof.
    intros HI Hw. destruct (do_poll_spec st HI) as (st1 & out1 & wants' & wt' & bat & Hf & Hdp & HU & _).
    rewrite Hdp. cbn [fst snd s_wants].
    destruct (In_cid_dec c (map fst (s_outq st ++ finished_hits (s_ready st)))) as [Hq|Hnq].
    - right. exists (bget p bat).
      assert (Hnw : ~ wantsP wants' p c) by (intros Hx; apply (uh_all _ _ _ HU) in Hx; tauto).
      destruct Hw as (s0 & Hs0 & Hc0). pose proof (uh_wants _ _ _ HU p) as Hlook. cbn [fst snd] in Hlook. rewrite Hs0 in Hlook.
      cbn [option_map] in Hlook.
      assert (Hcb : In c (map fst (bget p bat))).
      { destruct (In_cid_dec c (map fst (bget p bat))) as [H|H]; [exact H|]. exfalso. apply Hnw.
        exists (rm_blocks (bget p bat) s0). split; [exact Hlook|]. apply rm_blocks_In. split; assumption. }
      split; [|exact Hcb]. apply in_app_iff. right. apply in_map_iff.
      unfold bget in *. destruct (alookup N.eqb p bat) as [l|] eqn:El; [|destruct Hcb].
      exists (p, l). split; [reflexivity|]. apply (alookup_Some_In N.eqb Neqb_spec). exact El.
    - left. apply (uh_all _ _ _ HU). split; assumption.
  Qed.

  (* wants of p survive the steps that are not p's *)
  Lemma wants_other st op p c :
    s_panic st = false ->
    match op with
    | SMsg q _ _ => q <> p
    | SDisconnected q => q <> p
    | SPoll => False
    | _ => True
    end ->
    wantsP (s_wants st) p c -> wantsP (s_wants (fst (sstep_l Sz st op))) p c.
  Proof.
    intros Hp Ho Hw. unfold sstep_l. rewrite Hp. destruct op as [q|q w order|bl|q|k r|]; cbn [fst]; try contradiction.
    - unfold new_connection. destruct (alookup N.eqb q (s_wants st)) eqn:E; [exact Hw|]. cbn [s_wants].
      destruct Hw as (s0 & Hs0 & Hc). exists s0. split; [|exact Hc]. rewrite alookup_app, Hs0. reflexivity.
    - unfold process_incoming_message. destruct (alookup N.eqb q (s_wants st)) as [old|]; [|exact Hw].
      destruct (process_wantlist Sz old w); [exact Hw|]. cbn [s_wants].
      destruct Hw as (s0 & Hs0 & Hc). exists s0. split; [|exact Hc]. rewrite (alookup_aset_neq N.eqb Neqb_spec) by congruence. exact Hs0.
    - exact Hw.
    - unfold peer_disconnected. destruct (alookup N.eqb q (s_wants st)); [|exact Hw]. cbn [s_wants].
      destruct Hw as (s0 & Hs0 & Hc). exists s0. split; [|exact Hc]. rewrite (alookup_adel_neq N.eqb Neqb_spec) by congruence. exact Hs0.
    - destruct (release_frame st k r) as [-> _]. exact Hw.
  Qed.

  (* the full wantlist of p *)
  Lemma full_msg st p sdh es c :
    Server_inv.Inv st -> s_panic st = false -> alookup N.eqb p (s_wants st) <> None ->
    wf_cid Sz c -> In (KWantHave, c) es -> (length es <= 1024)%nat ->
    let w := proto_of sdh true es in
    let order := match full_collect Sz (w_entries w) [] with Some l => l | None => [] end in
    let st' := fst (sstep_l Sz st (SMsg p w order)) in
    wantsP (s_wants st') p c /\ exists t, In t (s_ready st') /\ In c (Server.t_todo t).
  Proof.
    intros (HW & _ & _) Hp Hent Hwf Hin Hlen w order st'. unfold st', sstep_l. rewrite Hp. cbn [fst].
    unfold process_incoming_message. destruct (alookup N.eqb p (s_wants st)) as [old|] eqn:Eo; [|contradiction].
    destruct (proj2 HW _ _ Eo) as [Hnd Hlo].
    destruct (process_wantlist Sz old w) as [|new adds rems] eqn:Epw; [exfalso; eapply process_wantlist_no_panic; eassumption|].
    destruct (process_wantlist_spec Sz old w new adds rems Hnd Hlo Epw) as [_ Hnew].
    assert (Hc : In c new).
    { rewrite Hnew. unfold view_msg. cbn [w proto_of w_full w_entries]. apply (add_capped_adds Sz HSz).
      - apply entry_cids_want; assumption.
      - rewrite len_nil. pose proof (entry_cids_len Sz HSz false (map (entry_of sdh) es)) as Hl. rewrite map_length in Hl.
        unfold len, gen_entry in *. change MAX_WANTLIST_ENTRIES_PER_PEER with 1024. lia. }
    cbn [w_full w proto_of s_wants s_ready]. split.
    - exists new. split; [apply (alookup_aset_eq N.eqb Neqb_spec) | exact Hc].
    - eexists. split; [apply in_app_iff; right; left; reflexivity|]. cbn [Server.t_todo].
      destruct (perm_ok order new) eqn:Eok; [apply (perm_ok_In _ _ Eok), Hc | exact Hc].
  Qed.

  (* an update of p that does not cancel c *)
  Lemma update_msg st p sdh es order c :
    Server_inv.Inv st -> s_panic st = false ->
    (forall k x, In (k, x) es -> wf_cid Sz x) -> ~ In (KCancel, c) es ->
    wantsP (s_wants st) p c ->
    wantsP (s_wants (fst (sstep_l Sz st (SMsg p (proto_of sdh false es) order)))) p c.
  Proof.
    intros (HW & _ & _) Hp Hwf Hnc (old & Eo & Hc). unfold sstep_l. rewrite Hp. cbn [fst].
    unfold process_incoming_message. rewrite Eo. destruct (proj2 HW _ _ Eo) as [Hnd Hlo].
    destruct (process_wantlist Sz old (proto_of sdh false es)) as [|new adds rems] eqn:Epw;
      [exfalso; eapply process_wantlist_no_panic; eassumption|].
    destruct (process_wantlist_spec Sz old _ new adds rems Hnd Hlo Epw) as [_ Hnew]. cbn [s_wants].
    exists new. split; [apply (alookup_aset_eq N.eqb Neqb_spec)|]. rewrite Hnew. unfold view_msg. cbn [proto_of w_full w_entries].
    apply add_capped_keeps. apply fold_cremove_In. split; [exact Hc|]. intros Hx. apply Hnc. eapply entry_cids_cancel; eassumption.
  Qed.
End Steps.
