(* Corr_codec.v — engine `codec`: Codec::{encode, decode} (message.rs) against Codec.v, and the oracles
   of C08 (no panic / hang), C09 (limit), C10 (round trip, exact consumption), C11 (schema conformance
   against the reference decoder RefProto.ref_decode) evaluated on the implementation's outputs. *)
From BS Require Export Bytes Varint Proto Qp ProtoCodec RefProto Frame Framed Codec.
Open Scope N_scope.

Inductive dres := DrItem (m : message) (rest_len : N) | DrNeedMore | DrErr | DrPanic | DrHang.

Inductive cin :=
| CEncode (chk : bool) (m : message)                 (* encode m, then decode the produced bytes *)
| CDecode (chk : bool) (buf : bytes)                 (* decode an arbitrary buffer *)
| CDecodeOf (chk : bool) (m : message) (buf : bytes) (* buf = length prefix ++ a valid, possibly non-canonical, encoding of m made by the harness's own encoder *)
| CPrefixes (chk : bool) (m : message).              (* decode every proper prefix of encode m *)

Inductive cout :=
| CoEnc (bs : bytes) (back : dres)
| CoEncPanic
| CoDec (r : dres)
| CoPrefixes (bad : list N).      (* lengths of the proper prefixes whose decode was not NeedMore *)

Definition dres_of (d : decode_result message) : dres :=
  match d with
  | DItem m rest => DrItem m (len rest)
  | DNeedMore => DrNeedMore
  | DErr => DrErr
  | DPanic => DrPanic
  | DLoop => DrHang
  end.

Definition dres_eqb (a b : dres) : bool :=
  match a, b with
  | DrItem m1 r1, DrItem m2 r2 => message_eqb m1 m2 && (r1 =? r2)
  | DrNeedMore, DrNeedMore | DrErr, DrErr | DrPanic, DrPanic | DrHang, DrHang => true
  | _, _ => false
  end.

Fixpoint bad_prefixes (chk : bool) (fuel : nat) (pre : bytes) (rest : bytes) : list N :=
  match fuel, rest with
  | S f, b :: rest' =>
      (match codec_decode chk pre with DNeedMore => [] | _ => [len pre] end)
      ++ bad_prefixes chk f (pre ++ [b]) rest'
  | _, _ => []
  end.

Definition model (x : cin) : cout :=
  match x with
  | CEncode chk m => let bs := codec_encode m in CoEnc bs (dres_of (codec_decode chk bs))
  | CDecode chk buf => CoDec (dres_of (codec_decode chk buf))
  | CDecodeOf chk m buf => CoDec (dres_of (codec_decode chk buf))
  | CPrefixes chk m => let bs := codec_encode m in CoPrefixes (bad_prefixes chk (length bs) [] bs)
  end.

Definition cout_eqb (a b : cout) : bool :=
  match a, b with
  | CoEnc b1 r1, CoEnc b2 r2 => bytes_eqb b1 b2 && dres_eqb r1 r2
  | CoEncPanic, CoEncPanic => true
  | CoDec r1, CoDec r2 => dres_eqb r1 r2
  | CoPrefixes l1, CoPrefixes l2 => list_eqb N.eqb l1 l2
  | _, _ => false
  end.

Definition case := (cin * cout)%type.
Definition corr (x : case) : bool := cout_eqb (model (fst x)) (snd x).

Definition is_bad_outcome (r : dres) : bool := match r with DrPanic | DrHang => true | _ => false end.

(* the known class F2: the body parser overruns an enclosing length-delimited region *)
Definition overrun_case (buf : bytes) : bool := codec_overrun buf.

(* known finding F2: a panic/hang on an input of the Overrun class *)
Definition known_F2 (x : case) : bool :=
  match x with
  | (CDecode _ buf, CoDec r) | (CDecodeOf _ _ buf, CoDec r) => is_bad_outcome r && overrun_case buf
  | _ => false
  end.

(* C08: no panic, no hang — outside the known class *)
Definition oracle_C08 (x : case) : bool :=
  known_F2 x ||
  match snd x with
  | CoEncPanic => false
  | CoEnc _ r | CoDec r => negb (is_bad_outcome r)
  | CoPrefixes _ => true
  end.

(* C09 inbound: a prefix announcing more than the limit, or an invalid varint, fails; an incomplete
   varint waits; a frame within the limit is never rejected for its size *)
Definition oracle_C09 (x : case) : bool :=
  match x with
  | (CDecode _ buf, CoDec r) | (CDecodeOf _ _ buf, CoDec r) =>
      match uv_decode buf with
      | UvOk n rest =>
          if max_message_size <? n then dres_eqb r DrErr
          else if len rest <? n then dres_eqb r DrNeedMore else true
      | UvOverflow | UvNotMinimal => dres_eqb r DrErr
      | UvInsufficient => dres_eqb r DrNeedMore
      end
  | _ => true
  end.

(* C10: decode (encode m) = m with nothing left; every proper prefix waits; a decoded item leaves
   exactly the bytes after the frame *)
Definition oracle_C10 (x : case) : bool :=
  match x with
  | (CEncode _ m, CoEnc bs back) => dres_eqb back (DrItem m 0)
  | (CEncode _ _, CoEncPanic) => false
  | (CPrefixes _ _, CoPrefixes bad) => match bad with [] => true | _ => false end
  | (CDecode _ buf, CoDec (DrItem _ rl)) | (CDecodeOf _ _ buf, CoDec (DrItem _ rl)) =>
      match uv_decode buf with
      | UvOk n rest => (rl + n =? len rest)
      | _ => false
      end
  | (CDecode _ buf, CoDec r) | (CDecodeOf _ _ buf, CoDec r) =>
      (* up to three continuation bytes are the beginning of the length prefix of some frame within the limit (a fourth byte
         completes a value below 2^28; with three the value can still be anything from 2^21 on): a stream cut there must wait *)
      match uv_decode buf with
      | UvInsufficient => if len buf <=? 3 then dres_eqb r DrNeedMore else true
      | _ => true
      end
  | _ => true
  end.

(* C11: emitted bytes = unsigned-varint length prefix ++ a proto3 encoding that the reference decoder
   maps back to m; and every valid (possibly non-canonical) encoding of m is accepted as m *)
Definition oracle_C11 (x : case) : bool :=
  match x with
  | (CEncode _ m, CoEnc bs _) =>
      match uv_decode bs with
      | UvOk n body => (n =? len body) && bytes_eqb (uv_encode n ++ body) bs
                       && option_eqb message_eqb (ref_decode body) (Some m)
      | _ => false
      end
  | (CDecodeOf _ m buf, CoDec r) =>
      (* only when the harness's encoding really is a schema-valid encoding of m within the class *)
      match uv_decode buf with
      | UvOk n body =>
          if (n =? len body) && option_eqb message_eqb (ref_decode body) (Some m) && in_classb body
          then dres_eqb r (DrItem m 0) else true
      | _ => true
      end
  | _ => true
  end.

(* how many CDecodeOf cases really were in the class (reported in the evidence) *)
Definition in_class_case (x : case) : bool :=
  match x with
  | (CDecodeOf _ m buf, _) =>
      match uv_decode buf with
      | UvOk n body => (n =? len body) && option_eqb message_eqb (ref_decode body) (Some m) && in_classb body
      | _ => false
      end
  | _ => false
  end.

Definition oracle (x : case) : bool := oracle_C08 x && oracle_C09 x && oracle_C10 x && oracle_C11 x.
