(* Tie_wantlist.v — the arms of the two generators and the three entry constructors in /repo now
   (Extracted.v, regenerated on every run) are the ones Wantlist.v implements. *)
From BS Require Import Bytes Cid Proto Types Wantlist Extracted.
Open Scope N_scope.

(* generate_proto_full: per state, what is emitted (0 none / 1 want-have / 2 want-block / 3 cancel) and the
   next state (0..4, 5 = unchanged) *)
Definition emit_code (es : list gen_entry) : N :=
  match es with
  | [] => 0
  | (KWantHave, _) :: _ => 1
  | (KWantBlock, _) :: _ => 2
  | (KCancel, _) :: _ => 3
  end.

Definition all_states : list req_state := [SentWantHave; GotHave; GotDontHave; SentWantBlock; GotBlock].

Definition dummy_cid : cid := MkCid V1 0 (MkMh 0 []).

Definition full_row (s : req_state) : N * N * N :=
  (req_state_code s, emit_code (full_entries (dummy_cid, s)),
   let s' := snd (full_next (dummy_cid, s)) in if req_state_eqb s s' then 5 else req_state_code s').

Lemma tie_wl_full_table : Extracted.wl_full_table = map full_row all_states.
Proof. reflexivity. Qed.

(* generate_proto_update: (in wantlist?, state, emitted, next: 0..4 / 5 unchanged / 6 removed); the source has one
   arm `(false, GotBlock)` and one wildcard arm `(false, _)` (coded 9), then the five `(true, state)` arms *)
Definition upd_row (inw : bool) (s : req_state) : N * N :=
  let w := MkWl (if inw then [dummy_cid] else []) 0 true in
  (emit_code (upd_entries w (dummy_cid, s)),
   if upd_keep w (dummy_cid, s)
   then (let s' := snd (full_next (dummy_cid, s)) in if req_state_eqb s s' then 5 else req_state_code s')
   else 6).

Lemma tie_wl_update_table :
  Extracted.wl_update_table =
    [(0, 4, fst (upd_row false GotBlock), snd (upd_row false GotBlock));
     (0, 9, fst (upd_row false SentWantHave), snd (upd_row false SentWantHave));
     (1, 0, fst (upd_row true SentWantHave), snd (upd_row true SentWantHave));
     (1, 1, fst (upd_row true GotHave), snd (upd_row true GotHave));
     (1, 2, fst (upd_row true GotDontHave), snd (upd_row true GotDontHave));
     (1, 3, fst (upd_row true SentWantBlock), snd (upd_row true SentWantBlock));
     (1, 4, fst (upd_row true GotBlock), snd (upd_row true GotBlock))].
Proof. reflexivity. Qed.

(* the wildcard arm treats every state other than GotBlock alike *)
Lemma tie_wl_update_wildcard :
  forall s, s <> GotBlock -> upd_row false s = upd_row false SentWantHave.
Proof. intros [] H; try reflexivity. contradiction. Qed.

(* entry constructors: (priority, cancel, want type 0 = Block / 1 = Have, sendDontHave 0 / 1 / 2 = configured) *)
Definition ctor_row (e : entry) (e' : entry) : N * bool * N * N :=
  (e_priority e, e_cancel e, match e_want_type e with WTBlock => 0 | WTHave => 1 end,
   if Bool.eqb (e_send_dont_have e) (e_send_dont_have e') then (if e_send_dont_have e then 1 else 0) else 2).

Lemma tie_entry_constructors :
  Extracted.new_want_have_entry = ctor_row (Wantlist.new_want_have_entry dummy_cid true) (Wantlist.new_want_have_entry dummy_cid false) /\
  Extracted.new_want_block_entry = ctor_row (Wantlist.new_want_block_entry dummy_cid true) (Wantlist.new_want_block_entry dummy_cid false) /\
  Extracted.new_cancel_entry = ctor_row (Wantlist.new_cancel_entry dummy_cid) (Wantlist.new_cancel_entry dummy_cid).
Proof. repeat split; reflexivity. Qed.
