(* Net_proofs16.v — package G: `records sound` (C14), the invariant of the phase after the full wantlist of a refresh
   has been delivered.  For a pair i (requester) / j (server) and a CID c, under schedule steps only:
     - i's record of j covers i's wantlist with "WANT_HAVE sent" (so update wantlists i -> j are CANCEL-only),
       no full wantlist is generated (timer not ready, send_full off), i looks nothing up (its wantlist only shrinks);
     - if c is in j's want set for i, then i's record of j says "WANT_HAVE c sent" or a CANCEL c is in flight;
     - while a block c is in flight from j to i, c is not in j's want set for i.
   At a quiet net the first alternative and Net_proofs14 (`RV`) give: c is in i's wantlist. *)
From BS Require Import Server_lemmas Server_inv Server_proofs Server_live Wantlist_proofs Client_proofs Client_proofs2
  Client_proofs3 Client_proofs4 Net Net_proofs2 Net_proofs3 Net_proofs4 Net_proofs5 Net_proofs6 Net_proofs7 Net_proofs8
  Net_proofs9 Net_proofs10 Net_proofs14 Net_proofs15.
From Coq Require Import ZArith ZifyBool ZifyN ZifyNat Lia.
Open Scope N_scope.

Local Notation cid_eqb_spec := Wantlist_proofs.cid_eqb_spec.

Section PhaseB.
  Variables (Sz : N) (Hh : hash_fn).
  Hypothesis HSz : 32 <= Sz.
  Variables (i j : N) (c : cid).
  Hypothesis Hij : i <> j.

  Definition Wc (s : net) : Prop := exists st, server_of s j = Some st /\ wantsP (s_wants st) i c.
  Definition CWr (s : net) : Prop :=
    exists m, In m (wire_w s) /\ wm_src m = i /\ wm_dst m = j /\ In (KCancel, c) (wm_entries m).
  Definition cancel_only (m : wmsg) : Prop :=
    wm_full m = false /\ forall k x, In (k, x) (wm_entries m) -> k = KCancel /\ wf_cid Sz x.

  Definition cli_ok (s : net) (cl : cstate) (ps : peer_state) : Prop :=
    client_of s i = Some cl /\ In (j, ps) (cs_peers cl) /\ no_gets cl /\ timer_ready cl = false /\
    p_send_full ps = false /\ all_swh (cs_wl cl) (p_wl ps) /\
    (Wc s -> rget c (p_wl ps) = Some SentWantHave \/ CWr s).

  Record PB (s : net) : Prop := MkPB {
    pb_ok : net_ok Sz Hh s;
    pb_wf : net_wf Sz s;
    pb_conn : Net.connected s i j = true;
    pb_cli : exists cl ps, cli_ok s cl ps;
    pb_wire : forall m, In m (wire_w s) -> wm_src m = i -> wm_dst m = j -> cancel_only m;
    pb_D : forall m, In m (wire_b s) -> bm_src m = j -> bm_dst m = i -> In c (map fst (bm_blocks m)) -> ~ Wc s
  }.

  (* ---------- a step that leaves i's wantlist and i's record of j alone ---------- *)
  Lemma PB_gframe s s' :
    net_ok Sz Hh s' -> net_wf Sz s' -> conns s' = conns s ->
    (forall cl, client_of s i = Some cl ->
       exists cl', client_of s' i = Some cl' /\ cs_wl cl' = cs_wl cl /\ cs_now cl' = cs_now cl /\
                   cs_deadline cl' = cs_deadline cl /\ (no_gets cl -> no_gets cl') /\
                   (forall ps, In (j, ps) (cs_peers cl) ->
                      exists ps', In (j, ps') (cs_peers cl') /\ p_wl ps' = p_wl ps /\ p_send_full ps' = p_send_full ps)) ->
    (Wc s' -> Wc s) ->
    (Wc s' -> CWr s -> CWr s') ->
    (forall m, In m (wire_w s') -> wm_src m = i -> wm_dst m = j -> In m (wire_w s)) ->
    (forall m, In m (wire_b s') -> bm_src m = j -> bm_dst m = i -> In c (map fst (bm_blocks m)) -> In m (wire_b s) \/ ~ Wc s') ->
    PB s -> PB s'.
  Proof.
    intros Hok Hwf Ec Hcli HW Hcw Hww Hwb [H1 H2 H3 H4 H5 H6]. constructor; try assumption.
    - unfold Net.connected in *. rewrite Ec. exact H3.
    - destruct H4 as (cl & ps & E & Hin & Hng & Ht & Hsf & Hall & HC).
      destruct (Hcli _ E) as (cl' & E' & Ew & En & Ed & Hng' & Hps). destruct (Hps _ Hin) as (ps' & Hin' & Epw & Esf).
      exists cl', ps'. split; [exact E'|]. split; [exact Hin'|]. split; [apply Hng', Hng|].
      split; [unfold timer_ready in *; rewrite En, Ed; exact Ht|]. split; [congruence|]. split; [rewrite Ew, Epw; exact Hall|].
      intros Hw'. rewrite Epw. destruct (HC (HW Hw')) as [Hr|Hr]; [left; exact Hr | right; apply Hcw; assumption].
    - intros m Hm A B. apply H5; auto.
    - intros m Hm A B C Hw'. destruct (Hwb m Hm A B C) as [Hm0|Hn]; [|exact (Hn Hw')]. exact (H6 m Hm0 A B C (HW Hw')).
  Qed.

  Lemma cli_same cl : exists cl', Some cl = Some cl' /\ cs_wl cl' = cs_wl cl /\ cs_now cl' = cs_now cl /\
                   cs_deadline cl' = cs_deadline cl /\ (no_gets cl -> no_gets cl') /\
                   (forall ps, In (j, ps) (cs_peers cl) ->
                      exists ps', In (j, ps') (cs_peers cl') /\ p_wl ps' = p_wl ps /\ p_send_full ps' = p_send_full ps).
  Proof. exists cl. repeat split; auto. intros ps H. exists ps. auto. Qed.

  Lemma Wc_frame s s' : server_of s' j = server_of s j -> Wc s' -> Wc s.
  Proof. intros E (st & H & R). exists st. rewrite <- E. auto. Qed.

  Lemma CWr_mono s s' : (forall m, In m (wire_w s) -> In m (wire_w s')) -> CWr s -> CWr s'.
  Proof. intros E (m & H & R). exists m. auto. Qed.

  (* ---------- NPoll elsewhere ---------- *)
  Lemma PB_poll_other s k : k <> i -> k <> j -> PB s -> PB (fst (nstep Sz Hh s (NPoll k))).
  Proof.
    intros Hki Hkj HP. pose proof HP as [H1 H2 H3 H4 H5 H6].
    assert (Hok' : net_ok Sz Hh (fst (nstep Sz Hh s (NPoll k)))) by (apply net_ok_step; [exact HSz | exact I | exact H1]).
    assert (Hwf' : net_wf Sz (fst (nstep Sz Hh s (NPoll k)))) by (apply (net_wf_step Sz Hh HSz); [exact H1 | exact I | exact H2]).
    cbn [nstep] in *. destruct (get_node s k) as [n|] eqn:Hg; [|unfold do_poll in *; rewrite Hg in *; exact HP].
    destruct (do_poll_shape Sz s k n Hg) as (n2 & ws & bs & E & Hws & Hbs). rewrite E in *.
    apply (PB_gframe s); try assumption; try reflexivity.
    - intros cl Ecl. unfold client_of. rewrite get_other by congruence. fold (client_of s i). rewrite Ecl. apply cli_same.
    - apply Wc_frame. unfold server_of. rewrite get_other by congruence. reflexivity.
    - intros _. apply CWr_mono. intros m Hm. cbn [wire_w]. apply in_app_iff. auto.
    - intros m Hm Hsrc _. cbn [wire_w] in Hm. apply in_app_iff in Hm. destruct Hm as [Hm|Hm]; [exact Hm|]. apply Hws in Hm. congruence.
    - intros m Hm Hsrc _ _. cbn [wire_b] in Hm. apply in_app_iff in Hm. destruct Hm as [Hm|Hm]; [left; exact Hm|]. apply Hbs in Hm. congruence.
  Qed.

  (* ---------- NPoll j ---------- *)
  Lemma PB_poll_j s : PB s -> PB (fst (nstep Sz Hh s (NPoll j))).
  Proof.
    intros HP. pose proof HP as [H1 H2 H3 H4 H5 H6].
    assert (Hok' : net_ok Sz Hh (fst (nstep Sz Hh s (NPoll j)))) by (apply net_ok_step; [exact HSz | exact I | exact H1]).
    assert (Hwf' : net_wf Sz (fst (nstep Sz Hh s (NPoll j)))) by (apply (net_wf_step Sz Hh HSz); [exact H1 | exact I | exact H2]).
    cbn [nstep] in *. destruct (get_node s j) as [n|] eqn:Hg; [|unfold do_poll in *; rewrite Hg in *; exact HP].
    destruct (do_poll_nf Sz Hh s j n H1 Hg) as (sC & outsC & [Hrun HCC Hto Heq]). cbn zeta in Heq. rewrite Heq in *. cbn [fst] in *.
    set (sp := srv_poll (n_server n) (cs_new_blocks sC)) in *.
    match goal with |- PB ?x => set (s' := x) in * end.
    pose proof (no_nodes _ _ _ H1 _ _ Hg) as Hn. destruct (nk_sv _ _ _ _ _ Hn) as (HI & _ & _ & _).
    set (s1 := match cs_new_blocks sC with [] => n_server n | _ => new_blocks_available (n_server n) (cs_new_blocks sC) end).
    assert (HI1 : Server_inv.Inv s1) by (unfold s1; destruct (cs_new_blocks sC); exact HI).
    assert (Ew1 : s_wants s1 = s_wants (n_server n)) by (unfold s1; destruct (cs_new_blocks sC); reflexivity).
    change sp with (Server.do_poll s1) in *.
    assert (Hsj : server_of s j = Some (n_server n)) by (unfold server_of; rewrite Hg; reflexivity).
    assert (Hsj' : server_of s' j = Some (fst (Server.do_poll s1))) by (unfold server_of, s'; rewrite (get_set_nth_same s j n _ _ _ _ _ Hg); reflexivity).
    assert (HW : Wc s' -> Wc s).
    { intros (st & E & Hw). rewrite Hsj' in E. injection E as <-. destruct (do_poll_wants_rev s1 i c HI1 Hw) as [Hw0 _].
      exists (n_server n). split; [exact Hsj|]. rewrite <- Ew1. exact Hw0. }
    apply (PB_gframe s); try assumption; try reflexivity.
    - intros cl Ecl. unfold client_of, s'. rewrite get_other by congruence. fold (client_of s i). rewrite Ecl. apply cli_same.
    - intros _. apply CWr_mono. intros m Hm. unfold s'. cbn [wire_w]. apply in_app_iff. auto.
    - intros m Hm Hsrc _. unfold s' in Hm. cbn [wire_w] in Hm. apply in_app_iff in Hm. destruct Hm as [Hm|Hm]; [exact Hm|].
      apply in_map_iff in Hm. destruct Hm as (x & <- & _). cbn in Hsrc. congruence.
    - intros m Hm _ Hdst Hc. unfold s' in Hm. cbn [wire_b] in Hm. apply in_app_iff in Hm. destruct Hm as [Hm|Hm]; [left; exact Hm|]. right.
      apply in_map_iff in Hm. destruct Hm as ([p bl] & <- & Hx). apply filter_In in Hx. destruct Hx as [Hx _].
      apply sv_blocks_In in Hx. cbn [b_of bm_dst bm_blocks fst snd] in *. subst p.
      intros (st & E & Hw). rewrite Hsj' in E. injection E as <-. exact (do_poll_send_unwanted s1 i bl c HI1 Hx Hc Hw).
  Qed.

  (* ---------- NPoll i ---------- *)
  Lemma phaseB_peer nw w ps :
    NoDup (map fst (req (p_wl ps))) -> p_send_full ps = false -> all_swh w (p_wl ps) ->
    exists ps',
      fin1 nw w (j, ps) = (j, ps') /\ p_send_full ps' = false /\ all_swh w (p_wl ps') /\
      (forall x, In x (sends1 w (j, ps)) ->
         exists es, x = (j, CONN, false, es) /\ forall k y, In (k, y) es -> k = KCancel /\ In y (map fst (req (p_wl ps)))) /\
      (forall y, rget y (p_wl ps) = Some SentWantHave ->
         rget y (p_wl ps') = Some SentWantHave \/ exists es, In (j, CONN, false, es) (sends1 w (j, ps)) /\ In (KCancel, y) es).
  Proof.
    intros Hnd Hsf Hall. unfold fin1, sends1. cbn [fst snd].
    destruct (p_ss ps); try (exists ps; split; [reflexivity|]; split; [exact Hsf|]; split; [exact Hall|]; split; [intros x []|]; intros y Hy; left; exact Hy).
    rewrite Hsf. destruct (gen_update_swh w (p_wl ps) Hnd Hall) as (G1 & G2 & G3).
    destruct (wls_generate_update (p_wl ps) w) as [es wls']. cbn [fst snd negb andb] in *.
    destruct es as [|e es]; cbn [is_nil].
    - eexists. split; [reflexivity|]. split; [reflexivity|]. split; [exact G1|]. split; [intros x []|].
      intros y Hy. destruct (G3 _ Hy) as [H|[]]. left. exact H.
    - eexists. split; [reflexivity|]. split; [reflexivity|]. split; [exact G1|]. split.
      + intros x [<-|[]]. eexists. split; [reflexivity | exact G2].
      + intros y Hy. destruct (G3 _ Hy) as [H|H]; [left; exact H|]. right. eexists. split; [left; reflexivity | exact H].
  Qed.

  Lemma sends1_dst w p ps x : In x (sends1 w (p, ps)) -> x_peer x = p.
  Proof.
    unfold sends1. cbn [fst snd]. destruct (p_ss ps); try (intros []).
    destruct (if p_send_full ps then _ else _) as [es wls']. destruct (negb (p_send_full ps) && is_nil es); [intros []|].
    intros [<-|[]]. reflexivity.
  Qed.

  Lemma PB_poll_i s : PB s -> PB (fst (nstep Sz Hh s (NPoll i))).
  Proof.
    intros HP. pose proof HP as [H1 H2 H3 H4 H5 H6].
    assert (Hok' : net_ok Sz Hh (fst (nstep Sz Hh s (NPoll i)))) by (apply net_ok_step; [exact HSz | exact I | exact H1]).
    assert (Hwf' : net_wf Sz (fst (nstep Sz Hh s (NPoll i)))) by (apply (net_wf_step Sz Hh HSz); [exact H1 | exact I | exact H2]).
    cbn [nstep] in *. destruct (get_node s i) as [n|] eqn:Hg; [|unfold do_poll in *; rewrite Hg in *; exact HP].
    destruct (do_poll_nf Sz Hh s i n H1 Hg) as (sC & outsC & [Hrun HCC Hto Heq]). cbn zeta in Heq. rewrite Heq in *. cbn [fst] in *.
    assert (Hcl : client_of s i = Some (n_client n)) by (unfold client_of; rewrite Hg; reflexivity).
    destruct H4 as (cl & ps & E & Hin & Hng & Ht & Hsf & Hall & HC). rewrite Hcl in E. injection E as <-.
    assert (Eat : after_timer (n_client n) = set_queue (n_client n) []).
    { unfold after_timer. change (timer_ready (set_queue (n_client n) [])) with (timer_ready (n_client n)). rewrite Ht. reflexivity. }
    rewrite Eat in Hrun.
    assert (Hng0 : no_gets (set_queue (n_client n) [])) by exact Hng.
    destruct (tasks_run_noget _ _ _ Hrun Hng0) as (Ew & _ & HngC). cbn [set_queue cs_wl] in Ew.
    pose proof (tasks_run_noget_peers _ _ _ Hrun Hng0) as Ep. cbn [set_queue cs_peers] in Ep.
    destruct (tasks_run_frame _ _ _ Hrun) as (_ & En & Ed & _). cbn [set_queue cs_now cs_deadline] in En, Ed.
    assert (HCW : CW (wf_cid Sz) sC).
    { eapply CW_tasks_run; [exact Hrun|]. apply (CW_same _ (n_client n)); try reflexivity. apply (H2 _ _ Hg). }
    rewrite <- Ep in Hin. rewrite <- Ew in Hall.
    pose proof (ck_peers _ _ HCC _ _ Hin) as (Hst & _ & _).
    destruct (phaseB_peer (now s) (cs_wl sC) ps (proj1 Hst) Hsf Hall) as (ps' & Ef & Hsf' & Hall' & Hsend & Hrec).
    set (L := flat_map (sends1 (cs_wl sC)) (cs_peers sC)) in *.
    set (cF := set_peers (set_new_blocks (set_queue sC []) []) (map (fin1 (now s) (cs_wl sC)) (cs_peers sC))) in *.
    match goal with |- PB ?x => set (s' := x) in * end.
    assert (Hcl' : client_of s' i = Some cF) by (unfold client_of, s'; rewrite (get_set_nth_same s i n _ _ _ _ _ Hg); reflexivity).
    assert (Hsj : server_of s' j = server_of s j) by (unfold server_of, s'; rewrite get_other by congruence; reflexivity).
    assert (HW : Wc s' -> Wc s) by (apply Wc_frame; exact Hsj).
    (* the messages to j of this poll *)
    assert (Hnew : forall m, In m (map (w_of i) L) -> wm_dst m = j -> exists es, m = MkW i j false es /\ In (j, CONN, false, es) (sends1 (cs_wl sC) (j, ps))).
    { intros m Hm Hdst. apply in_map_iff in Hm. destruct Hm as (x & <- & Hx). unfold L in Hx. apply in_flat_map in Hx.
      destruct Hx as ([p psC] & HinC & Hx). pose proof (sends1_dst _ _ _ _ Hx) as Hp. cbn [w_of wm_dst] in Hdst. rewrite Hp in Hdst. subst p.
      assert (psC = ps) by (eapply NoDup_keys_in_eq; [apply (ck_keys _ _ HCC) | exact HinC | exact Hin]). subst psC.
      destruct (Hsend _ Hx) as (es & -> & _). exists es. split; [reflexivity | exact Hx]. }
    constructor; try assumption.
    - exists cF, ps'. split; [exact Hcl'|]. split.
      { cbn [cF set_peers cs_peers]. apply in_map_iff. exists (j, ps). split; [exact Ef | exact Hin]. }
      split; [exact HngC|]. split; [unfold timer_ready in *; cbn [cF set_peers set_new_blocks set_queue cs_deadline cs_now]; rewrite En, Ed; exact Ht|].
      split; [exact Hsf'|]. split; [exact Hall'|].
      intros Hw'. destruct (HC (HW Hw')) as [Hr|Hr].
      + destruct (Hrec _ Hr) as [Hr'|(es & Hes & Hc)]; [left; exact Hr'|]. right.
        exists (MkW i j false es). split; [|auto]. unfold s'. cbn [wire_w]. apply in_app_iff. right.
        apply in_map_iff. exists (j, CONN, false, es). split; [reflexivity|]. unfold L. apply in_flat_map. exists (j, ps). auto.
      + right. revert Hr. apply CWr_mono. intros m Hm. unfold s'. cbn [wire_w]. apply in_app_iff. auto.
    - intros m Hm Hsrc Hdst. unfold s' in Hm. cbn [wire_w] in Hm. apply in_app_iff in Hm. destruct Hm as [Hm|Hm]; [apply H5; assumption|].
      destruct (Hnew m Hm Hdst) as (es & -> & Hx). destruct (Hsend _ Hx) as (es' & Ex & Hes). injection Ex as <-.
      split; [reflexivity|]. cbn [wm_entries]. intros k y Hy. destruct (Hes _ _ Hy) as [-> Hk]. split; [reflexivity|].
      eapply (cw_req _ _ HCW); eassumption.
    - intros m Hm A B C Hw'. unfold s' in Hm. cbn [wire_b] in Hm. apply in_app_iff in Hm. destruct Hm as [Hm|Hm]; [exact (H6 m Hm A B C (HW Hw'))|].
      apply in_map_iff in Hm. destruct Hm as (x & <- & _). cbn in A. congruence.
  Qed.

  Lemma PB_poll s k : PB s -> PB (fst (nstep Sz Hh s (NPoll k))).
  Proof.
    intros HP. destruct (N.eq_dec k i) as [->|Hi]; [apply PB_poll_i, HP|].
    destruct (N.eq_dec k j) as [->|Hj]; [apply PB_poll_j, HP | apply PB_poll_other; assumption].
  Qed.

  (* ---------- NStore ---------- *)
  Lemma PB_store s k m : PB s -> PB (fst (nstep Sz Hh s (NStore k m))).
  Proof.
    intros HP. pose proof HP as [H1 H2 H3 H4 H5 H6].
    assert (Hok' : net_ok Sz Hh (fst (nstep Sz Hh s (NStore k m)))) by (apply net_ok_step; [exact HSz | exact I | exact H1]).
    assert (Hwf' : net_wf Sz (fst (nstep Sz Hh s (NStore k m)))) by (apply (net_wf_step Sz Hh HSz); [exact H1 | exact I | exact H2]).
    cbn [nstep fst] in *. set (f := fun n => node_store Sz n m) in *.
    destruct (on_node_frames s k f) as (Ec & Eww & Ewb).
    destruct (get_node s k) as [n|] eqn:Hg; [|unfold on_node in *; rewrite Hg in *; exact HP].
    apply (PB_gframe s); try assumption.
    - intros cl Ecl. destruct (N.eq_dec k i) as [->|Hki].
      + unfold client_of in *. rewrite (get_on_node_same s i f n Hg). rewrite Hg in Ecl. cbn [option_map] in *. injection Ecl as <-.
        assert (Hceq : ceq (n_client n) (n_client (f n))).
        { unfold f, node_store. destruct (nth_error (n_calls n) (N.to_nat m)) as [[m' x|m' bl|m' x]|]; cbn [n_client cstep fst];
            try apply ceq_refl; apply ceq_release. }
        destruct Hceq as (E1 & E2 & E3 & E4 & E5). exists (n_client (f n)). split; [reflexivity|]. repeat split; auto.
        intros ps Hin. exists ps. rewrite E2. auto.
      + unfold client_of. rewrite get_on_node_other by congruence. fold (client_of s i). rewrite Ecl. apply cli_same.
    - destruct (N.eq_dec k j) as [->|Hkj].
      + intros (st & E & Hw). unfold server_of in E. rewrite (get_on_node_same s j f n Hg) in E. cbn [option_map] in E. injection E as <-.
        exists (n_server n). split; [unfold server_of; rewrite Hg; reflexivity|].
        unfold f, node_store in Hw. destruct (nth_error (n_calls n) (N.to_nat m)) as [[m' x|m' bl|m' x]|]; cbn [n_server] in Hw; try exact Hw.
        unfold srv, sstep_l in Hw. destruct (s_panic (n_server n)); [exact Hw|]. cbn [fst] in Hw.
        destruct (release_frame (n_server n) m' (store_get (n_store n) x)) as [Er _]. rewrite Er in Hw. exact Hw.
      + apply Wc_frame. unfold server_of. rewrite get_on_node_other by congruence. reflexivity.
    - intros _. apply CWr_mono. intros mm Hm. rewrite Eww. exact Hm.
    - intros mm Hm _ _. rewrite Eww in Hm. exact Hm.
    - intros mm Hm _ _ _. rewrite Ewb in Hm. left. exact Hm.
  Qed.

  (* ---------- NDeliverW ---------- *)
  Lemma PB_deliver_w s a b : PB s -> PB (fst (nstep Sz Hh s (NDeliverW a b))).
  Proof.
    intros HP. pose proof HP as [H1 H2 H3 H4 H5 H6].
    assert (Hok' : net_ok Sz Hh (fst (nstep Sz Hh s (NDeliverW a b)))) by (apply net_ok_step; [exact HSz | exact I | exact H1]).
    assert (Hwf' : net_wf Sz (fst (nstep Sz Hh s (NDeliverW a b)))) by (apply (net_wf_step Sz Hh HSz); [exact H1 | exact I | exact H2]).
    cbn [nstep] in *.
    destruct (take_first (w_between a b) (wire_w s)) as [[m rest]|] eqn:Et; [|unfold do_deliver_w in *; rewrite Et in *; exact HP].
    destruct (take_first_spec _ _ _ _ Et) as (Hm & Hab & Hsub & Hrest).
    unfold w_between in Hab. apply andb_true_iff in Hab. destruct Hab as [Hsrc Hdst]. apply N.eqb_eq in Hsrc, Hdst.
    destruct (get_node s a) as [na|] eqn:Ha; [destruct (get_node s b) as [nb|] eqn:Hb|].
    2,3: (assert (Es : fst (do_deliver_w Sz Hh s a b) = MkNet (nodes s) (conns s) rest (wire_b s) (now s))
           by (unfold do_deliver_w; rewrite Et;
               change (get_node (MkNet (nodes s) (conns s) rest (wire_b s) (now s)) a) with (get_node s a);
               change (get_node (MkNet (nodes s) (conns s) rest (wire_b s) (now s)) b) with (get_node s b);
               rewrite ?Ha, ?Hb; reflexivity);
         rewrite Es in *; destruct (connected_neq Sz Hh HSz s i j H1 H3) as (_ & Hei & Hej);
         apply (PB_gframe s); try assumption; try reflexivity;
         [ intros cl Ecl; change (client_of (MkNet (nodes s) (conns s) rest (wire_b s) (now s)) i) with (client_of s i); rewrite Ecl; apply cli_same
         | apply Wc_frame; reflexivity
         | intros _ (m' & Hm' & A & B & C); exists m'; split; [|auto]; cbn [wire_w];
           destruct (Hrest m' Hm') as [->|Hr]; [exfalso; congruence | exact Hr]
         | intros m' Hm' _ _; apply Hsub, Hm'
         | intros m' Hm' _ _ _; left; exact Hm' ]).
    destruct (deliver_w_effect Sz Hh s a b m rest na nb Et Ha Hb) as (Ec & Eww & Ewb & Est & Esv & Esvb & Eclx & Ecla).
    set (s' := fst (do_deliver_w Sz Hh s a b)) in *.
    (* what the delivery does to j's want set for i *)
    assert (HW2 : Wc s' -> Wc s /\ (a = i -> b = j -> ~ In (KCancel, c) (wm_entries m))).
    { intros (st & E & Hw). destruct (N.eq_dec b j) as [->|Hbj].
      - rewrite Esvb in E. injection E as <-. pose proof (no_nodes _ _ _ H1 _ _ Hb) as Hn. destruct (nk_sv _ _ _ _ _ Hn) as (HI & _ & Hpn & _).
        assert (Hsj : server_of s j = Some (n_server nb)) by (unfold server_of; rewrite Hb; reflexivity).
        unfold srv_after_w in Hw. destruct (wm_full m || negb (is_nil (wm_entries m))) eqn:Econd.
        + unfold srv in Hw. destruct (N.eq_dec a i) as [->|Hai].
          * destruct (H5 m Hm Hsrc Hdst) as [Hnf Hes]. rewrite Hnf in Hw.
            destruct (cancel_msg_rev Sz HSz _ _ _ _ _ _ HI Hpn Hes Hw) as [Hw0 Hnc]. split; [exists (n_server nb); auto | auto].
          * split; [|intros; congruence]. exists (n_server nb). split; [exact Hsj|]. eapply (msg_other_rev Sz); [exact Hai | exact Hw].
        + split; [exists (n_server nb); auto|]. intros -> _ Hin. destruct (H5 m Hm Hsrc Hdst) as [Hnf _]. rewrite Hnf in Econd. cbn [orb] in Econd.
          destruct (wm_entries m); [destruct Hin | discriminate].
      - split; [exists st; rewrite <- (Esv j) by congruence; auto | intros; congruence]. }
    apply (PB_gframe s); try assumption.
    - intros cl Ecl. destruct (N.eq_dec i a) as [<-|Hne].
      + rewrite Ecla. unfold client_of in Ecl. rewrite Ha in Ecl. cbn [option_map] in Ecl. injection Ecl as <-.
        eexists. split; [reflexivity|]. split; [reflexivity|]. split; [reflexivity|]. split; [reflexivity|]. split; [auto|].
        intros ps Hin. cbn [c_report set_peers cs_peers]. unfold al_modify.
        destruct (b =? j) eqn:Ebj.
        * eexists. split; [apply in_map_iff; exists (j, ps); cbn [fst snd]; rewrite Ebj; split; [reflexivity | exact Hin]|].
          destruct (report_accepted ps CONN); auto.
        * exists ps. split; [apply in_map_iff; exists (j, ps); cbn [fst snd]; rewrite Ebj; auto | auto].
      + rewrite Eclx by exact Hne. rewrite Ecl. apply cli_same.
    - intros H. apply HW2, H.
    - intros Hw' (m' & Hm' & A & B & C). exists m'. split; [|auto]. rewrite Eww. destruct (Hrest m' Hm') as [->|Hr]; [|exact Hr].
      exfalso. destruct (HW2 Hw') as [_ Hn]. apply Hn; congruence.
    - intros m' Hm' _ _. rewrite Eww in Hm'. apply Hsub, Hm'.
    - intros m' Hm' _ _ _. rewrite Ewb in Hm'. left. exact Hm'.
  Qed.

  (* ---------- NDeliverB ---------- *)
  Lemma PB_deliver_b s a b : PB s -> PB (fst (nstep Sz Hh s (NDeliverB a b))).
  Proof.
    intros HP. pose proof HP as [H1 H2 H3 H4 H5 H6].
    assert (Hok' : net_ok Sz Hh (fst (nstep Sz Hh s (NDeliverB a b)))) by (apply net_ok_step; [exact HSz | exact I | exact H1]).
    assert (Hwf' : net_wf Sz (fst (nstep Sz Hh s (NDeliverB a b)))) by (apply (net_wf_step Sz Hh HSz); [exact H1 | exact I | exact H2]).
    cbn [nstep] in *.
    destruct (take_first (b_between a b) (wire_b s)) as [[m rest]|] eqn:Et; [|unfold do_deliver_b in *; rewrite Et in *; exact HP].
    destruct (take_first_spec _ _ _ _ Et) as (Hm & Hab & Hsub & Hrest).
    unfold b_between in Hab. apply andb_true_iff in Hab. destruct Hab as [Hsrc Hdst]. apply N.eqb_eq in Hsrc, Hdst.
    pose proof (no_wire_b _ _ _ H1 m Hm) as Hgood.
    destruct (get_node s b) as [nb|] eqn:Hb.
    2:{ assert (Es : fst (do_deliver_b Sz Hh s a b) = MkNet (nodes s) (conns s) (wire_w s) rest (now s))
          by (unfold do_deliver_b; rewrite Et, Hb; reflexivity).
        rewrite Es in *. apply (PB_gframe s); try assumption; try reflexivity.
        - intros cl Ecl. change (client_of (MkNet (nodes s) (conns s) (wire_w s) rest (now s)) i) with (client_of s i). rewrite Ecl. apply cli_same.
        - apply Wc_frame. reflexivity.
        - intros _ H. exact H.
        - intros m' Hm' _ _. exact Hm'.
        - intros m' Hm' _ _ _. left. apply Hsub, Hm'. }
    destruct (deliver_b_effect Sz Hh s a b m rest nb Et Hb Hgood) as (cl' & Es & Hcl'). rewrite Es in *.
    match goal with |- PB ?x => set (s' := x) in * end.
    assert (Hsv : forall x, server_of s' x = server_of s x).
    { intros x. unfold server_of, s'. destruct (N.eq_dec x b) as [->|Hne].
      - rewrite (get_set_nth_same s b nb _ _ _ _ _ Hb), Hb. reflexivity.
      - rewrite get_other by exact Hne. reflexivity. }
    assert (HW : Wc s' -> Wc s) by (apply Wc_frame, Hsv).
    assert (HW' : Wc s -> Wc s') by (intros (st & E & R); exists st; rewrite Hsv; auto).
    destruct (N.eq_dec b i) as [->|Hbi].
    - (* blocks for node i *)
      assert (Hcl : client_of s i = Some (n_client nb)) by (unfold client_of; rewrite Hb; reflexivity).
      assert (Hcls' : client_of s' i = Some cl') by (unfold client_of, s'; rewrite (get_set_nth_same s i nb _ _ _ _ _ Hb); reflexivity).
      destruct Hcl' as [[-> Hemp]| ->].
      { apply (PB_gframe s); try assumption; try reflexivity.
        - intros cl Ecl. rewrite Hcls'. rewrite Hcl in Ecl. injection Ecl as <-. apply cli_same.
        - intros _ H. exact H.
        - intros m' Hm' _ _. exact Hm'.
        - intros m' Hm' _ _ _. left. apply Hsub, Hm'. }
      pose proof (no_nodes _ _ _ H1 _ _ Hb) as Hn.
      set (blocks := ins_all (bm_blocks m) []) in *.
      pose proof (c_incoming_effect (n_client nb) a blocks (nk_invb _ _ _ _ _ Hn)) as Heff. cbn zeta in Heff.
      destruct Heff as (Fsh & _ & Fnow & Fdl & Fng & _).
      destruct H4 as (cl & ps & E & Hin & Hng & Ht & Hsf & Hall & HC). rewrite Hcl in E. injection E as <-.
      destruct (c_incoming_peer (n_client nb) a blocks j ps (ck_keys _ _ (nk_ck _ _ _ _ _ Hn)) Hin) as (ps' & Hin' & Esf & _ & Hsame & Hrg).
      constructor; try assumption.
      + exists (fst (c_incoming (n_client nb) a [] blocks)), ps'. split; [exact Hcls'|]. split; [exact Hin'|]. split; [apply Fng, Hng|].
        split; [unfold timer_ready in *; rewrite Fnow, Fdl; exact Ht|]. split; [congruence|]. split.
        * intros x Hx. rewrite (Hrg x (or_intror Hx)). apply Hall, Fsh, Hx.
        * intros Hw'. pose proof (HW Hw') as Hw0. destruct (HC Hw0) as [Hr|Hr]; [left | right; exact Hr].
          destruct (N.eq_dec j a) as [<-|Hja]; [|rewrite (Hsame Hja); exact Hr].
          rewrite Hrg; [exact Hr|]. left. intros Hk. unfold blocks in Hk. apply ins_all_keys in Hk. destruct Hk as [[]|Hk].
          exact (H6 m Hm Hsrc Hdst Hk Hw0).
      + intros m' Hm' A B C Hw'. exact (H6 m' (Hsub _ Hm') A B C (HW Hw')).
    - (* elsewhere *)
      apply (PB_gframe s); try assumption; try reflexivity.
      + intros cl Ecl. unfold client_of, s'. rewrite get_other by congruence. fold (client_of s i). rewrite Ecl. apply cli_same.
      + intros _ H. exact H.
      + intros m' Hm' _ _. exact Hm'.
      + intros m' Hm' _ _ _. left. apply Hsub, Hm'.
  Qed.

  Lemma PB_sched s o : sched o -> PB s -> PB (fst (nstep Sz Hh s o)).
  Proof.
    intros Hs HP. destruct o; try contradiction.
    - apply PB_poll, HP.
    - apply PB_store, HP.
    - apply PB_deliver_w, HP.
    - apply PB_deliver_b, HP.
  Qed.

  Lemma PB_run ops : forall s, Forall sched ops -> PB s -> PB (fst (nrun Sz Hh s ops)).
  Proof.
    induction ops as [|o ops IH]; intros s Hs HP; [exact HP|]. rewrite (nrun_cons Sz Hh). cbn [fst].
    inversion Hs; subst. apply IH; [assumption | apply PB_sched; assumption].
  Qed.

  (* ---------- the quiet states ---------- *)
  Lemma PB_quiet_sound s :
    PB s -> net_rv s -> quietb s = true -> Wc s -> In c (wl_i i s).
  Proof.
    intros [H1 H2 H3 H4 H5 H6] Hrv Hq Hw. destruct H4 as (cl & ps & E & Hin & Hng & Ht & Hsf & Hall & HC).
    pose proof Hq as Hq0. unfold quietb in Hq0. rewrite !andb_true_iff in Hq0. destruct Hq0 as [[Hww _] _]. apply is_nil_true in Hww.
    destruct (HC Hw) as [Hr|(m & Hm & _)]; [|rewrite Hww in Hm; destruct Hm].
    unfold client_of in E. destruct (get_node s i) as [n|] eqn:Hg; [|discriminate]. injection E as <-.
    pose proof (quiet_node s i n Hq Hg) as Hn. unfold node_idle, client_idle in Hn. rewrite !andb_true_iff in Hn.
    destruct Hn as [[[[[[[_ _] _] _] _] Hpeers] _] _]. rewrite forallb_forall in Hpeers. specialize (Hpeers _ Hin).
    unfold peer_idle in Hpeers. cbn [snd] in Hpeers. rewrite !andb_true_iff in Hpeers. destruct Hpeers as [_ Hupd].
    unfold wls_is_updated in Hupd. apply andb_true_iff in Hupd. destruct Hupd as [_ Hsync]. apply N.eqb_eq in Hsync.
    destruct (Hrv _ _ Hg _ _ Hin) as [_ Hkeys]. unfold wl_i, client_of. rewrite Hg. cbn [option_map].
    apply (Hkeys Hsync). apply rget_none_keys. congruence.
  Qed.
End PhaseB.
