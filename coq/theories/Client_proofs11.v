(* Client_proofs11.v — package N, part 2: ONE step of the several-connections client is simulated by at most one
   step of the one-connection client (`step_sim`), for every op; the poll needs the fault-free condition. *)
From BS Require Import Types Wantlist Wantlist_proofs Client Client_proofs Client_proofs3 Client_proofs4 Client_proofs10.
From Coq Require Import ZArith ZifyBool ZifyN ZifyNat Lia.
Open Scope N_scope.

Section Sim.
Variable K : peer -> conn.

(* ---------- association lists under norm_entry ---------- *)
Lemma find_norm p l : al_find N.eqb p (map (norm_entry K) l) = option_map (norm_ps K p) (al_find N.eqb p l).
Proof.
  induction l as [|[q ps] l IH]; [reflexivity|]. cbn [map norm_entry fst snd al_find].
  destruct (p =? q) eqn:E; [apply N.eqb_eq in E; subst; reflexivity | exact IH].
Qed.

Lemma mem_norm p l : al_mem N.eqb p (map (norm_entry K) l) = al_mem N.eqb p l.
Proof.
  unfold al_mem. induction l as [|[q ps] l IH]; [reflexivity|]. cbn [map norm_entry fst snd existsb]. rewrite IH. reflexivity.
Qed.

Lemma remove_norm p l : al_remove N.eqb p (map (norm_entry K) l) = map (norm_entry K) (al_remove N.eqb p l).
Proof.
  unfold al_remove. induction l as [|[q ps] l IH]; [reflexivity|]. cbn [map norm_entry fst snd filter].
  destruct (negb (p =? q)); cbn [map norm_entry fst snd]; rewrite IH; reflexivity.
Qed.

Lemma modify_norm_all p F G l :
  (forall q ps, norm_ps K q (F ps) = G (norm_ps K q ps)) ->
  map (norm_entry K) (al_modify N.eqb p F l) = al_modify N.eqb p G (map (norm_entry K) l).
Proof.
  intros H. unfold al_modify. rewrite !map_map. apply map_ext. intros [q ps]. unfold norm_entry. cbn [fst snd].
  destruct (p =? q); cbn [fst snd]; [rewrite H|]; reflexivity.
Qed.

Lemma modify_norm_at p ps F G l :
  NoDup (map fst l) -> al_find N.eqb p l = Some ps ->
  norm_ps K p (F ps) = G (norm_ps K p ps) ->
  map (norm_entry K) (al_modify N.eqb p F l) = al_modify N.eqb p G (map (norm_entry K) l).
Proof.
  intros Hnd Hf HF. unfold al_modify. rewrite !map_map. apply map_ext_in. intros [q ps'] Hin. unfold norm_entry. cbn [fst snd].
  destruct (p =? q) eqn:E; [|reflexivity]. apply N.eqb_eq in E. subst q.
  assert (ps' = ps) by (apply (NoDup_keys_in_eq l p ps' ps Hnd Hin), (al_find_some_in _ Neqb_spec _ _ _ Hf)).
  subst ps'. cbn [fst snd]. rewrite HF. reflexivity.
Qed.

Lemma modify_norm_same_at p ps F l :
  NoDup (map fst l) -> al_find N.eqb p l = Some ps ->
  norm_ps K p (F ps) = norm_ps K p ps ->
  map (norm_entry K) (al_modify N.eqb p F l) = map (norm_entry K) l.
Proof.
  intros Hnd Hf HF. unfold al_modify. rewrite !map_map. apply map_ext_in. intros [q ps'] Hin. unfold norm_entry. cbn [fst snd].
  destruct (p =? q) eqn:E; [|reflexivity]. apply N.eqb_eq in E. subst q.
  assert (ps' = ps) by (apply (NoDup_keys_in_eq l p ps' ps Hnd Hin), (al_find_some_in _ Neqb_spec _ _ _ Hf)).
  subst ps'. cbn [fst snd]. rewrite HF. reflexivity.
Qed.

Lemma modify_none {V} p (F : V -> V) (l : list (N * V)) : al_find N.eqb p l = None -> al_modify N.eqb p F l = l.
Proof.
  intros H. unfold al_modify. induction l as [|[q v] l IH]; [reflexivity|]. cbn [al_find] in H. cbn [map fst snd].
  destruct (p =? q); [discriminate|]. rewrite (IH H). reflexivity.
Qed.

Lemma peers_ins_norm p ps l :
  peers_ins p (norm_ps K p ps) (map (norm_entry K) l) = map (norm_entry K) (peers_ins p ps l).
Proof.
  induction l as [|[q v] l IH]; [reflexivity|]. cbn [map norm_entry fst snd peers_ins].
  destruct (p <? q); cbn [map norm_entry fst snd]; [reflexivity | rewrite IH; reflexivity].
Qed.

Lemma n_remove_self k : n_remove k [k] = [].
Proof. unfold n_remove. cbn [filter]. rewrite N.eqb_refl. reflexivity. Qed.

(* ---------- running a list of 0 or 1 ops ---------- *)
Lemma run_st_nil s : run_st s [] = s.
Proof. reflexivity. Qed.
Lemma run_outs_nil s : run_outs s [] = [].
Proof. reflexivity. Qed.
Lemma run_st_one s o : run_st s [o] = fst (cstep s o).
Proof. unfold run_st. rewrite crun_from_cons. reflexivity. Qed.
Lemma run_outs_one s o : run_outs s [o] = snd (cstep s o).
Proof. unfold run_outs. rewrite crun_from_cons. cbn [fst crun_from all_outs concat]. apply app_nil_r. Qed.

(* ---------- outputs that carry no connection ---------- *)
Lemma task_out_plain l : Forall task_out l -> filter not_bad l = l /\ map (norm_out K) l = l.
Proof.
  induction 1 as [|o l Ho _ [IH1 IH2]]; [split; reflexivity|].
  destruct o; try destruct Ho; cbn [filter not_bad map norm_out]; rewrite IH1, IH2; split; reflexivity.
Qed.

Lemma out_of_event_norm ev : out_of_event (norm_ev K ev) = norm_out K (out_of_event ev) /\ not_bad (out_of_event ev) = true.
Proof. destruct ev; split; reflexivity. Qed.

Lemma filter_not_bad_app a b : filter not_bad (a ++ b) = filter not_bad a ++ filter not_bad b.
Proof. apply filter_app. Qed.

(* ---------- the invariants the simulation needs ---------- *)
Definition GOOD (s : cstate) : Prop :=
  NoDup (map fst (cs_peers s)) /\ forall p ps, In (p, ps) (cs_peers s) -> p_conns ps <> [].

Definition PK (now : time) (ps : peer_state) : Prop := p_conns ps <> [] /\ peer_ok now ps = true.
Definition PKS (s : cstate) : Prop := forall p ps, In (p, ps) (cs_peers s) -> PK (cs_now s) ps.

(* ---------- update_handlers ---------- *)
Lemma find_ren_choice p ch : al_find N.eqb p (ren_choice K ch) = option_map (fun _ => K p) (al_find N.eqb p ch).
Proof.
  unfold ren_choice. induction ch as [|[q c] ch IH]; [reflexivity|]. cbn [map fst snd al_find].
  destruct (p =? q) eqn:E; [apply N.eqb_eq in E; subst; reflexivity | exact IH].
Qed.

Lemma pick_conn_single ch p :
  exists bad, pick_conn (ren_choice K ch) p [K p] (K p) = (K p, bad) /\ filter not_bad bad = [].
Proof.
  unfold pick_conn. rewrite find_ren_choice. destruct (al_find N.eqb p ch); cbn [option_map].
  - unfold n_mem. cbn [existsb]. rewrite N.eqb_refl. cbn [orb]. exists []. split; reflexivity.
  - exists [OBadChoice]. split; reflexivity.
Qed.

Lemma pick_conn_bad ch p conns d : filter not_bad (snd (pick_conn ch p conns d)) = [].
Proof. unfold pick_conn. destruct (al_find N.eqb p ch) as [c|]; [destruct (n_mem c conns)|]; reflexivity. Qed.

Lemma uh_gate_norm now p ps :
  PK now ps ->
  (uh_gate now ps = None /\ uh_gate now (norm_ps K p ps) = None) \/
  (p_ss ps = SsReady /\ uh_gate now ps = Some ps /\ uh_gate now (norm_ps K p ps) = Some (norm_ps K p ps)) \/
  (exists ps1 ps1', uh_gate now ps = Some ps1 /\ uh_gate now (norm_ps K p ps) = Some ps1' /\
                    p_conns ps1 = [] /\ p_conns ps1' = []).
Proof.
  intros [Hne Hok]. unfold peer_ok, fault_conn in Hok. unfold uh_gate, norm_ps. cbn [p_ss p_conns p_wl p_send_full].
  destruct (p_ss ps) as [|t c|t c|t c|c] eqn:Ess; cbn [ren_ss].
  - right. left. split; [reflexivity|]. split; reflexivity.
  - destruct (now - t <? RECEIVE_REQUEST_TIMEOUT); [left; split; reflexivity|].
    right. right. eexists. eexists. split; [reflexivity|]. split; [reflexivity|]. cbn [p_conns].
    split; [|apply n_remove_self]. destruct (n_remove c (p_conns ps)); [reflexivity | discriminate].
  - left. split; reflexivity.
  - left. split; reflexivity.
  - right. right. eexists. eexists. split; [reflexivity|]. split; [reflexivity|]. cbn [p_conns].
    split; [|apply n_remove_self]. destruct (n_remove c (p_conns ps)); [reflexivity | discriminate].
Qed.

Lemma PK_requested_now now conns c w sf : conns <> [] -> PK now (MkPeer conns (SsRequested now c) w sf).
Proof.
  intros H. split; [exact H|]. unfold peer_ok, fault_conn. cbn [p_ss]. rewrite N.sub_diag. reflexivity.
Qed.

Ltac split5 := split; [|split; [|split; [|split]]].

Lemma uh_peer_norm now w ch p ps :
  PK now ps ->
  uh_keep now w (ren_choice K ch) (norm_entry K (p, ps)) = map (norm_entry K) (uh_keep now w ch (p, ps)) /\
  uh_events now w (ren_choice K ch) (norm_entry K (p, ps)) = map (norm_ev K) (uh_events now w ch (p, ps)) /\
  filter not_bad (uh_outs now w (ren_choice K ch) (norm_entry K (p, ps))) = [] /\
  filter not_bad (uh_outs now w ch (p, ps)) = [] /\
  (forall q ps', In (q, ps') (uh_keep now w ch (p, ps)) -> PK now ps').
Proof.
  intros HPK. unfold uh_keep, uh_events, uh_outs, norm_entry. cbn [fst snd]. unfold uh_peer.
  destruct (uh_gate_norm now p ps HPK) as [[-> ->] | [(Ess & -> & ->) | (ps1 & ps1' & -> & -> & E1 & E1')]].
  - cbn [map norm_entry fst snd filter]. split5; try reflexivity. intros q ps' [[= <- <-] | []]. exact HPK.
  - destruct HPK as [Hne Hok]. cbn [norm_ps p_conns p_wl p_send_full p_ss].
    destruct (p_conns ps) as [|c0 cs] eqn:Ec; [congruence|].
    destruct (if p_send_full ps then wls_generate_full (p_wl ps) w else wls_generate_update (p_wl ps) w) as [es wls'].
    destruct (negb (p_send_full ps) && match es with [] => true | _ :: _ => false end).
    + cbn [map norm_entry fst snd filter]. rewrite Ess. split5; try reflexivity.
      intros q ps' [[= <- <-] | []]. split; [cbn [p_conns]; discriminate | reflexivity].
    + destruct (pick_conn_single ch p) as (bad' & -> & Hbad').
      pose proof (pick_conn_bad ch p (c0 :: cs) c0) as Hbad.
      destruct (pick_conn ch p (c0 :: cs) c0) as [c bad]. cbn [snd] in Hbad.
      cbn [map norm_entry norm_ev fst snd]. split5; try reflexivity; try assumption.
      intros q ps' [[= <- <-] | []]. apply PK_requested_now. discriminate.
  - rewrite E1, E1'. cbn [map filter]. split5; try reflexivity. intros q ps' [].
Qed.

Lemma uh_loop_norm now w ch l :
  (forall p ps, In (p, ps) l -> PK now ps) ->
  flat_map (uh_keep now w (ren_choice K ch)) (map (norm_entry K) l) = map (norm_entry K) (flat_map (uh_keep now w ch) l) /\
  flat_map (uh_events now w (ren_choice K ch)) (map (norm_entry K) l) = map (norm_ev K) (flat_map (uh_events now w ch) l) /\
  filter not_bad (flat_map (uh_outs now w (ren_choice K ch)) (map (norm_entry K) l)) = [] /\
  filter not_bad (flat_map (uh_outs now w ch) l) = [] /\
  (forall q ps', In (q, ps') (flat_map (uh_keep now w ch) l) -> PK now ps').
Proof.
  induction l as [|[p ps] l IH]; intros H; [split5; try reflexivity; intros q ps' []|].
  destruct (uh_peer_norm now w ch p ps (H p ps (or_introl eq_refl))) as (A1 & A2 & A3 & A4 & A5).
  destruct (IH (fun q v Hin => H q v (or_intror Hin))) as (B1 & B2 & B3 & B4 & B5).
  cbn [map flat_map]. rewrite A1, A2, B1, B2, !map_app, !filter_not_bad_app, A3, A4, B3, B4.
  split5; try reflexivity. intros q ps' Hin. apply in_app_iff in Hin. destruct Hin as [Hin | Hin]; [eapply A5 | eapply B5]; exact Hin.
Qed.

Lemma update_handlers_sim ch s :
  PKS s ->
  fst (fst (update_handlers (norm K s) (ren_choice K ch))) = norm K (fst (fst (update_handlers s ch))) /\
  snd (update_handlers (norm K s) (ren_choice K ch)) = snd (update_handlers s ch) /\
  filter not_bad (snd (fst (update_handlers (norm K s) (ren_choice K ch)))) = [] /\
  filter not_bad (snd (fst (update_handlers s ch))) = [] /\
  PKS (fst (fst (update_handlers s ch))).
Proof.
  intros HP. unfold update_handlers. rewrite !uh_loop_flat.
  change (cs_peers (norm K s)) with (map (norm_entry K) (cs_peers s)).
  change (cs_now (norm K s)) with (cs_now s). change (cs_wl (norm K s)) with (cs_wl s).
  destruct (uh_loop_norm (cs_now s) (cs_wl s) ch (cs_peers s) HP) as (B1 & B2 & B3 & B4 & B5).
  rewrite B1, B2. cbn [fst snd]. split; [|split; [|split; [exact B3 | split; [exact B4 | exact B5]]]].
  - unfold norm, set_queue, set_peers. cbn [cs_queue cs_wl cs_peers cs_c2q cs_tasks cs_ready cs_next_task cs_abort cs_next_qid cs_deadline cs_new_blocks cs_now cs_next_call].
    rewrite map_app. reflexivity.
  - destruct (flat_map (uh_events (cs_now s) (cs_wl s) ch) (cs_peers s)); reflexivity.
Qed.

(* ---------- the task phase ---------- *)
Lemma wanted_again_norm c l : map (norm_entry K) (wanted_again_all c l) = wanted_again_all c (map (norm_entry K) l).
Proof. unfold wanted_again_all. rewrite !map_map. apply map_ext. intros [q ps]. reflexivity. Qed.

Lemma handle_result_norm s r :
  handle_task_result (norm K s) r = (norm K (fst (handle_task_result s r)), snd (handle_task_result s r)).
Proof.
  destruct r as [q c res|ok bl|]; cbn [handle_task_result]; [destruct res| destruct ok |]; try reflexivity.
  change (cs_wl (set_abort (norm K s) (al_remove N.eqb q (cs_abort (norm K s))))) with (cs_wl s).
  change (cs_wl (set_abort s (al_remove N.eqb q (cs_abort s)))) with (cs_wl s).
  destruct (wl_insert (cs_wl s) c) as [w' ins]. destruct ins; cbn [fst snd]; [|reflexivity].
  unfold norm, set_c2q, set_peers, set_wl, set_abort.
  cbn [cs_queue cs_wl cs_peers cs_c2q cs_tasks cs_ready cs_next_task cs_abort cs_next_qid cs_deadline cs_new_blocks cs_now cs_next_call].
  rewrite wanted_again_norm. reflexivity.
Qed.

Lemma handle_result_PKS s r : PKS s -> PKS (fst (handle_task_result s r)).
Proof.
  intros HP. destruct r as [q c res|ok bl|]; cbn [handle_task_result]; [destruct res| destruct ok |]; try exact HP.
  destruct (wl_insert (cs_wl (set_abort s (al_remove N.eqb q (cs_abort s)))) c) as [w' ins]. destruct ins; cbn [fst]; [|exact HP].
  intros p ps Hin. cbn [set_c2q set_peers set_wl set_abort cs_peers cs_now] in Hin |- *. unfold wanted_again_all in Hin.
  apply in_map_iff in Hin. destruct Hin as ([p0 ps0] & [= <- <-] & Hin). exact (HP _ _ Hin).
Qed.

Lemma fire_timer_norm s : fire_timer (norm K s) = norm K (fire_timer s).
Proof.
  unfold fire_timer, norm.
  cbn [cs_queue cs_wl cs_peers cs_c2q cs_tasks cs_ready cs_next_task cs_abort cs_next_qid cs_deadline cs_new_blocks cs_now cs_next_call].
  f_equal. rewrite !map_map. apply map_ext. intros [q ps]. reflexivity.
Qed.

Lemma fire_timer_PKS s : PKS s -> PKS (fire_timer s).
Proof.
  intros HP p ps Hin. cbn [fire_timer cs_peers cs_now] in Hin |- *. apply in_map_iff in Hin.
  destruct Hin as ([p0 ps0] & [= <- <-] & Hin). exact (HP _ _ Hin).
Qed.

(* ---------- one trip round the poll loop ---------- *)
Ltac split4 := split; [|split; [|split]].

Lemma poll_iter_sim ch s :
  PKS s ->
  fst (fst (poll_iter (ren_choice K ch) (norm K s))) = norm K (fst (fst (poll_iter ch s))) /\
  snd (poll_iter (ren_choice K ch) (norm K s)) = snd (poll_iter ch s) /\
  filter not_bad (snd (fst (poll_iter (ren_choice K ch) (norm K s)))) = map (norm_out K) (filter not_bad (snd (fst (poll_iter ch s)))) /\
  PKS (fst (fst (poll_iter ch s))).
Proof.
  intros HP. unfold poll_iter. change (cs_queue (norm K s)) with (map (norm_ev K) (cs_queue s)).
  destruct (cs_queue s) as [|ev q] eqn:Eq; cbn [map].
  2:{ cbn [fst snd filter map]. destruct (out_of_event_norm ev) as [E1 E2]. rewrite E1, E2.
      destruct (not_bad (norm_out K (out_of_event ev))) eqn:E3.
      - split4; try reflexivity. exact HP.
      - destruct ev; discriminate. }
  change (timer_ready (norm K s)) with (timer_ready s). destruct (timer_ready s).
  { cbn [fst snd filter map]. rewrite fire_timer_norm. split4; try reflexivity. apply fire_timer_PKS, HP. }
  change (cs_ready (norm K s)) with (cs_ready s). change (cs_tasks (norm K s)) with (cs_tasks s).
  change (cs_next_call (norm K s)) with (cs_next_call s).
  pose proof (tasks_outs_task_out s) as Hto. unfold tasks_outs in Hto.
  destruct (poll_next (cs_ready s) (cs_tasks s) (cs_next_call s)) as [[[[ts rq] nc] outs] res].
  destruct (task_out_plain outs Hto) as [Ho1 Ho2].
  change (set_tasks_calls (norm K s) ts rq nc) with (norm K (set_tasks_calls s ts rq nc)).
  assert (HP1 : PKS (set_tasks_calls s ts rq nc)) by exact HP.
  set (s1 := set_tasks_calls s ts rq nc) in *.
  destruct res as [r|].
  - rewrite handle_result_norm. pose proof (handle_result_task_out s1 r) as Hh. pose proof (handle_result_PKS s1 r HP1) as HP2.
    destruct (handle_task_result s1 r) as [s2 evs]. cbn [fst snd] in *.
    destruct (task_out_plain evs Hh) as [He1 He2].
    rewrite !filter_not_bad_app, Ho1, He1, map_app, Ho2, He2. split4; try reflexivity. exact HP2.
  - destruct (update_handlers_sim ch s1 HP1) as (U1 & U2 & U3 & U4 & U5).
    destruct (update_handlers (norm K s1) (ren_choice K ch)) as [[s2' o2'] u']. destruct (update_handlers s1 ch) as [[s2 o2] u].
    cbn [fst snd] in *. rewrite !filter_not_bad_app, Ho1, U3, U4, !app_nil_r, Ho2. split4; try assumption; reflexivity.
Qed.

Lemma poll_loop_sim ch fuel : forall s,
  PKS s ->
  fst (poll_loop fuel (ren_choice K ch) (norm K s)) = norm K (fst (poll_loop fuel ch s)) /\
  filter not_bad (snd (poll_loop fuel (ren_choice K ch) (norm K s))) = map (norm_out K) (filter not_bad (snd (poll_loop fuel ch s))).
Proof.
  induction fuel as [|f IH]; intros s HP; cbn [poll_loop]; [split; reflexivity|].
  destruct (poll_iter_sim ch s HP) as (I1 & I2 & I3 & I4).
  destruct (poll_iter (ren_choice K ch) (norm K s)) as [[s1' outs'] again']. destruct (poll_iter ch s) as [[s1 outs] again].
  cbn [fst snd] in *. subst again' s1'. destruct again; [|split; [reflexivity | exact I3]].
  destruct (IH s1 I4) as [J1 J2].
  destruct (poll_loop f (ren_choice K ch) (norm K s1)) as [s2' o2']. destruct (poll_loop f ch s1) as [s2 o2]. cbn [fst snd] in *.
  split; [exact J1|]. rewrite !filter_not_bad_app, map_app, I3, J2. reflexivity.
Qed.

Lemma poll_fuel_norm s : poll_fuel (norm K s) = poll_fuel s.
Proof. unfold poll_fuel, norm. cbn [cs_queue cs_ready cs_peers]. rewrite !map_length. reflexivity. Qed.

Lemma c_poll_sim s ch :
  PKS s ->
  fst (c_poll (norm K s) (ren_choice K ch)) = norm K (fst (c_poll s ch)) /\
  filter not_bad (snd (c_poll (norm K s) (ren_choice K ch))) = map (norm_out K) (filter not_bad (snd (c_poll s ch))).
Proof. intros HP. unfold c_poll. rewrite poll_fuel_norm. apply poll_loop_sim, HP. Qed.

Lemma GOOD_PKS s : GOOD s -> peers_ok s = true -> PKS s.
Proof.
  intros [_ Hne] Hok p ps Hin. split; [exact (Hne p ps Hin)|]. unfold peers_ok in Hok. rewrite forallb_forall in Hok.
  exact (Hok (p, ps) Hin).
Qed.

(* ---------- incoming messages ---------- *)
Definition norm_acc (a : inc_acc) : inc_acc :=
  MkInc (ia_wl a) (ia_pwl a) (ia_c2q a) (map (norm_ev K) (ia_queue a)) (ia_new a) (ia_panic a).

Lemma inc_block_norm a b : inc_block (norm_acc a) b = norm_acc (inc_block a b).
Proof.
  unfold inc_block. cbn [norm_acc ia_panic ia_wl ia_c2q ia_pwl ia_queue ia_new]. destruct (ia_panic a); [reflexivity|].
  destruct b as [c data]. destruct (wl_remove (ia_wl a) c) as [w' removed]. destruct removed; cbn [negb].
  - unfold norm_acc. cbn [ia_panic ia_wl ia_c2q ia_pwl ia_queue ia_new]. rewrite map_app, map_map. reflexivity.
  - destruct (al_mem cid_eqb c (ia_c2q a)); reflexivity.
Qed.

Lemma inc_blocks_norm bl : forall a, fold_left inc_block bl (norm_acc a) = norm_acc (fold_left inc_block bl a).
Proof. induction bl as [|b bl IH]; intros a; cbn [fold_left]; [reflexivity|]. rewrite inc_block_norm. apply IH. Qed.

Lemma c_incoming_norm s p pres blocks :
  c_incoming (norm K s) p pres blocks = (norm K (fst (c_incoming s p pres blocks)), snd (c_incoming s p pres blocks)).
Proof.
  unfold c_incoming. change (cs_peers (norm K s)) with (map (norm_entry K) (cs_peers s)). rewrite find_norm.
  destruct (al_find N.eqb p (cs_peers s)) as [ps|]; cbn [option_map]; [|reflexivity].
  change (p_wl (norm_ps K p ps)) with (p_wl ps).
  change (MkInc (cs_wl (norm K s)) (fold_left apply_presence pres (p_wl ps)) (cs_c2q (norm K s)) (cs_queue (norm K s)) [] false)
    with (norm_acc (MkInc (cs_wl s) (fold_left apply_presence pres (p_wl ps)) (cs_c2q s) (cs_queue s) [] false)).
  rewrite inc_blocks_norm.
  set (a := fold_left inc_block blocks (MkInc (cs_wl s) (fold_left apply_presence pres (p_wl ps)) (cs_c2q s) (cs_queue s) [] false)).
  cbn [norm_acc ia_panic ia_wl ia_c2q ia_pwl ia_queue ia_new].
  assert (E : al_modify N.eqb p (fun ps0 => MkPeer (p_conns ps0) (p_ss ps0) (ia_pwl a) (p_send_full ps0)) (map (norm_entry K) (cs_peers s)) =
              map (norm_entry K) (al_modify N.eqb p (fun ps0 => MkPeer (p_conns ps0) (p_ss ps0) (ia_pwl a) (p_send_full ps0)) (cs_peers s))).
  { symmetry. apply modify_norm_all. intros q ps0. reflexivity. }
  rewrite E. destruct (ia_panic a); [reflexivity|]. destruct (ia_new a); reflexivity.
Qed.

(* ---------- the other ops ---------- *)
Lemma c_get_norm s oc : c_get (norm K s) oc = (norm K (fst (c_get s oc)), snd (c_get s oc)).
Proof.
  unfold c_get. destruct oc as [c|]; cbn [fst snd]; [reflexivity|].
  unfold norm, set_queue, bump_qid. cbn [cs_queue cs_wl cs_peers cs_c2q cs_tasks cs_ready cs_next_task cs_abort cs_next_qid cs_deadline cs_new_blocks cs_now cs_next_call].
  rewrite map_app. reflexivity.
Qed.

Lemma c_cancel_norm s q : c_cancel (norm K s) q = norm K (c_cancel s q).
Proof.
  unfold c_cancel. change (cs_abort (norm K s)) with (cs_abort s).
  assert (E : match al_find N.eqb q (cs_abort s) with
              | Some tid => abort_task (set_abort (norm K s) (al_remove N.eqb q (cs_abort s))) tid
              | None => norm K s
              end = norm K match al_find N.eqb q (cs_abort s) with
                           | Some tid => abort_task (set_abort s (al_remove N.eqb q (cs_abort s))) tid
                           | None => s
                           end).
  { destruct (al_find N.eqb q (cs_abort s)) as [tid|]; [|reflexivity]. unfold abort_task.
    change (cs_tasks (set_abort (norm K s) (al_remove N.eqb q (cs_abort s)))) with (cs_tasks s).
    change (cs_tasks (set_abort s (al_remove N.eqb q (cs_abort s)))) with (cs_tasks s).
    destruct (al_mem N.eqb tid (cs_tasks s)); reflexivity. }
  rewrite E.
  set (s1 := match al_find N.eqb q (cs_abort s) with
             | Some tid => abort_task (set_abort s (al_remove N.eqb q (cs_abort s))) tid
             | None => s
             end).
  change (cs_c2q (norm K s1)) with (cs_c2q s1).
  destruct (find_query q (cs_c2q s1)) as [[c qs]|]; [|reflexivity]. destruct (swap_remove_q q qs); reflexivity.
Qed.

Lemma c_release_norm s call r : c_release (norm K s) call r = norm K (c_release s call r).
Proof.
  unfold c_release. change (cs_tasks (norm K s)) with (cs_tasks s).
  destruct (find (call_is call) (cs_tasks s)) as [[tid t]|]; reflexivity.
Qed.

Lemma ren_ss_report now k r : ren_ss k (state_of_report now r) = state_of_report now (ren_rp k r).
Proof. destruct r; reflexivity. Qed.

(* ---------- one step ---------- *)
Lemma step_sim s o :
  GOOD s -> op_ok s o = true ->
  run_st (norm K s) (proj_op K s o) = norm K (fst (cstep s o)) /\
  filter not_bad (run_outs (norm K s) (proj_op K s o)) = map (norm_out K) (filter not_bad (snd (cstep s o))).
Proof.
  intros HG Hok. pose proof HG as [Hnd Hne]. destruct o as [p c|p c|oc|q|p pres blocks|p c r|call r|ms|ch|]; cbn [proj_op cstep fst snd].
  - (* CNewConn *)
    unfold c_new_conn. destruct (al_mem N.eqb p (cs_peers s)) eqn:M.
    + rewrite run_st_nil, run_outs_nil. split; [|reflexivity].
      unfold norm, set_peers. cbn [cs_queue cs_wl cs_peers cs_c2q cs_tasks cs_ready cs_next_task cs_abort cs_next_qid cs_deadline cs_new_blocks cs_now cs_next_call].
      f_equal. unfold al_modify. rewrite map_map. apply map_ext. intros [q ps]. cbn [fst snd]. destruct (p =? q); reflexivity.
    + rewrite run_st_one, run_outs_one. cbn [cstep fst snd]. split; [|reflexivity]. unfold c_new_conn.
      change (cs_peers (norm K s)) with (map (norm_entry K) (cs_peers s)). rewrite mem_norm, M.
      change (add_conn (K p) new_peer_state) with (norm_ps K p (add_conn c new_peer_state)). rewrite peers_ins_norm. reflexivity.
  - (* CConnClosed *)
    unfold c_conn_closed. destruct (al_find N.eqb p (cs_peers s)) as [ps|] eqn:Ef.
    + cbn [remove_conn p_conns]. destruct (n_remove c (p_conns ps)) as [|x xs] eqn:Er.
      * rewrite run_st_one, run_outs_one. cbn [cstep fst snd]. split; [|reflexivity]. unfold c_conn_closed.
        change (cs_peers (norm K s)) with (map (norm_entry K) (cs_peers s)). rewrite find_norm, Ef. cbn [option_map remove_conn norm_ps p_conns].
        rewrite n_remove_self, remove_norm. reflexivity.
      * rewrite run_st_nil, run_outs_nil. split; [|reflexivity].
        unfold norm, set_peers. cbn [cs_queue cs_wl cs_peers cs_c2q cs_tasks cs_ready cs_next_task cs_abort cs_next_qid cs_deadline cs_new_blocks cs_now cs_next_call].
        f_equal. unfold al_modify. rewrite map_map. apply map_ext. intros [q v]. cbn [fst snd]. destruct (p =? q); reflexivity.
    + rewrite run_st_nil, run_outs_nil. split; reflexivity.
  - (* CGet *)
    rewrite run_st_one, run_outs_one. cbn [cstep]. rewrite c_get_norm. cbn [fst snd]. split; [reflexivity|].
    unfold c_get. destruct oc; reflexivity.
  - (* CCancel *)
    rewrite run_st_one, run_outs_one. cbn [cstep fst snd]. rewrite c_cancel_norm. split; reflexivity.
  - (* CIncoming *)
    rewrite run_st_one, run_outs_one. cbn [cstep]. rewrite c_incoming_norm. cbn [fst snd]. split; [reflexivity|].
    unfold c_incoming. destruct (al_find N.eqb p (cs_peers s)) as [ps|]; [|reflexivity].
    match goal with |- context [ia_panic ?a] => destruct (ia_panic a); [reflexivity | destruct (ia_new a); reflexivity] end.
  - (* CReport *)
    unfold c_report. destruct (al_find N.eqb p (cs_peers s)) as [ps|] eqn:Ef.
    + destruct (report_accepted ps c) eqn:Ea.
      * rewrite run_st_one, run_outs_one. cbn [cstep fst snd]. split; [|reflexivity]. unfold c_report.
        change (cs_peers (norm K s)) with (map (norm_entry K) (cs_peers s)). change (cs_now (norm K s)) with (cs_now s).
        unfold norm at 2, set_peers. cbn [cs_queue cs_wl cs_peers cs_c2q cs_tasks cs_ready cs_next_task cs_abort cs_next_qid cs_deadline cs_new_blocks cs_now cs_next_call].
        unfold norm. cbn [cs_queue cs_wl cs_peers cs_c2q cs_tasks cs_ready cs_next_task cs_abort cs_next_qid cs_deadline cs_new_blocks cs_now cs_next_call].
        f_equal. symmetry. apply (modify_norm_at p ps); [exact Hnd | exact Ef|]. rewrite Ea.
        assert (Ea' : report_accepted (norm_ps K p ps) (K p) = true).
        { unfold report_accepted in *. cbn [norm_ps p_ss]. destruct (p_ss ps); cbn [sending_conn ren_ss] in *; try discriminate; apply N.eqb_refl. }
        rewrite Ea'. unfold norm_ps. cbn [p_conns p_ss p_wl p_send_full]. rewrite ren_ss_report. reflexivity.
      * rewrite run_st_nil, run_outs_nil. split; [|reflexivity].
        unfold norm, set_peers. cbn [cs_queue cs_wl cs_peers cs_c2q cs_tasks cs_ready cs_next_task cs_abort cs_next_qid cs_deadline cs_new_blocks cs_now cs_next_call].
        f_equal. symmetry. apply (modify_norm_same_at p ps); [exact Hnd | exact Ef|]. rewrite Ea. reflexivity.
    + rewrite run_st_nil, run_outs_nil. split; [|reflexivity]. rewrite (modify_none p _ _ Ef). destruct s; reflexivity.
  - (* CRelease *)
    rewrite run_st_one, run_outs_one. cbn [cstep fst snd]. rewrite c_release_norm. split; reflexivity.
  - (* CAdvance *)
    rewrite run_st_one, run_outs_one. cbn [cstep fst snd]. split; reflexivity.
  - (* CPoll *)
    rewrite run_st_one, run_outs_one. cbn [cstep]. cbn [op_ok] in Hok. apply c_poll_sim, GOOD_PKS; assumption.
  - (* CTakeNewBlocks *)
    rewrite run_st_one, run_outs_one. cbn [cstep fst snd c_take_new_blocks]. split; reflexivity.
Qed.

End Sim.
