(* Tie_server.v — the outbound split of /repo/src/server.rs (regenerated into Extracted.v on every run) has the
   shape modelled by ServerHandler.bfit_go / blocks_fitting_in_message and ServerHandler_wire.wire_block_size *)
From BS Require Import Bytes Types Frame ServerHandler ServerHandler_wire Extracted.
Open Scope N_scope.

Lemma tie_split_addend : Extracted.split_addend = 0.        (* size += 1 + sizeof_len(block.get_size()) = wire_block_size *)  Proof. reflexivity. Qed.
Lemma tie_split_operator : Extracted.split_operator = 0.    (* `size > MAX_MESSAGE_SIZE` = `MAX_MESSAGE_SIZE <? size'` *)  Proof. reflexivity. Qed.
Lemma tie_split_limit : Extracted.split_limit = 0 /\ Extracted.max_message_size = MAX_MESSAGE_SIZE.  Proof. split; reflexivity. Qed.
Lemma tie_split_early_return : Extracted.split_early_return = 0.   (* n.max(1) = N.max n 1 *)  Proof. reflexivity. Qed.
Lemma tie_split_shape : Extracted.split_shape = 0 /\ Extracted.split_call = 0.  Proof. split; reflexivity. Qed.

(* PeerWantlist::process_wantlist / wantlist_replace: cap test `len >= MAX` before each insertion (full and update), cancels and
   undecodable CIDs skipped in a full list, an update split into cancels and additions with the cancels applied first,
   replacement = set difference both ways — the shape Server.v's pw_full / pw_update implement *)
Lemma tie_srv_wantlist_shape : Extracted.srv_wantlist_shape = [0; 0; 0; 0].  Proof. reflexivity. Qed.
