(* Tie_prefix.v — the values the CidPrefix model uses are the values in /repo now
   (Extracted.v is regenerated from the working tree by tools/gen_extracted.py on every run). *)
From BS Require Import Bytes Cid Prefix Extracted.

Lemma tie_dag_pb : Extracted.dag_pb = DAG_PB.                 Proof. reflexivity. Qed.
Lemma tie_sha2_256 : Extracted.sha2_256 = SHA2_256.           Proof. reflexivity. Qed.
Lemma tie_sha2_256_size : Extracted.sha2_256_size = SHA2_256_SIZE.  Proof. reflexivity. Qed.
(* from_bytes rejects an explicit version 0 (model: `Some V0 => None`) *)
Lemma tie_prefix_rejects_explicit_v0 : Extracted.prefix_rejects_explicit_v0 = true.  Proof. reflexivity. Qed.
(* to_cid rejects `multihash_size > S` (model: `S <? p_size p`) *)
Lemma tie_prefix_size_check : Extracted.prefix_size_check_operator = 0.  Proof. reflexivity. Qed.
