(* NetF_proofs6.v — package P, part 6:
   (a) the end points of every connection exist, in every net reachable with faults (`conns_ex`), hence no wantlist ever
       evaporates (`FtVoid` never happens) and `C14_net_whole_or_failed`: conservation + the meaning of every fate, over
       the history of ANY run with faults from `net_init`;
   (b) the negative half of C05, in general (`C05_net_stays_forgotten`): once i's client has no peer entry for j while `conns`
       holds the pair, no step other than closing that connection gives the entry back, and i never hands a wantlist for j
       to the connection again. *)
From BS Require Import Server_lemmas Server_inv Wantlist_proofs Client_proofs Client_proofs2 Client_proofs3 Client_proofs4
  Client_proofs15 Net Net_proofs2 Net_proofs3 Net_proofs4 Net_proofs5 Net_proofs6 Net_proofs7 Net_proofs9
  NetF NetF_proofs NetF_proofs4 NetF_proofs5.
From Coq Require Import ZArith ZifyBool ZifyN ZifyNat Lia Permutation.
Open Scope N_scope.

Lemma get_node_some_lt s k : get_node s k <> None <-> (N.to_nat k < length (nodes s))%nat.
Proof. unfold get_node. apply nth_error_Some. Qed.

Lemma set_node_len s i n : length (nodes (set_node s i n)) = length (nodes s).
Proof. unfold set_node. cbn [nodes]. apply set_nth_length. Qed.

Lemma on_node_len s i f : length (nodes (on_node s i f)) = length (nodes s).
Proof. unfold on_node. destruct (get_node s i); [apply set_node_len | reflexivity]. Qed.

Section Exist.
  Variables (Sz : N) (Hh : hash_fn).

  Lemma nstep_len s o : length (nodes (fst (nstep Sz Hh s o))) = length (nodes s).
  Proof.
    destruct o; cbn [nstep fst]; try apply on_node_len.
    - unfold do_connect. destruct (get_node s i); [|reflexivity]. destruct (get_node s j); [|reflexivity].
      destruct ((i =? j) || Net.connected s i j); [reflexivity|]. cbn [nodes]. rewrite !set_node_len. reflexivity.
    - unfold do_disconnect. destruct (get_node s i); [|reflexivity]. destruct (get_node s j); [|reflexivity].
      destruct (Net.connected s i j); [|reflexivity]. cbn [nodes]. rewrite !set_node_len. reflexivity.
    - cbn [nodes]. apply map_length.
    - unfold do_poll. destruct (get_node s i) as [n|]; [|reflexivity]. destruct (node_poll Sz n) as [n1 o].
      destruct (fold_left (hand_over s i) (o_wants o) (n1, [])) as [n2 ws]. cbn [fst nodes]. apply set_nth_length.
    - unfold do_deliver_w. destruct (take_first (w_between i j) (wire_w s)) as [[m rest]|]; [|reflexivity].
      match goal with |- context [get_node ?S0 i] => destruct (get_node S0 i) as [ni|]; [destruct (get_node S0 j) as [nj|]|] end; try reflexivity.
      match goal with |- context [node_incoming Sz Hh nj i ?M] => destruct (node_incoming Sz Hh nj i M) as [nj1 evs] end.
      cbn [fst]. rewrite on_node_len, set_node_len. reflexivity.
    - unfold do_deliver_b. destruct (take_first (b_between j i) (wire_b s)) as [[m rest]|]; [|reflexivity].
      destruct (get_node s i) as [ni|]; [|reflexivity].
      match goal with |- context [node_incoming Sz Hh ni j ?M] => destruct (node_incoming Sz Hh ni j M) as [ni1 evs] end.
      cbn [fst nodes]. apply set_nth_length.
  Qed.

  Lemma fail_w_len s i j d : length (nodes (fst (do_fail_w Sz Hh s i j d))) = length (nodes s).
  Proof.
    unfold do_fail_w. destruct (take_first (w_between i j) (wire_w s)) as [[m rest]|]; [|reflexivity].
    match goal with |- context [get_node ?S0 i] => destruct (get_node S0 i) as [ni|]; [destruct (get_node S0 j) as [nj|]|] end; try reflexivity.
    destruct d.
    - match goal with |- context [node_incoming Sz Hh nj i ?M] => destruct (node_incoming Sz Hh nj i M) as [nj1 evs] end.
      cbn [fst]. rewrite on_node_len, set_node_len. reflexivity.
    - cbn [fst]. rewrite on_node_len. reflexivity.
  Qed.

  Definition conns_ex (s : net) : Prop := forall a b, In (a, b) (conns s) -> get_node s a <> None /\ get_node s b <> None.

  Lemma conns_ex_mono s s' :
    length (nodes s') = length (nodes s) ->
    (forall a b, In (a, b) (conns s') -> In (a, b) (conns s) \/ (get_node s a <> None /\ get_node s b <> None)) ->
    conns_ex s -> conns_ex s'.
  Proof.
    intros El Hc H a b Hab. rewrite !get_node_some_lt, El, <- !get_node_some_lt. destruct (Hc a b Hab) as [Hin|Hex]; [apply H, Hin | exact Hex].
  Qed.

  Lemma conns_ex_nstep s o : conns_ex s -> conns_ex (fst (nstep Sz Hh s o)).
  Proof.
    intros H. apply (conns_ex_mono s); [apply nstep_len | | exact H]. intros a b Hab.
    destruct o; try (rewrite nstep_conns in Hab by exact I; left; exact Hab); cbn [nstep fst] in Hab.
    - unfold do_connect in Hab. destruct (get_node s i) as [ni|] eqn:Ei; [|left; exact Hab]. destruct (get_node s j) as [nj|] eqn:Ej; [|left; exact Hab].
      destruct ((i =? j) || Net.connected s i j); [left; exact Hab|]. cbn [conns] in Hab. apply in_app_iff in Hab.
      destruct Hab as [Hab|[Hab|[]]]; [left; exact Hab|]. right. unfold norm in Hab.
      destruct (i <? j); injection Hab as <- <-; rewrite Ei, Ej; split; discriminate.
    - unfold do_disconnect in Hab. destruct (get_node s i) as [ni|]; [|left; exact Hab]. destruct (get_node s j) as [nj|]; [|left; exact Hab].
      destruct (Net.connected s i j); [|left; exact Hab]. cbn [conns] in Hab. apply filter_In in Hab. left. apply Hab.
  Qed.

  Lemma conns_ex_fstep s o : conns_ex s -> conns_ex (fst (fstep Sz Hh s o)).
  Proof.
    intros H. destruct o as [o|i j d|i j]; cbn [fstep fst].
    - apply conns_ex_nstep, H.
    - apply (conns_ex_mono s); [apply fail_w_len | | exact H]. intros a b Hab. rewrite do_fail_w_conns in Hab. left. exact Hab.
    - rewrite (do_reconnect_steps Sz Hh). apply conns_ex_nstep, conns_ex_nstep, H.
  Qed.

  Lemma conns_ex_init n : conns_ex (net_init n).
  Proof. intros a b []. Qed.

  (* ---------- C14 over the history of a run with faults ---------- *)
  Definition finv (s : net) : Prop := linv s /\ conns_ex s.

  Lemma finv_fstep s o : finv s -> finv (fst (fstep Sz Hh s o)).
  Proof. intros [H1 H2]. split; [apply linv_fstep, H1 | apply conns_ex_fstep, H2]. Qed.

  Lemma finv_frun ops : forall s, finv s -> finv (fst (frun Sz Hh s ops)).
  Proof. induction ops as [|o ops IH]; intros s H; [exact H|]. rewrite frun_cons. cbn [fst]. apply IH, finv_fstep, H. Qed.

  Lemma finv_init n : finv (net_init n).
  Proof. split; [apply linv_init | apply conns_ex_init]. Qed.

  Lemma fates_sound_from ops : forall s, finv s ->
    forall f, In f (h_fates (snd (frun_h Sz Hh s ops))) ->
    exists pre o post, ops = pre ++ o :: post /\
      let s1 := fst (frun Sz Hh s pre) in
      In f (h_fates (hist_of Sz Hh s1 o)) /\ fate_spec Sz Hh s1 (fst (fstep Sz Hh s1 o)) f.
  Proof.
    induction ops as [|o ops IH]; intros s Hinv f Hf; [destruct Hf|]. cbn [frun_h] in Hf.
    pose proof (finv_fstep s o Hinv) as Hinv1. destruct (fstep Sz Hh s o) as [s1 e1] eqn:Es. cbn [fst] in Hinv1.
    specialize (IH s1 Hinv1 f). destruct (frun_h Sz Hh s1 ops) as [[s2 e2] h2]. cbn [snd hist_app h_fates] in *.
    apply in_app_iff in Hf. destruct Hf as [Hf|Hf].
    - exists [], o, ops. split; [reflexivity|]. cbn [frun fst]. split; [exact Hf|]. destruct Hinv as [Hl Hex].
      apply (fate_sound Sz Hh s o f Hl Hex Hf).
    - destruct (IH Hf) as (pre & o' & post & -> & H1 & H2). exists (o :: pre), o', post. split; [reflexivity|].
      cbn zeta in *. rewrite frun_cons, Es. cbn [fst]. split; assumption.
  Qed.

  (* C14 at network level: in every run with faults, every wantlist handed to a connection ends in exactly one fate or is
     still in flight (conservation), and every fate means what its name says (see `fate_spec`; `FtVoid` is False there) *)
  Theorem C14_net_whole_or_failed n ops :
    let r := frun_h Sz Hh (net_init n) ops in
    Permutation (h_entered (snd r)) (map fate_msg (h_fates (snd r)) ++ wire_w (fst (fst r))) /\
    forall f, In f (h_fates (snd r)) ->
      exists pre o post, ops = pre ++ o :: post /\
        let s1 := fst (frun Sz Hh (net_init n) pre) in
        In f (h_fates (hist_of Sz Hh s1 o)) /\ fate_spec Sz Hh s1 (fst (fstep Sz Hh s1 o)) f.
  Proof.
    cbn zeta. split; [apply (C14_net_conservation Sz Hh n ops) | apply (fates_sound_from ops (net_init n) (finv_init n))].
  Qed.

  (* a dropped wantlist was dropped by the close of its own connection *)
  Lemma dropped_op s o m :
    In (FtDropped m) (h_fates (hist_of Sz Hh s o)) ->
    exists i j, (o = FOp (NDisconnect i j) \/ o = FReconnect i j) /\ disconnects s i j = true /\ w_touches i j m = true.
  Proof.
    assert (Hd : forall i j, In (FtDropped m) (h_fates (if disconnects s i j then MkHist [] (map FtDropped (filter (w_touches i j) (wire_w s))) else hist_nil)) ->
                   disconnects s i j = true /\ w_touches i j m = true).
    { intros i j H. destruct (disconnects s i j); [|destruct H]. split; [reflexivity|]. cbn [h_fates] in H. apply in_map_iff in H.
      destruct H as (m' & [= ->] & Hm). apply filter_In in Hm. apply Hm. }
    destruct o as [o|i j d|i j]; cbn [hist_of].
    - destruct o; cbn [hist_nil h_fates In]; try (intros []; fail).
      + intros H. exists i, j. split; [left; reflexivity | apply Hd, H].
      + destruct (take_first (w_between i j) (wire_w s)) as [[m' rest]|]; cbn [hist_nil h_fates In]; [|intros []].
        destruct (ends_exist s i j); intros [[=]|[]].
    - destruct (take_first (w_between i j) (wire_w s)) as [[m' rest]|]; cbn [hist_nil h_fates In]; [|intros []].
      destruct (ends_exist s i j); [destruct d|]; intros [[=]|[]].
    - intros H. exists i, j. split; [right; reflexivity | apply Hd, H].
  Qed.
End Exist.

(* ---------- (b) the forgotten peer stays forgotten ---------- *)
Definition untracked (j : N) (c : cstate) : Prop := ~ In j (map fst (cs_peers c)).

Lemma existsb_key_false {V} j (l : list (N * V)) : existsb (fun e => fst e =? j) l = false <-> ~ In j (map fst l).
Proof.
  split.
  - intros H Hin. apply in_map_iff in Hin. destruct Hin as (e & <- & He).
    assert (existsb (fun e0 => fst e0 =? fst e) l = true) by (apply existsb_exists; exists e; split; [exact He | apply N.eqb_refl]). congruence.
  - intros H. destruct (existsb (fun e => fst e =? j) l) eqn:E; [|reflexivity]. exfalso. apply H.
    apply existsb_exists in E. destruct E as (e & He & Hk). apply N.eqb_eq in Hk. rewrite <- Hk. apply in_map, He.
Qed.

Lemma untracked_cstep j c o : (forall c0, o <> CNewConn j c0) -> untracked j c -> untracked j (fst (cstep c o)).
Proof.
  intros Hn Hu. unfold untracked in *.
  destruct o; try (rewrite cstep_keys by exact I; exact Hu); cbn [cstep fst].
  - (* new connection to another peer *)
    unfold c_new_conn. destruct (al_mem N.eqb p (cs_peers c)); cbn [set_peers cs_peers].
    + rewrite al_modify_keys. exact Hu.
    + rewrite peers_ins_keys. intros [->|H]; [apply (Hn c0); reflexivity | exact (Hu H)].
  - unfold c_conn_closed. destruct (al_find N.eqb p (cs_peers c)) as [ps|]; [|exact Hu].
    destruct (p_conns (remove_conn c0 ps)); cbn [set_peers cs_peers].
    + intros H. apply in_map_iff in H. destruct H as (e & <- & He). unfold al_remove in He. apply filter_In in He. apply Hu, in_map, He.
    + rewrite al_modify_keys. exact Hu.
  - (* poll: no key appears *)
    destruct (c_poll_summary c choice) as (l1 & w & outsC & [Hl _ _ _ Hp _ _ _]). rewrite Hp. intros H.
    apply in_map_iff in H. destruct H as ([k ps'] & Ek & Hin). cbn [fst] in Ek. subst k. apply in_flat_map in Hin. destruct Hin as ([k0 psl] & He & Hin).
    unfold uh_keep in Hin. cbn [fst snd] in Hin. destruct (uh_peer (cs_now c) w choice k0 psl) as [[[ps'' evs] outs] dead].
    destruct dead; [destruct Hin|]. destruct Hin as [[= <- <-]|[]].
    apply Hu. rewrite <- (peers_link_keys _ _ Hl). apply in_map_iff. exists (k0, psl). split; [reflexivity | exact He].
Qed.

(* a poll hands wantlists to tracked peers only *)
Lemma poll_sends_tracked c ch p cn f es :
  INVS c -> In (OSendWantlist p cn f es) (snd (c_poll c ch)) -> In p (map fst (cs_peers c)).
Proof.
  intros HS Hin. destruct (c_poll_summary c ch) as (l1 & w & outsC & Hsum).
  destruct (send_in_poll c ch l1 w outsC p cn f es HS Hsum Hin) as (ps1 & Hp & _).
  destruct Hsum as [Hl _ _ _ _ _ _ _]. rewrite <- (peers_link_keys _ _ Hl). apply in_map_iff. exists (p, ps1). split; [reflexivity | exact Hp].
Qed.

Lemma hand_over_dst s k L : forall acc m,
  In m (snd (fold_left (hand_over s k) L acc)) -> In m (snd acc) \/ In (wm_dst m) (map x_peer L).
Proof.
  induction L as [|x L IH]; intros acc m; cbn [fold_left map]; [auto|]. intros H. destruct (IH _ _ H) as [H1|H1]; [|right; right; exact H1].
  destruct x as [[[p cn] f] es]. unfold hand_over in H1. destruct (Net.connected s k p); cbn [snd] in H1; [|left; exact H1].
  apply in_app_iff in H1. destruct H1 as [H1|[<-|[]]]; [left; exact H1 | right; left; reflexivity].
Qed.

Section Forgotten.
  Variables (Sz : N) (Hh : hash_fn).
  Variables (i j : N).

  Definition PF (k : N) (o : cop) : Prop := k = i -> forall c0, o <> CNewConn j c0.

  Lemma PF_nc k o : (forall p c, o <> CNewConn p c) -> PF k o.
  Proof. intros H _ c0. apply H. Qed.

  Lemma tracks_false s : tracks s i j = false <-> (forall n, get_node s i = Some n -> untracked j (n_client n)).
  Proof.
    unfold tracks, untracked. destruct (get_node s i) as [n|]; [|split; [discriminate | reflexivity]].
    rewrite existsb_key_false. split; [intros H n' [= <-]; exact H | intros H; apply H; reflexivity].
  Qed.

  Lemma fmoved_untracked s s' : fmoved PF s s' -> tracks s i j = false -> tracks s' i j = false.
  Proof.
    intros Hm Ht. apply tracks_false. intros n' Hn'. destruct (Hm i n' Hn') as (n & Hn & Hs).
    apply (fsteps_inv PF i (untracked j)) with (c := n_client n); [|exact Hs|apply (proj1 (tracks_false s) Ht n Hn)].
    intros c o _ Hp Hu. apply untracked_cstep; [apply Hp; reflexivity | exact Hu].
  Qed.

  Lemma PF_new s : Net.connected s i j = true -> forall a b, a <> b -> Net.connected s a b = false -> PF a (CNewConn b CONN).
  Proof. intros Hc a b _ Hab -> c0 [= -> _]. congruence. Qed.

  (* one base step *)
  Lemma forgotten_nstep s o :
    conns_lt s -> Net.connected s i j = true -> tracks s i j = false -> closes_pair i j (FOp o) = false ->
    tracks (fst (nstep Sz Hh s o)) i j = false /\ Net.connected (fst (nstep Sz Hh s o)) i j = true.
  Proof.
    intros Hlt Hc Ht Hcl. split.
    - apply (fmoved_untracked s); [|exact Ht]. apply (nstep_fmoved Sz Hh PF PF_nc s o Hlt (PF_new s Hc)).
    - destruct o; try (rewrite (connected_conns s) by (apply nstep_conns; exact I); exact Hc); cbn [nstep fst].
      + unfold do_connect. destruct (get_node s i0); [|exact Hc]. destruct (get_node s j0); [|exact Hc].
        destruct ((i0 =? j0) || Net.connected s i0 j0); [exact Hc|]. unfold Net.connected in *. cbn [conns]. rewrite existsb_app, Hc. reflexivity.
      + unfold do_disconnect. destruct (get_node s i0); [|exact Hc]. destruct (get_node s j0); [|exact Hc].
        destruct (Net.connected s i0 j0) eqn:Ec0; [|exact Hc]. pose proof (conns_lt_neq s i j Hlt Hc) as Hij.
        apply connected_In. cbn [conns]. apply filter_In. split; [apply connected_In, Hc|].
        rewrite (pair_norm_eqb i j i0 j0 Hij). unfold closes_pair, closes in Hcl. cbn in Hcl. rewrite Hcl. reflexivity.
  Qed.

  Lemma forgotten_fstep s o :
    conns_lt s -> Net.connected s i j = true -> tracks s i j = false -> closes_pair i j o = false ->
    tracks (fst (fstep Sz Hh s o)) i j = false /\ Net.connected (fst (fstep Sz Hh s o)) i j = true.
  Proof.
    intros Hlt Hc Ht Hcl. destruct o as [o|a b d|a b]; cbn [fstep fst].
    - apply forgotten_nstep; assumption.
    - split.
      + apply (fmoved_untracked s); [|exact Ht]. apply (fail_w_fmoved Sz Hh PF PF_nc).
      + rewrite (connected_conns s) by apply do_fail_w_conns. exact Hc.
    - rewrite (do_reconnect_steps Sz Hh).
      assert (H1 : closes_pair i j (FOp (NDisconnect a b)) = false) by exact Hcl.
      destruct (forgotten_nstep s (NDisconnect a b) Hlt Hc Ht H1) as [Ht1 Hc1].
      apply forgotten_nstep; [apply conns_lt_step, Hlt | exact Hc1 | exact Ht1 | reflexivity].
  Qed.

  (* what enters the wire at a step is not for j *)
  Lemma forgotten_entered s o m :
    all_clients INVS s -> tracks s i j = false -> In m (h_entered (hist_of Sz Hh s o)) -> w_between i j m = false.
  Proof.
    intros HS Ht Hm. destruct o as [o|a b d|a b]; cbn [hist_of] in Hm.
    2:{ destruct (take_first (w_between a b) (wire_w s)) as [[m' r]|]; destruct Hm. }
    2:{ destruct (disconnects s a b); destruct Hm. }
    destruct o; cbn [hist_nil h_entered] in Hm; try (destruct Hm; fail).
    - destruct (disconnects s i0 j0); destruct Hm.
    - (* poll *)
      cbn [nstep] in Hm. unfold do_poll in Hm. destruct (get_node s i0) as [n|] eqn:Eg.
      2:{ cbn [fst] in Hm. rewrite skipn_all in Hm. destruct Hm. }
      unfold node_poll in Hm. destruct (cstep (n_client n) (CPoll [])) as [c1 o1] eqn:E1. destruct (cstep c1 CTakeNewBlocks) as [c2 o2].
      destruct (srv Sz match cl_new_blocks o2 with [] => n_server n | _ :: _ => fst (srv Sz (n_server n) (SNewBlocks (cl_new_blocks o2))) end SPoll) as [s2 o3].
      cbn [o_wants] in Hm.
      match type of Hm with context [fold_left (hand_over s i0) ?L ?acc] =>
        pose proof (hand_over_src s i0 L acc (fun m0 H => match H with end)) as Hsrc;
        pose proof (hand_over_dst s i0 L acc) as Hdst; destruct (fold_left (hand_over s i0) L acc) as [n2 ws] end.
      cbn [fst snd wire_w] in *. rewrite skipn_app_length in Hm.
      destruct (w_between i j m) eqn:Eb; [|reflexivity]. exfalso. destruct (between_ends i j m Eb) as [Es Ed].
      pose proof (Hsrc m Hm) as Ek. rewrite Es in Ek. subst i0.
      destruct (Hdst m Hm) as [[]|Hd]. rewrite Ed in Hd. apply in_map_iff in Hd. destruct Hd as ([[[p cn] f] es] & Ep & Hx). cbn in Ep. subst p.
      apply cl_wants_in in Hx. assert (E1' : o1 = snd (c_poll (n_client n) [])) by (cbn [cstep] in E1; rewrite E1; reflexivity). rewrite E1' in Hx.
      apply (poll_sends_tracked _ _ _ _ _ _ (HS i n Eg)) in Hx. exact (proj1 (tracks_false s) Ht n Eg Hx).
    - destruct (take_first (w_between i0 j0) (wire_w s)) as [[m' r]|]; destruct Hm.
  Qed.

  (* the run *)
  Theorem C05_net_stays_forgotten ops : forall s,
    linv s -> all_clients INVS s -> Net.connected s i j = true -> tracks s i j = false ->
    Forall (fun o => closes_pair i j o = false) ops ->
    let r := frun_h Sz Hh s ops in
    tracks (fst (fst r)) i j = false /\ Net.connected (fst (fst r)) i j = true /\
    forall m, In m (h_entered (snd r)) -> w_between i j m = false.
  Proof.
    induction ops as [|o ops IH]; intros s Hl HS Hc Ht Hops; cbn zeta.
    - cbn. split; [exact Ht|]. split; [exact Hc | intros m []].
    - inversion Hops as [|? ? Ho Hops']; subst. cbn [frun_h].
      destruct (forgotten_fstep s o (proj1 Hl) Hc Ht Ho) as [Ht1 Hc1].
      pose proof (linv_fstep Sz Hh s o Hl) as Hl1.
      pose proof (all_clients_fstep Sz Hh INVS s o (fun c o' _ => INVS_step c o') (proj1 Hl) HS) as HS1.
      pose proof (forgotten_entered s o) as He.
      destruct (fstep Sz Hh s o) as [s1 e1]. cbn [fst] in *.
      specialize (IH s1 Hl1 HS1 Hc1 Ht1 Hops'). cbn zeta in IH. destruct (frun_h Sz Hh s1 ops) as [[s2 e2] h2]. cbn [fst snd hist_app h_entered] in *.
      destruct IH as (I1 & I2 & I3). split; [exact I1|]. split; [exact I2|]. intros m Hm. apply in_app_iff in Hm.
      destruct Hm as [Hm|Hm]; [apply (He m HS Ht Hm) | apply (I3 m Hm)].
  Qed.
End Forgotten.
