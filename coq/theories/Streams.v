(* Streams.v — the inbound streams of one connection: /repo/src/incoming_stream.rs `IncomingStream::poll_next`
   (lines 70-106) composed out of Framed.poll_next (asynchronous-codec FramedRead2 over message.rs `Codec`) and
   Incoming.process_message, and /repo/src/lib.rs `ConnHandler` (`incoming_streams: SelectAll<IncomingStream>`,
   lines 313, 368-372, 389-394).  Definitions only; lemmas in Streams_proofs.v, property statements in
   Streams_props.v.

   fn IncomingStream::poll_next(cx) -> Poll<Option<IncomingMessage>> {
       loop {
           if !processing.is_terminated() {
               match processing.poll(cx) {
                   Ready(Some(msg)) => if msg.client.is_some() || msg.server.is_some() { return Ready(Some(msg)) }
                   Ready(None)      => return Ready(None),                 // process_message said "close"
                   Pending          => return Pending }                    // (hashers are answered at once here)
           }
           let msg = match stream.poll_next(cx) {                          // FramedRead<_, Codec>
               Ready(Some(Ok(msg))) => msg,
               Ready(Some(Err(e)))  => return Ready(None),                 // decode / io error: logged, stream ends
               Ready(None)          => return Ready(None),
               Pending              => return Pending };
           processing = process_message(multihasher, msg).fuse();
       }
   }
   Message k is processed before frame k+1 is looked at; an empty IncomingMessage is not forwarded and the loop
   goes straight on to the next frame inside the same call.

   ConnHandler::poll: `if let Ready(Some(msg)) = incoming_streams.poll_next(cx) { return NotifyBehaviour(
   IncomingMessage(peer, msg)) }`.  SelectAll polls its member streams in an order of its own choosing, hands on
   what they yield, and drops a member that returned Ready(None); the other members stay.

   ===================== EXECUTABLE ENTRY POINTS (inputs / outputs for the differential harness) ==============

   stream_out (Sz : N) (Hh : hash_fn) (chk : bool) (evs : list read_ev) : list incoming * sfinal
     Sz   = the const generic S of the crate (multihash capacity), as in Incoming.process_message;
     Hh   = the multihasher table given extensionally: code -> data -> hash_result (Prefix.hash_fn);
     chk  = arithmetic overflow checks on (true: dev/test profile) or off (false: release), as in Codec.qp_parse;
     evs  = the outcomes, in order, of the successive `poll_read(cx, &mut [0u8; 8192])` calls made on the raw
            stream underneath ONE IncomingStream (Framed.read_ev: `Chunk bs` = Ready(Ok(len bs)) with those bytes,
            `Eof` = Ready(Ok(0)), `ReadErr` = Ready(Err), `ReadPending` = Pending).  When the list is used up every
            further poll_read is Pending (the peer has sent nothing more yet).
     The IncomingStream is polled again and again (a poll that returned Pending is repeated as long as read events
     are left) until it returns Ready(None), panics, or is Pending with no read event left.
     fst  = the IncomingMessages it yielded (`Ready(Some(msg))`), in order.  `cm_presences` / `cm_blocks` are
            association lists standing for FnvHashMaps: compare them as sets (as for engine `incoming`).
     snd  = how it stopped:
            SfEnd     Ready(None) because FramedRead returned Ready(None) (clean end of stream)
            SfErr     Ready(None) because FramedRead returned an error (bad varint, frame > 4 MiB, protobuf error,
                      io error, bytes left at end of stream)
            SfClosed  Ready(None) because process_message returned None (bad presence CID, bad block prefix,
                      fatal hasher error)
            SfPending the last poll returned Pending and no read event is left: the stream is alive and waiting
            SfPanic   a panic (in the body parser: known class F2 with chk = true; or in process_message)
            SfLoop    the body parser does not terminate (class F2 with chk = false)
            SfFuel    the model ran out of fuel: never happens (Streams_proofs.stream_out_fuel)
            The implementation can only tell SfEnd / SfErr / SfClosed apart by its debug log: compare
            `sfinal_ended`.

   stream_polls Sz Hh chk (n : nat) (evs : list read_ev) : list incoming
     the messages yielded by the first n calls of `IncomingStream::poll_next` on a fresh stream over `evs` (each
     call yields at most one message; calls after Ready(None) are not made).

   conn_run Sz Hh chk (streams : list (list read_ev)) (schedule : list N) : list (N * incoming)
     streams  = the inbound streams ever opened on the connection, stream k (counting from 0) having read events
                `nth k streams`; each is wrapped in a fresh IncomingStream;
     schedule = which member stream gets its `poll_next` called next (the order SelectAll happens to use; also
                which wake-ups happen): entry k = ONE call of IncomingStream::poll_next on stream k.  An entry naming
                a stream that has already returned Ready(None) (dropped from the SelectAll) or that does not exist
                is skipped.  A stream opened later is one the schedule does not mention until later.
     result   = the pairs (k, msg) for every `Ready(Some(msg))`, i.e. the ToBehaviourEvent::IncomingMessage events
                in the order the behaviour receives them (k tells which stream it came from; the implementation
                does not expose k, the harness knows it from the schedule).
   conn_run_full … : list (N * incoming) * (cfinal * list sstate)
     the same together with how the run ended (COk, or CStopped k why: the poll of stream k panicked / did not
     return, which takes the whole connection task down and ends the run there) and the final state of every
     stream (buffer of its FramedRead, unconsumed read events, status; SfPending = still a member of the
     SelectAll). *)
From BS Require Export Bytes Varint Cid Prefix Hasher Proto Incoming Qp ProtoCodec Frame Framed Codec.
Open Scope N_scope.

Inductive sfinal := SfEnd | SfErr | SfClosed | SfPending | SfPanic | SfLoop | SfFuel.

Definition sfinal_eqb (a b : sfinal) : bool :=
  match a, b with
  | SfEnd, SfEnd | SfErr, SfErr | SfClosed, SfClosed | SfPending, SfPending
  | SfPanic, SfPanic | SfLoop, SfLoop | SfFuel, SfFuel => true
  | _, _ => false
  end.

(* Ready(None): the stream is dropped from the SelectAll *)
Definition sfinal_ended (f : sfinal) : bool :=
  match f with SfEnd | SfErr | SfClosed => true | _ => false end.
(* the poll did not return normally: the connection task is gone *)
Definition sfinal_fatal (f : sfinal) : bool :=
  match f with SfPanic | SfLoop | SfFuel => true | _ => false end.

(* outcome of ONE call of IncomingStream::poll_next *)
Inductive is_out :=
| IsMsg (m : incoming)        (* Ready(Some(msg)) *)
| IsDone (why : sfinal)       (* Ready(None); why = SfEnd | SfErr | SfClosed *)
| IsPending                   (* Pending *)
| IsPanic
| IsLoop
| IsFuel.

Section Streams.
  Variable msg : Type.
  Variable parse : bytes -> N -> parse_result msg.      (* the body parser of the codec *)
  Variable proc : msg -> pm_result.                     (* process_message *)

  (* IncomingStream::poll_next: (outcome, FramedRead buffer, unconsumed read events).  One iteration of the
     `loop` per unit of fuel; an iteration that goes round again has taken a frame out of the buffer. *)
  Fixpoint is_poll_fuel (fuel : nat) (buf : bytes) (evs : list read_ev) : is_out * bytes * list read_ev :=
    match fuel with
    | O => (IsFuel, buf, evs)
    | S f =>
        match poll_next parse buf evs with
        | (Item m, buf', evs') =>
            match proc m with
            | PmOk inc => if forwarded inc then (IsMsg inc, buf', evs') else is_poll_fuel f buf' evs'
            | PmClose => (IsDone SfClosed, buf', evs')
            | PmPanic => (IsPanic, buf', evs')
            end
        | (Pending, buf', evs') => (IsPending, buf', evs')
        | (StreamErr, buf', evs') => (IsDone SfErr, buf', evs')
        | (StreamEnd, buf', evs') => (IsDone SfEnd, buf', evs')
        | (Panicked, buf', evs') => (IsPanic, buf', evs')
        | (Looped, buf', evs') => (IsLoop, buf', evs')
        end
    end.

  Definition is_poll (buf : bytes) (evs : list read_ev) : is_out * bytes * list read_ev :=
    is_poll_fuel (stream_fuel buf evs) buf evs.

  (* the whole life of one stream: frame k is decoded, processed and (if not empty) yielded before frame k+1 is
     decoded; the first close / error / end / panic stops it *)
  Fixpoint so_fuel (fuel : nat) (buf : bytes) (evs : list read_ev) : list incoming * sfinal :=
    match fuel with
    | O => ([], SfFuel)
    | S f =>
        match poll_next parse buf evs with
        | (Item m, buf', evs') =>
            match proc m with
            | PmOk inc =>
                let (ms, fin) := so_fuel f buf' evs' in
                (if forwarded inc then inc :: ms else ms, fin)
            | PmClose => ([], SfClosed)
            | PmPanic => ([], SfPanic)
            end
        | (Pending, buf', evs') =>
            match evs' with [] => ([], SfPending) | _ :: _ => so_fuel f buf' evs' end
        | (StreamErr, _, _) => ([], SfErr)
        | (StreamEnd, _, _) => ([], SfEnd)
        | (Panicked, _, _) => ([], SfPanic)
        | (Looped, _, _) => ([], SfLoop)
        end
    end.

  (* from an arbitrary FramedRead state *)
  Definition so_from (buf : bytes) (evs : list read_ev) : list incoming * sfinal :=
    so_fuel (stream_fuel buf evs) buf evs.

  Definition g_stream_out (evs : list read_ev) : list incoming * sfinal := so_from [] evs.

  (* ---------- a member of the SelectAll ---------- *)

  Record sstate := MkSstate {
    ss_buf : bytes;                 (* the FramedRead buffer *)
    ss_evs : list read_ev;          (* read events not yet consumed *)
    ss_status : sfinal              (* SfPending = alive; anything else = how it stopped *)
  }.

  Definition ss_init (evs : list read_ev) : sstate := MkSstate [] evs SfPending.

  (* one call of poll_next on a member; a member that has stopped is not polled *)
  Definition poll_stream (st : sstate) : option incoming * sstate :=
    match ss_status st with
    | SfPending =>
        match is_poll (ss_buf st) (ss_evs st) with
        | (IsMsg inc, b, e) => (Some inc, MkSstate b e SfPending)
        | (IsPending, b, e) => (None, MkSstate b e SfPending)
        | (IsDone why, b, e) => (None, MkSstate b e why)
        | (IsPanic, b, e) => (None, MkSstate b e SfPanic)
        | (IsLoop, b, e) => (None, MkSstate b e SfLoop)
        | (IsFuel, b, e) => (None, MkSstate b e SfFuel)
        end
    | _ => (None, st)
    end.

  (* n successive calls on one stream *)
  Fixpoint polls_from (n : nat) (st : sstate) : list incoming * sstate :=
    match n with
    | O => ([], st)
    | S n' =>
        let (o, st') := poll_stream st in
        let (ms, st'') := polls_from n' st' in
        (match o with Some inc => inc :: ms | None => ms end, st'')
    end.

  Definition g_stream_polls (n : nat) (evs : list read_ev) : list incoming :=
    fst (polls_from n (ss_init evs)).

  (* ---------- the connection ---------- *)

  Inductive cfinal :=
  | COk                                   (* the schedule was carried out to its end *)
  | CStopped (k : N) (why : sfinal).      (* the poll of stream k panicked / did not return *)

  Fixpoint set_nth {A} (n : nat) (x : A) (l : list A) {struct l} : list A :=
    match l with
    | [] => []
    | y :: l' => match n with O => x :: l' | S n' => y :: set_nth n' x l' end
    end.

  Fixpoint conn_steps (c : list sstate) (schedule : list N) : list (N * incoming) * (cfinal * list sstate) :=
    match schedule with
    | [] => ([], (COk, c))
    | k :: rest =>
        match nth_error c (N.to_nat k) with
        | None => conn_steps c rest
        | Some st =>
            let (o, st') := poll_stream st in
            let c' := set_nth (N.to_nat k) st' c in
            if sfinal_fatal (ss_status st') then ([], (CStopped k (ss_status st'), c'))
            else
              let (out, r) := conn_steps c' rest in
              (match o with Some inc => (k, inc) :: out | None => out end, r)
        end
    end.

  Definition g_conn_run_full (streams : list (list read_ev)) (schedule : list N)
    : list (N * incoming) * (cfinal * list sstate) :=
    conn_steps (map ss_init streams) schedule.

  Definition g_conn_run (streams : list (list read_ev)) (schedule : list N) : list (N * incoming) :=
    fst (g_conn_run_full streams schedule).
End Streams.

Arguments is_poll_fuel {msg} parse proc fuel buf evs.
Arguments is_poll {msg} parse proc buf evs.
Arguments so_fuel {msg} parse proc fuel buf evs.
Arguments so_from {msg} parse proc buf evs.
Arguments g_stream_out {msg} parse proc evs.
Arguments poll_stream {msg} parse proc st.
Arguments polls_from {msg} parse proc n st.
Arguments g_stream_polls {msg} parse proc n evs.
Arguments conn_steps {msg} parse proc c schedule.
Arguments g_conn_run_full {msg} parse proc streams schedule.
Arguments g_conn_run {msg} parse proc streams schedule.

(* the messages of stream k among the events handed to the behaviour *)
Fixpoint of_stream (k : N) (out : list (N * incoming)) : list incoming :=
  match out with
  | [] => []
  | (j, m) :: rest => if j =? k then m :: of_stream k rest else of_stream k rest
  end.

(* how many times the schedule polls stream k *)
Fixpoint polls_of (k : N) (schedule : list N) : nat :=
  match schedule with
  | [] => O
  | j :: rest => if j =? k then S (polls_of k rest) else polls_of k rest
  end.

(* "the schedule polls stream k often enough": at least as many times as the stream can make progress (every poll
   that is not the last one consumes a read event or yields a message, which takes a frame out of the buffer) *)
Definition polled_enough (k : N) (evs : list read_ev) (schedule : list N) : bool :=
  Nat.leb (stream_fuel [] evs) (polls_of k schedule).

(* ---------- the real instance ---------- *)

Definition stream_out (Sz : N) (Hh : hash_fn) (chk : bool) (evs : list read_ev) : list incoming * sfinal :=
  g_stream_out (qp_parse chk) (process_message Sz Hh) evs.

Definition stream_polls (Sz : N) (Hh : hash_fn) (chk : bool) (n : nat) (evs : list read_ev) : list incoming :=
  g_stream_polls (qp_parse chk) (process_message Sz Hh) n evs.

Definition conn_run_full (Sz : N) (Hh : hash_fn) (chk : bool) (streams : list (list read_ev)) (schedule : list N)
  : list (N * incoming) * (cfinal * list sstate) :=
  g_conn_run_full (qp_parse chk) (process_message Sz Hh) streams schedule.

Definition conn_run (Sz : N) (Hh : hash_fn) (chk : bool) (streams : list (list read_ev)) (schedule : list N)
  : list (N * incoming) :=
  g_conn_run (qp_parse chk) (process_message Sz Hh) streams schedule.

(* the run of a stream neither panics nor hangs (decided by running the model; outside the known class F2 and with
   S >= 32 and a sha-respecting table it always holds: Streams_proofs.stream_unsafe_only_F2) *)
Definition stream_safe (Sz : N) (Hh : hash_fn) (chk : bool) (evs : list read_ev) : bool :=
  negb (sfinal_fatal (snd (stream_out Sz Hh chk evs))).

(* bytes held in the FramedRead buffers of the members still alive *)
Definition conn_buffered (c : list sstate) : N :=
  fold_right (fun st acc => (match ss_status st with SfPending => len (ss_buf st) | _ => 0 end) + acc) 0 c.
Definition conn_alive (c : list sstate) : N :=
  fold_right (fun st acc => (match ss_status st with SfPending => 1 | _ => 0 end) + acc) 0 c.
