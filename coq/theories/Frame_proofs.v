(* Frame_proofs.v — properties C09 / C10 (framing part) of the `Codec` model of Frame.v. *)
From BS Require Import Bytes Varint Varint_proofs Frame.
From Coq Require Import ZArith ZifyBool ZifyN ZifyNat Lia.
Open Scope N_scope.

(* ---------- dropN / takeN are skipn / firstn ---------- *)

Lemma dropN_skipn {A} (l : list A) : forall n, dropN n l = skipn (N.to_nat n) l.
Proof.
  induction l as [|x l IH]; intros n; cbn [dropN].
  - destruct (N.to_nat n); reflexivity.
  - destruct (n =? 0) eqn:E.
    + assert (n = 0) by lia. subst n. reflexivity.
    + rewrite IH. replace (N.to_nat n) with (S (N.to_nat (n - 1))) by lia. reflexivity.
Qed.

Lemma takeN_firstn {A} (l : list A) : forall n, takeN n l = firstn (N.to_nat n) l.
Proof.
  induction l as [|x l IH]; intros n; cbn [takeN].
  - destruct (N.to_nat n); reflexivity.
  - destruct (n =? 0) eqn:E.
    + assert (n = 0) by lia. subst n. reflexivity.
    + rewrite IH. replace (N.to_nat n) with (S (N.to_nat (n - 1))) by lia. reflexivity.
Qed.

Lemma dropN_app_len {A} (a b : list A) : dropN (len a) (a ++ b) = b.
Proof.
  rewrite dropN_skipn. unfold len. rewrite Nat2N.id.
  rewrite skipn_app, skipn_all, Nat.sub_diag. reflexivity.
Qed.

Lemma takeN_app_len {A} (a b : list A) : takeN (len a) (a ++ b) = a.
Proof.
  rewrite takeN_firstn. unfold len. rewrite Nat2N.id.
  rewrite firstn_app, firstn_all, Nat.sub_diag. cbn [firstn]. apply app_nil_r.
Qed.

Lemma len_dropN_le {A} (l : list A) n : len (dropN n l) <= len l.
Proof.
  rewrite dropN_skipn. unfold len. rewrite skipn_length. lia.
Qed.

Lemma len_dropN {A} (l : list A) n : n <= len l -> len (dropN n l) = len l - n.
Proof.
  intros H. rewrite dropN_skipn. unfold len in *. rewrite skipn_length. lia.
Qed.

Lemma len_zero_nil {A} (l : list A) : len l = 0 -> l = [].
Proof. destruct l as [|x l]; [reflexivity|]. rewrite len_cons. lia. Qed.

(* ---------- more facts about the varint decoder ---------- *)

(* a successful decode consumes between 1 and 10 - i bytes *)
Lemma uv_go_ok_len buf : forall i acc n rest,
  uv_go buf i acc = UvOk n rest -> len rest < len buf /\ (i <= 9 -> len buf + i <= len rest + 10).
Proof.
  induction buf as [|b buf IH]; intros i acc n rest H; cbn [uv_go] in H; [discriminate|].
  rewrite len_cons. destruct (b <? 128).
  - destruct ((b =? 0) && (0 <? i)); [discriminate|]. injection H as _ <-. lia.
  - destruct (i =? 9) eqn:E; [discriminate|]. apply IH in H. lia.
Qed.

(* the consumed part is a non-empty prefix *)
Lemma uv_go_ok_split buf : forall i acc n rest,
  uv_go buf i acc = UvOk n rest -> exists pre, pre <> [] /\ buf = pre ++ rest.
Proof.
  induction buf as [|b buf IH]; intros i acc n rest H; cbn [uv_go] in H; [discriminate|].
  destruct (b <? 128).
  - destruct ((b =? 0) && (0 <? i)); [discriminate|]. injection H as _ <-.
    exists [b]. split; [discriminate|reflexivity].
  - destruct (i =? 9); [discriminate|]. destruct (IH _ _ _ _ H) as [pre [_ ->]].
    exists (b :: pre). split; [discriminate|reflexivity].
Qed.

(* Insufficient: at most 9 - i bytes seen so far *)
Lemma uv_go_insufficient_len buf : forall i acc,
  i <= 9 -> uv_go buf i acc = UvInsufficient -> i + len buf <= 9.
Proof.
  induction buf as [|b buf IH]; intros i acc Hi H; cbn [uv_go] in H.
  - rewrite len_nil. lia.
  - rewrite len_cons. destruct (b <? 128).
    + destruct ((b =? 0) && (0 <? i)); discriminate.
    + destruct (i =? 9) eqn:E; [discriminate|].
      assert (i + 1 <= 9) by lia. specialize (IH _ _ H0 H). lia.
Qed.

(* Insufficient: every byte has its continuation bit *)
Lemma uv_go_insufficient_bits buf : forall i acc,
  uv_go buf i acc = UvInsufficient -> Forall (fun b => 128 <= b) buf.
Proof.
  induction buf as [|b buf IH]; intros i acc H; cbn [uv_go] in H; [constructor|].
  destruct (b <? 128) eqn:E1.
  - destruct ((b =? 0) && (0 <? i)); discriminate.
  - destruct (i =? 9); [discriminate|]. constructor; [lia|]. eapply IH; eassumption.
Qed.

(* a prefix that stops inside the consumed part is Insufficient *)
Lemma uv_go_prefix_insufficient p : forall q i acc n rest,
  uv_go (p ++ q) i acc = UvOk n rest -> len rest < len q -> uv_go p i acc = UvInsufficient.
Proof.
  induction p as [|b p IH]; intros q i acc n rest H Hlen; [reflexivity|].
  cbn [app uv_go] in *. destruct (b <? 128).
  - destruct ((b =? 0) && (0 <? i)); [discriminate|]. injection H as _ <-.
    rewrite len_app in Hlen. lia.
  - destruct (i =? 9); [discriminate|]. eapply IH; eassumption.
Qed.

(* a prefix that covers the consumed part decodes to the same value *)
Lemma uv_go_prefix_ok p : forall q i acc n rest,
  uv_go (p ++ q) i acc = UvOk n rest -> len q <= len rest ->
  exists rest', rest = rest' ++ q /\ uv_go p i acc = UvOk n rest'.
Proof.
  induction p as [|b p IH]; intros q i acc n rest H Hlen.
  - cbn [app] in H. apply uv_go_ok_len in H. lia.
  - cbn [app uv_go] in *. destruct (b <? 128).
    + destruct ((b =? 0) && (0 <? i)); [discriminate|]. injection H as <- <-.
      exists p. split; reflexivity.
    + destruct (i =? 9); [discriminate|]. eapply IH; eassumption.
Qed.

Lemma uv_decode_app buf n rest tail :
  uv_decode buf = UvOk n rest -> uv_decode (buf ++ tail) = UvOk n (rest ++ tail).
Proof. apply uv_go_app. Qed.

Lemma uv_decode_range buf n rest : uv_decode buf = UvOk n rest -> n < two64.
Proof. apply uv_go_range. Qed.

Definition proper_prefix {A} (p l : list A) : Prop := exists q, q <> [] /\ p ++ q = l.

Lemma uv_encode_proper_prefix n pre :
  n < two64 -> proper_prefix pre (uv_encode n) -> uv_decode pre = UvInsufficient.
Proof.
  intros Hn [q [Hq Heq]].
  assert (H := uv_decode_encode n [] Hn). rewrite app_nil_r, <- Heq in H.
  unfold uv_decode in *. eapply uv_go_prefix_insufficient; [exact H|].
  rewrite len_nil. destruct q as [|x q]; [congruence|]. rewrite len_cons. lia.
Qed.

Lemma max_lt_two64 : max_message_size < two64.
Proof. unfold max_message_size, two64. change (2 ^ 64) with 18446744073709551616. lia. Qed.

Set Default Proof Using "Type".

Section FrameProofs.
  Variable msg : Type.
  Variable parse : bytes -> N -> parse_result msg.
  Variable body : msg -> bytes.

  Local Notation decode := (frame_decode parse).
  Local Notation encode := (frame_encode body).

  (* ---------- C09: what the decoder refuses, and when it waits ---------- *)

  (* 1. an announced length above MAX_MESSAGE_SIZE fails as soon as the prefix is complete,
        whatever follows (nothing of the body is waited for) *)
  Theorem C09_oversize_fails_on_prefix : forall pre n tail,
    uv_decode pre = UvOk n [] -> max_message_size < n -> decode (pre ++ tail) = DErr.
  Proof.
    intros pre n tail Hdec Hbig. unfold frame_decode.
    rewrite (uv_decode_app _ _ _ tail Hdec). cbn [app].
    destruct (max_message_size <? n) eqn:E; [reflexivity|lia].
  Qed.

  (* 2. an invalid length prefix (more than 10 bytes / non-minimal) fails, whatever follows *)
  Theorem C09_bad_varint_fails : forall pre tail,
    (uv_decode pre = UvOverflow \/ uv_decode pre = UvNotMinimal) -> decode (pre ++ tail) = DErr.
  Proof.
    intros pre tail [H|H]; unfold frame_decode, uv_decode in *.
    - rewrite (uv_go_app_overflow _ _ _ tail H). reflexivity.
    - rewrite (uv_go_app_notminimal _ _ _ tail H). reflexivity.
  Qed.

  (* 3. an incomplete length prefix waits *)
  Theorem C09_insufficient_waits : forall buf,
    uv_decode buf = UvInsufficient -> decode buf = DNeedMore.
  Proof. intros buf H. unfold frame_decode. rewrite H. reflexivity. Qed.

  Theorem C09_short_prefix_waits : forall n pre,
    n < two64 -> proper_prefix pre (uv_encode n) -> decode pre = DNeedMore.
  Proof.
    intros n pre Hn Hp. apply C09_insufficient_waits. eapply uv_encode_proper_prefix; eassumption.
  Qed.

  (* 4. the decoder only ever asks for more while the buffer is small *)
  Theorem C09_need_more_cases : forall buf,
    decode buf = DNeedMore ->
    (uv_decode buf = UvInsufficient /\ len buf <= 9 /\ Forall (fun b => 128 <= b) buf)
    \/ (exists n rest, uv_decode buf = UvOk n rest /\ n <= max_message_size
                       /\ len rest < n /\ len buf <= 10 + len rest).
  Proof.
    intros buf H. unfold frame_decode in H. destruct (uv_decode buf) as [n rest| | |] eqn:E.
    - right. exists n, rest. destruct (max_message_size <? n) eqn:E1; [discriminate|].
      destruct (len rest <? n) eqn:E2.
      + unfold uv_decode in E. apply uv_go_ok_len in E. repeat split; lia.
      + destruct (parse rest n); discriminate.
    - left. unfold uv_decode in E. split; [reflexivity|]. split.
      + apply uv_go_insufficient_len in E; lia.
      + eapply uv_go_insufficient_bits; eassumption.
    - discriminate.
    - discriminate.
  Qed.

  Theorem C09_decode_buffer_bound : forall buf,
    decode buf = DNeedMore -> len buf < 10 + max_message_size.
  Proof.
    intros buf H. apply C09_need_more_cases in H.
    destruct H as [[_ [H _]]|[n [rest [_ [H1 [H2 H3]]]]]]; unfold max_message_size in *; lia.
  Qed.

  (* an item never grows the buffer, and takes at least one byte out of it *)
  Lemma decode_item_len : forall buf m rest, decode buf = DItem m rest -> len rest < len buf.
  Proof.
    clear body. intros buf m rest H. unfold frame_decode in H.
    destruct (uv_decode buf) as [n r| | |] eqn:E; try discriminate.
    destruct (max_message_size <? n); [discriminate|].
    destruct (len r <? n); [discriminate|].
    destruct (parse r n); try discriminate. injection H as _ <-.
    unfold uv_decode in E. apply uv_go_ok_len in E. assert (H := len_dropN_le r n). lia.
  Qed.

  (* the item's remainder is a suffix of the buffer: decode never rewrites bytes *)
  Lemma decode_item_suffix : forall buf m rest,
    decode buf = DItem m rest -> exists pre, pre <> [] /\ buf = pre ++ rest.
  Proof.
    intros buf m rest H. unfold frame_decode in H.
    destruct (uv_decode buf) as [n r| | |] eqn:E; try discriminate.
    destruct (max_message_size <? n); [discriminate|].
    destruct (len r <? n); [discriminate|].
    destruct (parse r n); try discriminate. injection H as _ <-.
    unfold uv_decode in E. apply uv_go_ok_split in E. destruct E as [pre [Hpre ->]].
    exists (pre ++ firstn (N.to_nat n) r). split.
    - destruct pre; [congruence|discriminate].
    - rewrite dropN_skipn, <- app_assoc, firstn_skipn. reflexivity.
  Qed.

  (* ---------- C10 (framing): exactness ---------- *)

  Variable wf : msg -> Prop.

  (* frame-exactness of the body parser: package B proves it for the real one *)
  Definition parse_exact_hyp : Prop :=
    forall m tail, wf m -> parse (body m ++ tail) (len (body m)) = POk m.

  Definition size_ok (m : msg) : Prop := len (body m) <= max_message_size.

  (* 5a. decoding an encoded message followed by anything gives the message and exactly the rest *)
  Theorem C10_frame_exact : parse_exact_hyp -> forall m rest,
    wf m -> size_ok m -> decode (encode m ++ rest) = DItem m rest.
  Proof.
    intros Hexact m rest Hwf Hsize. unfold frame_decode, frame_encode, size_ok in *.
    rewrite <- app_assoc. rewrite uv_decode_encode by (assert (H := max_lt_two64); lia).
    destruct (max_message_size <? len (body m)) eqn:E1; [lia|].
    destruct (len (body m ++ rest) <? len (body m)) eqn:E2; [rewrite len_app in E2; lia|].
    rewrite Hexact by assumption. rewrite dropN_app_len. reflexivity.
  Qed.

  (* 5b. every proper prefix of an encoded message waits: never an item, never an error.
         No hypothesis on the parser: it is not called. *)
  Theorem C10_prefix_needs_more : forall m p,
    size_ok m -> proper_prefix p (encode m) -> decode p = DNeedMore.
  Proof.
    clear wf. intros m p Hsize [q [Hq Heq]]. unfold frame_encode, size_ok in *.
    assert (Hn : len (body m) < two64) by (assert (H := max_lt_two64); lia).
    assert (Hdec := uv_decode_encode (len (body m)) (body m) Hn). rewrite <- Heq in Hdec.
    unfold frame_decode. unfold uv_decode in *.
    destruct (N.lt_ge_cases (len (body m)) (len q)) as [Hlt|Hge].
    - rewrite (uv_go_prefix_insufficient _ _ _ _ _ _ Hdec Hlt). reflexivity.
    - destruct (uv_go_prefix_ok _ _ _ _ _ _ Hdec Hge) as [rest' [Hbody ->]].
      destruct (max_message_size <? len (body m)) eqn:E1; [lia|].
      destruct (len rest' <? len (body m)) eqn:E2; [reflexivity|].
      rewrite Hbody, len_app in E2. destruct q as [|x q]; [congruence|]. rewrite len_cons in E2. lia.
  Qed.

  Lemma encode_nonempty m : encode m <> [].
  Proof.
    unfold frame_encode, uv_encode. cbn [uv_enc].
    destruct (len (body m) <? 128); discriminate.
  Qed.
End FrameProofs.

Arguments parse_exact_hyp {msg} parse body wf.
Arguments size_ok {msg} body m.

(* ---------- the toy instance satisfies the hypotheses; examples ---------- *)

Lemma toy_parse_exact : parse_exact_hyp toy_parse toy_body (fun _ => True).
Proof.
  intros m tail _. unfold toy_parse, toy_body. rewrite takeN_app_len. reflexivity.
Qed.

(* 5 MiB announced: fails on the 4-byte prefix alone, and with anything after it *)
Example C09_oversize_example :
  uv_decode [128; 128; 192; 2] = UvOk 5242880 [] /\ max_message_size < 5242880
  /\ toy_decode [128; 128; 192; 2] = DErr /\ toy_decode ([128; 128; 192; 2] ++ [1; 2; 3]) = DErr.
Proof. vm_compute. repeat split; reflexivity. Qed.

(* eleven continuation bytes (Overflow) and a trailing zero byte (NotMinimal) *)
Example C09_bad_varint_example :
  uv_decode [255; 255; 255; 255; 255; 255; 255; 255; 255; 255] = UvOverflow
  /\ uv_decode [129; 0] = UvNotMinimal
  /\ toy_decode ([255; 255; 255; 255; 255; 255; 255; 255; 255; 255] ++ [1]) = DErr
  /\ toy_decode ([129; 0] ++ [7; 7]) = DErr.
Proof. vm_compute. repeat split; reflexivity. Qed.

Example C09_short_prefix_example :
  uv_encode 300 = [172; 2] /\ proper_prefix [172] (uv_encode 300) /\ toy_decode [172] = DNeedMore.
Proof.
  split; [reflexivity|]. split; [|reflexivity]. exists [2]. split; [discriminate|reflexivity].
Qed.

Example C09_decode_buffer_bound_example :
  toy_decode [5; 1; 2] = DNeedMore /\ len [5; 1; 2] < 10 + max_message_size.
Proof. vm_compute. split; reflexivity. Qed.

Example C10_frame_exact_example :
  toy_encode [10; 20; 30] = [3; 10; 20; 30]
  /\ toy_decode (toy_encode [10; 20; 30] ++ [9; 9]) = DItem [10; 20; 30] [9; 9].
Proof. vm_compute. split; reflexivity. Qed.

Example C10_frame_exact_toy : forall m rest,
  len m <= max_message_size -> toy_decode (toy_encode m ++ rest) = DItem m rest.
Proof.
  intros m rest H. apply (C10_frame_exact toy_msg toy_parse toy_body (fun _ => True)).
  - apply toy_parse_exact.
  - exact I.
  - exact H.
Qed.

Example C10_prefix_needs_more_example :
  proper_prefix [3; 10] (toy_encode [10; 20; 30]) /\ toy_decode [3; 10] = DNeedMore
  /\ toy_decode [] = DNeedMore.
Proof.
  split; [|split; reflexivity]. exists [20; 30]. split; [discriminate|reflexivity].
Qed.
