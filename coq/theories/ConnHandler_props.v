(* ConnHandler_props.v — package O: the handler theorems stated for the WHOLE connection handler (ConnHandler.v =
   lib.rs `ConnHandler`: client half, server half and the SelectAll of inbound streams under the priority order of
   `poll`), restated, with concrete instances of their hypotheses and their assumptions.  Proofs: ConnHandler_proofs2.v
   (through the projections of ConnHandler_proofs.v, package M).

   In one sentence each:
     C16  whatever the two halves do, what the behaviour receives from inbound stream k is a prefix of what an
          IncomingStream over k's own read events yields in its whole life (Streams.stream_out), exactly what some
          number of calls of its poll_next yield (Streams.polls_from), and all of it once k's member is settled; a
          frame that does not decode / a message the stream is closed on costs only its own stream.
     C14  if the client half's own view of the run respects the contract and its last report is RpReady, one stream
          accepted exactly the frame of the last wantlist handed to the whole handler, and a receiving whole handler
          whose inbound stream is given those bytes hands its behaviour exactly that wantlist.
     C09  every message the server half of the whole handler starts fits the limit if each queued block does; nothing
          queued is lost, duplicated or reordered. *)
From BS Require Import Bytes Varint Types FramedWrite Handler ServerHandler Framed Framed_proofs Streams Streams_proofs
                       Handler_proofs ServerHandler_proofs ConnHandler ConnHandler_proofs ConnHandler_proofs2
                       Proto Prefix Incoming Qp ProtoCodec ProtoCodec_proofs Codec Frame Frame_proofs Codec_proofs Wire.
From Coq Require Import ZArith ZifyBool ZifyN ZifyNat Lia.
Open Scope N_scope.

(* ---------- 1. C16: the inbound side of the whole handler ---------- *)

(* stream by stream, the inbound side of a whole-handler run IS n calls of IncomingStream::poll_next (every run) *)
Check (connhandler_inbound_polls : forall encode block_size msg parse proc (c : conn) (ops : list kop) (k : N) (m : kin),
  let fin := fst (krun_trace encode block_size parse proc (k_init c) ops) in
  let outs := concat (snd (krun_trace encode block_size parse proc (k_init c) ops)) in
  nth_error (k_in fin) (N.to_nat k) = Some m ->
  exists n, @polls_from msg parse proc n (ss_init (nth (N.to_nat k) (inbound_evs ops) []))
            = (of_stream k (inbound_outs outs), ki_st m)).

Check (connhandler_inbound_is_stream_out : forall encode block_size Sz Hh chk (c : conn) (ops : list kop) (k : N),
  let fin := fst (krun_trace encode block_size (qp_parse chk) (process_message Sz Hh) (k_init c) ops) in
  let outs := concat (snd (krun_trace encode block_size (qp_parse chk) (process_message Sz Hh) (k_init c) ops)) in
  let evs := nth (N.to_nat k) (inbound_evs ops) [] in
  is_prefix (of_stream k (inbound_outs outs)) (fst (stream_out Sz Hh chk evs))
  /\ forall m, nth_error (k_in fin) (N.to_nat k) = Some m -> stream_settled m = true ->
       stream_out Sz Hh chk evs = (of_stream k (inbound_outs outs), ss_status (ki_st m))).

Check (connhandler_inbound_complete : forall encode block_size Sz Hh chk (c : conn) (ops : list kop),
  let fin := fst (krun_trace encode block_size (qp_parse chk) (process_message Sz Hh) (k_init c) ops) in
  let outs := concat (snd (krun_trace encode block_size (qp_parse chk) (process_message Sz Hh) (k_init c) ops)) in
  k_dead fin = false -> forallb stream_settled (k_in fin) = true ->
  forall k, of_stream k (inbound_outs outs) = fst (stream_out Sz Hh chk (nth (N.to_nat k) (inbound_evs ops) []))).

Check (C16_connhandler_bad_frame_costs_own_stream :
  forall encode block_size Sz Hh chk (c : conn) (ops : list kop) j ms bad evs1 extra more,
  let fin := fst (krun_trace encode block_size (qp_parse chk) (process_message Sz Hh) (k_init c) ops) in
  let outs := concat (snd (krun_trace encode block_size (qp_parse chk) (process_message Sz Hh) (k_init c) ops)) in
  let streams := inbound_evs ops in
  k_dead fin = false ->
  nth (N.to_nat j) streams [] = evs1 ++ more ->
  live evs1 -> ev_data evs1 = concat (map codec_encode ms) ++ bad ++ extra ->
  Forall wf_message ms -> Forall (size_ok write_message) ms ->
  (forall m, In m ms -> exists inc, process_message Sz Hh m = PmOk inc) ->
  (undecodable chk bad \/ closing Sz Hh bad) ->
  forallb stream_settled (k_in fin) = true ->
  of_stream j (inbound_outs outs) = yielded Sz Hh ms
  /\ forall k, k <> j ->
     of_stream k (inbound_outs outs) = fst (stream_out Sz Hh chk (nth (N.to_nat k) streams []))).

Check (C16_connhandler_bad_frame_prefix :
  forall encode block_size Sz Hh chk (c : conn) (ops : list kop) j ms bad evs1 extra more,
  let outs := concat (snd (krun_trace encode block_size (qp_parse chk) (process_message Sz Hh) (k_init c) ops)) in
  nth (N.to_nat j) (inbound_evs ops) [] = evs1 ++ more ->
  live evs1 -> ev_data evs1 = concat (map codec_encode ms) ++ bad ++ extra ->
  Forall wf_message ms -> Forall (size_ok write_message) ms ->
  (forall m, In m ms -> exists inc, process_message Sz Hh m = PmOk inc) ->
  (undecodable chk bad \/ closing Sz Hh bad) ->
  is_prefix (of_stream j (inbound_outs outs)) (yielded Sz Hh ms)).

(* "polled often enough", read off the op list: polls_owed counts, per inbound stream, 1 + the ReadPending events of the
   stream minus the KPolls that follow its KInbound (polls_owed_cons); kpolled_enough k ops = that count has reached 0 *)
Check (polls_owed_cons : forall op ops,
  polls_owed [] (op :: ops)
  = match op with KInbound evs => [(S (pendings evs) - kpolls ops)%nat] | _ => [] end ++ polls_owed [] ops).

Check (connhandler_polled_enough_settled : forall encode block_size msg parse proc (c : conn) (ops : list kop) (k : N),
  let fin := fst (@krun_trace encode block_size msg parse proc (k_init c) ops) in
  k_dead fin = false -> kpolled_enough k ops = true ->
  exists m, nth_error (k_in fin) (N.to_nat k) = Some m /\ stream_settled m = true).

Check (C16_connhandler_streams_complete : forall encode block_size Sz Hh chk (c : conn) (ops : list kop) (k : N),
  let fin := fst (krun_trace encode block_size (qp_parse chk) (process_message Sz Hh) (k_init c) ops) in
  let outs := concat (snd (krun_trace encode block_size (qp_parse chk) (process_message Sz Hh) (k_init c) ops)) in
  k_dead fin = false -> kpolled_enough k ops = true ->
  of_stream k (inbound_outs outs) = fst (stream_out Sz Hh chk (nth (N.to_nat k) (inbound_evs ops) []))).

(* the inbound side as a whole: Streams.conn_run_full under some schedule (so every theorem of Streams_proofs about conn_run,
   which are for all schedules, applies to the whole handler) *)
Check (g_connhandler_inbound_is_conn_run : forall encode block_size msg parse proc (c : conn) (ops : list kop),
  let fin := fst (krun_trace encode block_size parse proc (k_init c) ops) in
  let outs := concat (snd (krun_trace encode block_size parse proc (k_init c) ops)) in
  exists schedule f,
    g_conn_run_full parse proc (@opened encode block_size msg parse proc (k_init c) ops) schedule
    = (inbound_outs outs, (f, map ki_st (k_in fin)))
    /\ run_matches (k_fatal fin) f
    /\ is_prefix (@opened encode block_size msg parse proc (k_init c) ops) (inbound_evs ops)
    /\ (k_dead fin = false -> @opened encode block_size msg parse proc (k_init c) ops = inbound_evs ops)).

Check (connhandler_inbound_is_conn_run : forall encode block_size Sz Hh chk (c : conn) (ops : list kop),
  let fin := fst (krun_trace encode block_size (qp_parse chk) (process_message Sz Hh) (k_init c) ops) in
  let outs := concat (snd (krun_trace encode block_size (qp_parse chk) (process_message Sz Hh) (k_init c) ops)) in
  k_dead fin = false ->
  exists schedule,
    conn_run_full Sz Hh chk (inbound_evs ops) schedule = (inbound_outs outs, (COk, map ki_st (k_in fin)))).

(* ---------- 2. C14: the client half of the whole handler ---------- *)

Check (C14_connhandler_ready_means_delivered : forall encode block_size msg parse proc (c : conn) (ops : list kop),
  let fin := fst (krun_trace encode block_size parse proc (k_init c) ops) in
  let outs := concat (snd (krun_trace encode block_size parse proc (k_init c) ops)) in
  k_fatal fin = false ->
  disciplined encode true c (@client_proj encode block_size msg parse proc (k_init c) ops) = true ->
  h_queue (k_client fin) = [] -> last (reports (client_outs outs)) RpReady = RpReady -> ksent_ws ops <> [] ->
  exists fr0 id w ws0,
    h_frames (k_client fin) = fr0 ++ [(id, wantlist_message w)] /\ ksent_ws ops = ws0 ++ [w]
    /\ wrote_on id (client_outs outs) = encode (wantlist_message w)).

Check (C14_connhandler_wire_delivery : forall block_size msg parse proc Sz Hh chk (c : conn) (ops : list kop),
  let fin := fst (krun_trace codec_encode block_size parse proc (k_init c) ops) in
  let outs := concat (snd (krun_trace codec_encode block_size parse proc (k_init c) ops)) in
  k_fatal fin = false ->
  disciplined codec_encode true c (@client_proj codec_encode block_size msg parse proc (k_init c) ops) = true ->
  h_queue (k_client fin) = [] -> last (reports (client_outs outs)) RpReady = RpReady -> ksent_ws ops <> [] ->
  exists id w ws0,
    ksent_ws ops = ws0 ++ [w] /\ wrote_on id (client_outs outs) = codec_encode (wantlist_message w) /\
    (wf_message (wantlist_message w) -> size_ok write_message (wantlist_message w) ->
     forall evs, live evs -> ev_data evs = wrote_on id (client_outs outs) ->
       stream_out Sz Hh chk (evs ++ [Eof]) = (if announces w then [MkIncoming None (Some w)] else [], SfEnd))).

Check (C14_connhandler_end_to_end :
  forall (bsz bsz' : blk -> N) (enc' : message -> bytes) (Sz : N) (Hh : hash_fn) (chk chk' : bool)
         (c c' : conn) (ops ops' : list kop) (k : N) (m : kin) (evs : list read_ev),
    let krunS := krun_trace codec_encode bsz (qp_parse chk') (process_message Sz Hh) (k_init c) ops in
    let krunR := krun_trace enc' bsz' (qp_parse chk) (process_message Sz Hh) (k_init c') ops' in
    k_fatal (fst krunS) = false ->
    disciplined codec_encode true c (client_proj codec_encode bsz (qp_parse chk') (process_message Sz Hh) (k_init c) ops) = true ->
    h_queue (k_client (fst krunS)) = [] -> last (reports (client_outs (concat (snd krunS)))) RpReady = RpReady ->
    ksent_ws ops <> [] ->
    (forall w, In w (ksent_ws ops) -> wf_message (wantlist_message w) /\ size_ok write_message (wantlist_message w)) ->
    exists id w ws0,
      ksent_ws ops = ws0 ++ [w] /\ wrote_on id (client_outs (concat (snd krunS))) = codec_encode (wantlist_message w) /\
      (nth (N.to_nat k) (inbound_evs ops') [] = evs ++ [Eof] -> live evs ->
       ev_data evs = wrote_on id (client_outs (concat (snd krunS))) ->
       nth_error (k_in (fst krunR)) (N.to_nat k) = Some m -> stream_settled m = true ->
       of_stream k (inbound_outs (concat (snd krunR))) = (if announces w then [MkIncoming None (Some w)] else [])
       /\ ss_status (ki_st m) = SfEnd)).

(* ---------- 3. C09: the server half of the whole handler ---------- *)

Check (C09_connhandler_outbound_split : forall encode block_size msg parse proc (c : conn) (ops : list kop),
  let fin := fst (@krun_trace encode block_size msg parse proc (k_init c) ops) in
  let outs := concat (snd (@krun_trace encode block_size msg parse proc (k_init c) ops)) in
  k_dead fin = false ->
  let st := k_server fin in
  let souts := server_outs outs in
  ((forall b, In b (kqueued ops) -> block_size b <= MAX_MESSAGE_SIZE) ->
     Forall (fun p => total block_size (snd p) <= MAX_MESSAGE_SIZE) (sh_started st))
  /\ concat (map snd (sh_started st)) ++ pending_list st = kqueued ops
  /\ (forall id, Handler_proofs.prefix (swrote_on id souts) (sbytes encode id (sh_started st)))
  /\ (no_drop souts -> forall id buf, sh_sink st = SvReady id buf ->
        swrote_on id souts ++ buf
        = concat (map (fun p => encode (payload_message (snd p))) (sh_started st)))).

(* ======================= concrete instances (non-vacuity) ======================= *)

(* One history of one whole handler (real codec, package M's ex_w / ex_b / r_run).  Inbound stream 0: the frame of a
   wantlist cut after 3 bytes with a wake-up in between, then a length prefix announcing 4 MiB + 1 cut after its first
   byte, then garbage, then a perfectly good frame.  Inbound stream 1: the same good frame cut after 5 bytes, then the
   end of the stream.  Meanwhile the behaviour sends a wantlist and queues a block, both halves ask for a stream, the
   client half gets one and sends its wantlist. *)
Definition o_frame : bytes := codec_encode (wantlist_message ex_w).
Definition o_bad : bytes := uv_encode (max_message_size + 1).
Definition o_evs0 : list read_ev :=
  [Chunk (firstn 3 o_frame); ReadPending; Chunk (skipn 3 o_frame ++ firstn 1 o_bad); Chunk (skipn 1 o_bad ++ [9; 9])].
Definition o_more : list read_ev := [Chunk o_frame].
Definition o_evs1_data : list read_ev := [Chunk (firstn 5 o_frame); ReadPending; Chunk (skipn 5 o_frame)].
Definition o_evs1 : list read_ev := o_evs1_data ++ [Eof].
Definition o_ops : list kop :=
  [KSendWantlist ex_w; KInbound (o_evs0 ++ o_more); KQueue [ex_b]; KPoll [] []; KInbound o_evs1; KSetStream RqClient;
   KPoll [WAccept 1048576; FlushOk; FlushOk; CloseOk] []; KPoll [] []].
Definition o_inc : incoming := MkIncoming None (Some ex_w).
(* = ConnHandler_proofs.r_run 1 ops, written out so that the examples below match the theorems syntactically *)
Local Notation o_run ops := (krun_trace codec_encode r_size (qp_parse true) (process_message 64 r_hash) (k_init 1) ops).
Local Notation o_outs ops := (inbound_outs (concat (snd (o_run ops)))).

Example ex_o_run :
  snd (o_run o_ops)
  = [[]; []; []; [KClient (HReport (RpRequestReceived 1)); KClient HOpenStream; KServer SHOpenStream]; []; [];
     [KIncoming 0 o_inc; KClient (HReport (RpSending 1)); KClient (HWrote 0 o_frame); KClient (HStreamClosed 0);
      KClient (HDropped 0); KClient (HReport RpReady)];
     [KIncoming 1 o_inc]]
  /\ inbound_evs o_ops = [o_evs0 ++ o_more; o_evs1]
  /\ stream_out 64 r_hash true (o_evs0 ++ o_more) = ([o_inc], SfErr)
  /\ stream_out 64 r_hash true o_evs1 = ([o_inc], SfEnd).
Proof. vm_compute. repeat split; reflexivity. Qed.

(* connhandler_inbound_is_stream_out, both clauses: after 7 ops stream 0 is settled (it ended with a decode error) and
   complete, stream 1 is awake with read events left: a strict prefix; one KPoll later both are settled and complete *)
Example ex_inbound_is_stream_out :
  map stream_settled (k_in (fst (o_run (firstn 7 o_ops)))) = [true; false]
  /\ of_stream 0 (o_outs (firstn 7 o_ops)) = [o_inc] /\ of_stream 1 (o_outs (firstn 7 o_ops)) = []
  /\ map stream_settled (k_in (fst (o_run o_ops))) = [true; true]
  /\ map (fun m => ss_status (ki_st m)) (k_in (fst (o_run o_ops))) = [SfErr; SfEnd]
  /\ of_stream 0 (o_outs o_ops) = [o_inc] /\ of_stream 1 (o_outs o_ops) = [o_inc] /\ of_stream 2 (o_outs o_ops) = [].
Proof. vm_compute. repeat split; reflexivity. Qed.

(* the theorem applied: its conclusion on this run, obtained from the theorem and not by running the model *)
Example ex_inbound_is_stream_out_applied :
  stream_out 64 r_hash true (nth (N.to_nat 1) (inbound_evs o_ops) []) = (of_stream 1 (o_outs o_ops), SfEnd).
Proof.
  destruct (connhandler_inbound_is_stream_out codec_encode r_size 64 r_hash true 1 o_ops 1) as (_ & CO). cbv zeta in CO.
  assert (E : exists m, nth_error (k_in (fst (o_run o_ops))) (N.to_nat 1) = Some m /\ stream_settled m = true
                        /\ ss_status (ki_st m) = SfEnd).
  { eexists. vm_compute. repeat split; reflexivity. }
  destruct E as (m & E1 & E2 & E3). rewrite <- E3. exact (CO m E1 E2).
Qed.

(* kpolled_enough on this history: stream 0 (one ReadPending, 3 KPolls after its KInbound) is polled enough after 7 ops
   already, stream 1 (one ReadPending, opened before the last two KPolls) only after all 8; C16_connhandler_streams_complete
   applied to stream 1 *)
Example ex_polled_enough :
  polls_owed [] (firstn 7 o_ops) = [0; 1]%nat /\ polls_owed [] o_ops = [0; 0]%nat
  /\ kpolled_enough 1 (firstn 7 o_ops) = false /\ kpolled_enough 1 o_ops = true /\ kpolled_enough 2 o_ops = false.
Proof. vm_compute. repeat split; reflexivity. Qed.

(* the schedule of connhandler_inbound_is_conn_run on this history: first KPoll [0]; second [0] (message), [0; 1] (stream 0
   ends, stream 1 Pending); third [1] (message), [1] (end of stream) *)
Example ex_inbound_is_conn_run :
  conn_run_full 64 r_hash true (inbound_evs o_ops) [0; 0; 0; 1; 1; 1]
  = (o_outs o_ops, (COk, map ki_st (k_in (fst (o_run o_ops))))).
Proof. vm_compute. reflexivity. Qed.

Example ex_streams_complete_applied :
  of_stream 1 (o_outs o_ops) = fst (stream_out 64 r_hash true (nth (N.to_nat 1) (inbound_evs o_ops) [])).
Proof.
  apply (C16_connhandler_streams_complete codec_encode r_size 64 r_hash true 1 o_ops 1); vm_compute; reflexivity.
Qed.

(* FINDING (the hypothesis `k_dead fin = false` of the completeness statements cannot be dropped; the whole-handler form of
   Streams_props.C16_streams_independent_refuted).  Inbound stream 0 carries a good frame and then a frame of the known
   class F2: its poll panics (overflow checks on) or never returns (release), `ConnHandler::poll` goes down with it —
   output KInFatal 0 — and inbound stream 1, whose own bytes are one perfectly good message and the end of the stream and
   which three KPolls should have served, delivers nothing; neither do the two halves (the wantlist just handed over is
   never acknowledged).  The PREFIX clause of connhandler_inbound_is_stream_out holds of this run all the same. *)
Definition o_f2 : list read_ev := [Chunk (o_frame ++ 17 :: f2_witness)].
Definition o_good : list read_ev := [Chunk o_frame; Eof].
Definition o_fatal_ops : list kop :=
  [KInbound o_f2; KInbound o_good; KSendWantlist ex_w; KPoll [] []; KPoll [] []; KPoll [] []].

Theorem C16_connhandler_streams_complete_refuted :
  exists c ops k,
    kpolled_enough k ops = true
    /\ (forall chk,
          let run := krun_trace codec_encode r_size (qp_parse chk) (process_message 64 r_hash) (k_init c) ops in
          k_fatal (fst run) = true
          /\ concat (snd run) = [KIncoming 0 o_inc; KInFatal 0]
          /\ of_stream k (inbound_outs (concat (snd run))) = []
          /\ fst (stream_out 64 r_hash chk (nth (N.to_nat k) (inbound_evs ops) [])) = [o_inc]).
Proof.
  exists 1, o_fatal_ops, 1. split; [vm_compute; reflexivity|].
  intros [|]; vm_compute; repeat split; reflexivity.
Qed.

Lemma ex_o_live0 : live o_evs0.
Proof. vm_compute. repeat constructor; discriminate. Qed.

Lemma ex_o_undecodable : undecodable true o_bad.
Proof. apply oversize_header_undecodable; vm_compute; reflexivity. Qed.

(* the hypotheses of C16_connhandler_bad_frame_costs_own_stream hold of o_ops with j = 0 *)
Example ex_connhandler_bad_frame_costs_own_stream :
  of_stream 0 (o_outs o_ops) = yielded 64 r_hash [wantlist_message ex_w]
  /\ of_stream 1 (o_outs o_ops) = [o_inc].
Proof.
  destruct (C16_connhandler_bad_frame_costs_own_stream codec_encode r_size 64 r_hash true 1 o_ops 0
              [wantlist_message ex_w] o_bad o_evs0 [9; 9] o_more) as [H0 H1].
  - vm_compute. reflexivity.
  - reflexivity.
  - exact ex_o_live0.
  - vm_compute. reflexivity.
  - constructor; [apply wf_messageb_spec; vm_compute; reflexivity|constructor].
  - constructor; [vm_compute; discriminate|constructor].
  - intros m [<-|[]]. eexists. vm_compute. reflexivity.
  - left. exact ex_o_undecodable.
  - vm_compute. reflexivity.
  - split; [exact H0|]. rewrite (H1 1 ltac:(discriminate)). vm_compute. reflexivity.
Qed.

(* C14_connhandler_ready_means_delivered on package M's ex_refute_ops — the history on which the NAIVE projection is
   false: the last KPoll counts twice in the client half's view, and with that view the run is disciplined *)
Example ex_connhandler_ready_means_delivered :
  k_fatal (fst (o_run ex_refute_ops)) = false
  /\ disciplined codec_encode true 1 (client_proj codec_encode r_size (qp_parse true) (process_message 64 r_hash) (k_init 1) ex_refute_ops) = true
  /\ length (client_proj codec_encode r_size (qp_parse true) (process_message 64 r_hash) (k_init 1) ex_refute_ops) = 5%nat
  /\ h_queue (k_client (fst (o_run ex_refute_ops))) = []
  /\ last (reports (client_outs (concat (snd (o_run ex_refute_ops))))) RpReady = RpReady
  /\ ksent_ws ex_refute_ops = [ex_w]
  /\ wrote_on 0 (client_outs (concat (snd (o_run ex_refute_ops)))) = codec_encode (wantlist_message ex_w).
Proof. vm_compute. repeat split; reflexivity. Qed.

(* C14_connhandler_end_to_end with o_ops at BOTH ends: as a sender the handler wrote o_frame on its stream 0; as a
   receiver its inbound stream 1 carries o_frame cut in two, then Eof *)
Example ex_connhandler_end_to_end :
  of_stream 1 (o_outs o_ops) = [o_inc].
Proof.
  assert (E : exists m, nth_error (k_in (fst (o_run o_ops))) (N.to_nat 1) = Some m /\ stream_settled m = true).
  { eexists. vm_compute. split; reflexivity. }
  destruct E as (m & E1 & E2).
  destruct (C14_connhandler_end_to_end r_size r_size codec_encode 64 r_hash true true 1 1 o_ops o_ops 1 m o_evs1_data)
    as (id & w & ws0 & S1 & S2 & R).
  - vm_compute. reflexivity.
  - vm_compute. reflexivity.
  - vm_compute. reflexivity.
  - vm_compute. reflexivity.
  - vm_compute. discriminate.
  - intros w [<-|[]]. split; [apply wf_messageb_spec; vm_compute; reflexivity|vm_compute; discriminate].
  - change (ksent_ws o_ops) with ([] ++ [ex_w]) in S1. apply app_inj_tail in S1. destruct S1 as (_ & <-).
    destruct R as (R1 & _); [vm_compute; reflexivity|vm_compute; repeat constructor; discriminate
                            |rewrite S2; vm_compute; reflexivity|exact E1|exact E2|].
    exact R1.
Qed.

(* C09_connhandler_outbound_split: three blocks queued in two batches around a wantlist, an inbound stream and the two
   stream requests; the server half started one message with the first two, the third is pending *)
Definition o_srv_ops : list kop :=
  [KQueue [ex_b; ex_b]; KSendWantlist ex_w; KPoll [] []; KSetStream RqServer; KInbound o_evs1;
   KPoll [] [FlushOk; WAccept 1048576; FlushOk]; KQueue [ex_b]].

Example ex_connhandler_outbound_split :
  let st := k_server (fst (o_run o_srv_ops)) in
  k_dead (fst (o_run o_srv_ops)) = false
  /\ kqueued o_srv_ops = [ex_b; ex_b; ex_b]
  /\ (forall b, In b (kqueued o_srv_ops) -> r_size b <= MAX_MESSAGE_SIZE)
  /\ sh_started st = [(0, [ex_b; ex_b])] /\ pending_list st = [ex_b] /\ sh_sink st = SvReady 0 []
  /\ swrote_on 0 (server_outs (concat (snd (o_run o_srv_ops)))) = codec_encode (payload_message [ex_b; ex_b]).
Proof.
  cbv zeta. split; [vm_compute; reflexivity|]. split; [vm_compute; reflexivity|]. split.
  - intros b Hb. change (kqueued o_srv_ops) with [ex_b; ex_b; ex_b] in Hb.
    destruct Hb as [<-|[<-|[<-|[]]]]; vm_compute; discriminate.
  - vm_compute. repeat split; reflexivity.
Qed.

Print Assumptions connhandler_inbound_polls.
Print Assumptions g_connhandler_inbound_is_stream_out.
Print Assumptions g_connhandler_inbound_complete.
Print Assumptions connhandler_inbound_is_stream_out.
Print Assumptions connhandler_inbound_complete.
Print Assumptions C16_connhandler_bad_frame_costs_own_stream.
Print Assumptions C16_connhandler_bad_frame_prefix.
Print Assumptions C14_connhandler_ready_means_delivered.
Print Assumptions C14_connhandler_wire_delivery.
Print Assumptions C14_connhandler_end_to_end.
Print Assumptions C09_connhandler_outbound_split.
Print Assumptions ex_inbound_is_stream_out_applied.
Print Assumptions ex_connhandler_bad_frame_costs_own_stream.
Print Assumptions ex_connhandler_end_to_end.
Print Assumptions connhandler_polled_enough_settled.
Print Assumptions g_connhandler_streams_complete.
Print Assumptions C16_connhandler_streams_complete.
Print Assumptions polls_owed_cons.
Print Assumptions ex_streams_complete_applied.
Print Assumptions C16_connhandler_streams_complete_refuted.
Print Assumptions g_connhandler_inbound_is_conn_run.
Print Assumptions connhandler_inbound_is_conn_run.
