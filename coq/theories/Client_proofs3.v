(* Client_proofs3.v — the poll loop: fuel is enough, CPoll ends quiescent, and the phases of one CPoll. *)
From BS Require Import Types Wantlist Wantlist_proofs Client Client_proofs.
From Coq Require Import ZArith ZifyBool ZifyN ZifyNat Lia Permutation.
Open Scope N_scope.

(* outputs of one trip round the loop *)
Definition iter_out (o : cout) : Prop :=
  match o with
  | OResponse _ _ | OError _ _ | OSendWantlist _ _ _ _ | OGet _ _ | OPut _ _ | OBadChoice => True
  | _ => False
  end.

Lemma poll_task_start_iter nc t o : poll_task nc t = TpStart o -> Forall iter_out o.
Proof.
  unfold poll_task. destruct (t_kind t) as [q0 c0|bl].
  - destruct (t_aborted t); [discriminate|]. destruct (t_call t); [destruct (t_result t); discriminate|].
    intros [= <-]. repeat constructor.
  - destruct (t_call t); [destruct (t_result t) as [[]|]; discriminate|]. intros [= <-]. repeat constructor.
Qed.

Lemma tasks_outs_iter s : Forall iter_out (tasks_outs s).
Proof.
  unfold tasks_outs.
  pose proof (poll_next_ind (fun _ _ _ _ _ _ outs _ => Forall iter_out outs)) as H.
  specialize (H (fun _ _ => Forall_nil _)).
  specialize (H (fun _ _ _ _ _ _ _ _ _ _ h => h)).
  specialize (H (fun _ _ _ _ _ _ _ _ => Forall_nil _)).
  assert (Hs : forall (tid : N) (rq : list N) (ts : list (N * task)) (nc : N) (t : task) (o : list cout)
                      (ts' : list (N * task)) (rq' : list N) (nc' : N) (outs : list cout) (res : option task_result),
             al_find N.eqb tid ts = Some t -> poll_task nc t = TpStart o ->
             Forall iter_out outs -> Forall iter_out (o ++ outs)).
  { intros. apply Forall_app. split; [eapply poll_task_start_iter; eassumption | assumption]. }
  specialize (H Hs (cs_ready s) (cs_tasks s) (cs_next_call s)).
  destruct (poll_next (cs_ready s) (cs_tasks s) (cs_next_call s)) as [[[[ts rq] nc] outs] res]. exact H.
Qed.

Lemma handle_result_iter s r : Forall iter_out (snd (handle_task_result s r)).
Proof.
  destruct r as [q c res|ok bl|]; cbn [handle_task_result].
  - destruct res; cbn [snd]; repeat constructor.
    destruct (wl_insert (cs_wl (set_abort s (al_remove N.eqb q (cs_abort s)))) c) as [w' ins]. destruct ins; constructor.
  - destruct ok; constructor.
  - constructor.
Qed.

Lemma uh_loop_bad now w ch l :
  let '(_, _, outs) := uh_loop now w ch l in Forall (fun o => o = OBadChoice) outs.
Proof.
  induction l as [|[p ps] l IH]; cbn [uh_loop]; [constructor|].
  assert (H1 : let '(_, _, outs, _) := uh_peer now w ch p ps in Forall (fun o => o = OBadChoice) outs).
  { unfold uh_peer. destruct (uh_gate now ps) as [ps1|]; [|constructor].
    destruct (p_conns ps1) as [|c0 cs]; [constructor|].
    destruct (if p_send_full ps1 then wls_generate_full (p_wl ps1) w else wls_generate_update (p_wl ps1) w) as [es wls'].
    destruct (negb (p_send_full ps1) && match es with [] => true | _ => false end); [constructor|].
    unfold pick_conn. destruct (al_find N.eqb p ch) as [c|]; [destruct (n_mem c (c0 :: cs))|]; repeat constructor. }
  destruct (uh_peer now w ch p ps) as [[[ps' evs] outs] dead].
  destruct (uh_loop now w ch l) as [[l'' evs'] outs']. apply Forall_app. split; assumption.
Qed.

Lemma update_handlers_outs_bad s ch : Forall (fun o => o = OBadChoice) (snd (fst (update_handlers s ch))).
Proof.
  unfold update_handlers. pose proof (uh_loop_bad (cs_now s) (cs_wl s) ch (cs_peers s)) as H.
  destruct (uh_loop (cs_now s) (cs_wl s) ch (cs_peers s)) as [[peers' evs] outs]. exact H.
Qed.

Lemma poll_iter_iter_out ch s : Forall iter_out (snd (fst (poll_iter ch s))).
Proof.
  destruct (poll_iter_cases ch s) as [(ev & q & Hq & ->) | [(Hq & Ht & ->) | [(r & Hq & Ht & Hr & ->) | (Hq & Ht & Hr & ->)]]];
    cbn [fst snd].
  - constructor; [destruct ev; exact I | constructor].
  - constructor.
  - apply Forall_app. split; [apply tasks_outs_iter | apply handle_result_iter].
  - apply Forall_app. split; [apply tasks_outs_iter|].
    eapply Forall_impl; [|apply update_handlers_outs_bad]. intros o ->. exact I.
Qed.

(* ---------- the measure ---------- *)
Definition gate_open (now : time) (e : peer * peer_state) : bool :=
  match uh_gate now (snd e) with Some _ => true | None => false end.

Definition count_open (now : time) (l : list (peer * peer_state)) : nat := length (filter (gate_open now) l).

Definition mu (s : cstate) : nat :=
  (length (cs_queue s) + (if timer_ready s then 1 else 0) + length (cs_ready s)
   + 2 * count_open (cs_now s) (cs_peers s) + 1)%nat.

Lemma count_open_le now l : (count_open now l <= length l)%nat.
Proof. unfold count_open. induction l as [|e l IH]; cbn [filter length]; [lia|]. destruct (gate_open now e); cbn [length]; lia. Qed.

Lemma mu_le_fuel s : (mu s <= poll_fuel s)%nat.
Proof.
  unfold mu, poll_fuel. pose proof (count_open_le (cs_now s) (cs_peers s)). destruct (timer_ready s); lia.
Qed.

(* poll_next consumes the ready queue *)
Lemma poll_next_ready rq ts nc :
  let '(ts', rq', nc', outs, res) := poll_next rq ts nc in
  match res with Some _ => (length rq' < length rq)%nat | None => rq' = [] end.
Proof.
  apply (poll_next_ind (fun rq ts nc ts' rq' nc' outs res =>
    match res with Some _ => (length rq' < length rq)%nat | None => rq' = [] end)).
  - reflexivity.
  - intros tid rq0 ts0 nc0 ts' rq' nc' outs res _ H. destruct res; [cbn [length]; lia | exact H].
  - intros. cbn [length]. lia.
  - intros tid rq0 ts0 nc0 t o ts' rq' nc' outs res _ _ H. destruct res; [cbn [length]; lia | exact H].
Qed.

Lemma after_tasks_ready s :
  match tasks_res s with
  | Some _ => (length (cs_ready (after_tasks s)) < length (cs_ready s))%nat
  | None => cs_ready (after_tasks s) = []
  end.
Proof.
  unfold after_tasks, tasks_res. pose proof (poll_next_ready (cs_ready s) (cs_tasks s) (cs_next_call s)) as H.
  destruct (poll_next (cs_ready s) (cs_tasks s) (cs_next_call s)) as [[[[ts rq] nc] outs] res]. exact H.
Qed.

(* the gate looks at the sending state only *)
Lemma uh_gate_ss now ps ps' : p_ss ps' = p_ss ps -> (uh_gate now ps' = None <-> uh_gate now ps = None).
Proof.
  intros E. unfold uh_gate. rewrite E. destruct (p_ss ps) as [|t c|t c|t c|c]; try tauto.
  - split; discriminate.
  - destruct (now - t <? RECEIVE_REQUEST_TIMEOUT); [tauto | split; discriminate].
  - split; discriminate.
Qed.

Lemma count_open_map now (f : peer * peer_state -> peer * peer_state) l :
  (forall e, p_ss (snd (f e)) = p_ss (snd e)) -> count_open now (map f l) = count_open now l.
Proof.
  intros Hf. unfold count_open. induction l as [|e l IH]; cbn [map filter]; [reflexivity|].
  assert (E : gate_open now (f e) = gate_open now e).
  { unfold gate_open. pose proof (uh_gate_ss now (snd e) (snd (f e)) (Hf e)) as H.
    destruct (uh_gate now (snd (f e))), (uh_gate now (snd e)); try reflexivity; exfalso; [assert (Some p = None) | assert (Some p = None)]; intuition discriminate. }
  rewrite E. destruct (gate_open now e); cbn [length]; rewrite IH; reflexivity.
Qed.

Lemma uh_gate_some_ready now ps ps1 : uh_gate now ps = Some ps1 -> p_ss ps1 = SsReady.
Proof.
  unfold uh_gate. destruct (p_ss ps) as [|t c|t c|t c|c] eqn:E; try discriminate.
  - intros [= <-]. exact E.
  - destruct (now - t <? RECEIVE_REQUEST_TIMEOUT); [discriminate|]. intros [= <-]. reflexivity.
  - intros [= <-]. reflexivity.
Qed.

Lemma uh_gate_requested_now now conns c w sf : uh_gate now (MkPeer conns (SsRequested now c) w sf) = None.
Proof. unfold uh_gate. cbn [p_ss]. rewrite N.sub_diag. reflexivity. Qed.

(* the shape of one peer's step *)
Inductive uh_case (now : time) (w : wl) (ch : list (peer * conn)) (p : peer) (ps : peer_state)
  : peer_state * list event * list cout * bool -> Prop :=
| UhBlocked : uh_gate now ps = None -> uh_case now w ch p ps (ps, [], [], false)
| UhDead ps1 : uh_gate now ps = Some ps1 -> p_conns ps1 = [] -> uh_case now w ch p ps (ps1, [], [], true)
| UhQuiet ps1 wls' conns :
    uh_gate now ps = Some ps1 -> conns = p_conns ps1 -> conns <> [] -> p_send_full ps1 = false ->
    wls_generate_update (p_wl ps1) w = ([], wls') ->
    uh_case now w ch p ps (MkPeer conns SsReady wls' false, [], [], false)
| UhSend ps1 es wls' c bad conns sf :
    uh_gate now ps = Some ps1 -> conns = p_conns ps1 -> sf = p_send_full ps1 ->
    (if sf then wls_generate_full (p_wl ps1) w else wls_generate_update (p_wl ps1) w) = (es, wls') ->
    (sf = true \/ es <> []) ->
    In c conns -> Forall (fun o => o = OBadChoice) bad ->
    (bad = [] -> al_find N.eqb p ch = Some c) ->
    uh_case now w ch p ps (MkPeer conns (SsRequested now c) wls' false, [EvSend p c sf es], bad, false).

Lemma pick_conn_spec ch p c0 cs :
  let '(c, bad) := pick_conn ch p (c0 :: cs) c0 in
  In c (c0 :: cs) /\ Forall (fun o => o = OBadChoice) bad /\ (bad = [] -> al_find N.eqb p ch = Some c).
Proof.
  unfold pick_conn. destruct (al_find N.eqb p ch) as [c|] eqn:Ech; [destruct (n_mem c (c0 :: cs)) eqn:Em|].
  - split; [apply n_mem_In; exact Em|]. split; [constructor | reflexivity].
  - split; [left; reflexivity|]. split; [repeat constructor | discriminate].
  - split; [left; reflexivity|]. split; [repeat constructor | discriminate].
Qed.

Lemma uh_peer_case now w ch p ps : uh_case now w ch p ps (uh_peer now w ch p ps).
Proof.
  unfold uh_peer. destruct (uh_gate now ps) as [ps1|] eqn:Eg; [|apply UhBlocked; exact Eg].
  pose proof (uh_gate_some_ready _ _ _ Eg) as Hready.
  destruct (p_conns ps1) as [|c0 cs] eqn:Ec; [apply (UhDead _ _ _ _ _ ps1); assumption|].
  destruct (p_send_full ps1) eqn:Esf; cbn [negb andb].
  - destruct (wls_generate_full (p_wl ps1) w) as [es wls'] eqn:Eg2.
    pose proof (pick_conn_spec ch p c0 cs) as Hp. destruct (pick_conn ch p (c0 :: cs) c0) as [c bad].
    destruct Hp as (H1 & H2 & H3).
    eapply (UhSend _ _ _ _ _ ps1 es wls' c bad); eauto.
  - destruct (wls_generate_update (p_wl ps1) w) as [es wls'] eqn:Eg2. destruct es as [|e es'].
    + rewrite Hready. eapply (UhQuiet _ _ _ _ _ ps1 wls'); eauto. discriminate.
    + pose proof (pick_conn_spec ch p c0 cs) as Hp. destruct (pick_conn ch p (c0 :: cs) c0) as [c bad].
      destruct Hp as (H1 & H2 & H3).
      eapply (UhSend _ _ _ _ _ ps1 (e :: es') wls' c bad); eauto. right; discriminate.
Qed.

Lemma uh_loop_count now w ch l :
  let '(l', evs, outs) := uh_loop now w ch l in
  (count_open now l' + length evs <= count_open now l)%nat.
Proof.
  induction l as [|[p ps] l IH]; cbn [uh_loop]; [cbn; lia|].
  pose proof (uh_peer_case now w ch p ps) as Hc.
  destruct (uh_peer now w ch p ps) as [[[ps' evs] outs] dead].
  destruct (uh_loop now w ch l) as [[l'' evs'] outs'].
  unfold count_open in *. cbn [filter]. unfold gate_open at 2. cbn [snd].
  inversion Hc as [Hg | ps1 Hg Hcn | ps1 wls' conns Hg Hcn Hne Hsf Hgen | ps1 es wls' c bad conns sf Hg Hcn Hsf Hgen Hsend Hin Hbad Hch]; subst.
  - rewrite Hg. cbn [filter]. unfold gate_open at 1. cbn [snd]. rewrite Hg. cbn [app length]. exact IH.
  - rewrite Hg. cbn [app length]. lia.
  - rewrite Hg. cbn [filter]. unfold gate_open at 1. cbn [snd uh_gate p_ss]. cbn [app length]. lia.
  - rewrite Hg. cbn [filter]. unfold gate_open at 1. cbn [snd]. rewrite uh_gate_requested_now. cbn [app length]. lia.
Qed.

Lemma fire_timer_not_ready s : timer_ready (fire_timer s) = false.
Proof.
  unfold timer_ready, fire_timer. cbn [cs_deadline cs_now]. apply N.leb_gt. unfold SEND_FULL_INTERVAL. lia.
Qed.

Lemma handle_result_peers_ss s r :
  exists f, cs_peers (fst (handle_task_result s r)) = map f (cs_peers s) /\ forall e, p_ss (snd (f e)) = p_ss (snd e).
Proof.
  destruct r as [q c res|ok bl|]; cbn [handle_task_result].
  - destruct res; cbn [fst]; try (exists (fun e => e); split; [symmetry; apply map_id | reflexivity]).
    destruct (wl_insert (cs_wl (set_abort s (al_remove N.eqb q (cs_abort s)))) c) as [w' ins]. destruct ins; cbn [fst].
    + eexists. split; [reflexivity|]. intros e. reflexivity.
    + exists (fun e => e); split; [symmetry; apply map_id | reflexivity].
  - destruct ok; exists (fun e => e); (split; [symmetry; apply map_id | reflexivity]).
  - exists (fun e => e); split; [symmetry; apply map_id | reflexivity].
Qed.

Lemma poll_iter_mu ch s :
  snd (poll_iter ch s) = true -> (mu (fst (fst (poll_iter ch s))) < mu s)%nat.
Proof.
  destruct (poll_iter_cases ch s) as [(ev & q & Hq & ->) | [(Hq & Ht & ->) | [(r & Hq & Ht & Hr & ->) | (Hq & Ht & Hr & ->)]]];
    cbn [fst snd]; intros Hagain.
  - unfold mu, timer_ready. cbn [set_queue cs_queue cs_deadline cs_now cs_ready cs_peers]. rewrite Hq. cbn [length]. lia.
  - unfold mu. rewrite fire_timer_not_ready, Ht. cbn [fire_timer cs_queue cs_ready cs_now cs_peers].
    rewrite count_open_map by reflexivity. lia.
  - destruct (after_tasks_frame s) as (F1 & F2 & F3 & F4 & F5 & F6 & F7 & F8 & F9 & F10).
    destruct (handle_result_frame (after_tasks s) r) as (E1 & E2 & E3 & E4 & E5 & _).
    destruct (handle_result_peers_ss (after_tasks s) r) as (f & Ep & Hf).
    pose proof (after_tasks_ready s) as Hrd. rewrite Hr in Hrd.
    unfold mu, timer_ready in *. rewrite E2, E3, E4, E5, Ep, F1, F3, F7, F9, count_open_map by exact Hf.
    rewrite Hq. lia.
  - destruct (after_tasks_frame s) as (F1 & F2 & F3 & F4 & F5 & F6 & F7 & F8 & F9 & F10).
    pose proof (after_tasks_ready s) as Hrd. rewrite Hr in Hrd.
    destruct (update_handlers_frame (after_tasks s) ch) as (E1 & E2 & E3 & E4 & E5 & E6 & E7 & E8 & E9 & _).
    unfold mu, timer_ready in *. rewrite E6, E8, E9, Hrd, F7, F9.
    unfold update_handlers in *. rewrite F1, F2, F3, F9, Hq in *.
    pose proof (uh_loop_count (cs_now s) (cs_wl s) ch (cs_peers s)) as Hcnt.
    destruct (uh_loop (cs_now s) (cs_wl s) ch (cs_peers s)) as [[peers' evs] outs].
    cbn [fst snd set_queue set_peers cs_queue cs_peers app] in *.
    destruct evs as [|e evs]; [discriminate|]. cbn [length] in *. lia.
Qed.

Lemma poll_iter_stop_queue ch s :
  snd (poll_iter ch s) = false -> cs_queue (fst (fst (poll_iter ch s))) = [].
Proof.
  destruct (poll_iter_cases ch s) as [(ev & q & Hq & ->) | [(Hq & Ht & ->) | [(r & Hq & Ht & Hr & ->) | (Hq & Ht & Hr & ->)]]];
    cbn [fst snd]; try discriminate.
  intros Hst. destruct (after_tasks_frame s) as (F1 & _).
  unfold update_handlers in *. destruct (uh_loop (cs_now (after_tasks s)) (cs_wl (after_tasks s)) ch (cs_peers (after_tasks s))) as [[peers' evs] outs].
  cbn [fst snd set_queue set_peers cs_queue] in *. destruct evs; [|discriminate]. rewrite F1, Hq. reflexivity.
Qed.

Lemma poll_loop_fuel_enough ch : forall fuel s,
  (mu s <= fuel)%nat ->
  ~ In OOutOfFuel (snd (poll_loop fuel ch s)) /\ cs_queue (fst (poll_loop fuel ch s)) = [].
Proof.
  induction fuel as [|f IH]; intros s Hmu; [unfold mu in Hmu; lia|].
  cbn [poll_loop]. pose proof (poll_iter_mu ch s) as Hdec. pose proof (poll_iter_stop_queue ch s) as Hstop.
  pose proof (poll_iter_iter_out ch s) as Hout.
  destruct (poll_iter ch s) as [[s1 outs] again]. cbn [fst snd] in *.
  assert (Hno : ~ In OOutOfFuel outs).
  { intros Hin. rewrite Forall_forall in Hout. apply Hout in Hin. exact Hin. }
  destruct again.
  - specialize (Hdec eq_refl). destruct (IH s1 ltac:(lia)) as [H1 H2].
    destruct (poll_loop f ch s1) as [s2 outs']. cbn [fst snd] in *. split; [|exact H2].
    rewrite in_app_iff. tauto.
  - cbn [fst snd]. split; [exact Hno | apply Hstop; reflexivity].
Qed.

(* the fuel of c_poll is never exhausted, and a CPoll ends with an empty event queue *)
Theorem cpoll_fuel_enough s ch :
  ~ In OOutOfFuel (snd (c_poll s ch)) /\ cs_queue (fst (c_poll s ch)) = [].
Proof. unfold c_poll. apply poll_loop_fuel_enough, mu_le_fuel. Qed.

(* ---------- the loop as a relation ---------- *)
Inductive poll_run (ch : list (peer * conn)) : cstate -> list cout -> cstate -> Prop :=
| PrStop s : snd (poll_iter ch s) = false ->
    poll_run ch s (snd (fst (poll_iter ch s))) (fst (fst (poll_iter ch s)))
| PrStep s outs s' : snd (poll_iter ch s) = true ->
    poll_run ch (fst (fst (poll_iter ch s))) outs s' ->
    poll_run ch s (snd (fst (poll_iter ch s)) ++ outs) s'.

Lemma poll_loop_run ch : forall fuel s,
  (mu s <= fuel)%nat -> poll_run ch s (snd (poll_loop fuel ch s)) (fst (poll_loop fuel ch s)).
Proof.
  induction fuel as [|f IH]; intros s Hmu; [unfold mu in Hmu; lia|].
  cbn [poll_loop]. pose proof (poll_iter_mu ch s) as Hdec.
  pose proof (PrStop ch s) as Hstop. pose proof (PrStep ch s) as Hstep.
  destruct (poll_iter ch s) as [[s1 outs] again]. cbn [fst snd] in *. destruct again.
  - specialize (Hdec eq_refl). specialize (IH s1 ltac:(lia)). specialize (Hstep _ _ eq_refl IH).
    destruct (poll_loop f ch s1) as [s2 outs']. exact Hstep.
  - apply Hstop. reflexivity.
Qed.

Lemma poll_run_det ch s o1 s1 : poll_run ch s o1 s1 -> forall o2 s2, poll_run ch s o2 s2 -> o1 = o2 /\ s1 = s2.
Proof.
  induction 1 as [s Hs | s outs s' Hs Hrun IH]; intros o2 s2 H2; inversion H2 as [? Hs2 | ? outs2 ? Hs2 Hrun2]; subst; try congruence.
  - auto.
  - destruct (IH _ _ Hrun2) as [-> ->]. auto.
Qed.

Lemma c_poll_run s ch : poll_run ch s (snd (c_poll s ch)) (fst (c_poll s ch)).
Proof. unfold c_poll. apply poll_loop_run, mu_le_fuel. Qed.

Lemma c_poll_eq s ch outs s' : poll_run ch s outs s' -> c_poll s ch = (s', outs).
Proof.
  intros H. destruct (poll_run_det _ _ _ _ (c_poll_run s ch) _ _ H) as [E1 E2].
  destruct (c_poll s ch); cbn [fst snd] in *. congruence.
Qed.

(* phase A: the queue is drained *)
Lemma set_queue_same s : set_queue s (cs_queue s) = s.
Proof. destruct s; reflexivity. Qed.

Lemma poll_run_drain ch : forall q s outs s',
  cs_queue s = q -> poll_run ch (set_queue s []) outs s' -> poll_run ch s (map out_of_event q ++ outs) s'.
Proof.
  induction q as [|ev q IH]; intros s outs s' Hq Hrun.
  - cbn [map app]. rewrite <- Hq, set_queue_same in Hrun. exact Hrun.
  - destruct (poll_iter_cases ch s) as [(ev' & q' & Hq' & E) | [(Hq' & _) | [(r & Hq' & _) | (Hq' & _)]]]; try congruence.
    rewrite Hq in Hq'. injection Hq' as <- <-.
    pose proof (PrStep ch s) as Hstep. rewrite E in Hstep. cbn [fst snd] in Hstep. cbn [map app].
    apply (Hstep _ _ eq_refl). apply IH; [reflexivity|]. exact Hrun.
Qed.

(* phase B: the timer *)
Lemma poll_run_timer ch s outs s' :
  cs_queue s = [] -> timer_ready s = true -> poll_run ch (fire_timer s) outs s' -> poll_run ch s outs s'.
Proof.
  intros Hq Ht Hrun.
  destruct (poll_iter_cases ch s) as [(ev' & q' & Hq' & E) | [(_ & _ & E) | [(r & _ & Ht' & _) | (_ & Ht' & _)]]]; try congruence.
  pose proof (PrStep ch s) as Hstep. rewrite E in Hstep. cbn [fst snd] in Hstep. apply (Hstep _ _ eq_refl Hrun).
Qed.

(* phase C: ready tasks are polled until none is Ready *)
Inductive tasks_run : cstate -> list cout -> cstate -> Prop :=
| TrDone s : tasks_res s = None -> tasks_run s (tasks_outs s) (after_tasks s)
| TrMore s r outs s' : tasks_res s = Some r ->
    tasks_run (fst (handle_task_result (after_tasks s) r)) outs s' ->
    tasks_run s (tasks_outs s ++ snd (handle_task_result (after_tasks s) r) ++ outs) s'.

Lemma tasks_run_exists : forall n s, length (cs_ready s) = n -> exists outs s', tasks_run s outs s'.
Proof.
  induction n as [n IH] using lt_wf_ind. intros s Hn.
  destruct (tasks_res s) as [r|] eqn:Er; [|eexists; eexists; apply TrDone; exact Er].
  pose proof (after_tasks_ready s) as Hrd. rewrite Er in Hrd.
  destruct (handle_result_frame (after_tasks s) r) as (_ & _ & E3 & _).
  destruct (IH (length (cs_ready (fst (handle_task_result (after_tasks s) r)))) ltac:(rewrite E3; lia) _ eq_refl) as (outs & s' & Hrun).
  eexists; eexists. eapply TrMore; eassumption.
Qed.

Lemma tasks_run_frame s outs s' : tasks_run s outs s' ->
  cs_queue s' = cs_queue s /\ cs_now s' = cs_now s /\ cs_deadline s' = cs_deadline s /\ cs_ready s' = [] /\
  cs_next_task s' = cs_next_task s.
Proof.
  induction 1 as [s Hr | s r outs s' Hr Hrun IH].
  - destruct (after_tasks_frame s) as (F1 & _ & _ & _ & _ & _ & F7 & _ & F9 & F10).
    pose proof (after_tasks_ready s) as Hrd. rewrite Hr in Hrd. auto.
  - destruct IH as (I1 & I2 & I3 & I4 & I5).
    destruct (handle_result_frame (after_tasks s) r) as (_ & E2 & _ & E4 & E5 & E6 & _).
    destruct (after_tasks_frame s) as (F1 & _ & _ & _ & _ & _ & F7 & _ & F9 & F10).
    repeat split; congruence.
Qed.

Lemma poll_run_CD ch s outsC sC : tasks_run s outsC sC ->
  cs_queue s = [] -> timer_ready s = false ->
  forall outs s',
    (if snd (update_handlers sC ch)
     then poll_run ch (fst (fst (update_handlers sC ch))) outs s'
     else outs = [] /\ s' = fst (fst (update_handlers sC ch))) ->
    poll_run ch s (outsC ++ snd (fst (update_handlers sC ch)) ++ outs) s'.
Proof.
  induction 1 as [s Hr | s r outsC sC Hr Hrun IH]; intros Hq Ht outs s' Hrest.
  - destruct (poll_iter_cases ch s) as [(ev' & q' & Hq' & E) | [(_ & Ht' & _) | [(r & _ & _ & Hr' & _) | (_ & _ & _ & E)]]]; try congruence.
    destruct (snd (update_handlers (after_tasks s) ch)) eqn:Eu.
    + pose proof (PrStep ch s) as Hstep. rewrite E in Hstep. cbn [fst snd] in Hstep.
      rewrite app_assoc. apply Hstep; [reflexivity | exact Hrest].
    + destruct Hrest as [-> ->]. rewrite app_nil_r.
      pose proof (PrStop ch s) as Hstop. rewrite E in Hstop. cbn [fst snd] in Hstop. apply Hstop. reflexivity.
  - destruct (poll_iter_cases ch s) as [(ev' & q' & Hq' & E) | [(_ & Ht' & _) | [(r' & _ & _ & Hr' & E) | (_ & _ & Hr' & _)]]]; try congruence.
    assert (r' = r) by congruence. subst r'.
    pose proof (PrStep ch s) as Hstep. rewrite E in Hstep. cbn [fst snd] in Hstep.
    replace ((tasks_outs s ++ snd (handle_task_result (after_tasks s) r) ++ outsC) ++ snd (fst (update_handlers sC ch)) ++ outs)
      with ((tasks_outs s ++ snd (handle_task_result (after_tasks s) r)) ++ (outsC ++ snd (fst (update_handlers sC ch)) ++ outs))
      by (rewrite <- !app_assoc; reflexivity).
    apply Hstep; [reflexivity|].
    destruct (handle_result_frame (after_tasks s) r) as (_ & E2 & _ & E4 & E5 & _).
    destruct (after_tasks_frame s) as (F1 & _ & _ & _ & _ & _ & F7 & _ & F9 & _).
    apply IH; [congruence | unfold timer_ready in *; congruence | exact Hrest].
Qed.

(* the second pass of update_handlers does nothing *)
Lemma gen_update_idem s w : wls_generate_update (snd (wls_generate_update s w)) w = ([], snd (wls_generate_update s w)).
Proof.
  rewrite (gen_update_unfold s w). destruct (wls_is_updated s w) eqn:U; cbn [snd].
  - rewrite gen_update_unfold, U. reflexivity.
  - rewrite gen_update_unfold. unfold upd_body at 1. cbn [snd].
    unfold wls_is_updated. cbn [force_update synced_rev negb andb]. rewrite N.eqb_refl. reflexivity.
Qed.

Lemma uh_peer_idem now w ch ch2 p ps :
  let '(ps', evs, outs, dead) := uh_peer now w ch p ps in
  dead = false -> uh_peer now w ch2 p ps' = (ps', [], [], false).
Proof.
  pose proof (uh_peer_case now w ch p ps) as Hc. destruct (uh_peer now w ch p ps) as [[[ps' evs] outs] dead].
  inversion Hc as [Hg | ps1 Hg Hcn | ps1 wls' conns Hg Hcn Hne Hsf Hgen | ps1 es wls' c bad conns sf Hg Hcn Hsf Hgen Hsend Hin Hbad Hch]; subst; intros Hd.
  - unfold uh_peer. rewrite Hg. reflexivity.
  - discriminate.
  - unfold uh_peer. cbn [uh_gate p_ss p_conns p_send_full p_wl].
    destruct (p_conns ps1) as [|c0 cs]; [congruence|].
    assert (E : wls_generate_update wls' w = ([], wls')).
    { pose proof (gen_update_idem (p_wl ps1) w) as H. rewrite Hgen in H. exact H. }
    rewrite E. reflexivity.
  - unfold uh_peer. rewrite uh_gate_requested_now. reflexivity.
Qed.

Lemma uh_loop_idem now w ch ch2 l :
  let '(l', evs, outs) := uh_loop now w ch l in uh_loop now w ch2 l' = (l', [], []).
Proof.
  induction l as [|[p ps] l IH]; cbn [uh_loop]; [reflexivity|].
  pose proof (uh_peer_idem now w ch ch2 p ps) as H1. destruct (uh_peer now w ch p ps) as [[[ps' evs] outs] dead].
  destruct (uh_loop now w ch l) as [[l'' evs'] outs']. destruct dead; [exact IH|].
  cbn [uh_loop]. rewrite (H1 eq_refl), IH. reflexivity.
Qed.

Lemma after_tasks_idle s : cs_ready s = [] -> after_tasks s = s /\ tasks_outs s = [] /\ tasks_res s = None.
Proof.
  intros H. unfold after_tasks, tasks_outs, tasks_res. rewrite H. cbn [poll_next]. destruct s; cbn in *; subst; auto.
Qed.

Lemma set_queue_set_peers_same s : set_queue (set_peers s (cs_peers s)) (cs_queue s) = s.
Proof. destruct s; reflexivity. Qed.

(* phase E: after the wantlists were queued they are emitted and a second, idle pass ends the poll *)
Lemma poll_run_tail ch sD :
  timer_ready sD = false -> cs_ready sD = [] ->
  (forall ch2, uh_loop (cs_now sD) (cs_wl sD) ch2 (cs_peers sD) = (cs_peers sD, [], [])) ->
  poll_run ch sD (map out_of_event (cs_queue sD) ++ []) (set_queue sD []).
Proof.
  intros Ht Hr Hidem. apply (poll_run_drain ch (cs_queue sD)); [reflexivity|].
  set (x := set_queue sD []).
  assert (Hq : cs_queue x = []) by reflexivity.
  assert (Htx : timer_ready x = false) by exact Ht.
  assert (Hrx : cs_ready x = []) by exact Hr.
  destruct (after_tasks_idle x Hrx) as (A1 & A2 & A3).
  destruct (poll_iter_cases ch x) as [(ev' & q' & Hq' & E) | [(_ & Ht' & _) | [(r & _ & _ & Hr' & _) | (_ & _ & _ & E)]]]; try congruence.
  rewrite A1, A2 in E. unfold update_handlers in E. change (cs_now x) with (cs_now sD) in E.
  change (cs_wl x) with (cs_wl sD) in E. change (cs_peers x) with (cs_peers sD) in E. rewrite Hidem in E.
  cbn [fst snd app] in E.
  pose proof (PrStop ch x) as Hstop. rewrite E in Hstop. cbn [fst snd] in Hstop.
  replace (set_queue (set_peers x (cs_peers sD)) (cs_queue x ++ [])) with x in Hstop; [apply Hstop; reflexivity|].
  rewrite app_nil_r. symmetry. apply (set_queue_set_peers_same x).
Qed.

(* ---------- the phases of one CPoll ---------- *)
Definition after_timer (s : cstate) : cstate :=
  let sA := set_queue s [] in if timer_ready sA then fire_timer sA else sA.

Lemma after_timer_props s :
  cs_queue (after_timer s) = [] /\ timer_ready (after_timer s) = false /\ cs_now (after_timer s) = cs_now s.
Proof.
  unfold after_timer. destruct (timer_ready (set_queue s [])) eqn:E.
  - split; [reflexivity|]. split; [apply fire_timer_not_ready | reflexivity].
  - split; [reflexivity|]. split; [exact E | reflexivity].
Qed.

Theorem c_poll_phases s ch :
  exists outsC sC,
    tasks_run (after_timer s) outsC sC /\
    let '(peersD, evs, outsD) := uh_loop (cs_now sC) (cs_wl sC) ch (cs_peers sC) in
    c_poll s ch = (set_queue (set_peers sC peersD) [],
                   map out_of_event (cs_queue s) ++ outsC ++ outsD ++ map out_of_event evs).
Proof.
  destruct (after_timer_props s) as (HqB & HtB & HnB).
  destruct (tasks_run_exists _ (after_timer s) eq_refl) as (outsC & sC & Hrun).
  exists outsC, sC. split; [exact Hrun|].
  destruct (tasks_run_frame _ _ _ Hrun) as (F1 & F2 & F3 & F4 & F5).
  pose proof (poll_run_CD ch _ _ _ Hrun HqB HtB) as HCD.
  pose proof (fun ch2 => uh_loop_idem (cs_now sC) (cs_wl sC) ch ch2 (cs_peers sC)) as Hidem.
  unfold update_handlers in HCD.
  destruct (uh_loop (cs_now sC) (cs_wl sC) ch (cs_peers sC)) as [[peersD evs] outsD] eqn:Euh.
  cbn [fst snd] in HCD. rewrite F1, HqB in HCD. cbn [app] in HCD.
  assert (Hrun2 : poll_run ch (after_timer s) (outsC ++ outsD ++ map out_of_event evs) (set_queue (set_peers sC peersD) [])).
  { destruct evs as [|e evs].
    - specialize (HCD [] (set_queue (set_peers sC peersD) []) (conj eq_refl eq_refl)). exact HCD.
    - set (sD := set_queue (set_peers sC peersD) (e :: evs)) in *.
      specialize (HCD (map out_of_event (e :: evs) ++ []) (set_queue sD [])).
      rewrite app_nil_r in HCD. apply HCD.
      assert (Htail : poll_run ch sD (map out_of_event (cs_queue sD) ++ []) (set_queue sD [])).
      { apply (poll_run_tail ch sD).
        - unfold timer_ready in *. cbn [sD set_queue set_peers cs_deadline cs_now]. rewrite F2, F3. exact HtB.
        - exact F4.
        - intros ch2. exact (Hidem ch2). }
      rewrite app_nil_r in Htail. exact Htail. }
  apply c_poll_eq.
  apply (poll_run_drain ch (cs_queue s)); [reflexivity|].
  unfold after_timer in Hrun2. destruct (timer_ready (set_queue s [])) eqn:Et.
  - apply poll_run_timer; [reflexivity | exact Et | exact Hrun2].
  - exact Hrun2.
Qed.

(* ---------- what the phases before update_handlers do to the peers ---------- *)
Definition link_ok (ps ps' : peer_state) : Prop :=
  p_ss ps' = p_ss ps /\ p_conns ps' = p_conns ps /\ (p_send_full ps' = p_send_full ps \/ p_send_full ps' = true).

Definition peers_link (l l' : list (peer * peer_state)) : Prop :=
  Forall2 (fun e e' => fst e' = fst e /\ link_ok (snd e) (snd e')) l l'.

Lemma peers_link_refl l : peers_link l l.
Proof. induction l; constructor; auto. split; [reflexivity|]. repeat split; auto. Qed.

Lemma peers_link_trans a b c : peers_link a b -> peers_link b c -> peers_link a c.
Proof.
  intros H. revert c. induction H as [|x y a b [Hk (H1 & H2 & H3)] Hab IH]; intros c Hbc; inversion Hbc as [|? z ? c' [Hk' (G1 & G2 & G3)] Hbc']; subst; constructor.
  - split; [congruence|]. repeat split; try congruence. destruct G3 as [G3 | G3]; [destruct H3 as [H3 | H3]; [left | right]; congruence | right; exact G3].
  - apply IH. assumption.
Qed.

Lemma peers_link_map l (f : peer * peer_state -> peer * peer_state) :
  (forall e, fst (f e) = fst e /\ link_ok (snd e) (snd (f e))) -> peers_link l (map f l).
Proof. intros Hf. induction l; cbn [map]; constructor; auto. Qed.

Lemma handle_result_peers_link s r : peers_link (cs_peers s) (cs_peers (fst (handle_task_result s r))).
Proof.
  destruct r as [q c res|ok bl|]; cbn [handle_task_result].
  - destruct res; cbn [fst]; try apply peers_link_refl.
    destruct (wl_insert (cs_wl (set_abort s (al_remove N.eqb q (cs_abort s)))) c) as [w' ins]. destruct ins; cbn [fst]; [|apply peers_link_refl].
    cbn [set_c2q set_peers set_wl set_abort cs_peers]. unfold wanted_again_all. apply peers_link_map.
    intros e. split; [reflexivity|]. repeat split; auto.
  - destruct ok; apply peers_link_refl.
  - apply peers_link_refl.
Qed.

Lemma tasks_run_peers s outs s' : tasks_run s outs s' -> peers_link (cs_peers s) (cs_peers s').
Proof.
  induction 1 as [s Hr | s r outs s' Hr Hrun IH].
  - destruct (after_tasks_frame s) as (_ & _ & -> & _). apply peers_link_refl.
  - eapply peers_link_trans; [|exact IH].
    pose proof (handle_result_peers_link (after_tasks s) r) as H.
    destruct (after_tasks_frame s) as (_ & _ & F3 & _). rewrite F3 in H. exact H.
Qed.

Lemma after_timer_peers s : peers_link (cs_peers s) (cs_peers (after_timer s)).
Proof.
  unfold after_timer. destruct (timer_ready (set_queue s [])); [|apply peers_link_refl].
  cbn [fire_timer set_queue cs_peers]. apply peers_link_map. intros e. split; [reflexivity|]. repeat split; auto.
Qed.

Lemma after_timer_fired s :
  timer_ready s = true ->
  cs_deadline (after_timer s) = cs_now s + SEND_FULL_INTERVAL /\
  forall p ps, In (p, ps) (cs_peers (after_timer s)) -> p_send_full ps = true.
Proof.
  intros Ht. unfold after_timer. change (timer_ready (set_queue s [])) with (timer_ready s). rewrite Ht.
  split; [reflexivity|]. cbn [fire_timer set_queue cs_peers]. intros p ps Hin. apply in_map_iff in Hin.
  destruct Hin as (e & [= <- <-] & _). reflexivity.
Qed.

Lemma peers_link_find l l' p ps :
  peers_link l l' -> al_find N.eqb p l = Some ps -> exists ps', al_find N.eqb p l' = Some ps' /\ link_ok ps ps'.
Proof.
  induction 1 as [|[k v] [k' v'] l l' [Hk Hl] Hll IH]; cbn [al_find]; [discriminate|].
  cbn [fst snd] in *. subst k'. destruct (p =? k); [intros [= <-]; eauto | exact IH].
Qed.

Lemma peers_link_find_rev l l' p ps' :
  peers_link l l' -> al_find N.eqb p l' = Some ps' -> exists ps, al_find N.eqb p l = Some ps /\ link_ok ps ps'.
Proof.
  induction 1 as [|[k v] [k' v'] l l' [Hk Hl] Hll IH]; cbn [al_find]; [discriminate|].
  cbn [fst snd] in *. subst k'. destruct (p =? k); [intros [= <-]; eauto | exact IH].
Qed.

Lemma peers_link_in l l' p ps' :
  peers_link l l' -> In (p, ps') l' -> exists ps, In (p, ps) l /\ link_ok ps ps'.
Proof.
  induction 1 as [|[k v] [k' v'] l l' [Hk Hl] Hll IH]; [intros []|]. cbn [fst snd] in *. subst k'.
  intros [[= <- <-] | Hin]; [exists v; split; [left; reflexivity | exact Hl]|].
  destruct (IH Hin) as (ps & H1 & H2). exists ps. split; [right; exact H1 | exact H2].
Qed.

Lemma peers_link_keys l l' : peers_link l l' -> map fst l' = map fst l.
Proof. induction 1 as [|x y l l' [Hk _] _ IH]; cbn [map]; [reflexivity | rewrite Hk, IH; reflexivity]. Qed.

(* ---------- uh_loop as three flat_maps ---------- *)
Definition uh_keep now w ch (e : peer * peer_state) : list (peer * peer_state) :=
  let '(ps', _, _, dead) := uh_peer now w ch (fst e) (snd e) in if dead then [] else [(fst e, ps')].
Definition uh_events now w ch (e : peer * peer_state) : list event :=
  let '(_, evs, _, _) := uh_peer now w ch (fst e) (snd e) in evs.
Definition uh_outs now w ch (e : peer * peer_state) : list cout :=
  let '(_, _, outs, _) := uh_peer now w ch (fst e) (snd e) in outs.

Lemma uh_loop_flat now w ch l :
  uh_loop now w ch l = (flat_map (uh_keep now w ch) l, flat_map (uh_events now w ch) l, flat_map (uh_outs now w ch) l).
Proof.
  induction l as [|[p ps] l IH]; cbn [uh_loop flat_map]; [reflexivity|].
  unfold uh_keep at 1, uh_events at 1, uh_outs at 1. cbn [fst snd].
  destruct (uh_peer now w ch p ps) as [[[ps' evs] outs] dead]. rewrite IH. destruct dead; reflexivity.
Qed.

Lemma uh_keep_keys now w ch l k : In k (map fst (flat_map (uh_keep now w ch) l)) -> In k (map fst l).
Proof.
  induction l as [|[p ps] l IH]; cbn [flat_map map]; [auto|]. rewrite map_app, in_app_iff.
  intros [H | H]; [|right; apply IH, H]. left. unfold uh_keep in H. cbn [fst snd] in H.
  destruct (uh_peer now w ch p ps) as [[[ps' evs] outs] dead]. destruct dead; [destruct H|].
  destruct H as [H | []]. exact H.
Qed.

Lemma uh_keep_NoDup now w ch l : NoDup (map fst l) -> NoDup (map fst (flat_map (uh_keep now w ch) l)).
Proof.
  induction l as [|[p ps] l IH]; cbn [flat_map map]; [auto|]. intros Hnd. inversion Hnd as [|? ? Hn Hnd']; subst.
  rewrite map_app. apply NoDup_app_iff. split; [|split; [apply IH, Hnd'|]].
  - unfold uh_keep. cbn [fst snd]. destruct (uh_peer now w ch p ps) as [[[ps' evs] outs] dead].
    destruct dead; cbn; [constructor | constructor; [intros [] | constructor]].
  - intros x Hx Hx'. apply uh_keep_keys in Hx'. unfold uh_keep in Hx. cbn [fst snd] in Hx.
    destruct (uh_peer now w ch p ps) as [[[ps' evs] outs] dead]. destruct dead; [destruct Hx|].
    destruct Hx as [<- | []]. contradiction.
Qed.
