(* Handler.v — executable model of `ClientConnectionHandler` (/repo/src/client.rs:516-719) as driven through
   `ConnHandler` (/repo/src/lib.rs:332-405).  Definitions only; theorems are in Handler_proofs.v.

   I/O convention: see the top of FramedWrite.v (S1-S6).  Clock: `Instant::now()` / `Delay` are the
   virtual clock of src/verif/mod.rs (`Delay::new(d)` stores `now + d`; it is ready iff `now >= deadline`);
   `HAdvance ms` adds `ms` to `now` (u64 wrap-around of the clock is not modelled).

   Build mode: `debug_assert!` is modelled as a panic, i.e. this is the model of a build with
   debug assertions (the one the harness runs).  After `HPanic` the run stops: no later op has any effect
   or output.

   Outputs of one op, in order of occurrence:
     HSendWantlist : []  or [HPanic]
     HSetStream    : the new stream gets number `h_next` (0,1,2,... in HSetStream order, also when the
                     handler is halted); [HDropped old] if a FramedWrite was overwritten,
                     [HDropped new] if the handler is halted (`set_stream` returns and drops its argument)
     HAllocFailed  : [] or [HPanic]
     HAdvance      : []
     HPoll s       : `ClientConnectionHandler::poll` is called until it returns Pending; every
                     `Poll::Ready(ev)` gives one output (HReport / HClosing / HOpenStream), interleaved
                     with what the stream records while the calls run (HWrote per accepted poll_write,
                     HStreamClosed, HDropped)
     HPollClose s  : `poll_close` is called until it returns `Ready(None)`; same interleaving
   The stream a handler still holds when the op list ends is not reported as dropped.

   ConnHandler glue (lib.rs:332-405), not modelled as code of its own, only as the meaning of the ops:
     on_behaviour_event(SendWantlist w)                         = HSendWantlist w
     on_connection_event(FullyNegotiatedOutbound, Client)       = HSetStream
     on_connection_event(DialUpgradeError, Client)              = HAllocFailed
     connection_keep_alive()                                    = keep_alive
     poll_close() until Ready(None)                             = HPollClose
     poll(): incoming streams first, then client_handler.poll, then (only if that is Pending)
       server_handler.poll.  HPoll is client_handler.poll alone; it coincides with ConnHandler::poll
       until Pending whenever the other two sources are idle (no inbound stream, server half with
       nothing pending and no stream: it then returns Pending without any stream call).  Otherwise each
       Ready event of the server half is followed by a fresh client_handler.poll, i.e. by further calls
       on the client's stream; that interleaving is not modelled. *)
From BS Require Export Types FramedWrite.

Inductive hop :=
| HSendWantlist (w : wantlist)
| HSetStream
| HAllocFailed
| HAdvance (ms : N)
| HPoll (script : list io)
| HPollClose (script : list io).

Inductive hout :=
| HReport (r : sending_report)
| HClosing
| HOpenStream
| HWrote (stream : N) (bs : bytes)
| HStreamClosed (stream : N)
| HDropped (stream : N)
| HPanic.

(* client::SinkState; `SkReady id buf` = Ready(FramedWrite) on stream number id whose buffer holds buf *)
Inductive sink_state := SkNone | SkRequested | SkReady (id : N) (buf : bytes).

(* ToBehaviourEvent values the client handler queues *)
Inductive hev := EvState (s : sending_state) | EvClosing.

Record hstate := MkH {
  h_conn : conn;                      (* connection_id *)
  h_queue : list hev;                 (* queue, front first *)
  h_msg : option message;             (* msg *)
  h_sink : sink_state;                (* sink_state *)
  h_sending : sending_state;          (* sending_state *)
  h_closing : bool;
  h_halted : bool;
  h_timeout : option time;            (* start_sending_timeout: deadline of the Delay *)
  h_now : time;                       (* virtual clock *)
  h_next : N;                         (* number the next HSetStream stream gets *)
  (* ghost fields, not part of the Rust state *)
  h_panicked : bool;                  (* a panic happened: the run is over *)
  h_exhausted : bool;                 (* the fuel of hpoll_loop ran out (proved impossible) *)
  h_frames : list (N * message)       (* (stream, m) of every start_send so far, oldest first *)
}.

Definition h_init (c : conn) : hstate :=
  MkH c [] None SkNone SsReady false false None 0 0 false false [].

Definition set_queue st q := MkH (h_conn st) q (h_msg st) (h_sink st) (h_sending st) (h_closing st)
  (h_halted st) (h_timeout st) (h_now st) (h_next st) (h_panicked st) (h_exhausted st) (h_frames st).
Definition set_msg st m := MkH (h_conn st) (h_queue st) m (h_sink st) (h_sending st) (h_closing st)
  (h_halted st) (h_timeout st) (h_now st) (h_next st) (h_panicked st) (h_exhausted st) (h_frames st).
Definition set_sink st k := MkH (h_conn st) (h_queue st) (h_msg st) k (h_sending st) (h_closing st)
  (h_halted st) (h_timeout st) (h_now st) (h_next st) (h_panicked st) (h_exhausted st) (h_frames st).
Definition set_sending st s := MkH (h_conn st) (h_queue st) (h_msg st) (h_sink st) s (h_closing st)
  (h_halted st) (h_timeout st) (h_now st) (h_next st) (h_panicked st) (h_exhausted st) (h_frames st).
Definition set_closing st b := MkH (h_conn st) (h_queue st) (h_msg st) (h_sink st) (h_sending st) b
  (h_halted st) (h_timeout st) (h_now st) (h_next st) (h_panicked st) (h_exhausted st) (h_frames st).
Definition set_halted st b := MkH (h_conn st) (h_queue st) (h_msg st) (h_sink st) (h_sending st)
  (h_closing st) b (h_timeout st) (h_now st) (h_next st) (h_panicked st) (h_exhausted st) (h_frames st).
Definition set_timeout st t := MkH (h_conn st) (h_queue st) (h_msg st) (h_sink st) (h_sending st)
  (h_closing st) (h_halted st) t (h_now st) (h_next st) (h_panicked st) (h_exhausted st) (h_frames st).
Definition set_now st t := MkH (h_conn st) (h_queue st) (h_msg st) (h_sink st) (h_sending st)
  (h_closing st) (h_halted st) (h_timeout st) t (h_next st) (h_panicked st) (h_exhausted st) (h_frames st).
Definition set_next st n := MkH (h_conn st) (h_queue st) (h_msg st) (h_sink st) (h_sending st)
  (h_closing st) (h_halted st) (h_timeout st) (h_now st) n (h_panicked st) (h_exhausted st) (h_frames st).
Definition set_panicked st := MkH (h_conn st) (h_queue st) (h_msg st) (h_sink st) (h_sending st)
  (h_closing st) (h_halted st) (h_timeout st) (h_now st) (h_next st) true (h_exhausted st) (h_frames st).
Definition set_exhausted st := MkH (h_conn st) (h_queue st) (h_msg st) (h_sink st) (h_sending st)
  (h_closing st) (h_halted st) (h_timeout st) (h_now st) (h_next st) (h_panicked st) true (h_frames st).
Definition add_frame st f := MkH (h_conn st) (h_queue st) (h_msg st) (h_sink st) (h_sending st)
  (h_closing st) (h_halted st) (h_timeout st) (h_now st) (h_next st) (h_panicked st) (h_exhausted st)
  (h_frames st ++ [f]).

(* derived PartialEq of SendingState (Instants included) *)
Definition ss_eqb (a b : sending_state) : bool :=
  match a, b with
  | SsReady, SsReady => true
  | SsRequested t c, SsRequested t' c' => (t =? t') && (c =? c')
  | SsRequestReceived t c, SsRequestReceived t' c' => (t =? t') && (c =? c')
  | SsSending t c, SsSending t' c' => (t =? t') && (c =? c')
  | SsFailed c, SsFailed c' => c =? c'
  | _, _ => false
  end.

(* what the behaviour sees of a SendingStateChanged event (the handler never produces SsRequested) *)
Definition report_of (s : sending_state) : sending_report :=
  match s with
  | SsReady => RpReady
  | SsRequested _ c => RpRequestReceived c
  | SsRequestReceived _ c => RpRequestReceived c
  | SsSending _ c => RpSending c
  | SsFailed c => RpFailed c
  end.

Definition hout_of_ev (e : hev) : hout :=
  match e with EvState s => HReport (report_of s) | EvClosing => HClosing end.

Definition hout_of_sev (id : N) (e : sev) : hout :=
  match e with SevWrote bs => HWrote id bs | SevClosed => HStreamClosed id end.

(* Message { wantlist: Some(w), ..Message::default() } *)
Definition wantlist_message (w : wantlist) : message := MkMessage (Some w) [] [] 0.

(* change_sending_state, client.rs:585-591 *)
Definition change_sending_state (st : hstate) (s : sending_state) : hstate :=
  if ss_eqb (h_sending st) s then st
  else set_queue (set_sending st s) (h_queue st ++ [EvState s]).

(* `self.sink_state = SinkState::None` (close_sink_on_error and friends): the old value is dropped *)
Definition drop_sink (st : hstate) : hstate * list hout :=
  match h_sink st with
  | SkReady id _ => (set_sink st SkNone, [HDropped id])
  | _ => (set_sink st SkNone, [])
  end.

(* the Delay inside start_sending_timeout is ready *)
Definition timeout_fired (st : hstate) : bool :=
  match h_timeout st with Some d => d <=? h_now st | None => false end.

(* connection_keep_alive, lib.rs:377 *)
Definition keep_alive (st : hstate) : bool := negb (h_halted st).

Section WithEncode.
Variable encode : message -> bytes.   (* bytes `Codec::encode` appends for a message *)

(* send_wantlist, client.rs:560-582 *)
Definition do_send_wantlist (st : hstate) (w : wantlist) : hstate * list hout :=
  if h_halted st then (st, []) else
  match h_msg st with
  | Some _ => (set_panicked st, [HPanic])                     (* debug_assert!(self.msg.is_none()) *)
  | None =>
      match h_sending st with
      | SsReady =>
          let st1 := set_msg st (Some (wantlist_message w)) in
          let st2 := change_sending_state st1 (SsRequestReceived (h_now st) (h_conn st)) in
          (set_timeout st2 (Some (h_now st + START_SENDING_TIMEOUT)), [])
      | _ => (set_panicked st, [HPanic])                      (* debug_assert!(sending_state is Ready) *)
      end
  end.

(* set_stream, client.rs:540-547 *)
Definition do_set_stream (st : hstate) : hstate * list hout :=
  let id := h_next st in
  let st0 := set_next st (id + 1) in
  if h_halted st then (st0, [HDropped id]) else
  let '(st1, o) := drop_sink st0 in
  (set_sink st1 (SkReady id []), o).

(* stream_allocation_failed, client.rs:549-557 *)
Definition do_alloc_failed (st : hstate) : hstate * list hout :=
  if h_halted st then (st, []) else
  match h_sink st with
  | SkRequested => (set_sink st SkNone, [])
  | _ => (set_panicked st, [HPanic])                          (* debug_assert!(sink_state is Requested) *)
  end.

(* One pass through the body of the `loop` of `poll`, client.rs:652-717. *)
Inductive iter_res := IrPending | IrReady (o : hout) | IrContinue.

Definition poll_iter (st : hstate) (script : list io) : iter_res * hstate * list io * list hout :=
  match h_queue st with
  | ev :: q => (IrReady (hout_of_ev ev), set_queue st q, script, [])
  | [] =>
    if h_halted st then (IrPending, st, script, []) else
    if timeout_fired st then
      let st1 := set_msg (set_timeout st None) None in
      let '(st2, o) := drop_sink st1 in
      let st3 := change_sending_state st2 (SsFailed (h_conn st)) in
      (IrContinue, set_halted st3 true, script, o)
    else
    match h_msg st, h_sink st with
    | None, SkNone => (IrPending, st, script, [])
    | Some _, SkNone => (IrReady HOpenStream, set_sink st SkRequested, script, [])   (* open_new_substream *)
    | _, SkRequested => (IrPending, st, script, [])
    | None, SkReady id buf =>
        let f := fw_poll_flush buf script in
        let ofl := map (hout_of_sev id) (fr_evs f) in
        match fr_res f with
        | PrPending => (IrPending, set_sink st (SkReady id (fr_buf f)), fr_script f, ofl)
        | PrErr =>
            let st1 := set_sink st SkNone in                               (* close_sink_on_error *)
            (IrContinue, change_sending_state st1 (SsFailed (h_conn st)), fr_script f, ofl ++ [HDropped id])
        | PrOk =>
            let c := fw_poll_close (fr_buf f) (fr_script f) in             (* let _ = sink.poll_close_unpin(cx) *)
            let ocl := map (hout_of_sev id) (fr_evs c) in
            let st1 := set_sink st SkNone in
            (IrContinue, change_sending_state st1 SsReady, fr_script c, ofl ++ ocl ++ [HDropped id])
        end
    | Some m, SkReady id buf =>
        let r := fw_poll_ready buf script in
        let ord := map (hout_of_sev id) (fr_evs r) in
        match fr_res r with
        | PrPending => (IrPending, set_sink st (SkReady id (fr_buf r)), fr_script r, ord)
        | PrErr => (IrContinue, set_sink st SkNone, fr_script r, ord ++ [HDropped id])
        | PrOk =>
            (* msg.take().expect("msg is always Some here"): `msg` is the binding matched as Some(m)
               by this very arm, so the expect cannot fail and has no HPanic outcome in the model *)
            let st1 := set_msg st None in
            let st2 := set_sink st1 (SkReady id (fw_start_send (fr_buf r) (encode m))) in
            let st3 := add_frame st2 (id, m) in
            let st4 := set_timeout st3 None in
            (IrContinue, change_sending_state st4 (SsSending (h_now st) (h_conn st)), fr_script r, ord)
        end
    end
  end.

(* `poll` called until it returns Pending.  A `continue` and a fresh call of `poll` both start at the top
   of the loop, so one fuel-driven loop covers both. *)
Fixpoint hpoll_loop (fuel : nat) (st : hstate) (script : list io) : hstate * list hout :=
  match fuel with
  | O => (set_exhausted st, [])
  | S f =>
      match poll_iter st script with
      | (IrPending, st', _, o) => (st', o)
      | (IrReady e, st', s', o) => let '(st'', o') := hpoll_loop f st' s' in (st'', o ++ e :: o')
      | (IrContinue, st', s', o) => let '(st'', o') := hpoll_loop f st' s' in (st'', o ++ o')
      end
  end.

Definition poll_fuel (st : hstate) : nat := length (h_queue st) + 8.

Definition do_poll (st : hstate) (script : list io) : hstate * list hout :=
  hpoll_loop (poll_fuel st) st script.

(* poll_close, client.rs:620-648, called until it returns Ready(None) *)
Definition do_poll_close (st : hstate) (script : list io) : hstate * list hout :=
  let '(st', o) :=
    if h_closing st then (st, []) else
    let st1 := set_msg (set_closing st true) None in
    let '(st2, o) :=
      match h_sink st1 with
      | SkReady id buf =>
          let c := fw_poll_close buf script in                          (* let _ = sink.poll_close_unpin(cx) *)
          (set_sink st1 SkNone, map (hout_of_sev id) (fr_evs c) ++ [HDropped id])
      | _ => (set_sink st1 SkNone, [])                                   (* mem::replace(.., SinkState::None) *)
      end in
    let st3 :=
      match h_sending st2 with
      | SsRequestReceived _ _ | SsSending _ _ => change_sending_state st2 (SsFailed (h_conn st))
      | _ => st2
      end in
    (set_queue st3 (h_queue st3 ++ [EvClosing]), o) in
  (set_queue st' [], o ++ map hout_of_ev (h_queue st')).

Definition hstep (st : hstate) (op : hop) : hstate * list hout :=
  if h_panicked st then (st, []) else
  match op with
  | HSendWantlist w => do_send_wantlist st w
  | HSetStream => do_set_stream st
  | HAllocFailed => do_alloc_failed st
  | HAdvance ms => (set_now st (h_now st + ms), [])
  | HPoll s => do_poll st s
  | HPollClose s => do_poll_close st s
  end.

(* outputs per op *)
Fixpoint hrun_trace (st : hstate) (ops : list hop) : hstate * list (list hout) :=
  match ops with
  | [] => (st, [])
  | op :: ops' =>
      let '(st', o) := hstep st op in
      let '(st'', os) := hrun_trace st' ops' in
      (st'', o :: os)
  end.

Definition hrun (st : hstate) (ops : list hop) : hstate * list hout :=
  let '(st', os) := hrun_trace st ops in (st', concat os).

(* entry points for the harness *)
Definition handler_run (c : conn) (ops : list hop) : list (list hout) := snd (hrun_trace (h_init c) ops).
Definition handler_outs (c : conn) (ops : list hop) : list hout := snd (hrun (h_init c) ops).
Definition handler_final (c : conn) (ops : list hop) : hstate := fst (hrun_trace (h_init c) ops).

(* the plain-data snapshot of src/verif/client.rs `HandlerSnapshot`:
   (queue_len, has_msg, sink_state 0/1/2, sending_state, closing, halted, has_timeout) *)
Definition h_snapshot (st : hstate) : N * bool * N * sending_state * bool * bool * bool :=
  (len (h_queue st),
   match h_msg st with Some _ => true | None => false end,
   match h_sink st with SkNone => 0 | SkRequested => 1 | SkReady _ _ => 2 end,
   h_sending st, h_closing st, h_halted st,
   match h_timeout st with Some _ => true | None => false end).

(* ---------------------------------------------------------------------------------------------------
   The environment's side of the contract, as a monitor that runs beside the model.
     e_ready  : the behaviour's copy of this handler's state allows a SendWantlist: true initially,
                false from the moment a SendWantlist is issued, true again when the handler reports
                RpReady, false on every other report (client.rs update_handlers / sending_state_changed);
     e_open   : an OutboundSubstreamRequest of the client half is unanswered (libp2p-swarm answers each
                with exactly one FullyNegotiatedOutbound or DialUpgradeError);
     e_closed : `poll_close` has been called (libp2p-swarm then never calls anything but `poll_close`
                again: "After reaching this point, `poll` method will never be called again").
   `strict = true` enforces the third rule as well, `strict = false` only the first two.
   --------------------------------------------------------------------------------------------------- *)
Record env := MkEnv { e_ready : bool; e_open : bool; e_closed : bool }.

Definition env_init : env := MkEnv true false false.

Definition env_out (e : env) (o : hout) : env :=
  match o with
  | HReport RpReady => MkEnv true (e_open e) (e_closed e)
  | HReport _ => MkEnv false (e_open e) (e_closed e)
  | HOpenStream => MkEnv (e_ready e) true (e_closed e)
  | _ => e
  end.

Definition env_op (e : env) (op : hop) : env :=
  match op with
  | HSendWantlist _ => MkEnv false (e_open e) (e_closed e)
  | HSetStream | HAllocFailed => MkEnv (e_ready e) false (e_closed e)
  | HPollClose _ => MkEnv (e_ready e) (e_open e) true
  | HAdvance _ | HPoll _ => e
  end.

Definition op_allowed (strict : bool) (e : env) (op : hop) : bool :=
  match op with
  | HSendWantlist _ => e_ready e && negb (strict && e_closed e)
  | HSetStream | HAllocFailed => e_open e && negb (strict && e_closed e)
  | HPoll _ => negb (strict && e_closed e)
  | HAdvance _ | HPollClose _ => true
  end.

Definition env_step (e : env) (op : hop) (o : list hout) : env := fold_left env_out o (env_op e op).

Fixpoint disciplined_from (strict : bool) (st : hstate) (e : env) (ops : list hop) : bool :=
  match ops with
  | [] => true
  | op :: ops' =>
      op_allowed strict e op &&
      let '(st', o) := hstep st op in disciplined_from strict st' (env_step e op o) ops'
  end.

Definition disciplined (strict : bool) (c : conn) (ops : list hop) : bool :=
  disciplined_from strict (h_init c) env_init ops.

(* wantlists handed over by HSendWantlist ops, in order *)
Fixpoint sent_ws (ops : list hop) : list wantlist :=
  match ops with
  | [] => []
  | HSendWantlist w :: ops' => w :: sent_ws ops'
  | _ :: ops' => sent_ws ops'
  end.

End WithEncode.
