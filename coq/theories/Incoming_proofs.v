(* Incoming_proofs.v — lemmas behind C16 (and the process_message parts of C01, C08, C18). *)
From BS Require Import Bytes Varint Cid Prefix Hasher Proto Incoming Prefix_proofs.
From Coq Require Import ZArith ZifyBool ZifyN Lia.
Open Scope N_scope.

(* ---- classification of one block *)
Inductive block_class := BAccept (c : cid) | BSkip | BFatal | BPanic.

Definition classify (S : N) (H : hash_fn) (b : block) : block_class :=
  match prefix_from_bytes (b_prefix b) with
  | None => BFatal
  | Some p =>
      match prefix_to_cid S H p (b_data b) with
      | TOk c => BAccept c
      | TErr UnknownMultihashCode | TErr CustomErr => BSkip
      | TErr _ => BFatal
      | TPanic => BPanic
      end
  end.

Definition skippable S H b : bool := match classify S H b with BSkip => true | _ => false end.

Lemma pm_payload_step S H b rest acc touched :
  pm_payload S H (b :: rest) acc touched =
  match classify S H b with
  | BAccept c => pm_payload S H rest (assoc_insert c (b_data b) acc) true
  | BSkip => pm_payload S H rest acc touched
  | BFatal => inl None
  | BPanic => inr tt
  end.
Proof.
  cbn [pm_payload]. unfold classify. destruct (prefix_from_bytes (b_prefix b)) as [p|]; [|reflexivity].
  destruct (prefix_to_cid S H p (b_data b)) as [c|[]|]; reflexivity.
Qed.

(* skippable blocks have no effect at all on the other elements *)
Lemma pm_payload_skip S H bs : forall acc touched,
  pm_payload S H (filter (fun b => negb (skippable S H b)) bs) acc touched = pm_payload S H bs acc touched.
Proof.
  induction bs as [|b bs IH]; intros acc touched; [reflexivity|].
  cbn [filter]. rewrite (pm_payload_step S H b bs). unfold skippable.
  destruct (classify S H b) eqn:E; cbn [negb].
  - rewrite pm_payload_step, E. apply IH.
  - apply IH.
  - rewrite pm_payload_step, E. reflexivity.
  - rewrite pm_payload_step, E. reflexivity.
Qed.

Definition without_skippable S H (m : message) : message :=
  MkMessage (m_wantlist m) (filter (fun b => negb (skippable S H b)) (m_payload m)) (m_presences m)
            (m_pending_bytes m).

Lemma good_elements_survive S H m :
  process_message S H (without_skippable S H m) = process_message S H m.
Proof.
  unfold process_message, without_skippable; cbn [m_presences m_payload m_wantlist].
  rewrite pm_payload_skip. reflexivity.
Qed.

(* a fatal block closes the stream, wherever it is, unless a panic came first *)
Lemma pm_payload_fatal S H pre b post : forall acc touched,
  classify S H b = BFatal -> Forall (fun x => classify S H x <> BPanic /\ classify S H x <> BFatal) pre ->
  pm_payload S H (pre ++ b :: post) acc touched = inl None.
Proof.
  induction pre as [|x pre IH]; intros acc touched Hb Hpre; cbn [app].
  - rewrite pm_payload_step, Hb. reflexivity.
  - inversion Hpre as [|? ? [Hx1 Hx2] Hpre']; subst. rewrite pm_payload_step.
    destruct (classify S H x); try contradiction; apply IH; assumption.
Qed.

Lemma pm_presences_bad S pre p post : forall acc,
  cid_read_bytes S (bp_cid p) = RErr ->
  Forall (fun x => exists c, cid_read_bytes S (bp_cid x) = ROk c) pre ->
  pm_presences S (pre ++ p :: post) acc = inl None.
Proof.
  induction pre as [|x pre IH]; intros acc Hp Hpre; cbn [app pm_presences].
  - rewrite Hp. reflexivity.
  - inversion Hpre as [|? ? [c Hc] Hpre']; subst. rewrite Hc. apply IH; assumption.
Qed.

Lemma process_bad_presence S H m pre p post :
  m_presences m = pre ++ p :: post -> cid_read_bytes S (bp_cid p) = RErr ->
  Forall (fun x => exists c, cid_read_bytes S (bp_cid x) = ROk c) pre ->
  process_message S H m = PmClose.
Proof.
  intros Hm Hp Hpre. unfold process_message. rewrite Hm, (pm_presences_bad S pre p post [] Hp Hpre). reflexivity.
Qed.

Lemma pm_presences_ok S ps : forall acc,
  Forall (fun x => exists c, cid_read_bytes S (bp_cid x) = ROk c) ps ->
  exists acc', pm_presences S ps acc = inl (Some acc').
Proof.
  induction ps as [|x ps IH]; intros acc Hps; cbn [pm_presences]; [eexists; reflexivity|].
  inversion Hps as [|? ? [c Hc] Hps']; subst. rewrite Hc. apply IH; assumption.
Qed.

Lemma process_fatal_block S H m pre b post :
  Forall (fun x => exists c, cid_read_bytes S (bp_cid x) = ROk c) (m_presences m) ->
  m_payload m = pre ++ b :: post -> classify S H b = BFatal ->
  Forall (fun x => classify S H x <> BPanic /\ classify S H x <> BFatal) pre ->
  process_message S H m = PmClose.
Proof.
  intros Hps Hm Hb Hpre. unfold process_message.
  destruct (pm_presences_ok S (m_presences m) [] Hps) as [acc' ->].
  rewrite Hm, (pm_payload_fatal S H pre b post [] false Hb Hpre). reflexivity.
Qed.

(* ---- no panic *)
Lemma cid_read_no_panic S bs : 32 <= S -> cid_read_bytes S bs <> RPanic.
Proof.
  intros HS. unfold cid_read_bytes.
  destruct (uv_decode bs) as [v r1| | |]; try discriminate.
  destruct (uv_decode r1) as [codec r2| | |]; try discriminate.
  destruct ((v =? 18) && (codec =? 32)).
  - destruct (take 32 r2); [|discriminate]. destruct (S <? 32) eqn:E; [lia|discriminate].
  - destruct (version_of_u64 v) as [[|]|]; try discriminate.
    destruct (uv_decode r2) as [code r3| | |]; try discriminate.
    destruct (uv_decode r3) as [size r4| | |]; try discriminate.
    destruct ((S <? size) || (255 <? size)); [discriminate|].
    destruct (take size r4); discriminate.
Qed.

Lemma pm_presences_no_panic S ps : 32 <= S -> forall acc, pm_presences S ps acc <> inr tt.
Proof.
  intros HS. induction ps as [|p ps IH]; intros acc; cbn [pm_presences]; [discriminate|].
  pose proof (cid_read_no_panic S (bp_cid p) HS).
  destruct (cid_read_bytes S (bp_cid p)); [apply IH|discriminate|contradiction].
Qed.

Lemma classify_no_panic S H b : sha_respecting H -> classify S H b <> BPanic.
Proof.
  intros Hsha. unfold classify. destruct (prefix_from_bytes (b_prefix b)) as [p|] eqn:Ep; [|discriminate].
  pose proof (parsed_prefix_no_panic S H _ p (b_data b) Hsha Ep).
  destruct (prefix_to_cid S H p (b_data b)) as [c|[]|]; try discriminate. contradiction.
Qed.

Lemma pm_payload_no_panic S H bs : sha_respecting H -> forall acc touched, pm_payload S H bs acc touched <> inr tt.
Proof.
  intros Hsha. induction bs as [|b bs IH]; intros acc touched; [cbn; discriminate|].
  rewrite pm_payload_step. pose proof (classify_no_panic S H b Hsha).
  destruct (classify S H b); try apply IH; try discriminate. contradiction.
Qed.

Lemma process_message_no_panic S H m : 32 <= S -> sha_respecting H -> process_message S H m <> PmPanic.
Proof.
  intros HS Hsha. unfold process_message.
  pose proof (pm_presences_no_panic S (m_presences m) HS []).
  destruct (pm_presences S (m_presences m) []) as [[pres|]|[]]; try discriminate; try contradiction.
  pose proof (pm_payload_no_panic S H (m_payload m) Hsha [] false).
  destruct (pm_payload S H (m_payload m) [] false) as [[[blocks touched]|]|[]]; try discriminate. contradiction.
Qed.

(* ---- every accepted block is keyed by the CID recomputed from its bytes (C01, process_message part) *)
Definition rebuilt (S : N) (H : hash_fn) (bs : list block) (c : cid) (data : bytes) : Prop :=
  exists b p, In b bs /\ b_data b = data /\ prefix_from_bytes (b_prefix b) = Some p /\
              prefix_to_cid S H p data = TOk c.

Lemma assoc_insert_in {V} k (v : V) l k' v' :
  In (k', v') (assoc_insert k v l) -> (k' = k /\ v' = v) \/ In (k', v') l.
Proof.
  induction l as [|[k0 v0] l IH]; cbn [assoc_insert].
  - intros [[= <- <-]|[]]. left; auto.
  - destruct (cid_eqb k0 k).
    + intros [[= <- <-]|Hin]; [left; auto|right; right; assumption].
    + intros [Heq|Hin]; [right; left; assumption|]. destruct (IH Hin) as [?|?]; [left; assumption|right; right; assumption].
Qed.

Lemma pm_payload_rebuilt S H bs : forall all acc touched acc' touched',
  (forall b, In b bs -> In b all) ->
  (forall c d, In (c, d) acc -> rebuilt S H all c d) ->
  pm_payload S H bs acc touched = inl (Some (acc', touched')) ->
  forall c d, In (c, d) acc' -> rebuilt S H all c d.
Proof.
  induction bs as [|b bs IH]; intros all acc touched acc' touched' Hsub Hacc Hrun c d Hin.
  - cbn in Hrun. injection Hrun as <- <-. apply Hacc; assumption.
  - rewrite pm_payload_step in Hrun. unfold classify in Hrun.
    destruct (prefix_from_bytes (b_prefix b)) as [p|] eqn:Ep; [|discriminate].
    destruct (prefix_to_cid S H p (b_data b)) as [c0|e|] eqn:Et.
    + eapply (IH all _ _ _ _ (fun x Hx => Hsub x (or_intror Hx))); [|exact Hrun|exact Hin].
      intros c1 d1 Hin1. apply assoc_insert_in in Hin1. destruct Hin1 as [[-> ->]|Hin1]; [|apply Hacc; assumption].
      exists b, p. repeat split; try assumption. apply Hsub. left; reflexivity.
    + destruct e; try discriminate;
        (eapply (IH all _ _ _ _ (fun x Hx => Hsub x (or_intror Hx))); [exact Hacc|exact Hrun|exact Hin]).
    + discriminate.
Qed.

Lemma process_blocks_rebuilt S H m inc cm c d :
  process_message S H m = PmOk inc -> in_client inc = Some cm -> In (c, d) (cm_blocks cm) ->
  rebuilt S H (m_payload m) c d.
Proof.
  unfold process_message.
  destruct (pm_presences S (m_presences m) []) as [[pres|]|[]]; try discriminate.
  destruct (pm_payload S H (m_payload m) [] false) as [[[blocks touched]|]|[]] eqn:Ep; try discriminate.
  intros [= <-]. cbn [in_client].
  intros Hc Hin.
  assert (Hcm : cm_blocks cm = blocks).
  { destruct (m_presences m); destruct touched; try discriminate; injection Hc as <-; reflexivity. }
  rewrite Hcm in Hin.
  eapply (pm_payload_rebuilt S H (m_payload m) (m_payload m) [] false blocks touched); try eassumption; auto.
  intros ? ? [].
Qed.

(* ---- a message with a wantlist and blocks has both parts applied *)
Lemma both_parts S H m w pres blocks :
  m_wantlist m = Some w -> (w_full w = true \/ w_entries w <> []) ->
  pm_presences S (m_presences m) [] = inl (Some pres) ->
  pm_payload S H (m_payload m) [] false = inl (Some (blocks, true)) ->
  process_message S H m = PmOk (MkIncoming (Some (MkClientMsg pres blocks)) (Some w)).
Proof.
  intros Hw Hacc Hp Hb. unfold process_message. rewrite Hp, Hb, Hw.
  assert (Hs : (w_full w || negb (match w_entries w with [] => true | _ => false end)) = true).
  { destruct Hacc as [->|Hne]; [reflexivity|]. destruct (w_entries w); [contradiction|]. apply orb_true_r. }
  rewrite Hs. destruct (m_presences m); reflexivity.
Qed.

(* the wantlist part does not depend on the payload/presences at all, as long as the message is not fatal *)
Lemma server_part_independent S H m inc :
  process_message S H m = PmOk inc ->
  in_server inc = match m_wantlist m with
                  | Some w => if w_full w || negb (match w_entries w with [] => true | _ => false end) then Some w else None
                  | None => None
                  end.
Proof.
  unfold process_message.
  destruct (pm_presences S (m_presences m) []) as [[pres|]|[]]; try discriminate.
  destruct (pm_payload S H (m_payload m) [] false) as [[[blocks touched]|]|[]]; try discriminate.
  intros [= <-]. reflexivity.
Qed.
