(* Props_C10.v — C10: framing round-trips and is independent of stream chunking.
   Codec.v = /repo/src/message.rs `Codec` = Frame.v/Framed.v (length prefix, FramedRead) composed with the
   quick-protobuf body codec (Qp.v, ProtoCodec.v); `chk` = overflow-checked or release profile.
   wf_message: byte strings hold bytes, int32 fields < 2^32, every nested message shorter than 2^32 (lengths
   are read with read_varint32), whole message < 2^64.  size_ok: body <= 4 MiB (the limit of C09). *)
From BS Require Import Bytes Varint Proto Qp ProtoCodec RefProto Frame Framed Codec Frame_proofs Framed_proofs
                       ProtoCodec_proofs RefProto_proofs Codec_proofs.
Open Scope N_scope.

Definition size_ok (m : message) : Prop := len (write_message m) <= max_message_size.

(* decode (encode m ++ rest) = m with exactly `rest` left: the frame is consumed once and no byte of the
   following frame is touched; with rest = [] this is the plain round trip *)
Theorem C10_roundtrip : forall chk m rest, wf_message m -> size_ok m ->
  codec_decode chk (codec_encode m ++ rest) = DItem m rest.
Proof. intros chk m rest. exact (Frame_proofs.C10_frame_exact message (qp_parse chk) write_message wf_message (qp_parse_exact chk) m rest). Qed.

(* every proper prefix of an encoded message waits: never an item, never an error *)
Theorem C10_prefix_needs_more : forall chk m p, size_ok m ->
  proper_prefix p (codec_encode m) -> codec_decode chk p = DNeedMore.
Proof. intros chk. exact (Frame_proofs.C10_prefix_needs_more message (qp_parse chk) write_message). Qed.

(* for every sequence of messages and EVERY way of cutting the concatenated encodings into non-empty read
   chunks, FramedRead yields exactly that sequence and then the clean end of the stream *)
Theorem C10_chunking : forall chk ms chunks,
  Forall wf_message ms -> Forall size_ok ms ->
  concat chunks = concat (map codec_encode ms) -> Forall nonempty chunks ->
  codec_run_stream chk (map Chunk chunks ++ [Eof]) = (ms, FEnd).
Proof. intros chk. exact (Framed_proofs.C10_chunking_nonempty message (qp_parse chk) write_message wf_message (qp_parse_exact chk)). Qed.

(* the same while the stream is still open (reads pending): the complete frames are delivered, the rest waits *)
Theorem C10_chunking_pending : forall chk ms chunks p,
  Forall wf_message ms -> Forall size_ok ms ->
  (p = [] \/ exists m, size_ok m /\ proper_prefix p (codec_encode m)) ->
  concat chunks = concat (map codec_encode ms) ++ p -> Forall nonempty chunks ->
  codec_run_stream chk (map Chunk chunks) = (ms, FPending).
Proof. intros chk. exact (Framed_proofs.C10_chunking_pending message (qp_parse chk) write_message wf_message (qp_parse_exact chk)). Qed.

(* a stream that ends inside a frame: the complete messages, then an error — never a truncated message *)
Theorem C10_eof_inside_frame : forall chk ms chunks p m,
  Forall wf_message ms -> Forall size_ok ms ->
  size_ok m -> proper_prefix p (codec_encode m) -> p <> [] ->
  concat chunks = concat (map codec_encode ms) ++ p -> Forall nonempty chunks ->
  codec_run_stream chk (map Chunk chunks ++ [Eof]) = (ms, FErr).
Proof. intros chk. exact (Framed_proofs.C10_eof_inside_frame message (qp_parse chk) write_message wf_message (qp_parse_exact chk)). Qed.

(* Pending wake-ups anywhere between the reads change nothing *)
Theorem C10_chunking_wakeups : forall chk ms evs,
  Forall wf_message ms -> Forall size_ok ms ->
  live evs -> ev_data evs = concat (map codec_encode ms) ->
  codec_run_stream chk (evs ++ [Eof]) = (ms, FEnd).
Proof. intros chk. exact (Framed_proofs.C10_chunking_wakeups message (qp_parse chk) write_message wf_message (qp_parse_exact chk)). Qed.

Check C10_roundtrip : forall chk m rest, wf_message m -> size_ok m ->
  codec_decode chk (codec_encode m ++ rest) = DItem m rest.
Check C10_chunking : forall chk ms chunks,
  Forall wf_message ms -> Forall size_ok ms ->
  concat chunks = concat (map codec_encode ms) -> Forall nonempty chunks ->
  codec_run_stream chk (map Chunk chunks ++ [Eof]) = (ms, FEnd).

(* non-vacuity: a message with a wantlist entry, a block and a presence is well-formed and small; the
   golden frame of the test-suite is what the model produces *)
Example ex_wf : wf_message ex_message /\ size_ok ex_message.
Proof. split; [exact ex_message_wf | vm_compute; discriminate]. Qed.
Example ex_golden :
  codec_encode (MkMessage None [MkBlock [1; 85; 18; 32] [97; 98; 99]] [] 0)
  = [13; 26; 11; 10; 4; 1; 85; 18; 32; 18; 3; 97; 98; 99].
Proof. vm_compute. reflexivity. Qed.
Example ex_chunked :
  codec_run_stream true [Chunk [13; 26; 11; 10]; Chunk [4; 1; 85; 18; 32; 18; 3; 97; 98]; Chunk [99]; Eof]
  = ([MkMessage None [MkBlock [1; 85; 18; 32] [97; 98; 99]] [] 0], FEnd).
Proof. vm_compute. reflexivity. Qed.

Print Assumptions C10_roundtrip.
Print Assumptions C10_prefix_needs_more.
Print Assumptions C10_chunking.
Print Assumptions C10_chunking_pending.
Print Assumptions C10_eof_inside_frame.
Print Assumptions C10_chunking_wakeups.

(* ---- lifted to IncomingStream (package H): the frames of ms cut anywhere yield exactly the processed messages *)
From BS Require Import Bytes Varint Varint_proofs Cid Prefix Hasher Proto Incoming Qp ProtoCodec RefProto Frame Framed Codec Frame_proofs Framed_proofs ProtoCodec_proofs RefProto_proofs Codec_proofs Prefix_proofs Incoming_proofs Streams Streams_proofs Streams_props.
From Coq Require Import ZArith ZifyBool ZifyN ZifyNat Lia.
Open Scope N_scope.

Theorem C10_stream_out_chunking :
  forall (Sz : N) (Hh : hash_fn) (chk : bool) (ms : list message) (evs : list read_ev),
  Forall wf_message ms ->
  Forall (size_ok write_message) ms ->
  live evs ->
  ev_data evs = concat (map codec_encode ms) ->
  stream_out Sz Hh chk (evs ++ [Eof]) = deliver (process_message Sz Hh) ms FEnd.
Proof. exact (@Streams_proofs.C10_stream_out_chunking). Qed.

Print Assumptions C10_stream_out_chunking.
