(* Net_proofs36.v — package J, part 14: the registered network theorems without their "fuel sufficed" hypotheses, for Net.v's own
   `settle` and `refresh`: the generic theorems of Net_proofs32 instantiated with `settle`, whose quiet end is Net_proofs35. *)
From BS Require Import Server_inv Net Net_proofs5 Net_proofs7 Net_proofs9 Net_proofs10 Net_proofs24 Net_proofs28 Net_proofs32 Net_proofs35.
From Coq Require Import ZArith Lia.
Open Scope N_scope.

Section Unconditional.
  Variables (Sz : N) (Hh : hash_fn).
  Hypothesis HSz : 32 <= Sz.

  Lemma settle_unfold_RI s : RI Sz Hh s -> quietb s = false -> exists f, fst (settle Sz Hh s) = fst (settle_loop Sz Hh f (fst (round Sz Hh s))).
  Proof.
    intros _ Hq. unfold settle, settle_fuel. set (X := (4 * (length (nodes s) + 1) * (net_work s + 1))%nat).
    change (8 + X)%nat with (S (7 + X)). generalize (7 + X)%nat. intros f. exists f. cbn [settle_loop]. rewrite Hq.
    destruct (round Sz Hh s) as [s1 e1]. cbn [fst]. destruct (settle_loop Sz Hh f s1). reflexivity.
  Qed.

  Theorem settle_terminates n ops :
    Forall (nop_good Sz Hh) ops -> Forall (nop_wf Sz) ops ->
    let s := fst (nrun Sz Hh (net_init n) ops) in quietb (fst (settle Sz Hh s)) = true.
  Proof. intros Hg Hw s. apply (settle_terminates_RI Sz Hh HSz), reachable_RI; assumption. Qed.

  Theorem refresh_terminates n ops :
    Forall (nop_good Sz Hh) ops -> Forall (nop_wf Sz) ops ->
    let s := fst (nrun Sz Hh (net_init n) ops) in
    let r1 := settle Sz Hh s in
    quietb (fst r1) = true /\ quietb (fst (refresh Sz Hh (fst r1))) = true.
  Proof.
    intros Hg Hw s r1. pose proof (reachable_RI Sz Hh HSz n ops Hg Hw) as HR. fold s in HR. split.
    - apply (settle_terminates_RI Sz Hh HSz), HR.
    - unfold refresh. apply (settle_terminates_RI Sz Hh HSz), (RI_advance Sz Hh HSz).
      apply (g_RI Sz Hh HSz (settle Sz Hh) (settle_run Sz Hh)), HR.
  Qed.

  Theorem C02_direct_unconditional (i j : N) (q : qid) (c : cid) n ops :
    Forall (nop_good Sz Hh) ops -> Forall (nop_wf Sz) ops ->
    let s := fst (nrun Sz Hh (net_init n) ops) in
    live_query i q c s -> Net.connected s i j = true ->
    (exists st d, store_of s j = Some st /\ store_get st c = SHit d) ->
    let r1 := settle Sz Hh s in
    let r2 := refresh Sz Hh (fst r1) in
    (length (wl_i i (fst r1)) <= 1024)%nat ->
    answered i q (snd r1 ++ snd r2).
  Proof.
    exact (C02_direct_g Sz Hh HSz (settle Sz Hh) (settle_run Sz Hh) (settle_terminates_RI Sz Hh HSz) i j q c n ops).
  Qed.

  Theorem C02_multi_hop_unconditional (i j k : N) (qi qj : qid) (c : cid) n ops :
    Forall (nop_good Sz Hh) ops -> Forall (nop_wf Sz) ops ->
    let s := fst (nrun Sz Hh (net_init n) ops) in
    live_query i qi c s -> live_query j qj c s ->
    Net.connected s i j = true -> Net.connected s j k = true ->
    (exists st d, store_of s k = Some st /\ store_get st c = SHit d) ->
    let r1 := settle Sz Hh s in
    let r2 := refresh Sz Hh (fst r1) in
    let r3 := refresh Sz Hh (fst r2) in
    (length (wl_i j (fst r1)) <= 1024)%nat -> (length (wl_i i (fst r2)) <= 1024)%nat ->
    answered i qi (snd r1 ++ snd r2 ++ snd r3).
  Proof.
    exact (C02_multi_hop_g Sz Hh HSz (settle Sz Hh) (settle_run Sz Hh) (settle_terminates_RI Sz Hh HSz) i j k qi qj c n ops).
  Qed.

  Theorem C14_records_equal_unconditional (i j : N) n ops :
    Forall (nop_good Sz Hh) ops -> Forall (nop_wf Sz) ops ->
    let s := fst (nrun Sz Hh (net_init n) ops) in
    Net.connected s i j = true ->
    let r1 := settle Sz Hh s in
    let r2 := refresh Sz Hh (fst r1) in
    (length (wl_i i (fst r1)) <= 1024)%nat ->
    forall c, In c (wl_i i (fst r2)) <-> (exists st, server_of (fst r2) j = Some st /\ wantsP (s_wants st) i c).
  Proof.
    exact (C14_records_equal_g Sz Hh HSz (settle Sz Hh) (settle_run Sz Hh) (settle_terminates_RI Sz Hh HSz) settle_unfold_RI i j n ops).
  Qed.
End Unconditional.
