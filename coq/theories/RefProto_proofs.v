(* RefProto_proofs.v — facts about the reference decoder (RefProto.v), the refinement of the
   reference decoder by the quick-protobuf cursor machine on the class `in_class`, and the theorems
   that follow: C11_emit_valid, C11_accept_noncanonical, C10_body_roundtrip, C11_unknown_enum_tolerated,
   C11_truncation_refuted, C11_singular_merge_refuted. *)
From BS Require Import Bytes Varint Proto Qp ProtoCodec RefProto ProtoCodec_proofs.
From Coq Require Import ZArith ZifyBool ZifyN ZifyNat Lia.
Open Scope N_scope.

(* ------------------------------------------------------------------------------------------ *)
(* Part A: reference varints                                                                  *)

Lemma ref_varint_go_app n : forall k acc w v r post,
  ref_varint_go n k acc w = Some (v, r) -> ref_varint_go n k acc (w ++ post) = Some (v, r ++ post).
Proof.
  induction n as [|n IH]; intros k acc w v r post H; [discriminate|].
  destruct w as [|b w]; [discriminate|]. cbn [ref_varint_go app] in *.
  destruct (b <? 128).
  - injection H as <- <-. reflexivity.
  - apply IH. assumption.
Qed.

Lemma ref_varint_app w v r post :
  ref_varint w = Some (v, r) -> ref_varint (w ++ post) = Some (v, r ++ post).
Proof. apply ref_varint_go_app. Qed.

Lemma ref_varint_go_len n : forall k acc w v r,
  ref_varint_go n k acc w = Some (v, r) -> len r < len w.
Proof.
  induction n as [|n IH]; intros k acc w v r H; [discriminate|].
  destruct w as [|b w]; [discriminate|]. cbn [ref_varint_go] in H. rewrite len_cons.
  destruct (b <? 128).
  - injection H as _ <-. lia.
  - apply IH in H. lia.
Qed.

Lemma ref_varint_len w v r : ref_varint w = Some (v, r) -> len r < len w.
Proof. apply ref_varint_go_len. Qed.

Lemma ref_varint_go_range n : forall k acc w v r,
  ref_varint_go n k acc w = Some (v, r) -> v < 2 ^ 64.
Proof.
  induction n as [|n IH]; intros k acc w v r H; [discriminate|].
  destruct w as [|b w]; [discriminate|]. cbn [ref_varint_go] in H.
  destruct (b <? 128).
  - injection H as <- _. apply N.mod_lt. apply N.pow_nonzero. lia.
  - eapply IH; eassumption.
Qed.

(* the reference varint reads what the quick-protobuf writer writes *)
Lemma ref_varint_go_wv f : forall v k acc rest n,
  (f < n)%nat -> v < 128 ^ (N.of_nat f + 1) ->
  ref_varint_go n k acc (qp_wv f v ++ rest) = Some ((acc + v * 2 ^ (7 * k)) mod 2 ^ 64, rest).
Proof.
  induction f as [|f IH]; intros v k acc rest n Hn Hv.
  - destruct n as [|n]; [lia|]. change (128 ^ (N.of_nat 0 + 1)) with 128 in Hv.
    cbn [qp_wv app ref_varint_go].
    rewrite (N.mod_small v 256) by lia. rewrite (N.mod_small v 128) by lia.
    destruct (v <? 128) eqn:E; [reflexivity|lia].
  - destruct n as [|n]; [lia|]. cbn [qp_wv]. destruct (v <? 128) eqn:E.
    + cbn [app ref_varint_go]. rewrite E. rewrite (N.mod_small v 128) by lia. reflexivity.
    + cbn [app ref_varint_go].
      assert (Hb : v mod 128 < 128) by (apply N.mod_lt; lia).
      destruct (v mod 128 + 128 <? 128) eqn:E2; [lia|].
      replace ((v mod 128 + 128) mod 128) with (v mod 128) by lia.
      rewrite IH.
      * f_equal. f_equal. f_equal. rewrite pow7_succ'.
        assert (Hdiv : v = 128 * (v / 128) + v mod 128) by (apply N.div_mod; lia).
        rewrite Hdiv at 3. lia.
      * lia.
      * replace (N.of_nat (S f) + 1) with (N.succ (N.of_nat f + 1)) in Hv by lia.
        rewrite N.pow_succ_r' in Hv. apply N.div_lt_upper_bound; lia.
Qed.

Lemma ref_varint_write v rest :
  v < 2 ^ 64 -> ref_varint (qp_write_varint v ++ rest) = Some (v, rest).
Proof.
  intros Hv. unfold ref_varint, qp_write_varint. rewrite ref_varint_go_wv.
  - change (2 ^ (7 * 0)) with 1. rewrite N.mul_1_r, N.add_0_l, N.mod_small by assumption. reflexivity.
  - lia.
  - change (128 ^ (N.of_nat 9 + 1)) with 1180591620717411303424.
    change (2 ^ 64) with 18446744073709551616 in Hv. lia.
Qed.

(* ------------------------------------------------------------------------------------------ *)
(* Part B: take                                                                               *)

Lemma take_inv n w b r : take n w = Some (b, r) -> w = b ++ r /\ len b = n.
Proof.
  unfold take. destruct (n <=? len w) eqn:E; [|discriminate]. intros [= <- <-]. split.
  - symmetry. apply firstn_skipn.
  - unfold len in *. rewrite firstn_length. lia.
Qed.

Lemma take_exact b r : take (len b) (b ++ r) = Some (b, r).
Proof.
  unfold take. rewrite len_app. destruct (len b <=? len b + len r) eqn:E; [|lia].
  unfold len. rewrite Nat2N.id.
  rewrite firstn_app, Nat.sub_diag, firstn_all. cbn [firstn]. rewrite app_nil_r.
  rewrite skipn_app, Nat.sub_diag, skipn_all. reflexivity.
Qed.

Lemma take_app n w b r post : take n w = Some (b, r) -> take n (w ++ post) = Some (b, r ++ post).
Proof.
  intros H. apply take_inv in H. destruct H as [-> <-]. rewrite <- app_assoc. apply take_exact.
Qed.

(* ------------------------------------------------------------------------------------------ *)
(* Part C: tokens                                                                             *)

Definition payload_view (p : payload) (l1 l' : bytes) : Prop :=
  match p with
  | PVarint v => ref_varint l1 = Some (v, l')
  | PFixed64 b => l1 = b ++ l' /\ len b = 8
  | PBytes b => exists l2, ref_varint l1 = Some (len b, l2) /\ l2 = b ++ l'
  | PFixed32 b => l1 = b ++ l' /\ len b = 4
  end.

Lemma ref_token_view l f p l' :
  ref_token l = Some ((f, p), l') ->
  exists key l1, ref_varint l = Some (key, l1) /\ key < 2 ^ 32 /\ 1 <= f /\
                 key = 8 * f + wire_type p /\ payload_view p l1 l'.
Proof.
  unfold ref_token. destruct (ref_varint l) as [[key l1]|] eqn:Ek; [|discriminate].
  destruct ((key <? 2 ^ 32) && (1 <=? key / 8)) eqn:Eg; [|discriminate].
  intros H. exists key, l1. split; [reflexivity|].
  assert (Hk : key < 2 ^ 32) by lia. assert (Hf : 1 <= key / 8) by lia.
  destruct (key mod 8 =? 0) eqn:E0.
  { destruct (ref_varint l1) as [[v r']|] eqn:Ev; [|discriminate]. injection H as <- <- <-.
    cbn [wire_type payload_view]. repeat split; try assumption. lia. }
  destruct (key mod 8 =? 1) eqn:E1.
  { destruct (take 8 l1) as [[b r']|] eqn:Et; [|discriminate]. injection H as <- <- <-.
    apply take_inv in Et. destruct Et as [-> Hb].
    cbn [wire_type payload_view]. repeat split; try assumption. lia. }
  destruct (key mod 8 =? 2) eqn:E2.
  { destruct (ref_varint l1) as [[lb l2]|] eqn:Ev; [|discriminate].
    destruct (take lb l2) as [[b r']|] eqn:Et; [|discriminate]. injection H as <- <- <-.
    apply take_inv in Et. destruct Et as [-> Hb].
    cbn [wire_type payload_view]. repeat split; try assumption; [lia|].
    exists (b ++ r'). rewrite Hb. split; [exact Ev|reflexivity]. }
  destruct (key mod 8 =? 5) eqn:E5; [|discriminate].
  destruct (take 4 l1) as [[b r']|] eqn:Et; [|discriminate]. injection H as <- <- <-.
  apply take_inv in Et. destruct Et as [-> Hb].
  cbn [wire_type payload_view]. repeat split; try assumption. lia.
Qed.

Lemma payload_view_len p l1 l' : payload_view p l1 l' -> len l' <= len l1.
Proof.
  destruct p as [v|b|b|b]; cbn [payload_view].
  - intros H. apply ref_varint_len in H. lia.
  - intros [-> _]. rewrite len_app. lia.
  - intros (l2 & H & ->). apply ref_varint_len in H. rewrite len_app in H. lia.
  - intros [-> _]. rewrite len_app. lia.
Qed.

Lemma ref_token_len l t l' : ref_token l = Some (t, l') -> len l' < len l.
Proof.
  destruct t as [f p]. intros H. apply ref_token_view in H.
  destruct H as (key & l1 & Hk & _ & _ & _ & Hv).
  apply ref_varint_len in Hk. apply payload_view_len in Hv. lia.
Qed.

Lemma ref_token_app l t l' post :
  ref_token l = Some (t, l') -> ref_token (l ++ post) = Some (t, l' ++ post).
Proof.
  unfold ref_token. destruct (ref_varint l) as [[key l1]|] eqn:Ek; [|discriminate].
  rewrite (ref_varint_app _ _ _ post Ek).
  destruct ((key <? 2 ^ 32) && (1 <=? key / 8)); [|discriminate].
  destruct (key mod 8 =? 0).
  { destruct (ref_varint l1) as [[v r']|] eqn:Ev; [|discriminate].
    rewrite (ref_varint_app _ _ _ post Ev). intros [= <- <-]. reflexivity. }
  destruct (key mod 8 =? 1).
  { destruct (take 8 l1) as [[b r']|] eqn:Et; [|discriminate].
    rewrite (take_app _ _ _ _ post Et). intros [= <- <-]. reflexivity. }
  destruct (key mod 8 =? 2).
  { destruct (ref_varint l1) as [[lb l2]|] eqn:Ev; [|discriminate].
    rewrite (ref_varint_app _ _ _ post Ev).
    destruct (take lb l2) as [[b r']|] eqn:Et; [|discriminate].
    rewrite (take_app _ _ _ _ post Et). intros [= <- <-]. reflexivity. }
  destruct (key mod 8 =? 5); [|discriminate].
  destruct (take 4 l1) as [[b r']|] eqn:Et; [|discriminate].
  rewrite (take_app _ _ _ _ post Et). intros [= <- <-]. reflexivity.
Qed.

(* ------------------------------------------------------------------------------------------ *)
(* Part D: tokenise as a relation                                                             *)

Inductive Toks : bytes -> list token -> Prop :=
| Toks_nil : Toks [] []
| Toks_cons w t w' ts : ref_token w = Some (t, w') -> Toks w' ts -> Toks w (t :: ts).

Lemma tokenise_go_Toks fuel : forall w ts, tokenise_go fuel w = Some ts -> Toks w ts.
Proof.
  induction fuel as [|fuel IH]; intros w ts H.
  - destruct w; [|discriminate]. injection H as <-. constructor.
  - destruct w as [|b w]; [injection H as <-; constructor|].
    cbn [tokenise_go] in H.
    destruct (ref_token (b :: w)) as [[t r]|] eqn:Et; [|discriminate].
    destruct (tokenise_go fuel r) as [ts'|] eqn:Er; [|discriminate].
    injection H as <-. econstructor; [eassumption|]. apply IH. assumption.
Qed.

Lemma tokenise_Toks w ts : tokenise w = Some ts -> Toks w ts.
Proof. apply tokenise_go_Toks. Qed.

Lemma ref_token_nil : ref_token [] = None.
Proof. reflexivity. Qed.

Lemma Toks_tokenise_go w ts : Toks w ts -> forall fuel, (length w <= fuel)%nat -> tokenise_go fuel w = Some ts.
Proof.
  induction 1 as [|w t w' ts Ht HT IH]; intros fuel Hf.
  - destruct fuel; reflexivity.
  - destruct w as [|b w]; [discriminate|].
    destruct fuel as [|fuel]; [cbn in Hf; lia|].
    cbn [tokenise_go]. rewrite Ht.
    pose proof (ref_token_len _ _ _ Ht) as Hl. unfold len in Hl.
    rewrite IH; [reflexivity|]. cbn [length] in *. lia.
Qed.

Lemma Toks_tokenise w ts : Toks w ts -> tokenise w = Some ts.
Proof. intros H. apply Toks_tokenise_go; [assumption|lia]. Qed.

Lemma Toks_length w ts : Toks w ts -> (length ts <= length w)%nat.
Proof.
  induction 1 as [|w t w' ts Ht HT IH]; [cbn; lia|].
  pose proof (ref_token_len _ _ _ Ht) as Hl. unfold len in Hl. cbn [length]. lia.
Qed.

Lemma Toks_app w1 ts1 : Toks w1 ts1 -> forall w2 ts2, Toks w2 ts2 -> Toks (w1 ++ w2) (ts1 ++ ts2).
Proof.
  induction 1 as [|w t w' ts Ht HT IH]; intros w2 ts2 H2; [exact H2|].
  cbn [app]. econstructor.
  - apply ref_token_app. eassumption.
  - apply IH. assumption.
Qed.

(* ------------------------------------------------------------------------------------------ *)
(* Part E: one token, read by the cursor machine                                              *)

Lemma ck_ok {A} md e (a : A) s : s <= e -> ck md e (XOk a s) = XOk a s.
Proof. intros H. unfold ck. destruct (is_instr md && (e <? s)) eqn:E; [lia|reflexivity]. Qed.

Lemma ck_xmap {A B} md e (f : A -> B) r : ck md e (xmap f r) = xmap f (ck md e r).
Proof.
  destruct r as [a s| | | |]; try reflexivity.
  cbn [xmap xbind ck]. destruct (is_instr md && (e <? s)); reflexivity.
Qed.

Lemma usize_add_ok md a b : a + b < two64 -> usize_add md a b = Some (a + b).
Proof. intros H. unfold usize_add. destruct (a + b <? two64) eqn:E; [reflexivity|lia]. Qed.

Lemma usize_sub_ok md a b : b <= a -> usize_sub md a b = Some (a - b).
Proof. intros H. unfold usize_sub. destruct (b <=? a) eqn:E; [reflexivity|lia]. Qed.

Lemma read_len_ok {A} md (read : N -> N -> xres A) s e l v s'' :
  s + l <= e -> s + l < two64 -> read s (s + l) = XOk v s'' ->
  read_len md read s e l = XOk v (s + l).
Proof.
  intros Hle He Hr. unfold read_len.
  destruct (is_instr md && (e <? s + l)) eqn:E; [lia|].
  rewrite usize_add_ok by lia. rewrite Hr. reflexivity.
Qed.

Lemma tag_read md bs e s l f p l' :
  At bs s l -> ref_token l = Some ((f, p), l') -> len bs - len l' <= e ->
  exists s1 l1, ck md e (read_varint32 bs s) = XOk (8 * f + wire_type p) s1 /\ At bs s1 l1 /\
                payload_view p l1 l' /\ 1 <= f /\ 8 * f + wire_type p < 2 ^ 32.
Proof.
  intros HAt Ht He. apply ref_token_view in Ht.
  destruct Ht as (key & l1 & Hk & Hk32 & Hf & -> & Hv).
  destruct (read_varint32_ref _ _ _ _ _ HAt Hk) as (s1 & Hr & HAt1 & _).
  exists s1, l1. rewrite Hr. rewrite N.mod_small by assumption.
  pose proof (At_len _ _ _ HAt1). pose proof (payload_view_len _ _ _ Hv).
  rewrite ck_ok by lia. auto.
Qed.

(* a varint field read with read_varint32 (int32, enum, bool) *)
Lemma varint32_ok md bs e s1 l1 v l' :
  At bs s1 l1 -> payload_view (PVarint v) l1 l' -> len bs - len l' <= e ->
  exists s', ck md e (read_varint32 bs s1) = XOk (v mod 2 ^ 32) s' /\ At bs s' l'.
Proof.
  cbn [payload_view]. intros HAt Hv He.
  destruct (read_varint32_ref _ _ _ _ _ HAt Hv) as (s' & Hr & HAt' & _).
  exists s'. rewrite Hr. pose proof (At_len _ _ _ HAt'). rewrite ck_ok by lia. auto.
Qed.

(* a length-delimited field read with read_len_varint *)
Lemma len_varint_ok {A} md bs e (read : N -> N -> xres A) s1 l1 b l' x :
  At bs s1 l1 -> payload_view (PBytes b) l1 l' -> len b < 2 ^ 32 ->
  len bs - len l' <= e -> e < two64 ->
  (forall s2, At bs s2 (b ++ l') -> exists s'', read s2 (s2 + len b) = XOk x s'') ->
  exists s', read_len_varint md bs read s1 e = XOk x s' /\ At bs s' l'.
Proof.
  cbn [payload_view]. intros HAt (l2 & Hv & ->) Hb He He64 Hread.
  destruct (read_varint32_ref _ _ _ _ _ HAt Hv) as (s2 & Hr & HAt2 & _).
  pose proof (At_len _ _ _ HAt2) as Hl2. rewrite len_app in Hl2.
  pose proof (At_app _ _ _ _ HAt2) as HAt'.
  destruct (Hread _ HAt2) as (s'' & Hrd).
  exists (s2 + len b). split; [|assumption].
  unfold read_len_varint. rewrite Hr. rewrite ck_ok by lia. cbn [xbind].
  rewrite N.mod_small by assumption.
  eapply read_len_ok; [lia|lia|eassumption].
Qed.

Lemma bytes_ok md bs e s1 l1 b l' :
  At bs s1 l1 -> payload_view (PBytes b) l1 l' -> len b <? ref_two32 = true ->
  len bs - len l' <= e -> e < two64 ->
  exists s', read_bytes md bs s1 e = XOk b s' /\ At bs s' l'.
Proof.
  intros HAt Hv Hb He He64. unfold read_bytes.
  assert (Hb' : len b < 2 ^ 32) by (unfold ref_two32 in Hb; lia). clear Hb.
  eapply len_varint_ok; try eassumption.
  intros s2 HAt2. rewrite (get_range_At _ _ _ _ HAt2). eexists. reflexivity.
Qed.

(* any field skipped by read_unknown *)
Lemma unknown_ok md bs e tag s1 l1 p l' :
  At bs s1 l1 -> payload_view p l1 l' -> tag mod 8 = wire_type p ->
  len bs - len l' <= e -> e < two64 ->
  exists s', read_unknown md bs tag s1 e = XOk tt s' /\ At bs s' l'.
Proof.
  intros HAt Hv Hwt He He64. unfold read_unknown. rewrite Hwt.
  destruct p as [v|b|b|b]; cbn [wire_type payload_view] in *.
  - change (0 =? 0) with true. cbv iota.
    destruct (read_varint64_ref _ _ _ _ _ HAt Hv) as (s' & Hr & HAt' & _).
    exists s'. rewrite Hr. pose proof (At_len _ _ _ HAt'). rewrite ck_ok by lia. auto.
  - change (1 =? 0) with false. change (1 =? 1) with true. cbn [orb xbind]. cbv iota.
    destruct Hv as [-> Hb]. pose proof (At_len _ _ _ HAt) as Hl. rewrite len_app in Hl.
    apply At_app in HAt. rewrite Hb in *.
    rewrite usize_sub_ok by lia.
    destruct (e - s1 <? 8) eqn:E; [lia|].
    rewrite usize_add_ok by lia. eauto.
  - change (2 =? 0) with false. change (2 =? 1) with false. change (2 =? 5) with false.
    change (2 =? 2) with true. cbn [orb]. cbv iota.
    destruct Hv as (l2 & Hv & ->).
    destruct (read_varint64_ref _ _ _ _ _ HAt Hv) as (s2 & Hr & HAt2 & _).
    pose proof (At_len _ _ _ HAt2) as Hl. rewrite len_app in Hl.
    apply At_app in HAt2.
    rewrite Hr. rewrite ck_ok by lia. cbn [xbind].
    rewrite usize_sub_ok by lia.
    destruct (e - s2 <? len b) eqn:E; [lia|].
    rewrite usize_add_ok by lia. eauto.
  - change (5 =? 0) with false. change (5 =? 1) with false. change (5 =? 5) with true.
    cbn [orb xbind]. cbv iota.
    destruct Hv as [-> Hb]. pose proof (At_len _ _ _ HAt) as Hl. rewrite len_app in Hl.
    apply At_app in HAt. rewrite Hb in *.
    rewrite usize_sub_ok by lia.
    destruct (e - s1 <? 4) eqn:E; [lia|].
    rewrite usize_add_ok by lia. eauto.
Qed.

Lemma skip_unknown_ok {M} md bs e tag (msg : M) s1 l1 p l' :
  At bs s1 l1 -> payload_view p l1 l' -> tag mod 8 = wire_type p ->
  len bs - len l' <= e -> e < two64 ->
  exists s', skip_unknown md bs tag msg s1 e = XOk msg s' /\ At bs s' l'.
Proof.
  intros HAt Hv Hwt He He64.
  destruct (unknown_ok md bs e tag s1 l1 p l' HAt Hv Hwt He He64) as (s' & Hr & HAt').
  exists s'. unfold skip_unknown. rewrite Hr. auto.
Qed.

(* the generic `while !is_eof` loop over a tokenisable window *)
Section Loop.
  Context {M : Type} (md : mode) (bs : bytes) (field : N -> M -> N -> N -> xres M)
          (step : M -> token -> option M) (P : token -> bool) (e : N).
  Hypothesis Hstep : forall s l t l' msg msg',
    At bs s l -> ref_token l = Some (t, l') -> P t = true -> len bs - len l' <= e ->
    step msg t = Some msg' ->
    exists tag s1 s', ck md e (read_varint32 bs s) = XOk tag s1 /\
                      field tag msg s1 e = XOk msg' s' /\ At bs s' l'.

  Lemma fr_loop_ok w ts : Toks w ts -> forall post fuel msg msg' s,
    At bs s (w ++ post) -> e + len post = len bs -> forallb P ts = true ->
    fold_opt step ts msg = Some msg' -> (length ts < fuel)%nat ->
    fr_loop md bs field fuel msg s e = XOk msg' e.
  Proof.
    induction 1 as [|w t w' ts Ht HT IH]; intros post fuel msg msg' s HAt He HP Hfold Hfuel.
    - destruct fuel as [|fuel]; [cbn in Hfuel; lia|]. cbn [fr_loop].
      pose proof (At_len _ _ _ HAt) as Hl. cbn [app] in Hl.
      destruct (s =? e) eqn:E; [|lia]. cbn [fold_opt] in Hfold. injection Hfold as <-.
      f_equal. lia.
    - destruct fuel as [|fuel]; [cbn in Hfuel; lia|]. cbn [fr_loop].
      pose proof (At_len _ _ _ HAt) as Hl. rewrite len_app in Hl.
      pose proof (ref_token_len _ _ _ Ht) as Hlt.
      destruct (s =? e) eqn:E; [lia|].
      cbn [forallb] in HP. apply andb_true_iff in HP. destruct HP as [HPt HPts].
      cbn [fold_opt] in Hfold. destruct (step msg t) as [msg1|] eqn:Es; [|discriminate].
      pose proof (ref_token_app _ _ _ post Ht) as Ht'.
      destruct (Hstep s (w ++ post) t (w' ++ post) msg msg1 HAt Ht' HPt) as (tag & s1 & s' & H1 & H2 & H3);
        [rewrite len_app; lia|assumption|].
      rewrite H1, H2. eapply IH; try eassumption. cbn [length] in Hfuel. lia.
  Qed.
End Loop.

(* ------------------------------------------------------------------------------------------ *)
(* Part F: the five generated readers refine the reference decoder                            *)

Lemma bool32 v : v <? ref_two32 = true -> negb (v mod 2 ^ 32 =? 0) = ref_bool v.
Proof.
  unfold ref_two32, ref_bool. intros H. rewrite N.mod_small by lia. reflexivity.
Qed.

Lemma want_type_conv v : want_type_of_i32 (v mod 2 ^ 32) = ref_want_type v.
Proof.
  unfold want_type_of_i32, ref_want_type, ref_int32.
  destruct (v mod 2 ^ 32 =? 0) eqn:E0; destruct (v mod 2 ^ 32 =? 1) eqn:E1; try reflexivity; lia.
Qed.

Lemma presence_type_conv v : presence_type_of_i32 (v mod 2 ^ 32) = ref_presence_type v.
Proof.
  unfold presence_type_of_i32, ref_presence_type, ref_int32.
  destruct (v mod 2 ^ 32 =? 0) eqn:E0; destruct (v mod 2 ^ 32 =? 1) eqn:E1; try reflexivity; lia.
Qed.

(* decide the tests on the field number in the hypotheses, then the tests on the tag in the goal *)
Ltac fdec f :=
  repeat match goal with
         | H : context [f =? ?k] |- _ =>
             let E := fresh "Ef" in destruct (N.eqb_spec f k) as [E|E]; try (exfalso; lia)
         end;
  cbn [orb andb] in *; cbv iota in *.

Ltac tagdec :=
  repeat match goal with
         | |- context [?a + ?c =? ?k] =>
             let E := fresh "Et" in
             destruct (N.eqb_spec (a + c) k) as [E|E]; [try (exfalso; lia)|try (exfalso; lia)]; cbv iota
         end.

Ltac fin_skip :=
  match goal with
  | Hs : Some _ = Some _ |- exists s', skip_unknown _ _ _ _ _ _ = _ /\ _ =>
      injection Hs as <-; eapply skip_unknown_ok;
      [eassumption|eassumption|cbn [wire_type]; lia|assumption|assumption]
  end.

Ltac fin_v32 :=
  match goal with
  | HAt1 : At ?bs ?s1 ?l1, Hv : payload_view (PVarint ?v) ?l1 ?l', He : len ?bs - len ?l' <= ?e,
    Hs : Some _ = Some _ |- exists s', xmap _ (ck ?md ?e _) = _ /\ _ =>
      let s' := fresh "s'" in let Hr' := fresh "Hr'" in let HAt' := fresh "HAt'" in
      destruct (varint32_ok md bs e s1 l1 v l' HAt1 Hv He) as (s' & Hr' & HAt');
      exists s'; unfold read_int32, read_bool; rewrite ?ck_xmap; rewrite Hr'; cbn [xmap xbind];
      injection Hs as <-; split; [|assumption];
      rewrite ?want_type_conv, ?presence_type_conv, ?bool32 by assumption; reflexivity
  end.

Ltac fin_bytes :=
  match goal with
  | HAt1 : At ?bs ?s1 ?l1, Hv : payload_view (PBytes ?b) ?l1 ?l', He : len ?bs - len ?l' <= ?e,
    Hs : Some _ = Some _ |- exists s', xmap _ (read_bytes ?md ?bs ?s1 ?e) = _ /\ _ =>
      let s' := fresh "s'" in let Hr' := fresh "Hr'" in let HAt' := fresh "HAt'" in
      destruct (bytes_ok md bs e s1 l1 b l' HAt1 Hv) as (s' & Hr' & HAt');
      [assumption|assumption|assumption|];
      exists s'; rewrite Hr'; cbn [xmap xbind]; injection Hs as <-; split; [reflexivity|assumption]
  end.

Lemma entry_step_ok md bs e : e < two64 ->
  forall s l t l' msg msg',
    At bs s l -> ref_token l = Some (t, l') -> class_entry_tok t = true -> len bs - len l' <= e ->
    ref_entry_step msg t = Some msg' ->
    exists tag s1 s', ck md e (read_varint32 bs s) = XOk tag s1 /\
                      entry_field md bs tag msg s1 e = XOk msg' s' /\ At bs s' l'.
Proof.
  intros He64 s l [f p] l' msg msg' HAt Ht Hc He Hs.
  destruct (tag_read md bs e s l f p l' HAt Ht He) as (s1 & l1 & Hr & HAt1 & Hv & Hf & Hk).
  exists (8 * f + wire_type p), s1.
  cut (exists s', entry_field md bs (8 * f + wire_type p) msg s1 e = XOk msg' s' /\ At bs s' l').
  { intros (s' & H1 & H2). exists s'. auto. }
  unfold entry_field.
  destruct p as [v|b|b|b]; cbn [wire_type ref_entry_step class_entry_tok] in *;
    fdec f; tagdec; first [fin_skip | fin_v32 | fin_bytes].
Qed.

Lemma block_step_ok md bs e : e < two64 ->
  forall s l t l' msg msg',
    At bs s l -> ref_token l = Some (t, l') -> class_block_tok t = true -> len bs - len l' <= e ->
    ref_block_step msg t = Some msg' ->
    exists tag s1 s', ck md e (read_varint32 bs s) = XOk tag s1 /\
                      block_field md bs tag msg s1 e = XOk msg' s' /\ At bs s' l'.
Proof.
  intros He64 s l [f p] l' msg msg' HAt Ht Hc He Hs.
  destruct (tag_read md bs e s l f p l' HAt Ht He) as (s1 & l1 & Hr & HAt1 & Hv & Hf & Hk).
  exists (8 * f + wire_type p), s1.
  cut (exists s', block_field md bs (8 * f + wire_type p) msg s1 e = XOk msg' s' /\ At bs s' l').
  { intros (s' & H1 & H2). exists s'. auto. }
  unfold block_field.
  destruct p as [v|b|b|b]; cbn [wire_type ref_block_step class_block_tok] in *;
    fdec f; tagdec; first [fin_skip | fin_v32 | fin_bytes].
Qed.

Lemma presence_step_ok md bs e : e < two64 ->
  forall s l t l' msg msg',
    At bs s l -> ref_token l = Some (t, l') -> class_presence_tok t = true -> len bs - len l' <= e ->
    ref_presence_step msg t = Some msg' ->
    exists tag s1 s', ck md e (read_varint32 bs s) = XOk tag s1 /\
                      presence_field md bs tag msg s1 e = XOk msg' s' /\ At bs s' l'.
Proof.
  intros He64 s l [f p] l' msg msg' HAt Ht Hc He Hs.
  destruct (tag_read md bs e s l f p l' HAt Ht He) as (s1 & l1 & Hr & HAt1 & Hv & Hf & Hk).
  exists (8 * f + wire_type p), s1.
  cut (exists s', presence_field md bs (8 * f + wire_type p) msg s1 e = XOk msg' s' /\ At bs s' l').
  { intros (s' & H1 & H2). exists s'. auto. }
  unfold presence_field.
  destruct p as [v|b|b|b]; cbn [wire_type ref_presence_step class_presence_tok] in *;
    fdec f; tagdec; first [fin_skip | fin_v32 | fin_bytes].
Qed.

(* a whole nested message of one of the three leaf types *)
Lemma At_sub_length bs s b l : At bs s (b ++ l) -> (length b <= length bs)%nat.
Proof.
  intros H. apply At_len in H. rewrite len_app in H. unfold len in H. lia.
Qed.

Section Leaf.
  Context {M : Type} (md : mode) (bs : bytes) (field : N -> M -> N -> N -> xres M)
          (step : M -> token -> option M) (P : token -> bool).
  Hypothesis Hstep : forall e, e < two64 ->
    forall s l t l' msg msg',
      At bs s l -> ref_token l = Some (t, l') -> P t = true -> len bs - len l' <= e ->
      step msg t = Some msg' ->
      exists tag s1 s', ck md e (read_varint32 bs s) = XOk tag s1 /\
                        field tag msg s1 e = XOk msg' s' /\ At bs s' l'.

  Lemma leaf_from_reader_ok fuel b init x :
    (length bs < fuel)%nat ->
    match tokenise b with Some ts => fold_opt step ts init | None => None end = Some x ->
    class_tokens b P = true ->
    forall s2 l', At bs s2 (b ++ l') -> s2 + len b < two64 ->
    fr_loop md bs field fuel init s2 (s2 + len b) = XOk x (s2 + len b).
  Proof.
    intros Hfuel Href Hcl s2 l' HAt H64. unfold class_tokens in Hcl.
    destruct (tokenise b) as [ts|] eqn:Etk; [|discriminate].
    apply tokenise_Toks in Etk.
    eapply (fr_loop_ok md bs field step P (s2 + len b)); try eassumption.
    - apply Hstep. assumption.
    - apply At_len in HAt. rewrite len_app in HAt. lia.
    - pose proof (Toks_length _ _ Etk). pose proof (At_sub_length _ _ _ _ HAt). lia.
  Qed.
End Leaf.

Lemma entry_from_reader_ok md bs fuel b x :
  (length bs < fuel)%nat -> ref_entry b = Some x -> class_entry b = true ->
  forall s2 l', At bs s2 (b ++ l') -> s2 + len b < two64 ->
  entry_from_reader md bs fuel s2 (s2 + len b) = XOk x (s2 + len b).
Proof.
  intros. unfold entry_from_reader.
  eapply (leaf_from_reader_ok md bs (entry_field md bs) ref_entry_step class_entry_tok); try eassumption.
  intros. eapply entry_step_ok; eassumption.
Qed.

Lemma block_from_reader_ok md bs fuel b x :
  (length bs < fuel)%nat -> ref_block b = Some x -> class_block b = true ->
  forall s2 l', At bs s2 (b ++ l') -> s2 + len b < two64 ->
  block_from_reader md bs fuel s2 (s2 + len b) = XOk x (s2 + len b).
Proof.
  intros. unfold block_from_reader.
  eapply (leaf_from_reader_ok md bs (block_field md bs) ref_block_step class_block_tok); try eassumption.
  intros. eapply block_step_ok; eassumption.
Qed.

Lemma presence_from_reader_ok md bs fuel b x :
  (length bs < fuel)%nat -> ref_presence b = Some x -> class_presence b = true ->
  forall s2 l', At bs s2 (b ++ l') -> s2 + len b < two64 ->
  presence_from_reader md bs fuel s2 (s2 + len b) = XOk x (s2 + len b).
Proof.
  intros. unfold presence_from_reader.
  eapply (leaf_from_reader_ok md bs (presence_field md bs) ref_presence_step class_presence_tok); try eassumption.
  intros. eapply presence_step_ok; eassumption.
Qed.

(* a nested message field *)
Lemma nested_ok {A B} md bs e (from_reader : N -> N -> xres A) (F : A -> B) s1 l1 b l' x :
  At bs s1 l1 -> payload_view (PBytes b) l1 l' -> len b <? ref_two32 = true ->
  len bs - len l' <= e -> e < two64 ->
  (forall s2, At bs s2 (b ++ l') -> s2 + len b < two64 -> from_reader s2 (s2 + len b) = XOk x (s2 + len b)) ->
  exists s', xmap F (read_message md bs from_reader s1 e) = XOk (F x) s' /\ At bs s' l'.
Proof.
  intros HAt Hv Hb He He64 Hfr. unfold read_message.
  destruct (len_varint_ok md bs e from_reader s1 l1 b l' x HAt Hv) as (s' & Hr & HAt'); try assumption.
  - unfold ref_two32 in Hb. lia.
  - intros s2 HAt2. exists (s2 + len b). apply Hfr; [assumption|].
    apply At_len in HAt2. rewrite len_app in HAt2. lia.
  - exists s'. rewrite Hr. cbn [xmap xbind]. auto.
Qed.

Lemma wantlist_step_ok md bs fuel e : e < two64 -> (length bs < fuel)%nat ->
  forall s l t l' msg msg',
    At bs s l -> ref_token l = Some (t, l') -> class_wantlist_tok t = true -> len bs - len l' <= e ->
    ref_wantlist_step msg t = Some msg' ->
    exists tag s1 s', ck md e (read_varint32 bs s) = XOk tag s1 /\
                      wantlist_field md bs fuel tag msg s1 e = XOk msg' s' /\ At bs s' l'.
Proof.
  intros He64 Hfuel s l [f p] l' msg msg' HAt Ht Hc He Hs.
  destruct (tag_read md bs e s l f p l' HAt Ht He) as (s1 & l1 & Hr & HAt1 & Hv & Hf & Hk).
  exists (8 * f + wire_type p), s1.
  cut (exists s', wantlist_field md bs fuel (8 * f + wire_type p) msg s1 e = XOk msg' s' /\ At bs s' l').
  { intros (s' & H1 & H2). exists s'. auto. }
  unfold wantlist_field.
  destruct p as [v|b|b|b]; cbn [wire_type ref_wantlist_step class_wantlist_tok] in *;
    fdec f; tagdec; try (first [fin_skip | fin_v32 | fin_bytes]).
  (* field 1: a nested Entry *)
  apply andb_true_iff in Hc. destruct Hc as [Hlen Hcl].
  destruct (ref_entry b) as [x|] eqn:Ex; [|discriminate]. injection Hs as <-.
  eapply (nested_ok md bs e _ (fun v => MkWantlist (w_entries msg ++ [v]) (w_full msg))); try eassumption.
  intros s2 HAt2 H64. eapply entry_from_reader_ok; eassumption.
Qed.

Lemma wantlist_from_reader_ok md bs fuel b x :
  (length bs < fuel)%nat -> ref_wantlist b = Some x -> class_wantlist b = true ->
  forall s2 l', At bs s2 (b ++ l') -> s2 + len b < two64 ->
  wantlist_from_reader md bs fuel s2 (s2 + len b) = XOk x (s2 + len b).
Proof.
  intros. unfold wantlist_from_reader.
  eapply (leaf_from_reader_ok md bs (wantlist_field md bs fuel) ref_wantlist_step class_wantlist_tok);
    try eassumption.
  intros. eapply wantlist_step_ok; eassumption.
Qed.

(* Message: quick-protobuf REPLACES the wantlist; this is the step it implements *)
Definition qp_message_step (m : message) (t : token) : option message :=
  match t with
  | (f, PBytes b) =>
      if f =? 1 then
        match ref_wantlist b with
        | Some w => Some (MkMessage (Some w) (m_payload m) (m_presences m) (m_pending_bytes m))
        | None => None
        end
      else if f =? 3 then
        match ref_block b with
        | Some x => Some (MkMessage (m_wantlist m) (m_payload m ++ [x]) (m_presences m) (m_pending_bytes m))
        | None => None
        end
      else if f =? 4 then
        match ref_presence b with
        | Some x => Some (MkMessage (m_wantlist m) (m_payload m) (m_presences m ++ [x]) (m_pending_bytes m))
        | None => None
        end
      else Some m
  | (f, PVarint v) =>
      if f =? 5 then Some (MkMessage (m_wantlist m) (m_payload m) (m_presences m) (ref_int32 v)) else Some m
  | _ => Some m
  end.

Lemma message_step_ok md bs fuel e : e < two64 -> (length bs < fuel)%nat ->
  forall s l t l' msg msg',
    At bs s l -> ref_token l = Some (t, l') -> class_message_tok t = true -> len bs - len l' <= e ->
    qp_message_step msg t = Some msg' ->
    exists tag s1 s', ck md e (read_varint32 bs s) = XOk tag s1 /\
                      message_field md bs fuel tag msg s1 e = XOk msg' s' /\ At bs s' l'.
Proof.
  intros He64 Hfuel s l [f p] l' msg msg' HAt Ht Hc He Hs.
  destruct (tag_read md bs e s l f p l' HAt Ht He) as (s1 & l1 & Hr & HAt1 & Hv & Hf & Hk).
  exists (8 * f + wire_type p), s1.
  cut (exists s', message_field md bs fuel (8 * f + wire_type p) msg s1 e = XOk msg' s' /\ At bs s' l').
  { intros (s' & H1 & H2). exists s'. auto. }
  unfold message_field.
  destruct p as [v|b|b|b]; cbn [wire_type qp_message_step class_message_tok] in *;
    fdec f; tagdec; try (first [fin_skip | fin_v32 | fin_bytes]).
  - (* field 1: Wantlist *)
    apply andb_true_iff in Hc. destruct Hc as [Hlen Hcl].
    destruct (ref_wantlist b) as [x|] eqn:Ex; [|discriminate]. injection Hs as <-.
    eapply (nested_ok md bs e _ (fun v => MkMessage (Some v) (m_payload msg) (m_presences msg) (m_pending_bytes msg)));
      try eassumption.
    intros s2 HAt2 H64. eapply wantlist_from_reader_ok; eassumption.
  - (* field 3: Block *)
    apply andb_true_iff in Hc. destruct Hc as [Hlen Hcl].
    destruct (ref_block b) as [x|] eqn:Ex; [|discriminate]. injection Hs as <-.
    eapply (nested_ok md bs e _ (fun v => MkMessage (m_wantlist msg) (m_payload msg ++ [v]) (m_presences msg) (m_pending_bytes msg)));
      try eassumption.
    intros s2 HAt2 H64. eapply block_from_reader_ok; eassumption.
  - (* field 4: BlockPresence *)
    apply andb_true_iff in Hc. destruct Hc as [Hlen Hcl].
    destruct (ref_presence b) as [x|] eqn:Ex; [|discriminate]. injection Hs as <-.
    eapply (nested_ok md bs e _ (fun v => MkMessage (m_wantlist msg) (m_payload msg) (m_presences msg ++ [v]) (m_pending_bytes msg)));
      try eassumption.
    intros s2 HAt2 H64. eapply presence_from_reader_ok; eassumption.
Qed.

(* with at most one wantlist field, merging and replacing coincide *)
Lemma step_eq_nonwl msg t :
  is_wantlist_tok t = false -> ref_message_step msg t = qp_message_step msg t.
Proof.
  destruct t as [f p]. destruct p as [v|b|b|b]; cbn [is_wantlist_tok ref_message_step qp_message_step];
    try reflexivity.
  intros ->. reflexivity.
Qed.

Lemma step_eq_wl msg t :
  m_wantlist msg = None -> ref_message_step msg t = qp_message_step msg t.
Proof.
  intros Hn. destruct t as [f p]. destruct p as [v|b|b|b]; cbn [ref_message_step qp_message_step];
    try reflexivity.
  rewrite Hn. reflexivity.
Qed.

Lemma nonwl_preserves msg t msg' :
  is_wantlist_tok t = false -> qp_message_step msg t = Some msg' -> m_wantlist msg' = m_wantlist msg.
Proof.
  destruct t as [f p]. destruct p as [v|b|b|b]; cbn [is_wantlist_tok qp_message_step].
  - intros _. destruct (f =? 5); intros [= <-]; reflexivity.
  - intros _ [= <-]. reflexivity.
  - intros ->. destruct (f =? 3).
    + destruct (ref_block b); [|discriminate]. intros [= <-]. reflexivity.
    + destruct (f =? 4).
      * destruct (ref_presence b); [|discriminate]. intros [= <-]. reflexivity.
      * intros [= <-]. reflexivity.
  - intros _ [= <-]. reflexivity.
Qed.

Lemma fold_eq0 ts : filter is_wantlist_tok ts = [] ->
  forall msg, fold_opt ref_message_step ts msg = fold_opt qp_message_step ts msg.
Proof.
  induction ts as [|t ts IH]; intros Hf msg; [reflexivity|].
  cbn [filter] in Hf. destruct (is_wantlist_tok t) eqn:Et; [discriminate|].
  cbn [fold_opt]. rewrite (step_eq_nonwl _ _ Et).
  destruct (qp_message_step msg t); [|reflexivity]. apply IH. assumption.
Qed.

Lemma fold_eq1 ts : len (filter is_wantlist_tok ts) <=? 1 = true ->
  forall msg, m_wantlist msg = None ->
  fold_opt ref_message_step ts msg = fold_opt qp_message_step ts msg.
Proof.
  induction ts as [|t ts IH]; intros Hf msg Hn; [reflexivity|].
  cbn [filter] in Hf. cbn [fold_opt]. destruct (is_wantlist_tok t) eqn:Et.
  - rewrite (step_eq_wl _ _ Hn). destruct (qp_message_step msg t); [|reflexivity].
    apply fold_eq0. rewrite len_cons in Hf.
    destruct (filter is_wantlist_tok ts); [reflexivity|]. rewrite len_cons in Hf. lia.
  - rewrite (step_eq_nonwl _ _ Et). destruct (qp_message_step msg t) as [msg1|] eqn:Es; [|reflexivity].
    apply IH; [assumption|]. rewrite (nonwl_preserves _ _ _ Et Es). assumption.
Qed.

(* The refinement: on its class, the cursor machine computes the reference decoder, in every mode
   (in particular the instrumented run does not report an overrun), whatever follows the window. *)
Theorem Qp_refines_Ref : forall md w m tail,
  ref_decode w = Some m -> in_class w ->
  x_read_message md (w ++ tail) (len w) = XOk m (len w).
Proof.
  intros md w m tail Href Hcl. unfold in_class, in_classb in Hcl.
  apply andb_true_iff in Hcl. destruct Hcl as [Hcl Hone].
  apply andb_true_iff in Hcl. destruct Hcl as [H64 Hcl].
  unfold ref_decode in Href.
  destruct (tokenise w) as [ts|] eqn:Etk; [|discriminate].
  rewrite fold_eq1 in Href by (assumption || reflexivity).
  unfold x_read_message.
  replace (len w) with (0 + len w) at 2 3 by lia.
  eapply read_len_ok.
  - rewrite len_app. lia.
  - unfold two64. lia.
  - unfold message_from_reader.
    eapply (leaf_from_reader_ok md (w ++ tail) (message_field md (w ++ tail) (qp_fuel (w ++ tail)))
              qp_message_step class_message_tok).
    + intros e He. apply message_step_ok; [assumption|]. unfold qp_fuel. lia.
    + unfold qp_fuel. lia.
    + rewrite Etk. eassumption.
    + assumption.
    + apply At_zero.
    + unfold two64. lia.
Qed.

(* C11: quick-protobuf accepts every encoding of the class and decodes it like the reference decoder:
   fields in any order, unknown fields (wire types 0, 1, 2, 5) anywhere, explicitly encoded defaults,
   non-minimal varints, ten-byte negative int32/enum values. *)
Theorem C11_accept_noncanonical : forall chk w m,
  ref_decode w = Some m -> in_class w -> qp_read_message chk w (len w) = ROk m (len w).
Proof.
  intros chk w m Href Hcl. unfold qp_read_message.
  pose proof (Qp_refines_Ref (mode_of_chk chk) w m [] Href Hcl) as H.
  rewrite app_nil_r in H. rewrite H. reflexivity.
Qed.

(* such encodings are not in the Overrun class *)
Lemma in_class_not_overrun w m tail :
  ref_decode w = Some m -> in_class w -> overrun_b (w ++ tail) (len w) = false.
Proof.
  intros Href Hcl. unfold overrun_b. rewrite (Qp_refines_Ref MInstr w m tail Href Hcl). reflexivity.
Qed.

(* ------------------------------------------------------------------------------------------ *)
(* Part G: what the generated writers emit, seen by the reference decoder                     *)

Lemma ref_token_varint t f v rest :
  t = 8 * f -> 1 <= f -> t < 2 ^ 32 -> v < 2 ^ 64 ->
  ref_token (qp_with_tag t (qp_write_varint v) ++ rest) = Some ((f, PVarint v), rest).
Proof.
  intros Ht Hf Ht32 Hv. unfold qp_with_tag, qp_write_tag, ref_token. rewrite <- !app_assoc.
  assert (Ht64 : t < 2 ^ 64).
  { change (2 ^ 32) with 4294967296 in Ht32. change (2 ^ 64) with 18446744073709551616. lia. }
  rewrite ref_varint_write by assumption.
  destruct ((t <? 2 ^ 32) && (1 <=? t / 8)) eqn:E; [|lia].
  destruct (t mod 8 =? 0) eqn:E0; [|lia].
  rewrite ref_varint_write by assumption.
  replace (t / 8) with f by lia. reflexivity.
Qed.

Lemma ref_token_bytes t f b rest :
  t = 8 * f + 2 -> 1 <= f -> t < 2 ^ 32 -> len b < 2 ^ 64 ->
  ref_token (qp_with_tag t (qp_write_varint (len b) ++ b) ++ rest) = Some ((f, PBytes b), rest).
Proof.
  intros Ht Hf Ht32 Hv. unfold qp_with_tag, qp_write_tag, ref_token. rewrite <- !app_assoc.
  assert (Ht64 : t < 2 ^ 64).
  { change (2 ^ 32) with 4294967296 in Ht32. change (2 ^ 64) with 18446744073709551616. lia. }
  rewrite ref_varint_write by assumption.
  destruct ((t <? 2 ^ 32) && (1 <=? t / 8)) eqn:E; [|lia].
  destruct (t mod 8 =? 0) eqn:E0; [lia|].
  destruct (t mod 8 =? 1) eqn:E1; [lia|].
  destruct (t mod 8 =? 2) eqn:E2; [|lia].
  rewrite ref_varint_write by assumption. rewrite take_exact.
  replace (t / 8) with f by lia. reflexivity.
Qed.

Lemma sext32_range v : v < 2 ^ 32 -> sext32 v < 2 ^ 64.
Proof.
  unfold sext32. change (2 ^ 31) with 2147483648. change (2 ^ 32) with 4294967296.
  change (2 ^ 64) with 18446744073709551616. intros H. destruct (v <? 2147483648); lia.
Qed.

Lemma ref_int32_sext v : v < 2 ^ 32 -> ref_int32 (sext32 v) = v.
Proof.
  unfold ref_int32, sext32. change (2 ^ 31) with 2147483648. change (2 ^ 32) with 4294967296.
  change (2 ^ 64) with 18446744073709551616. intros H. destruct (v <? 2147483648); lia.
Qed.

Lemma fold_opt_app {M} (step : M -> token -> option M) a b m :
  fold_opt step (a ++ b) m = match fold_opt step a m with Some m' => fold_opt step b m' | None => None end.
Proof.
  revert m; induction a as [|t a IH]; intros m; cbn [app fold_opt]; [reflexivity|].
  destruct (step m t); [apply IH|reflexivity].
Qed.

Lemma two32_lt_64 x : x < two32 -> x < 2 ^ 64.
Proof.
  unfold two32. change (2 ^ 32) with 4294967296. change (2 ^ 64) with 18446744073709551616. lia.
Qed.

(* a length-delimited field is shorter than the message that holds it *)
Lemma sizeof_len_ge l : l <= sizeof_len l.
Proof. unfold sizeof_len. lia. Qed.

(* --- Entry --- *)
Definition tokens_entry (e : entry) : list token :=
  (if negb (is_nil (e_block e)) then [(1, PBytes (e_block e))] else [])
  ++ (if negb (e_priority e =? 0) then [(2, PVarint (sext32 (e_priority e)))] else [])
  ++ (if e_cancel e then [(3, PVarint 1)] else [])
  ++ (if negb (want_type_eqb (e_want_type e) WTBlock)
      then [(4, PVarint (sext32 (want_type_code (e_want_type e))))] else [])
  ++ (if e_send_dont_have e then [(5, PVarint 1)] else []).

Lemma entry_block_len e : len (e_block e) <= size_entry e.
Proof.
  unfold size_entry. pose proof (sizeof_len_ge (len (e_block e))).
  destruct (is_nil (e_block e)) eqn:E; [|lia].
  apply is_nil_len in E. rewrite E. change (len []) with 0. lia.
Qed.

Ltac tok_varint f := eapply Toks_cons; [apply (ref_token_varint _ f); [reflexivity|lia|reflexivity| ]|].
Ltac tok_bytes f := eapply Toks_cons; [apply (ref_token_bytes _ f); [reflexivity|lia|reflexivity| ]|].

Lemma Toks_entry e : e_priority e < two32 -> size_entry e < two32 -> Toks (write_entry e) (tokens_entry e).
Proof.
  intros Hp Hs. pose proof (entry_block_len e) as Hb.
  assert (Hb64 : len (e_block e) < 2 ^ 64) by (apply two32_lt_64; lia).
  rewrite <- (app_nil_r (write_entry e)).
  unfold write_entry, tokens_entry.
  unfold qp_write_bytes, qp_write_enum, qp_write_int32. rewrite <- !app_assoc.
  destruct (negb (is_nil (e_block e))); cbn [app].
  all: destruct (negb (e_priority e =? 0)); cbn [app].
  all: destruct (e_cancel e); cbn [app].
  all: destruct (e_want_type e); cbn [negb want_type_eqb want_type_code app].
  all: destruct (e_send_dont_have e); cbn [app].
  all: change (qp_write_bool true) with (qp_write_varint 1).
  all: repeat first
         [ apply Toks_nil
         | tok_bytes 1; [assumption|]
         | tok_varint 2; [apply sext32_range; exact Hp|]
         | tok_varint 3; [reflexivity|]
         | tok_varint 4; [reflexivity|]
         | tok_varint 5; [reflexivity|] ].
Qed.

Lemma fold_entry e : e_priority e < two32 -> fold_opt ref_entry_step (tokens_entry e) default_entry = Some e.
Proof.
  destruct e as [blk pri can wt sdh]. cbn [e_priority]. intros Hp. unfold tokens_entry.
  cbn [e_block e_priority e_cancel e_want_type e_send_dont_have].
  assert (Hpri : ref_int32 (sext32 pri) = pri) by (apply ref_int32_sext; exact Hp).
  destruct (is_nil blk) eqn:Eb; [apply is_nil_len in Eb; subst blk|];
    (destruct (pri =? 0) eqn:Ep; [replace pri with 0 by lia|]);
    destruct can; destruct wt; destruct sdh;
    cbn [negb want_type_eqb want_type_code app fold_opt];
    unfold ref_entry_step, default_entry;
    repeat match goal with |- context [?a =? ?b] =>
             match a with
             | N0 => idtac | Npos _ => idtac
             end;
             let c := eval vm_compute in (a =? b) in change (a =? b) with c
           end;
    cbv iota; cbn [fold_opt e_block e_priority e_cancel e_want_type e_send_dont_have];
    rewrite ?Hpri; reflexivity.
Qed.

Lemma ref_entry_write e : wf_entry e -> ref_entry (write_entry e) = Some e.
Proof.
  intros (_ & Hp & Hs). unfold ref_entry, ref_entry_into.
  rewrite (Toks_tokenise _ _ (Toks_entry e Hp Hs)). apply fold_entry. exact Hp.
Qed.

Lemma ltb_two32 x : x < two32 -> x <? ref_two32 = true.
Proof. unfold two32, ref_two32. lia. Qed.

Lemma class_entry_write e : wf_entry e -> class_entry (write_entry e) = true.
Proof.
  intros (_ & Hp & Hs). unfold class_entry, class_tokens.
  rewrite (Toks_tokenise _ _ (Toks_entry e Hp Hs)).
  pose proof (entry_block_len e) as Hb.
  assert (Hb32 : len (e_block e) <? ref_two32 = true) by (apply ltb_two32; lia).
  unfold tokens_entry.
  destruct (negb (is_nil (e_block e))); destruct (negb (e_priority e =? 0)); destruct (e_cancel e);
    destruct (negb (want_type_eqb (e_want_type e) WTBlock)); destruct (e_send_dont_have e);
    cbn [app forallb]; unfold class_entry_tok;
    repeat match goal with |- context [?a =? ?b] =>
             match a with N0 => idtac | Npos _ => idtac end;
             let c := eval vm_compute in (a =? b) in change (a =? b) with c
           end;
    cbn [orb]; cbv iota; rewrite ?Hb32; reflexivity.
Qed.

(* --- Block --- *)
Definition tokens_block (b : block) : list token :=
  (if negb (is_nil (b_prefix b)) then [(1, PBytes (b_prefix b))] else [])
  ++ (if negb (is_nil (b_data b)) then [(2, PBytes (b_data b))] else []).

Lemma block_lens b : len (b_prefix b) <= size_block b /\ len (b_data b) <= size_block b.
Proof.
  unfold size_block.
  pose proof (sizeof_len_ge (len (b_prefix b))). pose proof (sizeof_len_ge (len (b_data b))).
  destruct (is_nil (b_prefix b)) eqn:E1; [apply is_nil_len in E1; rewrite E1; change (len []) with 0|];
    (destruct (is_nil (b_data b)) eqn:E2; [apply is_nil_len in E2; rewrite E2; change (len []) with 0|]); lia.
Qed.

Lemma Toks_block b : size_block b < two32 -> Toks (write_block b) (tokens_block b).
Proof.
  intros Hs. destruct (block_lens b) as [H1 H2].
  assert (H164 : len (b_prefix b) < 2 ^ 64) by (apply two32_lt_64; lia).
  assert (H264 : len (b_data b) < 2 ^ 64) by (apply two32_lt_64; lia).
  rewrite <- (app_nil_r (write_block b)).
  unfold write_block, tokens_block, qp_write_bytes. rewrite <- !app_assoc.
  destruct (negb (is_nil (b_prefix b))); cbn [app].
  all: destruct (negb (is_nil (b_data b))); cbn [app].
  all: repeat first [ apply Toks_nil | tok_bytes 1; [assumption|] | tok_bytes 2; [assumption|] ].
Qed.

Lemma fold_block b : fold_opt ref_block_step (tokens_block b) default_block = Some b.
Proof.
  destruct b as [p d]. unfold tokens_block. cbn [b_prefix b_data].
  destruct (is_nil p) eqn:E1; [apply is_nil_len in E1; subst p|];
    (destruct (is_nil d) eqn:E2; [apply is_nil_len in E2; subst d|]);
    cbn [negb app fold_opt]; reflexivity.
Qed.

Lemma ref_block_write b : wf_block b -> ref_block (write_block b) = Some b.
Proof.
  intros (_ & _ & Hs). unfold ref_block.
  rewrite (Toks_tokenise _ _ (Toks_block b Hs)). apply fold_block.
Qed.

Lemma class_block_write b : wf_block b -> class_block (write_block b) = true.
Proof.
  intros (_ & _ & Hs). unfold class_block, class_tokens.
  rewrite (Toks_tokenise _ _ (Toks_block b Hs)).
  destruct (block_lens b) as [H1 H2].
  assert (H132 : len (b_prefix b) <? ref_two32 = true) by (apply ltb_two32; lia).
  assert (H232 : len (b_data b) <? ref_two32 = true) by (apply ltb_two32; lia).
  unfold tokens_block.
  destruct (negb (is_nil (b_prefix b))); destruct (negb (is_nil (b_data b)));
    cbn [app forallb]; unfold class_block_tok;
    repeat match goal with |- context [?a =? ?b] =>
             match a with N0 => idtac | Npos _ => idtac end;
             let c := eval vm_compute in (a =? b) in change (a =? b) with c
           end;
    cbn [orb]; cbv iota; rewrite ?H132, ?H232; reflexivity.
Qed.

(* --- BlockPresence --- *)
Definition tokens_presence (p : block_presence) : list token :=
  (if negb (is_nil (bp_cid p)) then [(1, PBytes (bp_cid p))] else [])
  ++ (if negb (presence_type_eqb (bp_type p) PHave)
      then [(2, PVarint (sext32 (presence_type_code (bp_type p))))] else []).

Lemma presence_len p : len (bp_cid p) <= size_presence p.
Proof.
  unfold size_presence. pose proof (sizeof_len_ge (len (bp_cid p))).
  destruct (is_nil (bp_cid p)) eqn:E1; [apply is_nil_len in E1; rewrite E1; change (len []) with 0|]; lia.
Qed.

Lemma Toks_presence p : size_presence p < two32 -> Toks (write_presence p) (tokens_presence p).
Proof.
  intros Hs. pose proof (presence_len p) as H1.
  assert (H164 : len (bp_cid p) < 2 ^ 64) by (apply two32_lt_64; lia).
  rewrite <- (app_nil_r (write_presence p)).
  unfold write_presence, tokens_presence, qp_write_bytes, qp_write_enum, qp_write_int32.
  rewrite <- !app_assoc.
  destruct (negb (is_nil (bp_cid p))); cbn [app].
  all: destruct (bp_type p); cbn [negb presence_type_eqb presence_type_code app].
  all: repeat first [ apply Toks_nil | tok_bytes 1; [assumption|] | tok_varint 2; [reflexivity|] ].
Qed.

Lemma fold_presence p : fold_opt ref_presence_step (tokens_presence p) default_presence = Some p.
Proof.
  destruct p as [c t]. unfold tokens_presence. cbn [bp_cid bp_type].
  destruct (is_nil c) eqn:E1; [apply is_nil_len in E1; subst c|]; destruct t;
    cbn [negb presence_type_eqb presence_type_code app fold_opt]; reflexivity.
Qed.

Lemma ref_presence_write p : wf_presence p -> ref_presence (write_presence p) = Some p.
Proof.
  intros (_ & Hs). unfold ref_presence.
  rewrite (Toks_tokenise _ _ (Toks_presence p Hs)). apply fold_presence.
Qed.

Lemma class_presence_write p : wf_presence p -> class_presence (write_presence p) = true.
Proof.
  intros (_ & Hs). unfold class_presence, class_tokens.
  rewrite (Toks_tokenise _ _ (Toks_presence p Hs)).
  pose proof (presence_len p) as H1.
  assert (H132 : len (bp_cid p) <? ref_two32 = true) by (apply ltb_two32; lia).
  unfold tokens_presence.
  destruct (negb (is_nil (bp_cid p))); destruct (negb (presence_type_eqb (bp_type p) PHave));
    cbn [app forallb]; unfold class_presence_tok;
    repeat match goal with |- context [?a =? ?b] =>
             match a with N0 => idtac | Npos _ => idtac end;
             let c := eval vm_compute in (a =? b) in change (a =? b) with c
           end;
    cbv iota; rewrite ?H132; reflexivity.
Qed.

(* --- repeated nested messages --- *)
Lemma Toks_repeated {A} (f t : N) (sz : A -> N) (wr : A -> bytes) (xs : list A) rest toks :
  t = 8 * f + 2 -> 1 <= f -> t < 2 ^ 32 ->
  (forall x, In x xs -> sz x = len (wr x) /\ len (wr x) < 2 ^ 64) ->
  Toks rest toks ->
  Toks (concat (map (fun s => qp_with_tag t (qp_write_nested (sz s) (wr s))) xs) ++ rest)
       (map (fun s => (f, PBytes (wr s))) xs ++ toks).
Proof.
  intros Ht Hf Ht32 Hxs Hrest. induction xs as [|x xs IH]; [exact Hrest|].
  cbn [map concat app]. rewrite <- app_assoc.
  destruct (Hxs x (or_introl eq_refl)) as [Hsz H64].
  unfold qp_write_nested at 1. rewrite Hsz.
  eapply Toks_cons.
  - apply (ref_token_bytes t f); assumption.
  - apply IH. intros y Hy. apply Hxs. right. assumption.
Qed.

Lemma forallb_map_toks {A} (P : token -> bool) (g : A -> token) (xs : list A) :
  (forall x, In x xs -> P (g x) = true) -> forallb P (map g xs) = true.
Proof.
  intros H. rewrite forallb_forall. intros t Ht. apply in_map_iff in Ht.
  destruct Ht as (x & <- & Hx). apply H. assumption.
Qed.

(* --- Wantlist --- *)
Definition tokens_wantlist (w : wantlist) : list token :=
  map (fun e => (1, PBytes (write_entry e))) (w_entries w)
  ++ (if w_full w then [(2, PVarint 1)] else []).

Lemma Toks_wantlist w : Forall wf_entry (w_entries w) -> Toks (write_wantlist w) (tokens_wantlist w).
Proof.
  intros Hes. unfold write_wantlist, tokens_wantlist.
  apply (Toks_repeated 1 10 size_entry write_entry); [reflexivity|lia|reflexivity| |].
  - intros x Hx. rewrite Forall_forall in Hes. destruct (Hes x Hx) as (_ & _ & Hs).
    rewrite C08_encode_no_panic_entry. split; [reflexivity|]. apply two32_lt_64. assumption.
  - destruct (w_full w).
    + rewrite <- (app_nil_r (qp_with_tag 16 (qp_write_bool true))).
      change (qp_write_bool true) with (qp_write_varint 1).
      tok_varint 2; [reflexivity|]. apply Toks_nil.
    + apply Toks_nil.
Qed.

Lemma fold_entries es : Forall wf_entry es -> forall acc fl,
  fold_opt ref_wantlist_step (map (fun e => (1, PBytes (write_entry e))) es) (MkWantlist acc fl)
  = Some (MkWantlist (acc ++ es) fl).
Proof.
  induction 1 as [|e es He Hes IH]; intros acc fl; cbn [map fold_opt].
  - rewrite app_nil_r. reflexivity.
  - change (ref_wantlist_step (MkWantlist acc fl) (1, PBytes (write_entry e)))
      with (match ref_entry (write_entry e) with
            | Some x => Some (MkWantlist (acc ++ [x]) fl) | None => None end).
    rewrite (ref_entry_write e He). rewrite IH. rewrite <- app_assoc. reflexivity.
Qed.

Lemma ref_wantlist_write w : wf_wantlist w -> ref_wantlist (write_wantlist w) = Some w.
Proof.
  intros (Hes & Hs). unfold ref_wantlist, ref_wantlist_into.
  rewrite (Toks_tokenise _ _ (Toks_wantlist w Hes)).
  unfold tokens_wantlist. rewrite fold_opt_app. unfold default_wantlist.
  rewrite (fold_entries _ Hes). destruct w as [es fl]. cbn [w_entries w_full app].
  destruct fl; reflexivity.
Qed.

Lemma class_wantlist_write w : wf_wantlist w -> class_wantlist (write_wantlist w) = true.
Proof.
  intros (Hes & Hs). unfold class_wantlist, class_tokens.
  rewrite (Toks_tokenise _ _ (Toks_wantlist w Hes)).
  unfold tokens_wantlist. rewrite forallb_app. apply andb_true_iff. split.
  - apply forallb_map_toks. intros e He. rewrite Forall_forall in Hes. pose proof (Hes e He) as Hwf.
    change (class_wantlist_tok (1, PBytes (write_entry e)))
      with ((len (write_entry e) <? ref_two32) && class_entry (write_entry e)).
    rewrite (class_entry_write e Hwf). rewrite C08_encode_no_panic_entry.
    destruct Hwf as (_ & _ & Hse). rewrite (ltb_two32 _ Hse). reflexivity.
  - destruct (w_full w); reflexivity.
Qed.

(* --- Message --- *)
Definition tokens_message (m : message) : list token :=
  (match m_wantlist m with Some w => [(1, PBytes (write_wantlist w))] | None => [] end)
  ++ map (fun b => (3, PBytes (write_block b))) (m_payload m)
  ++ map (fun p => (4, PBytes (write_presence p))) (m_presences m)
  ++ (if negb (m_pending_bytes m =? 0) then [(5, PVarint (sext32 (m_pending_bytes m)))] else []).

Lemma Toks_message m : wf_message m -> Toks (write_message m) (tokens_message m).
Proof.
  intros (Hw & Hpl & Hpr & Hpb & Hsz). unfold write_message, tokens_message.
  assert (Htail : Toks (if negb (m_pending_bytes m =? 0)
                        then qp_with_tag 40 (qp_write_int32 (m_pending_bytes m)) else [])
                       (if negb (m_pending_bytes m =? 0)
                        then [(5, PVarint (sext32 (m_pending_bytes m)))] else [])).
  { destruct (negb (m_pending_bytes m =? 0)); [|apply Toks_nil].
    rewrite <- (app_nil_r (qp_with_tag 40 _)). unfold qp_write_int32.
    tok_varint 5; [apply sext32_range; exact Hpb|]. apply Toks_nil. }
  assert (Hrest : Toks (concat (map (fun s => qp_with_tag 26 (qp_write_nested (size_block s) (write_block s))) (m_payload m))
                        ++ concat (map (fun s => qp_with_tag 34 (qp_write_nested (size_presence s) (write_presence s))) (m_presences m))
                        ++ (if negb (m_pending_bytes m =? 0)
                            then qp_with_tag 40 (qp_write_int32 (m_pending_bytes m)) else []))
                       (map (fun b => (3, PBytes (write_block b))) (m_payload m)
                        ++ map (fun p => (4, PBytes (write_presence p))) (m_presences m)
                        ++ (if negb (m_pending_bytes m =? 0) then [(5, PVarint (sext32 (m_pending_bytes m)))] else []))).
  { apply (Toks_repeated 3 26 size_block write_block); [reflexivity|lia|reflexivity| |].
    - intros x Hx. rewrite Forall_forall in Hpl. destruct (Hpl x Hx) as (_ & _ & Hs).
      rewrite C08_encode_no_panic_block. split; [reflexivity|]. apply two32_lt_64. assumption.
    - apply (Toks_repeated 4 34 size_presence write_presence); [reflexivity|lia|reflexivity| |].
      + intros x Hx. rewrite Forall_forall in Hpr. destruct (Hpr x Hx) as (_ & Hs).
        rewrite C08_encode_no_panic_presence. split; [reflexivity|]. apply two32_lt_64. assumption.
      + exact Htail. }
  destruct (m_wantlist m) as [w|]; [|exact Hrest].
  cbn [app]. destruct Hw as (Hes & Hsw).
  unfold qp_write_nested at 1. rewrite <- (C08_encode_no_panic_wantlist w).
  eapply Toks_cons; [|exact Hrest].
  apply (ref_token_bytes 10 1); [reflexivity|lia|reflexivity|].
  rewrite C08_encode_no_panic_wantlist. apply two32_lt_64. assumption.
Qed.

Lemma fold_blocks bs : Forall wf_block bs -> forall wl acc pr pb,
  fold_opt ref_message_step (map (fun b => (3, PBytes (write_block b))) bs) (MkMessage wl acc pr pb)
  = Some (MkMessage wl (acc ++ bs) pr pb).
Proof.
  induction 1 as [|b bs Hb Hbs IH]; intros wl acc pr pb; cbn [map fold_opt].
  - rewrite app_nil_r. reflexivity.
  - change (ref_message_step (MkMessage wl acc pr pb) (3, PBytes (write_block b)))
      with (match ref_block (write_block b) with
            | Some x => Some (MkMessage wl (acc ++ [x]) pr pb) | None => None end).
    rewrite (ref_block_write b Hb). rewrite IH. rewrite <- app_assoc. reflexivity.
Qed.

Lemma fold_presences ps : Forall wf_presence ps -> forall wl pl acc pb,
  fold_opt ref_message_step (map (fun p => (4, PBytes (write_presence p))) ps) (MkMessage wl pl acc pb)
  = Some (MkMessage wl pl (acc ++ ps) pb).
Proof.
  induction 1 as [|p ps Hp Hps IH]; intros wl pl acc pb; cbn [map fold_opt].
  - rewrite app_nil_r. reflexivity.
  - change (ref_message_step (MkMessage wl pl acc pb) (4, PBytes (write_presence p)))
      with (match ref_presence (write_presence p) with
            | Some x => Some (MkMessage wl pl (acc ++ [x]) pb) | None => None end).
    rewrite (ref_presence_write p Hp). rewrite IH. rewrite <- app_assoc. reflexivity.
Qed.

(* C11: what beetswap emits is a valid encoding of the value under the Bitswap 1.2.0 schema *)
Theorem C11_emit_valid : forall m, wf_message m -> ref_decode (write_message m) = Some m.
Proof.
  intros m Hwf. unfold ref_decode. rewrite (Toks_tokenise _ _ (Toks_message m Hwf)).
  destruct Hwf as (Hw & Hpl & Hpr & Hpb & Hsz).
  destruct m as [wl pl pr pb]. unfold tokens_message.
  cbn [m_wantlist m_payload m_presences m_pending_bytes] in *.
  rewrite !fold_opt_app.
  assert (H1 : exists m0, fold_opt ref_message_step
                 (match wl with Some w => [(1, PBytes (write_wantlist w))] | None => [] end)
                 default_message = Some m0 /\ m0 = MkMessage wl [] [] 0).
  { destruct wl as [w|]; [|eexists; split; reflexivity]. cbn [fold_opt].
    change (ref_message_step default_message (1, PBytes (write_wantlist w)))
      with (match ref_wantlist (write_wantlist w) with
            | Some x => Some (MkMessage (Some x) [] [] 0) | None => None end).
    rewrite (ref_wantlist_write w Hw). eexists; split; reflexivity. }
  destruct H1 as (m0 & H1 & ->).
  match goal with |- match ?X with _ => _ end = _ =>
    replace X with (Some (MkMessage wl [] [] 0)) by (symmetry; exact H1) end.
  cbv beta iota. rewrite fold_opt_app. rewrite (fold_blocks _ Hpl).
  rewrite fold_opt_app. rewrite (fold_presences _ Hpr). cbn [app].
  destruct (pb =? 0) eqn:Ep; cbn [negb fold_opt].
  - replace pb with 0 by lia. reflexivity.
  - change (ref_message_step (MkMessage wl pl pr 0) (5, PVarint (sext32 pb)))
      with (Some (MkMessage wl pl pr (ref_int32 (sext32 pb)))).
    rewrite ref_int32_sext by exact Hpb. reflexivity.
Qed.

Lemma filter_map_none {A} (g : A -> token) (xs : list A) :
  (forall x, is_wantlist_tok (g x) = false) -> filter is_wantlist_tok (map g xs) = [].
Proof.
  intros H. induction xs as [|x xs IH]; [reflexivity|]. cbn [map filter]. rewrite H. exact IH.
Qed.

Lemma write_message_in_class m : wf_message m -> in_class (write_message m).
Proof.
  intros Hwf. unfold in_class, in_classb, class_tokens.
  rewrite (Toks_tokenise _ _ (Toks_message m Hwf)).
  destruct Hwf as (Hw & Hpl & Hpr & Hpb & Hsz).
  apply andb_true_iff. split; [apply andb_true_iff; split|].
  - rewrite C08_encode_no_panic. unfold two64 in Hsz. lia.
  - unfold tokens_message. rewrite !forallb_app. repeat (apply andb_true_iff; split).
    + destruct (m_wantlist m) as [w|]; [|reflexivity]. cbn [forallb].
      change (class_message_tok (1, PBytes (write_wantlist w)))
        with ((len (write_wantlist w) <? ref_two32) && class_wantlist (write_wantlist w)).
      rewrite (class_wantlist_write w Hw). rewrite C08_encode_no_panic_wantlist.
      destruct Hw as (_ & Hsw). rewrite (ltb_two32 _ Hsw). reflexivity.
    + apply forallb_map_toks. intros b Hb. rewrite Forall_forall in Hpl. pose proof (Hpl b Hb) as Hwf.
      change (class_message_tok (3, PBytes (write_block b)))
        with ((len (write_block b) <? ref_two32) && class_block (write_block b)).
      rewrite (class_block_write b Hwf). rewrite C08_encode_no_panic_block.
      destruct Hwf as (_ & _ & Hsb). rewrite (ltb_two32 _ Hsb). reflexivity.
    + apply forallb_map_toks. intros p Hp. rewrite Forall_forall in Hpr. pose proof (Hpr p Hp) as Hwf.
      change (class_message_tok (4, PBytes (write_presence p)))
        with ((len (write_presence p) <? ref_two32) && class_presence (write_presence p)).
      rewrite (class_presence_write p Hwf). rewrite C08_encode_no_panic_presence.
      destruct Hwf as (_ & Hsp). rewrite (ltb_two32 _ Hsp). reflexivity.
    + destruct (negb (m_pending_bytes m =? 0)); reflexivity.
  - unfold tokens_message. rewrite !filter_app.
    rewrite (filter_map_none (fun b => (3, PBytes (write_block b)))) by reflexivity.
    rewrite (filter_map_none (fun p => (4, PBytes (write_presence p)))) by reflexivity.
    destruct (m_wantlist m); destruct (negb (m_pending_bytes m =? 0)); reflexivity.
Qed.

(* C10 (body): the quick-protobuf reader, started on any array that begins with the body written for
   a well-formed message, and told the body's length, returns exactly that message and stops exactly
   at the end of the body - in both build profiles.  This is `parse_exact` of the framing layer. *)
Theorem C10_body_roundtrip : forall chk m tail,
  wf_message m ->
  qp_read_message chk (write_message m ++ tail) (len (write_message m)) = ROk m (len (write_message m)).
Proof.
  intros chk m tail Hwf. unfold qp_read_message.
  rewrite (Qp_refines_Ref (mode_of_chk chk) (write_message m) m tail
             (C11_emit_valid m Hwf) (write_message_in_class m Hwf)).
  reflexivity.
Qed.

(* ... and the instrumented run sees no overrun on such input *)
Theorem C10_body_not_overrun : forall m tail,
  wf_message m -> overrun_b (write_message m ++ tail) (len (write_message m)) = false.
Proof.
  intros m tail Hwf.
  apply (in_class_not_overrun _ m); [apply C11_emit_valid|apply write_message_in_class]; assumption.
Qed.

(* non-vacuity: a message with every kind of field, negative int32 values included *)
Definition ex_message : message :=
  MkMessage (Some (MkWantlist [MkEntry [1;85;18;32;186] 1 false WTBlock true;
                               MkEntry [1;2] 4294967295 true WTHave false;
                               default_entry] true))
            [MkBlock [1;85;18;32] [97;98;99]; default_block] [MkPresence [1;2;3] PDontHave]
            4294967290.

Example ex_message_wf : wf_message ex_message.
Proof. apply wf_messageb_spec. vm_compute. reflexivity. Qed.

Example C11_emit_valid_ex : ref_decode (write_message ex_message) = Some ex_message.
Proof. vm_compute. reflexivity. Qed.

Example C10_body_roundtrip_ex :
  qp_read_message true (write_message ex_message ++ [1; 2; 3]) (len (write_message ex_message))
  = ROk ex_message 75 /\
  qp_read_message false (write_message ex_message ++ [1; 2; 3]) (len (write_message ex_message))
  = ROk ex_message 75.
Proof. vm_compute. split; reflexivity. Qed.

(* a non-canonical encoding of the class: unknown fields of all four wire types, fields out of
   order, an explicit default, a non-minimal varint, a ten-byte negative int32 *)
Definition ex_noncanonical : bytes :=
  [ 40; 250; 255; 255; 255; 255; 255; 255; 255; 255; 1;      (* pendingBytes = -6, ten bytes *)
    120; 129; 0;                                              (* unknown field 15, varint, non-minimal 1 *)
    26; 5; 18; 3; 97; 98; 99;                                 (* payload { data = "abc" } (no prefix) *)
    121; 1; 2; 3; 4; 5; 6; 7; 8;                              (* unknown field 15, fixed64 *)
    10; 10; 16; 0; 10; 6; 24; 0; 10; 2; 1; 2;                 (* wantlist { full = false (explicit); entry { cancel = false (explicit); block = 0102 } } *)
    125; 1; 2; 3; 4;                                          (* unknown field 15, fixed32 *)
    122; 2; 9; 9 ].                                           (* unknown field 15, length-delimited *)

Example C11_accept_noncanonical_ex :
  in_class ex_noncanonical /\
  ref_decode ex_noncanonical
  = Some (MkMessage (Some (MkWantlist [MkEntry [1; 2] 0 false WTBlock false] false))
                    [MkBlock [] [97; 98; 99]] [] 4294967290).
Proof. vm_compute. split; reflexivity. Qed.

(* ------------------------------------------------------------------------------------------ *)
(* Part H: where quick-protobuf is NOT the reference decoder (outside `in_class`)             *)

(* `full` encoded as the varint 2^32 (80 80 80 80 10): proto3 says true (non-zero), quick-protobuf's
   read_bool = read_varint32 != 0 keeps the low 32 bits only and says false. *)
Theorem C11_truncation_refuted :
  exists w m m',
    ref_decode w = Some m /\
    (forall chk, qp_read_message chk w (len w) = ROk m' (len w)) /\
    m <> m' /\ in_classb w = false.
Proof.
  exists [10; 6; 16; 128; 128; 128; 128; 16],
         (MkMessage (Some (MkWantlist [] true)) [] [] 0),
         (MkMessage (Some (MkWantlist [] false)) [] [] 0).
  split; [vm_compute; reflexivity|]. split; [intros [|]; vm_compute; reflexivity|].
  split; [discriminate|vm_compute; reflexivity].
Qed.

(* a key that does not fit 32 bits (8a 80 80 80 10 = 10 + 2^32) is malformed; quick-protobuf
   truncates it to 10 and reads a wantlist *)
Theorem C11_truncation_refuted_key :
  exists w m',
    ref_decode w = None /\ (forall chk, qp_read_message chk w (len w) = ROk m' (len w)).
Proof.
  exists [138; 128; 128; 128; 16; 0], (MkMessage (Some (MkWantlist [] false)) [] [] 0).
  split; [vm_compute; reflexivity|intros [|]; vm_compute; reflexivity].
Qed.

(* the singular message field `wantlist` given twice: proto3 merges the two (full = true survives),
   quick-protobuf keeps the last one only *)
Theorem C11_singular_merge_refuted :
  exists w m m',
    ref_decode w = Some m /\
    (forall chk, qp_read_message chk w (len w) = ROk m' (len w)) /\
    m <> m' /\ in_classb w = false.
Proof.
  exists [10; 2; 16; 1; 10; 0],
         (MkMessage (Some (MkWantlist [] true)) [] [] 0),
         (MkMessage (Some (MkWantlist [] false)) [] [] 0).
  split; [vm_compute; reflexivity|]. split; [intros [|]; vm_compute; reflexivity|].
  split; [discriminate|vm_compute; reflexivity].
Qed.

(* ------------------------------------------------------------------------------------------ *)
(* Part I: enum numbers that the schema does not declare                                      *)

Definition enum_entry_bytes (cid : bytes) (v : N) : bytes :=
  qp_with_tag 10 (qp_write_bytes cid) ++ qp_with_tag 32 (qp_write_varint v).
Definition enum_presence_bytes (cid : bytes) (v : N) : bytes :=
  qp_with_tag 10 (qp_write_bytes cid) ++ qp_with_tag 16 (qp_write_varint v).
(* Message { wantlist { entries { block = cid; wantType = v } }  blockPresences { cid = cid; type = v } } *)
Definition enum_message_bytes (cid : bytes) (v : N) : bytes :=
  qp_with_tag 10 (qp_write_bytes (qp_with_tag 10 (qp_write_bytes (enum_entry_bytes cid v))))
  ++ qp_with_tag 34 (qp_write_bytes (enum_presence_bytes cid v)).

Lemma sizeof_varint_le v : sizeof_varint v <= 10.
Proof.
  unfold sizeof_varint.
  repeat match goal with |- context [if ?c then _ else _] => destruct c end; lia.
Qed.

Lemma len_tagged_bytes t b : t < 128 -> len (qp_with_tag t (qp_write_bytes b)) <= len b + 11.
Proof.
  intros Ht. rewrite len_with_tag_small by assumption. rewrite len_write_bytes. unfold sizeof_len.
  pose proof (sizeof_varint_le (len b)). lia.
Qed.

Lemma len_tagged_varint t v : t < 128 -> len (qp_with_tag t (qp_write_varint v)) <= 11.
Proof.
  intros Ht. rewrite len_with_tag_small by assumption. rewrite len_write_varint.
  pose proof (sizeof_varint_le v). lia.
Qed.

Section UnknownEnum.
  Variables (cid : bytes) (v : N).
  Hypothesis Hcid : len cid < 2 ^ 31.
  Hypothesis Hv : v < 2 ^ 64.
  Hypothesis Hv1 : v mod 2 ^ 32 <> 1.

  Let eb := enum_entry_bytes cid v.
  Let pb := enum_presence_bytes cid v.
  Let wb := qp_with_tag 10 (qp_write_bytes eb).

  Lemma ue_cid64 : len cid < 2 ^ 64.
  Proof.
    change (2 ^ 31) with 2147483648 in Hcid. change (2 ^ 64) with 18446744073709551616. lia.
  Qed.

  Lemma ue_len_eb : len eb <= len cid + 22.
  Proof.
    unfold eb, enum_entry_bytes. rewrite len_app.
    pose proof (len_tagged_bytes 10 cid ltac:(lia)). pose proof (len_tagged_varint 32 v ltac:(lia)). lia.
  Qed.

  Lemma ue_len_pb : len pb <= len cid + 22.
  Proof.
    unfold pb, enum_presence_bytes. rewrite len_app.
    pose proof (len_tagged_bytes 10 cid ltac:(lia)). pose proof (len_tagged_varint 16 v ltac:(lia)). lia.
  Qed.

  Lemma ue_len_wb : len wb <= len cid + 33.
  Proof.
    unfold wb. pose proof (len_tagged_bytes 10 eb ltac:(lia)). pose proof ue_len_eb. lia.
  Qed.

  Lemma ue_small x : x <= len cid + 33 -> x < 2 ^ 64 /\ x <? ref_two32 = true.
  Proof.
    unfold ref_two32. change (2 ^ 31) with 2147483648 in Hcid.
    change (2 ^ 64) with 18446744073709551616. change (2 ^ 32) with 4294967296. lia.
  Qed.

  Lemma ue_Toks_eb : Toks eb [(1, PBytes cid); (4, PVarint v)].
  Proof.
    unfold eb, enum_entry_bytes. rewrite <- (app_nil_r (qp_with_tag 32 _)). unfold qp_write_bytes.
    tok_bytes 1; [apply ue_cid64|]. tok_varint 4; [exact Hv|]. apply Toks_nil.
  Qed.

  Lemma ue_Toks_pb : Toks pb [(1, PBytes cid); (2, PVarint v)].
  Proof.
    unfold pb, enum_presence_bytes. rewrite <- (app_nil_r (qp_with_tag 16 _)). unfold qp_write_bytes.
    tok_bytes 1; [apply ue_cid64|]. tok_varint 2; [exact Hv|]. apply Toks_nil.
  Qed.

  Lemma ue_ref_eb : ref_entry eb = Some (MkEntry cid 0 false WTBlock false).
  Proof.
    unfold ref_entry, ref_entry_into. rewrite (Toks_tokenise _ _ ue_Toks_eb). cbn [fold_opt].
    change (ref_entry_step default_entry (1, PBytes cid)) with (Some (MkEntry cid 0 false WTBlock false)).
    cbv iota.
    change (ref_entry_step (MkEntry cid 0 false WTBlock false) (4, PVarint v))
      with (Some (MkEntry cid 0 false (ref_want_type v) false)).
    cbv iota. unfold ref_want_type, ref_int32. destruct (v mod 2 ^ 32 =? 1) eqn:E; [lia|reflexivity].
  Qed.

  Lemma ue_ref_pb : ref_presence pb = Some (MkPresence cid PHave).
  Proof.
    unfold ref_presence. rewrite (Toks_tokenise _ _ ue_Toks_pb). cbn [fold_opt].
    change (ref_presence_step default_presence (1, PBytes cid)) with (Some (MkPresence cid PHave)).
    cbv iota.
    change (ref_presence_step (MkPresence cid PHave) (2, PVarint v))
      with (Some (MkPresence cid (ref_presence_type v))).
    cbv iota. unfold ref_presence_type, ref_int32. destruct (v mod 2 ^ 32 =? 1) eqn:E; [lia|reflexivity].
  Qed.

  Lemma ue_class_eb : class_entry eb = true.
  Proof.
    unfold class_entry, class_tokens. rewrite (Toks_tokenise _ _ ue_Toks_eb). cbn [forallb].
    change (class_entry_tok (1, PBytes cid)) with (len cid <? ref_two32).
    change (class_entry_tok (4, PVarint v)) with true.
    destruct (ue_small (len cid) ltac:(lia)) as [_ ->]. reflexivity.
  Qed.

  Lemma ue_class_pb : class_presence pb = true.
  Proof.
    unfold class_presence, class_tokens. rewrite (Toks_tokenise _ _ ue_Toks_pb). cbn [forallb].
    change (class_presence_tok (1, PBytes cid)) with (len cid <? ref_two32).
    change (class_presence_tok (2, PVarint v)) with true.
    destruct (ue_small (len cid) ltac:(lia)) as [_ ->]. reflexivity.
  Qed.

  Lemma ue_Toks_wb : Toks wb [(1, PBytes eb)].
  Proof.
    unfold wb. rewrite <- (app_nil_r (qp_with_tag 10 _)). unfold qp_write_bytes.
    tok_bytes 1; [|apply Toks_nil]. pose proof ue_len_eb. apply ue_small. lia.
  Qed.

  Lemma ue_ref_wb : ref_wantlist wb = Some (MkWantlist [MkEntry cid 0 false WTBlock false] false).
  Proof.
    unfold ref_wantlist, ref_wantlist_into. rewrite (Toks_tokenise _ _ ue_Toks_wb). cbn [fold_opt].
    change (ref_wantlist_step default_wantlist (1, PBytes eb))
      with (match ref_entry eb with
            | Some e => Some (MkWantlist ([] ++ [e]) false) | None => None end).
    rewrite ue_ref_eb. reflexivity.
  Qed.

  Lemma ue_class_wb : class_wantlist wb = true.
  Proof.
    unfold class_wantlist, class_tokens. rewrite (Toks_tokenise _ _ ue_Toks_wb). cbn [forallb].
    change (class_wantlist_tok (1, PBytes eb)) with ((len eb <? ref_two32) && class_entry eb).
    rewrite ue_class_eb. pose proof ue_len_eb.
    destruct (ue_small (len eb) ltac:(lia)) as [_ ->]. reflexivity.
  Qed.

  Lemma ue_Toks_msg : Toks (enum_message_bytes cid v) [(1, PBytes wb); (4, PBytes pb)].
  Proof.
    unfold enum_message_bytes. fold eb. fold wb. fold pb.
    rewrite <- (app_nil_r (qp_with_tag 34 _)). unfold qp_write_bytes at 1 2.
    tok_bytes 1; [pose proof ue_len_wb; apply ue_small; lia|].
    tok_bytes 4; [pose proof ue_len_pb; apply ue_small; lia|]. apply Toks_nil.
  Qed.

  Definition enum_message_value : message :=
    MkMessage (Some (MkWantlist [MkEntry cid 0 false WTBlock false] false)) [] [MkPresence cid PHave] 0.

  Lemma ue_ref_msg : ref_decode (enum_message_bytes cid v) = Some enum_message_value.
  Proof.
    unfold ref_decode. rewrite (Toks_tokenise _ _ ue_Toks_msg). cbn [fold_opt].
    change (ref_message_step default_message (1, PBytes wb))
      with (match ref_wantlist wb with
            | Some w => Some (MkMessage (Some w) [] [] 0) | None => None end).
    rewrite ue_ref_wb.
    change (ref_message_step
              (MkMessage (Some (MkWantlist [MkEntry cid 0 false WTBlock false] false)) [] [] 0)
              (4, PBytes pb))
      with (match ref_presence pb with
            | Some x => Some (MkMessage (Some (MkWantlist [MkEntry cid 0 false WTBlock false] false))
                                        [] ([] ++ [x]) 0)
            | None => None end).
    rewrite ue_ref_pb. reflexivity.
  Qed.

  Lemma ue_in_class : in_class (enum_message_bytes cid v).
  Proof.
    unfold in_class, in_classb, class_tokens. rewrite (Toks_tokenise _ _ ue_Toks_msg).
    cbn [forallb].
    change (class_message_tok (1, PBytes wb)) with ((len wb <? ref_two32) && class_wantlist wb).
    change (class_message_tok (4, PBytes pb)) with ((len pb <? ref_two32) && class_presence pb).
    rewrite ue_class_wb, ue_class_pb.
    pose proof ue_len_wb as Hw. pose proof ue_len_pb as Hp.
    destruct (ue_small (len wb) ltac:(lia)) as [_ ->].
    destruct (ue_small (len pb) ltac:(lia)) as [_ ->].
    assert (Hlen : len (enum_message_bytes cid v) <? 2 ^ 64 = true).
    { unfold enum_message_bytes. fold eb. fold wb. fold pb. rewrite len_app.
      pose proof (len_tagged_bytes 10 wb ltac:(lia)). pose proof (len_tagged_bytes 34 pb ltac:(lia)).
      change (2 ^ 31) with 2147483648 in Hcid. change (2 ^ 64) with 18446744073709551616. lia. }
    rewrite Hlen. reflexivity.
  Qed.
End UnknownEnum.

(* C11: an enum number the schema does not declare (any varint whose low 32 bits are not 1, i.e. 0,
   2, 3, ..., negative numbers, numbers beyond 32 bits) is not an error: both the reference decoder
   and quick-protobuf decode the field as the default value (Block / Have) and keep everything else. *)
Theorem C11_unknown_enum_tolerated : forall chk cid v,
  len cid < 2 ^ 31 -> v < 2 ^ 64 -> v mod 2 ^ 32 <> 1 ->
  let w := enum_message_bytes cid v in
  ref_decode w = Some (enum_message_value cid) /\
  qp_read_message chk w (len w) = ROk (enum_message_value cid) (len w).
Proof.
  intros chk cid v Hcid Hv Hv1 w. split.
  - apply ue_ref_msg; assumption.
  - apply C11_accept_noncanonical; [apply ue_ref_msg|apply ue_in_class]; assumption.
Qed.

Example C11_unknown_enum_tolerated_ex :
  enum_message_bytes [1; 2] 7 = [10; 8; 10; 6; 10; 2; 1; 2; 32; 7; 34; 6; 10; 2; 1; 2; 16; 7] /\
  qp_read_message true (enum_message_bytes [1; 2] 4294967295) (len (enum_message_bytes [1; 2] 4294967295))
  = ROk (enum_message_value [1; 2]) 26.
Proof. vm_compute. split; reflexivity. Qed.

(* the conversions themselves *)
Lemma want_type_of_i32_unknown v : v <> 1 -> want_type_of_i32 v = WTBlock.
Proof. intros H. unfold want_type_of_i32. destruct (v =? 0); [reflexivity|]. destruct (v =? 1) eqn:E; [lia|reflexivity]. Qed.

Lemma presence_type_of_i32_unknown v : v <> 1 -> presence_type_of_i32 v = PHave.
Proof. intros H. unfold presence_type_of_i32. destruct (v =? 0); [reflexivity|]. destruct (v =? 1) eqn:E; [lia|reflexivity]. Qed.
