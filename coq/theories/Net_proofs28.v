(* Net_proofs28.v — package J, part 6: the fair round lowers the potential of a net that is not quiet, hence `settle_loop`
   reaches a quiet net within `Phi s` rounds. *)
From BS Require Import Server_lemmas Server_inv Server_proofs Server_live Wantlist_proofs Client_proofs Client_proofs2
  Client_proofs3 Client_proofs4 Client_proofs8 Net Net_proofs2 Net_proofs3 Net_proofs4 Net_proofs5 Net_proofs6 Net_proofs7
  Net_proofs9 Net_proofs10 Net_proofs11 Net_proofs17 Net_proofs23 Net_proofs24 Net_proofs25 Net_proofs26 Net_proofs27.
From Coq Require Import ZArith ZifyBool ZifyN ZifyNat Lia.
Open Scope nat_scope.

Lemma tasks_run_quiet s outs s' : tasks_run s outs s' -> tasks_act s = false -> s' = after_tasks s.
Proof.
  intros H. destruct H as [s Hr | s r outs s' Hr Hrun]; [reflexivity|]. unfold tasks_act. rewrite Hr. discriminate.
Qed.

Section Round.
  Variables (Sz : N) (Hh : hash_fn).
  Hypothesis HSz : (32 <= Sz)%N.

  (* what the steps of a round keep *)
  Definition RI (s : net) : Prop := net_ok Sz Hh s /\ net_live s.

  Lemma sched_good o : sched o -> nop_good Sz Hh o /\ nop_wf Sz o.
  Proof. destruct o; cbn; intros []; auto. Qed.

  Lemma RI_step s o : sched o -> RI s -> RI (fst (nstep Sz Hh s o)).
  Proof.
    intros Ho [Hok Hl]. destruct (sched_good o Ho) as [Hg Hw]. split; [apply net_ok_step | apply net_live_step]; assumption.
  Qed.

  Lemma RI_INVT s i n : RI s -> get_node s i = Some n -> INVT (n_client n).
  Proof. intros [_ [Hnl _]] Hg. destruct (Hnl i n Hg) as (_ & [_ HT] & _). exact HT. Qed.

  Lemma Phi_step s o : sched o -> RI s -> Phi (fst (nstep Sz Hh s o)) <= Phi s.
  Proof.
    intros Ho HR. destruct o; try destruct Ho.
    - cbn [nstep]. destruct (get_node s i) as [n|] eqn:Hg; [|unfold do_poll; rewrite Hg; cbn [fst]; lia].
      destruct (Phi_poll Sz Hh HSz s i n (proj1 HR) (RI_INVT s i n HR Hg) Hg) as (sC & outsC & _ & H). lia.
    - pose proof (Phi_store Sz Hh HSz s i k). lia.
    - pose proof (Phi_deliver_w Sz Hh HSz s i j). lia.
    - pose proof (Phi_deliver_b Sz Hh HSz s j i (proj1 HR)). lia.
  Qed.

  Lemma Phi_run ops : Forall sched ops -> forall s, RI s -> RI (fst (nrun Sz Hh s ops)) /\ Phi (fst (nrun Sz Hh s ops)) <= Phi s.
  Proof.
    induction 1 as [|o ops Ho _ IH]; intros s HR; [cbn; split; [exact HR | lia]|].
    rewrite (nrun_cons Sz Hh). cbn [fst]. destruct (IH _ (RI_step s o Ho HR)) as [H1 H2]. split; [exact H1|].
    pose proof (Phi_step s o Ho HR). lia.
  Qed.

  Lemma polls_sched s : Forall sched (polls_of s).
  Proof. unfold polls_of. apply Forall_forall. intros o Ho. apply in_map_iff in Ho. destruct Ho as (i & <- & _). exact I. Qed.
  Lemma stores_sched s : Forall sched (stores_of s).
  Proof.
    unfold stores_of. apply Forall_forall. intros o Ho. apply in_flat_map in Ho. destruct Ho as ([i n] & _ & Ho). apply repeat_spec in Ho. subst o. exact I.
  Qed.
  Lemma deliveries_sched s : Forall sched (deliveries_of s).
  Proof.
    unfold deliveries_of. apply Forall_forall. intros o Ho. apply in_app_iff in Ho.
    destruct Ho as [Ho|Ho]; apply in_map_iff in Ho; destruct Ho as (m & <- & _); exact I.
  Qed.

  (* ---------- a message in flight: the delivery phase lowers Phi ---------- *)
  Lemma deliveries_strict s :
    RI s -> wire_w s <> [] \/ wire_b s <> [] -> Phi (fst (nrun Sz Hh s (deliveries_of s))) < Phi s.
  Proof.
    intros HR Hne. pose proof (deliveries_sched s) as Hs. unfold deliveries_of in *.
    destruct (wire_w s) as [|m r] eqn:Ew.
    - destruct (wire_b s) as [|m r] eqn:Eb; [destruct Hne; congruence|]. cbn [map app] in *. inversion Hs as [|? ? Ho Hs']; subst.
      rewrite (nrun_cons Sz Hh). cbn [fst]. destruct (Phi_run _ Hs' _ (RI_step s _ Ho HR)) as [_ H2].
      pose proof (Phi_deliver_b Sz Hh HSz s (bm_src m) (bm_dst m) (proj1 HR)) as H1. rewrite Eb in H1. cbn [take_first] in H1.
      assert (E : b_between (bm_src m) (bm_dst m) m = true) by (unfold b_between; rewrite !N.eqb_refl; reflexivity). rewrite E in H1. lia.
    - cbn [map app] in *. inversion Hs as [|? ? Ho Hs']; subst.
      rewrite (nrun_cons Sz Hh). cbn [fst]. destruct (Phi_run _ Hs' _ (RI_step s _ Ho HR)) as [_ H2].
      pose proof (Phi_deliver_w Sz Hh HSz s (wm_src m) (wm_dst m)) as H1. rewrite Ew in H1. cbn [take_first] in H1.
      assert (E : w_between (wm_src m) (wm_dst m) m = true) by (unfold w_between; rewrite !N.eqb_refl; reflexivity). rewrite E in H1. lia.
  Qed.

  (* ---------- an outstanding store call: the store phase lowers Phi ---------- *)
  Lemma stores_first l : forall from,
    (exists n, In n l /\ n_calls n <> []) ->
    exists idx n rest,
      flat_map (fun x : N * node => repeat (NStore (fst x) 0) (length (n_calls (snd x)))) (combine (seqN from (length l)) l)
      = NStore (from + N.of_nat idx) 0 :: rest /\ nth_error l idx = Some n /\ n_calls n <> [].
  Proof.
    induction l as [|x l IH]; intros from (n & Hin & Hne); [destruct Hin|]. cbn [length seqN combine flat_map fst snd].
    destruct (n_calls x) as [|c cs] eqn:Ec.
    - cbn [length repeat app]. destruct Hin as [->|Hin]; [congruence|].
      destruct (IH (from + 1)%N (ex_intro _ n (conj Hin Hne))) as (idx & n' & rest & E & Hn & Hc).
      exists (S idx), n', rest. split; [|auto]. rewrite E. replace (from + 1 + N.of_nat idx)%N with (from + N.of_nat (S idx))%N by lia. reflexivity.
    - cbn [length repeat app]. exists 0, x. eexists. split; [|split; [reflexivity | congruence]]. replace (from + N.of_nat 0)%N with from by lia. reflexivity.
  Qed.

  Lemma stores_strict s :
    RI s -> (exists k n, get_node s k = Some n /\ n_calls n <> []) -> Phi (fst (nrun Sz Hh s (stores_of s))) < Phi s.
  Proof.
    intros HR (k & n & Hg & Hne). pose proof (stores_sched s) as Hs. unfold stores_of in *.
    destruct (stores_first (nodes s) 0%N) as (idx & n' & rest & E & Hn & Hc); [exists n; split; [eapply nth_error_In; exact Hg | exact Hne]|].
    rewrite E in *. inversion Hs as [|? ? Ho Hs']; subst.
    rewrite (nrun_cons Sz Hh). cbn [fst]. destruct (Phi_run _ Hs' _ (RI_step s _ Ho HR)) as [_ H2].
    pose proof (Phi_store Sz Hh HSz s (0 + N.of_nat idx)%N 0%N) as H1.
    assert (Hg' : get_node s (0 + N.of_nat idx)%N = Some n') by (unfold get_node; replace (N.to_nat (0 + N.of_nat idx)) with idx by lia; exact Hn).
    rewrite Hg' in H1. destruct (n_calls n'); [congruence|]. change (N.to_nat 0) with 0 in H1. cbn [nth_error] in H1. lia.
  Qed.

  (* ---------- a node with something to do: its poll lowers Phi ---------- *)
  Lemma nonnil_0 {A} (l : list A) : nonnil l = 0 -> l = [].
  Proof. destruct l; [reflexivity | discriminate]. Qed.
  Lemma b2n_0 b : b2n b = 0 -> b = false.
  Proof. destruct b; [discriminate | reflexivity]. Qed.

  Lemma poll_bonus_pos s k n sC outsC :
    net_ok Sz Hh s -> NL n -> get_node s k = Some n -> n_calls n = [] -> (forall p, ~ busy (n_client n) p) ->
    node_idle n = false -> poll_nf Sz Hh s k n sC outsC -> 1 <= poll_bonus n sC.
  Proof.
    intros Hok (HQ & HC & HT & HS) Hg Hcalls Hbusy Hidle [Hrun HCC Hto _].
    destruct (Nat.eq_dec (poll_bonus n sC) 0) as [E0|]; [|lia]. exfalso.
    unfold poll_bonus in E0.
    assert (Eq : cs_queue (n_client n) = []) by (apply nonnil_0; lia).
    assert (Et : timer_ready (n_client n) = false) by (apply b2n_0; lia).
    assert (Ea : tasks_act (after_timer (n_client n)) = false) by (apply b2n_0; lia).
    assert (Enb : cs_new_blocks sC = []) by (apply nonnil_0; lia).
    assert (Ew : existsb (wants_work (cs_wl sC)) (cs_peers sC) = false) by (apply b2n_0; lia).
    assert (Er : s_ready (n_server n) = []) by (destruct (s_ready (n_server n)); [reflexivity | cbn [length] in E0; lia]).
    assert (Eo : s_outq (n_server n) = []) by (apply nonnil_0; lia).
    assert (Eat : after_timer (n_client n) = n_client n).
    { unfold after_timer. change (timer_ready (set_queue (n_client n) [])) with (timer_ready (n_client n)). rewrite Et, <- Eq. apply set_queue_same. }
    rewrite Eat in *. pose proof (tasks_run_quiet _ _ _ Hrun Ea) as EC. subst sC.
    destruct (after_tasks_frame (n_client n)) as (_ & Fw & Fp & _ & _ & _ & _ & Fn & _). rewrite Fw, Fp in Ew. rewrite Fn in Enb.
    (* the tasks *)
    destruct HQ as (Q1 & Q2 & Q3 & Q4 & Q5 & Q6).
    assert (Etasks : cs_tasks (n_client n) = []).
    { destruct (cs_tasks (n_client n)) as [|[tid t] ts] eqn:Ets; [reflexivity|]. exfalso.
      assert (Hin : In (tid, t) ((tid, t) :: ts)) by (left; reflexivity).
      destruct (needy t) eqn:En.
      - assert (tasks_act (n_client n) = true); [|congruence]. apply tasks_act_needy. exists tid, t. split; [apply (Q3 tid t Hin En)|]. split; [|exact En].
        rewrite Ets. apply (al_in_find _ Neqb_spec); assumption.
      - destruct HT as (_ & _ & H3). rewrite Ets in H3. destruct (H3 tid t Hin En) as (m & _ & Hm). rewrite Hcalls in Hm. destruct Hm. }
    assert (Eready : cs_ready (n_client n) = []).
    { destruct (cs_ready (n_client n)) as [|x r] eqn:Erd; [reflexivity|]. exfalso. specialize (Q5 x (or_introl eq_refl)). rewrite Etasks in Q5. destruct Q5. }
    (* the server's parked tasks *)
    pose proof (no_nodes Sz Hh s Hok k n Hg) as Hn. destruct (nk_sv _ _ _ _ _ Hn) as (_ & _ & Hp & _).
    assert (Eblocked : s_blocked (n_server n) = []).
    { destruct (s_blocked (n_server n)) as [|[k0 x] bl] eqn:Eb; [reflexivity|]. exfalso.
      destruct (HS Hp k0 x) as (c0 & Hc0); [rewrite Eb; left; reflexivity|]. rewrite Hcalls in Hc0. destruct Hc0. }
    (* the records *)
    assert (Hpeers : forallb (peer_idle (cs_wl (n_client n))) (cs_peers (n_client n)) = true).
    { apply forallb_forall. intros [p ps] Hin. destruct (peer_idle (cs_wl (n_client n)) (p, ps)) eqn:Ei; [reflexivity|]. exfalso.
      assert (Hw : wants_work (cs_wl (n_client n)) (p, ps) = true).
      { unfold wants_work. cbn [snd]. rewrite Ei. cbn [negb]. rewrite andb_true_r. destruct (p_ss ps) eqn:Ess; try reflexivity;
          exfalso; apply (Hbusy p); exists ps; (split; [exact Hin | congruence]). }
      assert (existsb (wants_work (cs_wl (n_client n))) (cs_peers (n_client n)) = true); [|congruence].
      apply existsb_exists. exists (p, ps). auto. }
    unfold node_idle, client_idle, server_idle in Hidle. rewrite Eq, Etasks, Eready, Enb, Et, Hpeers, Er, Eblocked, Eo, Hcalls in Hidle. discriminate.
  Qed.

  Lemma poll_other s i k : i <> k -> get_node (fst (nstep Sz Hh s (NPoll i))) k = get_node s k.
  Proof.
    intros Hne. cbn [nstep]. unfold do_poll. destruct (get_node s i) as [n|]; [|reflexivity].
    destruct (node_poll Sz n) as [n1 o]. destruct (fold_left (hand_over s i) (o_wants o) (n1, [])) as [n2 ws]. cbn [fst].
    unfold get_node. cbn [nodes]. apply nth_set_nth_neq. lia.
  Qed.

  Lemma polls_other ks k : ~ In k ks -> forall s, get_node (fst (nrun Sz Hh s (map NPoll ks))) k = get_node s k.
  Proof.
    induction ks as [|i ks IH]; intros Hn s; [reflexivity|]. cbn [map]. rewrite (nrun_cons Sz Hh). cbn [fst].
    rewrite IH by (intros H; apply Hn; right; exact H). apply poll_other. intros ->. apply Hn. left. reflexivity.
  Qed.

  Lemma seqN_In from n x : In x (seqN from n) <-> (from <= x < from + N.of_nat n)%N.
  Proof.
    revert from. induction n as [|n IH]; intros from; cbn [seqN In]; [lia|]. rewrite IH. lia.
  Qed.

  Lemma seqN_split from n k : k < n ->
    seqN from n = seqN from k ++ (from + N.of_nat k)%N :: seqN (from + N.of_nat k + 1)%N (n - k - 1).
  Proof.
    revert from n. induction k as [|k IH]; intros from n Hlt.
    - destruct n as [|n]; [lia|]. cbn [seqN app]. replace (from + N.of_nat 0)%N with from by lia. replace (S n - 0 - 1) with n by lia. reflexivity.
    - destruct n as [|n]; [lia|]. cbn [seqN app]. rewrite (IH (from + 1)%N n) by lia.
      replace (from + 1 + N.of_nat k)%N with (from + N.of_nat (S k))%N by lia. replace (S n - S k - 1) with (n - k - 1) by lia. reflexivity.
  Qed.

  Lemma polls_strict s k n :
    RI s -> wire_w s = [] -> get_node s k = Some n -> n_calls n = [] -> node_idle n = false ->
    Phi (fst (nrun Sz Hh s (polls_of s))) < Phi s.
  Proof.
    intros HR Hw Hg Hcalls Hidle. pose proof (get_node_lt s k n Hg) as Hlt.
    unfold polls_of. rewrite (seqN_split 0%N (length (nodes s)) (N.to_nat k) Hlt).
    replace (0 + N.of_nat (N.to_nat k))%N with k by lia. rewrite map_app. cbn [map]. rewrite (nrun_app Sz Hh). cbn [fst].
    assert (S1 : Forall sched (map NPoll (seqN 0 (N.to_nat k)))) by (apply Forall_forall; intros o Ho; apply in_map_iff in Ho; destruct Ho as (i & <- & _); exact I).
    destruct (Phi_run _ S1 s HR) as [HRa Ha]. set (sa := fst (nrun Sz Hh s (map NPoll (seqN 0 (N.to_nat k))))) in *.
    assert (Hga : get_node sa k = Some n).
    { unfold sa. rewrite polls_other; [exact Hg|]. intros Hin. apply seqN_In in Hin. lia. }
    rewrite (nrun_cons Sz Hh). cbn [fst].
    assert (S2 : Forall sched (map NPoll (seqN (k + 1) (length (nodes s) - N.to_nat k - 1)))) by (apply Forall_forall; intros o Ho; apply in_map_iff in Ho; destruct Ho as (i & <- & _); exact I).
    destruct (Phi_run _ S2 _ (RI_step sa (NPoll k) I HRa)) as [_ Hb].
    (* the poll of k *)
    destruct (Phi_poll Sz Hh HSz sa k n (proj1 HRa) (RI_INVT sa k n HRa Hga) Hga) as (sC & outsC & Hnf & Hp).
    assert (HNL : NL n) by (destruct HR as [_ [Hnl _]]; apply (Hnl k n Hg)).
    assert (Hbusy : forall p, ~ busy (n_client n) p).
    { intros p Hb0. destruct HR as [_ [_ HWL]]. destruct (HWL k n p Hg Hb0) as (m & Hm & _). rewrite Hw in Hm. destruct Hm. }
    pose proof (poll_bonus_pos sa k n sC outsC (proj1 HRa) HNL Hga Hcalls Hbusy Hidle Hnf) as Hpos.
    cbn [nstep] in *. lia.
  Qed.

  (* ---------- wires and calls only grow before their phase ---------- *)
  Lemma hand_over_calls s i L : forall acc, n_calls (fst (fold_left (hand_over s i) L acc)) = n_calls (fst acc).
  Proof.
    induction L as [|x L IH]; intros acc; cbn [fold_left]; [reflexivity|]. rewrite IH. destruct x as [[[p c] f] es]. unfold hand_over.
    destruct (Net.connected s i p); reflexivity.
  Qed.

  Lemma poll_grows s i :
    (exists l, wire_w (fst (nstep Sz Hh s (NPoll i))) = wire_w s ++ l) /\
    (exists l, wire_b (fst (nstep Sz Hh s (NPoll i))) = wire_b s ++ l) /\
    (forall k n, get_node s k = Some n -> exists n' l, get_node (fst (nstep Sz Hh s (NPoll i))) k = Some n' /\ n_calls n' = n_calls n ++ l).
  Proof.
    cbn [nstep]. unfold do_poll. destruct (get_node s i) as [n|] eqn:Hg.
    2:{ cbn [fst]. split; [exists []; rewrite app_nil_r; reflexivity|]. split; [exists []; rewrite app_nil_r; reflexivity|].
        intros k n Hk. exists n, []. rewrite app_nil_r. auto. }
    pose proof (hand_over_calls s i) as Hc. unfold node_poll in *.
    destruct (cstep (n_client n) (CPoll [])) as [c1 o1]. destruct (cstep c1 CTakeNewBlocks) as [c2 o2].
    destruct (srv Sz match cl_new_blocks o2 with [] => n_server n | _ :: _ => fst (srv Sz (n_server n) (SNewBlocks (cl_new_blocks o2))) end SPoll) as [s2 o3].
    match goal with |- context [fold_left (hand_over s i) ?L ?acc] => specialize (Hc L acc); destruct (fold_left (hand_over s i) L acc) as [n2 ws] end.
    cbn [fst snd n_calls] in *. split; [eexists; reflexivity|]. split; [eexists; reflexivity|].
    intros k nk Hk. unfold get_node. cbn [nodes]. destruct (N.eq_dec i k) as [<-|Hne].
    - rewrite nth_set_nth_eq by (eapply get_node_lt; exact Hg). rewrite Hg in Hk. injection Hk as <-. eexists n2, _. split; [reflexivity | exact Hc].
    - rewrite nth_set_nth_neq by lia. exists nk, []. rewrite app_nil_r. auto.
  Qed.

  Lemma polls_grow ks : forall s,
    let s' := fst (nrun Sz Hh s (map NPoll ks)) in
    (wire_w s <> [] -> wire_w s' <> []) /\ (wire_b s <> [] -> wire_b s' <> []) /\
    (forall k n, get_node s k = Some n -> n_calls n <> [] -> exists n', get_node s' k = Some n' /\ n_calls n' <> []).
  Proof.
    induction ks as [|i ks IH]; intros s; cbn zeta; [cbn; repeat split; auto; intros k n Hk Hn; eauto|].
    cbn [map]. rewrite (nrun_cons Sz Hh). cbn [fst]. destruct (poll_grows s i) as ((lw & Ew) & (lb & Eb) & Hc).
    destruct (IH (fst (nstep Sz Hh s (NPoll i)))) as (I1 & I2 & I3). cbn zeta in *. split; [|split].
    - intros H. apply I1. rewrite Ew. destruct (wire_w s); [congruence | discriminate].
    - intros H. apply I2. rewrite Eb. destruct (wire_b s); [congruence | discriminate].
    - intros k n Hk Hn. destruct (Hc k n Hk) as (n' & l & Hk' & El). apply (I3 k n' Hk'). rewrite El. destruct (n_calls n); [congruence | discriminate].
  Qed.

  Lemma store_wires s i k : wire_w (fst (nstep Sz Hh s (NStore i k))) = wire_w s /\ wire_b (fst (nstep Sz Hh s (NStore i k))) = wire_b s.
  Proof. cbn [nstep fst]. unfold on_node. destruct (get_node s i); auto. Qed.

  Lemma stores_wires ops : (forall o, In o ops -> exists i k, o = NStore i k) -> forall s,
    wire_w (fst (nrun Sz Hh s ops)) = wire_w s /\ wire_b (fst (nrun Sz Hh s ops)) = wire_b s.
  Proof.
    induction ops as [|o ops IH]; intros Ho s; [auto|]. rewrite (nrun_cons Sz Hh). cbn [fst].
    destruct (Ho o (or_introl eq_refl)) as (i & k & ->). destruct (store_wires s i k) as [E1 E2].
    destruct (IH (fun o' H => Ho o' (or_intror H)) (fst (nstep Sz Hh s (NStore i k)))) as [E3 E4]. split; congruence.
  Qed.

  Lemma stores_of_shape s o : In o (stores_of s) -> exists i k, o = NStore i k.
  Proof. unfold stores_of. intros Ho. apply in_flat_map in Ho. destruct Ho as ([i n] & _ & Ho). apply repeat_spec in Ho. eauto. Qed.

  (* ---------- the round ---------- *)
  Theorem round_decreases s :
    RI s -> quietb s = false -> RI (fst (round Sz Hh s)) /\ Phi (fst (round Sz Hh s)) < Phi s.
  Proof.
    intros HR Hq. unfold round.
    destruct (Phi_run _ (polls_sched s) s HR) as [HR1 H1]. pose proof (polls_grow (seqN 0 (length (nodes s))) s) as Hgrow. fold (polls_of s) in Hgrow. cbn zeta in Hgrow.
    pose proof (polls_strict s) as Hps.
    destruct (nrun Sz Hh s (polls_of s)) as [s1 e1]. cbn [fst] in *.
    destruct (Phi_run _ (stores_sched s1) s1 HR1) as [HR2 H2]. pose proof (stores_wires (stores_of s1) (stores_of_shape s1) s1) as [Ew2 Eb2].
    pose proof (stores_strict s1 HR1) as Hss.
    destruct (nrun Sz Hh s1 (stores_of s1)) as [s2 e2]. cbn [fst] in *.
    destruct (Phi_run _ (deliveries_sched s2) s2 HR2) as [HR3 H3]. pose proof (deliveries_strict s2 HR2) as Hds.
    destruct (nrun Sz Hh s2 (deliveries_of s2)) as [s3 e3]. cbn [fst] in *.
    split; [exact HR3|]. destruct Hgrow as (G1 & G2 & G3).
    destruct (wire_w s) as [|m r] eqn:Eww.
    2:{ assert (wire_w s2 <> []) by (rewrite Ew2; apply G1; discriminate). specialize (Hds (or_introl H)). lia. }
    destruct (wire_b s) as [|m r] eqn:Ewb.
    2:{ assert (wire_b s2 <> []) by (rewrite Eb2; apply G2; discriminate). specialize (Hds (or_intror H)). lia. }
    unfold quietb in Hq. rewrite Eww, Ewb in Hq. cbn [is_nil andb] in Hq.
    destruct (existsb (fun n => negb (is_nil (n_calls n))) (nodes s)) eqn:Ec.
    - apply existsb_exists in Ec. destruct Ec as (n & Hin & Hn). apply In_nth_error in Hin. destruct Hin as (idx & Hidx).
      assert (Hg : get_node s (N.of_nat idx) = Some n) by (unfold get_node; rewrite Nat2N.id; exact Hidx).
      assert (Hne : n_calls n <> []) by (destruct (n_calls n); [discriminate | discriminate]).
      destruct (G3 _ _ Hg Hne) as (n' & Hg' & Hne'). specialize (Hss (ex_intro _ _ (ex_intro _ n' (conj Hg' Hne')))). lia.
    - assert (Hall : forall n, In n (nodes s) -> n_calls n = []).
      { intros n Hin. destruct (n_calls n) eqn:E; [reflexivity|]. exfalso.
        assert (existsb (fun n => negb (is_nil (n_calls n))) (nodes s) = true); [|congruence]. apply existsb_exists. exists n. rewrite E. auto. }
      assert (Hex : exists n, In n (nodes s) /\ node_idle n = false).
      { clear -Hq. induction (nodes s) as [|n l IH]; [discriminate|]. cbn [forallb] in Hq. destruct (node_idle n) eqn:E.
        - destruct (IH Hq) as (n' & Hin & Hn'). exists n'. split; [right; exact Hin | exact Hn'].
        - exists n. split; [left; reflexivity | exact E]. }
      destruct Hex as (n & Hin & Hidle). apply In_nth_error in Hin. destruct Hin as (idx & Hidx).
      assert (Hg : get_node s (N.of_nat idx) = Some n) by (unfold get_node; rewrite Nat2N.id; exact Hidx).
      specialize (Hps (N.of_nat idx) n HR eq_refl Hg (Hall n (nth_error_In _ _ Hidx)) Hidle). lia.
  Qed.

  (* ---------- settle ---------- *)
  Theorem settle_loop_enough : forall fuel s, RI s -> Phi s <= fuel -> quietb (fst (settle_loop Sz Hh fuel s)) = true.
  Proof.
    induction fuel as [|f IH]; intros s HR Hle; cbn [settle_loop]; destruct (quietb s) eqn:Hq; try exact Hq.
    - destruct (round_decreases s HR Hq) as [_ H]. lia.
    - destruct (round_decreases s HR Hq) as [HR1 H]. destruct (round Sz Hh s) as [s1 e1]. cbn [fst] in *.
      specialize (IH s1 HR1 ltac:(lia)). destruct (settle_loop Sz Hh f s1) as [s2 e2]. exact IH.
  Qed.
End Round.
