(* Net_proofs27.v — package J, part 5: the potential `Phi` through the steps of the fair round.
   Every schedule step (NPoll, NStore, NDeliverW, NDeliverB) of a reachable net leaves `Phi` unchanged or lowers it; a store
   call that is completed, a message that is delivered and a poll of a node that has something to do lower it. *)
From BS Require Import Server_lemmas Server_inv Server_proofs Server_live Wantlist_proofs Client_proofs Client_proofs2
  Client_proofs3 Client_proofs4 Client_proofs8 Net Net_proofs2 Net_proofs3 Net_proofs4 Net_proofs5 Net_proofs6 Net_proofs7
  Net_proofs9 Net_proofs10 Net_proofs11 Net_proofs23 Net_proofs24 Net_proofs25 Net_proofs26.
From Coq Require Import ZArith ZifyBool ZifyN ZifyNat Lia.
Open Scope nat_scope.

Lemma sum_by_set_nth {A} (f : A -> nat) k x old : forall l,
  nth_error l k = Some old -> sum_by f (set_nth k x l) + f old = sum_by f l + f x.
Proof.
  induction k as [|k IH]; intros [|y l] H; cbn in H; try discriminate.
  - injection H as ->. cbn [set_nth]. rewrite !sum_by_cons. lia.
  - cbn [set_nth]. rewrite !sum_by_cons. specialize (IH l H). lia.
Qed.

Lemma take_first_sum {A} (f : A -> nat) (g : A -> bool) l x r : take_first g l = Some (x, r) -> sum_by f r + f x = sum_by f l.
Proof.
  revert r. induction l as [|y l IH]; intros r; cbn [take_first]; [discriminate|]. destruct (g y).
  - intros [= <- <-]. rewrite sum_by_cons. lia.
  - destruct (take_first g l) as [[x' r']|]; [|discriminate]. intros [= <- <-]. rewrite !sum_by_cons. specialize (IH r' eq_refl). lia.
Qed.

Lemma Phi_eq s : Phi s = sum_by node_phi (nodes s) + sum_by wmsg_w (wire_w s) + sum_by bmsg_w (wire_b s).
Proof. reflexivity. Qed.

Lemma cl_calls_length outs : length (cl_calls outs) = length (out_nums outs).
Proof. induction outs as [|o l IH]; [reflexivity|]. destruct o; cbn; rewrite ?IH; reflexivity. Qed.

Lemma sum_bmsg l : sum_by bmsg_w l = length l.
Proof. induction l as [|x l IH]; [reflexivity|]. rewrite sum_by_cons, IH. reflexivity. Qed.

Lemma node_phi_mk c sv st calls : node_phi (MkNode c sv st calls) = client_phi c + server_phi sv + length calls.
Proof. reflexivity. Qed.
Lemma node_phi_unfold n : node_phi n = client_phi (n_client n) + server_phi (n_server n) + length (n_calls n).
Proof. reflexivity. Qed.

Section Steps.
  Variables (Sz : N) (Hh : hash_fn).
  Hypothesis HSz : (32 <= Sz)%N.
  Local Notation G := (good Sz Hh).

  (* ---------- NStore ---------- *)
  Lemma phi_node_store n k :
    node_phi (node_store Sz n k) + (match nth_error (n_calls n) (N.to_nat k) with Some _ => 1 | None => 0 end) <= node_phi n.
  Proof.
    unfold node_store. destruct (nth_error (n_calls n) (N.to_nat k)) as [call|] eqn:En; [|lia].
    assert (Hlen : length (remove_nth (N.to_nat k) (n_calls n)) + 1 = length (n_calls n)).
    { clear -En. revert En. generalize (n_calls n) as l. induction (N.to_nat k) as [|m IH]; intros [|x l] H; cbn in *; try discriminate; [lia|].
      specialize (IH l H). lia. }
    unfold node_phi. destruct call as [m c|m bl|m c]; cbn [n_client n_server n_calls cstep fst].
    - pose proof (phi_release (n_client n) m (store_get (n_store n) c)). lia.
    - pose proof (phi_release (n_client n) m (SHit [])). lia.
    - assert (server_phi (fst (srv Sz (n_server n) (SRelease m (store_get (n_store n) c)))) <= server_phi (n_server n)).
      { unfold srv, sstep_l. destruct (s_panic (n_server n)); cbn [fst]; [lia | apply phi_release_srv]. }
      lia.
  Qed.

  (* ---------- the receiver of a wantlist ---------- *)
  Lemma phi_node_incoming_w n p sdh full es :
    node_phi (fst (node_incoming Sz Hh n p (wantlist_message sdh full es))) <= node_phi n + 1 + 3 * count_wants es.
  Proof.
    unfold node_incoming. rewrite process_wantlist_message. cbn [in_client in_server].
    destruct (full || negb (is_nil es)); cbn [fst]; unfold node_phi; cbn [n_client n_server n_calls]; [|lia].
    unfold srv, sstep_l. destruct (s_panic (n_server n)); cbn [fst]; [lia|].
    pose proof (phi_incoming_msg Sz (n_server n) p (proto_of sdh full es)
                  match full_collect Sz (w_entries (proto_of sdh full es)) [] with Some l => l | None => [] end) as H.
    rewrite cnt_wants_proto in H. lia.
  Qed.

  (* ---------- the receiver of a block batch ---------- *)
  Lemma phi_node_incoming_b n p bl :
    Forall G bl -> NoDup (map fst (cs_peers (n_client n))) ->
    node_phi (fst (node_incoming Sz Hh n p (blocks_message bl))) <= node_phi n.
  Proof.
    intros Hg Hnd. unfold node_incoming. rewrite (process_blocks_message Sz Hh bl Hg). cbn [in_client in_server].
    destruct bl as [|b bl]; cbn [fst]; [unfold node_phi; cbn [n_client n_server n_calls]; lia|].
    cbn [cm_presences cm_blocks map].
    pose proof (phi_incoming (n_client n) p (ins_all (b :: bl) []) Hnd) as H.
    destruct (cstep (n_client n) (CIncoming p [] (ins_all (b :: bl) []))) as [c1 o1] eqn:E. cbn [cstep] in E. rewrite E in H. cbn [fst] in *.
    unfold node_phi. cbn [n_client n_server n_calls]. lia.
  Qed.

  Lemma phi_node_report n p c r : node_phi (node_report n p c r) = node_phi n.
  Proof. unfold node_report, node_phi. cbn [n_client n_server n_calls cstep fst]. rewrite phi_report. reflexivity. Qed.

  (* ---------- NPoll ---------- *)
  Definition poll_bonus (n : node) (sC : cstate) : nat :=
    nonnil (cs_queue (n_client n)) + b2n (timer_ready (n_client n)) + b2n (tasks_act (after_timer (n_client n)))
    + nonnil (cs_new_blocks sC) + b2n (existsb (wants_work (cs_wl sC)) (cs_peers sC))
    + length (s_ready (n_server n)) + nonnil (s_outq (n_server n)).

  Lemma INVT_after_timer c : INVT c -> INVT (after_timer c).
  Proof. unfold after_timer. destruct (timer_ready (set_queue c [])); intros H; exact H. Qed.

  Lemma Phi_poll s i n :
    net_ok Sz Hh s -> INVT (n_client n) -> get_node s i = Some n ->
    exists sC outsC, poll_nf Sz Hh s i n sC outsC /\ Phi (fst (do_poll Sz s i)) + poll_bonus n sC <= Phi s.
  Proof.
    intros Hok HT Hg. destruct (do_poll_nf Sz Hh s i n Hok Hg) as (sC & outsC & Hnf). exists sC, outsC. split; [exact Hnf|].
    destruct Hnf as [Hrun HCC Hto Heq]. cbn zeta in Heq. rewrite Heq. cbn [fst].
    rewrite !Phi_eq. cbn [nodes wire_w wire_b]. rewrite !sum_by_app.
    match goal with |- context [set_nth (N.to_nat i) ?x (nodes s)] =>
      pose proof (sum_by_set_nth node_phi (N.to_nat i) x n (nodes s) Hg) as Hset end.
    rewrite node_phi_mk in Hset. rewrite (node_phi_unfold n) in Hset. rewrite !app_length, cl_calls_length in Hset.
    (* client *)
    pose proof (phi_after_timer (n_client n)) as H1.
    pose proof (phi_tasks_run _ _ _ Hrun (INVT_after_timer _ HT)) as H2.
    destruct (after_timer_props (n_client n)) as (_ & HtB & _). destruct (tasks_run_frame _ _ _ Hrun) as (_ & F2 & F3 & _).
    assert (HtC : timer_ready sC = false) by (unfold timer_ready in *; rewrite F2, F3; exact HtB).
    pose proof (phi_fin i (now s) sC (ck_wl _ _ HCC) (ck_peers _ _ HCC) HtC) as H3.
    (* server *)
    pose proof (phi_srv_poll (n_server n) (cs_new_blocks sC)) as H4.
    rewrite (sum_bmsg (map _ _)), map_length.
    unfold poll_bonus. rewrite !sum_bmsg.
    clear Heq. set (X7 := length (sv_blocks _)) in H4.
    match goal with |- context [@length ?T (filter ?f ?l)] => assert (H5 : @length T (filter f l) <= X7) by (unfold X7; apply filter_length_le) end.
    lia.
  Qed.

  (* ---------- the steps of the net ---------- *)
  Lemma get_nth s i n : get_node s i = Some n -> nth_error (nodes s) (N.to_nat i) = Some n.
  Proof. intros H. exact H. Qed.

  Lemma Phi_set_node s i n n' : get_node s i = Some n -> Phi (set_node s i n') + node_phi n = Phi s + node_phi n'.
  Proof.
    intros Hg. rewrite !Phi_eq. cbn [set_node nodes wire_w wire_b]. pose proof (sum_by_set_nth node_phi (N.to_nat i) n' n (nodes s) Hg). lia.
  Qed.

  Lemma Phi_on_node_le s i f k :
    (forall n, get_node s i = Some n -> node_phi (f n) + k n <= node_phi n) ->
    Phi (on_node s i f) + (match get_node s i with Some n => k n | None => 0 end) <= Phi s.
  Proof.
    intros H. unfold on_node. destruct (get_node s i) as [n|] eqn:Hg; [|lia].
    pose proof (Phi_set_node s i n (f n) Hg). specialize (H n eq_refl). lia.
  Qed.

  Lemma Phi_store s i k :
    Phi (fst (nstep Sz Hh s (NStore i k)))
    + (match get_node s i with Some n => match nth_error (n_calls n) (N.to_nat k) with Some _ => 1 | None => 0 end | None => 0 end) <= Phi s.
  Proof.
    cbn [nstep fst]. apply (Phi_on_node_le s i (fun n => node_store Sz n k)
      (fun n => match nth_error (n_calls n) (N.to_nat k) with Some _ => 1 | None => 0 end)).
    intros n _. apply phi_node_store.
  Qed.

  Lemma Phi_deliver_w s i j :
    Phi (fst (nstep Sz Hh s (NDeliverW i j))) + (match take_first (w_between i j) (wire_w s) with Some _ => 1 | None => 0 end) <= Phi s.
  Proof.
    cbn [nstep fst]. unfold do_deliver_w. destruct (take_first (w_between i j) (wire_w s)) as [[m rest]|] eqn:Et; [|cbn [fst]; lia].
    pose proof (take_first_sum wmsg_w _ _ _ _ Et) as Hw. unfold wmsg_w at 2 in Hw.
    set (s0 := MkNet (nodes s) (conns s) rest (wire_b s) (now s)).
    assert (H0 : Phi s0 + (wMSG + wWANT * count_wants (wm_entries m)) = Phi s) by (rewrite !Phi_eq; cbn [s0 nodes wire_w wire_b]; lia).
    unfold wMSG, wWANT in H0.
    destruct (get_node s0 i) as [ni|] eqn:Ei; [|cbn [fst]; lia]. destruct (get_node s0 j) as [nj|] eqn:Ej; [|cbn [fst]; lia].
    pose proof (phi_node_incoming_w nj i (wl_sdh (cs_wl (n_client ni))) (wm_full m) (wm_entries m)) as Hj.
    destruct (node_incoming Sz Hh nj i (wantlist_message (wl_sdh (cs_wl (n_client ni))) (wm_full m) (wm_entries m))) as [nj1 evs]. cbn [fst] in *.
    pose proof (Phi_set_node s0 j nj nj1 Ej) as H1.
    pose proof (Phi_on_node_le (set_node s0 j nj1) i (fun n => node_report n j CONN RpReady) (fun _ => 0)
                  ltac:(intros n _; cbn beta; rewrite phi_node_report; lia)) as H2.
    destruct (get_node (set_node s0 j nj1) i); lia.
  Qed.

  Lemma Phi_deliver_b s j i :
    net_ok Sz Hh s ->
    Phi (fst (nstep Sz Hh s (NDeliverB j i))) + (match take_first (b_between j i) (wire_b s) with Some _ => 1 | None => 0 end) <= Phi s.
  Proof.
    intros Hok. cbn [nstep fst]. unfold do_deliver_b. destruct (take_first (b_between j i) (wire_b s)) as [[m rest]|] eqn:Et; [|cbn [fst]; lia].
    pose proof (take_first_sum bmsg_w _ _ _ _ Et) as Hw. unfold bmsg_w at 2 in Hw.
    destruct (take_first_spec _ _ _ _ Et) as (Hm & _). pose proof (no_wire_b Sz Hh s Hok m Hm) as Hg.
    destruct (get_node s i) as [ni|] eqn:Ei.
    - pose proof (phi_node_incoming_b ni j (bm_blocks m) Hg (ck_keys _ _ (nk_ck _ _ _ _ _ (no_nodes Sz Hh s Hok i ni Ei)))) as Hi.
      destruct (node_incoming Sz Hh ni j (blocks_message (bm_blocks m))) as [ni1 evs]. cbn [fst] in *.
      rewrite !Phi_eq. cbn [nodes wire_w wire_b]. pose proof (sum_by_set_nth node_phi (N.to_nat i) ni1 ni (nodes s) Ei). lia.
    - cbn [fst]. rewrite !Phi_eq. cbn [nodes wire_w wire_b]. lia.
  Qed.
End Steps.
