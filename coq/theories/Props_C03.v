(* Props_C03.v — C03: each query gets at most one outcome, and the right one (model: Client.v = ClientBehaviour as lib.rs drives it; ops = arbitrary lists of get / cancel / connection / incoming message / report / store completion / clock / poll).
   Statements restated verbatim from the proof files and closed by `exact`; nothing else is proved here. *)
From BS Require Import Bytes Cid Proto Types Wantlist Client Client_proofs Client_proofs2 Client_proofs3 Client_proofs4 Client_proofs5 Client_proofs6.
Open Scope N_scope.

Theorem C03_fresh_ids sdh ops1 oc :
  snd (cstep (snd (crun_sdh sdh ops1)) (CGet oc)) = [OQuery (count_gets ops1)].
Proof. exact (Client_proofs.C03_fresh_ids sdh ops1 oc). Qed.

Theorem C03_at_most_one_event sdh ops :
  NoDup (out_qids (all_outs (fst (crun_sdh sdh ops)))).
Proof. exact (Client_proofs.C03_at_most_one_event sdh ops). Qed.

Theorem C03_no_foreign_ids sdh ops q :
  In q (out_qids (all_outs (fst (crun_sdh sdh ops)))) -> q < count_gets ops.
Proof. exact (Client_proofs.C03_no_foreign_ids sdh ops q). Qed.

Theorem C03_cancel_silences sdh ops1 q ops2 :
  q < count_gets ops1 ->
  ~ In q (out_qids (outs_after sdh ops1)) ->
  ~ In q (queue_qids (cs_queue (st_after sdh ops1))) ->
  ~ In q (out_qids (outs_after sdh (ops1 ++ [CCancel q] ++ ops2))).
Proof. exact (Client_proofs6.C03_cancel_silences sdh ops1 q ops2). Qed.

Theorem C03_local_hit_no_want sdh ops ch q c d tid t ops' :
  let s := st_after sdh ops in
  In tid (cs_ready s) -> al_find N.eqb tid (cs_tasks s) = Some t -> done_lookup q c (SHit d) t ->
  In (OResponse q d) (snd (c_poll s ch)) /\
  (forall o, In o (outs_after sdh (ops ++ [CPoll ch] ++ ops')) -> In q (out_qid o) -> o = OResponse q d) /\
  ~ In q (c2q_qids (cs_c2q (st_after sdh (ops ++ [CPoll ch] ++ ops')))).
Proof. exact (Client_proofs6.C03_local_hit_no_want sdh ops ch q c d tid t ops'). Qed.

Theorem C03_errors_store sdh ops ch q c tid t ops' :
  let s := st_after sdh ops in
  In tid (cs_ready s) -> al_find N.eqb tid (cs_tasks s) = Some t -> done_lookup q c SFail t ->
  In (OError q 1) (snd (c_poll s ch)) /\
  (forall o, In o (outs_after sdh (ops ++ [CPoll ch] ++ ops')) -> In q (out_qid o) -> o = OError q 1).
Proof. exact (Client_proofs6.C03_errors_store sdh ops ch q c tid t ops'). Qed.

Theorem C03_errors_invalid sdh ops1 ops2 ch :
  let q := count_gets ops1 in
  let ops := ops1 ++ [CGet None] ++ ops2 ++ [CPoll ch] in
  In (OError q 0) (outs_after sdh ops) /\
  forall o, In o (outs_after sdh ops) -> In q (out_qid o) -> o = OError q 0.
Proof. exact (Client_proofs6.C03_errors_invalid sdh ops1 ops2 ch). Qed.

Theorem C19_get_unconvertible sdh ops1 ops2 ch :
  let q := count_gets ops1 in
  let ops := ops1 ++ [CGet None] ++ ops2 ++ [CPoll ch] in
  In (OError q 0) (outs_after sdh ops) /\
  forall o, In o (outs_after sdh ops) -> In q (out_qid o) -> o = OError q 0.
Proof. exact (Client_proofs6.C03_errors_invalid sdh ops1 ops2 ch). Qed.

Theorem C08_client_no_panic sdh ops :
  ~ In OPanic (all_outs (fst (crun_sdh sdh ops))).
Proof. exact (Client_proofs.C08_client_no_panic sdh ops). Qed.

Theorem crun_never_out_of_fuel sdh ops :
  ~ In OOutOfFuel (outs_after sdh ops).
Proof. exact (Client_proofs4.crun_never_out_of_fuel sdh ops). Qed.

Print Assumptions C03_fresh_ids.
Print Assumptions C03_at_most_one_event.
Print Assumptions C03_no_foreign_ids.
Print Assumptions C03_cancel_silences.
Print Assumptions C03_local_hit_no_want.
Print Assumptions C03_errors_store.
Print Assumptions C03_errors_invalid.
Print Assumptions C19_get_unconvertible.
Print Assumptions C08_client_no_panic.
Print Assumptions crun_never_out_of_fuel.
