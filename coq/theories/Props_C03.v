(* Props_C03.v — C03: each query gets at most one outcome, and the right one (model: Client.v = ClientBehaviour as lib.rs drives it; ops = arbitrary lists of get / cancel / connection / incoming message / report / store completion / clock / poll).
   Statements restated verbatim from the proof files and closed by `exact`; nothing else is proved here. *)
From BS Require Import Bytes Cid Proto Types Wantlist Client Client_proofs Client_proofs2 Client_proofs3 Client_proofs4 Client_proofs5 Client_proofs6.
From BS Require Import Tie_clienttask.  (* tie: Client.handle_task_result IS the interpretation of the extracted arms of `match task_result` in ClientBehaviour::poll *)
Open Scope N_scope.

Theorem C03_fresh_ids sdh ops1 oc :
  snd (cstep (snd (crun_sdh sdh ops1)) (CGet oc)) = [OQuery (count_gets ops1)].
Proof. exact (Client_proofs.C03_fresh_ids sdh ops1 oc). Qed.

Theorem C03_at_most_one_event sdh ops :
  NoDup (out_qids (all_outs (fst (crun_sdh sdh ops)))).
Proof. exact (Client_proofs.C03_at_most_one_event sdh ops). Qed.

Theorem C03_no_foreign_ids sdh ops q :
  In q (out_qids (all_outs (fst (crun_sdh sdh ops)))) -> q < count_gets ops.
Proof. exact (Client_proofs.C03_no_foreign_ids sdh ops q). Qed.

Theorem C03_cancel_silences sdh ops1 q ops2 :
  q < count_gets ops1 ->
  ~ In q (out_qids (outs_after sdh ops1)) ->
  ~ In q (queue_qids (cs_queue (st_after sdh ops1))) ->
  ~ In q (out_qids (outs_after sdh (ops1 ++ [CCancel q] ++ ops2))).
Proof. exact (Client_proofs6.C03_cancel_silences sdh ops1 q ops2). Qed.

Theorem C03_local_hit_no_want sdh ops ch q c d tid t ops' :
  let s := st_after sdh ops in
  In tid (cs_ready s) -> al_find N.eqb tid (cs_tasks s) = Some t -> done_lookup q c (SHit d) t ->
  In (OResponse q d) (snd (c_poll s ch)) /\
  (forall o, In o (outs_after sdh (ops ++ [CPoll ch] ++ ops')) -> In q (out_qid o) -> o = OResponse q d) /\
  ~ In q (c2q_qids (cs_c2q (st_after sdh (ops ++ [CPoll ch] ++ ops')))).
Proof. exact (Client_proofs6.C03_local_hit_no_want sdh ops ch q c d tid t ops'). Qed.

Theorem C03_errors_store sdh ops ch q c tid t ops' :
  let s := st_after sdh ops in
  In tid (cs_ready s) -> al_find N.eqb tid (cs_tasks s) = Some t -> done_lookup q c SFail t ->
  In (OError q 1) (snd (c_poll s ch)) /\
  (forall o, In o (outs_after sdh (ops ++ [CPoll ch] ++ ops')) -> In q (out_qid o) -> o = OError q 1).
Proof. exact (Client_proofs6.C03_errors_store sdh ops ch q c tid t ops'). Qed.

Theorem C03_errors_invalid sdh ops1 ops2 ch :
  let q := count_gets ops1 in
  let ops := ops1 ++ [CGet None] ++ ops2 ++ [CPoll ch] in
  In (OError q 0) (outs_after sdh ops) /\
  forall o, In o (outs_after sdh ops) -> In q (out_qid o) -> o = OError q 0.
Proof. exact (Client_proofs6.C03_errors_invalid sdh ops1 ops2 ch). Qed.

Theorem C19_get_unconvertible sdh ops1 ops2 ch :
  let q := count_gets ops1 in
  let ops := ops1 ++ [CGet None] ++ ops2 ++ [CPoll ch] in
  In (OError q 0) (outs_after sdh ops) /\
  forall o, In o (outs_after sdh ops) -> In q (out_qid o) -> o = OError q 0.
Proof. exact (Client_proofs6.C03_errors_invalid sdh ops1 ops2 ch). Qed.

Theorem C08_client_no_panic sdh ops :
  ~ In OPanic (all_outs (fst (crun_sdh sdh ops))).
Proof. exact (Client_proofs.C08_client_no_panic sdh ops). Qed.

Theorem crun_never_out_of_fuel sdh ops :
  ~ In OOutOfFuel (outs_after sdh ops).
Proof. exact (Client_proofs4.crun_never_out_of_fuel sdh ops). Qed.

Print Assumptions C03_fresh_ids.
Print Assumptions C03_at_most_one_event.
Print Assumptions C03_no_foreign_ids.
Print Assumptions C03_cancel_silences.
Print Assumptions C03_local_hit_no_want.
Print Assumptions C03_errors_store.
Print Assumptions C03_errors_invalid.
Print Assumptions C19_get_unconvertible.
Print Assumptions C08_client_no_panic.
Print Assumptions crun_never_out_of_fuel.

(* ---- lifted to networks (package K, Net_proofs40/41): in EVERY run of a net (any op list, no hypotheses) the client half of
   every node is Client.v run on the ops the net delivered to it (`cops_run`, exact ghost) and the node's events are that
   client's outputs; hence: no two events for one (node, query id), every event's id was issued by an NGet of that node, a
   query cancelled before its answer reached the node never has an event, an unconvertible CID yields exactly one error. *)
From BS Require Import Types Wantlist Wantlist_proofs2 Client Client_proofs Client_proofs4 Net Net_proofs Net_proofs6 Net_props Net_proofs2 Net_proofs5 Net_proofs21 Net_proofs40 Net_proofs41 Net_proofs42 Net_proofs43 Net_proofs44 Net_proofs45 Net_proofs46 Net_proofs47 Server Net_props4.
From Coq Require Import ZArith Lia.
Open Scope N_scope.

Theorem net_client_ghost :
  forall (Sz : N) (Hh : hash_fn) (n : nat) (ops : list nop) (i : N) (ni : node),
  get_node (fst (nrun Sz Hh (net_init n) ops)) i = Some ni ->
  n_client ni = st_after true (cops_run Sz Hh (net_init n) ops i).
Proof. exact (@Net_props4.net_client_ghost). Qed.

Theorem net_client_events :
  forall (Sz : N) (Hh : hash_fn) (n : nat) (ops : list nop) (i : N),
  (N.to_nat i < n)%nat ->
  node_evs i (snd (nrun Sz Hh (net_init n) ops)) =
  out_evs (outs_after true (cops_run Sz Hh (net_init n) ops i)).
Proof. exact (@Net_props4.net_client_events). Qed.

Theorem C03_net_one_outcome :
  forall (Sz : N) (Hh : hash_fn) (n : nat) (ops : list nop),
  let evs := snd (nrun Sz Hh (net_init n) ops) in
  NoDup (ev_keys evs) /\
  (forall (i : N) (q : qid), In (i, q) (ev_keys evs) -> (N.to_nat i < n)%nat /\ q < count_ngets i ops) /\
  (forall (ops1 : list nop) (i : N) (q : qid) (ops2 : list nop),
   ops = ops1 ++ NCancel i q :: ops2 ->
   q < count_ngets i ops1 ->
   ~ In (i, q) (ev_keys (snd (nrun Sz Hh (net_init n) ops1))) ->
   (forall ni : node,
    get_node (fst (nrun Sz Hh (net_init n) ops1)) i = Some ni -> ~ In q (queue_qids (cs_queue (n_client ni)))) ->
   ~ In (i, q) (ev_keys evs)).
Proof. exact (@Net_props4.C03_net_one_outcome). Qed.

Theorem C03_net_cancel_after_poll :
  forall (Sz : N) (Hh : hash_fn) (n : nat) (ops0 : list nop) (i q : N) (ops2 : list nop),
  q < count_ngets i ops0 ->
  ~ In (i, q) (ev_keys (snd (nrun Sz Hh (net_init n) (ops0 ++ [NPoll i])))) ->
  ~ In (i, q) (ev_keys (snd (nrun Sz Hh (net_init n) ((ops0 ++ [NPoll i]) ++ NCancel i q :: ops2)))).
Proof. exact (@Net_props4.C03_net_cancel_after_poll). Qed.

Theorem C03_net_errors_invalid :
  forall (Sz : N) (Hh : hash_fn) (n : nat) (ops1 : list nop) (i : N) (c : cid) (ops2 : list nop),
  (N.to_nat i < n)%nat ->
  convert_cid Sz c = None ->
  let q := count_ngets i ops1 in
  let evs := snd (nrun Sz Hh (net_init n) (ops1 ++ NGet i c :: ops2 ++ [NPoll i])) in
  In (EError i q 0) evs /\ (forall e : nevent, In e evs -> In (i, q) (nev_key e) -> e = EError i q 0).
Proof. exact (@Net_props4.C03_net_errors_invalid). Qed.

Print Assumptions net_client_ghost.
Print Assumptions net_client_events.
Print Assumptions C03_net_one_outcome.
Print Assumptions C03_net_cancel_after_poll.
Print Assumptions C03_net_errors_invalid.
