(* Props_C18.v — C18: custom multihashers are consulted in the documented order. *)
From BS Require Import Bytes Cid Prefix Hasher Hasher_proofs Proto Incoming Incoming_proofs.
Open Scope N_scope.

(* hs is the list of hashers in REGISTRATION order (any length, not just four). If every hasher
   registered after h answers unknown-code and h does not, the table answers with h's answer, having
   consulted exactly those newer hashers and h. *)
Theorem C18_precedence : forall S raw older h newer code data,
  Forall (fun g => answers_unknown g code data) newer -> ~ answers_unknown h code data ->
  table_hash (build_table S raw (older ++ h :: newer)) code data = h code data /\
  snd (table_hash_consulted (build_table S raw (older ++ h :: newer)) code data) = len newer + 1.
Proof. exact precedence. Qed.

(* the built-in table is consulted last *)
Theorem C18_standard_last : forall S raw hs code data,
  Forall (fun g => answers_unknown g code data) hs ->
  table_hash (build_table S raw hs) code data = std_hasher S raw code data.
Proof. exact standard_last. Qed.

(* unknown-code from the table exactly when every hasher (built-in included) says unknown-code *)
Theorem C18_unknown_iff_all_unknown : forall t code data,
  table_hash t code data = HErr UnknownMultihashCode <-> Forall (fun g => answers_unknown g code data) t.
Proof. exact table_unknown_iff. Qed.

(* error contract at the message level: unknown code / custom error skip only that block (the message
   is processed as if the block were not there); the classification of fatal errors is C16 *)
Theorem C18_nonfatal_skips_block : forall S H m,
  process_message S H (without_skippable S H m) = process_message S H m.
Proof. exact good_elements_survive. Qed.

Theorem C18_fatal_closes_stream : forall S H m pre b post,
  Forall (fun x => exists c, cid_read_bytes S (bp_cid x) = Cid.ROk c) (m_presences m) ->
  m_payload m = pre ++ b :: post -> classify S H b = BFatal ->
  Forall (fun x => classify S H x <> BPanic /\ classify S H x <> BFatal) pre ->
  process_message S H m = PmClose.
Proof. exact process_fatal_block. Qed.

(* a CID produced by a registered hasher is accepted exactly like a built-in one: process_message only
   looks at the table's answer (C01: the accepted CID is the one rebuilt from prefix + table answer) *)
Theorem C18_custom_cid_accepted : forall S H m inc cm c d,
  process_message S H m = PmOk inc -> in_client inc = Some cm -> In (c, d) (cm_blocks cm) ->
  rebuilt S H (m_payload m) c d.
Proof. exact process_blocks_rebuilt. Qed.

Check C18_precedence : forall S raw older h newer code data,
  Forall (fun g => answers_unknown g code data) newer -> ~ answers_unknown h code data ->
  table_hash (build_table S raw (older ++ h :: newer)) code data = h code data /\
  snd (table_hash_consulted (build_table S raw (older ++ h :: newer)) code data) = len newer + 1.

(* non-vacuity: three hashers, the middle one answers *)
Definition h_unknown : hasher := fun _ _ => HErr UnknownMultihashCode.
Definition h_answer : hasher := fun code _ => HOk (MkMh code [1; 2; 3]).
Example ex_precedence :
  table_hash (build_table 64 (fun _ _ => None) [h_unknown; h_answer; h_unknown]) 7 [] = HOk (MkMh 7 [1; 2; 3])
  /\ snd (table_hash_consulted (build_table 64 (fun _ _ => None) [h_unknown; h_answer; h_unknown]) 7 []) = 2.
Proof. split; vm_compute; reflexivity. Qed.

Print Assumptions C18_precedence.
Print Assumptions C18_standard_last.
Print Assumptions C18_unknown_iff_all_unknown.
Print Assumptions C18_nonfatal_skips_block.
Print Assumptions C18_fatal_closes_stream.
Print Assumptions C18_custom_cid_accepted.
