(* Bytes.v — byte strings and small list utilities shared by every model. *)
From Coq Require Export List NArith Bool Lia.
From Coq Require Import ZArith ZifyBool ZifyN ZifyNat.
Export ListNotations.
Open Scope N_scope.

Arguments N.add : simpl never.
Arguments N.sub : simpl never.
Arguments N.mul : simpl never.
Arguments N.div : simpl never.
Arguments N.modulo : simpl never.
Arguments N.pow : simpl never.
Arguments N.eqb : simpl never.
Arguments N.ltb : simpl never.
Arguments N.leb : simpl never.

Ltac Zify.zify_post_hook ::= Z.div_mod_to_equations.

Definition byte := N.
Definition bytes := list N.

Definition is_byte (b : N) : bool := b <? 256.
Definition wf_bytes (bs : bytes) : Prop := Forall (fun b => b < 256) bs.
Definition wf_bytesb (bs : bytes) : bool := forallb is_byte bs.

Lemma wf_bytesb_spec bs : wf_bytesb bs = true <-> wf_bytes bs.
Proof.
  unfold wf_bytesb, wf_bytes, is_byte. rewrite forallb_forall, Forall_forall.
  split; intros H x Hx; specialize (H x Hx); lia.
Qed.

Lemma wf_bytes_app a b : wf_bytes (a ++ b) <-> wf_bytes a /\ wf_bytes b.
Proof. unfold wf_bytes. apply Forall_app. Qed.

(* length as N *)
Definition len {A} (l : list A) : N := N.of_nat (length l).

Lemma len_nil {A} : len (@nil A) = 0.
Proof. reflexivity. Qed.

Lemma len_cons {A} (x : A) l : len (x :: l) = len l + 1.
Proof. unfold len. cbn [length]. lia. Qed.

Lemma len_app {A} (a b : list A) : len (a ++ b) = len a + len b.
Proof. unfold len. rewrite app_length. lia. Qed.

(* equality on byte strings *)
Fixpoint bytes_eqb (a b : bytes) : bool :=
  match a, b with
  | [], [] => true
  | x :: a', y :: b' => (x =? y) && bytes_eqb a' b'
  | _, _ => false
  end.

Lemma bytes_eqb_spec a b : bytes_eqb a b = true <-> a = b.
Proof.
  revert b; induction a as [|x a IH]; intros [|y b]; cbn [bytes_eqb]; try (split; congruence).
  rewrite andb_true_iff, IH, N.eqb_eq. split; [intros [-> ->]; reflexivity | intros [= -> ->]; auto].
Qed.

Lemma bytes_eqb_refl a : bytes_eqb a a = true.
Proof. apply bytes_eqb_spec; reflexivity. Qed.

(* generic list equality from an element equality *)
Fixpoint list_eqb {A} (eqb : A -> A -> bool) (a b : list A) : bool :=
  match a, b with
  | [], [] => true
  | x :: a', y :: b' => eqb x y && list_eqb eqb a' b'
  | _, _ => false
  end.

Lemma list_eqb_spec {A} (eqb : A -> A -> bool) :
  (forall x y, eqb x y = true <-> x = y) ->
  forall a b, list_eqb eqb a b = true <-> a = b.
Proof.
  intros Heq a; induction a as [|x a IH]; intros [|y b]; cbn [list_eqb]; try (split; congruence).
  rewrite andb_true_iff, IH, Heq. split; [intros [-> ->]; reflexivity | intros [= -> ->]; auto].
Qed.

Definition option_eqb {A} (eqb : A -> A -> bool) (a b : option A) : bool :=
  match a, b with
  | None, None => true
  | Some x, Some y => eqb x y
  | _, _ => false
  end.

Lemma option_eqb_spec {A} (eqb : A -> A -> bool) :
  (forall x y, eqb x y = true <-> x = y) ->
  forall a b, option_eqb eqb a b = true <-> a = b.
Proof.
  intros Heq [x|] [y|]; cbn; try (split; congruence).
  rewrite Heq. split; congruence.
Qed.

(* indices of the elements of a list that fail a test: used by the correspondence runs *)
Fixpoint bad_indices_from {A} (i : N) (f : A -> bool) (l : list A) : list N :=
  match l with
  | [] => []
  | x :: l' => if f x then bad_indices_from (i + 1) f l' else i :: bad_indices_from (i + 1) f l'
  end.
Definition bad_indices {A} (f : A -> bool) (l : list A) : list N := bad_indices_from 0 f l.

Fixpoint count_true {A} (f : A -> bool) (l : list A) : N :=
  match l with
  | [] => 0
  | x :: l' => (if f x then 1 else 0) + count_true f l'
  end.
