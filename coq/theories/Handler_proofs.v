(* Handler_proofs.v — lemmas and theorems about FramedWrite.v and Handler.v. *)
From BS Require Import Handler.
From Coq Require Import ZArith ZifyBool ZifyN ZifyNat Lia.

(* ------------------------------------------------------------------------------------------------ *)
(* FramedWrite lemmas                                                                               *)
(* ------------------------------------------------------------------------------------------------ *)

Lemma splitN_app {A} (k : N) (l a b : list A) : splitN k l = (a, b) -> l = a ++ b.
Proof.
  revert k a b; induction l as [|x l IH]; intros k a b H; cbn [splitN] in H.
  - inversion H; reflexivity.
  - destruct (k =? 0).
    + inversion H; reflexivity.
    + destruct (splitN (k - 1) l) as [a' b'] eqn:E. inversion H; subst. cbn. f_equal. eapply IH; eauto.
Qed.

Lemma splitN_len {A} (k : N) (l a b : list A) : splitN k l = (a, b) -> len a = N.min k (len l).
Proof.
  revert k a b; induction l as [|x l IH]; intros k a b H; cbn [splitN] in H.
  - inversion H; subst. rewrite !len_nil. lia.
  - destruct (k =? 0) eqn:K.
    + inversion H; subst. rewrite len_nil. lia.
    + destruct (splitN (k - 1) l) as [a' b'] eqn:E. inversion H; subst.
      rewrite !len_cons. rewrite (IH _ _ _ E). lia.
Qed.

(* bytes the stream recorded as accepted *)
Fixpoint wrote_of (evs : list sev) : bytes :=
  match evs with
  | [] => []
  | SevWrote bs :: e => bs ++ wrote_of e
  | SevClosed :: e => wrote_of e
  end.

Lemma wrote_of_app a b : wrote_of (a ++ b) = wrote_of a ++ wrote_of b.
Proof. induction a as [|[bs|] a IH]; cbn; rewrite ?IH, ?app_assoc; reflexivity. Qed.

Lemma fw_write1_some buf x w rest : fw_write1 buf x = Some (Some (w, rest)) -> buf = w ++ rest /\ w <> [].
Proof.
  destruct x; cbn; try discriminate.
  destruct (N.min n (len buf) =? 0) eqn:K; [discriminate|].
  intros [= H]. split; [eapply splitN_app; eauto|].
  apply splitN_len in H. intros ->. rewrite len_nil in H. lia.
Qed.

(* no byte is lost or invented by poll_flush: accepted ++ still buffered = buffered before *)
Lemma fw_poll_flush_conserve script : forall buf,
  wrote_of (fr_evs (fw_poll_flush buf script)) ++ fr_buf (fw_poll_flush buf script) = buf.
Proof.
  induction script as [|x s IH]; intros buf; destruct buf as [|b buf]; cbn [fw_poll_flush]; try reflexivity.
  - destruct (io_flush (x :: s)) as [r s']. reflexivity.
  - destruct (fw_write1 (b :: buf) x) as [[[w rest]|]|] eqn:E; try reflexivity.
    apply fw_write1_some in E as [-> _]. cbn. rewrite <- app_assoc, IH. reflexivity.
Qed.

Lemma fw_poll_flush_ok script : forall buf,
  fr_res (fw_poll_flush buf script) = PrOk -> fr_buf (fw_poll_flush buf script) = [].
Proof.
  induction script as [|x s IH]; intros buf; destruct buf as [|b buf]; cbn [fw_poll_flush]; try discriminate.
  - destruct (io_flush (x :: s)) as [r s']. reflexivity.
  - destruct (fw_write1 (b :: buf) x) as [[[w rest]|]|] eqn:E; try discriminate. cbn. apply IH.
Qed.

Lemma fw_poll_flush_no_close script : forall buf, ~ In SevClosed (fr_evs (fw_poll_flush buf script)).
Proof.
  induction script as [|x s IH]; intros buf; destruct buf as [|b buf]; cbn [fw_poll_flush]; try (cbn; tauto).
  - destruct (io_flush (x :: s)) as [r s']. cbn; tauto.
  - destruct (fw_write1 (b :: buf) x) as [[[w rest]|]|] eqn:E; try (cbn; tauto).
    cbn. intros [H|H]; [discriminate|]. eapply IH; eauto.
Qed.

Lemma fw_poll_ready_conserve script : forall buf,
  wrote_of (fr_evs (fw_poll_ready buf script)) ++ fr_buf (fw_poll_ready buf script) = buf.
Proof.
  induction script as [|x s IH]; intros buf; cbn [fw_poll_ready]; destruct (len buf <? HIGH_WATER_MARK); try reflexivity.
  destruct (fw_write1 buf x) as [[[w rest]|]|] eqn:E; try reflexivity.
  apply fw_write1_some in E as [-> _]. cbn. rewrite <- app_assoc, IH. reflexivity.
Qed.

Lemma fw_poll_ready_empty script : fw_poll_ready [] script = MkFwRes PrOk [] script [].
Proof. destruct script; reflexivity. Qed.

Lemma io_close_wrote script : wrote_of (snd (io_close script)) = [].
Proof. destruct script as [|[] s]; reflexivity. Qed.

Lemma fw_poll_close_conserve script buf :
  wrote_of (fr_evs (fw_poll_close buf script)) ++ fr_buf (fw_poll_close buf script) = buf.
Proof.
  unfold fw_poll_close. pose proof (fw_poll_flush_conserve script buf) as H.
  destruct (fr_res (fw_poll_flush buf script)); try exact H.
  pose proof (io_close_wrote (fr_script (fw_poll_flush buf script))) as W.
  destruct (io_close _) as [[r s] e]. cbn in *. rewrite wrote_of_app, W, app_nil_r. exact H.
Qed.

(* ------------------------------------------------------------------------------------------------ *)
(* Handler: basic facts                                                                             *)
(* ------------------------------------------------------------------------------------------------ *)

Lemma ss_eqb_spec a b : ss_eqb a b = true <-> a = b.
Proof.
  destruct a, b; cbn; rewrite ?andb_true_iff, ?N.eqb_eq; split; intros H;
    try discriminate; try reflexivity; try (destruct H; subst; reflexivity);
    try (inversion H; subst; auto).
Qed.

Lemma css_cases st s :
  (change_sending_state st s = st /\ h_sending st = s) \/
  (change_sending_state st s = set_queue (set_sending st s) (h_queue st ++ [EvState s]) /\ h_sending st <> s).
Proof.
  unfold change_sending_state. destruct (ss_eqb (h_sending st) s) eqn:E.
  - left. split; [reflexivity | apply ss_eqb_spec; exact E].
  - right. split; [reflexivity|]. intros H. apply ss_eqb_spec in H. congruence.
Qed.

Lemma css_sending st s : h_sending (change_sending_state st s) = s.
Proof. destruct (css_cases st s) as [[-> H]|[-> _]]; [exact H | reflexivity]. Qed.

Ltac css_fields := intros st s; unfold change_sending_state; destruct (ss_eqb _ _); reflexivity.
Lemma css_msg : forall st s, h_msg (change_sending_state st s) = h_msg st. Proof. css_fields. Qed.
Lemma css_sink : forall st s, h_sink (change_sending_state st s) = h_sink st. Proof. css_fields. Qed.
Lemma css_halted : forall st s, h_halted (change_sending_state st s) = h_halted st. Proof. css_fields. Qed.
Lemma css_closing : forall st s, h_closing (change_sending_state st s) = h_closing st. Proof. css_fields. Qed.
Lemma css_timeout : forall st s, h_timeout (change_sending_state st s) = h_timeout st. Proof. css_fields. Qed.
Lemma css_now : forall st s, h_now (change_sending_state st s) = h_now st. Proof. css_fields. Qed.
Lemma css_next : forall st s, h_next (change_sending_state st s) = h_next st. Proof. css_fields. Qed.
Lemma css_conn : forall st s, h_conn (change_sending_state st s) = h_conn st. Proof. css_fields. Qed.
Lemma css_panicked : forall st s, h_panicked (change_sending_state st s) = h_panicked st. Proof. css_fields. Qed.
Lemma css_exhausted : forall st s, h_exhausted (change_sending_state st s) = h_exhausted st. Proof. css_fields. Qed.
Lemma css_frames : forall st s, h_frames (change_sending_state st s) = h_frames st. Proof. css_fields. Qed.

Lemma css_queue st s :
  h_queue (change_sending_state st s) = h_queue st ++ (if ss_eqb (h_sending st) s then [] else [EvState s]).
Proof. unfold change_sending_state. destruct (ss_eqb _ _); cbn; rewrite ?app_nil_r; reflexivity. Qed.

#[export] Hint Rewrite css_sending css_msg css_sink css_halted css_closing css_timeout css_now css_next
  css_conn css_panicked css_exhausted css_frames : css.

Arguments change_sending_state : simpl never.

Section Proofs.
Variable encode : message -> bytes.

(* ------------------------------------------------------------------------------------------------ *)
(* The fuel of hpoll_loop is always sufficient                                                      *)
(* ------------------------------------------------------------------------------------------------ *)

Definition rank (st : hstate) : nat :=
  if h_halted st then 0%nat else
  match h_msg st, h_sink st with
  | None, SkNone => 1
  | _, SkRequested => 1
  | Some _, SkNone => 2
  | None, SkReady _ _ => 2
  | Some _, SkReady _ _ => 3
  end%nat.

Definition phi (st : hstate) : nat := (length (h_queue st) + 2 * rank st)%nat.

Lemma rank_le3 st : (rank st <= 3)%nat.
Proof. unfold rank. destruct (h_halted st), (h_msg st), (h_sink st); lia. Qed.

Lemma css_queue_len st s : (length (h_queue (change_sending_state st s)) <= length (h_queue st) + 1)%nat.
Proof. rewrite css_queue, app_length. destruct (ss_eqb _ _); cbn; lia. Qed.

Lemma poll_iter_phi st s r st' s' o :
  poll_iter encode st s = (r, st', s', o) -> r = IrPending \/ (phi st' < phi st)%nat.
Proof.
  unfold poll_iter. destruct st as [c q m k sd cl hl tm nw nx pn ex fr]. cbn [h_queue h_halted h_msg h_sink h_conn h_now].
  destruct q as [|ev q].
  2:{ intros [= <- <- <- <-]. right. unfold phi, rank; cbn. lia. }
  destruct hl. { intros [= <- <- <- <-]. left; reflexivity. }
  destruct (timeout_fired _) eqn:TF.
  { unfold drop_sink. cbn [h_sink set_msg set_timeout].
    destruct k as [| |id buf]; intros [= <- <- <- <-]; right; unfold phi, rank; cbn [h_halted set_halted h_queue];
      match goal with |- context [change_sending_state ?a ?b] => pose proof (css_queue_len a b) as L end;
      cbn in L |- *; destruct m; lia. }
  destruct m as [m|], k as [| |id buf]; try (intros [= <- <- <- <-]; left; reflexivity).
  - intros [= <- <- <- <-]. right. unfold phi, rank; cbn. lia.
  - destruct (fr_res (fw_poll_ready buf s)); intros [= <- <- <- <-]; [right|right|left; reflexivity].
    + unfold phi, rank.
      match goal with |- context [change_sending_state ?a ?b] => pose proof (css_queue_len a b) as L end.
      autorewrite with css. cbn in L |- *. lia.
    + unfold phi, rank; cbn. lia.
  - destruct (fr_res (fw_poll_flush buf s)); intros [= <- <- <- <-]; [right|right|left; reflexivity].
    all: unfold phi, rank;
      match goal with |- context [change_sending_state ?a ?b] => pose proof (css_queue_len a b) as L end;
      autorewrite with css; cbn in L |- *; lia.
Qed.

Lemma poll_iter_pending_queue st s st' s' o :
  poll_iter encode st s = (IrPending, st', s', o) -> h_queue st' = [] /\ h_exhausted st' = h_exhausted st
  /\ h_panicked st' = h_panicked st.
Proof.
  unfold poll_iter. destruct st as [c q m k sd cl hl tm nw nx pn ex fr]. cbn [h_queue h_halted h_msg h_sink h_conn h_now].
  destruct q as [|ev q]; [|discriminate].
  destruct hl. { intros [= <- <- <-]. auto. }
  destruct (timeout_fired _). { destruct (drop_sink _). discriminate. }
  destruct m as [m|], k as [| |id buf]; try (intros [= <- <- <-]; auto); try discriminate.
  - destruct (fr_res (fw_poll_ready buf s)); try discriminate. intros [= <- <- <-]. auto.
  - destruct (fr_res (fw_poll_flush buf s)); try discriminate. intros [= <- <- <-]. auto.
Qed.

Lemma poll_iter_flags st s r st' s' o :
  poll_iter encode st s = (r, st', s', o) ->
  h_exhausted st' = h_exhausted st /\ h_panicked st' = h_panicked st /\ h_conn st' = h_conn st
  /\ h_now st' = h_now st /\ h_next st' = h_next st /\ h_closing st' = h_closing st.
Proof.
  unfold poll_iter. destruct st as [c q m k sd cl hl tm nw nx pn ex fr]. cbn [h_queue h_halted h_msg h_sink h_conn h_now].
  destruct q as [|ev q]. 2:{ intros [= <- <- <- <-]. cbn. auto 10. }
  destruct hl. { intros [= <- <- <- <-]. cbn; auto 10. }
  destruct (timeout_fired _).
  { unfold drop_sink. cbn [h_sink set_msg set_timeout]. destruct k; intros [= <- <- <- <-]; cbn;
      autorewrite with css; cbn; auto 10. }
  destruct m as [m|], k as [| |id buf]; try (intros [= <- <- <- <-]; cbn; auto 10).
  - destruct (fr_res (fw_poll_ready buf s)); intros [= <- <- <- <-]; autorewrite with css; cbn; auto 10.
  - destruct (fr_res (fw_poll_flush buf s)); intros [= <- <- <- <-]; autorewrite with css; cbn; auto 10.
Qed.

Lemma hpoll_loop_not_exhausted fuel : forall st s,
  (phi st < fuel)%nat -> h_exhausted st = false ->
  h_exhausted (fst (hpoll_loop encode fuel st s)) = false /\ h_queue (fst (hpoll_loop encode fuel st s)) = [].
Proof.
  induction fuel as [|f IH]; intros st s Hphi Hex; [lia|].
  cbn [hpoll_loop]. destruct (poll_iter encode st s) as [[[r st'] s'] o] eqn:E.
  pose proof (poll_iter_phi _ _ _ _ _ _ E) as P.
  pose proof (poll_iter_flags _ _ _ _ _ _ E) as (F1 & _).
  destruct r.
  - apply poll_iter_pending_queue in E as (Q & X & _). cbn. split; congruence.
  - destruct P as [P|P]; [discriminate|].
    specialize (IH st' s' ltac:(lia) ltac:(congruence)).
    destruct (hpoll_loop encode f st' s'). exact IH.
  - destruct P as [P|P]; [discriminate|].
    specialize (IH st' s' ltac:(lia) ltac:(congruence)).
    destruct (hpoll_loop encode f st' s'). exact IH.
Qed.

Lemma do_poll_not_exhausted st s :
  h_exhausted st = false ->
  h_exhausted (fst (do_poll encode st s)) = false /\ h_queue (fst (do_poll encode st s)) = [].
Proof.
  intros H. apply hpoll_loop_not_exhausted; [|exact H].
  unfold poll_fuel, phi. pose proof (rank_le3 st). lia.
Qed.

(* ------------------------------------------------------------------------------------------------ *)
(* Theorem 1: C08_handler_no_panic_if_disciplined                                                   *)
(* ------------------------------------------------------------------------------------------------ *)

Fixpoint last_state (q : list hev) : option sending_state :=
  match q with
  | [] => None
  | EvState s :: q' => match last_state q' with Some s' => Some s' | None => Some s end
  | EvClosing :: q' => last_state q'
  end.

Lemma last_state_app_state q s : last_state (q ++ [EvState s]) = Some s.
Proof. induction q as [|[s0|] q IH]; cbn; rewrite ?IH; reflexivity. Qed.

Lemma last_state_app_closing q : last_state (q ++ [EvClosing]) = last_state q.
Proof. induction q as [|[s0|] q IH]; cbn; rewrite ?IH; reflexivity. Qed.

Definition is_stream_out (o : hout) : bool :=
  match o with HWrote _ _ | HStreamClosed _ | HDropped _ => true | _ => false end.

Lemma env_out_stream o e : Forall (fun x => is_stream_out x = true) o -> fold_left env_out o e = e.
Proof.
  induction o as [|x o IH]; intros H; [reflexivity|]. inversion H as [|? ? Hx Ho]; subst.
  cbn. destruct x; try discriminate; apply IH; assumption.
Qed.

Lemma sev_outs_stream id evs : Forall (fun x => is_stream_out x = true) (map (hout_of_sev id) evs).
Proof. induction evs as [|[bs|] e IH]; constructor; auto. Qed.

Record NP (st : hstate) (e : env) : Prop := MkNP {
  np_panic : h_panicked st = false;
  np_A : forall s, last_state (h_queue st) = Some s -> h_sending st = s;
  np_B : last_state (h_queue st) = None -> e_ready e = true -> h_sending st = SsReady;
  np_C : h_sending st = SsReady -> h_msg st = None;
  np_E : e_open e = true -> h_sink st = SkRequested \/ h_halted st = true \/ e_closed e = true
}.

Lemma report_ready s : report_of s = RpReady -> s = SsReady.
Proof. destruct s; cbn; congruence. Qed.

Lemma NP_pop st e ev q :
  h_queue st = ev :: q -> NP st e -> NP (set_queue st q) (env_out e (hout_of_ev ev)).
Proof.
  intros Q [P A B C E]. rewrite Q in A, B. destruct ev as [s0|]; cbn [hout_of_ev].
  - assert (E' : forall r, e_open (env_out e (HReport r)) = e_open e /\ e_closed (env_out e (HReport r)) = e_closed e)
      by (intros []; cbn; auto).
    destruct (E' (report_of s0)) as [E1 E2].
    constructor; cbn [set_queue h_panicked h_queue h_sending h_msg h_sink h_halted]; auto.
    + intros s H. apply A. cbn. rewrite H. reflexivity.
    + intros H R. cbn in A. rewrite H in A. rewrite (A s0 eq_refl).
      apply report_ready. unfold env_out in R. destruct (report_of s0); cbn in R; congruence.
    + rewrite E1, E2. exact E.
  - cbn [env_out]. constructor; cbn [set_queue h_panicked h_queue h_sending h_msg h_sink h_halted]; auto.
Qed.

Lemma NP_css st e s :
  NP st e -> (s = SsReady -> h_msg st = None) -> NP (change_sending_state st s) e.
Proof.
  intros [P A B C E] H. destruct (css_cases st s) as [[-> _]|[-> _]]; [constructor; auto|].
  constructor; cbn; auto.
  - intros s1. rewrite last_state_app_state. congruence.
  - rewrite last_state_app_state. discriminate.
Qed.

(* NP only looks at these fields *)
Lemma NP_ext st st' e :
  h_panicked st' = h_panicked st -> h_queue st' = h_queue st -> h_sending st' = h_sending st ->
  (h_sending st = SsReady -> h_msg st = None -> h_msg st' = None) ->
  (e_open e = true -> (h_sink st = SkRequested \/ h_halted st = true \/ e_closed e = true) ->
     h_sink st' = SkRequested \/ h_halted st' = true \/ e_closed e = true) ->
  NP st e -> NP st' e.
Proof.
  intros H1 H2 H3 H4 H5 [P A B C E]. constructor; rewrite ?H1, ?H2, ?H3; auto.
Qed.

Lemma poll_iter_outs_stream st s r st' s' o :
  poll_iter encode st s = (r, st', s', o) -> Forall (fun x => is_stream_out x = true) o.
Proof.
  unfold poll_iter. destruct (h_queue st). 2:{ intros [= <- <- <- <-]. constructor. }
  destruct (h_halted st). { intros [= <- <- <- <-]. constructor. }
  destruct (timeout_fired st).
  { unfold drop_sink. cbn [h_sink set_msg set_timeout]. destruct (h_sink st); intros [= <- <- <- <-]; repeat constructor. }
  destruct (h_msg st), (h_sink st) as [| |id buf]; try (intros [= <- <- <- <-]; constructor).
  - destruct (fr_res (fw_poll_ready buf s)); intros [= <- <- <- <-];
      rewrite ?Forall_app; repeat split; try apply sev_outs_stream; repeat constructor.
  - destruct (fr_res (fw_poll_flush buf s)); intros [= <- <- <- <-];
      rewrite ?Forall_app; repeat split; try apply sev_outs_stream; repeat constructor.
Qed.

Lemma css_set_halted st s b :
  change_sending_state (set_halted st b) s = set_halted (change_sending_state st s) b.
Proof. unfold change_sending_state. cbn. destruct (ss_eqb _ _); reflexivity. Qed.

Definition iter_out (r : iter_res) : list hout := match r with IrReady x => [x] | _ => [] end.

Lemma NP_poll_iter st e s r st' s' o :
  poll_iter encode st s = (r, st', s', o) -> NP st e ->
  NP st' (fold_left env_out (o ++ iter_out r) e).
Proof.
  intros PI N. pose proof (poll_iter_outs_stream _ _ _ _ _ _ PI) as SO.
  rewrite fold_left_app, (env_out_stream _ _ SO). clear SO.
  revert PI. unfold poll_iter. destruct (h_queue st) as [|ev q] eqn:Q.
  2:{ intros [= <- <- <- <-]. cbn. apply NP_pop; assumption. }
  destruct (h_halted st) eqn:HL. { intros [= <- <- <- <-]. exact N. }
  destruct (timeout_fired st).
  { unfold drop_sink. cbn [h_sink set_msg set_timeout].
    assert (G : forall k, NP (set_halted (change_sending_state (set_sink (set_msg (set_timeout st None) None) k)
                 (SsFailed (h_conn st))) true) e).
    { intros k. rewrite <- css_set_halted. apply NP_css; [|discriminate].
      eapply NP_ext with (st := st); try reflexivity; cbn; auto. }
    destruct (h_sink st); intros [= <- <- <- <-]; cbn; apply G. }
  destruct (h_msg st) as [m|] eqn:M, (h_sink st) as [| |id buf] eqn:K; try (intros [= <- <- <- <-]; exact N).
  - (* open_new_substream *)
    intros [= <- <- <- <-]. cbn. destruct N as [P A B C E]. constructor; cbn; auto.
  - destruct (fr_res (fw_poll_ready buf s)); intros [= <- <- <- <-]; cbn.
    + apply NP_css; [|cbn; discriminate].
      eapply NP_ext with (st := st); try reflexivity; cbn; auto.
      rewrite K. intros _ [H|[H|H]]; auto; discriminate.
    + eapply NP_ext with (st := st); try reflexivity; cbn; auto.
      rewrite K. intros _ [H|[H|H]]; auto; discriminate.
    + eapply NP_ext with (st := st); try reflexivity; cbn; auto.
      rewrite K. intros _ [H|[H|H]]; auto; discriminate.
  - destruct (fr_res (fw_poll_flush buf s)); intros [= <- <- <- <-]; cbn.
    + apply NP_css; [|cbn; auto].
      eapply NP_ext with (st := st); try reflexivity; cbn; auto.
      rewrite K. intros _ [H|[H|H]]; auto; discriminate.
    + apply NP_css; [|discriminate].
      eapply NP_ext with (st := st); try reflexivity; cbn; auto.
      rewrite K. intros _ [H|[H|H]]; auto; discriminate.
    + eapply NP_ext with (st := st); try reflexivity; cbn; auto.
      rewrite K. intros _ [H|[H|H]]; auto; discriminate.
Qed.

Definition not_panic (o : hout) : Prop := o <> HPanic.

Lemma stream_out_not_panic o : Forall (fun x => is_stream_out x = true) o -> Forall not_panic o.
Proof. apply Forall_impl. intros [] H; cbn in H; try discriminate; intros E; discriminate. Qed.

Lemma hout_of_ev_not_panic ev : not_panic (hout_of_ev ev).
Proof. destruct ev; intros E; discriminate. Qed.

Lemma poll_iter_ready_not_panic st s x st' s' o :
  poll_iter encode st s = (IrReady x, st', s', o) -> not_panic x.
Proof.
  unfold poll_iter. destruct (h_queue st). 2:{ intros [= <- <- <- <-]. apply hout_of_ev_not_panic. }
  destruct (h_halted st); [discriminate|].
  destruct (timeout_fired st). { destruct (drop_sink _); discriminate. }
  destruct (h_msg st), (h_sink st) as [| |id buf]; try discriminate.
  - intros [= <- <- <- <-]. intros E; discriminate.
  - destruct (fr_res _); discriminate.
  - destruct (fr_res _); discriminate.
Qed.

Lemma NP_hpoll_loop fuel : forall st e s,
  NP st e ->
  NP (fst (hpoll_loop encode fuel st s)) (fold_left env_out (snd (hpoll_loop encode fuel st s)) e)
  /\ Forall not_panic (snd (hpoll_loop encode fuel st s)).
Proof.
  induction fuel as [|f IH]; intros st e s N.
  - cbn. split; [|constructor]. eapply NP_ext with (st := st); try reflexivity; auto.
  - cbn [hpoll_loop]. destruct (poll_iter encode st s) as [[[r st'] s'] o] eqn:PI.
    pose proof (NP_poll_iter _ _ _ _ _ _ _ PI N) as N'.
    pose proof (stream_out_not_panic _ (poll_iter_outs_stream _ _ _ _ _ _ PI)) as SO.
    destruct r; cbn [iter_out] in N'.
    + rewrite app_nil_r in N'. cbn. auto.
    + specialize (IH st' _ s' N'). destruct (hpoll_loop encode f st' s') as [st'' o']. cbn [fst snd] in *.
      replace (o ++ o0 :: o') with ((o ++ [o0]) ++ o') by (rewrite <- app_assoc; reflexivity).
      rewrite fold_left_app. split; [apply IH|].
      rewrite !Forall_app. repeat split; auto; [|apply IH].
      constructor; [|constructor]. eapply poll_iter_ready_not_panic; eauto.
    + rewrite app_nil_r in N'.
      specialize (IH st' _ s' N'). destruct (hpoll_loop encode f st' s') as [st'' o']. cbn [fst snd] in *.
      rewrite fold_left_app. split; [apply IH|]. rewrite Forall_app. split; [auto|apply IH].
Qed.

Lemma NP_drain st e :
  NP st e ->
  NP (set_queue st []) (fold_left env_out (map hout_of_ev (h_queue st)) e).
Proof.
  remember (h_queue st) as q eqn:Q. revert st e Q.
  induction q as [|ev q IH]; intros st e Q N.
  - cbn. eapply NP_ext with (st := st); try reflexivity; cbn; auto.
  - cbn. pose proof (NP_pop st e ev q (eq_sym Q) N) as N'.
    specialize (IH (set_queue st q) _ eq_refl N'). exact IH.
Qed.

(* op-boundary invariant *)
Definition NPop (st : hstate) (e : env) : Prop :=
  NP st e /\ h_exhausted st = false /\ (h_queue st = [] \/ e_ready e = false).

Lemma NPop_init c : NPop (h_init c) env_init.
Proof.
  split; [|split; [reflexivity | left; reflexivity]].
  constructor; cbn; auto; try discriminate.
Qed.

Lemma NPop_step st e op :
  NPop st e -> op_allowed true e op = true ->
  NPop (fst (hstep encode st op)) (env_step e op (snd (hstep encode st op)))
  /\ Forall not_panic (snd (hstep encode st op)).
Proof.
  intros (N & X & D) AL. pose proof N as [P A B C E].
  unfold hstep, env_step. rewrite P.
  destruct op as [w| | |ms|s|s]; cbn [op_allowed] in AL; rewrite ?andb_true_iff, ?negb_true_iff in AL.
  - (* HSendWantlist *)
    destruct AL as [R _]. unfold do_send_wantlist. destruct (h_halted st) eqn:HL.
    + cbn. split; [|constructor]. split; [|split; auto].
      constructor; cbn; auto; try discriminate.
    + destruct D as [D|D]; [|congruence].
      rewrite D in B. specialize (B eq_refl R). rewrite (C B), B. cbn [fst snd fold_left env_op].
      split; [|constructor]. split; [|split].
      * destruct (css_cases (set_msg st (Some (wantlist_message w))) (SsRequestReceived (h_now st) (h_conn st)))
          as [[_ H]|[EQ _]]; [cbn in H; congruence|].
        rewrite EQ. constructor; cbn; rewrite ?D; cbn; auto; try discriminate; try congruence.
        intros O; destruct (E O) as [H|[H|H]]; auto; discriminate.
      * cbn. autorewrite with css. exact X.
      * right. reflexivity.
  - (* HSetStream *)
    destruct AL as [O _]. unfold do_set_stream. destruct (h_halted st) eqn:HL.
    + cbn. split; [|repeat constructor; discriminate]. split; [|split; auto].
      constructor; cbn; auto; try discriminate.
    + unfold drop_sink. cbn [h_sink set_next].
      assert (G : forall o, Forall (fun x => is_stream_out x = true) o ->
                NPop (set_sink (set_sink (set_next st (h_next st + 1)) SkNone) (SkReady (h_next st) []))
                     (fold_left env_out o (MkEnv (e_ready e) false (e_closed e)))).
      { intros o SO. rewrite (env_out_stream _ _ SO). split; [|split; auto].
        constructor; cbn; auto; try discriminate. }
      destruct (h_sink st); cbn [fst snd env_op]; (split; [apply G|]); repeat constructor; discriminate.
  - (* HAllocFailed *)
    destruct AL as [O CL]. rewrite andb_false_iff in CL. unfold do_alloc_failed. destruct (h_halted st) eqn:HL.
    + cbn. split; [|constructor]. split; [|split; auto]. constructor; cbn; auto; try discriminate.
    + destruct (E O) as [K|[K|K]]; [|congruence|destruct CL; congruence].
      rewrite K. cbn. split; [|constructor]. split; [|split; auto]. constructor; cbn; auto; try discriminate.
  - (* HAdvance *)
    cbn. split; [|constructor]. split; [|split; auto]. constructor; cbn; auto.
  - (* HPoll *)
    cbn [env_op]. destruct (NP_hpoll_loop (poll_fuel st) st e s N) as [N' NPn].
    destruct (do_poll_not_exhausted st s X) as [X' Q'].
    unfold do_poll in *. split; [|exact NPn]. split; [exact N'|]. split; [exact X'|]. left; exact Q'.
  - (* HPollClose *)
    cbn [env_op]. unfold do_poll_close.
    set (e1 := MkEnv (e_ready e) (e_open e) true).
    assert (N1 : NP st e1).
    { constructor; cbn; auto. }
    destruct (h_closing st) eqn:CLg.
    + cbn [fst snd app]. pose proof (NP_drain st e1 N1) as Dr. split.
      * split; [exact Dr|]. split; [exact X|]. left; reflexivity.
      * clear. induction (h_queue st); constructor; auto using hout_of_ev_not_panic.
    + assert (G : forall k o, Forall (fun x => is_stream_out x = true) o ->
        let st2 := set_sink (set_msg (set_closing st true) None) k in
        let st3 := match h_sending st2 with
                   | SsRequestReceived _ _ | SsSending _ _ => change_sending_state st2 (SsFailed (h_conn st))
                   | _ => st2 end in
        let st4 := set_queue st3 (h_queue st3 ++ [EvClosing]) in
        NPop (set_queue st4 []) (fold_left env_out (o ++ map hout_of_ev (h_queue st4)) e1)
        /\ Forall not_panic (o ++ map hout_of_ev (h_queue st4))).
      { intros k o SO st2 st3 st4.
        assert (N2 : NP st2 e1).
        { eapply NP_ext with (st := st); try reflexivity; cbn; auto. }
        assert (N3 : NP st3 e1).
        { subst st3. destruct (h_sending st2); auto; apply NP_css; auto; discriminate. }
        assert (N4 : NP st4 e1).
        { destruct N3 as [P3 A3 B3 C3 E3]. constructor; cbn; auto; rewrite last_state_app_closing; auto. }
        assert (X4 : h_exhausted st4 = false).
        { subst st4 st3. cbn [h_exhausted set_queue]. destruct (h_sending st2); autorewrite with css; exact X. }
        rewrite fold_left_app, (env_out_stream _ _ SO). split.
        - split; [apply NP_drain; exact N4|]. split; [exact X4|]. left; reflexivity.
        - rewrite Forall_app. split; [apply stream_out_not_panic; exact SO|].
          clear. induction (h_queue st4); constructor; auto using hout_of_ev_not_panic. }
      cbn [h_sink set_msg set_closing].
      destruct (h_sink st) as [| |id buf] eqn:K.
      * specialize (G SkNone [] ltac:(constructor)). cbn [app] in G. exact G.
      * specialize (G SkNone [] ltac:(constructor)). cbn [app] in G. exact G.
      * specialize (G SkNone (map (hout_of_sev id) (fr_evs (fw_poll_close buf s)) ++ [HDropped id])).
        apply G. rewrite Forall_app. split; [apply sev_outs_stream|repeat constructor].
Qed.

Lemma disciplined_no_panic ops : forall st e,
  NPop st e -> disciplined_from encode true st e ops = true -> Forall not_panic (snd (hrun encode st ops)).
Proof.
  induction ops as [|op ops IH]; intros st e N D; [constructor|].
  cbn [disciplined_from] in D. apply andb_true_iff in D as [AL D].
  destruct (NPop_step st e op N AL) as [N' NPn].
  unfold hrun. cbn [hrun_trace]. destruct (hstep encode st op) as [st' o] eqn:HS. cbn [fst snd] in *.
  specialize (IH st' _ N' D). unfold hrun in IH.
  destruct (hrun_trace encode st' ops) as [st'' os]. cbn [snd concat] in *.
  rewrite Forall_app. split; assumption.
Qed.

(* No op sequence that respects the contract (strict = true) makes the handler panic. *)
Theorem C08_handler_no_panic_if_disciplined :
  forall (c : conn) (ops : list hop),
    disciplined encode true c ops = true -> ~ In HPanic (handler_outs encode c ops).
Proof.
  intros c ops D HIn. pose proof (disciplined_no_panic ops _ _ (NPop_init c) D) as F.
  unfold handler_outs in HIn. rewrite Forall_forall in F. exact (F _ HIn eq_refl).
Qed.

(* ------------------------------------------------------------------------------------------------ *)
(* Theorem 2: C14_one_frame                                                                         *)
(* ------------------------------------------------------------------------------------------------ *)

(* bytes accepted by stream number id, read off the outputs *)
Fixpoint wrote_on (id : N) (outs : list hout) : bytes :=
  match outs with
  | [] => []
  | HWrote i bs :: r => if i =? id then bs ++ wrote_on id r else wrote_on id r
  | _ :: r => wrote_on id r
  end.

Lemma wrote_on_app id a b : wrote_on id (a ++ b) = wrote_on id a ++ wrote_on id b.
Proof.
  induction a as [|x a IH]; [reflexivity|]. destruct x; cbn; auto.
  destruct (stream =? id); rewrite IH, ?app_assoc; reflexivity.
Qed.

Lemma wrote_on_sevs id id' evs :
  wrote_on id (map (hout_of_sev id') evs) = if id' =? id then wrote_of evs else [].
Proof.
  induction evs as [|[bs|] e IH]; cbn.
  - destruct (id' =? id); reflexivity.
  - rewrite IH. destruct (id' =? id); reflexivity.
  - exact IH.
Qed.

Definition no_writes (o : list hout) : Prop := forall id, wrote_on id o = [].

Lemma no_writes_nil : no_writes []. Proof. intros id; reflexivity. Qed.
Lemma no_writes_dropped i : no_writes [HDropped i]. Proof. intros id; reflexivity. Qed.
Lemma no_writes_ev l : no_writes (map hout_of_ev l).
Proof. intros id. induction l as [|[s|] l IH]; cbn; auto. Qed.
Lemma no_writes_app a b : no_writes a -> no_writes b -> no_writes (a ++ b).
Proof. intros A B id. rewrite wrote_on_app, A, B. reflexivity. Qed.

(* the frame started on a stream, read off the ghost log *)
Fixpoint frame_of (fr : list (N * message)) (id : N) : option message :=
  match fr with
  | [] => None
  | (i, m) :: r => if i =? id then Some m else frame_of r id
  end.

Lemma frame_of_app fr l id :
  frame_of (fr ++ l) id = match frame_of fr id with Some m => Some m | None => frame_of l id end.
Proof. induction fr as [|[i m] fr IH]; cbn; [reflexivity|]. destruct (i =? id); auto. Qed.

Lemma frame_of_none fr id : frame_of fr id = None <-> ~ In id (map fst fr).
Proof.
  induction fr as [|[i m] fr IH]; cbn; [tauto|]. destruct (i =? id) eqn:E.
  - apply N.eqb_eq in E. split; [discriminate | intros H; exfalso; apply H; auto].
  - apply N.eqb_neq in E. rewrite IH. tauto.
Qed.

Lemma frame_of_in fr id m : frame_of fr id = Some m -> In (id, m) fr.
Proof.
  induction fr as [|[i m'] fr IH]; cbn; [discriminate|]. destruct (i =? id) eqn:E.
  - apply N.eqb_eq in E. intros [= ->]. left; congruence.
  - auto.
Qed.

Definition FB (fr : list (N * message)) (id : N) : bytes :=
  match frame_of fr id with Some m => encode m | None => [] end.

Definition prefix (a b : bytes) : Prop := exists r, b = a ++ r.

Lemma prefix_nil_r a : prefix a [] -> a = [].
Proof. intros [r H]. symmetry in H. apply app_eq_nil in H. tauto. Qed.

Inductive subseq {A} : list A -> list A -> Prop :=
| sub_nil : subseq [] []
| sub_skip a l x : subseq a l -> subseq a (x :: l)
| sub_take a l x : subseq a l -> subseq (x :: a) (x :: l).

Lemma subseq_nil_l {A} (l : list A) : subseq [] l.
Proof. induction l; constructor; auto. Qed.

Lemma subseq_snoc_skip {A} (a l : list A) x : subseq a l -> subseq a (l ++ [x]).
Proof.
  induction 1 as [|a l y H IH|a l y H IH]; cbn.
  - apply sub_skip, sub_nil.
  - apply sub_skip, IH.
  - apply sub_take, IH.
Qed.

Lemma subseq_snoc_take {A} (a l : list A) x : subseq a l -> subseq (a ++ [x]) (l ++ [x]).
Proof.
  induction 1 as [|a l y H IH|a l y H IH]; cbn.
  - apply sub_take, sub_nil.
  - apply sub_skip, IH.
  - apply sub_take, IH.
Qed.

Lemma subseq_app_l {A} (a b l : list A) : subseq (a ++ b) l -> subseq a l.
Proof.
  remember (a ++ b) as ab eqn:E. intros H. revert a E.
  induction H as [|a0 l y H IH|a0 l y H IH]; intros a E.
  - destruct a; [constructor | discriminate].
  - apply sub_skip, IH, E.
  - destruct a as [|z a]; cbn in E.
    + apply subseq_nil_l.
    + inversion E; subst. apply sub_take, IH. reflexivity.
Qed.

Definition option_list {A} (o : option A) : list A := match o with Some x => [x] | None => [] end.

Lemma NoDup_app_singleton {A} (l : list A) x : NoDup l -> ~ In x l -> NoDup (l ++ [x]).
Proof.
  induction 1 as [|y l Hy Hl IH]; cbn; intros Hx.
  - constructor; [tauto | constructor].
  - constructor.
    + rewrite in_app_iff. cbn. intros [H|[H|[]]]; [tauto | subst; tauto].
    + apply IH. tauto.
Qed.

(* the invariant, over the components of the state it depends on *)
Record FIc (fr : list (N * message)) (nx : N) (k : sink_state) (m : option message) (sd : sending_state)
           (outs : list hout) (ws : list wantlist) : Prop := MkFI {
  fi_nodup : NoDup (map fst fr);
  fi_lt : forall id, In id (map fst fr) -> id < nx;
  fi_sink : forall id buf, k = SkReady id buf -> id < nx /\ wrote_on id outs ++ buf = FB fr id;
  fi_pref : forall id, prefix (wrote_on id outs) (FB fr id);
  fi_one : forall id buf, k = SkReady id buf -> frame_of fr id <> None ->
             m = None /\ exists t c, sd = SsSending t c;
  fi_sub : subseq (map snd fr ++ option_list m) (map wantlist_message ws)
}.

Definition FI (st : hstate) (outs : list hout) (ws : list wantlist) : Prop :=
  FIc (h_frames st) (h_next st) (h_sink st) (h_msg st) (h_sending st) outs ws.

Lemma FIc_init : FIc [] 0 SkNone None SsReady [] [].
Proof.
  constructor; cbn; try discriminate; try tauto; try constructor.
  intros id. exists []. reflexivity.
Qed.

(* the sink goes away (or was not Ready), the message stays or is dropped, no byte is written *)
Lemma FIc_drop fr nx k m sd outs ws k' m' sd' o :
  FIc fr nx k m sd outs ws ->
  (forall id buf, k' <> SkReady id buf) -> (m' = m \/ m' = None) -> no_writes o ->
  FIc fr nx k' m' sd' (outs ++ o) ws.
Proof.
  intros [F1 F2 F3 F4 F5 F6] K M W. constructor; auto.
  - intros id buf E. destruct (K _ _ E).
  - intros id. rewrite wrote_on_app, W, app_nil_r. apply F4.
  - intros id buf E. destruct (K _ _ E).
  - destruct M as [->| ->]; [exact F6|]. cbn. rewrite app_nil_r. eapply subseq_app_l. exact F6.
Qed.

(* outputs that carry no write, nothing else changes *)
Lemma FIc_nowrite fr nx k m sd outs ws o :
  FIc fr nx k m sd outs ws -> no_writes o -> FIc fr nx k m sd (outs ++ o) ws.
Proof.
  intros [F1 F2 F3 F4 F5 F6] W. constructor; auto.
  - intros id buf E. rewrite wrote_on_app, W, app_nil_r. auto.
  - intros id. rewrite wrote_on_app, W, app_nil_r. apply F4.
Qed.

(* the current stream accepts some of the buffered bytes *)
Lemma FIc_write fr nx id buf m sd outs ws evs buf' :
  FIc fr nx (SkReady id buf) m sd outs ws -> wrote_of evs ++ buf' = buf ->
  FIc fr nx (SkReady id buf') m sd (outs ++ map (hout_of_sev id) evs) ws.
Proof.
  intros [F1 F2 F3 F4 F5 F6] W. constructor; auto.
  - intros id0 buf0 [= <- <-]. destruct (F3 _ _ eq_refl) as [L E]. split; [exact L|].
    rewrite wrote_on_app, wrote_on_sevs, N.eqb_refl, <- app_assoc, W. exact E.
  - intros id0. rewrite wrote_on_app, wrote_on_sevs. destruct (id =? id0) eqn:E.
    + apply N.eqb_eq in E; subst id0. destruct (F3 _ _ eq_refl) as [_ E]. exists buf'.
      rewrite <- app_assoc, W. symmetry; exact E.
    + rewrite app_nil_r. apply F4.
  - intros id0 buf0 [= <- <-]. apply (F5 _ _ eq_refl).
Qed.

(* start_send on the current stream *)
Lemma FIc_start fr nx id buf m sd outs ws t c :
  FIc fr nx (SkReady id buf) (Some m) sd outs ws ->
  FIc (fr ++ [(id, m)]) nx (SkReady id (fw_start_send buf (encode m))) None (SsSending t c) outs ws.
Proof.
  intros [F1 F2 F3 F4 F5 F6].
  assert (NF : frame_of fr id = None).
  { destruct (frame_of fr id) eqn:E; [|reflexivity].
    destruct (F5 _ _ eq_refl) as [H _]; [congruence | discriminate]. }
  assert (FBn : forall id0, FB (fr ++ [(id, m)]) id0 = if id =? id0 then encode m else FB fr id0).
  { intros id0. unfold FB. rewrite frame_of_app. cbn. destruct (id =? id0) eqn:E.
    - apply N.eqb_eq in E; subst id0. rewrite NF. reflexivity.
    - destruct (frame_of fr id0); reflexivity. }
  destruct (F3 _ _ eq_refl) as [L E]. unfold FB in E. rewrite NF in E.
  apply app_eq_nil in E as [E1 E2].
  constructor.
  - rewrite map_app. cbn. apply NoDup_app_singleton; [exact F1|]. apply frame_of_none; exact NF.
  - intros id0. rewrite map_app, in_app_iff. cbn. intros [H|[<-|[]]]; auto.
  - intros id0 buf0 [= <- <-]. split; [exact L|]. rewrite FBn, N.eqb_refl, E1, E2. reflexivity.
  - intros id0. rewrite FBn. destruct (id =? id0) eqn:EQ; [|apply F4].
    apply N.eqb_eq in EQ; subst id0. rewrite E1. exists (encode m); reflexivity.
  - intros id0 buf0 [= <- <-] _. split; [reflexivity|]. eauto.
  - rewrite map_app. cbn. rewrite app_nil_r. exact F6.
Qed.

(* set_stream: a fresh stream number *)
Lemma FIc_set fr nx k m sd outs ws o :
  FIc fr nx k m sd outs ws -> no_writes o ->
  FIc fr (nx + 1) (SkReady nx []) m sd (outs ++ o) ws.
Proof.
  intros [F1 F2 F3 F4 F5 F6] W.
  assert (NF : frame_of fr nx = None).
  { apply frame_of_none. intros H. apply F2 in H. lia. }
  constructor; auto.
  - intros id H. apply F2 in H. lia.
  - intros id buf [= <- <-]. split; [lia|]. rewrite wrote_on_app, W, !app_nil_r.
    pose proof (F4 nx) as P. unfold FB in *. rewrite NF in *. apply prefix_nil_r in P. exact P.
  - intros id. rewrite wrote_on_app, W, app_nil_r. apply F4.
  - intros id buf [= <- <-] H. congruence.
Qed.

(* only the stream counter moves (set_stream on a halted handler) *)
Lemma FIc_next fr nx k m sd outs ws o :
  FIc fr nx k m sd outs ws -> no_writes o -> FIc fr (nx + 1) k m sd (outs ++ o) ws.
Proof.
  intros H W. apply (FIc_nowrite _ _ _ _ _ _ _ o) in H; [|exact W].
  destruct H as [F1 F2 F3 F4 F5 F6]. constructor; auto.
  - intros id H. apply F2 in H. lia.
  - intros id buf E. destruct (F3 _ _ E). split; [lia|assumption].
Qed.

(* send_wantlist accepted *)
Lemma FIc_send fr nx k sd outs ws w sd' :
  FIc fr nx k None sd outs ws -> sd = SsReady ->
  FIc fr nx k (Some (wantlist_message w)) sd' outs (ws ++ [w]).
Proof.
  intros [F1 F2 F3 F4 F5 F6] R. constructor; auto.
  - intros id buf E NF. destruct (F5 _ _ E NF) as [_ (t & c & S)]. congruence.
  - cbn in *. rewrite app_nil_r in F6. rewrite map_app. cbn. apply subseq_snoc_take. exact F6.
Qed.

(* a wantlist the handler ignores (halted) or that makes it panic *)
Lemma FIc_ws fr nx k m sd outs ws w :
  FIc fr nx k m sd outs ws -> FIc fr nx k m sd outs (ws ++ [w]).
Proof.
  intros [F1 F2 F3 F4 F5 F6]. constructor; auto. rewrite map_app. cbn. apply subseq_snoc_skip. exact F6.
Qed.

(* a change of sending_state while no stream is held *)
Lemma FIc_sd fr nx k m sd outs ws sd' :
  FIc fr nx k m sd outs ws -> (forall id buf, k <> SkReady id buf) -> FIc fr nx k m sd' outs ws.
Proof.
  intros H K. rewrite <- (app_nil_r outs). eapply FIc_drop; eauto using no_writes_nil.
Qed.

Lemma no_writes_iter_out_ev ev : no_writes [hout_of_ev ev].
Proof. intros id. destruct ev; reflexivity. Qed.

Lemma FIc_outs_eq fr nx k m sd outs outs' ws :
  FIc fr nx k m sd outs ws -> outs = outs' -> FIc fr nx k m sd outs' ws.
Proof. intros H <-. exact H. Qed.

Ltac fin_outs := cbn [iter_out app]; rewrite ?app_nil_r, <- ?app_assoc; cbn [app]; reflexivity.

Lemma FI_poll_iter st s r st' s' o outs ws :
  poll_iter encode st s = (r, st', s', o) -> FI st outs ws -> FI st' (outs ++ o ++ iter_out r) ws.
Proof.
  unfold FI. intros PI H. revert PI. unfold poll_iter. destruct (h_queue st) as [|ev q] eqn:Q.
  2:{ intros [= <- <- <- <-]. cbn. apply FIc_nowrite; [exact H | apply no_writes_iter_out_ev]. }
  destruct (h_halted st) eqn:HL. { intros [= <- <- <- <-]. cbn. rewrite app_nil_r. exact H. }
  destruct (timeout_fired st).
  { unfold drop_sink. cbn [h_sink set_msg set_timeout].
    destruct (h_sink st) as [| |id buf] eqn:K; intros [= <- <- <- <-];
      cbn [h_frames h_next h_sink h_msg h_sending set_halted]; autorewrite with css; cbn [h_frames h_next h_sink h_msg h_sending set_sink set_msg set_timeout];
      [ eapply FIc_outs_eq; [eapply (FIc_drop _ _ _ _ _ _ _ _ _ _ []); [exact H | discriminate | right; reflexivity | apply no_writes_nil] | fin_outs]
      | eapply FIc_outs_eq; [eapply (FIc_drop _ _ _ _ _ _ _ _ _ _ []); [exact H | discriminate | right; reflexivity | apply no_writes_nil] | fin_outs]
      | eapply FIc_outs_eq; [eapply (FIc_drop _ _ _ _ _ _ _ _ _ _ [HDropped id]); [exact H | discriminate | right; reflexivity | apply no_writes_dropped] | fin_outs] ]. }
  destruct (h_msg st) as [m|] eqn:M, (h_sink st) as [| |id buf] eqn:K;
    try (intros [= <- <- <- <-]; cbn; rewrite ?app_nil_r, ?M, ?K; exact H).
  - (* open_new_substream *)
    intros [= <- <- <- <-]. cbn. rewrite M.
    eapply FIc_drop; [exact H | discriminate | left; reflexivity | intros id; reflexivity].
  - (* Some, Ready *)
    pose proof (fw_poll_ready_conserve s buf) as CV.
    destruct (fr_res (fw_poll_ready buf s)); intros [= <- <- <- <-].
    + autorewrite with css. cbn [h_frames h_next h_sink h_msg h_sending set_sink set_msg set_timeout add_frame].
      eapply FIc_outs_eq; [eapply FIc_start; eapply FIc_write; [exact H | exact CV] | fin_outs].
    + cbn [h_frames h_next h_sink h_msg h_sending set_sink]. rewrite M.
      eapply FIc_outs_eq; [eapply FIc_drop; [eapply FIc_write; [exact H | exact CV] | discriminate | left; reflexivity | apply no_writes_dropped] | fin_outs].
    + cbn [h_frames h_next h_sink h_msg h_sending set_sink]. rewrite M.
      eapply FIc_outs_eq; [eapply FIc_write; [exact H | exact CV] | fin_outs].
  - (* None, Ready *)
    pose proof (fw_poll_flush_conserve s buf) as CV.
    destruct (fr_res (fw_poll_flush buf s)); intros [= <- <- <- <-].
    + autorewrite with css. cbn [h_frames h_next h_sink h_msg h_sending set_sink]. rewrite M.
      pose proof (fw_poll_close_conserve (fr_script (fw_poll_flush buf s)) (fr_buf (fw_poll_flush buf s))) as CC.
      eapply FIc_outs_eq; [eapply FIc_drop; [eapply FIc_write; [eapply FIc_write; [exact H | exact CV] | exact CC]
                       | discriminate | left; reflexivity | apply no_writes_dropped] | fin_outs].
    + autorewrite with css. cbn [h_frames h_next h_sink h_msg h_sending set_sink]. rewrite M.
      eapply FIc_outs_eq; [eapply FIc_drop; [eapply FIc_write; [exact H | exact CV] | discriminate | left; reflexivity | apply no_writes_dropped] | fin_outs].
    + cbn [h_frames h_next h_sink h_msg h_sending set_sink]. rewrite M.
      eapply FIc_outs_eq; [eapply FIc_write; [exact H | exact CV] | fin_outs].
Qed.

Lemma FI_flags st st' outs ws :
  h_frames st' = h_frames st -> h_next st' = h_next st -> h_sink st' = h_sink st -> h_msg st' = h_msg st ->
  h_sending st' = h_sending st -> FI st outs ws -> FI st' outs ws.
Proof. unfold FI. intros -> -> -> -> ->. auto. Qed.

Lemma FI_hpoll_loop fuel : forall st s outs ws,
  FI st outs ws ->
  FI (fst (hpoll_loop encode fuel st s)) (outs ++ snd (hpoll_loop encode fuel st s)) ws.
Proof.
  induction fuel as [|f IH]; intros st s outs ws H.
  - cbn. rewrite app_nil_r. eapply FI_flags; [..|exact H]; reflexivity.
  - cbn [hpoll_loop]. destruct (poll_iter encode st s) as [[[r st'] s'] o] eqn:PI.
    pose proof (FI_poll_iter _ _ _ _ _ _ _ _ PI H) as H'.
    destruct r; cbn [iter_out] in H'.
    + rewrite app_nil_r in H'. exact H'.
    + specialize (IH st' s' _ _ H'). destruct (hpoll_loop encode f st' s') as [st'' o']. cbn [fst snd] in *.
      rewrite <- !app_assoc in IH. exact IH.
    + rewrite app_nil_r in H'.
      specialize (IH st' s' _ _ H'). destruct (hpoll_loop encode f st' s') as [st'' o']. cbn [fst snd] in *.
      rewrite <- !app_assoc in IH. exact IH.
Qed.

Definition op_ws (op : hop) : list wantlist := match op with HSendWantlist w => [w] | _ => [] end.

Lemma sent_ws_app a b : sent_ws (a ++ b) = sent_ws a ++ sent_ws b.
Proof. induction a as [|[] a IH]; cbn; rewrite ?IH; reflexivity. Qed.

Lemma FI_step st op outs ws :
  FI st outs ws -> FI (fst (hstep encode st op)) (outs ++ snd (hstep encode st op)) (ws ++ op_ws op).
Proof.
  intros H. unfold hstep. destruct (h_panicked st).
  { cbn. rewrite app_nil_r. destruct op; cbn [op_ws]; rewrite ?app_nil_r; auto. apply FIc_ws. exact H. }
  destruct op as [w| | |ms|s|s]; cbn [op_ws]; rewrite ?app_nil_r.
  - (* HSendWantlist *)
    unfold do_send_wantlist. destruct (h_halted st).
    { cbn. rewrite app_nil_r. apply FIc_ws. exact H. }
    destruct (h_msg st) eqn:M.
    { cbn. apply FIc_ws. unfold FI in H. cbn. apply FIc_nowrite; [exact H | intros ?; reflexivity]. }
    destruct (h_sending st) eqn:S;
      try (cbn; apply FIc_ws; unfold FI in H; cbn; apply FIc_nowrite; [exact H | intros ?; reflexivity]).
    cbn [fst snd]. rewrite app_nil_r. unfold FI in *. cbn. autorewrite with css. cbn.
    rewrite M, S in H. eapply FIc_send; [exact H | reflexivity].
  - (* HSetStream *)
    unfold do_set_stream. destruct (h_halted st).
    { cbn. unfold FI in *. cbn. apply FIc_next; [exact H | apply no_writes_dropped]. }
    unfold drop_sink. cbn [h_sink set_next]. unfold FI in *.
    destruct (h_sink st) eqn:K; cbn; (eapply FIc_set; [exact H|]); auto using no_writes_nil, no_writes_dropped.
  - (* HAllocFailed *)
    unfold do_alloc_failed. destruct (h_halted st). { cbn. rewrite app_nil_r. exact H. }
    unfold FI in *. destruct (h_sink st) eqn:K; cbn; rewrite ?K.
    + apply FIc_nowrite; [exact H | intros ?; reflexivity].
    + eapply FIc_drop; [exact H | discriminate | left; reflexivity | apply no_writes_nil].
    + apply FIc_nowrite; [exact H | intros ?; reflexivity].
  - (* HAdvance *)
    cbn. exact H.
  - (* HPoll *)
    apply FI_hpoll_loop. exact H.
  - (* HPollClose *)
    unfold do_poll_close. destruct (h_closing st).
    { cbn [fst snd app]. unfold FI in *. cbn. apply FIc_nowrite; [exact H | apply no_writes_ev]. }
    cbn [h_sink set_msg set_closing].
    assert (G : forall k o, (forall id buf, k <> SkReady id buf) ->
      FIc (h_frames st) (h_next st) k None (h_sending st) (outs ++ o) ws ->
      let st2 := set_sink (set_msg (set_closing st true) None) k in
      let st3 := match h_sending st2 with
                 | SsRequestReceived _ _ | SsSending _ _ => change_sending_state st2 (SsFailed (h_conn st))
                 | _ => st2 end in
      let st4 := set_queue st3 (h_queue st3 ++ [EvClosing]) in
      FI (set_queue st4 []) (outs ++ o ++ map hout_of_ev (h_queue st4)) ws).
    { intros k o K H2 st2 st3 st4. unfold FI. rewrite app_assoc. apply FIc_nowrite; [|apply no_writes_ev].
      subst st4 st3. cbn [set_queue h_frames h_next h_sink h_msg h_sending].
      destruct (h_sending st2) eqn:S2; autorewrite with css; subst st2; cbn in *; rewrite ?S2; try exact H2;
        eapply FIc_sd; eauto. }
    unfold FI in H. destruct (h_sink st) as [| |id buf] eqn:K.
    + apply (G SkNone []); [discriminate|]. rewrite app_nil_r.
      rewrite <- (app_nil_r outs). eapply FIc_drop; [exact H | discriminate | right; reflexivity | apply no_writes_nil].
    + apply (G SkNone []); [discriminate|]. rewrite app_nil_r.
      rewrite <- (app_nil_r outs). eapply FIc_drop; [exact H | discriminate | right; reflexivity | apply no_writes_nil].
    + apply (G SkNone); [discriminate|]. rewrite app_assoc.
      eapply FIc_drop; [eapply FIc_write; [exact H | apply fw_poll_close_conserve]
                       | discriminate | right; reflexivity | apply no_writes_dropped].
Qed.

Lemma FI_run ops : forall st outs ws,
  FI st outs ws ->
  FI (fst (hrun encode st ops)) (outs ++ snd (hrun encode st ops)) (ws ++ sent_ws ops).
Proof.
  induction ops as [|op ops IH]; intros st outs ws H.
  - cbn. rewrite !app_nil_r. exact H.
  - pose proof (FI_step st op outs ws H) as H1. unfold hrun in *. cbn [hrun_trace].
    destruct (hstep encode st op) as [st1 o1]. cbn [fst snd] in H1.
    specialize (IH st1 _ _ H1). destruct (hrun_trace encode st1 ops) as [st2 os]. cbn [fst snd concat] in *.
    replace (ws ++ sent_ws (op :: ops)) with ((ws ++ op_ws op) ++ sent_ws ops).
    2:{ rewrite <- app_assoc. f_equal. destruct op; reflexivity. }
    rewrite app_assoc. exact IH.
Qed.

Lemma handler_final_hrun c ops : handler_final encode c ops = fst (hrun encode (h_init c) ops).
Proof. unfold handler_final, hrun. destruct (hrun_trace encode (h_init c) ops); reflexivity. Qed.

(* Every stream carries at most one frame; the frames are the messages of distinct HSendWantlist ops, in
   the order they were issued; the bytes each stream accepted are a prefix of its one frame (of the empty
   string if no frame was started on it).  Holds for every op list and every script. *)
Theorem C14_one_frame :
  forall (c : conn) (ops : list hop),
    let st := handler_final encode c ops in
    let outs := handler_outs encode c ops in
    NoDup (map fst (h_frames st))
    /\ subseq (map snd (h_frames st)) (map wantlist_message (sent_ws ops))
    /\ (forall id, prefix (wrote_on id outs) (FB (h_frames st) id)).
Proof.
  intros c ops st outs. subst st outs. rewrite handler_final_hrun. unfold handler_outs.
  pose proof (FI_run ops (h_init c) [] [] FIc_init) as [F1 F2 F3 F4 F5 F6]. cbn [app] in *.
  split; [exact F1|]. split; [|exact F4]. eapply subseq_app_l. exact F6.
Qed.

(* poll_flush returns Ok exactly when the stream accepted every buffered byte and then answered the inner
   poll_flush with Ok: the consumed part of the script is a run of WAccept followed by FlushOk *)
Lemma fw_poll_flush_ok_script s : forall buf,
  fr_res (fw_poll_flush buf s) = PrOk ->
  exists pre, s = pre ++ FlushOk :: fr_script (fw_poll_flush buf s)
              /\ Forall (fun x => exists n, x = WAccept n) pre
              /\ wrote_of (fr_evs (fw_poll_flush buf s)) = buf.
Proof.
  induction s as [|x s IH]; intros buf; destruct buf as [|b buf]; cbn [fw_poll_flush]; try discriminate.
  - destruct x; cbn; try discriminate. intros _. exists []. repeat split; constructor.
  - destruct (fw_write1 (b :: buf) x) as [[[w rest]|]|] eqn:E; try discriminate.
    cbn [fw_cons_evs fr_res fr_script fr_evs]. intros H. destruct (IH rest H) as (pre & E1 & E2 & E3).
    exists (x :: pre). split; [cbn; congruence|]. split.
    + constructor; [|exact E2]. destruct x; cbn in E; try discriminate. eauto.
    + apply fw_write1_some in E as [-> _]. cbn. rewrite E3. reflexivity.
Qed.

Lemma in_css_queue_ready st s :
  ~ In (EvState SsReady) (h_queue st) ->
  (In (EvState SsReady) (h_queue (change_sending_state st s)) <-> s = SsReady /\ h_sending st <> SsReady).
Proof.
  intros NI. rewrite css_queue, in_app_iff. destruct (ss_eqb (h_sending st) s) eqn:E.
  - apply ss_eqb_spec in E. cbn. split; [tauto|]. intros [-> H]. congruence.
  - assert (h_sending st <> s) by (intros H; apply ss_eqb_spec in H; congruence).
    cbn. split.
    + intros [H1|[[= <-]|[]]]; [tauto|]. split; [reflexivity | assumption].
    + intros [-> _]. auto.
Qed.

(* C14, third clause, at the level of one pass of the poll loop: SendingStateChanged(Ready) is queued iff
   the handler holds a stream, has nothing left to start, and poll_flush of that stream returns Ok *)
Theorem C14_ready_iff_flushed st s r st' s' o :
  poll_iter encode st s = (r, st', s', o) -> h_queue st = [] ->
  (In (EvState SsReady) (h_queue st') <->
   h_halted st = false /\ timeout_fired st = false /\ h_msg st = None /\ h_sending st <> SsReady /\
   exists id buf, h_sink st = SkReady id buf /\ fr_res (fw_poll_flush buf s) = PrOk).
Proof.
  intros PI Q. revert PI. unfold poll_iter. rewrite Q.
  destruct (h_halted st) eqn:HL.
  { intros [= <- <- <- <-]. rewrite Q. cbn [In]. split; [tauto | intros (H & _); discriminate]. }
  destruct (timeout_fired st) eqn:TF.
  { unfold drop_sink. cbn [h_sink set_msg set_timeout].
    assert (G : forall k, In (EvState SsReady) (h_queue (set_halted (change_sending_state
                 (set_sink (set_msg (set_timeout st None) None) k) (SsFailed (h_conn st))) true)) -> False).
    { intros k. cbn [h_queue set_halted]. rewrite in_css_queue_ready; [intros [H _]; discriminate|].
      cbn. rewrite Q. cbn. tauto. }
    destruct (h_sink st); intros [= <- <- <- <-]; (split; [intros H; destruct (G _ H) | intros (_ & H & _); discriminate]). }
  destruct (h_msg st) as [m|] eqn:M, (h_sink st) as [| |id buf] eqn:K.
  - intros [= <- <- <- <-]. cbn [h_queue set_sink]. rewrite Q. cbn [In]. split; [tauto | intros (_ & _ & H & _); discriminate].
  - intros [= <- <- <- <-]. rewrite Q. cbn [In]. split; [tauto | intros (_ & _ & H & _); discriminate].
  - destruct (fr_res (fw_poll_ready buf s)); intros [= <- <- <- <-].
    + rewrite in_css_queue_ready; [|cbn; rewrite Q; cbn; tauto].
      split; [intros [H _]; discriminate | intros (_ & _ & H & _); discriminate].
    + cbn [h_queue set_sink]. rewrite Q. cbn [In]. split; [tauto | intros (_ & _ & H & _); discriminate].
    + cbn [h_queue set_sink]. rewrite Q. cbn [In]. split; [tauto | intros (_ & _ & H & _); discriminate].
  - intros [= <- <- <- <-]. rewrite Q. cbn [In]. split; [tauto | intros (_ & _ & _ & _ & i & b & H & _); discriminate].
  - intros [= <- <- <- <-]. rewrite Q. cbn [In]. split; [tauto | intros (_ & _ & _ & _ & i & b & H & _); discriminate].
  - destruct (fr_res (fw_poll_flush buf s)) eqn:FR; intros [= <- <- <- <-].
    + rewrite in_css_queue_ready; [|cbn; rewrite Q; cbn; tauto]. cbn [h_sending set_sink].
      split.
      * intros [_ H]. repeat split; auto. exists id, buf. auto.
      * intros (_ & _ & _ & H & _). auto.
    + rewrite in_css_queue_ready; [|cbn; rewrite Q; cbn; tauto].
      split; [intros [H _]; discriminate|].
      intros (_ & _ & _ & _ & i & b & [= <- <-] & H). congruence.
    + cbn [h_queue set_sink]. rewrite Q. cbn [In]. split; [tauto|]. intros (_ & _ & _ & _ & i & b & [= <- <-] & H). congruence.
Qed.

End Proofs.

(* ------------------------------------------------------------------------------------------------ *)
(* Examples (non-vacuity) and refutations, with a concrete toy encoder                              *)
(* ------------------------------------------------------------------------------------------------ *)

Definition ex_encode (m : message) : bytes :=
  match m_wantlist m with
  | Some w => [5; len (w_entries w); (if w_full w then 1 else 0); 7; 7; 7]
  | None => [0]
  end.
Definition ex_w1 : wantlist := MkWantlist [] true.
Definition ex_w2 : wantlist := MkWantlist [default_entry] false.

(* a disciplined run: send, open, allocation failure, retry, partial writes, completion, second wantlist *)
Definition ex_ops : list hop :=
  [HSendWantlist ex_w1; HPoll []; HAllocFailed; HPoll []; HSetStream;
   HPoll [WAccept 2; IoPending]; HAdvance 7000; HPoll [WAccept 9; FlushOk; FlushOk; CloseOk];
   HSendWantlist ex_w2; HPoll []; HSetStream; HPoll [WAccept 3; IoErr]; HPollClose []].

Example C08_handler_no_panic_if_disciplined_ex :
  disciplined ex_encode true 7 ex_ops = true /\
  handler_outs ex_encode 7 ex_ops =
    [HReport (RpRequestReceived 7); HOpenStream; HOpenStream;
     HReport (RpSending 7); HWrote 0 [5; 0];
     HWrote 0 [1; 7; 7; 7]; HStreamClosed 0; HDropped 0; HReport RpReady;
     HReport (RpRequestReceived 7); HOpenStream;
     HReport (RpSending 7); HWrote 1 [5; 1; 0]; HDropped 1; HReport (RpFailed 7); HClosing].
Proof. split; vm_compute; reflexivity. Qed.

(* Without the third rule of the contract (nothing but poll_close after poll_close) the statement is
   false of the model: a DialUpgradeError delivered after poll_close trips the debug_assert! of
   stream_allocation_failed, because poll_close resets sink_state from Requested to None. *)
Theorem C08_handler_no_panic_if_disciplined_refuted :
  exists (c : conn) (ops : list hop),
    disciplined ex_encode false c ops = true /\ In HPanic (handler_outs ex_encode c ops).
Proof.
  exists 7, [HSendWantlist ex_w1; HPoll []; HPollClose []; HAllocFailed].
  split; vm_compute; [reflexivity | intuition].
Qed.

Example C14_one_frame_ex :
  h_frames (handler_final ex_encode 7 ex_ops) = [(0, wantlist_message ex_w1); (1, wantlist_message ex_w2)]
  /\ sent_ws ex_ops = [ex_w1; ex_w2]
  /\ wrote_on 0 (handler_outs ex_encode 7 ex_ops) = ex_encode (wantlist_message ex_w1)
  /\ wrote_on 1 (handler_outs ex_encode 7 ex_ops) = [5; 1; 0]
  /\ FB ex_encode (h_frames (handler_final ex_encode 7 ex_ops)) 1 = [5; 1; 0; 7; 7; 7].
Proof. repeat split; vm_compute; reflexivity. Qed.
