(* Handler_proofs.v — lemmas and theorems about FramedWrite.v and Handler.v.

   Main results (all for an arbitrary `encode`, arbitrary op lists and scripts):
     do_poll_not_exhausted                      the fuel of hpoll_loop always suffices
     C08_handler_no_panic_if_disciplined        (+ _ex, + _refuted for the contract without its third rule)
     C14_one_frame                              (+ _ex)   one frame per stream, prefix property
     C14_ready_iff_flushed                      when exactly RpReady is queued (one loop pass)
     C14_ready_means_delivered                  RpReady => last wantlist written completely (contract)
     C14_report_protocol, C14_no_silent_loss    (+ _ex)   exactly one outcome, closing, progress, timeout
     C14_send_completes, C14_progress_reaches_ready, C14_flush_ok_reports_ready
     C05_handler_reports                        (+ _ex)   = C05_timeout_reports_failed, C05_flush_error_reports_failed,
                                                C05_close_reports_failed, C05_alloc_failure_retries *)
From BS Require Import Handler.
From Coq Require Import ZArith ZifyBool ZifyN ZifyNat Lia.

(* ------------------------------------------------------------------------------------------------ *)
(* FramedWrite lemmas                                                                               *)
(* ------------------------------------------------------------------------------------------------ *)

Lemma splitN_app {A} (k : N) (l a b : list A) : splitN k l = (a, b) -> l = a ++ b.
Proof.
  revert k a b; induction l as [|x l IH]; intros k a b H; cbn [splitN] in H.
  - inversion H; reflexivity.
  - destruct (k =? 0).
    + inversion H; reflexivity.
    + destruct (splitN (k - 1) l) as [a' b'] eqn:E. inversion H; subst. cbn. f_equal. eapply IH; eauto.
Qed.

Lemma splitN_len {A} (k : N) (l a b : list A) : splitN k l = (a, b) -> len a = N.min k (len l).
Proof.
  revert k a b; induction l as [|x l IH]; intros k a b H; cbn [splitN] in H.
  - inversion H; subst. rewrite !len_nil. lia.
  - destruct (k =? 0) eqn:K.
    + inversion H; subst. rewrite len_nil. lia.
    + destruct (splitN (k - 1) l) as [a' b'] eqn:E. inversion H; subst.
      rewrite !len_cons. rewrite (IH _ _ _ E). lia.
Qed.

(* bytes the stream recorded as accepted *)
Fixpoint wrote_of (evs : list sev) : bytes :=
  match evs with
  | [] => []
  | SevWrote bs :: e => bs ++ wrote_of e
  | SevClosed :: e => wrote_of e
  end.

Lemma wrote_of_app a b : wrote_of (a ++ b) = wrote_of a ++ wrote_of b.
Proof. induction a as [|[bs|] a IH]; cbn; rewrite ?IH, ?app_assoc; reflexivity. Qed.

Lemma fw_write1_some buf x w rest : fw_write1 buf x = Some (Some (w, rest)) -> buf = w ++ rest /\ w <> [].
Proof.
  destruct x; cbn; try discriminate.
  destruct (N.min n (len buf) =? 0) eqn:K; [discriminate|].
  intros [= H]. split; [eapply splitN_app; eauto|].
  apply splitN_len in H. intros ->. rewrite len_nil in H. lia.
Qed.

(* no byte is lost or invented by poll_flush: accepted ++ still buffered = buffered before *)
Lemma fw_poll_flush_conserve script : forall buf,
  wrote_of (fr_evs (fw_poll_flush buf script)) ++ fr_buf (fw_poll_flush buf script) = buf.
Proof.
  induction script as [|x s IH]; intros buf; destruct buf as [|b buf]; cbn [fw_poll_flush]; try reflexivity.
  - destruct (io_flush (x :: s)) as [r s']. reflexivity.
  - destruct (fw_write1 (b :: buf) x) as [[[w rest]|]|] eqn:E; try reflexivity.
    apply fw_write1_some in E as [-> _]. cbn. rewrite <- app_assoc, IH. reflexivity.
Qed.

Lemma fw_poll_flush_ok script : forall buf,
  fr_res (fw_poll_flush buf script) = PrOk -> fr_buf (fw_poll_flush buf script) = [].
Proof.
  induction script as [|x s IH]; intros buf; destruct buf as [|b buf]; cbn [fw_poll_flush]; try discriminate.
  - destruct (io_flush (x :: s)) as [r s']. reflexivity.
  - destruct (fw_write1 (b :: buf) x) as [[[w rest]|]|] eqn:E; try discriminate. cbn. apply IH.
Qed.

Lemma fw_poll_flush_no_close script : forall buf, ~ In SevClosed (fr_evs (fw_poll_flush buf script)).
Proof.
  induction script as [|x s IH]; intros buf; destruct buf as [|b buf]; cbn [fw_poll_flush]; try (cbn; tauto).
  - destruct (io_flush (x :: s)) as [r s']. cbn; tauto.
  - destruct (fw_write1 (b :: buf) x) as [[[w rest]|]|] eqn:E; try (cbn; tauto).
    cbn. intros [H|H]; [discriminate|]. eapply IH; eauto.
Qed.

Lemma fw_poll_ready_conserve script : forall buf,
  wrote_of (fr_evs (fw_poll_ready buf script)) ++ fr_buf (fw_poll_ready buf script) = buf.
Proof.
  induction script as [|x s IH]; intros buf; cbn [fw_poll_ready]; destruct (len buf <? HIGH_WATER_MARK); try reflexivity.
  destruct (fw_write1 buf x) as [[[w rest]|]|] eqn:E; try reflexivity.
  apply fw_write1_some in E as [-> _]. cbn. rewrite <- app_assoc, IH. reflexivity.
Qed.

Lemma fw_poll_ready_empty script : fw_poll_ready [] script = MkFwRes PrOk [] script [].
Proof. destruct script; reflexivity. Qed.

Lemma io_close_wrote script : wrote_of (snd (io_close script)) = [].
Proof. destruct script as [|[] s]; reflexivity. Qed.

Lemma fw_poll_close_conserve script buf :
  wrote_of (fr_evs (fw_poll_close buf script)) ++ fr_buf (fw_poll_close buf script) = buf.
Proof.
  unfold fw_poll_close. pose proof (fw_poll_flush_conserve script buf) as H.
  destruct (fr_res (fw_poll_flush buf script)); try exact H.
  pose proof (io_close_wrote (fr_script (fw_poll_flush buf script))) as W.
  destruct (io_close _) as [[r s] e]. cbn in *. rewrite wrote_of_app, W, app_nil_r. exact H.
Qed.

(* ------------------------------------------------------------------------------------------------ *)
(* Handler: basic facts                                                                             *)
(* ------------------------------------------------------------------------------------------------ *)

Lemma ss_eqb_spec a b : ss_eqb a b = true <-> a = b.
Proof.
  destruct a, b; cbn; rewrite ?andb_true_iff, ?N.eqb_eq; split; intros H;
    try discriminate; try reflexivity; try (destruct H; subst; reflexivity);
    try (inversion H; subst; auto).
Qed.

Lemma css_cases st s :
  (change_sending_state st s = st /\ h_sending st = s) \/
  (change_sending_state st s = set_queue (set_sending st s) (h_queue st ++ [EvState s]) /\ h_sending st <> s).
Proof.
  unfold change_sending_state. destruct (ss_eqb (h_sending st) s) eqn:E.
  - left. split; [reflexivity | apply ss_eqb_spec; exact E].
  - right. split; [reflexivity|]. intros H. apply ss_eqb_spec in H. congruence.
Qed.

Lemma css_sending st s : h_sending (change_sending_state st s) = s.
Proof. destruct (css_cases st s) as [[-> H]|[-> _]]; [exact H | reflexivity]. Qed.

Ltac css_fields := intros st s; unfold change_sending_state; destruct (ss_eqb _ _); reflexivity.
Lemma css_msg : forall st s, h_msg (change_sending_state st s) = h_msg st. Proof. css_fields. Qed.
Lemma css_sink : forall st s, h_sink (change_sending_state st s) = h_sink st. Proof. css_fields. Qed.
Lemma css_halted : forall st s, h_halted (change_sending_state st s) = h_halted st. Proof. css_fields. Qed.
Lemma css_closing : forall st s, h_closing (change_sending_state st s) = h_closing st. Proof. css_fields. Qed.
Lemma css_timeout : forall st s, h_timeout (change_sending_state st s) = h_timeout st. Proof. css_fields. Qed.
Lemma css_now : forall st s, h_now (change_sending_state st s) = h_now st. Proof. css_fields. Qed.
Lemma css_next : forall st s, h_next (change_sending_state st s) = h_next st. Proof. css_fields. Qed.
Lemma css_conn : forall st s, h_conn (change_sending_state st s) = h_conn st. Proof. css_fields. Qed.
Lemma css_panicked : forall st s, h_panicked (change_sending_state st s) = h_panicked st. Proof. css_fields. Qed.
Lemma css_exhausted : forall st s, h_exhausted (change_sending_state st s) = h_exhausted st. Proof. css_fields. Qed.
Lemma css_frames : forall st s, h_frames (change_sending_state st s) = h_frames st. Proof. css_fields. Qed.

Lemma css_queue st s :
  h_queue (change_sending_state st s) = h_queue st ++ (if ss_eqb (h_sending st) s then [] else [EvState s]).
Proof. unfold change_sending_state. destruct (ss_eqb _ _); cbn; rewrite ?app_nil_r; reflexivity. Qed.

#[export] Hint Rewrite css_sending css_msg css_sink css_halted css_closing css_timeout css_now css_next
  css_conn css_panicked css_exhausted css_frames : css.

Arguments change_sending_state : simpl never.

Section Proofs.
Variable encode : message -> bytes.

(* ------------------------------------------------------------------------------------------------ *)
(* The fuel of hpoll_loop is always sufficient                                                      *)
(* ------------------------------------------------------------------------------------------------ *)

Definition rank (st : hstate) : nat :=
  if h_halted st then 0%nat else
  match h_msg st, h_sink st with
  | None, SkNone => 1
  | _, SkRequested => 1
  | Some _, SkNone => 2
  | None, SkReady _ _ => 2
  | Some _, SkReady _ _ => 3
  end%nat.

Definition phi (st : hstate) : nat := (length (h_queue st) + 2 * rank st)%nat.

Lemma rank_le3 st : (rank st <= 3)%nat.
Proof. unfold rank. destruct (h_halted st), (h_msg st), (h_sink st); lia. Qed.

Lemma css_queue_len st s : (length (h_queue (change_sending_state st s)) <= length (h_queue st) + 1)%nat.
Proof. rewrite css_queue, app_length. destruct (ss_eqb _ _); cbn; lia. Qed.

Lemma poll_iter_phi st s r st' s' o :
  poll_iter encode st s = (r, st', s', o) -> r = IrPending \/ (phi st' < phi st)%nat.
Proof.
  unfold poll_iter. destruct st as [c q m k sd cl hl tm nw nx pn ex fr]. cbn [h_queue h_halted h_msg h_sink h_conn h_now].
  destruct q as [|ev q].
  2:{ intros [= <- <- <- <-]. right. unfold phi, rank; cbn. lia. }
  destruct hl. { intros [= <- <- <- <-]. left; reflexivity. }
  destruct (timeout_fired _) eqn:TF.
  { unfold drop_sink. cbn [h_sink set_msg set_timeout].
    destruct k as [| |id buf]; intros [= <- <- <- <-]; right; unfold phi, rank; cbn [h_halted set_halted h_queue];
      match goal with |- context [change_sending_state ?a ?b] => pose proof (css_queue_len a b) as L end;
      cbn in L |- *; destruct m; lia. }
  destruct m as [m|], k as [| |id buf]; try (intros [= <- <- <- <-]; left; reflexivity).
  - intros [= <- <- <- <-]. right. unfold phi, rank; cbn. lia.
  - destruct (fr_res (fw_poll_ready buf s)); intros [= <- <- <- <-]; [right|right|left; reflexivity].
    + unfold phi, rank.
      match goal with |- context [change_sending_state ?a ?b] => pose proof (css_queue_len a b) as L end.
      autorewrite with css. cbn in L |- *. lia.
    + unfold phi, rank; cbn. lia.
  - destruct (fr_res (fw_poll_flush buf s)); intros [= <- <- <- <-]; [right|right|left; reflexivity].
    all: unfold phi, rank;
      match goal with |- context [change_sending_state ?a ?b] => pose proof (css_queue_len a b) as L end;
      autorewrite with css; cbn in L |- *; lia.
Qed.

Lemma poll_iter_pending_queue st s st' s' o :
  poll_iter encode st s = (IrPending, st', s', o) -> h_queue st' = [] /\ h_exhausted st' = h_exhausted st
  /\ h_panicked st' = h_panicked st.
Proof.
  unfold poll_iter. destruct st as [c q m k sd cl hl tm nw nx pn ex fr]. cbn [h_queue h_halted h_msg h_sink h_conn h_now].
  destruct q as [|ev q]; [|discriminate].
  destruct hl. { intros [= <- <- <-]. auto. }
  destruct (timeout_fired _). { destruct (drop_sink _). discriminate. }
  destruct m as [m|], k as [| |id buf]; try (intros [= <- <- <-]; auto); try discriminate.
  - destruct (fr_res (fw_poll_ready buf s)); try discriminate. intros [= <- <- <-]. auto.
  - destruct (fr_res (fw_poll_flush buf s)); try discriminate. intros [= <- <- <-]. auto.
Qed.

Lemma poll_iter_flags st s r st' s' o :
  poll_iter encode st s = (r, st', s', o) ->
  h_exhausted st' = h_exhausted st /\ h_panicked st' = h_panicked st /\ h_conn st' = h_conn st
  /\ h_now st' = h_now st /\ h_next st' = h_next st /\ h_closing st' = h_closing st.
Proof.
  unfold poll_iter. destruct st as [c q m k sd cl hl tm nw nx pn ex fr]. cbn [h_queue h_halted h_msg h_sink h_conn h_now].
  destruct q as [|ev q]. 2:{ intros [= <- <- <- <-]. cbn. auto 10. }
  destruct hl. { intros [= <- <- <- <-]. cbn; auto 10. }
  destruct (timeout_fired _).
  { unfold drop_sink. cbn [h_sink set_msg set_timeout]. destruct k; intros [= <- <- <- <-]; cbn;
      autorewrite with css; cbn; auto 10. }
  destruct m as [m|], k as [| |id buf]; try (intros [= <- <- <- <-]; cbn; auto 10).
  - destruct (fr_res (fw_poll_ready buf s)); intros [= <- <- <- <-]; autorewrite with css; cbn; auto 10.
  - destruct (fr_res (fw_poll_flush buf s)); intros [= <- <- <- <-]; autorewrite with css; cbn; auto 10.
Qed.

Lemma hpoll_loop_not_exhausted fuel : forall st s,
  (phi st < fuel)%nat -> h_exhausted st = false ->
  h_exhausted (fst (hpoll_loop encode fuel st s)) = false /\ h_queue (fst (hpoll_loop encode fuel st s)) = [].
Proof.
  induction fuel as [|f IH]; intros st s Hphi Hex; [lia|].
  cbn [hpoll_loop]. destruct (poll_iter encode st s) as [[[r st'] s'] o] eqn:E.
  pose proof (poll_iter_phi _ _ _ _ _ _ E) as P.
  pose proof (poll_iter_flags _ _ _ _ _ _ E) as (F1 & _).
  destruct r.
  - apply poll_iter_pending_queue in E as (Q & X & _). cbn. split; congruence.
  - destruct P as [P|P]; [discriminate|].
    specialize (IH st' s' ltac:(lia) ltac:(congruence)).
    destruct (hpoll_loop encode f st' s'). exact IH.
  - destruct P as [P|P]; [discriminate|].
    specialize (IH st' s' ltac:(lia) ltac:(congruence)).
    destruct (hpoll_loop encode f st' s'). exact IH.
Qed.

Lemma do_poll_not_exhausted st s :
  h_exhausted st = false ->
  h_exhausted (fst (do_poll encode st s)) = false /\ h_queue (fst (do_poll encode st s)) = [].
Proof.
  intros H. apply hpoll_loop_not_exhausted; [|exact H].
  unfold poll_fuel, phi. pose proof (rank_le3 st). lia.
Qed.

(* ------------------------------------------------------------------------------------------------ *)
(* Theorem 1: C08_handler_no_panic_if_disciplined                                                   *)
(* ------------------------------------------------------------------------------------------------ *)

Fixpoint last_state (q : list hev) : option sending_state :=
  match q with
  | [] => None
  | EvState s :: q' => match last_state q' with Some s' => Some s' | None => Some s end
  | EvClosing :: q' => last_state q'
  end.

Lemma last_state_app_state q s : last_state (q ++ [EvState s]) = Some s.
Proof. induction q as [|[s0|] q IH]; cbn; rewrite ?IH; reflexivity. Qed.

Lemma last_state_app_closing q : last_state (q ++ [EvClosing]) = last_state q.
Proof. induction q as [|[s0|] q IH]; cbn; rewrite ?IH; reflexivity. Qed.

Definition is_stream_out (o : hout) : bool :=
  match o with HWrote _ _ | HStreamClosed _ | HDropped _ => true | _ => false end.

Lemma env_out_stream o e : Forall (fun x => is_stream_out x = true) o -> fold_left env_out o e = e.
Proof.
  induction o as [|x o IH]; intros H; [reflexivity|]. inversion H as [|? ? Hx Ho]; subst.
  cbn. destruct x; try discriminate; apply IH; assumption.
Qed.

Lemma sev_outs_stream id evs : Forall (fun x => is_stream_out x = true) (map (hout_of_sev id) evs).
Proof. induction evs as [|[bs|] e IH]; constructor; auto. Qed.

Record NP (st : hstate) (e : env) : Prop := MkNP {
  np_panic : h_panicked st = false;
  np_A : forall s, last_state (h_queue st) = Some s -> h_sending st = s;
  np_B : last_state (h_queue st) = None -> e_ready e = true -> h_sending st = SsReady;
  np_C : h_sending st = SsReady -> h_msg st = None;
  np_E : e_open e = true -> h_sink st = SkRequested \/ h_halted st = true \/ e_closed e = true
}.

Lemma report_ready s : report_of s = RpReady -> s = SsReady.
Proof. destruct s; cbn; congruence. Qed.

Lemma NP_pop st e ev q :
  h_queue st = ev :: q -> NP st e -> NP (set_queue st q) (env_out e (hout_of_ev ev)).
Proof.
  intros Q [P A B C E]. rewrite Q in A, B. destruct ev as [s0|]; cbn [hout_of_ev].
  - assert (E' : forall r, e_open (env_out e (HReport r)) = e_open e /\ e_closed (env_out e (HReport r)) = e_closed e)
      by (intros []; cbn; auto).
    destruct (E' (report_of s0)) as [E1 E2].
    constructor; cbn [set_queue h_panicked h_queue h_sending h_msg h_sink h_halted]; auto.
    + intros s H. apply A. cbn. rewrite H. reflexivity.
    + intros H R. cbn in A. rewrite H in A. rewrite (A s0 eq_refl).
      apply report_ready. unfold env_out in R. destruct (report_of s0); cbn in R; congruence.
    + rewrite E1, E2. exact E.
  - cbn [env_out]. constructor; cbn [set_queue h_panicked h_queue h_sending h_msg h_sink h_halted]; auto.
Qed.

Lemma NP_css st e s :
  NP st e -> (s = SsReady -> h_msg st = None) -> NP (change_sending_state st s) e.
Proof.
  intros [P A B C E] H. destruct (css_cases st s) as [[-> _]|[-> _]]; [constructor; auto|].
  constructor; cbn; auto.
  - intros s1. rewrite last_state_app_state. congruence.
  - rewrite last_state_app_state. discriminate.
Qed.

(* NP only looks at these fields *)
Lemma NP_ext st st' e :
  h_panicked st' = h_panicked st -> h_queue st' = h_queue st -> h_sending st' = h_sending st ->
  (h_sending st = SsReady -> h_msg st = None -> h_msg st' = None) ->
  (e_open e = true -> (h_sink st = SkRequested \/ h_halted st = true \/ e_closed e = true) ->
     h_sink st' = SkRequested \/ h_halted st' = true \/ e_closed e = true) ->
  NP st e -> NP st' e.
Proof.
  intros H1 H2 H3 H4 H5 [P A B C E]. constructor; rewrite ?H1, ?H2, ?H3; auto.
Qed.

Lemma poll_iter_outs_stream st s r st' s' o :
  poll_iter encode st s = (r, st', s', o) -> Forall (fun x => is_stream_out x = true) o.
Proof.
  unfold poll_iter. destruct (h_queue st). 2:{ intros [= <- <- <- <-]. constructor. }
  destruct (h_halted st). { intros [= <- <- <- <-]. constructor. }
  destruct (timeout_fired st).
  { unfold drop_sink. cbn [h_sink set_msg set_timeout]. destruct (h_sink st); intros [= <- <- <- <-]; repeat constructor. }
  destruct (h_msg st), (h_sink st) as [| |id buf]; try (intros [= <- <- <- <-]; constructor).
  - destruct (fr_res (fw_poll_ready buf s)); intros [= <- <- <- <-];
      rewrite ?Forall_app; repeat split; try apply sev_outs_stream; repeat constructor.
  - destruct (fr_res (fw_poll_flush buf s)); intros [= <- <- <- <-];
      rewrite ?Forall_app; repeat split; try apply sev_outs_stream; repeat constructor.
Qed.

Lemma css_set_halted st s b :
  change_sending_state (set_halted st b) s = set_halted (change_sending_state st s) b.
Proof. unfold change_sending_state. cbn. destruct (ss_eqb _ _); reflexivity. Qed.

Definition iter_out (r : iter_res) : list hout := match r with IrReady x => [x] | _ => [] end.

Lemma NP_poll_iter st e s r st' s' o :
  poll_iter encode st s = (r, st', s', o) -> NP st e ->
  NP st' (fold_left env_out (o ++ iter_out r) e).
Proof.
  intros PI N. pose proof (poll_iter_outs_stream _ _ _ _ _ _ PI) as SO.
  rewrite fold_left_app, (env_out_stream _ _ SO). clear SO.
  revert PI. unfold poll_iter. destruct (h_queue st) as [|ev q] eqn:Q.
  2:{ intros [= <- <- <- <-]. cbn. apply NP_pop; assumption. }
  destruct (h_halted st) eqn:HL. { intros [= <- <- <- <-]. exact N. }
  destruct (timeout_fired st).
  { unfold drop_sink. cbn [h_sink set_msg set_timeout].
    assert (G : forall k, NP (set_halted (change_sending_state (set_sink (set_msg (set_timeout st None) None) k)
                 (SsFailed (h_conn st))) true) e).
    { intros k. rewrite <- css_set_halted. apply NP_css; [|discriminate].
      eapply NP_ext with (st := st); try reflexivity; cbn; auto. }
    destruct (h_sink st); intros [= <- <- <- <-]; cbn; apply G. }
  destruct (h_msg st) as [m|] eqn:M, (h_sink st) as [| |id buf] eqn:K; try (intros [= <- <- <- <-]; exact N).
  - (* open_new_substream *)
    intros [= <- <- <- <-]. cbn. destruct N as [P A B C E]. constructor; cbn; auto.
  - destruct (fr_res (fw_poll_ready buf s)); intros [= <- <- <- <-]; cbn.
    + apply NP_css; [|cbn; discriminate].
      eapply NP_ext with (st := st); try reflexivity; cbn; auto.
      rewrite K. intros _ [H|[H|H]]; auto; discriminate.
    + eapply NP_ext with (st := st); try reflexivity; cbn; auto.
      rewrite K. intros _ [H|[H|H]]; auto; discriminate.
    + eapply NP_ext with (st := st); try reflexivity; cbn; auto.
      rewrite K. intros _ [H|[H|H]]; auto; discriminate.
  - destruct (fr_res (fw_poll_flush buf s)); intros [= <- <- <- <-]; cbn.
    + apply NP_css; [|cbn; auto].
      eapply NP_ext with (st := st); try reflexivity; cbn; auto.
      rewrite K. intros _ [H|[H|H]]; auto; discriminate.
    + apply NP_css; [|discriminate].
      eapply NP_ext with (st := st); try reflexivity; cbn; auto.
      rewrite K. intros _ [H|[H|H]]; auto; discriminate.
    + eapply NP_ext with (st := st); try reflexivity; cbn; auto.
      rewrite K. intros _ [H|[H|H]]; auto; discriminate.
Qed.

Definition not_panic (o : hout) : Prop := o <> HPanic.

Lemma stream_out_not_panic o : Forall (fun x => is_stream_out x = true) o -> Forall not_panic o.
Proof. apply Forall_impl. intros [] H; cbn in H; try discriminate; intros E; discriminate. Qed.

Lemma hout_of_ev_not_panic ev : not_panic (hout_of_ev ev).
Proof. destruct ev; intros E; discriminate. Qed.

Lemma poll_iter_ready_not_panic st s x st' s' o :
  poll_iter encode st s = (IrReady x, st', s', o) -> not_panic x.
Proof.
  unfold poll_iter. destruct (h_queue st). 2:{ intros [= <- <- <- <-]. apply hout_of_ev_not_panic. }
  destruct (h_halted st); [discriminate|].
  destruct (timeout_fired st). { destruct (drop_sink _); discriminate. }
  destruct (h_msg st), (h_sink st) as [| |id buf]; try discriminate.
  - intros [= <- <- <- <-]. intros E; discriminate.
  - destruct (fr_res _); discriminate.
  - destruct (fr_res _); discriminate.
Qed.

Lemma NP_hpoll_loop fuel : forall st e s,
  NP st e ->
  NP (fst (hpoll_loop encode fuel st s)) (fold_left env_out (snd (hpoll_loop encode fuel st s)) e)
  /\ Forall not_panic (snd (hpoll_loop encode fuel st s)).
Proof.
  induction fuel as [|f IH]; intros st e s N.
  - cbn. split; [|constructor]. eapply NP_ext with (st := st); try reflexivity; auto.
  - cbn [hpoll_loop]. destruct (poll_iter encode st s) as [[[r st'] s'] o] eqn:PI.
    pose proof (NP_poll_iter _ _ _ _ _ _ _ PI N) as N'.
    pose proof (stream_out_not_panic _ (poll_iter_outs_stream _ _ _ _ _ _ PI)) as SO.
    destruct r; cbn [iter_out] in N'.
    + rewrite app_nil_r in N'. cbn. auto.
    + specialize (IH st' _ s' N'). destruct (hpoll_loop encode f st' s') as [st'' o']. cbn [fst snd] in *.
      replace (o ++ o0 :: o') with ((o ++ [o0]) ++ o') by (rewrite <- app_assoc; reflexivity).
      rewrite fold_left_app. split; [apply IH|].
      rewrite !Forall_app. repeat split; auto; [|apply IH].
      constructor; [|constructor]. eapply poll_iter_ready_not_panic; eauto.
    + rewrite app_nil_r in N'.
      specialize (IH st' _ s' N'). destruct (hpoll_loop encode f st' s') as [st'' o']. cbn [fst snd] in *.
      rewrite fold_left_app. split; [apply IH|]. rewrite Forall_app. split; [auto|apply IH].
Qed.

Lemma NP_drain st e :
  NP st e ->
  NP (set_queue st []) (fold_left env_out (map hout_of_ev (h_queue st)) e).
Proof.
  remember (h_queue st) as q eqn:Q. revert st e Q.
  induction q as [|ev q IH]; intros st e Q N.
  - cbn. eapply NP_ext with (st := st); try reflexivity; cbn; auto.
  - cbn. pose proof (NP_pop st e ev q (eq_sym Q) N) as N'.
    specialize (IH (set_queue st q) _ eq_refl N'). exact IH.
Qed.

(* op-boundary invariant *)
Definition NPop (st : hstate) (e : env) : Prop :=
  NP st e /\ h_exhausted st = false /\ (h_queue st = [] \/ e_ready e = false).

Lemma NPop_init c : NPop (h_init c) env_init.
Proof.
  split; [|split; [reflexivity | left; reflexivity]].
  constructor; cbn; auto; try discriminate.
Qed.

Lemma NPop_step st e op :
  NPop st e -> op_allowed true e op = true ->
  NPop (fst (hstep encode st op)) (env_step e op (snd (hstep encode st op)))
  /\ Forall not_panic (snd (hstep encode st op)).
Proof.
  intros (N & X & D) AL. pose proof N as [P A B C E].
  unfold hstep, env_step. rewrite P.
  destruct op as [w| | |ms|s|s]; cbn [op_allowed] in AL; rewrite ?andb_true_iff, ?negb_true_iff in AL.
  - (* HSendWantlist *)
    destruct AL as [R _]. unfold do_send_wantlist. destruct (h_halted st) eqn:HL.
    + cbn. split; [|constructor]. split; [|split; auto].
      constructor; cbn; auto; try discriminate.
    + destruct D as [D|D]; [|congruence].
      rewrite D in B. specialize (B eq_refl R). rewrite (C B), B. cbn [fst snd fold_left env_op].
      split; [|constructor]. split; [|split].
      * destruct (css_cases (set_msg st (Some (wantlist_message w))) (SsRequestReceived (h_now st) (h_conn st)))
          as [[_ H]|[EQ _]]; [cbn in H; congruence|].
        rewrite EQ. constructor; cbn; rewrite ?D; cbn; auto; try discriminate; try congruence.
        intros O; destruct (E O) as [H|[H|H]]; auto; discriminate.
      * cbn. autorewrite with css. exact X.
      * right. reflexivity.
  - (* HSetStream *)
    destruct AL as [O _]. unfold do_set_stream. destruct (h_halted st) eqn:HL.
    + cbn. split; [|repeat constructor; discriminate]. split; [|split; auto].
      constructor; cbn; auto; try discriminate.
    + unfold drop_sink. cbn [h_sink set_next].
      assert (G : forall o, Forall (fun x => is_stream_out x = true) o ->
                NPop (set_sink (set_sink (set_next st (h_next st + 1)) SkNone) (SkReady (h_next st) []))
                     (fold_left env_out o (MkEnv (e_ready e) false (e_closed e)))).
      { intros o SO. rewrite (env_out_stream _ _ SO). split; [|split; auto].
        constructor; cbn; auto; try discriminate. }
      destruct (h_sink st); cbn [fst snd env_op]; (split; [apply G|]); repeat constructor; discriminate.
  - (* HAllocFailed *)
    destruct AL as [O CL]. rewrite andb_false_iff in CL. unfold do_alloc_failed. destruct (h_halted st) eqn:HL.
    + cbn. split; [|constructor]. split; [|split; auto]. constructor; cbn; auto; try discriminate.
    + destruct (E O) as [K|[K|K]]; [|congruence|destruct CL; congruence].
      rewrite K. cbn. split; [|constructor]. split; [|split; auto]. constructor; cbn; auto; try discriminate.
  - (* HAdvance *)
    cbn. split; [|constructor]. split; [|split; auto]. constructor; cbn; auto.
  - (* HPoll *)
    cbn [env_op]. destruct (NP_hpoll_loop (poll_fuel st) st e s N) as [N' NPn].
    destruct (do_poll_not_exhausted st s X) as [X' Q'].
    unfold do_poll in *. split; [|exact NPn]. split; [exact N'|]. split; [exact X'|]. left; exact Q'.
  - (* HPollClose *)
    cbn [env_op]. unfold do_poll_close.
    set (e1 := MkEnv (e_ready e) (e_open e) true).
    assert (N1 : NP st e1).
    { constructor; cbn; auto. }
    destruct (h_closing st) eqn:CLg.
    + cbn [fst snd app]. pose proof (NP_drain st e1 N1) as Dr. split.
      * split; [exact Dr|]. split; [exact X|]. left; reflexivity.
      * clear. induction (h_queue st); constructor; auto using hout_of_ev_not_panic.
    + assert (G : forall k o, Forall (fun x => is_stream_out x = true) o ->
        let st2 := set_sink (set_msg (set_closing st true) None) k in
        let st3 := match h_sending st2 with
                   | SsRequestReceived _ _ | SsSending _ _ => change_sending_state st2 (SsFailed (h_conn st))
                   | _ => st2 end in
        let st4 := set_queue st3 (h_queue st3 ++ [EvClosing]) in
        NPop (set_queue st4 []) (fold_left env_out (o ++ map hout_of_ev (h_queue st4)) e1)
        /\ Forall not_panic (o ++ map hout_of_ev (h_queue st4))).
      { intros k o SO st2 st3 st4.
        assert (N2 : NP st2 e1).
        { eapply NP_ext with (st := st); try reflexivity; cbn; auto. }
        assert (N3 : NP st3 e1).
        { subst st3. destruct (h_sending st2); auto; apply NP_css; auto; discriminate. }
        assert (N4 : NP st4 e1).
        { destruct N3 as [P3 A3 B3 C3 E3]. constructor; cbn; auto; rewrite last_state_app_closing; auto. }
        assert (X4 : h_exhausted st4 = false).
        { subst st4 st3. cbn [h_exhausted set_queue]. destruct (h_sending st2); autorewrite with css; exact X. }
        rewrite fold_left_app, (env_out_stream _ _ SO). split.
        - split; [apply NP_drain; exact N4|]. split; [exact X4|]. left; reflexivity.
        - rewrite Forall_app. split; [apply stream_out_not_panic; exact SO|].
          clear. induction (h_queue st4); constructor; auto using hout_of_ev_not_panic. }
      cbn [h_sink set_msg set_closing].
      destruct (h_sink st) as [| |id buf] eqn:K.
      * specialize (G SkNone [] ltac:(constructor)). cbn [app] in G. exact G.
      * specialize (G SkNone [] ltac:(constructor)). cbn [app] in G. exact G.
      * specialize (G SkNone (map (hout_of_sev id) (fr_evs (fw_poll_close buf s)) ++ [HDropped id])).
        apply G. rewrite Forall_app. split; [apply sev_outs_stream|repeat constructor].
Qed.

Lemma disciplined_no_panic ops : forall st e,
  NPop st e -> disciplined_from encode true st e ops = true -> Forall not_panic (snd (hrun encode st ops)).
Proof.
  induction ops as [|op ops IH]; intros st e N D; [constructor|].
  cbn [disciplined_from] in D. apply andb_true_iff in D as [AL D].
  destruct (NPop_step st e op N AL) as [N' NPn].
  unfold hrun. cbn [hrun_trace]. destruct (hstep encode st op) as [st' o] eqn:HS. cbn [fst snd] in *.
  specialize (IH st' _ N' D). unfold hrun in IH.
  destruct (hrun_trace encode st' ops) as [st'' os]. cbn [snd concat] in *.
  rewrite Forall_app. split; assumption.
Qed.

(* No op sequence that respects the contract (strict = true) makes the handler panic. *)
Theorem C08_handler_no_panic_if_disciplined :
  forall (c : conn) (ops : list hop),
    disciplined encode true c ops = true -> ~ In HPanic (handler_outs encode c ops).
Proof.
  intros c ops D HIn. pose proof (disciplined_no_panic ops _ _ (NPop_init c) D) as F.
  unfold handler_outs in HIn. rewrite Forall_forall in F. exact (F _ HIn eq_refl).
Qed.

(* ------------------------------------------------------------------------------------------------ *)
(* Theorem 2: C14_one_frame                                                                         *)
(* ------------------------------------------------------------------------------------------------ *)

(* bytes accepted by stream number id, read off the outputs *)
Fixpoint wrote_on (id : N) (outs : list hout) : bytes :=
  match outs with
  | [] => []
  | HWrote i bs :: r => if i =? id then bs ++ wrote_on id r else wrote_on id r
  | _ :: r => wrote_on id r
  end.

Lemma wrote_on_app id a b : wrote_on id (a ++ b) = wrote_on id a ++ wrote_on id b.
Proof.
  induction a as [|x a IH]; [reflexivity|]. destruct x; cbn; auto.
  destruct (stream =? id); rewrite IH, ?app_assoc; reflexivity.
Qed.

Lemma wrote_on_sevs id id' evs :
  wrote_on id (map (hout_of_sev id') evs) = if id' =? id then wrote_of evs else [].
Proof.
  induction evs as [|[bs|] e IH]; cbn.
  - destruct (id' =? id); reflexivity.
  - rewrite IH. destruct (id' =? id); reflexivity.
  - exact IH.
Qed.

Definition no_writes (o : list hout) : Prop := forall id, wrote_on id o = [].

Lemma no_writes_nil : no_writes []. Proof. intros id; reflexivity. Qed.
Lemma no_writes_dropped i : no_writes [HDropped i]. Proof. intros id; reflexivity. Qed.
Lemma no_writes_ev l : no_writes (map hout_of_ev l).
Proof. intros id. induction l as [|[s|] l IH]; cbn; auto. Qed.
Lemma no_writes_app a b : no_writes a -> no_writes b -> no_writes (a ++ b).
Proof. intros A B id. rewrite wrote_on_app, A, B. reflexivity. Qed.

(* the frame started on a stream, read off the ghost log *)
Fixpoint frame_of (fr : list (N * message)) (id : N) : option message :=
  match fr with
  | [] => None
  | (i, m) :: r => if i =? id then Some m else frame_of r id
  end.

Lemma frame_of_app fr l id :
  frame_of (fr ++ l) id = match frame_of fr id with Some m => Some m | None => frame_of l id end.
Proof. induction fr as [|[i m] fr IH]; cbn; [reflexivity|]. destruct (i =? id); auto. Qed.

Lemma frame_of_none fr id : frame_of fr id = None <-> ~ In id (map fst fr).
Proof.
  induction fr as [|[i m] fr IH]; cbn; [tauto|]. destruct (i =? id) eqn:E.
  - apply N.eqb_eq in E. split; [discriminate | intros H; exfalso; apply H; auto].
  - apply N.eqb_neq in E. rewrite IH. tauto.
Qed.

Lemma frame_of_in fr id m : frame_of fr id = Some m -> In (id, m) fr.
Proof.
  induction fr as [|[i m'] fr IH]; cbn; [discriminate|]. destruct (i =? id) eqn:E.
  - apply N.eqb_eq in E. intros [= ->]. left; congruence.
  - auto.
Qed.

Definition FB (fr : list (N * message)) (id : N) : bytes :=
  match frame_of fr id with Some m => encode m | None => [] end.

Definition prefix (a b : bytes) : Prop := exists r, b = a ++ r.

Lemma prefix_nil_r a : prefix a [] -> a = [].
Proof. intros [r H]. symmetry in H. apply app_eq_nil in H. tauto. Qed.

Inductive subseq {A} : list A -> list A -> Prop :=
| sub_nil : subseq [] []
| sub_skip a l x : subseq a l -> subseq a (x :: l)
| sub_take a l x : subseq a l -> subseq (x :: a) (x :: l).

Lemma subseq_nil_l {A} (l : list A) : subseq [] l.
Proof. induction l; constructor; auto. Qed.

Lemma subseq_snoc_skip {A} (a l : list A) x : subseq a l -> subseq a (l ++ [x]).
Proof.
  induction 1 as [|a l y H IH|a l y H IH]; cbn.
  - apply sub_skip, sub_nil.
  - apply sub_skip, IH.
  - apply sub_take, IH.
Qed.

Lemma subseq_snoc_take {A} (a l : list A) x : subseq a l -> subseq (a ++ [x]) (l ++ [x]).
Proof.
  induction 1 as [|a l y H IH|a l y H IH]; cbn.
  - apply sub_take, sub_nil.
  - apply sub_skip, IH.
  - apply sub_take, IH.
Qed.

Lemma subseq_app_l {A} (a b l : list A) : subseq (a ++ b) l -> subseq a l.
Proof.
  remember (a ++ b) as ab eqn:E. intros H. revert a E.
  induction H as [|a0 l y H IH|a0 l y H IH]; intros a E.
  - destruct a; [constructor | discriminate].
  - apply sub_skip, IH, E.
  - destruct a as [|z a]; cbn in E.
    + apply subseq_nil_l.
    + inversion E; subst. apply sub_take, IH. reflexivity.
Qed.

Definition option_list {A} (o : option A) : list A := match o with Some x => [x] | None => [] end.

Lemma NoDup_app_singleton {A} (l : list A) x : NoDup l -> ~ In x l -> NoDup (l ++ [x]).
Proof.
  induction 1 as [|y l Hy Hl IH]; cbn; intros Hx.
  - constructor; [tauto | constructor].
  - constructor.
    + rewrite in_app_iff. cbn. intros [H|[H|[]]]; [tauto | subst; tauto].
    + apply IH. tauto.
Qed.

(* the invariant, over the components of the state it depends on *)
Record FIc (fr : list (N * message)) (nx : N) (k : sink_state) (m : option message) (sd : sending_state)
           (outs : list hout) (ws : list wantlist) : Prop := MkFI {
  fi_nodup : NoDup (map fst fr);
  fi_lt : forall id, In id (map fst fr) -> id < nx;
  fi_sink : forall id buf, k = SkReady id buf -> id < nx /\ wrote_on id outs ++ buf = FB fr id;
  fi_pref : forall id, prefix (wrote_on id outs) (FB fr id);
  fi_one : forall id buf, k = SkReady id buf -> frame_of fr id <> None ->
             m = None /\ exists t c, sd = SsSending t c;
  fi_sub : subseq (map snd fr ++ option_list m) (map wantlist_message ws)
}.

Definition FI (st : hstate) (outs : list hout) (ws : list wantlist) : Prop :=
  FIc (h_frames st) (h_next st) (h_sink st) (h_msg st) (h_sending st) outs ws.

Lemma FIc_init : FIc [] 0 SkNone None SsReady [] [].
Proof.
  constructor; cbn; try discriminate; try tauto; try constructor.
  intros id. exists []. reflexivity.
Qed.

(* the sink goes away (or was not Ready), the message stays or is dropped, no byte is written *)
Lemma FIc_drop fr nx k m sd outs ws k' m' sd' o :
  FIc fr nx k m sd outs ws ->
  (forall id buf, k' <> SkReady id buf) -> (m' = m \/ m' = None) -> no_writes o ->
  FIc fr nx k' m' sd' (outs ++ o) ws.
Proof.
  intros [F1 F2 F3 F4 F5 F6] K M W. constructor; auto.
  - intros id buf E. destruct (K _ _ E).
  - intros id. rewrite wrote_on_app, W, app_nil_r. apply F4.
  - intros id buf E. destruct (K _ _ E).
  - destruct M as [->| ->]; [exact F6|]. cbn. rewrite app_nil_r. eapply subseq_app_l. exact F6.
Qed.

(* outputs that carry no write, nothing else changes *)
Lemma FIc_nowrite fr nx k m sd outs ws o :
  FIc fr nx k m sd outs ws -> no_writes o -> FIc fr nx k m sd (outs ++ o) ws.
Proof.
  intros [F1 F2 F3 F4 F5 F6] W. constructor; auto.
  - intros id buf E. rewrite wrote_on_app, W, app_nil_r. auto.
  - intros id. rewrite wrote_on_app, W, app_nil_r. apply F4.
Qed.

(* the current stream accepts some of the buffered bytes *)
Lemma FIc_write fr nx id buf m sd outs ws evs buf' :
  FIc fr nx (SkReady id buf) m sd outs ws -> wrote_of evs ++ buf' = buf ->
  FIc fr nx (SkReady id buf') m sd (outs ++ map (hout_of_sev id) evs) ws.
Proof.
  intros [F1 F2 F3 F4 F5 F6] W. constructor; auto.
  - intros id0 buf0 [= <- <-]. destruct (F3 _ _ eq_refl) as [L E]. split; [exact L|].
    rewrite wrote_on_app, wrote_on_sevs, N.eqb_refl, <- app_assoc, W. exact E.
  - intros id0. rewrite wrote_on_app, wrote_on_sevs. destruct (id =? id0) eqn:E.
    + apply N.eqb_eq in E; subst id0. destruct (F3 _ _ eq_refl) as [_ E]. exists buf'.
      rewrite <- app_assoc, W. symmetry; exact E.
    + rewrite app_nil_r. apply F4.
  - intros id0 buf0 [= <- <-]. apply (F5 _ _ eq_refl).
Qed.

(* start_send on the current stream *)
Lemma FIc_start fr nx id buf m sd outs ws t c :
  FIc fr nx (SkReady id buf) (Some m) sd outs ws ->
  FIc (fr ++ [(id, m)]) nx (SkReady id (fw_start_send buf (encode m))) None (SsSending t c) outs ws.
Proof.
  intros [F1 F2 F3 F4 F5 F6].
  assert (NF : frame_of fr id = None).
  { destruct (frame_of fr id) eqn:E; [|reflexivity].
    destruct (F5 _ _ eq_refl) as [H _]; [congruence | discriminate]. }
  assert (FBn : forall id0, FB (fr ++ [(id, m)]) id0 = if id =? id0 then encode m else FB fr id0).
  { intros id0. unfold FB. rewrite frame_of_app. cbn. destruct (id =? id0) eqn:E.
    - apply N.eqb_eq in E; subst id0. rewrite NF. reflexivity.
    - destruct (frame_of fr id0); reflexivity. }
  destruct (F3 _ _ eq_refl) as [L E]. unfold FB in E. rewrite NF in E.
  apply app_eq_nil in E as [E1 E2].
  constructor.
  - rewrite map_app. cbn. apply NoDup_app_singleton; [exact F1|]. apply frame_of_none; exact NF.
  - intros id0. rewrite map_app, in_app_iff. cbn. intros [H|[<-|[]]]; auto.
  - intros id0 buf0 [= <- <-]. split; [exact L|]. rewrite FBn, N.eqb_refl, E1, E2. reflexivity.
  - intros id0. rewrite FBn. destruct (id =? id0) eqn:EQ; [|apply F4].
    apply N.eqb_eq in EQ; subst id0. rewrite E1. exists (encode m); reflexivity.
  - intros id0 buf0 [= <- <-] _. split; [reflexivity|]. eauto.
  - rewrite map_app. cbn. rewrite app_nil_r. exact F6.
Qed.

(* set_stream: a fresh stream number *)
Lemma FIc_set fr nx k m sd outs ws o :
  FIc fr nx k m sd outs ws -> no_writes o ->
  FIc fr (nx + 1) (SkReady nx []) m sd (outs ++ o) ws.
Proof.
  intros [F1 F2 F3 F4 F5 F6] W.
  assert (NF : frame_of fr nx = None).
  { apply frame_of_none. intros H. apply F2 in H. lia. }
  constructor; auto.
  - intros id H. apply F2 in H. lia.
  - intros id buf [= <- <-]. split; [lia|]. rewrite wrote_on_app, W, !app_nil_r.
    pose proof (F4 nx) as P. unfold FB in *. rewrite NF in *. apply prefix_nil_r in P. exact P.
  - intros id. rewrite wrote_on_app, W, app_nil_r. apply F4.
  - intros id buf [= <- <-] H. congruence.
Qed.

(* only the stream counter moves (set_stream on a halted handler) *)
Lemma FIc_next fr nx k m sd outs ws o :
  FIc fr nx k m sd outs ws -> no_writes o -> FIc fr (nx + 1) k m sd (outs ++ o) ws.
Proof.
  intros H W. apply (FIc_nowrite _ _ _ _ _ _ _ o) in H; [|exact W].
  destruct H as [F1 F2 F3 F4 F5 F6]. constructor; auto.
  - intros id H. apply F2 in H. lia.
  - intros id buf E. destruct (F3 _ _ E). split; [lia|assumption].
Qed.

(* send_wantlist accepted *)
Lemma FIc_send fr nx k sd outs ws w sd' :
  FIc fr nx k None sd outs ws -> sd = SsReady ->
  FIc fr nx k (Some (wantlist_message w)) sd' outs (ws ++ [w]).
Proof.
  intros [F1 F2 F3 F4 F5 F6] R. constructor; auto.
  - intros id buf E NF. destruct (F5 _ _ E NF) as [_ (t & c & S)]. congruence.
  - cbn in *. rewrite app_nil_r in F6. rewrite map_app. cbn. apply subseq_snoc_take. exact F6.
Qed.

(* a wantlist the handler ignores (halted) or that makes it panic *)
Lemma FIc_ws fr nx k m sd outs ws w :
  FIc fr nx k m sd outs ws -> FIc fr nx k m sd outs (ws ++ [w]).
Proof.
  intros [F1 F2 F3 F4 F5 F6]. constructor; auto. rewrite map_app. cbn. apply subseq_snoc_skip. exact F6.
Qed.

(* a change of sending_state while no stream is held *)
Lemma FIc_sd fr nx k m sd outs ws sd' :
  FIc fr nx k m sd outs ws -> (forall id buf, k <> SkReady id buf) -> FIc fr nx k m sd' outs ws.
Proof.
  intros H K. rewrite <- (app_nil_r outs). eapply FIc_drop; eauto using no_writes_nil.
Qed.

Lemma no_writes_iter_out_ev ev : no_writes [hout_of_ev ev].
Proof. intros id. destruct ev; reflexivity. Qed.

Lemma FIc_outs_eq fr nx k m sd outs outs' ws :
  FIc fr nx k m sd outs ws -> outs = outs' -> FIc fr nx k m sd outs' ws.
Proof. intros H <-. exact H. Qed.

Ltac fin_outs := cbn [iter_out app]; rewrite ?app_nil_r, <- ?app_assoc; cbn [app]; reflexivity.

Lemma FI_poll_iter st s r st' s' o outs ws :
  poll_iter encode st s = (r, st', s', o) -> FI st outs ws -> FI st' (outs ++ o ++ iter_out r) ws.
Proof.
  unfold FI. intros PI H. revert PI. unfold poll_iter. destruct (h_queue st) as [|ev q] eqn:Q.
  2:{ intros [= <- <- <- <-]. cbn. apply FIc_nowrite; [exact H | apply no_writes_iter_out_ev]. }
  destruct (h_halted st) eqn:HL. { intros [= <- <- <- <-]. cbn. rewrite app_nil_r. exact H. }
  destruct (timeout_fired st).
  { unfold drop_sink. cbn [h_sink set_msg set_timeout].
    destruct (h_sink st) as [| |id buf] eqn:K; intros [= <- <- <- <-];
      cbn [h_frames h_next h_sink h_msg h_sending set_halted]; autorewrite with css; cbn [h_frames h_next h_sink h_msg h_sending set_sink set_msg set_timeout];
      [ eapply FIc_outs_eq; [eapply (FIc_drop _ _ _ _ _ _ _ _ _ _ []); [exact H | discriminate | right; reflexivity | apply no_writes_nil] | fin_outs]
      | eapply FIc_outs_eq; [eapply (FIc_drop _ _ _ _ _ _ _ _ _ _ []); [exact H | discriminate | right; reflexivity | apply no_writes_nil] | fin_outs]
      | eapply FIc_outs_eq; [eapply (FIc_drop _ _ _ _ _ _ _ _ _ _ [HDropped id]); [exact H | discriminate | right; reflexivity | apply no_writes_dropped] | fin_outs] ]. }
  destruct (h_msg st) as [m|] eqn:M, (h_sink st) as [| |id buf] eqn:K;
    try (intros [= <- <- <- <-]; cbn; rewrite ?app_nil_r, ?M, ?K; exact H).
  - (* open_new_substream *)
    intros [= <- <- <- <-]. cbn. rewrite M.
    eapply FIc_drop; [exact H | discriminate | left; reflexivity | intros id; reflexivity].
  - (* Some, Ready *)
    pose proof (fw_poll_ready_conserve s buf) as CV.
    destruct (fr_res (fw_poll_ready buf s)); intros [= <- <- <- <-].
    + autorewrite with css. cbn [h_frames h_next h_sink h_msg h_sending set_sink set_msg set_timeout add_frame].
      eapply FIc_outs_eq; [eapply FIc_start; eapply FIc_write; [exact H | exact CV] | fin_outs].
    + cbn [h_frames h_next h_sink h_msg h_sending set_sink]. rewrite M.
      eapply FIc_outs_eq; [eapply FIc_drop; [eapply FIc_write; [exact H | exact CV] | discriminate | left; reflexivity | apply no_writes_dropped] | fin_outs].
    + cbn [h_frames h_next h_sink h_msg h_sending set_sink]. rewrite M.
      eapply FIc_outs_eq; [eapply FIc_write; [exact H | exact CV] | fin_outs].
  - (* None, Ready *)
    pose proof (fw_poll_flush_conserve s buf) as CV.
    destruct (fr_res (fw_poll_flush buf s)); intros [= <- <- <- <-].
    + autorewrite with css. cbn [h_frames h_next h_sink h_msg h_sending set_sink]. rewrite M.
      pose proof (fw_poll_close_conserve (fr_script (fw_poll_flush buf s)) (fr_buf (fw_poll_flush buf s))) as CC.
      eapply FIc_outs_eq; [eapply FIc_drop; [eapply FIc_write; [eapply FIc_write; [exact H | exact CV] | exact CC]
                       | discriminate | left; reflexivity | apply no_writes_dropped] | fin_outs].
    + autorewrite with css. cbn [h_frames h_next h_sink h_msg h_sending set_sink]. rewrite M.
      eapply FIc_outs_eq; [eapply FIc_drop; [eapply FIc_write; [exact H | exact CV] | discriminate | left; reflexivity | apply no_writes_dropped] | fin_outs].
    + cbn [h_frames h_next h_sink h_msg h_sending set_sink]. rewrite M.
      eapply FIc_outs_eq; [eapply FIc_write; [exact H | exact CV] | fin_outs].
Qed.

Lemma FI_flags st st' outs ws :
  h_frames st' = h_frames st -> h_next st' = h_next st -> h_sink st' = h_sink st -> h_msg st' = h_msg st ->
  h_sending st' = h_sending st -> FI st outs ws -> FI st' outs ws.
Proof. unfold FI. intros -> -> -> -> ->. auto. Qed.

Lemma FI_hpoll_loop fuel : forall st s outs ws,
  FI st outs ws ->
  FI (fst (hpoll_loop encode fuel st s)) (outs ++ snd (hpoll_loop encode fuel st s)) ws.
Proof.
  induction fuel as [|f IH]; intros st s outs ws H.
  - cbn. rewrite app_nil_r. eapply FI_flags; [..|exact H]; reflexivity.
  - cbn [hpoll_loop]. destruct (poll_iter encode st s) as [[[r st'] s'] o] eqn:PI.
    pose proof (FI_poll_iter _ _ _ _ _ _ _ _ PI H) as H'.
    destruct r; cbn [iter_out] in H'.
    + rewrite app_nil_r in H'. exact H'.
    + specialize (IH st' s' _ _ H'). destruct (hpoll_loop encode f st' s') as [st'' o']. cbn [fst snd] in *.
      rewrite <- !app_assoc in IH. exact IH.
    + rewrite app_nil_r in H'.
      specialize (IH st' s' _ _ H'). destruct (hpoll_loop encode f st' s') as [st'' o']. cbn [fst snd] in *.
      rewrite <- !app_assoc in IH. exact IH.
Qed.

Definition op_ws (op : hop) : list wantlist := match op with HSendWantlist w => [w] | _ => [] end.

Lemma sent_ws_app a b : sent_ws (a ++ b) = sent_ws a ++ sent_ws b.
Proof. induction a as [|[] a IH]; cbn; rewrite ?IH; reflexivity. Qed.

Lemma FI_step st op outs ws :
  FI st outs ws -> FI (fst (hstep encode st op)) (outs ++ snd (hstep encode st op)) (ws ++ op_ws op).
Proof.
  intros H. unfold hstep. destruct (h_panicked st).
  { cbn. rewrite app_nil_r. destruct op; cbn [op_ws]; rewrite ?app_nil_r; auto. apply FIc_ws. exact H. }
  destruct op as [w| | |ms|s|s]; cbn [op_ws]; rewrite ?app_nil_r.
  - (* HSendWantlist *)
    unfold do_send_wantlist. destruct (h_halted st).
    { cbn. rewrite app_nil_r. apply FIc_ws. exact H. }
    destruct (h_msg st) eqn:M.
    { cbn. apply FIc_ws. unfold FI in H. cbn. apply FIc_nowrite; [exact H | intros ?; reflexivity]. }
    destruct (h_sending st) eqn:S;
      try (cbn; apply FIc_ws; unfold FI in H; cbn; apply FIc_nowrite; [exact H | intros ?; reflexivity]).
    cbn [fst snd]. rewrite app_nil_r. unfold FI in *. cbn. autorewrite with css. cbn.
    rewrite M, S in H. eapply FIc_send; [exact H | reflexivity].
  - (* HSetStream *)
    unfold do_set_stream. destruct (h_halted st).
    { cbn. unfold FI in *. cbn. apply FIc_next; [exact H | apply no_writes_dropped]. }
    unfold drop_sink. cbn [h_sink set_next]. unfold FI in *.
    destruct (h_sink st) eqn:K; cbn; (eapply FIc_set; [exact H|]); auto using no_writes_nil, no_writes_dropped.
  - (* HAllocFailed *)
    unfold do_alloc_failed. destruct (h_halted st). { cbn. rewrite app_nil_r. exact H. }
    unfold FI in *. destruct (h_sink st) eqn:K; cbn; rewrite ?K.
    + apply FIc_nowrite; [exact H | intros ?; reflexivity].
    + eapply FIc_drop; [exact H | discriminate | left; reflexivity | apply no_writes_nil].
    + apply FIc_nowrite; [exact H | intros ?; reflexivity].
  - (* HAdvance *)
    cbn. exact H.
  - (* HPoll *)
    apply FI_hpoll_loop. exact H.
  - (* HPollClose *)
    unfold do_poll_close. destruct (h_closing st).
    { cbn [fst snd app]. unfold FI in *. cbn. apply FIc_nowrite; [exact H | apply no_writes_ev]. }
    cbn [h_sink set_msg set_closing].
    assert (G : forall k o, (forall id buf, k <> SkReady id buf) ->
      FIc (h_frames st) (h_next st) k None (h_sending st) (outs ++ o) ws ->
      let st2 := set_sink (set_msg (set_closing st true) None) k in
      let st3 := match h_sending st2 with
                 | SsRequestReceived _ _ | SsSending _ _ => change_sending_state st2 (SsFailed (h_conn st))
                 | _ => st2 end in
      let st4 := set_queue st3 (h_queue st3 ++ [EvClosing]) in
      FI (set_queue st4 []) (outs ++ o ++ map hout_of_ev (h_queue st4)) ws).
    { intros k o K H2 st2 st3 st4. unfold FI. rewrite app_assoc. apply FIc_nowrite; [|apply no_writes_ev].
      subst st4 st3. cbn [set_queue h_frames h_next h_sink h_msg h_sending].
      destruct (h_sending st2) eqn:S2; autorewrite with css; subst st2; cbn in *; rewrite ?S2; try exact H2;
        eapply FIc_sd; eauto. }
    unfold FI in H. destruct (h_sink st) as [| |id buf] eqn:K.
    + apply (G SkNone []); [discriminate|]. rewrite app_nil_r.
      rewrite <- (app_nil_r outs). eapply FIc_drop; [exact H | discriminate | right; reflexivity | apply no_writes_nil].
    + apply (G SkNone []); [discriminate|]. rewrite app_nil_r.
      rewrite <- (app_nil_r outs). eapply FIc_drop; [exact H | discriminate | right; reflexivity | apply no_writes_nil].
    + apply (G SkNone); [discriminate|]. rewrite app_assoc.
      eapply FIc_drop; [eapply FIc_write; [exact H | apply fw_poll_close_conserve]
                       | discriminate | right; reflexivity | apply no_writes_dropped].
Qed.

Lemma FI_run ops : forall st outs ws,
  FI st outs ws ->
  FI (fst (hrun encode st ops)) (outs ++ snd (hrun encode st ops)) (ws ++ sent_ws ops).
Proof.
  induction ops as [|op ops IH]; intros st outs ws H.
  - cbn. rewrite !app_nil_r. exact H.
  - pose proof (FI_step st op outs ws H) as H1. unfold hrun in *. cbn [hrun_trace].
    destruct (hstep encode st op) as [st1 o1]. cbn [fst snd] in H1.
    specialize (IH st1 _ _ H1). destruct (hrun_trace encode st1 ops) as [st2 os]. cbn [fst snd concat] in *.
    replace (ws ++ sent_ws (op :: ops)) with ((ws ++ op_ws op) ++ sent_ws ops).
    2:{ rewrite <- app_assoc. f_equal. destruct op; reflexivity. }
    rewrite app_assoc. exact IH.
Qed.

Lemma handler_final_hrun c ops : handler_final encode c ops = fst (hrun encode (h_init c) ops).
Proof. unfold handler_final, hrun. destruct (hrun_trace encode (h_init c) ops); reflexivity. Qed.

(* Every stream carries at most one frame; the frames are the messages of distinct HSendWantlist ops, in
   the order they were issued; the bytes each stream accepted are a prefix of its one frame (of the empty
   string if no frame was started on it).  Holds for every op list and every script. *)
Theorem C14_one_frame :
  forall (c : conn) (ops : list hop),
    let st := handler_final encode c ops in
    let outs := handler_outs encode c ops in
    NoDup (map fst (h_frames st))
    /\ subseq (map snd (h_frames st)) (map wantlist_message (sent_ws ops))
    /\ (forall id, prefix (wrote_on id outs) (FB (h_frames st) id)).
Proof.
  intros c ops st outs. subst st outs. rewrite handler_final_hrun. unfold handler_outs.
  pose proof (FI_run ops (h_init c) [] [] FIc_init) as [F1 F2 F3 F4 F5 F6]. cbn [app] in *.
  split; [exact F1|]. split; [|exact F4]. eapply subseq_app_l. exact F6.
Qed.

(* poll_flush returns Ok exactly when the stream accepted every buffered byte and then answered the inner
   poll_flush with Ok: the consumed part of the script is a run of WAccept followed by FlushOk *)
Lemma fw_poll_flush_ok_script s : forall buf,
  fr_res (fw_poll_flush buf s) = PrOk ->
  exists pre, s = pre ++ FlushOk :: fr_script (fw_poll_flush buf s)
              /\ Forall (fun x => exists n, x = WAccept n) pre
              /\ wrote_of (fr_evs (fw_poll_flush buf s)) = buf.
Proof.
  induction s as [|x s IH]; intros buf; destruct buf as [|b buf]; cbn [fw_poll_flush]; try discriminate.
  - destruct x; cbn; try discriminate. intros _. exists []. repeat split; constructor.
  - destruct (fw_write1 (b :: buf) x) as [[[w rest]|]|] eqn:E; try discriminate.
    cbn [fw_cons_evs fr_res fr_script fr_evs]. intros H. destruct (IH rest H) as (pre & E1 & E2 & E3).
    exists (x :: pre). split; [cbn; congruence|]. split.
    + constructor; [|exact E2]. destruct x; cbn in E; try discriminate. eauto.
    + apply fw_write1_some in E as [-> _]. cbn. rewrite E3. reflexivity.
Qed.

Lemma in_css_queue_ready st s :
  ~ In (EvState SsReady) (h_queue st) ->
  (In (EvState SsReady) (h_queue (change_sending_state st s)) <-> s = SsReady /\ h_sending st <> SsReady).
Proof.
  intros NI. rewrite css_queue, in_app_iff. destruct (ss_eqb (h_sending st) s) eqn:E.
  - apply ss_eqb_spec in E. cbn. split; [tauto|]. intros [-> H]. congruence.
  - assert (h_sending st <> s) by (intros H; apply ss_eqb_spec in H; congruence).
    cbn. split.
    + intros [H1|[[= <-]|[]]]; [tauto|]. split; [reflexivity | assumption].
    + intros [-> _]. auto.
Qed.

(* C14, third clause, at the level of one pass of the poll loop: SendingStateChanged(Ready) is queued iff
   the handler holds a stream, has nothing left to start, and poll_flush of that stream returns Ok *)
Theorem C14_ready_iff_flushed st s r st' s' o :
  poll_iter encode st s = (r, st', s', o) -> h_queue st = [] ->
  (In (EvState SsReady) (h_queue st') <->
   h_halted st = false /\ timeout_fired st = false /\ h_msg st = None /\ h_sending st <> SsReady /\
   exists id buf, h_sink st = SkReady id buf /\ fr_res (fw_poll_flush buf s) = PrOk).
Proof.
  intros PI Q. revert PI. unfold poll_iter. rewrite Q.
  destruct (h_halted st) eqn:HL.
  { intros [= <- <- <- <-]. rewrite Q. cbn [In]. split; [tauto | intros (H & _); discriminate]. }
  destruct (timeout_fired st) eqn:TF.
  { unfold drop_sink. cbn [h_sink set_msg set_timeout].
    assert (G : forall k, In (EvState SsReady) (h_queue (set_halted (change_sending_state
                 (set_sink (set_msg (set_timeout st None) None) k) (SsFailed (h_conn st))) true)) -> False).
    { intros k. cbn [h_queue set_halted]. rewrite in_css_queue_ready; [intros [H _]; discriminate|].
      cbn. rewrite Q. cbn. tauto. }
    destruct (h_sink st); intros [= <- <- <- <-]; (split; [intros H; destruct (G _ H) | intros (_ & H & _); discriminate]). }
  destruct (h_msg st) as [m|] eqn:M, (h_sink st) as [| |id buf] eqn:K.
  - intros [= <- <- <- <-]. cbn [h_queue set_sink]. rewrite Q. cbn [In]. split; [tauto | intros (_ & _ & H & _); discriminate].
  - intros [= <- <- <- <-]. rewrite Q. cbn [In]. split; [tauto | intros (_ & _ & H & _); discriminate].
  - destruct (fr_res (fw_poll_ready buf s)); intros [= <- <- <- <-].
    + rewrite in_css_queue_ready; [|cbn; rewrite Q; cbn; tauto].
      split; [intros [H _]; discriminate | intros (_ & _ & H & _); discriminate].
    + cbn [h_queue set_sink]. rewrite Q. cbn [In]. split; [tauto | intros (_ & _ & H & _); discriminate].
    + cbn [h_queue set_sink]. rewrite Q. cbn [In]. split; [tauto | intros (_ & _ & H & _); discriminate].
  - intros [= <- <- <- <-]. rewrite Q. cbn [In]. split; [tauto | intros (_ & _ & _ & _ & i & b & H & _); discriminate].
  - intros [= <- <- <- <-]. rewrite Q. cbn [In]. split; [tauto | intros (_ & _ & _ & _ & i & b & H & _); discriminate].
  - destruct (fr_res (fw_poll_flush buf s)) eqn:FR; intros [= <- <- <- <-].
    + rewrite in_css_queue_ready; [|cbn; rewrite Q; cbn; tauto]. cbn [h_sending set_sink].
      split.
      * intros [_ H]. repeat split; auto. exists id, buf. auto.
      * intros (_ & _ & _ & H & _). auto.
    + rewrite in_css_queue_ready; [|cbn; rewrite Q; cbn; tauto].
      split; [intros [H _]; discriminate|].
      intros (_ & _ & _ & _ & i & b & [= <- <-] & H). congruence.
    + cbn [h_queue set_sink]. rewrite Q. cbn [In]. split; [tauto|]. intros (_ & _ & _ & _ & i & b & [= <- <-] & H). congruence.
Qed.

(* ------------------------------------------------------------------------------------------------ *)
(* Step-level behaviour of poll / poll_close (used by C14_no_silent_loss and C05_handler_reports)   *)
(* ------------------------------------------------------------------------------------------------ *)

Lemma poll_iter_pop st s ev q :
  h_queue st = ev :: q -> poll_iter encode st s = (IrReady (hout_of_ev ev), set_queue st q, s, []).
Proof. intros Q. unfold poll_iter. rewrite Q. reflexivity. Qed.

Lemma hpoll_loop_S f st s :
  hpoll_loop encode (S f) st s =
  match poll_iter encode st s with
  | (IrPending, st', _, o) => (st', o)
  | (IrReady e, st', s', o) => let '(st'', o') := hpoll_loop encode f st' s' in (st'', o ++ e :: o')
  | (IrContinue, st', s', o) => let '(st'', o') := hpoll_loop encode f st' s' in (st'', o ++ o')
  end.
Proof. reflexivity. Qed.

(* `poll` first hands out everything that is queued *)
Lemma hpoll_loop_drain n s : forall q st, h_queue st = q ->
  hpoll_loop encode (length q + n) st s =
  let r := hpoll_loop encode n (set_queue st []) s in
  (fst r, map hout_of_ev q ++ snd r).
Proof.
  induction q as [|ev q IH]; intros st Q.
  - cbn [length plus map app]. replace (set_queue st []) with st; [destruct (hpoll_loop encode n st s); reflexivity|].
    destruct st; cbn in *; subst; reflexivity.
  - cbn [length plus hpoll_loop]. rewrite (poll_iter_pop st s ev q Q).
    rewrite (IH (set_queue st q) eq_refl). cbn zeta.
    replace (set_queue (set_queue st q) []) with (set_queue st []) by reflexivity.
    destruct (hpoll_loop encode n (set_queue st []) s) as [st' o']. reflexivity.
Qed.

Lemma do_poll_drain st s :
  do_poll encode st s =
  let r := hpoll_loop encode 8 (set_queue st []) s in (fst r, map hout_of_ev (h_queue st) ++ snd r).
Proof. unfold do_poll, poll_fuel. apply hpoll_loop_drain. reflexivity. Qed.

Lemma poll_iter_halted st s :
  h_queue st = [] -> h_halted st = true -> poll_iter encode st s = (IrPending, st, s, []).
Proof. intros Q H. unfold poll_iter. rewrite Q, H. reflexivity. Qed.

(* start-sending timeout *)
Lemma poll_iter_timeout st s :
  h_queue st = [] -> h_halted st = false -> timeout_fired st = true ->
  poll_iter encode st s =
    (IrContinue,
     set_halted (change_sending_state (set_sink (set_msg (set_timeout st None) None) SkNone) (SsFailed (h_conn st))) true,
     s, match h_sink st with SkReady id _ => [HDropped id] | _ => [] end).
Proof.
  intros Q H T. unfold poll_iter. rewrite Q, H, T. unfold drop_sink. cbn [h_sink set_msg set_timeout].
  destruct (h_sink st); reflexivity.
Qed.

Theorem C05_timeout_reports_failed st s :
  h_halted st = false -> timeout_fired st = true -> last_state (h_queue st) <> Some (SsFailed (h_conn st)) ->
  (last_state (h_queue st) = None -> h_sending st <> SsFailed (h_conn st)) ->
  (forall x, last_state (h_queue st) = Some x -> h_sending st = x) ->
  let r := do_poll encode st s in
  In (HReport (RpFailed (h_conn st))) (snd r) /\ h_halted (fst r) = true /\ h_msg (fst r) = None
  /\ h_sink (fst r) = SkNone /\ h_timeout (fst r) = None /\ h_queue (fst r) = [].
Proof.
  intros HL TF L1 L2 L3. rewrite do_poll_drain. cbn zeta.
  set (st0 := set_queue st []).
  assert (NF : h_sending st <> SsFailed (h_conn st)).
  { destruct (last_state (h_queue st)) eqn:E in *; [rewrite (L3 _ eq_refl); congruence | auto]. }
  cbn [hpoll_loop]. rewrite (poll_iter_timeout st0 s eq_refl HL TF).
  set (st1 := set_halted _ true).
  destruct (css_cases (set_sink (set_msg (set_timeout st0 None) None) SkNone) (SsFailed (h_conn st)))
    as [[_ H]|[EQ _]]; [cbn in H; congruence|].
  assert (Q1 : h_queue st1 = [EvState (SsFailed (h_conn st))]).
  { subst st1. cbn [h_queue set_halted]. change (h_conn st0) with (h_conn st). rewrite EQ. reflexivity. }
  rewrite (poll_iter_pop st1 s _ _ Q1).
  rewrite (poll_iter_halted (set_queue st1 []) s eq_refl); [|reflexivity].
  cbn [fst snd]. split.
  - rewrite !in_app_iff. right. right. cbn. auto.
  - subst st1. cbn. autorewrite with css. cbn. auto.
Qed.

(* flush error on the stream that carries the frame *)
Lemma poll_iter_flush st s id buf :
  h_queue st = [] -> h_halted st = false -> timeout_fired st = false -> h_msg st = None ->
  h_sink st = SkReady id buf ->
  poll_iter encode st s =
    let f := fw_poll_flush buf s in
    let ofl := map (hout_of_sev id) (fr_evs f) in
    match fr_res f with
    | PrPending => (IrPending, set_sink st (SkReady id (fr_buf f)), fr_script f, ofl)
    | PrErr => (IrContinue, change_sending_state (set_sink st SkNone) (SsFailed (h_conn st)), fr_script f,
                ofl ++ [HDropped id])
    | PrOk => let c := fw_poll_close (fr_buf f) (fr_script f) in
              (IrContinue, change_sending_state (set_sink st SkNone) SsReady, fr_script c,
               ofl ++ map (hout_of_sev id) (fr_evs c) ++ [HDropped id])
    end.
Proof. intros Q H T M K. unfold poll_iter. rewrite Q, H, T, M, K. reflexivity. Qed.

Lemma poll_iter_idle st s :
  h_queue st = [] -> h_halted st = false -> timeout_fired st = false -> h_msg st = None ->
  h_sink st = SkNone -> poll_iter encode st s = (IrPending, st, s, []).
Proof. intros Q H T M K. unfold poll_iter. rewrite Q, H, T, M, K. reflexivity. Qed.

Theorem C05_flush_error_reports_failed st s id buf :
  h_queue st = [] -> h_halted st = false -> timeout_fired st = false -> h_msg st = None ->
  h_sink st = SkReady id buf -> h_sending st <> SsFailed (h_conn st) ->
  fr_res (fw_poll_flush buf s) = PrErr ->
  let r := do_poll encode st s in
  snd r = map (hout_of_sev id) (fr_evs (fw_poll_flush buf s)) ++ [HDropped id; HReport (RpFailed (h_conn st))]
  /\ h_sink (fst r) = SkNone /\ h_sending (fst r) = SsFailed (h_conn st) /\ h_halted (fst r) = false.
Proof.
  intros Q HL TF M K NF FR. rewrite do_poll_drain. cbn zeta. rewrite Q.
  replace (set_queue st []) with st by (destruct st; cbn in *; subst; reflexivity).
  cbn [hpoll_loop]. rewrite (poll_iter_flush st s id buf Q HL TF M K). cbn zeta. rewrite FR.
  destruct (css_cases (set_sink st SkNone) (SsFailed (h_conn st))) as [[_ H]|[EQ _]]; [cbn in H; congruence|].
  rewrite EQ. cbn [h_queue set_sink]. rewrite Q. cbn [app].
  match goal with |- context [poll_iter encode ?x ?y] => rewrite (poll_iter_pop x y _ _ eq_refl) end.
  match goal with |- context [poll_iter encode ?x ?y] => rewrite (poll_iter_idle x y eq_refl) end; try reflexivity; cbn; auto.
  split; [rewrite <- app_assoc; reflexivity|]. auto.
Qed.

(* sending completes *)
Lemma hpoll_loop_flush_ok n st s id buf :
  h_queue st = [] -> h_halted st = false -> timeout_fired st = false -> h_msg st = None ->
  h_sink st = SkReady id buf -> h_sending st <> SsReady ->
  fr_res (fw_poll_flush buf s) = PrOk ->
  hpoll_loop encode (S (S (S n))) st s =
    (set_sending (set_sink st SkNone) SsReady,
     (map (hout_of_sev id) (fr_evs (fw_poll_flush buf s)) ++
      map (hout_of_sev id) (fr_evs (fw_poll_close (fr_buf (fw_poll_flush buf s)) (fr_script (fw_poll_flush buf s))))
      ++ [HDropped id]) ++ [HReport RpReady]).
Proof.
  intros Q HL TF M K NR FR.
  cbn [hpoll_loop]. rewrite (poll_iter_flush st s id buf Q HL TF M K). cbn zeta. rewrite FR.
  destruct (css_cases (set_sink st SkNone) SsReady) as [[_ H]|[EQ _]]; [cbn in H; congruence|].
  rewrite EQ. cbn [h_queue set_sink]. rewrite Q. cbn [app].
  match goal with |- context [poll_iter encode ?x ?y] => rewrite (poll_iter_pop x y _ _ eq_refl) end.
  match goal with |- context [poll_iter encode ?x ?y] => rewrite (poll_iter_idle x y eq_refl) end;
    try reflexivity; cbn [h_halted h_msg h_sink set_queue set_sending set_sink]; auto.
  cbn [fst snd map app hout_of_ev report_of]. f_equal.
  destruct st; cbn in *; subst; reflexivity.
Qed.

Theorem C14_flush_ok_reports_ready st s id buf :
  h_queue st = [] -> h_halted st = false -> timeout_fired st = false -> h_msg st = None ->
  h_sink st = SkReady id buf -> h_sending st <> SsReady ->
  fr_res (fw_poll_flush buf s) = PrOk ->
  let r := do_poll encode st s in
  In (HReport RpReady) (snd r) /\ In (HDropped id) (snd r) /\ wrote_on id (snd r) = buf
  /\ h_sink (fst r) = SkNone /\ h_sending (fst r) = SsReady /\ h_msg (fst r) = None.
Proof.
  intros Q HL TF M K NR FR. cbn zeta. unfold do_poll, poll_fuel. rewrite Q. cbn [length plus].
  rewrite (hpoll_loop_flush_ok _ st s id buf Q HL TF M K NR FR). cbn [fst snd].
  pose proof (fw_poll_flush_conserve s buf) as CV. rewrite (fw_poll_flush_ok s buf FR), app_nil_r in CV.
  pose proof (fw_poll_close_conserve (fr_script (fw_poll_flush buf s)) (fr_buf (fw_poll_flush buf s))) as CC.
  rewrite (fw_poll_flush_ok s buf FR) in CC. apply app_eq_nil in CC as [CC _].
  split; [|split; [|split; [|cbn; auto]]].
  - rewrite !in_app_iff. right. cbn. auto.
  - rewrite !in_app_iff. left. right. right. cbn. auto.
  - rewrite !wrote_on_app, !wrote_on_sevs, N.eqb_refl, CV.
    rewrite (fw_poll_flush_ok s buf FR), CC. cbn. rewrite !app_nil_r. reflexivity.
Qed.

(* poll_close while a wantlist is outstanding *)
Theorem C05_close_reports_failed st s :
  h_panicked st = false -> h_closing st = false ->
  (exists t c, h_sending st = SsRequestReceived t c \/ h_sending st = SsSending t c) ->
  let r := hstep encode st (HPollClose s) in
  (exists pre, snd r = pre ++ [HReport (RpFailed (h_conn st)); HClosing])
  /\ h_msg (fst r) = None /\ h_sink (fst r) = SkNone /\ h_closing (fst r) = true
  /\ h_sending (fst r) = SsFailed (h_conn st) /\ h_queue (fst r) = [].
Proof.
  intros P CL (t & c & S). unfold hstep. rewrite P. unfold do_poll_close. rewrite CL.
  cbn [h_sink set_msg set_closing].
  assert (G : forall k o,
    let st2 := set_sink (set_msg (set_closing st true) None) k in
    let st3 := match h_sending st2 with
               | SsRequestReceived _ _ | SsSending _ _ => change_sending_state st2 (SsFailed (h_conn st))
               | _ => st2 end in
    let st4 := set_queue st3 (h_queue st3 ++ [EvClosing]) in
    (exists pre, o ++ map hout_of_ev (h_queue st4) = pre ++ [HReport (RpFailed (h_conn st)); HClosing])
    /\ h_msg (set_queue st4 []) = None /\ h_sink (set_queue st4 []) = k /\ h_closing (set_queue st4 []) = true
    /\ h_sending (set_queue st4 []) = SsFailed (h_conn st) /\ h_queue (set_queue st4 []) = []).
  { intros k o st2 st3 st4.
    assert (E3 : st3 = change_sending_state st2 (SsFailed (h_conn st))).
    { subst st3. change (h_sending st2) with (h_sending st). destruct S as [-> | ->]; reflexivity. }
    destruct (css_cases st2 (SsFailed (h_conn st))) as [[_ H]|[EQ _]].
    { change (h_sending st2) with (h_sending st) in H. destruct S; congruence. }
    subst st4. rewrite E3. cbn [h_msg h_sink h_closing h_sending h_queue set_queue].
    autorewrite with css. split; [|subst st2; cbn; auto].
    rewrite EQ. cbn [h_queue set_queue]. rewrite map_app, map_app. cbn [map hout_of_ev report_of].
    exists (o ++ map hout_of_ev (h_queue st2)). rewrite <- !app_assoc. reflexivity. }
  destruct (h_sink st) as [| |id buf]; cbn [fst snd]; apply G.
Qed.

(* a wantlist is waiting and no stream is held: the next poll requests one *)
Lemma poll_iter_open st s m :
  h_queue st = [] -> h_halted st = false -> timeout_fired st = false -> h_msg st = Some m ->
  h_sink st = SkNone -> poll_iter encode st s = (IrReady HOpenStream, set_sink st SkRequested, s, []).
Proof. intros Q H T M K. unfold poll_iter. rewrite Q, H, T, M, K. reflexivity. Qed.

Lemma poll_iter_requested st s :
  h_queue st = [] -> h_halted st = false -> timeout_fired st = false ->
  h_sink st = SkRequested -> poll_iter encode st s = (IrPending, st, s, []).
Proof. intros Q H T K. unfold poll_iter. rewrite Q, H, T, K. destruct (h_msg st); reflexivity. Qed.

Lemma set_queue_nil_id st : h_queue st = [] -> set_queue st [] = st.
Proof. intros Q. destruct st; cbn in *; subst; reflexivity. Qed.

Theorem C05_alloc_failure_retries st s m :
  h_panicked st = false -> h_queue st = [] -> h_halted st = false -> h_msg st = Some m ->
  h_sink st = SkRequested ->
  let st1 := fst (hstep encode st HAllocFailed) in
  let r := hstep encode st1 (HPoll s) in
  snd (hstep encode st HAllocFailed) = []
  /\ (timeout_fired st = false -> snd r = [HOpenStream] /\ h_sink (fst r) = SkRequested /\ h_msg (fst r) = Some m
                                   /\ h_halted (fst r) = false)
  /\ (timeout_fired st = true -> h_sending st <> SsFailed (h_conn st) ->
        In (HReport (RpFailed (h_conn st))) (snd r) /\ h_halted (fst r) = true).
Proof.
  intros P Q HL M K.
  assert (E1 : hstep encode st HAllocFailed = (set_sink st SkNone, [])).
  { unfold hstep. rewrite P. unfold do_alloc_failed. rewrite HL, K. reflexivity. }
  cbn zeta. rewrite E1. cbn [fst snd]. split; [reflexivity|].
  unfold hstep. cbn [h_panicked set_sink]. rewrite P. split.
  - intros TF. rewrite do_poll_drain. cbn zeta. cbn [h_queue set_sink]. rewrite Q.
    rewrite set_queue_nil_id by (cbn; exact Q).
    cbn [hpoll_loop]. rewrite (poll_iter_open _ s m); try assumption; try reflexivity.
    rewrite poll_iter_requested; try assumption; try reflexivity. cbn. auto.
  - intros TF NF.
    pose proof (C05_timeout_reports_failed (set_sink st SkNone) s) as T. cbn zeta in T.
    cbn [h_queue h_halted h_conn h_sending set_sink] in T. rewrite Q in T. cbn [last_state] in T.
    destruct T as (T1 & T2 & _); auto; try discriminate.
Qed.

(* a stream arrives while the wantlist is waiting: the frame is started and RpSending reported *)
Lemma poll_iter_start st s m id :
  h_queue st = [] -> h_halted st = false -> timeout_fired st = false -> h_msg st = Some m ->
  h_sink st = SkReady id [] ->
  poll_iter encode st s =
    (IrContinue,
     change_sending_state (set_timeout (add_frame (set_sink (set_msg st None) (SkReady id (encode m))) (id, m)) None)
       (SsSending (h_now st) (h_conn st)), s, []).
Proof.
  intros Q H T M K. unfold poll_iter. rewrite Q, H, T, M, K, fw_poll_ready_empty. reflexivity.
Qed.

(* From "wantlist waiting, fresh stream installed": one poll whose script lets the whole frame through
   reports RpSending then RpReady, and the stream has accepted exactly encode m. *)
Theorem C14_send_completes st s m id t :
  h_queue st = [] -> h_halted st = false -> timeout_fired st = false -> h_msg st = Some m ->
  h_sink st = SkReady id [] -> h_sending st = SsRequestReceived t (h_conn st) ->
  fr_res (fw_poll_flush (encode m) s) = PrOk ->
  let r := do_poll encode st s in
  (exists o1, snd r = HReport (RpSending (h_conn st)) :: o1 ++ [HDropped id; HReport RpReady])
  /\ wrote_on id (snd r) = encode m
  /\ h_sending (fst r) = SsReady /\ h_msg (fst r) = None /\ h_sink (fst r) = SkNone /\ h_timeout (fst r) = None
  /\ h_frames (fst r) = h_frames st ++ [(id, m)].
Proof.
  intros Q HL TF M K SD FR. cbn zeta. unfold do_poll, poll_fuel. rewrite Q. cbn [length plus].
  rewrite hpoll_loop_S, (poll_iter_start st s m id Q HL TF M K).
  set (stA := set_timeout _ None).
  destruct (css_cases stA (SsSending (h_now st) (h_conn st))) as [[_ H]|[EQ _]].
  { subst stA. cbn in H. congruence. }
  rewrite EQ. subst stA. cbn [h_queue set_timeout add_frame set_sink set_msg]. rewrite Q. cbn [app].
  rewrite hpoll_loop_S.
  match goal with |- context [poll_iter encode ?x ?y] => rewrite (poll_iter_pop x y _ _ eq_refl) end.
  match goal with |- context [hpoll_loop encode ?n ?x ?y] =>
    rewrite (hpoll_loop_flush_ok _ x y id (encode m)) end; try reflexivity; try assumption;
    try (cbn; discriminate).
  cbn [fst snd app hout_of_ev report_of].
  pose proof (fw_poll_flush_conserve s (encode m)) as CV. rewrite (fw_poll_flush_ok s _ FR), app_nil_r in CV.
  pose proof (fw_poll_close_conserve (fr_script (fw_poll_flush (encode m) s)) (fr_buf (fw_poll_flush (encode m) s))) as CC.
  rewrite (fw_poll_flush_ok s _ FR) in CC. apply app_eq_nil in CC as [CC _].
  split; [|split; [|cbn; auto 10]].
  - exists (map (hout_of_sev id) (fr_evs (fw_poll_flush (encode m) s)) ++
            map (hout_of_sev id) (fr_evs (fw_poll_close (fr_buf (fw_poll_flush (encode m) s)) (fr_script (fw_poll_flush (encode m) s))))).
    cbn [app]. rewrite <- !app_assoc. reflexivity.
  - cbn [wrote_on]. rewrite !wrote_on_app, !wrote_on_sevs, N.eqb_refl, CV.
    rewrite (fw_poll_flush_ok s _ FR), CC. cbn. rewrite !app_nil_r. reflexivity.
Qed.

(* progress across polls while Sending *)
Lemma do_poll_flush_pending st s id buf :
  h_queue st = [] -> h_halted st = false -> timeout_fired st = false -> h_msg st = None ->
  h_sink st = SkReady id buf -> fr_res (fw_poll_flush buf s) = PrPending ->
  do_poll encode st s =
    (set_sink st (SkReady id (fr_buf (fw_poll_flush buf s))),
     map (hout_of_sev id) (fr_evs (fw_poll_flush buf s))).
Proof.
  intros Q HL TF M K FR. unfold do_poll, poll_fuel. rewrite Q. cbn [length plus].
  rewrite hpoll_loop_S, (poll_iter_flush st s id buf Q HL TF M K). cbn zeta. rewrite FR. reflexivity.
Qed.

Definition good_script (s : list io) : Prop := exists n r, s = WAccept n :: FlushOk :: r /\ 1 <= n.

Lemma splitN_length {A} (k : N) (l a b : list A) :
  splitN k l = (a, b) -> 1 <= k -> l <> [] -> (length b < length l)%nat.
Proof.
  intros H K L. destruct l as [|x l]; [congruence|]. cbn [splitN] in H.
  destruct (k =? 0) eqn:E; [lia|]. destruct (splitN (k - 1) l) as [a' b'] eqn:E'.
  inversion H; subst. apply splitN_app in E'. subst l. cbn. rewrite app_length. lia.
Qed.

Lemma fw_flush_progress buf s :
  buf <> [] -> good_script s ->
  fr_res (fw_poll_flush buf s) = PrOk \/
  (fr_res (fw_poll_flush buf s) = PrPending /\ fr_buf (fw_poll_flush buf s) <> []
   /\ (length (fr_buf (fw_poll_flush buf s)) < length buf)%nat).
Proof.
  intros NE (n & r & -> & N1). destruct buf as [|b buf]; [congruence|].
  cbn [fw_poll_flush fw_write1].
  assert (L : 1 <= len (b :: buf)) by (rewrite len_cons; lia).
  destruct (N.min n (len (b :: buf)) =? 0) eqn:E; [exfalso; lia|].
  destruct (splitN (N.min n (len (b :: buf))) (b :: buf)) as [w rest] eqn:SP.
  pose proof (splitN_length _ _ _ _ SP ltac:(lia) NE) as LT.
  destruct rest as [|x rest].
  - left. reflexivity.
  - right. cbn. repeat split; [discriminate | exact LT].
Qed.

Lemma hrun_cons st op ops :
  snd (hrun encode st (op :: ops)) = snd (hstep encode st op) ++ snd (hrun encode (fst (hstep encode st op)) ops).
Proof.
  unfold hrun. cbn [hrun_trace]. destruct (hstep encode st op) as [st' o]. cbn [fst snd].
  destruct (hrun_trace encode st' ops) as [st'' os]. reflexivity.
Qed.

(* While Sending, polls whose scripts let at least one byte through and offer a flush reach RpReady
   after at most one poll per buffered byte. *)
Theorem C14_progress_reaches_ready : forall (ss : list (list io)) st id buf t c,
  h_panicked st = false -> h_queue st = [] -> h_halted st = false -> h_timeout st = None -> h_msg st = None ->
  h_sink st = SkReady id buf -> h_sending st = SsSending t c -> buf <> [] ->
  Forall good_script ss -> (length buf <= length ss)%nat ->
  In (HReport RpReady) (snd (hrun encode st (map HPoll ss))).
Proof.
  induction ss as [|s ss IH]; intros st id buf t c P Q HL TM M K SD NE G L.
  - destruct buf; [congruence | cbn in L; lia].
  - inversion G as [|? ? Gs Gss]; subst. cbn [map]. rewrite hrun_cons, in_app_iff.
    assert (TF : timeout_fired st = false) by (unfold timeout_fired; rewrite TM; reflexivity).
    unfold hstep at 1 2. rewrite P.
    destruct (fw_flush_progress buf s NE Gs) as [FR|(FR & NE' & LT)].
    + left. apply (C14_flush_ok_reports_ready st s id buf); auto. rewrite SD; discriminate.
    + right. rewrite (do_poll_flush_pending st s id buf Q HL TF M K FR). cbn [fst].
      cbn [length] in L.
      eapply (IH _ id _ t c); try exact NE'; try exact Gss; try lia;
        cbn [h_panicked h_queue h_halted h_timeout h_msg h_sink h_sending set_sink]; try eassumption; reflexivity.
Qed.

(* ------------------------------------------------------------------------------------------------ *)
(* The stream that is held carries the most recent frame                                            *)
(* ------------------------------------------------------------------------------------------------ *)

Definition FJ (st : hstate) : Prop :=
  forall id buf, h_sink st = SkReady id buf -> frame_of (h_frames st) id <> None ->
  exists fr0 m, h_frames st = fr0 ++ [(id, m)].

Lemma FJ_same st st' :
  h_frames st' = h_frames st ->
  (forall id buf, h_sink st' = SkReady id buf -> exists buf0, h_sink st = SkReady id buf0) ->
  FJ st -> FJ st'.
Proof.
  intros F K H id buf E NF. destruct (K _ _ E) as [buf0 E0]. rewrite F in *. eapply H; eauto.
Qed.

Lemma FJ_poll_iter st s r st' s' o :
  poll_iter encode st s = (r, st', s', o) -> FJ st -> FJ st'.
Proof.
  unfold poll_iter. destruct (h_queue st) as [|ev q].
  2:{ intros [= <- <- <- <-]. apply FJ_same; cbn; eauto. }
  destruct (h_halted st). { intros [= <- <- <- <-]. auto. }
  destruct (timeout_fired st).
  { unfold drop_sink. cbn [h_sink set_msg set_timeout].
    destruct (h_sink st); intros [= <- <- <- <-]; intros _ id0 buf0 E; cbn in E; autorewrite with css in E; discriminate. }
  destruct (h_msg st) as [m|] eqn:M, (h_sink st) as [| |id buf] eqn:K; try (intros [= <- <- <- <-]; auto).
  - intros _ id0 buf0 E. discriminate.
  - destruct (fr_res (fw_poll_ready buf s)); intros [= <- <- <- <-].
    + intros _ id0 buf0 E _. autorewrite with css in *. cbn in *. inversion E; subst. eauto.
    + intros _ id0 buf0 E. discriminate.
    + apply FJ_same; cbn; [reflexivity|]. intros id0 buf0 [= <- <-]. rewrite K. eauto.
  - destruct (fr_res (fw_poll_flush buf s)); intros [= <- <- <- <-].
    + intros _ id0 buf0 E. autorewrite with css in E. discriminate.
    + intros _ id0 buf0 E. autorewrite with css in E. discriminate.
    + apply FJ_same; cbn; [reflexivity|]. intros id0 buf0 [= <- <-]. rewrite K. eauto.
Qed.

Lemma FJ_hpoll_loop fuel : forall st s, FJ st -> FJ (fst (hpoll_loop encode fuel st s)).
Proof.
  induction fuel as [|f IH]; intros st s H.
  - cbn. apply (FJ_same st); cbn; eauto.
  - rewrite hpoll_loop_S. destruct (poll_iter encode st s) as [[[r st'] s'] o] eqn:PI.
    pose proof (FJ_poll_iter _ _ _ _ _ _ PI H) as H'.
    destruct r; [exact H'| |]; specialize (IH st' s' H'); destruct (hpoll_loop encode f st' s'); exact IH.
Qed.

Lemma FJ_step st op outs ws : FI st outs ws -> FJ st -> FJ (fst (hstep encode st op)).
Proof.
  intros F H. unfold hstep. destruct (h_panicked st); [exact H|].
  destruct op as [w| | |ms|s|s].
  - unfold do_send_wantlist. destruct (h_halted st); [exact H|].
    destruct (h_msg st); [apply (FJ_same st); cbn; eauto|].
    destruct (h_sending st); try solve [apply (FJ_same st); cbn; eauto].
    cbn [fst]. apply (FJ_same st); cbn; autorewrite with css; cbn; eauto.
  - unfold do_set_stream. destruct (h_halted st); [apply (FJ_same st); cbn; eauto|].
    unfold drop_sink. cbn [h_sink set_next].
    assert (G : forall st1, h_frames st1 = h_frames st -> FJ (set_sink st1 (SkReady (h_next st) []))).
    { intros st1 E id buf [= <- <-] NF. cbn in NF. rewrite E in NF. exfalso. apply NF.
      apply frame_of_none. intros HI. apply (fi_lt _ _ _ _ _ _ _ F) in HI. lia. }
    destruct (h_sink st); cbn [fst]; apply G; reflexivity.
  - unfold do_alloc_failed. destruct (h_halted st); [exact H|].
    destruct (h_sink st) eqn:K; cbn [fst]; try solve [apply (FJ_same st); cbn; eauto].
    intros id buf E. discriminate.
  - cbn. apply (FJ_same st); cbn; eauto.
  - apply FJ_hpoll_loop. exact H.
  - unfold do_poll_close. destruct (h_closing st); cbn [fst].
    { apply (FJ_same st); cbn; eauto. }
    cbn [h_sink set_msg set_closing].
    destruct (h_sink st) as [| |id0 buf0]; intros id buf E; cbn in E;
      destruct (h_sending st); autorewrite with css in E; discriminate.
Qed.

(* ------------------------------------------------------------------------------------------------ *)
(* Invariants of runs that respect the contract (strict = true)                                     *)
(* ------------------------------------------------------------------------------------------------ *)

Fixpoint reports (outs : list hout) : list sending_report :=
  match outs with
  | [] => []
  | HReport r :: o => r :: reports o
  | _ :: o => reports o
  end.

Lemma reports_app a b : reports (a ++ b) = reports a ++ reports b.
Proof. induction a as [|x a IH]; [reflexivity|]. destruct x; cbn; rewrite ?IH; reflexivity. Qed.

Lemma reports_stream o : Forall (fun x => is_stream_out x = true) o -> reports o = [].
Proof. induction 1 as [|x o Hx Ho IH]; [reflexivity|]. destruct x; try discriminate; exact IH. Qed.

Fixpoint qstates (q : list hev) : list sending_state :=
  match q with
  | [] => []
  | EvState s :: q' => s :: qstates q'
  | EvClosing :: q' => qstates q'
  end.

Lemma qstates_app a b : qstates (a ++ b) = qstates a ++ qstates b.
Proof. induction a as [|[s|] a IH]; cbn; rewrite ?IH; reflexivity. Qed.

Lemma reports_evs q : reports (map hout_of_ev q) = map report_of (qstates q).
Proof. induction q as [|[s|] q IH]; cbn; rewrite ?IH; reflexivity. Qed.

(* the order in which a handler on connection c may report: RequestReceived after Ready (one accepted
   wantlist), then optionally Sending, then exactly one of Ready / Failed; nothing follows Failed *)
Definition allowed (c : conn) (a b : sending_report) : Prop :=
  match a, b with
  | RpReady, RpRequestReceived c' => c' = c
  | RpRequestReceived _, RpSending c' => c' = c
  | RpRequestReceived _, RpFailed c' => c' = c
  | RpSending _, RpReady => True
  | RpSending _, RpFailed c' => c' = c
  | _, _ => False
  end.

Fixpoint chain_ok (c : conn) (r : sending_report) (l : list sending_report) : Prop :=
  match l with
  | [] => True
  | x :: l' => allowed c r x /\ chain_ok c x l'
  end.

Lemma last_cons_default {A} (l : list A) : forall a d d', last (a :: l) d = last (a :: l) d'.
Proof. induction l as [|b l IH]; intros a d d'; [reflexivity|]. cbn in *. apply (IH b). Qed.

Lemma chain_ok_snoc c l : forall r x, chain_ok c r l -> allowed c (last l r) x -> chain_ok c r (l ++ [x]).
Proof.
  induction l as [|y l IH]; intros r x H A; cbn [chain_ok app] in *; [tauto|].
  destruct H as [H1 H2]. split; [exact H1|]. apply IH; [exact H2|].
  destruct l as [|z l]; [exact A|]. rewrite (last_cons_default l z y r).
  change (last (y :: z :: l) r) with (last (z :: l) r) in A. exact A.
Qed.

(* what has been reported plus what is queued to be reported *)
Definition rtrace (st : hstate) (outs : list hout) : list sending_report :=
  reports outs ++ map report_of (qstates (h_queue st)).

Definition delivered (st : hstate) (outs : list hout) (ws : list wantlist) : Prop :=
  exists fr0 id w ws0,
    h_frames st = fr0 ++ [(id, wantlist_message w)] /\ ws = ws0 ++ [w]
    /\ wrote_on id outs = encode (wantlist_message w).

Record ZI (st : hstate) (e : env) (outs : list hout) (ws : list wantlist) : Prop := MkZI {
  z_close : h_closing st = e_closed e;
  z_msg : forall m, h_msg st = Some m -> exists t, h_sending st = SsRequestReceived t (h_conn st);
  z_tmo : h_closing st = false -> h_timeout st <> None -> h_msg st <> None;
  z_req : h_halted st = false -> h_closing st = false -> h_sink st = SkRequested -> h_msg st <> None;
  z_frm : h_halted st = false -> h_closing st = false ->
          forall id buf, h_sink st = SkReady id buf -> h_msg st = None -> frame_of (h_frames st) id <> None;
  z_all : h_halted st = false -> h_closing st = false ->
          map snd (h_frames st) ++ option_list (h_msg st) = map wantlist_message ws;
  z_chain : chain_ok (h_conn st) RpReady (rtrace st outs)
            /\ last (rtrace st outs) RpReady = report_of (h_sending st);
  z_rdy : h_sending st = SsReady -> ws = [] \/ delivered st outs ws;
  z_nil : ws = [] -> rtrace st outs = [];
  z_halt : h_halted st = true -> h_sending st = SsFailed (h_conn st)
}.

Lemma env_out_closed e o : e_closed (env_out e o) = e_closed e.
Proof. destruct o; try reflexivity. destruct r; reflexivity. Qed.

Lemma fold_env_out_closed o : forall e, e_closed (fold_left env_out o e) = e_closed e.
Proof. induction o as [|x o IH]; intros e; [reflexivity|]. cbn. rewrite IH. apply env_out_closed. Qed.

Lemma delivered_grow st st' outs o ws :
  h_frames st' = h_frames st -> no_writes o -> delivered st outs ws -> delivered st' (outs ++ o) ws.
Proof.
  intros F W (fr0 & id & w & ws0 & E1 & E2 & E3). exists fr0, id, w, ws0.
  rewrite F, wrote_on_app, W, app_nil_r. auto.
Qed.

Lemma stream_out_no_reports_ev ev : Forall (fun x => is_stream_out x = true) [hout_of_ev ev] -> False.
Proof. intros H. inversion H as [|? ? Hx _]. destruct ev; discriminate. Qed.

(* pushing a state change keeps the report chain legal if the edge is allowed *)
Lemma chain_css st s outs :
  chain_ok (h_conn st) RpReady (rtrace st outs) /\ last (rtrace st outs) RpReady = report_of (h_sending st) ->
  allowed (h_conn st) (report_of (h_sending st)) (report_of s) ->
  chain_ok (h_conn st) RpReady (rtrace (change_sending_state st s) outs)
  /\ last (rtrace (change_sending_state st s) outs) RpReady = report_of s.
Proof.
  intros [C L] A. unfold rtrace in *. rewrite css_queue. destruct (ss_eqb (h_sending st) s) eqn:E.
  - apply ss_eqb_spec in E. subst s. rewrite app_nil_r. auto.
  - rewrite qstates_app, map_app, app_assoc. cbn [qstates map]. split.
    + apply chain_ok_snoc; [exact C|]. rewrite L. exact A.
    + apply last_last.
Qed.

Lemma map_snoc_inv {A B} (f : A -> B) (g : wantlist -> B) (a : list A) (x : A) : forall ws,
  map f (a ++ [x]) = map g ws -> exists ws0 w, ws = ws0 ++ [w] /\ f x = g w.
Proof.
  intros ws H. destruct (@exists_last _ ws) as (ws0 & w & ->).
  { intros ->. destruct a; discriminate. }
  exists ws0, w. split; [reflexivity|]. rewrite !map_app in H. cbn in H.
  apply app_inj_tail in H. tauto.
Qed.

Lemma frame_of_last fr0 id m : NoDup (map fst (fr0 ++ [(id, m)])) -> frame_of (fr0 ++ [(id, m)]) id = Some m.
Proof.
  intros ND. rewrite frame_of_app. destruct (frame_of fr0 id) eqn:E.
  - exfalso. apply frame_of_in in E. rewrite map_app in ND. cbn in ND.
    apply NoDup_remove_2 in ND. rewrite app_nil_r in ND. apply ND. apply (in_map fst) in E. exact E.
  - cbn. rewrite N.eqb_refl. reflexivity.
Qed.

Lemma ZI_ext st st' e e' outs outs' ws :
  ZI st e outs ws ->
  e_closed e' = e_closed e ->
  h_closing st' = h_closing st -> h_msg st' = h_msg st -> h_sending st' = h_sending st ->
  h_conn st' = h_conn st -> h_timeout st' = h_timeout st -> h_halted st' = h_halted st ->
  h_frames st' = h_frames st ->
  (h_sink st' = SkRequested -> h_sink st = SkRequested \/ h_msg st <> None) ->
  (forall id buf, h_sink st' = SkReady id buf -> exists buf0, h_sink st = SkReady id buf0) ->
  rtrace st' outs' = rtrace st outs ->
  (h_sending st = SsReady -> exists o, outs' = outs ++ o /\ no_writes o) ->
  ZI st' e' outs' ws.
Proof.
  intros [Z1 Z2 Z3 Z4 Z5 Z6 Z7 Z8 Z9 Z10] E C M S CN T H F K1 K2 R W.
  constructor; rewrite ?E, ?C, ?M, ?S, ?CN, ?T, ?H, ?F, ?R; auto.
  - intros HL CL K. destruct (K1 K) as [K'|K']; auto.
  - intros HL CL id buf K. destruct (K2 _ _ K) as [buf0 K0]. eauto.
  - intros SR. destruct (Z8 SR) as [->|D]; [left; reflexivity|right].
    destruct (W SR) as (o & -> & NW). eapply delivered_grow; eauto.
Qed.

Lemma rtrace_stream st st' outs o :
  h_queue st' = h_queue st -> Forall (fun x => is_stream_out x = true) o -> rtrace st' (outs ++ o) = rtrace st outs.
Proof. intros Q SO. unfold rtrace. rewrite Q, reports_app, (reports_stream _ SO), app_nil_r. reflexivity. Qed.

Lemma no_writes_sevs_other id evs : wrote_of evs = [] -> no_writes (map (hout_of_sev id) evs).
Proof. intros W id'. rewrite wrote_on_sevs, W. destruct (id =? id'); reflexivity. Qed.

Lemma ZI_poll_iter st e s r st' s' o outs ws :
  poll_iter encode st s = (r, st', s', o) -> h_closing st = false ->
  NP st e -> FI st outs ws -> FJ st -> ZI st e outs ws ->
  ZI st' (fold_left env_out (o ++ iter_out r) e) (outs ++ o ++ iter_out r) ws.
Proof.
  intros PI CL N F J Z.
  assert (EC : e_closed (fold_left env_out (o ++ iter_out r) e) = e_closed e) by apply fold_env_out_closed.
  revert EC. generalize (fold_left env_out (o ++ iter_out r) e) as e'. intros e' EC.
  pose proof (poll_iter_outs_stream _ _ _ _ _ _ PI) as SO.
  revert PI. unfold poll_iter. destruct (h_queue st) as [|ev q] eqn:Q.
  { (* queue empty *)
  destruct (h_halted st) eqn:HL.
  { intros [= <- <- <- <-]. cbn [iter_out app]. rewrite app_nil_r.
    eapply ZI_ext; eauto. intros _. exists []. rewrite app_nil_r. split; [reflexivity | apply no_writes_nil]. }
  destruct (timeout_fired st) eqn:TF.
  { (* timeout *)
    unfold drop_sink. cbn [h_sink set_msg set_timeout].
    assert (TS : h_timeout st <> None).
    { unfold timeout_fired in TF. destruct (h_timeout st); [discriminate|discriminate]. }
    pose proof (z_tmo _ _ _ _ Z CL TS) as MS.
    destruct (h_msg st) as [m|] eqn:M; [|congruence].
    destruct (z_msg _ _ _ _ Z m M) as [t SD].
    assert (G : forall k o1, Forall (fun x => is_stream_out x = true) o1 ->
      ZI (set_halted (change_sending_state (set_sink (set_msg (set_timeout st None) None) k) (SsFailed (h_conn st))) true)
         e' (outs ++ o1 ++ []) ws).
    { intros k o1 SO1. rewrite app_nil_r.
      set (st1 := set_sink (set_msg (set_timeout st None) None) k).
      assert (CH : chain_ok (h_conn st1) RpReady (rtrace (change_sending_state st1 (SsFailed (h_conn st))) (outs ++ o1))
                   /\ last (rtrace (change_sending_state st1 (SsFailed (h_conn st))) (outs ++ o1)) RpReady
                      = report_of (SsFailed (h_conn st))).
      { apply chain_css.
        - rewrite (rtrace_stream st st1 outs o1 eq_refl SO1). exact (z_chain _ _ _ _ Z).
        - subst st1. cbn. rewrite SD. reflexivity. }
      constructor; cbn [h_closing h_msg h_sending h_conn h_timeout h_halted h_frames h_sink set_halted];
        autorewrite with css; subst st1; cbn [h_closing h_msg h_sending h_conn h_timeout h_halted h_frames h_sink set_sink set_msg set_timeout];
        try congruence; try discriminate.
      - rewrite EC. exact (z_close _ _ _ _ Z).
      - exact CH.
      - intros ->. pose proof (z_all _ _ _ _ Z HL CL) as A. rewrite M in A. cbn in A.
        destruct (map snd (h_frames st)); discriminate. }
    destruct (h_sink st); intros [= <- <- <- <-]; apply G; repeat constructor. }
  destruct (h_msg st) as [m|] eqn:M, (h_sink st) as [| |id buf] eqn:K.
  - (* open_new_substream *)
    intros [= <- <- <- <-]. cbn [iter_out app].
    eapply ZI_ext; eauto; cbn; try congruence.
    + intros _. right. congruence.
    + unfold rtrace. cbn. rewrite reports_app. cbn. rewrite app_nil_r. reflexivity.
    + intros _. exists [HOpenStream]. split; [reflexivity | intros ?; reflexivity].
  - intros [= <- <- <- <-]. cbn [iter_out app]. rewrite app_nil_r.
    eapply ZI_ext; eauto. intros _. exists []. rewrite app_nil_r. split; [reflexivity | apply no_writes_nil].
  - (* Some, Ready *)
    destruct (z_msg _ _ _ _ Z m M) as [t SD].
    destruct (fr_res (fw_poll_ready buf s)) eqn:FR; intros [= <- <- <- <-]; cbn [iter_out]; rewrite app_nil_r.
    + (* start_send *)
      set (stA := set_timeout (add_frame (set_sink (set_msg st None) (SkReady id (fw_start_send (fr_buf (fw_poll_ready buf s)) (encode m)))) (id, m)) None).
      set (o1 := map (hout_of_sev id) (fr_evs (fw_poll_ready buf s))) in *.
      assert (CH : chain_ok (h_conn stA) RpReady (rtrace (change_sending_state stA (SsSending (h_now st) (h_conn st))) (outs ++ o1))
                   /\ last (rtrace (change_sending_state stA (SsSending (h_now st) (h_conn st))) (outs ++ o1)) RpReady
                      = report_of (SsSending (h_now st) (h_conn st))).
      { apply chain_css.
        - rewrite (rtrace_stream st stA outs o1 eq_refl SO). exact (z_chain _ _ _ _ Z).
        - subst stA. cbn. rewrite SD. reflexivity. }
      pose proof (z_all _ _ _ _ Z HL CL) as A. rewrite M in A. cbn in A.
      constructor; cbn [h_closing h_msg h_sending h_conn h_timeout h_halted h_frames h_sink];
        autorewrite with css; subst stA; cbn [h_closing h_msg h_sending h_conn h_timeout h_halted h_frames h_sink set_sink set_msg set_timeout add_frame];
        try congruence; try discriminate.
      * rewrite EC. exact (z_close _ _ _ _ Z).
      * intros _ _ id0 buf0 [= <- <-] _. rewrite frame_of_app. destruct (frame_of (h_frames st) id); [discriminate|].
        cbn. rewrite N.eqb_refl. discriminate.
      * intros _ _. rewrite map_app. cbn. rewrite app_nil_r. exact A.
      * exact CH.
      * intros ->. destruct (map snd (h_frames st)); discriminate.
    + (* poll_ready error *)
      eapply ZI_ext; eauto; cbn; try congruence; try discriminate;
        try (apply rtrace_stream; [reflexivity | exact SO]); try (rewrite SD; discriminate).
    + eapply ZI_ext; eauto; cbn; try congruence; try discriminate;
        try (apply rtrace_stream; [reflexivity | exact SO]); try (rewrite SD; discriminate);
        try (intros id0 buf0 [= <- <-]; rewrite K; eauto).
  - intros [= <- <- <- <-]. cbn [iter_out app]. rewrite app_nil_r.
    eapply ZI_ext; eauto. intros _. exists []. rewrite app_nil_r. split; [reflexivity | apply no_writes_nil].
  - intros [= <- <- <- <-]. cbn [iter_out app]. rewrite app_nil_r.
    eapply ZI_ext; eauto. intros _. exists []. rewrite app_nil_r. split; [reflexivity | apply no_writes_nil].
  - (* None, Ready *)
    pose proof (z_frm _ _ _ _ Z HL CL id buf K M) as NF.
    unfold FI in F. rewrite K, M in F.
    destruct (fi_one _ _ _ _ _ _ _ F id buf eq_refl NF) as (_ & t & c & SD).
    pose proof (fi_sink _ _ _ _ _ _ _ F id buf eq_refl) as [_ WB].
    destruct (J id buf K NF) as (fr0 & m & FR0).
    pose proof (fi_nodup _ _ _ _ _ _ _ F) as ND. rewrite FR0 in ND.
    pose proof (z_all _ _ _ _ Z HL CL) as A. rewrite M, FR0 in A. cbn [option_list] in A. rewrite app_nil_r in A.
    destruct (map_snoc_inv snd wantlist_message fr0 (id, m) ws A) as (ws0 & w & EW & EM). cbn in EM.
    assert (WNE : ws <> []) by (rewrite EW; destruct ws0; discriminate).
    destruct (fr_res (fw_poll_flush buf s)) eqn:FR; intros [= <- <- <- <-]; cbn [iter_out]; rewrite app_nil_r.
    + (* flush Ok *)
      set (st1 := set_sink st SkNone).
      match type of SO with Forall _ ?x => set (o1 := x) in * end.
      assert (CH : chain_ok (h_conn st1) RpReady (rtrace (change_sending_state st1 SsReady) (outs ++ o1))
                   /\ last (rtrace (change_sending_state st1 SsReady) (outs ++ o1)) RpReady = report_of SsReady).
      { apply chain_css.
        - rewrite (rtrace_stream st st1 outs o1 eq_refl SO). exact (z_chain _ _ _ _ Z).
        - subst st1. cbn. rewrite SD. exact I. }
      constructor; cbn [h_closing h_msg h_sending h_conn h_timeout h_halted h_frames h_sink];
        autorewrite with css; subst st1; cbn [h_closing h_msg h_sending h_conn h_timeout h_halted h_frames h_sink set_sink];
        try congruence; try discriminate.
      * rewrite EC. exact (z_close _ _ _ _ Z).
      * exact (z_tmo _ _ _ _ Z).
      * intros _ _. rewrite M, FR0. cbn. rewrite app_nil_r. exact A.
      * exact CH.
      * intros _. right. exists fr0, id, w, ws0. autorewrite with css. cbn [h_frames set_sink]. rewrite FR0, EM. split; [reflexivity|]. split; [exact EW|].
        subst o1. rewrite !wrote_on_app, !wrote_on_sevs, N.eqb_refl. cbn [wrote_on]. rewrite app_nil_r.
        pose proof (fw_poll_flush_conserve s buf) as CV. rewrite (fw_poll_flush_ok s buf FR), app_nil_r in CV.
        pose proof (fw_poll_close_conserve (fr_script (fw_poll_flush buf s)) (fr_buf (fw_poll_flush buf s))) as CC.
        rewrite (fw_poll_flush_ok s buf FR) in CC. apply app_eq_nil in CC as [CC _].
        rewrite CV, (fw_poll_flush_ok s buf FR), CC, app_nil_r, WB. unfold FB. rewrite FR0, (frame_of_last _ _ _ ND), EM. reflexivity.
    + (* flush error *)
      set (st1 := set_sink st SkNone).
      match type of SO with Forall _ ?x => set (o1 := x) in * end.
      assert (CH : chain_ok (h_conn st1) RpReady (rtrace (change_sending_state st1 (SsFailed (h_conn st))) (outs ++ o1))
                   /\ last (rtrace (change_sending_state st1 (SsFailed (h_conn st))) (outs ++ o1)) RpReady
                      = report_of (SsFailed (h_conn st))).
      { apply chain_css.
        - rewrite (rtrace_stream st st1 outs o1 eq_refl SO). exact (z_chain _ _ _ _ Z).
        - subst st1. cbn. rewrite SD. reflexivity. }
      constructor; cbn [h_closing h_msg h_sending h_conn h_timeout h_halted h_frames h_sink];
        autorewrite with css; subst st1; cbn [h_closing h_msg h_sending h_conn h_timeout h_halted h_frames h_sink set_sink];
        try congruence; try discriminate.
      * rewrite EC. exact (z_close _ _ _ _ Z).
      * exact (z_tmo _ _ _ _ Z).
      * intros _ _. rewrite M, FR0. cbn. rewrite app_nil_r. exact A.
      * exact CH.
    + (* flush pending *)
      eapply ZI_ext; eauto; cbn; try congruence; try discriminate;
        try (apply rtrace_stream; [reflexivity | exact SO]); try (rewrite SD; discriminate);
        try (intros id0 buf0 [= <- <-]; rewrite K; eauto). }
  (* pop *)
  intros [= <- <- <- <-]. cbn [iter_out app].
  eapply ZI_ext; eauto; cbn; try congruence; try discriminate.
  - unfold rtrace. cbn [h_queue set_queue]. rewrite reports_app, Q. destruct ev; cbn; rewrite <- ?app_assoc; reflexivity.
  - intros _. exists [hout_of_ev ev]. split; [reflexivity | apply no_writes_iter_out_ev].
Qed.

Lemma ZI_hpoll_loop fuel : forall st e s outs ws,
  h_closing st = false -> NP st e -> FI st outs ws -> FJ st -> ZI st e outs ws ->
  ZI (fst (hpoll_loop encode fuel st s)) (fold_left env_out (snd (hpoll_loop encode fuel st s)) e)
     (outs ++ snd (hpoll_loop encode fuel st s)) ws.
Proof.
  induction fuel as [|f IH]; intros st e s outs ws CL N F J Z.
  - cbn. rewrite app_nil_r. eapply ZI_ext; eauto.
    intros _. exists []. rewrite app_nil_r. split; [reflexivity | apply no_writes_nil].
  - rewrite hpoll_loop_S. destruct (poll_iter encode st s) as [[[r st'] s'] o] eqn:PI.
    pose proof (ZI_poll_iter _ _ _ _ _ _ _ _ _ PI CL N F J Z) as Z'.
    pose proof (NP_poll_iter _ _ _ _ _ _ _ PI N) as N'.
    pose proof (FI_poll_iter _ _ _ _ _ _ _ _ PI F) as F'.
    pose proof (FJ_poll_iter _ _ _ _ _ _ PI J) as J'.
    pose proof (poll_iter_flags _ _ _ _ _ _ PI) as (_ & _ & _ & _ & _ & CL').
    destruct r; cbn [iter_out] in *.
    + rewrite app_nil_r in *. exact Z'.
    + specialize (IH st' _ s' _ ws ltac:(congruence) N' F' J' Z').
      destruct (hpoll_loop encode f st' s') as [st'' o']. cbn [fst snd] in *.
      replace (o ++ o0 :: o') with ((o ++ [o0]) ++ o') by (rewrite <- app_assoc; reflexivity).
      rewrite fold_left_app, app_assoc. rewrite <- app_assoc in IH. rewrite app_assoc in IH. exact IH.
    + rewrite app_nil_r in *.
      specialize (IH st' _ s' _ ws ltac:(congruence) N' F' J' Z').
      destruct (hpoll_loop encode f st' s') as [st'' o']. cbn [fst snd] in *.
      rewrite fold_left_app, app_assoc. exact IH.
Qed.

Lemma ZI_init c : ZI (h_init c) env_init [] [].
Proof.
  constructor; cbn; try congruence; try discriminate; auto.
Qed.

Lemma rtrace_evs st st' outs :
  h_queue st' = [] -> rtrace st' (outs ++ map hout_of_ev (h_queue st)) = rtrace st outs.
Proof. intros Q. unfold rtrace. rewrite Q, reports_app, reports_evs. cbn. rewrite app_nil_r. reflexivity. Qed.

Lemma ZI_step st e op outs ws :
  NPop st e -> FI st outs ws -> FJ st -> ZI st e outs ws -> op_allowed true e op = true ->
  ZI (fst (hstep encode st op)) (env_step e op (snd (hstep encode st op)))
     (outs ++ snd (hstep encode st op)) (ws ++ op_ws op).
Proof.
  intros (N & X & D) F J Z AL. pose proof N as [P A B C E].
  unfold hstep, env_step. rewrite P.
  destruct op as [w| | |ms|s|s]; cbn [op_allowed op_ws] in *; rewrite ?andb_true_iff, ?negb_true_iff in AL; rewrite ?app_nil_r.
  - (* HSendWantlist *)
    destruct AL as [R CLe]. cbn in CLe. pose proof (z_close _ _ _ _ Z) as CL. rewrite CLe in CL.
    unfold do_send_wantlist. destruct (h_halted st) eqn:HL.
    + cbn [fst snd fold_left env_op]. rewrite app_nil_r.
      pose proof (z_halt _ _ _ _ Z HL) as SF. destruct Z as [Z1 Z2 Z3 Z4 Z5 Z6 Z7 Z8 Z9 Z10].
      constructor; auto; try congruence.
      intros E0. destruct ws; discriminate.
    + destruct D as [D|D]; [|congruence].
      rewrite D in B. specialize (B eq_refl R). rewrite (C B), B. cbn [fst snd fold_left env_op]. rewrite app_nil_r.
      set (st1 := set_msg st (Some (wantlist_message w))).
      assert (CH : chain_ok (h_conn st1) RpReady (rtrace (change_sending_state st1 (SsRequestReceived (h_now st) (h_conn st))) outs)
                   /\ last (rtrace (change_sending_state st1 (SsRequestReceived (h_now st) (h_conn st))) outs) RpReady
                      = report_of (SsRequestReceived (h_now st) (h_conn st))).
      { apply chain_css.
        - exact (z_chain _ _ _ _ Z).
        - subst st1. cbn. rewrite B. reflexivity. }
      pose proof (z_all _ _ _ _ Z HL CL) as AW. rewrite (C B) in AW. cbn in AW. rewrite app_nil_r in AW.
      constructor; cbn [h_closing h_msg h_sending h_conn h_timeout h_halted h_frames h_sink set_timeout];
        autorewrite with css; subst st1; cbn [h_closing h_msg h_sending h_conn h_timeout h_halted h_frames h_sink set_msg];
        try congruence; try discriminate.
      * exact (z_close _ _ _ _ Z).
      * intros m _. eauto.
      * intros _ _. rewrite map_app, AW. reflexivity.
      * exact CH.
      * intros E0. destruct ws; discriminate.
  - (* HSetStream *)
    destruct AL as [O CLe]. cbn in CLe. pose proof (z_close _ _ _ _ Z) as CL. rewrite CLe in CL.
    unfold do_set_stream. destruct (h_halted st) eqn:HL.
    + cbn [fst snd env_op fold_left]. eapply ZI_ext; eauto; cbn; try congruence.
      * unfold rtrace. rewrite reports_app. cbn. rewrite app_nil_r. reflexivity.
      * intros _. exists [HDropped (h_next st)]. split; [reflexivity | apply no_writes_dropped].
    + destruct (E O) as [K|[K|K]]; [|congruence|congruence].
      pose proof (z_req _ _ _ _ Z HL CL K) as MS.
      unfold drop_sink. cbn [h_sink set_next]. rewrite K. cbn [fst snd env_op fold_left]. rewrite app_nil_r.
      destruct Z as [Z1 Z2 Z3 Z4 Z5 Z6 Z7 Z8 Z9 Z10].
      constructor; cbn; auto; try congruence; try discriminate.
  - (* HAllocFailed *)
    destruct AL as [O CLe]. cbn in CLe. pose proof (z_close _ _ _ _ Z) as CL. rewrite CLe in CL.
    unfold do_alloc_failed. destruct (h_halted st) eqn:HL.
    + cbn [fst snd env_op fold_left]. rewrite app_nil_r. eapply ZI_ext; eauto.
      intros _. exists []. rewrite app_nil_r. split; [reflexivity | apply no_writes_nil].
    + destruct (E O) as [K|[K|K]]; [|congruence|congruence].
      rewrite K. cbn [fst snd env_op fold_left]. rewrite app_nil_r.
      eapply ZI_ext; eauto; cbn; try congruence; try discriminate.
      intros _. exists []. rewrite app_nil_r. split; [reflexivity | apply no_writes_nil].
  - (* HAdvance *)
    cbn [fst snd env_op fold_left]. eapply ZI_ext; eauto.
    intros _. exists []. rewrite app_nil_r. split; [reflexivity | apply no_writes_nil].
  - (* HPoll *)
    cbn in AL. pose proof (z_close _ _ _ _ Z) as CL. rewrite AL in CL.
    cbn [env_op]. unfold do_poll. apply ZI_hpoll_loop; auto.
  - (* HPollClose *)
    cbn [env_op]. unfold do_poll_close.
    set (e1 := MkEnv (e_ready e) (e_open e) true).
    destruct (h_closing st) eqn:CLg.
    + cbn [fst snd app]. pose proof (z_close _ _ _ _ Z) as ZC.
      eapply ZI_ext; eauto; cbn [h_closing h_msg h_sending h_conn h_timeout h_halted h_frames h_sink set_queue]; try congruence; try discriminate.
      * rewrite fold_env_out_closed. cbn. congruence.
      * apply rtrace_evs. reflexivity.
      * intros _. eexists. split; [reflexivity | apply no_writes_ev].
    + (* first poll_close *)
      cbn [h_sink set_msg set_closing].
      assert (NRK : h_sending st = SsReady -> forall id buf, h_sink st <> SkReady id buf).
      { intros SR id buf K. destruct (h_halted st) eqn:HL.
        - pose proof (z_halt _ _ _ _ Z HL). congruence.
        - pose proof (z_frm _ _ _ _ Z HL CLg id buf K (C SR)) as NF.
          unfold FI in F. rewrite K in F.
          destruct (fi_one _ _ _ _ _ _ _ F id buf eq_refl NF) as (_ & t & c & SD). congruence. }
      assert (G : forall o, Forall (fun x => is_stream_out x = true) o -> (h_sending st = SsReady -> o = []) ->
        let st2 := set_sink (set_msg (set_closing st true) None) SkNone in
        let st3 := match h_sending st2 with
                   | SsRequestReceived _ _ | SsSending _ _ => change_sending_state st2 (SsFailed (h_conn st))
                   | _ => st2 end in
        let st4 := set_queue st3 (h_queue st3 ++ [EvClosing]) in
        ZI (set_queue st4 []) (fold_left env_out (o ++ map hout_of_ev (h_queue st4)) e1)
           (outs ++ o ++ map hout_of_ev (h_queue st4)) ws).
      { intros o SO OR st2 st3 st4.
        assert (CH3 : (chain_ok (h_conn st) RpReady (rtrace st3 (outs ++ o))
                       /\ last (rtrace st3 (outs ++ o)) RpReady = report_of (h_sending st3))
                      /\ (h_sending st3 = h_sending st \/ h_sending st3 = SsFailed (h_conn st) /\ h_sending st <> SsReady)).
        { assert (R2 : rtrace st2 (outs ++ o) = rtrace st outs) by (apply rtrace_stream; [reflexivity | exact SO]).
          assert (HS2 : h_sending st2 = h_sending st) by reflexivity.
          assert (HC2 : h_conn st2 = h_conn st) by reflexivity.
          pose proof (z_chain _ _ _ _ Z) as ZCH. rewrite <- R2, <- HS2 in ZCH.
          assert (CSS : forall t c, (h_sending st2 = SsRequestReceived t c \/ h_sending st2 = SsSending t c) ->
                   (chain_ok (h_conn st) RpReady (rtrace (change_sending_state st2 (SsFailed (h_conn st))) (outs ++ o))
                    /\ last (rtrace (change_sending_state st2 (SsFailed (h_conn st))) (outs ++ o)) RpReady
                       = report_of (h_sending (change_sending_state st2 (SsFailed (h_conn st)))))
                   /\ (h_sending (change_sending_state st2 (SsFailed (h_conn st))) = h_sending st \/
                       h_sending (change_sending_state st2 (SsFailed (h_conn st))) = SsFailed (h_conn st) /\ h_sending st <> SsReady)).
          { intros t c SD. rewrite css_sending. split.
            - rewrite <- HC2. apply chain_css; [rewrite HC2; exact ZCH|].
              destruct SD as [-> | ->]; reflexivity.
            - right. split; [reflexivity|]. rewrite <- HS2. destruct SD as [-> | ->]; discriminate. }
          subst st3. destruct (h_sending st2) eqn:SD.
          - split; [rewrite ?SD; exact ZCH | left; congruence].
          - split; [rewrite ?SD; exact ZCH | left; congruence].
          - apply (CSS t c). left; reflexivity.
          - apply (CSS t c). right; reflexivity.
          - split; [rewrite ?SD; exact ZCH | left; congruence]. }
        destruct CH3 as [CH3 S3].
        assert (F3 : h_frames st3 = h_frames st /\ h_halted st3 = h_halted st /\ h_conn st3 = h_conn st
                     /\ h_closing st3 = true /\ h_msg st3 = None /\ h_timeout st3 = h_timeout st).
        { subst st3. destruct (h_sending st2); autorewrite with css; subst st2; cbn; auto 10. }
        destruct F3 as (F31 & F32 & F33 & F34 & F35 & F36).
        assert (RT : rtrace (set_queue st4 []) (outs ++ o ++ map hout_of_ev (h_queue st4)) = rtrace st3 (outs ++ o)).
        { subst st4. unfold rtrace. cbn [h_queue set_queue]. rewrite !reports_app, reports_evs, qstates_app.
          cbn [qstates map app]. rewrite ?app_nil_r, <- ?app_assoc. reflexivity. }
        constructor; rewrite ?RT; subst st4; cbn [h_closing h_msg h_sending h_conn h_timeout h_halted h_frames h_sink set_queue];
          rewrite ?F31, ?F32, ?F33, ?F34, ?F35, ?F36; try congruence; try discriminate.
        - rewrite fold_env_out_closed. reflexivity.
        - intros SR. destruct S3 as [S3|[S3 _]]; [|congruence]. rewrite S3 in SR.
          destruct (z_rdy _ _ _ _ Z SR) as [->|DL]; [left; reflexivity|right].
          rewrite (OR SR). cbn [app]. eapply delivered_grow; [exact F31 | apply no_writes_ev | exact DL].
        - intros ->.
          pose proof (z_nil _ _ _ _ Z eq_refl) as RN. pose proof (z_chain _ _ _ _ Z) as [_ LS]. rewrite RN in LS. cbn in LS.
          symmetry in LS. apply report_ready in LS.
          destruct S3 as [S3|[_ S3]]; [|congruence].
          unfold rtrace in *. rewrite reports_app, (reports_stream _ SO), app_nil_r.
          apply app_eq_nil in RN as [RN1 RN2]. rewrite RN1. cbn.
          subst st3. change (h_sending st2) with (h_sending st). rewrite LS. exact RN2.
        - intros HL. pose proof (z_halt _ _ _ _ Z HL) as SF.
          destruct S3 as [S3|[S3 _]]; congruence. }
      destruct (h_sink st) as [| |id buf] eqn:K; cbn [fst snd].
      * apply (G []); [constructor | reflexivity].
      * apply (G []); [constructor | reflexivity].
      * apply G.
        -- rewrite Forall_app. split; [apply sev_outs_stream | repeat constructor].
        -- intros SR. exfalso. apply (NRK SR id buf). first [reflexivity | exact K].
Qed.

Lemma SI_run ops : forall st e outs ws,
  NPop st e -> FI st outs ws -> FJ st -> ZI st e outs ws ->
  disciplined_from encode true st e ops = true ->
  exists e', NPop (fst (hrun encode st ops)) e'
    /\ FI (fst (hrun encode st ops)) (outs ++ snd (hrun encode st ops)) (ws ++ sent_ws ops)
    /\ FJ (fst (hrun encode st ops))
    /\ ZI (fst (hrun encode st ops)) e' (outs ++ snd (hrun encode st ops)) (ws ++ sent_ws ops).
Proof.
  induction ops as [|op ops IH]; intros st e outs ws N F J Z D.
  - exists e. cbn. rewrite !app_nil_r. auto.
  - cbn [disciplined_from] in D. apply andb_true_iff in D as [AL D].
    destruct (NPop_step st e op N AL) as [N' _].
    pose proof (FI_step st op outs ws F) as F'.
    pose proof (FJ_step st op outs ws F J) as J'.
    pose proof (ZI_step st e op outs ws N F J Z AL) as Z'.
    unfold hrun in *. cbn [hrun_trace].
    destruct (hstep encode st op) as [st1 o1]. cbn [fst snd] in *.
    destruct (IH st1 _ _ _ N' F' J' Z' D) as (e' & N2 & F2 & J2 & Z2).
    destruct (hrun_trace encode st1 ops) as [st2 os]. cbn [fst snd concat] in *.
    exists e'.
    replace (ws ++ sent_ws (op :: ops)) with ((ws ++ op_ws op) ++ sent_ws ops).
    2:{ rewrite <- app_assoc. f_equal. destruct op; reflexivity. }
    rewrite app_assoc. auto.
Qed.

Lemma hstep_conn st op : h_conn (fst (hstep encode st op)) = h_conn st.
Proof.
  unfold hstep. destruct (h_panicked st); [reflexivity|]. destruct op as [w| | |ms|s|s].
  - unfold do_send_wantlist. destruct (h_halted st); [reflexivity|]. destruct (h_msg st); [reflexivity|].
    destruct (h_sending st); try reflexivity. cbn. autorewrite with css. reflexivity.
  - unfold do_set_stream. destruct (h_halted st); [reflexivity|]. unfold drop_sink. cbn [h_sink set_next].
    destruct (h_sink st); reflexivity.
  - unfold do_alloc_failed. destruct (h_halted st); [reflexivity|]. destruct (h_sink st); reflexivity.
  - reflexivity.
  - unfold do_poll. generalize (poll_fuel st). intros fuel. revert st s.
    induction fuel as [|f IH]; intros st s; [reflexivity|].
    rewrite hpoll_loop_S. destruct (poll_iter encode st s) as [[[r st'] s'] o] eqn:PI.
    pose proof (poll_iter_flags _ _ _ _ _ _ PI) as (_ & _ & CN & _).
    destruct r; [exact CN| |]; specialize (IH st' s'); destruct (hpoll_loop encode f st' s'); cbn in *; congruence.
  - unfold do_poll_close. destruct (h_closing st); [reflexivity|]. cbn [h_sink set_msg set_closing].
    destruct (h_sink st); cbn; destruct (h_sending st); autorewrite with css; reflexivity.
Qed.

Lemma hrun_conn ops : forall st, h_conn (fst (hrun encode st ops)) = h_conn st.
Proof.
  induction ops as [|op ops IH]; intros st; [reflexivity|].
  unfold hrun in *. cbn [hrun_trace]. pose proof (hstep_conn st op) as C1.
  destruct (hstep encode st op) as [st1 o1]. specialize (IH st1).
  destruct (hrun_trace encode st1 ops) as [st2 os]. cbn in *. congruence.
Qed.

Lemma chain_ok_app_l c a : forall r b, chain_ok c r (a ++ b) -> chain_ok c r a.
Proof. induction a as [|x a IH]; intros r b H; cbn in *; [exact I|]. destruct H. split; eauto. Qed.

(* In a run that respects the contract the reports of the handler of connection c follow the protocol
   Ready -> RequestReceived -> (Sending ->)? (Ready | Failed), and nothing follows Failed: every wantlist
   the handler acknowledged (RequestReceived) is resolved by at most one terminal report. *)
Theorem C14_report_protocol :
  forall (c : conn) (ops : list hop),
    disciplined encode true c ops = true -> chain_ok c RpReady (reports (handler_outs encode c ops)).
Proof.
  intros c ops D.
  destruct (SI_run ops (h_init c) env_init [] [] (NPop_init c) FIc_init ltac:(intros ? ? H; discriminate) (ZI_init c) D)
    as (e' & _ & _ & _ & Z).
  destruct (z_chain _ _ _ _ Z) as [CH _]. rewrite hrun_conn in CH. cbn [h_conn h_init app] in CH.
  unfold rtrace in CH. apply chain_ok_app_l in CH. exact CH.
Qed.

(* If the most recent report is RpReady and no report is queued, the wantlist handed over last has been
   written completely (and flushed: see C14_ready_iff_flushed) to the one stream that carried its frame. *)
Theorem C14_ready_means_delivered :
  forall (c : conn) (ops : list hop),
    disciplined encode true c ops = true ->
    let st := handler_final encode c ops in
    let outs := handler_outs encode c ops in
    h_queue st = [] -> last (reports outs) RpReady = RpReady -> sent_ws ops <> [] ->
    exists fr0 id w ws0,
      h_frames st = fr0 ++ [(id, wantlist_message w)] /\ sent_ws ops = ws0 ++ [w]
      /\ wrote_on id outs = encode (wantlist_message w).
Proof.
  intros c ops D st outs Q L NE. subst st outs. rewrite handler_final_hrun in *. unfold handler_outs in *.
  destruct (SI_run ops (h_init c) env_init [] [] (NPop_init c) FIc_init ltac:(intros ? ? H; discriminate) (ZI_init c) D)
    as (e' & _ & _ & _ & Z). cbn [app] in Z.
  destruct (z_chain _ _ _ _ Z) as [_ LS]. unfold rtrace in LS. rewrite Q in LS. cbn in LS. rewrite app_nil_r, L in LS.
  symmetry in LS. apply report_ready in LS.
  destruct (z_rdy _ _ _ _ Z LS) as [E|DL]; [congruence|]. exact DL.
Qed.

(* an accepted wantlist arms the start-sending timeout START_SENDING_TIMEOUT ms ahead *)
Lemma send_arms_timeout st w :
  h_panicked st = false -> h_halted st = false -> h_msg st = None -> h_sending st = SsReady ->
  let st' := fst (hstep encode st (HSendWantlist w)) in
  h_timeout st' = Some (h_now st + START_SENDING_TIMEOUT) /\ h_msg st' = Some (wantlist_message w)
  /\ h_sending st' = SsRequestReceived (h_now st) (h_conn st) /\ snd (hstep encode st (HSendWantlist w)) = [].
Proof.
  intros P HL M SD. unfold hstep. rewrite P. unfold do_send_wantlist. rewrite HL, M, SD. cbn.
  autorewrite with css. auto.
Qed.

Lemma timeout_fired_iff st d : h_timeout st = Some d -> (timeout_fired st = true <-> d <= h_now st).
Proof. intros T. unfold timeout_fired. rewrite T. rewrite N.leb_le. tauto. Qed.

(* ------------------------------------------------------------------------------------------------ *)
(* Theorem 3: C14_no_silent_loss                                                                    *)
(* ------------------------------------------------------------------------------------------------ *)
Theorem C14_no_silent_loss :
  (* (a) exactly one outcome: in a run that respects the contract the reports follow
         Ready -> RequestReceived -> (Sending ->)? (Ready | Failed) and nothing follows Failed *)
  (forall (c : conn) (ops : list hop),
     disciplined encode true c ops = true -> chain_ok c RpReady (reports (handler_outs encode c ops)))
  (* (b) closing while a wantlist is outstanding: RpFailed, then HClosing, are the last two outputs *)
  /\ (forall st s,
        h_panicked st = false -> h_closing st = false ->
        (exists t c, h_sending st = SsRequestReceived t c \/ h_sending st = SsSending t c) ->
        exists pre, snd (hstep encode st (HPollClose s)) = pre ++ [HReport (RpFailed (h_conn st)); HClosing])
  (* (c) progress: while Sending, polls that each let at least one byte through and offer a flush reach
         RpReady after at most one poll per buffered byte *)
  /\ (forall (ss : list (list io)) st id buf t c,
        h_panicked st = false -> h_queue st = [] -> h_halted st = false -> h_timeout st = None ->
        h_msg st = None -> h_sink st = SkReady id buf -> h_sending st = SsSending t c -> buf <> [] ->
        Forall good_script ss -> (length buf <= length ss)%nat ->
        In (HReport RpReady) (snd (hrun encode st (map HPoll ss))))
  (* (d) no progress: once START_SENDING_TIMEOUT ms have passed since the wantlist was accepted and
         sending has not started, the next poll reports RpFailed and halts the handler, whatever the
         script *)
  /\ (forall st s d,
        h_halted st = false -> h_timeout st = Some d -> d <= h_now st ->
        last_state (h_queue st) <> Some (SsFailed (h_conn st)) ->
        (last_state (h_queue st) = None -> h_sending st <> SsFailed (h_conn st)) ->
        (forall x, last_state (h_queue st) = Some x -> h_sending st = x) ->
        In (HReport (RpFailed (h_conn st))) (snd (do_poll encode st s))
        /\ h_halted (fst (do_poll encode st s)) = true /\ h_msg (fst (do_poll encode st s)) = None).
Proof.
  split; [exact C14_report_protocol|]. split; [|split].
  - intros st s P CL SD. destruct (C05_close_reports_failed st s P CL SD) as [H _]. exact H.
  - exact C14_progress_reaches_ready.
  - intros st s d HL T LE L1 L2 L3.
    assert (TF : timeout_fired st = true) by (apply (timeout_fired_iff st d T); exact LE).
    destruct (C05_timeout_reports_failed st s HL TF L1 L2 L3) as (H1 & H2 & H3 & _). auto.
Qed.

(* ------------------------------------------------------------------------------------------------ *)
(* Theorem 4: C05_handler_reports                                                                   *)
(* ------------------------------------------------------------------------------------------------ *)
Theorem C05_handler_reports :
  (* start-sending timeout => RpFailed and halted (and the wantlist and the stream are dropped) *)
  (forall st s,
     h_halted st = false -> timeout_fired st = true ->
     last_state (h_queue st) <> Some (SsFailed (h_conn st)) ->
     (last_state (h_queue st) = None -> h_sending st <> SsFailed (h_conn st)) ->
     (forall x, last_state (h_queue st) = Some x -> h_sending st = x) ->
     let r := do_poll encode st s in
     In (HReport (RpFailed (h_conn st))) (snd r) /\ h_halted (fst r) = true /\ h_msg (fst r) = None
     /\ h_sink (fst r) = SkNone /\ h_timeout (fst r) = None /\ h_queue (fst r) = [])
  (* flush error => RpFailed, the stream is dropped, the handler is not halted *)
  /\ (forall st s id buf,
        h_queue st = [] -> h_halted st = false -> timeout_fired st = false -> h_msg st = None ->
        h_sink st = SkReady id buf -> h_sending st <> SsFailed (h_conn st) ->
        fr_res (fw_poll_flush buf s) = PrErr ->
        let r := do_poll encode st s in
        snd r = map (hout_of_sev id) (fr_evs (fw_poll_flush buf s)) ++ [HDropped id; HReport (RpFailed (h_conn st))]
        /\ h_sink (fst r) = SkNone /\ h_sending (fst r) = SsFailed (h_conn st) /\ h_halted (fst r) = false)
  (* poll_close while RequestReceived / Sending => RpFailed before HClosing *)
  /\ (forall st s,
        h_panicked st = false -> h_closing st = false ->
        (exists t c, h_sending st = SsRequestReceived t c \/ h_sending st = SsSending t c) ->
        let r := hstep encode st (HPollClose s) in
        (exists pre, snd r = pre ++ [HReport (RpFailed (h_conn st)); HClosing])
        /\ h_msg (fst r) = None /\ h_sink (fst r) = SkNone /\ h_closing (fst r) = true
        /\ h_sending (fst r) = SsFailed (h_conn st) /\ h_queue (fst r) = [])
  (* allocation failure => a new HOpenStream at the next poll, until the timeout fires *)
  /\ (forall st s m,
        h_panicked st = false -> h_queue st = [] -> h_halted st = false -> h_msg st = Some m ->
        h_sink st = SkRequested ->
        let st1 := fst (hstep encode st HAllocFailed) in
        let r := hstep encode st1 (HPoll s) in
        snd (hstep encode st HAllocFailed) = []
        /\ (timeout_fired st = false ->
              snd r = [HOpenStream] /\ h_sink (fst r) = SkRequested /\ h_msg (fst r) = Some m /\ h_halted (fst r) = false)
        /\ (timeout_fired st = true -> h_sending st <> SsFailed (h_conn st) ->
              In (HReport (RpFailed (h_conn st))) (snd r) /\ h_halted (fst r) = true)).
Proof.
  split; [exact C05_timeout_reports_failed|]. split; [exact C05_flush_error_reports_failed|].
  split; [exact C05_close_reports_failed | exact C05_alloc_failure_retries].
Qed.

End Proofs.

(* ------------------------------------------------------------------------------------------------ *)
(* Examples (non-vacuity) and refutations, with a concrete toy encoder                              *)
(* ------------------------------------------------------------------------------------------------ *)

Definition ex_encode (m : message) : bytes :=
  match m_wantlist m with
  | Some w => [5; len (w_entries w); (if w_full w then 1 else 0); 7; 7; 7]
  | None => [0]
  end.
Definition ex_w1 : wantlist := MkWantlist [] true.
Definition ex_w2 : wantlist := MkWantlist [default_entry] false.

(* a disciplined run: send, open, allocation failure, retry, partial writes, completion, second wantlist *)
Definition ex_ops : list hop :=
  [HSendWantlist ex_w1; HPoll []; HAllocFailed; HPoll []; HSetStream;
   HPoll [WAccept 2; IoPending]; HAdvance 7000; HPoll [WAccept 9; FlushOk; FlushOk; CloseOk];
   HSendWantlist ex_w2; HPoll []; HSetStream; HPoll [WAccept 3; IoErr]; HPollClose []].

Example C08_handler_no_panic_if_disciplined_ex :
  disciplined ex_encode true 7 ex_ops = true /\
  handler_outs ex_encode 7 ex_ops =
    [HReport (RpRequestReceived 7); HOpenStream; HOpenStream;
     HReport (RpSending 7); HWrote 0 [5; 0];
     HWrote 0 [1; 7; 7; 7]; HStreamClosed 0; HDropped 0; HReport RpReady;
     HReport (RpRequestReceived 7); HOpenStream;
     HReport (RpSending 7); HWrote 1 [5; 1; 0]; HDropped 1; HReport (RpFailed 7); HClosing].
Proof. split; vm_compute; reflexivity. Qed.

(* Without the third rule of the contract (nothing but poll_close after poll_close) the statement is
   false of the model: a DialUpgradeError delivered after poll_close trips the debug_assert! of
   stream_allocation_failed, because poll_close resets sink_state from Requested to None. *)
Theorem C08_handler_no_panic_if_disciplined_refuted :
  exists (c : conn) (ops : list hop),
    disciplined ex_encode false c ops = true /\ In HPanic (handler_outs ex_encode c ops).
Proof.
  exists 7, [HSendWantlist ex_w1; HPoll []; HPollClose []; HAllocFailed].
  split; vm_compute; [reflexivity | intuition].
Qed.

Example C14_one_frame_ex :
  h_frames (handler_final ex_encode 7 ex_ops) = [(0, wantlist_message ex_w1); (1, wantlist_message ex_w2)]
  /\ sent_ws ex_ops = [ex_w1; ex_w2]
  /\ wrote_on 0 (handler_outs ex_encode 7 ex_ops) = ex_encode (wantlist_message ex_w1)
  /\ wrote_on 1 (handler_outs ex_encode 7 ex_ops) = [5; 1; 0]
  /\ FB ex_encode (h_frames (handler_final ex_encode 7 ex_ops)) 1 = [5; 1; 0; 7; 7; 7].
Proof. repeat split; vm_compute; reflexivity. Qed.

Example C14_ready_iff_flushed_ex :
  let st := handler_final ex_encode 7 [HSendWantlist ex_w1; HPoll []; HSetStream; HPoll [WAccept 2]] in
  h_queue st = [] /\ h_halted st = false /\ timeout_fired st = false /\ h_msg st = None
  /\ h_sending st = SsSending 0 7 /\ h_sink st = SkReady 0 [1; 7; 7; 7]
  /\ fr_res (fw_poll_flush [1; 7; 7; 7] [WAccept 9; FlushOk]) = PrOk
  /\ fr_res (fw_poll_flush [1; 7; 7; 7] [WAccept 3; FlushOk]) = PrPending.
Proof. vm_compute. repeat split; reflexivity. Qed.

Example C14_report_protocol_ex :
  reports (handler_outs ex_encode 7 ex_ops)
  = [RpRequestReceived 7; RpSending 7; RpReady; RpRequestReceived 7; RpSending 7; RpFailed 7]
  /\ chain_ok 7 RpReady (reports (handler_outs ex_encode 7 ex_ops)).
Proof. split; [vm_compute; reflexivity|]. vm_compute. repeat split; reflexivity. Qed.

Example C14_ready_means_delivered_ex :
  let ops := [HSendWantlist ex_w1; HPoll []; HSetStream; HPoll [WAccept 2]; HPoll [WAccept 9; FlushOk]] in
  disciplined ex_encode true 7 ops = true
  /\ h_queue (handler_final ex_encode 7 ops) = []
  /\ last (reports (handler_outs ex_encode 7 ops)) RpReady = RpReady
  /\ sent_ws ops = [ex_w1]
  /\ wrote_on 0 (handler_outs ex_encode 7 ops) = ex_encode (wantlist_message ex_w1).
Proof. vm_compute. repeat split; reflexivity. Qed.

(* C14_no_silent_loss: (b) closing mid-send, (c) one byte per poll, (d) 5000 ms without a stream *)
Example C14_no_silent_loss_ex :
  handler_run ex_encode 7 [HSendWantlist ex_w1; HPoll []; HSetStream; HPoll [WAccept 2]; HPollClose []]
  = [[]; [HReport (RpRequestReceived 7); HOpenStream]; []; [HReport (RpSending 7); HWrote 0 [5; 0]];
     [HDropped 0; HReport (RpFailed 7); HClosing]]
  /\ handler_outs ex_encode 7 ([HSendWantlist ex_w1; HPoll []; HSetStream; HPoll []]
                               ++ map HPoll (repeat [WAccept 1; FlushOk] 6))
  = [HReport (RpRequestReceived 7); HOpenStream; HReport (RpSending 7);
     HWrote 0 [5]; HWrote 0 [0]; HWrote 0 [1]; HWrote 0 [7]; HWrote 0 [7]; HWrote 0 [7];
     HDropped 0; HReport RpReady]
  /\ handler_run ex_encode 7 [HSendWantlist ex_w1; HPoll []; HAdvance 4999; HPoll []; HAdvance 1; HPoll [FlushOk]]
  = [[]; [HReport (RpRequestReceived 7); HOpenStream]; []; []; []; [HReport (RpFailed 7)]]
  /\ h_halted (handler_final ex_encode 7 [HSendWantlist ex_w1; HPoll []; HAdvance 5000; HPoll []]) = true.
Proof. vm_compute. repeat split; reflexivity. Qed.

(* C05_handler_reports: a reachable state meets the hypotheses of each clause *)
Example C05_handler_reports_ex :
  (let st := handler_final ex_encode 7 [HSendWantlist ex_w1; HPoll []; HAdvance 5000] in
   h_halted st = false /\ timeout_fired st = true /\ h_queue st = []
   /\ h_sending st = SsRequestReceived 0 7
   /\ snd (do_poll ex_encode st [FlushOk]) = [HReport (RpFailed 7)])
  /\ (let st := handler_final ex_encode 7 [HSendWantlist ex_w1; HPoll []; HSetStream; HPoll [WAccept 2]] in
      fr_res (fw_poll_flush [1; 7; 7; 7] [WAccept 1; IoErr]) = PrErr
      /\ snd (do_poll ex_encode st [WAccept 1; IoErr]) = [HWrote 0 [1]; HDropped 0; HReport (RpFailed 7)])
  /\ (let st := handler_final ex_encode 7 [HSendWantlist ex_w1; HPoll []] in
      h_closing st = false /\ h_sending st = SsRequestReceived 0 7
      /\ snd (hstep ex_encode st (HPollClose [])) = [HReport (RpFailed 7); HClosing])
  /\ (let st := handler_final ex_encode 7 [HSendWantlist ex_w1; HPoll []] in
      h_sink st = SkRequested /\ h_msg st = Some (wantlist_message ex_w1) /\ timeout_fired st = false
      /\ snd (hstep ex_encode (fst (hstep ex_encode st HAllocFailed)) (HPoll [])) = [HOpenStream]).
Proof. vm_compute. repeat split; reflexivity. Qed.
