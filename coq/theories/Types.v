(* Types.v — identifiers and small enumerations shared by the behaviour/handler models. *)
From BS Require Export Bytes Cid Proto.

Definition peer := N.      (* libp2p PeerId, numbered by the harness *)
Definition conn := N.      (* libp2p ConnectionId *)
Definition qid := N.       (* beetswap::QueryId(u64) *)
Definition time := N.      (* virtual clock, milliseconds *)

(* result of one `Blockstore::get` call, chosen by the environment *)
Inductive store_result := SHit (data : bytes) | SMiss | SFail.

(* client::SendingState; the Instant payloads are virtual-clock milliseconds *)
Inductive sending_state :=
| SsReady
| SsRequested (t : time) (c : conn)
| SsRequestReceived (t : time) (c : conn)
| SsSending (t : time) (c : conn)
| SsFailed (c : conn).

(* what a handler reports: the Instant inside is irrelevant to the behaviour, so reports carry none *)
Inductive sending_report := RpReady | RpRequestReceived (c : conn) | RpSending (c : conn) | RpFailed (c : conn).

Definition SEND_FULL_INTERVAL : N := 30000.
Definition RECEIVE_REQUEST_TIMEOUT : N := 1000.
Definition START_SENDING_TIMEOUT : N := 5000.
Definition MAX_WANTLIST_ENTRIES_PER_PEER : N := 1024.

(* abstract wantlist entries as the client generates them (message.rs new_*_entry) *)
Inductive want_kind := KWantHave | KWantBlock | KCancel.
