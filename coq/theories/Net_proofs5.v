(* Net_proofs5.v — package F: the invariant of reachable nets (`net_ok`) and its preservation by every step. *)
From BS Require Import Server_lemmas Server_inv Server_proofs Server_live Wantlist_proofs Client_proofs Client_proofs2
  Client_proofs3 Client_proofs4 Net Net_proofs2 Net_proofs3 Net_proofs4.
From Coq Require Import ZArith ZifyBool ZifyN ZifyNat Lia.
Open Scope N_scope.

Local Notation cid_eqb_spec := Wantlist_proofs.cid_eqb_spec.

(* ---------- connections ---------- *)
Lemma pair_eqb_spec a b : pair_eqb a b = true <-> a = b.
Proof. destruct a, b; unfold pair_eqb; cbn. rewrite andb_true_iff, !N.eqb_eq. split; [intros [-> ->]; reflexivity | intros [= -> ->]; auto]. Qed.

Lemma norm_sym i j : norm i j = norm j i.
Proof. unfold norm. destruct (i <? j) eqn:A, (j <? i) eqn:B; try reflexivity; try lia. f_equal; lia. Qed.

Lemma norm_lt i j : i <> j -> fst (norm i j) < snd (norm i j).
Proof. unfold norm. destruct (i <? j) eqn:A; cbn; lia. Qed.

Lemma norm_eq i j k x : i <> j -> (norm k x = norm i j <-> (k = i /\ x = j) \/ (k = j /\ x = i)).
Proof.
  intros Hij. unfold norm. destruct (k <? x) eqn:A, (i <? j) eqn:B; split; intros H;
    try (injection H as -> ->); try (destruct H as [[-> ->]|[-> ->]]); auto; try lia; try reflexivity.
Qed.

Lemma connected_sym s i j : Net.connected s i j = Net.connected s j i.
Proof. unfold Net.connected. rewrite norm_sym. reflexivity. Qed.

Lemma connected_In s i j : Net.connected s i j = true <-> In (norm i j) (conns s).
Proof.
  unfold Net.connected. rewrite existsb_exists. split.
  - intros (x & Hx & E). apply pair_eqb_spec in E. subst. exact Hx.
  - intros H. exists (norm i j). split; [exact H | apply pair_eqb_spec; reflexivity].
Qed.

(* ---------- the invariant ---------- *)
Section NetInv.
  Variables (Sz : N) (Hh : hash_fn).
  Hypothesis HSz : 32 <= Sz.
  Local Notation G := (good Sz Hh).

  Definition call_good (x : scall) : Prop := match x with KCPut _ bl => Forall G bl | _ => True end.

  Definition calls_agree (n : node) : Prop :=
    forall k c, In (KSGet k c) (n_calls n) ->
      k < s_next_call (n_server n) /\ forall c' t, In (k, (c', t)) (s_blocked (n_server n)) -> c' = c.

  (* one node, given the clock and who it is connected to *)
  Record node_ok (nw : N) (con : N -> bool) (n : node) : Prop := MkNodeOk {
    nk_ck : CK G (n_client n);
    nk_invb : INVB (n_client n);
    nk_invs : INVS (n_client n);
    nk_now : cs_now (n_client n) = nw;
    nk_deadline : cs_deadline (n_client n) <= nw + SEND_FULL_INTERVAL;
    nk_peers : forall j, In j (map fst (cs_peers (n_client n))) <-> con j = true;
    nk_sv : SV Sz Hh (n_server n);
    nk_swants : forall j, In j (map fst (s_wants (n_server n))) <-> con j = true;
    nk_store : Forall G (n_store n);
    nk_calls : Forall call_good (n_calls n);
    nk_agree : calls_agree n
  }.

  Record net_ok (s : net) : Prop := MkNetOk {
    no_nodes : forall i n, get_node s i = Some n -> node_ok (now s) (Net.connected s i) n;
    no_conns : forall a b, In (a, b) (conns s) -> a < b /\ get_node s a <> None /\ get_node s b <> None;
    no_wire_b : forall m, In m (wire_b s) -> Forall G (bm_blocks m)
  }.

  Lemma node_ok_frame nw con con' n : (forall j, con' j = con j) -> node_ok nw con n -> node_ok nw con' n.
  Proof.
    intros E [H1 H2 H3 H4 H5 H6 H7 H8 H9 H10 H11].
    constructor; try assumption; intros j; rewrite E; auto.
  Qed.

  Lemma connected_neq s i j : net_ok s -> Net.connected s i j = true -> i <> j /\ get_node s i <> None /\ get_node s j <> None.
  Proof.
    intros Hok Hc. apply connected_In in Hc. unfold norm in Hc.
    destruct (i <? j) eqn:E; destruct (no_conns s Hok _ _ Hc) as (Hlt & Ha & Hb); repeat split; auto; lia.
  Qed.

  (* ---------- the empty net ---------- *)
  Lemma CK_init : CK G (cinit true).
  Proof.
    constructor; cbn.
    - constructor.
    - constructor.
    - intros p ps [].
    - intros tid t bl [].
    - constructor.
  Qed.

  Lemma node_ok_init con : (forall j, con j = false) -> node_ok 0 con node_init.
  Proof.
    intros Hc. constructor; cbn [node_init n_client n_server n_store n_calls].
    - apply CK_init.
    - apply INVB_init.
    - split; cbn; [constructor | intros p c f es []].
    - reflexivity.
    - cbn. lia.
    - intros j. rewrite Hc. cbn. split; [tauto | discriminate].
    - apply SV_init.
    - intros j. rewrite Hc. cbn. split; [tauto | discriminate].
    - constructor.
    - constructor.
    - intros k c [].
  Qed.

  Lemma net_ok_init n : net_ok (net_init n).
  Proof.
    constructor; cbn [net_init conns wire_b now].
    - intros i nd Hg. unfold get_node in Hg. cbn [nodes net_init] in Hg. apply nth_error_In, repeat_spec in Hg. subst nd.
      apply node_ok_init. intros j. reflexivity.
    - intros a b [].
    - intros m [].
  Qed.

  (* ---------- replacing one node ---------- *)
  Lemma net_ok_set_node s i n n' :
    net_ok s -> get_node s i = Some n -> node_ok (now s) (Net.connected s i) n' -> net_ok (set_node s i n').
  Proof.
    intros [H1 H2 H3] Hg Hn. constructor; cbn [set_node conns wire_b now].
    - intros k nk Hk. destruct (N.eq_dec i k) as [<-|Hne].
      + rewrite (get_set_eq _ _ _ _ Hg) in Hk. injection Hk as <-. exact Hn.
      + rewrite get_set_neq in Hk by assumption. apply H1, Hk.
    - intros a b Hab. destruct (H2 a b Hab) as (Hlt & Ha & Hb). split; [exact Hlt|]. split.
      + destruct (N.eq_dec i a) as [<-|Hne]; [rewrite (get_set_eq _ _ _ _ Hg); discriminate | rewrite get_set_neq by assumption; exact Ha].
      + destruct (N.eq_dec i b) as [<-|Hne]; [rewrite (get_set_eq _ _ _ _ Hg); discriminate | rewrite get_set_neq by assumption; exact Hb].
    - exact H3.
  Qed.

  Lemma node_ok_client nw con n c' :
    node_ok nw con n -> CK G c' -> INVB c' -> INVS c' -> cs_now c' = nw -> cs_deadline c' <= nw + SEND_FULL_INTERVAL ->
    map fst (cs_peers c') = map fst (cs_peers (n_client n)) ->
    node_ok nw con (MkNode c' (n_server n) (n_store n) (n_calls n)).
  Proof.
    intros [H1 H2 H3 H4 H5 H6 H7 H8 H9 H10 H11] A1 A2 A3 A4 A5 A6.
    constructor; cbn [n_client n_server n_store n_calls]; try assumption.
    intros j. rewrite A6. apply H6.
  Qed.

  (* a client step that is neither a poll nor about connections nor the clock *)
  Lemma node_ok_cstep nw con n o :
    match o with CNewConn _ _ | CConnClosed _ _ | CPoll _ | CAdvance _ => False | _ => True end ->
    node_ok nw con n -> CK G (fst (cstep (n_client n) o)) ->
    node_ok nw con (MkNode (fst (cstep (n_client n) o)) (n_server n) (n_store n) (n_calls n)).
  Proof.
    intros Ho Hn HC. pose proof Hn as [H1 H2 H3 H4 H5 H6 H7 H8 H9 H10 H11].
    assert (Hnp : forall ch, o <> CPoll ch) by (intros ch ->; exact Ho).
    destruct (C05_timer_frame (n_client n) o Hnp) as [Ed En].
    apply node_ok_client; try assumption.
    - apply INVB_step, H2.
    - apply INVS_step, H3.
    - rewrite En, H4. destruct o; try lia; contradiction.
    - rewrite Ed. exact H5.
    - apply cstep_keys. destruct o; try exact I; contradiction.
  Qed.

  Definition nop_good (o : nop) : Prop :=
    match o with NPut _ c d => G (c, d) | _ => True end.

  Lemma store_put_good st b : Forall G st -> G b -> Forall G (store_put st b).
  Proof.
    intros Hs Hb. unfold store_put, al_set. destruct (al_mem cid_eqb (fst b) st).
    - unfold al_modify. apply Forall_forall. intros x Hx. apply in_map_iff in Hx. destruct Hx as (e & <- & He).
      rewrite Forall_forall in Hs. destruct (cid_eqb (fst b) (fst e)) eqn:E; [|apply Hs, He].
      apply cid_eqb_spec in E. rewrite <- E. destruct b; exact Hb.
    - apply Forall_app. split; [exact Hs|]. destruct b. constructor; [exact Hb | constructor].
  Qed.

  Lemma store_put_many_good bl : forall st, Forall G st -> Forall G bl -> Forall G (store_put_many st bl).
  Proof.
    induction bl as [|b bl IH]; intros st Hs Hb; cbn; [exact Hs|]. inversion Hb; subst. apply IH; [apply store_put_good|]; assumption.
  Qed.

  Lemma store_get_good st c d : Forall G st -> store_get st c = SHit d -> G (c, d).
  Proof.
    unfold store_get. intros Hs. destruct (al_find cid_eqb c st) as [d'|] eqn:E; [|discriminate]. intros [= <-].
    apply (al_find_some_in _ cid_eqb_spec) in E. rewrite Forall_forall in Hs. apply Hs, E.
  Qed.

  Lemma remove_nth_In {A} k (l : list A) x : In x (remove_nth k l) -> In x l.
  Proof. revert k; induction l as [|y l IH]; intros [|k]; cbn; auto. intros [->|H]; auto. right. eapply IH, H. Qed.

  Lemma net_ok_on_node s i f :
    net_ok s -> (forall n, get_node s i = Some n -> node_ok (now s) (Net.connected s i) (f n)) -> net_ok (on_node s i f).
  Proof.
    intros Hok Hf. unfold on_node. destruct (get_node s i) as [n|] eqn:E; [|exact Hok].
    eapply net_ok_set_node; [exact Hok | exact E | apply Hf; reflexivity].
  Qed.

  (* ---------- NGet NCancel NPut NEvict ---------- *)
  Lemma net_ok_get s i c : net_ok s -> net_ok (fst (nstep Sz Hh s (NGet i c))).
  Proof.
    intros Hok. cbn [nstep fst]. apply net_ok_on_node; [exact Hok|]. intros n Hg. pose proof (no_nodes s Hok i n Hg) as Hn.
    unfold node_get. apply node_ok_cstep; [exact I | exact Hn|]. cbn [cstep]. apply CK_get, (nk_ck _ _ _ Hn).
  Qed.

  Lemma net_ok_cancel s i q : net_ok s -> net_ok (fst (nstep Sz Hh s (NCancel i q))).
  Proof.
    intros Hok. cbn [nstep fst]. apply net_ok_on_node; [exact Hok|]. intros n Hg. pose proof (no_nodes s Hok i n Hg) as Hn.
    unfold node_cancel. apply node_ok_cstep; [exact I | exact Hn|]. cbn [cstep fst]. apply CK_cancel, (nk_ck _ _ _ Hn).
  Qed.

  Lemma net_ok_put s i c d : G (c, d) -> net_ok s -> net_ok (fst (nstep Sz Hh s (NPut i c d))).
  Proof.
    intros Hg Hok. cbn [nstep fst]. apply net_ok_on_node; [exact Hok|]. intros n Hn. destruct (no_nodes s Hok i n Hn).
    constructor; cbn [node_put n_client n_server n_store n_calls]; try assumption. apply store_put_good; assumption.
  Qed.

  Lemma net_ok_evict s i c : net_ok s -> net_ok (fst (nstep Sz Hh s (NEvict i c))).
  Proof.
    intros Hok. cbn [nstep fst]. apply net_ok_on_node; [exact Hok|]. intros n Hn. destruct (no_nodes s Hok i n Hn).
    constructor; cbn [node_evict n_client n_server n_store n_calls]; try assumption.
    unfold store_evict, al_remove. apply Forall_forall. intros x Hx. apply filter_In in Hx.
    rewrite Forall_forall in nk_store0. apply nk_store0, Hx.
  Qed.

  (* ---------- NAdvance ---------- *)
  Lemma net_ok_advance s ms : net_ok s -> net_ok (fst (nstep Sz Hh s (NAdvance ms))).
  Proof.
    intros [H1 H2 H3]. cbn [nstep fst]. constructor; cbn [conns wire_b now].
    - intros i n' Hg. unfold get_node in Hg. cbn [nodes] in Hg. rewrite nth_error_map in Hg.
      destruct (nth_error (nodes s) (N.to_nat i)) as [n|] eqn:E; [|discriminate]. injection Hg as <-.
      pose proof (H1 i n E) as Hn. destruct Hn. unfold node_advance. cbn [cstep fst].
      constructor; cbn [n_client n_server n_store n_calls c_advance cs_now cs_deadline cs_peers]; try assumption.
      + apply CK_advance. exact nk_ck0.
      + lia.
      + lia.
    - intros a b Hab. destruct (H2 a b Hab) as (Hlt & Ha & Hb). split; [exact Hlt|]. unfold get_node in *. cbn [nodes].
      rewrite !nth_error_map. split; [destruct (nth_error (nodes s) (N.to_nat a)) | destruct (nth_error (nodes s) (N.to_nat b))];
        cbn; congruence.
    - exact H3.
  Qed.

  (* ---------- NStore ---------- *)
  Lemma release_blocked_sub st k r x : In x (s_blocked (release st k r)) -> In x (s_blocked st).
  Proof.
    unfold release. destruct (alookup N.eqb k (s_blocked st)) as [[c t]|]; [|auto]. cbn [s_blocked]. unfold adel.
    intros H. apply filter_In in H. apply H.
  Qed.

  Lemma release_next_call st k r : s_next_call (release st k r) = s_next_call st.
  Proof. unfold release. destruct (alookup N.eqb k (s_blocked st)) as [[c t]|]; reflexivity. Qed.

  Lemma net_ok_store s i k : net_ok s -> net_ok (fst (nstep Sz Hh s (NStore i k))).
  Proof.
    intros Hok. cbn [nstep fst]. apply net_ok_on_node; [exact Hok|]. intros n Hg. pose proof (no_nodes s Hok i n Hg) as Hn.
    unfold node_store. destruct (nth_error (n_calls n) (N.to_nat k)) as [call|] eqn:Ec; [|exact Hn].
    pose proof (nth_error_In _ _ Ec) as Hcall.
    assert (Hsub : forall x, In x (remove_nth (N.to_nat k) (n_calls n)) -> In x (n_calls n)) by (intros x; apply remove_nth_In).
    pose proof Hn as [H1 H2 H3 H4 H5 H6 H7 H8 H9 H10 H11].
    assert (Hcalls : Forall call_good (remove_nth (N.to_nat k) (n_calls n))).
    { rewrite Forall_forall in *. intros x Hx. apply H10, Hsub, Hx. }
    destruct call as [m c|m bl|m c].
    - assert (Hn' : node_ok (now s) (Net.connected s i)
                      (MkNode (fst (cstep (n_client n) (CRelease m (store_get (n_store n) c)))) (n_server n) (n_store n) (n_calls n))).
      { apply node_ok_cstep; [exact I | exact Hn|]. cbn [cstep fst]. apply CK_release, H1. }
      destruct Hn'. constructor; cbn [n_client n_server n_store n_calls] in *; try assumption.
      intros k0 c0 Hin. apply H11, Hsub, Hin.
    - assert (Hn' : node_ok (now s) (Net.connected s i)
                      (MkNode (fst (cstep (n_client n) (CRelease m (SHit [])))) (n_server n) (n_store n) (n_calls n))).
      { apply node_ok_cstep; [exact I | exact Hn|]. cbn [cstep fst]. apply CK_release, H1. }
      destruct Hn'. constructor; cbn [n_client n_server n_store n_calls] in *; try assumption.
      + apply store_put_many_good; [assumption|]. rewrite Forall_forall in H10. apply (H10 _ Hcall).
      + intros k0 c0 Hin. apply H11, Hsub, Hin.
    - constructor; cbn [n_client n_server n_store n_calls]; try assumption.
      + apply SV_step; [exact HSz | exact H7|]. cbn [sop_good]. destruct (store_get (n_store n) c) as [d| |] eqn:Es; try exact I.
        intros c' t Hin. destruct (H11 _ _ Hcall) as [_ Hag]. rewrite (Hag _ _ Hin). eapply store_get_good; eassumption.
      + intros j. rewrite <- H8. unfold srv. rewrite step_keys by (apply H7). cbn [conn_op]. tauto.
      + intros k0 c0 Hin. cbn [n_server n_calls] in *. destruct (H11 _ _ (Hsub _ Hin)) as [Hlt Hag]. unfold srv, sstep_l.
        destruct H7 as (_ & _ & Hp & _). rewrite Hp. cbn [fst]. rewrite release_next_call. split; [exact Hlt|].
        intros c' t Hb. apply release_blocked_sub in Hb. eapply Hag, Hb.
  Qed.

  (* ---------- server steps that leave the lookups alone ---------- *)
  Lemma sstep_blocked_same st op :
    match op with SRelease _ _ | SPoll => False | _ => True end ->
    s_blocked (fst (sstep_l Sz st op)) = s_blocked st /\ s_next_call (fst (sstep_l Sz st op)) = s_next_call st.
  Proof.
    intros Ho. unfold sstep_l. destruct (s_panic st); [auto|]. destruct op as [q|q w order|bl|q|k r|]; cbn [fst]; try contradiction.
    - unfold new_connection. destruct (alookup N.eqb q (s_wants st)); auto.
    - unfold process_incoming_message. destruct (alookup N.eqb q (s_wants st)) as [old|]; [|auto].
      destruct (process_wantlist Sz old w); auto.
    - auto.
    - unfold peer_disconnected. destruct (alookup N.eqb q (s_wants st)); auto.
  Qed.

  Lemma calls_agree_sstep n op c' st' :
    match op with SRelease _ _ | SPoll => False | _ => True end ->
    calls_agree n -> calls_agree (MkNode c' (fst (sstep_l Sz (n_server n) op)) st' (n_calls n)).
  Proof.
    intros Ho Ha k c Hin. cbn [n_server n_calls] in *. destruct (sstep_blocked_same (n_server n) op Ho) as [-> ->]. apply Ha, Hin.
  Qed.

  (* ---------- NConnect ---------- *)
  Lemma node_ok_connected nw con n j :
    node_ok nw con n -> con j = false ->
    node_ok nw (fun x => con x || (x =? j)) (node_connected Sz n j CONN).
  Proof.
    intros Hn Hc. pose proof Hn as [H1 H2 H3 H4 H5 H6 H7 H8 H9 H10 H11].
    assert (Hj : ~ In j (map fst (cs_peers (n_client n)))) by (rewrite H6, Hc; discriminate).
    assert (Hnp : forall ch, CNewConn j CONN <> CPoll ch) by discriminate.
    destruct (C05_timer_frame (n_client n) (CNewConn j CONN) Hnp) as [Ed En].
    unfold node_connected. constructor; cbn [n_client n_server n_store n_calls]; try assumption.
    - cbn [cstep fst]. apply CK_new_conn; assumption.
    - apply INVB_step, H2.
    - apply INVS_step, H3.
    - rewrite En, H4. lia.
    - rewrite Ed. exact H5.
    - intros x. cbn [cstep fst]. unfold c_new_conn.
      destruct (al_mem N.eqb j (cs_peers (n_client n))) eqn:M; [apply (al_mem_In _ Client_proofs.Neqb_spec) in M; contradiction|].
      cbn [set_peers cs_peers]. rewrite peers_ins_keys, H6, orb_true_iff, N.eqb_eq. tauto.
    - apply SV_step; [exact HSz | exact H7 | exact I].
    - intros x. unfold srv. rewrite step_keys by apply H7. cbn [conn_op].
      assert (Hjs : ~ In j (map fst (s_wants (n_server n)))) by (rewrite H8, Hc; discriminate).
      destruct (existsb (N.eqb j) (map fst (s_wants (n_server n)))) eqn:Ex.
      + apply existsb_exists in Ex. destruct Ex as (y & Hy & Ey). apply N.eqb_eq in Ey. subst y. contradiction.
      + rewrite in_app_iff, H8, orb_true_iff, N.eqb_eq. cbn. intuition.
    - apply calls_agree_sstep; [exact I | exact H11].
  Qed.

  Lemma connected_app s i j k x :
    Net.connected (MkNet (nodes s) (conns s ++ [norm i j]) (wire_w s) (wire_b s) (now s)) k x =
    Net.connected s k x || pair_eqb (norm k x) (norm i j).
  Proof. unfold Net.connected. cbn [conns]. rewrite existsb_app. cbn. rewrite orb_false_r. reflexivity. Qed.

  Lemma pair_norm_eqb i j k x : i <> j -> pair_eqb (norm k x) (norm i j) = ((k =? i) && (x =? j)) || ((k =? j) && (x =? i)).
  Proof.
    intros Hij. destruct (pair_eqb (norm k x) (norm i j)) eqn:E.
    - apply pair_eqb_spec, (norm_eq i j k x Hij) in E. symmetry. destruct E as [[-> ->]|[-> ->]]; rewrite !N.eqb_refl; cbn; [reflexivity | apply orb_true_r].
    - symmetry. apply orb_false_iff. split; apply andb_false_iff.
      + destruct (k =? i) eqn:A; [|auto]. right. destruct (x =? j) eqn:B; [|auto]. apply N.eqb_eq in A, B. subst.
        rewrite (proj2 (pair_eqb_spec _ _) eq_refl) in E. discriminate.
      + destruct (k =? j) eqn:A; [|auto]. right. destruct (x =? i) eqn:B; [|auto]. apply N.eqb_eq in A, B. subst.
        rewrite norm_sym, (proj2 (pair_eqb_spec _ _) eq_refl) in E. discriminate.
  Qed.

  Lemma net_ok_connect s i j : net_ok s -> net_ok (fst (nstep Sz Hh s (NConnect i j))).
  Proof.
    intros Hok. cbn [nstep fst]. unfold do_connect.
    destruct (get_node s i) as [ni|] eqn:Ei; [|exact Hok]. destruct (get_node s j) as [nj|] eqn:Ej; [|exact Hok].
    destruct (i =? j) eqn:Eij; [exact Hok|]. cbn [orb]. destruct (Net.connected s i j) eqn:Ec; [exact Hok|].
    apply N.eqb_neq in Eij. pose proof Hok as [H1 H2 H3].
    assert (Ej1 : get_node (set_node s i (node_connected Sz ni j CONN)) j = Some nj) by (rewrite get_set_neq by exact Eij; exact Ej).
    set (s1 := set_node s i (node_connected Sz ni j CONN)) in *.
    set (s2 := set_node s1 j (node_connected Sz nj i CONN)).
    assert (Hget : forall k, get_node s2 k = if k =? j then Some (node_connected Sz nj i CONN)
                                            else if k =? i then Some (node_connected Sz ni j CONN) else get_node s k).
    { intros k. unfold s2. destruct (k =? j) eqn:A.
      - apply N.eqb_eq in A. subst k. eapply get_set_eq. exact Ej1.
      - apply N.eqb_neq in A. rewrite get_set_neq by congruence. unfold s1. destruct (k =? i) eqn:B.
        + apply N.eqb_eq in B. subst k. eapply get_set_eq. exact Ei.
        + apply N.eqb_neq in B. rewrite get_set_neq by congruence. reflexivity. }
    assert (Hnodes : nodes (MkNet (nodes s2) (conns s ++ [norm i j]) (wire_w s) (wire_b s) (now s)) = nodes s2) by reflexivity.
    constructor; cbn [conns wire_b now].
    - intros k nk Hk. change (get_node s2 k = Some nk) in Hk. rewrite Hget in Hk.
      assert (Hcon : forall x, Net.connected (MkNet (nodes s2) (conns s ++ [norm i j]) (wire_w s) (wire_b s) (now s)) k x =
                               Net.connected s k x || pair_eqb (norm k x) (norm i j)).
      { intros x. unfold Net.connected. cbn [conns]. rewrite existsb_app. cbn. rewrite orb_false_r. reflexivity. }
      destruct (k =? j) eqn:A; [|destruct (k =? i) eqn:B].
      + apply N.eqb_eq in A. subst k. injection Hk as <-.
        eapply node_ok_frame; [|apply (node_ok_connected (now s) (Net.connected s j) nj i (H1 _ _ Ej))].
        * intros x. rewrite Hcon, (pair_norm_eqb i j j x Eij), N.eqb_refl. cbn [andb].
          replace (j =? i) with false by (symmetry; apply N.eqb_neq; congruence). cbn. reflexivity.
        * rewrite connected_sym. exact Ec.
      + apply N.eqb_eq in B. subst k. injection Hk as <-.
        eapply node_ok_frame; [|apply (node_ok_connected (now s) (Net.connected s i) ni j (H1 _ _ Ei) Ec)].
        intros x. rewrite Hcon, (pair_norm_eqb i j i x Eij), N.eqb_refl. cbn [andb]. rewrite A. cbn. rewrite orb_false_r. reflexivity.
      + eapply node_ok_frame; [|apply (H1 _ _ Hk)]. intros x. rewrite Hcon, (pair_norm_eqb i j k x Eij), A, B. cbn. apply orb_false_r.
    - intros a b Hab. apply in_app_iff in Hab.
      assert (Hex : forall k, get_node s k <> None -> get_node s2 k <> None).
      { intros k Hk. rewrite Hget. destruct (k =? j); [discriminate|]. destruct (k =? i); [discriminate | exact Hk]. }
      destruct Hab as [Hab|[Hab|[]]].
      + destruct (H2 a b Hab) as (Hlt & Ha & Hb). split; [exact Hlt|]. split; apply Hex; assumption.
      + unfold norm in Hab. destruct (i <? j) eqn:L; injection Hab as <- <-; (split; [lia|]); split; apply Hex; congruence.
    - exact H3.
  Qed.

  (* ---------- NDisconnect ---------- *)
  Lemma al_remove_keys_N {V} (p : N) (l : list (N * V)) x : In x (map fst (al_remove N.eqb p l)) <-> In x (map fst l) /\ x <> p.
  Proof.
    unfold al_remove. rewrite !in_map_iff. split.
    - intros ([k v] & <- & H). apply filter_In in H. destruct H as [H E]. cbn [fst] in *. split; [exists (k, v); auto|].
      apply negb_true_iff, N.eqb_neq in E. congruence.
    - intros [([k v] & <- & H) Hne]. exists (k, v). split; [reflexivity|]. apply filter_In. split; [exact H|]. cbn [fst] in *.
      apply negb_true_iff, N.eqb_neq. congruence.
  Qed.

  Lemma node_ok_disconnected nw con n j :
    node_ok nw con n ->
    node_ok nw (fun x => con x && negb (x =? j)) (node_disconnected Sz n j CONN).
  Proof.
    intros Hn. pose proof Hn as [H1 H2 H3 H4 H5 H6 H7 H8 H9 H10 H11].
    assert (Hnp : forall ch, CConnClosed j CONN <> CPoll ch) by discriminate.
    destruct (C05_timer_frame (n_client n) (CConnClosed j CONN) Hnp) as [Ed En].
    unfold node_disconnected. constructor; cbn [n_client n_server n_store n_calls]; try assumption.
    - cbn [cstep fst]. apply CK_conn_closed; assumption.
    - apply INVB_step, H2.
    - apply INVS_step, H3.
    - rewrite En, H4. lia.
    - rewrite Ed. exact H5.
    - intros x. cbn [cstep fst]. unfold c_conn_closed. rewrite andb_true_iff, negb_true_iff, N.eqb_neq, <- H6.
      destruct (al_find N.eqb j (cs_peers (n_client n))) as [ps|] eqn:E.
      + apply (al_find_some_in _ Client_proofs.Neqb_spec) in E. destruct (ck_peers _ _ H1 _ _ E) as (_ & _ & Hc).
        unfold remove_conn at 1. cbn [p_conns]. rewrite Hc. cbn. apply al_remove_keys_N.
      + apply (al_find_none _ Client_proofs.Neqb_spec) in E. split; [|tauto]. intros Hx. split; [exact Hx|]. intros ->. contradiction.
    - apply SV_step; [exact HSz | exact H7 | exact I].
    - intros x. unfold srv. rewrite step_keys by apply H7. cbn [conn_op]. rewrite filter_In, andb_true_iff, <- H8. tauto.
    - apply calls_agree_sstep; [exact I | exact H11].
  Qed.

  Lemma existsb_filter {A} (f g : A -> bool) l : existsb f (filter g l) = existsb (fun x => f x && g x) l.
  Proof. induction l as [|x l IH]; cbn; [reflexivity|]. destruct (g x); cbn; rewrite IH, ?andb_true_r, ?andb_false_r; reflexivity. Qed.

  Lemma existsb_filter_pair l a b :
    existsb (pair_eqb a) (filter (fun p => negb (pair_eqb b p)) l) = existsb (pair_eqb a) l && negb (pair_eqb a b).
  Proof.
    induction l as [|y l IH]; cbn; [reflexivity|]. destruct (pair_eqb b y) eqn:F; cbn.
    - rewrite IH. apply pair_eqb_spec in F. subst y. destruct (pair_eqb a b) eqn:F2; cbn; [rewrite !andb_false_r|]; reflexivity.
    - rewrite IH. destruct (pair_eqb a y) eqn:F2; cbn; [|reflexivity]. apply pair_eqb_spec in F2. subst y.
      destruct (pair_eqb a b) eqn:F3; [|reflexivity]. apply pair_eqb_spec in F3. subst b.
      rewrite (proj2 (pair_eqb_spec _ _) eq_refl) in F. discriminate.
  Qed.

  Lemma net_ok_disconnect s i j : net_ok s -> net_ok (fst (nstep Sz Hh s (NDisconnect i j))).
  Proof.
    intros Hok. cbn [nstep fst]. unfold do_disconnect.
    destruct (get_node s i) as [ni|] eqn:Ei; [|exact Hok]. destruct (get_node s j) as [nj|] eqn:Ej; [|exact Hok].
    destruct (Net.connected s i j) eqn:Ec; [|exact Hok].
    destruct (connected_neq s i j Hok Ec) as (Eij & _). pose proof Hok as [H1 H2 H3].
    assert (Ej1 : get_node (set_node s i (node_disconnected Sz ni j CONN)) j = Some nj) by (rewrite get_set_neq by exact Eij; exact Ej).
    set (s1 := set_node s i (node_disconnected Sz ni j CONN)) in *.
    set (s2 := set_node s1 j (node_disconnected Sz nj i CONN)).
    assert (Hget : forall k, get_node s2 k = if k =? j then Some (node_disconnected Sz nj i CONN)
                                            else if k =? i then Some (node_disconnected Sz ni j CONN) else get_node s k).
    { intros k. unfold s2. destruct (k =? j) eqn:A.
      - apply N.eqb_eq in A. subst k. eapply get_set_eq. exact Ej1.
      - apply N.eqb_neq in A. rewrite get_set_neq by congruence. unfold s1. destruct (k =? i) eqn:B.
        + apply N.eqb_eq in B. subst k. eapply get_set_eq. exact Ei.
        + apply N.eqb_neq in B. rewrite get_set_neq by congruence. reflexivity. }
    set (s' := MkNet (nodes s2) (filter (fun p => negb (pair_eqb (norm i j) p)) (conns s))
                     (filter (fun m => negb (w_touches i j m)) (wire_w s))
                     (filter (fun m => negb (b_touches i j m)) (wire_b s)) (now s)).
    assert (Hcon : forall k x, Net.connected s' k x = Net.connected s k x && negb (pair_eqb (norm k x) (norm i j))).
    { intros k x. unfold Net.connected, s'. cbn [conns]. apply existsb_filter_pair. }
    constructor.
    - intros k nk Hk. change (get_node s2 k = Some nk) in Hk. rewrite Hget in Hk. change (now s') with (now s).
      destruct (k =? j) eqn:A; [|destruct (k =? i) eqn:B].
      + apply N.eqb_eq in A. subst k. injection Hk as <-.
        eapply node_ok_frame; [|apply (node_ok_disconnected (now s) (Net.connected s j) nj i (H1 _ _ Ej))].
        intros x. rewrite Hcon, (pair_norm_eqb i j j x Eij), N.eqb_refl. cbn [andb].
        replace (j =? i) with false by (symmetry; apply N.eqb_neq; congruence). reflexivity.
      + apply N.eqb_eq in B. subst k. injection Hk as <-.
        eapply node_ok_frame; [|apply (node_ok_disconnected (now s) (Net.connected s i) ni j (H1 _ _ Ei))].
        intros x. rewrite Hcon, (pair_norm_eqb i j i x Eij), N.eqb_refl, A. cbn [andb]. rewrite orb_false_r. reflexivity.
      + eapply node_ok_frame; [|apply (H1 _ _ Hk)]. intros x. rewrite Hcon, (pair_norm_eqb i j k x Eij), A, B. cbn. apply andb_true_r.
    - intros a b Hab. unfold s' in Hab. cbn [conns] in Hab. apply filter_In in Hab. destruct Hab as [Hab _].
      assert (Hex : forall k, get_node s k <> None -> get_node s' k <> None).
      { intros k Hk. change (get_node s2 k <> None). rewrite Hget. destruct (k =? j); [discriminate|]. destruct (k =? i); [discriminate | exact Hk]. }
      destruct (H2 a b Hab) as (Hlt & Ha & Hb). split; [exact Hlt|]. split; apply Hex; assumption.
    - intros m Hm. unfold s' in Hm. cbn [wire_b] in Hm. apply filter_In in Hm. apply H3, Hm.
  Qed.

  (* ---------- deliveries ---------- *)
  Lemma take_first_spec {A} (f : A -> bool) l x r :
    take_first f l = Some (x, r) -> In x l /\ f x = true /\ (forall y, In y r -> In y l) /\ (forall y, In y l -> y = x \/ In y r).
  Proof.
    revert r. induction l as [|y l IH]; intros r; cbn [take_first]; [discriminate|].
    destruct (f y) eqn:E.
    - intros [= <- <-]. split; [left; reflexivity|]. split; [exact E|]. split; [intros z Hz; right; exact Hz|].
      intros z [->|Hz]; [left; reflexivity | right; exact Hz].
    - destruct (take_first f l) as [[x' r']|]; [|discriminate]. intros [= <- <-].
      destruct (IH r' eq_refl) as (A1 & A2 & A3 & A4). split; [right; exact A1|]. split; [exact A2|]. split.
      + intros z [->|Hz]; [left; reflexivity | right; apply A3, Hz].
      + intros z [->|Hz]; [right; left; reflexivity|]. destruct (A4 z Hz) as [Hq|Hq]; [left; exact Hq | right; right; exact Hq].
  Qed.

  Lemma net_ok_wires s ww wb :
    net_ok s -> (forall m, In m wb -> In m (wire_b s)) -> net_ok (MkNet (nodes s) (conns s) ww wb (now s)).
  Proof. intros [H1 H2 H3] Hs. constructor; [exact H1 | exact H2 | intros m Hm; apply H3, Hs, Hm]. Qed.

  Lemma node_ok_server_msg nw con n p w order :
    node_ok nw con n ->
    node_ok nw con (MkNode (n_client n) (fst (srv Sz (n_server n) (SMsg p w order))) (n_store n) (n_calls n)).
  Proof.
    intros [H1 H2 H3 H4 H5 H6 H7 H8 H9 H10 H11]. constructor; cbn [n_client n_server n_store n_calls]; try assumption.
    - apply SV_step; [exact HSz | exact H7 | exact I].
    - intros x. unfold srv. rewrite step_keys by apply H7. cbn [conn_op]. apply H8.
    - apply calls_agree_sstep; [exact I | exact H11].
  Qed.

  Lemma node_ok_same nw con n n' :
    node_ok nw con n -> n_client n' = n_client n -> n_server n' = n_server n -> n_store n' = n_store n -> n_calls n' = n_calls n ->
    node_ok nw con n'.
  Proof. intros Hn E1 E2 E3 E4. destruct n'. cbn in *. subst. destruct n. exact Hn. Qed.

  Lemma net_ok_report s i j : net_ok s -> net_ok (on_node s i (fun n => node_report n j CONN RpReady)).
  Proof.
    intros Hok. apply net_ok_on_node; [exact Hok|]. intros n Hn. pose proof (no_nodes _ Hok i n Hn) as Hni. unfold node_report.
    apply node_ok_cstep; [exact I | exact Hni|]. cbn [cstep fst]. apply CK_report_ready, (nk_ck _ _ _ Hni).
  Qed.

  Lemma net_ok_deliver_w s i j : net_ok s -> net_ok (fst (nstep Sz Hh s (NDeliverW i j))).
  Proof.
    intros Hok. cbn [nstep fst]. unfold do_deliver_w.
    destruct (take_first (w_between i j) (wire_w s)) as [[m rest]|] eqn:Et; [|exact Hok].
    set (s0 := MkNet (nodes s) (conns s) rest (wire_b s) (now s)).
    assert (Hok0 : net_ok s0) by (apply net_ok_wires; [exact Hok | auto]).
    destruct (get_node s0 i) as [ni|] eqn:Ei; [|exact Hok0]. destruct (get_node s0 j) as [nj|] eqn:Ej; [|exact Hok0].
    unfold node_incoming. rewrite process_wantlist_message. cbn [in_client in_server].
    pose proof (no_nodes s0 Hok0 j nj Ej) as Hn.
    destruct (wm_full m || negb (is_nil (wm_entries m))); cbn [fst]; apply net_ok_report;
      (eapply net_ok_set_node; [exact Hok0 | exact Ej|]).
    - apply node_ok_server_msg, Hn.
    - eapply node_ok_same; [exact Hn|..]; reflexivity.
  Qed.

  Lemma ins_all_good bl : Forall G bl -> Forall G (ins_all bl []).
  Proof.
    intros Hg. apply Forall_forall. intros x Hx. apply ins_all_in in Hx. destruct Hx as [[]|Hx]. rewrite Forall_forall in Hg. apply Hg, Hx.
  Qed.

  Lemma net_ok_deliver_b s j i : net_ok s -> net_ok (fst (nstep Sz Hh s (NDeliverB j i))).
  Proof.
    intros Hok. cbn [nstep fst]. unfold do_deliver_b.
    destruct (take_first (b_between j i) (wire_b s)) as [[m rest]|] eqn:Et; [|exact Hok].
    destruct (take_first_spec _ _ _ _ Et) as (Hm & _ & Hsub & _).
    pose proof (no_wire_b s Hok m Hm) as Hg.
    assert (Hok0 : net_ok (MkNet (nodes s) (conns s) (wire_w s) rest (now s))) by (apply net_ok_wires; [exact Hok | exact Hsub]).
    destruct (get_node s i) as [ni|] eqn:Ei; [|exact Hok0].
    unfold node_incoming. rewrite (process_blocks_message Sz Hh _ Hg). cbn [in_client in_server].
    pose proof (no_nodes s Hok i ni Ei) as Hn.
    assert (Hgoal : forall ni1, node_ok (now s) (Net.connected s i) ni1 ->
               net_ok (MkNet (set_nth (N.to_nat i) ni1 (nodes s)) (conns s) (wire_w s) rest (now s))).
    { intros ni1 Hn1. exact (net_ok_set_node (MkNet (nodes s) (conns s) (wire_w s) rest (now s)) i ni ni1 Hok0 Ei Hn1). }
    destruct (bm_blocks m) as [|b bl] eqn:Eb.
    - cbn [fst]. apply Hgoal. eapply node_ok_same; [exact Hn|..]; reflexivity.
    - cbn [cm_presences cm_blocks map].
      destruct (cstep (n_client ni) (CIncoming j [] (ins_all (b :: bl) []))) as [c1 o1] eqn:Ec. cbn [fst]. apply Hgoal.
      replace c1 with (fst (cstep (n_client ni) (CIncoming j [] (ins_all (b :: bl) [])))) by (rewrite Ec; reflexivity).
      apply node_ok_cstep; [exact I | exact Hn|]. cbn [cstep]. apply CK_incoming; [apply (nk_ck _ _ _ Hn)|].
      apply ins_all_good. exact Hg.
  Qed.
End NetInv.
