(* Client_proofs.v — infrastructure and the C03 / C08 / C01 / C13 / C15(step) theorems about Client.v. *)
From BS Require Import Types Wantlist Wantlist_proofs Client.
From Coq Require Import ZArith ZifyBool ZifyN ZifyNat Lia Permutation.
Open Scope N_scope.

(* ---------- N-keyed association lists ---------- *)
Lemma Neqb_spec a b : (a =? b) = true <-> a = b.
Proof. apply N.eqb_eq. Qed.

Lemma n_mem_In x l : n_mem x l = true <-> In x l.
Proof.
  unfold n_mem. rewrite existsb_exists. split.
  - intros (y & Hy & E). apply N.eqb_eq in E. subst. assumption.
  - intros H. exists x. split; [assumption | apply N.eqb_refl].
Qed.

Lemma n_mem_false x l : n_mem x l = false <-> ~ In x l.
Proof. rewrite <- n_mem_In. destruct (n_mem x l); split; intros; congruence. Qed.

Lemma n_remove_In x y l : In x (n_remove y l) <-> In x l /\ x <> y.
Proof.
  unfold n_remove. rewrite filter_In, negb_true_iff, N.eqb_neq. split; intros [H1 H2]; split; auto.
Qed.

(* ---------- runs ---------- *)
Definition all_outs (r : list (list cout)) : list cout := concat r.

Lemma crun_from_app s ops1 ops2 :
  crun_from s (ops1 ++ ops2) =
  (fst (crun_from s ops1) ++ fst (crun_from (snd (crun_from s ops1)) ops2),
   snd (crun_from (snd (crun_from s ops1)) ops2)).
Proof.
  revert s. induction ops1 as [|o ops1 IH]; intros s; cbn [crun_from app fst snd].
  - destruct (crun_from s ops2); reflexivity.
  - destruct (cstep s o) as [s1 out]. rewrite IH.
    destruct (crun_from s1 ops1) as [outs1 s2]; cbn [fst snd].
    destruct (crun_from s2 ops2); reflexivity.
Qed.

Lemma crun_from_cons s o ops :
  crun_from s (o :: ops) =
  (snd (cstep s o) :: fst (crun_from (fst (cstep s o)) ops), snd (crun_from (fst (cstep s o)) ops)).
Proof. cbn [crun_from]. destruct (cstep s o) as [s1 out]; cbn [fst snd]. destruct (crun_from s1 ops); reflexivity. Qed.

(* a relation between a state, the outputs of some steps, and the state reached *)
Section Rel.
  Variable R : cstate -> list cout -> cstate -> Prop.
  Hypothesis R_refl : forall s, R s [] s.
  Hypothesis R_trans : forall s o1 s1 o2 s2, R s o1 s1 -> R s1 o2 s2 -> R s (o1 ++ o2) s2.

  Lemma poll_loop_rel :
    (forall s, R s [OOutOfFuel] s) ->
    (forall ch s, R s (snd (fst (poll_iter ch s))) (fst (fst (poll_iter ch s)))) ->
    forall fuel ch s, R s (snd (poll_loop fuel ch s)) (fst (poll_loop fuel ch s)).
  Proof.
    intros Hfuel Hiter fuel ch. induction fuel as [|f IH]; intros s; cbn [poll_loop]; [apply Hfuel|].
    specialize (Hiter ch s). destruct (poll_iter ch s) as [[s1 outs] again]. cbn [fst snd] in Hiter.
    destruct again; [|exact Hiter].
    specialize (IH s1). destruct (poll_loop f ch s1) as [s2 outs']. cbn [fst snd] in *.
    eapply R_trans; eassumption.
  Qed.

  Lemma crun_rel :
    (forall s o, R s (snd (cstep s o)) (fst (cstep s o))) ->
    forall ops s, R s (all_outs (fst (crun_from s ops))) (snd (crun_from s ops)).
  Proof.
    intros Hstep ops. induction ops as [|o ops IH]; intros s.
    - cbn. apply R_refl.
    - rewrite crun_from_cons. cbn [fst snd all_outs concat].
      eapply R_trans; [apply Hstep | apply IH].
  Qed.
End Rel.

(* state invariants *)
Lemma poll_loop_inv (P : cstate -> Prop) :
  (forall ch s, P s -> P (fst (fst (poll_iter ch s)))) ->
  forall fuel ch s, P s -> P (fst (poll_loop fuel ch s)).
Proof.
  intros Hiter fuel ch s.
  apply (poll_loop_rel (fun s _ s' => P s -> P s')); auto.
Qed.

Lemma crun_inv (P : cstate -> Prop) :
  (forall s o, P s -> P (fst (cstep s o))) ->
  forall ops s, P s -> P (snd (crun_from s ops)).
Proof.
  intros Hstep ops s. apply (crun_rel (fun s _ s' => P s -> P s')); auto.
Qed.

(* ---------- the cases of one trip round the poll loop ---------- *)
Definition after_tasks (s : cstate) : cstate :=
  let '(ts, rq, nc, _, _) := poll_next (cs_ready s) (cs_tasks s) (cs_next_call s) in set_tasks_calls s ts rq nc.
Definition tasks_outs (s : cstate) : list cout :=
  let '(_, _, _, outs, _) := poll_next (cs_ready s) (cs_tasks s) (cs_next_call s) in outs.
Definition tasks_res (s : cstate) : option task_result :=
  let '(_, _, _, _, res) := poll_next (cs_ready s) (cs_tasks s) (cs_next_call s) in res.

Lemma poll_iter_cases ch s :
  (exists ev q, cs_queue s = ev :: q /\ poll_iter ch s = (set_queue s q, [out_of_event ev], true)) \/
  (cs_queue s = [] /\ timer_ready s = true /\ poll_iter ch s = (fire_timer s, [], true)) \/
  (exists r, cs_queue s = [] /\ timer_ready s = false /\ tasks_res s = Some r /\
     poll_iter ch s = (fst (handle_task_result (after_tasks s) r),
                       tasks_outs s ++ snd (handle_task_result (after_tasks s) r), true)) \/
  (cs_queue s = [] /\ timer_ready s = false /\ tasks_res s = None /\
     poll_iter ch s = (fst (fst (update_handlers (after_tasks s) ch)),
                       tasks_outs s ++ snd (fst (update_handlers (after_tasks s) ch)),
                       snd (update_handlers (after_tasks s) ch))).
Proof.
  unfold poll_iter, after_tasks, tasks_outs, tasks_res.
  destruct (cs_queue s) as [|ev q]; [|left; eauto].
  right. destruct (timer_ready s); [left; auto|]. right.
  destruct (poll_next (cs_ready s) (cs_tasks s) (cs_next_call s)) as [[[[ts rq] nc] outs] [r|]].
  - left. exists r. repeat split; auto. destruct (handle_task_result (set_tasks_calls s ts rq nc) r); reflexivity.
  - right. repeat split; auto. destruct (update_handlers (set_tasks_calls s ts rq nc) ch) as [[s2 o2] u]; reflexivity.
Qed.

(* induction principle for poll_next *)
Section PollNextInd.
  Variable Q : list N -> list (N * task) -> N -> list (N * task) -> list N -> N -> list cout -> option task_result -> Prop.
  Hypothesis Q_nil : forall ts nc, Q [] ts nc ts [] nc [] None.
  Hypothesis Q_skip : forall tid rq ts nc ts' rq' nc' outs res,
      (al_find N.eqb tid ts = None \/ exists t, al_find N.eqb tid ts = Some t /\ poll_task nc t = TpPending) ->
      Q rq ts nc ts' rq' nc' outs res -> Q (tid :: rq) ts nc ts' rq' nc' outs res.
  Hypothesis Q_ready : forall tid rq ts nc t r,
      al_find N.eqb tid ts = Some t -> poll_task nc t = TpReady r ->
      Q (tid :: rq) ts nc (al_remove N.eqb tid ts) rq nc [] (Some r).
  Hypothesis Q_start : forall tid rq ts nc t o ts' rq' nc' outs res,
      al_find N.eqb tid ts = Some t -> poll_task nc t = TpStart o ->
      Q rq (al_modify N.eqb tid (start_task nc) ts) (nc + 1) ts' rq' nc' outs res ->
      Q (tid :: rq) ts nc ts' rq' nc' (o ++ outs) res.

  Lemma poll_next_ind : forall rq ts nc,
    let '(ts', rq', nc', outs, res) := poll_next rq ts nc in Q rq ts nc ts' rq' nc' outs res.
  Proof.
    induction rq as [|tid rq IH]; intros ts nc; cbn [poll_next]; [apply Q_nil|].
    destruct (al_find N.eqb tid ts) as [t|] eqn:Ef.
    - destruct (poll_task nc t) as [r|o|] eqn:Ep.
      + eapply Q_ready; eassumption.
      + specialize (IH (al_modify N.eqb tid (start_task nc) ts) (nc + 1)).
        destruct (poll_next rq (al_modify N.eqb tid (start_task nc) ts) (nc + 1)) as [[[[ts' rq'] nc'] outs] res].
        eapply Q_start; eassumption.
      + specialize (IH ts nc). destruct (poll_next rq ts nc) as [[[[ts' rq'] nc'] outs] res].
        apply Q_skip; [right; eauto | assumption].
    - specialize (IH ts nc). destruct (poll_next rq ts nc) as [[[[ts' rq'] nc'] outs] res].
      apply Q_skip; [left; assumption | assumption].
  Qed.
End PollNextInd.

(* ---------- query ids: where they live ---------- *)
Definition cnt (x : N) (l : list N) : nat := count_occ N.eq_dec l x.

Lemma cnt_app x l1 l2 : cnt x (l1 ++ l2) = (cnt x l1 + cnt x l2)%nat.
Proof. apply count_occ_app. Qed.

Lemma cnt_cons x y l : cnt x (y :: l) = ((if N.eqb y x then 1 else 0) + cnt x l)%nat.
Proof.
  unfold cnt. cbn [count_occ]. destruct (N.eq_dec y x) as [->|Hne].
  - rewrite N.eqb_refl. reflexivity.
  - apply N.eqb_neq in Hne. rewrite Hne. reflexivity.
Qed.

Lemma cnt_nil x : cnt x [] = 0%nat.
Proof. reflexivity. Qed.

Definition task_qid (e : N * task) : list qid := match t_kind (snd e) with TGet q _ => [q] | TPut _ => [] end.
Definition event_qid (e : event) : list qid :=
  match e with EvResponse q _ => [q] | EvError q _ => [q] | EvSend _ _ _ _ => [] end.
Definition out_qid (o : cout) : list qid :=
  match o with OResponse q _ => [q] | OError q _ => [q] | _ => [] end.

Definition task_qids (ts : list (N * task)) : list qid := flat_map task_qid ts.
Definition c2q_qids (m : list (cid * list qid)) : list qid := flat_map snd m.
Definition queue_qids (q : list event) : list qid := flat_map event_qid q.
Definition out_qids (o : list cout) : list qid := flat_map out_qid o.

Definition live (x : qid) (s : cstate) : nat :=
  (cnt x (task_qids (cs_tasks s)) + cnt x (c2q_qids (cs_c2q s)) + cnt x (queue_qids (cs_queue s)))%nat.

Lemma flat_map_app' {A B} (f : A -> list B) l1 l2 : flat_map f (l1 ++ l2) = flat_map f l1 ++ flat_map f l2.
Proof. induction l1 as [|a l1 IH]; cbn; [reflexivity | rewrite IH, app_assoc; reflexivity]. Qed.

Lemma out_qids_app o1 o2 : out_qids (o1 ++ o2) = out_qids o1 ++ out_qids o2.
Proof. apply flat_map_app'. Qed.

Lemma task_qids_modify tid f ts :
  (forall t, t_kind (f t) = t_kind t) -> task_qids (al_modify N.eqb tid f ts) = task_qids ts.
Proof.
  intros Hf. unfold task_qids, al_modify. induction ts as [|[k t] ts IH]; cbn [map flat_map]; [reflexivity|].
  rewrite IH. f_equal. unfold task_qid. cbn [fst snd]. destruct (tid =? k); cbn [snd]; [rewrite Hf|]; reflexivity.
Qed.

Lemma cnt_task_qids_remove x tid ts : (cnt x (task_qids (al_remove N.eqb tid ts)) <= cnt x (task_qids ts))%nat.
Proof.
  unfold task_qids, al_remove. induction ts as [|[k t] ts IH]; cbn [filter flat_map]; [lia|].
  destruct (negb (tid =? fst (k, t))); cbn [flat_map]; rewrite !cnt_app; lia.
Qed.

Lemma cnt_task_qids_remove_get x tid ts t q c :
  al_find N.eqb tid ts = Some t -> t_kind t = TGet q c ->
  (cnt x (task_qids (al_remove N.eqb tid ts)) + (if N.eqb q x then 1 else 0) <= cnt x (task_qids ts))%nat.
Proof.
  unfold task_qids, al_remove. induction ts as [|[k t0] ts IH]; cbn [al_find filter flat_map fst]; [discriminate|].
  destruct (tid =? k) eqn:E; cbn [negb].
  - intros [= ->] Hk. rewrite cnt_app. unfold task_qid at 2. cbn [snd]. rewrite Hk, cnt_cons, cnt_nil.
    pose proof (cnt_task_qids_remove x tid ts) as H. unfold task_qids, al_remove in H. lia.
  - intros Hf Hk. cbn [flat_map]. rewrite !cnt_app. specialize (IH Hf Hk). lia.
Qed.

Lemma poll_task_ready_get nc t q c r : poll_task nc t = TpReady (TrGet q c r) -> t_kind t = TGet q c.
Proof.
  unfold poll_task. destruct (t_kind t) as [q0 c0|bl].
  - destruct (t_aborted t); [discriminate|]. destruct (t_call t); [|discriminate].
    destruct (t_result t); [|discriminate]. intros [= -> -> ->]. reflexivity.
  - destruct (t_call t); [|discriminate]. destruct (t_result t) as [[]|]; discriminate.
Qed.

Lemma poll_task_start_outs nc t o : poll_task nc t = TpStart o -> out_qids o = [].
Proof.
  unfold poll_task. destruct (t_kind t) as [q0 c0|bl].
  - destruct (t_aborted t); [discriminate|]. destruct (t_call t); [destruct (t_result t); discriminate|].
    intros [= <-]. reflexivity.
  - destruct (t_call t); [destruct (t_result t) as [[]|]; discriminate|]. intros [= <-]. reflexivity.
Qed.

Definition res_qid (r : option task_result) : list qid :=
  match r with Some (TrGet q _ _) => [q] | _ => [] end.

Lemma poll_next_qids x rq ts nc :
  let '(ts', rq', nc', outs, res) := poll_next rq ts nc in
  (cnt x (task_qids ts') + cnt x (res_qid res) <= cnt x (task_qids ts))%nat /\ out_qids outs = [].
Proof.
  apply (poll_next_ind (fun rq ts nc ts' rq' nc' outs res =>
    (cnt x (task_qids ts') + cnt x (res_qid res) <= cnt x (task_qids ts))%nat /\ out_qids outs = [])).
  - intros ts0 nc0. cbn. split; [lia | reflexivity].
  - intros tid rq0 ts0 nc0 ts' rq' nc' outs res _ H. exact H.
  - intros tid rq0 ts0 nc0 t r Hf Hp. split; [|reflexivity].
    destruct r as [q c r| |]; cbn [res_qid].
    + rewrite cnt_cons, cnt_nil. pose proof (cnt_task_qids_remove_get x tid ts0 t q c Hf (poll_task_ready_get _ _ _ _ _ Hp)). lia.
    + rewrite cnt_nil. pose proof (cnt_task_qids_remove x tid ts0). lia.
    + rewrite cnt_nil. pose proof (cnt_task_qids_remove x tid ts0). lia.
  - intros tid rq0 ts0 nc0 t o ts' rq' nc' outs res Hf Hp [H1 H2].
    rewrite task_qids_modify in H1 by reflexivity. split; [exact H1|].
    rewrite out_qids_app, H2, (poll_task_start_outs _ _ _ Hp). reflexivity.
Qed.

(* ---------- cid_to_queries ---------- *)
Lemma cnt_c2q_remove x c m : (cnt x (c2q_qids (al_remove cid_eqb c m)) <= cnt x (c2q_qids m))%nat.
Proof.
  unfold c2q_qids, al_remove. induction m as [|[k l] m IH]; cbn [filter flat_map]; [lia|].
  destruct (negb (cid_eqb c (fst (k, l)))); cbn [flat_map]; rewrite !cnt_app; lia.
Qed.

Lemma cnt_c2q_remove_find x c m qs :
  al_find cid_eqb c m = Some qs ->
  (cnt x qs + cnt x (c2q_qids (al_remove cid_eqb c m)) <= cnt x (c2q_qids m))%nat.
Proof.
  unfold c2q_qids, al_remove. induction m as [|[k l] m IH]; cbn [al_find filter flat_map fst snd]; [discriminate|].
  destruct (cid_eqb c k) eqn:E; cbn [negb].
  - intros [= ->]. rewrite cnt_app.
    pose proof (cnt_c2q_remove x c m) as H. unfold c2q_qids, al_remove in H. apply Nat.add_le_mono_l, H.
  - intros Hf. cbn [flat_map snd]. rewrite !cnt_app. specialize (IH Hf). lia.
Qed.

Lemma cnt_c2q_modify x c f m :
  (forall l, (cnt x (f l) <= cnt x l)%nat) ->
  (cnt x (c2q_qids (al_modify cid_eqb c f m)) <= cnt x (c2q_qids m))%nat.
Proof.
  intros Hf. unfold c2q_qids, al_modify. induction m as [|[k l] m IH]; cbn [map flat_map]; [lia|].
  rewrite !cnt_app. cbn [fst snd]. destruct (cid_eqb c k); cbn [snd]; [specialize (Hf l)|]; lia.
Qed.

Lemma al_modify_absent {K V} (eqb : K -> K -> bool) (eqb_spec : forall a b, eqb a b = true <-> a = b)
      k (f : V -> V) (m : list (K * V)) :
  ~ In k (map fst m) -> al_modify eqb k f m = m.
Proof.
  unfold al_modify. induction m as [|[k0 v0] m IH]; cbn [map fst]; [reflexivity|].
  intros Hn. destruct (eqb k k0) eqn:E.
  - apply eqb_spec in E. subst. exfalso. apply Hn. left; reflexivity.
  - rewrite IH; [reflexivity|]. intros H; apply Hn; right; exact H.
Qed.

Lemma cnt_c2q_push x c q m :
  NoDup (map fst m) ->
  cnt x (c2q_qids (c2q_push c q m)) = (cnt x (c2q_qids m) + (if N.eqb q x then 1 else 0))%nat.
Proof.
  intros Hnd. unfold c2q_push. destruct (al_mem cid_eqb c m) eqn:M.
  - apply (al_mem_In _ cid_eqb_spec) in M. revert Hnd M. unfold c2q_qids.
    induction m as [|[k l] m IH]; cbn [map fst]; [intros _ []|].
    intros Hnd M. inversion Hnd as [|? ? Hn Hnd']; subst. unfold al_modify. cbn [map flat_map fst snd].
    fold (al_modify cid_eqb c (fun qs => qs ++ [q]) m).
    destruct (cid_eqb c k) eqn:E.
    + apply cid_eqb_spec in E. subst k. rewrite (al_modify_absent _ cid_eqb_spec) by assumption.
      cbn [snd]. rewrite !cnt_app, cnt_cons, cnt_nil. lia.
    + apply cid_eqb_neq in E. destruct M as [M | M]; [congruence|]. cbn [snd]. rewrite !cnt_app, IH by assumption. lia.
  - unfold c2q_qids. rewrite flat_map_app'. cbn [flat_map snd]. rewrite cnt_app, app_nil_r, cnt_cons, cnt_nil. lia.
Qed.

Lemma c2q_push_keys c q m : NoDup (map fst m) -> NoDup (map fst (c2q_push c q m)).
Proof.
  intros Hnd. unfold c2q_push. destruct (al_mem cid_eqb c m) eqn:M.
  - rewrite al_modify_keys. assumption.
  - rewrite map_app. cbn [map fst]. apply NoDup_snoc; [assumption|].
    intros H. apply (al_mem_In _ cid_eqb_spec) in H. congruence.
Qed.

Lemma removelast_last_cnt x (t : list N) d :
  t <> [] -> cnt x (last t d :: removelast t) = cnt x t.
Proof.
  intros Hne. rewrite (app_removelast_last d Hne) at 3. rewrite cnt_app, !cnt_cons, cnt_nil. lia.
Qed.

Lemma cnt_swap_remove x q l : (cnt x (swap_remove_q q l) <= cnt x l)%nat.
Proof.
  induction l as [|y t IH]; cbn [swap_remove_q]; [lia|].
  destruct (y =? q).
  - destruct t as [|z t']; [rewrite cnt_cons, cnt_nil; lia|].
    rewrite removelast_last_cnt by discriminate. rewrite (cnt_cons x y). lia.
  - rewrite !cnt_cons. lia.
Qed.

Lemma cnt_swap_remove_in x q l :
  In q l -> (cnt x (swap_remove_q q l) + (if N.eqb q x then 1 else 0) = cnt x l)%nat.
Proof.
  induction l as [|y t IH]; cbn [swap_remove_q]; [intros []|].
  intros Hin. destruct (y =? q) eqn:E.
  - apply N.eqb_eq in E. subst y. destruct t as [|z t']; [rewrite cnt_cons, cnt_nil; lia|].
    rewrite removelast_last_cnt by discriminate. rewrite (cnt_cons x q). lia.
  - apply N.eqb_neq in E. destruct Hin as [Hin | Hin]; [congruence|]. rewrite !cnt_cons. specialize (IH Hin). lia.
Qed.

(* ---------- the accounting relation ---------- *)
Definition issued_between (s s' : cstate) (x : qid) : nat :=
  if (cs_next_qid s <=? x) && (x <? cs_next_qid s') then 1%nat else 0%nat.

Definition RA (s : cstate) (outs : list cout) (s' : cstate) : Prop :=
  NoDup (map fst (cs_c2q s)) ->
  NoDup (map fst (cs_c2q s')) /\ cs_next_qid s <= cs_next_qid s' /\
  forall x, (live x s' + cnt x (out_qids outs) <= live x s + issued_between s s' x)%nat.

Lemma RA_refl s : RA s [] s.
Proof. intros H. split; [assumption|]. split; [lia|]. intros x. cbn. lia. Qed.

Lemma RA_trans s o1 s1 o2 s2 : RA s o1 s1 -> RA s1 o2 s2 -> RA s (o1 ++ o2) s2.
Proof.
  intros H1 H2 Hnd. destruct (H1 Hnd) as (Hnd1 & Hle1 & Hc1). destruct (H2 Hnd1) as (Hnd2 & Hle2 & Hc2).
  split; [assumption|]. split; [lia|]. intros x. specialize (Hc1 x). specialize (Hc2 x).
  rewrite out_qids_app, cnt_app. unfold issued_between in *.
  destruct (cs_next_qid s <=? x) eqn:A1, (x <? cs_next_qid s1) eqn:A2, (cs_next_qid s1 <=? x) eqn:A3,
           (x <? cs_next_qid s2) eqn:A4; cbn [andb] in *; lia.
Qed.

(* a step that keeps the three homes of query ids and issues nothing *)
Lemma RA_same s outs s' :
  cs_c2q s' = cs_c2q s -> cs_next_qid s' = cs_next_qid s ->
  task_qids (cs_tasks s') = task_qids (cs_tasks s) -> queue_qids (cs_queue s') = queue_qids (cs_queue s) ->
  out_qids outs = [] -> RA s outs s'.
Proof.
  intros E1 E2 E3 E4 E5 Hnd. rewrite E1. split; [assumption|]. split; [lia|]. intros x.
  unfold live. rewrite E1, E3, E4, E5. cbn. lia.
Qed.

(* ---------- RA for every operation ---------- *)
Lemma queue_qids_app q1 q2 : queue_qids (q1 ++ q2) = queue_qids q1 ++ queue_qids q2.
Proof. apply flat_map_app'. Qed.

Lemma task_qids_app t1 t2 : task_qids (t1 ++ t2) = task_qids t1 ++ task_qids t2.
Proof. apply flat_map_app'. Qed.

Lemma RA_new_conn s p c : RA s [] (c_new_conn s p c).
Proof. apply RA_same; try reflexivity; unfold c_new_conn; destruct (al_mem N.eqb p (cs_peers s)); reflexivity. Qed.

Lemma RA_conn_closed s p c : RA s [] (c_conn_closed s p c).
Proof.
  apply RA_same; try reflexivity; unfold c_conn_closed; destruct (al_find N.eqb p (cs_peers s)); try reflexivity;
    destruct (p_conns (remove_conn c p0)); reflexivity.
Qed.

Lemma RA_get s oc : RA s (snd (c_get s oc)) (fst (c_get s oc)).
Proof.
  intros Hnd. unfold c_get. destruct oc as [c|]; cbn [fst snd].
  - split; [exact Hnd|]. split; [cbn; lia|]. intros x. unfold live, issued_between.
    unfold set_abort, push_task, bump_qid; cbn [cs_tasks cs_c2q cs_queue cs_next_qid].
    rewrite task_qids_app, cnt_app. unfold task_qids at 2. cbn [flat_map task_qid snd t_kind]. rewrite app_nil_r, cnt_cons, cnt_nil.
    change (out_qids [OQuery (cs_next_qid s)]) with (@nil qid). rewrite cnt_nil.
    destruct (N.eqb (cs_next_qid s) x) eqn:E.
    + apply N.eqb_eq in E. subst x. replace (cs_next_qid s <=? cs_next_qid s) with true by (symmetry; apply N.leb_le; lia).
      replace (cs_next_qid s <? cs_next_qid s + 1) with true by (symmetry; apply N.ltb_lt; lia). cbn. lia.
    + destruct ((cs_next_qid s <=? x) && (x <? cs_next_qid s + 1)); lia.
  - split; [exact Hnd|]. split; [cbn; lia|]. intros x. unfold live, issued_between.
    unfold set_queue, bump_qid; cbn [cs_tasks cs_c2q cs_queue cs_next_qid].
    rewrite queue_qids_app, cnt_app. unfold queue_qids at 2. cbn [flat_map event_qid]. rewrite app_nil_r, cnt_cons, cnt_nil.
    change (out_qids [OQuery (cs_next_qid s)]) with (@nil qid). rewrite cnt_nil.
    destruct (N.eqb (cs_next_qid s) x) eqn:E.
    + apply N.eqb_eq in E. subst x. replace (cs_next_qid s <=? cs_next_qid s) with true by (symmetry; apply N.leb_le; lia).
      replace (cs_next_qid s <? cs_next_qid s + 1) with true by (symmetry; apply N.ltb_lt; lia). cbn. lia.
    + destruct ((cs_next_qid s <=? x) && (x <? cs_next_qid s + 1)); lia.
Qed.

Lemma abort_task_qids s tid : task_qids (cs_tasks (abort_task s tid)) = task_qids (cs_tasks s).
Proof.
  unfold abort_task. destruct (al_mem N.eqb tid (cs_tasks s)); [|reflexivity].
  cbn. apply task_qids_modify. reflexivity.
Qed.

Lemma abort_task_frame s tid :
  cs_c2q (abort_task s tid) = cs_c2q s /\ cs_queue (abort_task s tid) = cs_queue s /\
  cs_next_qid (abort_task s tid) = cs_next_qid s /\ cs_wl (abort_task s tid) = cs_wl s /\
  cs_peers (abort_task s tid) = cs_peers s /\ cs_abort (abort_task s tid) = cs_abort s.
Proof. unfold abort_task. destruct (al_mem N.eqb tid (cs_tasks s)); repeat split; reflexivity. Qed.

Definition cancel_abort (s : cstate) (q : qid) : cstate :=
  match al_find N.eqb q (cs_abort s) with
  | Some tid => abort_task (set_abort s (al_remove N.eqb q (cs_abort s))) tid
  | None => s
  end.

Lemma cancel_abort_frame s q :
  cs_c2q (cancel_abort s q) = cs_c2q s /\ cs_queue (cancel_abort s q) = cs_queue s /\
  cs_next_qid (cancel_abort s q) = cs_next_qid s /\ cs_wl (cancel_abort s q) = cs_wl s /\
  cs_peers (cancel_abort s q) = cs_peers s /\
  task_qids (cs_tasks (cancel_abort s q)) = task_qids (cs_tasks s).
Proof.
  unfold cancel_abort. destruct (al_find N.eqb q (cs_abort s)) as [tid|]; [|repeat split; reflexivity].
  destruct (abort_task_frame (set_abort s (al_remove N.eqb q (cs_abort s))) tid) as (E1 & E2 & E3 & E4 & E5 & _).
  rewrite E1, E2, E3, E4, E5, abort_task_qids. repeat split; reflexivity.
Qed.

Lemma c_cancel_unfold s q :
  c_cancel s q =
  let s1 := cancel_abort s q in
  match find_query q (cs_c2q s1) with
  | None => s1
  | Some (c, qs) =>
      match swap_remove_q q qs with
      | [] => set_wl (set_c2q s1 (al_remove cid_eqb c (cs_c2q s1))) (fst (wl_remove (cs_wl s1) c))
      | _ => set_c2q s1 (al_modify cid_eqb c (swap_remove_q q) (cs_c2q s1))
      end
  end.
Proof. reflexivity. Qed.

Lemma cnt_out_nil x : cnt x (out_qids []) = 0%nat.
Proof. reflexivity. Qed.

Lemma RA_cancel s q : RA s [] (c_cancel s q).
Proof.
  intros Hnd. rewrite c_cancel_unfold. cbv zeta.
  destruct (cancel_abort_frame s q) as (E1 & E2 & E3 & E4 & E5 & E6).
  set (s1 := cancel_abort s q) in *.
  destruct (find_query q (cs_c2q s1)) as [[c qs]|].
  - destruct (swap_remove_q q qs) as [|y l].
    + split; [unfold set_wl, set_c2q; cbn [cs_c2q]; rewrite E1; apply al_remove_NoDup; assumption|]. split; [unfold set_wl, set_c2q; cbn [cs_next_qid]; lia|].
      intros x. unfold live, issued_between, set_wl, set_c2q. cbn [cs_tasks cs_c2q cs_queue cs_next_qid]. rewrite E1, E2, E6, cnt_out_nil.
      pose proof (cnt_c2q_remove x c (cs_c2q s)). 
      destruct ((cs_next_qid s <=? x) && (x <? cs_next_qid s1)); unfold qid in *; lia.
    + split; [unfold set_c2q; cbn [cs_c2q]; rewrite E1, al_modify_keys; assumption|]. split; [unfold set_c2q; cbn [cs_next_qid]; lia|].
      intros x. unfold live, issued_between, set_wl, set_c2q. cbn [cs_tasks cs_c2q cs_queue cs_next_qid]. rewrite E1, E2, E6, cnt_out_nil.
      pose proof (cnt_c2q_modify x c (swap_remove_q q) (cs_c2q s) (cnt_swap_remove x q)).
      destruct ((cs_next_qid s <=? x) && (x <? cs_next_qid s1)); unfold qid in *; lia.
  - split; [rewrite E1; assumption|]. split; [lia|]. intros x. unfold live, issued_between. rewrite E1, E2, E6, cnt_out_nil. cbn.
    destruct ((cs_next_qid s <=? x) && (x <? cs_next_qid s1)); unfold qid in *; lia.
Qed.

Ltac lia' := unfold qid in *; lia.

(* process_incoming_message: the fold over the blocks *)
Lemma inc_block_acct x a b :
  NoDup (map fst (ia_c2q a)) ->
  NoDup (map fst (ia_c2q (inc_block a b))) /\
  (cnt x (c2q_qids (ia_c2q (inc_block a b))) + cnt x (queue_qids (ia_queue (inc_block a b)))
   <= cnt x (c2q_qids (ia_c2q a)) + cnt x (queue_qids (ia_queue a)))%nat.
Proof.
  intros Hnd. unfold inc_block. destruct (ia_panic a); [split; [assumption | lia]|].
  destruct b as [c data]. destruct (wl_remove (ia_wl a) c) as [w' removed]. destruct removed; cbn [negb].
  - cbn [ia_c2q ia_queue]. split; [apply al_remove_NoDup; assumption|].
    rewrite queue_qids_app, cnt_app.
    destruct (al_find cid_eqb c (ia_c2q a)) as [qs|] eqn:Ef.
    + pose proof (cnt_c2q_remove_find x c (ia_c2q a) qs Ef).
      assert (Hq : queue_qids (map (fun q => EvResponse q data) qs) = qs).
      { unfold queue_qids. clear. induction qs as [|q qs IH]; cbn; [reflexivity | rewrite IH; reflexivity]. }
      rewrite Hq. lia'.
    + pose proof (cnt_c2q_remove x c (ia_c2q a)). cbn [map queue_qids flat_map]. rewrite cnt_nil. lia'.
  - destruct (al_mem cid_eqb c (ia_c2q a)); cbn [ia_c2q ia_queue]; split; try assumption; lia.
Qed.

Lemma inc_blocks_acct x blocks : forall a,
  NoDup (map fst (ia_c2q a)) ->
  NoDup (map fst (ia_c2q (fold_left inc_block blocks a))) /\
  (cnt x (c2q_qids (ia_c2q (fold_left inc_block blocks a))) + cnt x (queue_qids (ia_queue (fold_left inc_block blocks a)))
   <= cnt x (c2q_qids (ia_c2q a)) + cnt x (queue_qids (ia_queue a)))%nat.
Proof.
  induction blocks as [|b blocks IH]; intros a Hnd; cbn [fold_left]; [split; [assumption | lia]|].
  destruct (inc_block_acct x a b Hnd) as [Hnd1 H1]. destruct (IH _ Hnd1) as [Hnd2 H2]. split; [assumption | lia].
Qed.

Lemma push_task_put_qids s bl :
  task_qids (cs_tasks (push_task s (TPut bl))) = task_qids (cs_tasks s).
Proof. unfold push_task; cbn [cs_tasks]. rewrite task_qids_app. cbn. apply app_nil_r. Qed.

Lemma RA_incoming s p pres blocks : RA s (snd (c_incoming s p pres blocks)) (fst (c_incoming s p pres blocks)).
Proof.
  intros Hnd. unfold c_incoming. destruct (al_find N.eqb p (cs_peers s)) as [ps|]; [|apply RA_refl; assumption].
  set (a0 := MkInc (cs_wl s) (fold_left apply_presence pres (p_wl ps)) (cs_c2q s) (cs_queue s) [] false).
  set (a := fold_left inc_block blocks a0).
  assert (H : forall x, NoDup (map fst (ia_c2q a)) /\
     (cnt x (c2q_qids (ia_c2q a)) + cnt x (queue_qids (ia_queue a)) <= cnt x (c2q_qids (cs_c2q s)) + cnt x (queue_qids (cs_queue s)))%nat).
  { intros x. apply (inc_blocks_acct x blocks a0). exact Hnd. }
  destruct (ia_panic a).
  - cbn [fst snd]. split; [apply (H 0)|]. split; [cbn; lia|]. intros x. destruct (H x) as [_ Hx].
    unfold live, issued_between. cbn [cs_tasks cs_c2q cs_queue cs_next_qid]. cbn [out_qids flat_map out_qid app]. rewrite cnt_nil.
    destruct ((cs_next_qid s <=? x) && (x <? cs_next_qid s)); lia'.
  - destruct (ia_new a) as [|b nb]; cbn [fst snd].
    + split; [apply (H 0)|]. split; [cbn; lia|]. intros x. destruct (H x) as [_ Hx].
      unfold live, issued_between. cbn [cs_tasks cs_c2q cs_queue cs_next_qid]. rewrite cnt_out_nil.
      destruct ((cs_next_qid s <=? x) && (x <? cs_next_qid s)); lia'.
    + split; [apply (H 0)|]. split; [cbn; lia|]. intros x. destruct (H x) as [_ Hx].
      unfold live, issued_between. rewrite push_task_put_qids. unfold push_task. cbn [cs_tasks cs_c2q cs_queue cs_next_qid]. rewrite cnt_out_nil.
      destruct ((cs_next_qid s <=? x) && (x <? cs_next_qid s)); lia'.
Qed.

Lemma RA_report s p c r : RA s [] (c_report s p c r).
Proof. apply RA_same; reflexivity. Qed.

Lemma RA_release s call r : RA s [] (c_release s call r).
Proof.
  apply RA_same; try reflexivity; unfold c_release; destruct (find (call_is call) (cs_tasks s)) as [[tid t]|]; try reflexivity.
  cbn [set_tasks cs_tasks]. apply task_qids_modify. reflexivity.
Qed.

Lemma RA_advance s ms : RA s [] (c_advance s ms).
Proof. apply RA_same; reflexivity. Qed.

Lemma RA_take s : RA s (snd (c_take_new_blocks s)) (fst (c_take_new_blocks s)).
Proof. apply RA_same; reflexivity. Qed.

(* ---------- RA for the poll loop ---------- *)
Lemma out_of_event_qid ev : out_qid (out_of_event ev) = event_qid ev.
Proof. destruct ev; reflexivity. Qed.

Lemma after_tasks_frame s :
  cs_queue (after_tasks s) = cs_queue s /\ cs_wl (after_tasks s) = cs_wl s /\ cs_peers (after_tasks s) = cs_peers s /\
  cs_c2q (after_tasks s) = cs_c2q s /\ cs_abort (after_tasks s) = cs_abort s /\ cs_next_qid (after_tasks s) = cs_next_qid s /\
  cs_deadline (after_tasks s) = cs_deadline s /\ cs_new_blocks (after_tasks s) = cs_new_blocks s /\ cs_now (after_tasks s) = cs_now s /\
  cs_next_task (after_tasks s) = cs_next_task s.
Proof.
  unfold after_tasks. destruct (poll_next (cs_ready s) (cs_tasks s) (cs_next_call s)) as [[[[ts rq] nc] outs] res].
  repeat split; reflexivity.
Qed.

Lemma after_tasks_qids x s :
  (cnt x (task_qids (cs_tasks (after_tasks s))) + cnt x (res_qid (tasks_res s)) <= cnt x (task_qids (cs_tasks s)))%nat /\
  out_qids (tasks_outs s) = [].
Proof.
  unfold after_tasks, tasks_res, tasks_outs.
  pose proof (poll_next_qids x (cs_ready s) (cs_tasks s) (cs_next_call s)) as H.
  destruct (poll_next (cs_ready s) (cs_tasks s) (cs_next_call s)) as [[[[ts rq] nc] outs] res]. exact H.
Qed.

Lemma uh_peer_events now w ch p ps :
  let '(ps', evs, outs, dead) := uh_peer now w ch p ps in queue_qids evs = [] /\ out_qids outs = [].
Proof.
  unfold uh_peer. destruct (uh_gate now ps) as [ps1|]; [|split; reflexivity].
  destruct (p_conns ps1) as [|c0 cs]; [split; reflexivity|].
  destruct (if p_send_full ps1 then wls_generate_full (p_wl ps1) w else wls_generate_update (p_wl ps1) w) as [es wls'].
  destruct (negb (p_send_full ps1) && match es with [] => true | _ => false end); [split; reflexivity|].
  unfold pick_conn. destruct (al_find N.eqb p ch) as [c|]; [destruct (n_mem c (c0 :: cs))|]; split; reflexivity.
Qed.

Lemma uh_loop_events now w ch l :
  let '(l', evs, outs) := uh_loop now w ch l in queue_qids evs = [] /\ out_qids outs = [].
Proof.
  induction l as [|[p ps] l IH]; cbn [uh_loop]; [split; reflexivity|].
  pose proof (uh_peer_events now w ch p ps) as H1. destruct (uh_peer now w ch p ps) as [[[ps' evs] outs] dead].
  destruct (uh_loop now w ch l) as [[l'' evs'] outs']. destruct H1 as [A1 A2], IH as [B1 B2].
  rewrite queue_qids_app, out_qids_app, A1, A2, B1, B2. split; reflexivity.
Qed.

Lemma update_handlers_frame s ch :
  let s' := fst (fst (update_handlers s ch)) in
  cs_tasks s' = cs_tasks s /\ cs_c2q s' = cs_c2q s /\ cs_next_qid s' = cs_next_qid s /\ cs_wl s' = cs_wl s /\
  cs_abort s' = cs_abort s /\ cs_ready s' = cs_ready s /\ cs_new_blocks s' = cs_new_blocks s /\ cs_now s' = cs_now s /\
  cs_deadline s' = cs_deadline s /\ cs_next_task s' = cs_next_task s /\ cs_next_call s' = cs_next_call s.
Proof.
  unfold update_handlers. destruct (uh_loop (cs_now s) (cs_wl s) ch (cs_peers s)) as [[peers' evs] outs].
  cbn. repeat split; reflexivity.
Qed.

Lemma RA_update_handlers s ch : RA s (snd (fst (update_handlers s ch))) (fst (fst (update_handlers s ch))).
Proof.
  pose proof (update_handlers_frame s ch) as (E1 & E2 & E3 & _).
  apply RA_same; auto.
  - rewrite E1. reflexivity.
  - unfold update_handlers. pose proof (uh_loop_events (cs_now s) (cs_wl s) ch (cs_peers s)) as H.
    destruct (uh_loop (cs_now s) (cs_wl s) ch (cs_peers s)) as [[peers' evs] outs]. cbn.
    rewrite queue_qids_app. destruct H as [-> _]. apply app_nil_r.
  - unfold update_handlers. pose proof (uh_loop_events (cs_now s) (cs_wl s) ch (cs_peers s)) as H.
    destruct (uh_loop (cs_now s) (cs_wl s) ch (cs_peers s)) as [[peers' evs] outs]. cbn. apply H.
Qed.

Lemma RA_handle_result s r :
  NoDup (map fst (cs_c2q s)) ->
  let s' := fst (handle_task_result s r) in
  NoDup (map fst (cs_c2q s')) /\ cs_next_qid s' = cs_next_qid s /\
  forall x, (live x s' + cnt x (out_qids (snd (handle_task_result s r))) <= live x s + cnt x (res_qid (Some r)))%nat.
Proof.
  intros Hnd. destruct r as [q c res|ok bl|]; cbn [handle_task_result].
  - destruct res as [data| |]; cbn [fst snd].
    + split; [exact Hnd|]. split; [reflexivity|]. intros x. unfold live. cbn [set_abort cs_tasks cs_c2q cs_queue out_qids flat_map out_qid app res_qid]. lia'.
    + destruct (wl_insert (cs_wl (set_abort s (al_remove N.eqb q (cs_abort s)))) c) as [w' inserted].
      destruct inserted; cbn [fst snd].
      * split; [cbn; apply c2q_push_keys; assumption|]. split; [reflexivity|]. intros x.
        unfold live. cbn [set_c2q set_peers set_wl set_abort cs_tasks cs_c2q cs_queue].
        rewrite cnt_c2q_push by assumption. rewrite cnt_out_nil. cbn [res_qid]. rewrite cnt_cons, cnt_nil. lia.
      * split; [cbn; apply c2q_push_keys; assumption|]. split; [reflexivity|]. intros x.
        unfold live. cbn [set_c2q set_peers set_wl set_abort cs_tasks cs_c2q cs_queue].
        rewrite cnt_c2q_push by assumption. rewrite cnt_out_nil. cbn [res_qid]. rewrite cnt_cons, cnt_nil. lia.
    + split; [exact Hnd|]. split; [reflexivity|]. intros x. unfold live. cbn [set_abort cs_tasks cs_c2q cs_queue out_qids flat_map out_qid app res_qid]. lia'.
  - destruct ok; cbn [fst snd]; (split; [exact Hnd|]; split; [reflexivity|]; intros x; unfold live; cbn [set_new_blocks cs_tasks cs_c2q cs_queue out_qids flat_map out_qid app res_qid]; rewrite ?cnt_nil; lia').
  - cbn [fst snd]. split; [exact Hnd|]. split; [reflexivity|]. intros x; unfold live; cbn [set_new_blocks cs_tasks cs_c2q cs_queue out_qids flat_map out_qid app res_qid]; rewrite ?cnt_nil; lia'.
Qed.

Lemma RA_poll_iter ch s : RA s (snd (fst (poll_iter ch s))) (fst (fst (poll_iter ch s))).
Proof.
  destruct (poll_iter_cases ch s) as [(ev & q & Hq & ->) | [(Hq & Ht & ->) | [(r & Hq & Ht & Hr & ->) | (Hq & Ht & Hr & ->)]]];
    cbn [fst snd].
  - intros Hnd. split; [exact Hnd|]. split; [cbn; lia|]. intros x. unfold live, issued_between.
    cbn [set_queue cs_tasks cs_c2q cs_queue cs_next_qid]. rewrite Hq.
    unfold queue_qids at 2. cbn [flat_map]. fold (queue_qids q). rewrite cnt_app.
    unfold out_qids. cbn [flat_map]. rewrite app_nil_r, out_of_event_qid.
    destruct ((cs_next_qid s <=? x) && (x <? cs_next_qid s)); lia'.
  - apply RA_same; reflexivity.
  - intros Hnd. destruct (after_tasks_frame s) as (F1 & F2 & F3 & F4 & F5 & F6 & _).
    assert (Hnd1 : NoDup (map fst (cs_c2q (after_tasks s)))) by (rewrite F4; exact Hnd).
    destruct (RA_handle_result (after_tasks s) r Hnd1) as (Hnd2 & En & Hc).
    split; [exact Hnd2|]. split; [rewrite En, F6; lia|]. intros x. specialize (Hc x).
    destruct (after_tasks_qids x s) as [Hq1 Hq2]. rewrite Hr in Hq1.
    rewrite out_qids_app, Hq2. cbn [app].
    unfold live in *. rewrite F1, F4 in Hc. unfold issued_between.
    destruct ((cs_next_qid s <=? x) && (x <? cs_next_qid (fst (handle_task_result (after_tasks s) r)))); lia'.
  - intros Hnd. destruct (after_tasks_frame s) as (F1 & F2 & F3 & F4 & F5 & F6 & _).
    assert (Hnd1 : NoDup (map fst (cs_c2q (after_tasks s)))) by (rewrite F4; exact Hnd).
    destruct (RA_update_handlers (after_tasks s) ch Hnd1) as (Hnd2 & En & Hc).
    split; [exact Hnd2|]. split; [rewrite F6 in En; exact En|]. intros x. specialize (Hc x).
    destruct (after_tasks_qids x s) as [Hq1 Hq2].
    rewrite out_qids_app, Hq2. cbn [app].
    unfold live in *. rewrite F1, F4 in Hc. unfold issued_between in *. rewrite F6 in Hc.
    destruct ((cs_next_qid s <=? x) && (x <? cs_next_qid (fst (fst (update_handlers (after_tasks s) ch))))); lia'.
Qed.

Lemma RA_poll s ch : RA s (snd (c_poll s ch)) (fst (c_poll s ch)).
Proof.
  unfold c_poll. apply (poll_loop_rel RA RA_trans).
  - intros s0. apply RA_same; reflexivity.
  - apply RA_poll_iter.
Qed.

Lemma RA_step s o : RA s (snd (cstep s o)) (fst (cstep s o)).
Proof.
  destruct o; cbn [cstep fst snd].
  - apply RA_new_conn. - apply RA_conn_closed. - apply RA_get. - apply RA_cancel. - apply RA_incoming.
  - apply RA_report. - apply RA_release. - apply RA_advance. - apply RA_poll. - apply RA_take.
Qed.

Lemma RA_run ops s : RA s (all_outs (fst (crun_from s ops))) (snd (crun_from s ops)).
Proof. apply (crun_rel RA RA_refl RA_trans RA_step). Qed.

(* ---------- C03: ids ---------- *)
Fixpoint count_gets (ops : list cop) : N :=
  match ops with
  | [] => 0
  | CGet _ :: ops' => 1 + count_gets ops'
  | _ :: ops' => count_gets ops'
  end.

Lemma count_gets_app a b : count_gets (a ++ b) = count_gets a + count_gets b.
Proof. induction a as [|o a IH]; cbn [app count_gets]; [lia|]. destruct o; rewrite ?IH; lia. Qed.

Lemma handle_result_next_qid s r : cs_next_qid (fst (handle_task_result s r)) = cs_next_qid s.
Proof.
  destruct r as [q c res|ok bl|]; cbn [handle_task_result].
  - destruct res; cbn [fst]; try reflexivity.
    destruct (wl_insert (cs_wl (set_abort s (al_remove N.eqb q (cs_abort s)))) c) as [w' ins]. destruct ins; reflexivity.
  - destruct ok; reflexivity.
  - reflexivity.
Qed.

Lemma poll_iter_next_qid ch s : cs_next_qid (fst (fst (poll_iter ch s))) = cs_next_qid s.
Proof.
  destruct (poll_iter_cases ch s) as [(ev & q & Hq & ->) | [(Hq & Ht & ->) | [(r & Hq & Ht & Hr & ->) | (Hq & Ht & Hr & ->)]]];
    cbn [fst snd]; try reflexivity.
  - rewrite handle_result_next_qid. apply after_tasks_frame.
  - destruct (update_handlers_frame (after_tasks s) ch) as (_ & _ & E & _). rewrite E. apply after_tasks_frame.
Qed.

Lemma c_poll_next_qid s ch : cs_next_qid (fst (c_poll s ch)) = cs_next_qid s.
Proof.
  unfold c_poll. apply (poll_loop_inv (fun s' => cs_next_qid s' = cs_next_qid s)); [|reflexivity].
  intros ch0 s0 H. rewrite poll_iter_next_qid. exact H.
Qed.

Lemma cstep_next_qid s o :
  cs_next_qid (fst (cstep s o)) = cs_next_qid s + match o with CGet _ => 1 | _ => 0 end.
Proof.
  destruct o; cbn [cstep fst].
  - unfold c_new_conn. destruct (al_mem N.eqb p (cs_peers s)); cbn; lia.
  - unfold c_conn_closed. destruct (al_find N.eqb p (cs_peers s)); [destruct (p_conns (remove_conn c p0))|]; cbn; lia.
  - unfold c_get. destruct c; cbn; lia.
  - rewrite c_cancel_unfold. cbv zeta. destruct (cancel_abort_frame s q) as (_ & _ & E & _).
    destruct (find_query q (cs_c2q (cancel_abort s q))) as [[c qs]|]; [destruct (swap_remove_q q qs)|]; cbn; lia.
  - unfold c_incoming. destruct (al_find N.eqb p (cs_peers s)); [|cbn; lia].
    match goal with |- context [ia_panic ?a] => destruct (ia_panic a); [cbn; lia|]; destruct (ia_new a); cbn; lia end.
  - cbn. lia.
  - unfold c_release. destruct (find (call_is call) (cs_tasks s)) as [[tid t]|]; cbn; lia.
  - cbn. lia.
  - rewrite c_poll_next_qid. lia.
  - cbn. lia.
Qed.

Lemma crun_next_qid ops : forall s, cs_next_qid (snd (crun_from s ops)) = cs_next_qid s + count_gets ops.
Proof.
  induction ops as [|o ops IH]; intros s; [cbn; lia|].
  rewrite crun_from_cons. cbn [snd]. rewrite IH, cstep_next_qid. destruct o; cbn [count_gets]; lia.
Qed.

Lemma cstep_get_out s oc : snd (cstep s (CGet oc)) = [OQuery (cs_next_qid s)].
Proof. cbn [cstep]. unfold c_get. destruct oc; reflexivity. Qed.

(* the k-th get (counting from 0) returns QueryId k *)
Theorem C03_fresh_ids sdh ops1 oc :
  snd (cstep (snd (crun_sdh sdh ops1)) (CGet oc)) = [OQuery (count_gets ops1)].
Proof. rewrite cstep_get_out. unfold crun_sdh. rewrite crun_next_qid. reflexivity. Qed.

Lemma run_accounting sdh ops x :
  (live x (snd (crun_sdh sdh ops)) + cnt x (out_qids (all_outs (fst (crun_sdh sdh ops))))
   <= if N.ltb x (count_gets ops) then 1 else 0)%nat.
Proof.
  unfold crun_sdh. destruct (RA_run ops (cinit sdh)) as (_ & _ & H); [constructor|].
  specialize (H x). unfold issued_between in H. rewrite crun_next_qid in H. cbn [cinit cs_next_qid] in H.
  replace (0 <=? x) with true in H by (symmetry; apply N.leb_le; lia). cbn [andb] in H.
  replace (0 + count_gets ops) with (count_gets ops) in H by lia.
  unfold live at 2 in H. cbn in H. exact H.
Qed.

(* every query id appears in at most one GetQueryResponse / GetQueryError over the whole run *)
Theorem C03_at_most_one_event sdh ops :
  NoDup (out_qids (all_outs (fst (crun_sdh sdh ops)))).
Proof.
  apply (NoDup_count_occ N.eq_dec). intros x. pose proof (run_accounting sdh ops x) as H. fold (cnt x (out_qids (all_outs (fst (crun_sdh sdh ops))))).
  destruct (x <? count_gets ops); lia.
Qed.

(* only issued ids appear: an id in an event was returned by one of the gets of the run *)
Theorem C03_no_foreign_ids sdh ops q :
  In q (out_qids (all_outs (fst (crun_sdh sdh ops)))) -> q < count_gets ops.
Proof.
  intros Hin. pose proof (run_accounting sdh ops q) as H.
  apply (count_occ_In N.eq_dec) in Hin. fold (cnt q (out_qids (all_outs (fst (crun_sdh sdh ops))))) in Hin.
  destruct (q <? count_gets ops) eqn:E; [apply N.ltb_lt; exact E | lia].
Qed.

Lemma out_qids_In q outs :
  In q (out_qids outs) <-> (exists d, In (OResponse q d) outs) \/ (exists k, In (OError q k) outs).
Proof.
  unfold out_qids. rewrite in_flat_map. split.
  - intros (o & Ho & Hq). destruct o; cbn in Hq; try contradiction; destruct Hq as [<- | []]; [left | right]; eauto.
  - intros [(d & Ho) | (k & Ho)]; eexists; (split; [eassumption|]); left; reflexivity.
Qed.

(* ---------- wantlist = keys of cid_to_queries ---------- *)
Definition wlq_ok (w : wl) (m : list (cid * list qid)) : Prop :=
  NoDup (wl_cids w) /\ NoDup (map fst m) /\
  (forall c, In c (map fst m) <-> In c (wl_cids w)) /\
  (forall c qs, In (c, qs) m -> qs <> []).

Definition INVB (s : cstate) : Prop := wlq_ok (cs_wl s) (cs_c2q s).

Lemma wlq_remove w m c :
  wlq_ok w m -> wlq_ok (fst (wl_remove w c)) (al_remove cid_eqb c m).
Proof.
  intros (Hw & Hm & Hk & Hne). unfold wl_remove. destruct (cid_mem c (wl_cids w)) eqn:M; cbn [fst].
  - repeat split; cbn [wl_cids].
    + apply cid_remove_NoDup; assumption.
    + apply al_remove_NoDup; assumption.
    + rewrite (al_remove_keys _ cid_eqb_spec), cid_remove_In. intros [H1 H2]. split; [apply Hk|]; assumption.
    + rewrite (al_remove_keys _ cid_eqb_spec), cid_remove_In. intros [H1 H2]. split; [apply Hk|]; assumption.
    + intros c' qs H. unfold al_remove in H. apply filter_In in H. eapply Hne, H.
  - apply cid_mem_false in M.
    assert (Hid : al_remove cid_eqb c m = m).
    { unfold al_remove. assert (Hall : forall e, In e m -> negb (cid_eqb c (fst e)) = true).
      { intros [k l] Hin. cbn [fst]. apply negb_true_iff, cid_eqb_neq. intros ->. apply M, Hk.
        apply (in_map fst) in Hin. exact Hin. }
      clear - Hall. induction m as [|e m IH]; cbn [filter]; [reflexivity|].
      rewrite (Hall e (or_introl eq_refl)). rewrite IH; [reflexivity|]. intros e' He'. apply Hall. right; exact He'. }
    rewrite Hid. repeat split; auto; apply Hk.
Qed.

Lemma in_al_modify {K V} (eqb : K -> K -> bool) k (f : V -> V) m k' v' :
  In (k', v') (al_modify eqb k f m) -> exists v, In (k', v) m /\ v' = if eqb k k' then f v else v.
Proof.
  unfold al_modify. rewrite in_map_iff. intros ([k0 v0] & E & Hin). cbn [fst snd] in E.
  destruct (eqb k k0) eqn:Ek; injection E as <- <-; exists v0; rewrite Ek; auto.
Qed.

Lemma wlq_push w m c q :
  wlq_ok w m -> wlq_ok (fst (wl_insert w c)) (c2q_push c q m).
Proof.
  intros (Hw & Hm & Hk & Hne). repeat split.
  - apply wl_insert_NoDup; assumption.
  - apply c2q_push_keys; assumption.
  - unfold c2q_push, wl_insert. destruct (al_mem cid_eqb c m) eqn:M.
    + rewrite al_modify_keys. intros H. pose proof (proj1 (Hk c0) H) as H'.
      apply (al_mem_In _ cid_eqb_spec), Hk, cid_mem_In in M. rewrite M. exact H'.
    + assert (Hn : cid_mem c (wl_cids w) = false).
      { apply cid_mem_false. intros H. apply Hk, (al_mem_In _ cid_eqb_spec) in H. congruence. }
      rewrite Hn. cbn [fst wl_cids]. rewrite map_app, !in_app_iff. cbn [map fst In]. rewrite Hk. tauto.
  - unfold c2q_push, wl_insert. destruct (al_mem cid_eqb c m) eqn:M.
    + rewrite al_modify_keys. intros H.
      apply (al_mem_In _ cid_eqb_spec), Hk, cid_mem_In in M. rewrite M in H. apply Hk. exact H.
    + assert (Hn : cid_mem c (wl_cids w) = false).
      { apply cid_mem_false. intros H. apply Hk, (al_mem_In _ cid_eqb_spec) in H. congruence. }
      rewrite Hn. cbn [fst wl_cids]. rewrite map_app, !in_app_iff. cbn [map fst In]. rewrite Hk. tauto.
  - intros c' qs H. unfold c2q_push in H. destruct (al_mem cid_eqb c m).
    + apply in_al_modify in H. destruct H as (v & Hin & ->). destruct (cid_eqb c c'); [destruct v; discriminate | eapply Hne, Hin].
    + apply in_app_iff in H. destruct H as [H | [[= <- <-] | []]]; [eapply Hne, H | discriminate].
Qed.

Lemma find_query_some q m c qs : find_query q m = Some (c, qs) -> In (c, qs) m /\ In q qs.
Proof.
  induction m as [|[k l] m IH]; cbn [find_query]; [discriminate|].
  destruct (n_mem q l) eqn:E.
  - intros [= -> ->]. split; [left; reflexivity | apply n_mem_In; assumption].
  - intros H. destruct (IH H). split; [right|]; assumption.
Qed.

Lemma NoDup_keys_in_eq {K V} (m : list (K * V)) k v1 v2 :
  NoDup (map fst m) -> In (k, v1) m -> In (k, v2) m -> v1 = v2.
Proof.
  induction m as [|[k0 v0] m IH]; cbn [map fst]; [intros _ []|].
  intros Hnd [H1 | H1] [H2 | H2]; inversion Hnd as [|? ? Hn Hnd']; subst.
  - congruence.
  - injection H1 as -> ->. exfalso. apply Hn. apply (in_map fst) in H2. exact H2.
  - injection H2 as -> ->. exfalso. apply Hn. apply (in_map fst) in H1. exact H1.
  - auto.
Qed.

Lemma INVB_cancel s q : INVB s -> INVB (c_cancel s q).
Proof.
  unfold INVB. intros HB. rewrite c_cancel_unfold. cbv zeta.
  destruct (cancel_abort_frame s q) as (E1 & _ & _ & E4 & _).
  destruct (find_query q (cs_c2q (cancel_abort s q))) as [[c qs]|] eqn:Ef; [|rewrite E1, E4; exact HB].
  rewrite E1 in Ef. apply find_query_some in Ef. destruct Ef as [Hin Hq].
  destruct (swap_remove_q q qs) as [|y l] eqn:Es.
  - cbn [set_wl set_c2q cs_wl cs_c2q]. rewrite E1, E4. apply wlq_remove. exact HB.
  - cbn [set_c2q cs_wl cs_c2q]. rewrite E1, E4. destruct HB as (Hw & Hm & Hk & Hne).
    repeat split; auto; rewrite ?al_modify_keys; try apply Hk; auto.
    intros c' qs' H. apply in_al_modify in H. destruct H as (v & Hv & ->).
    cid_cases c c'; [|eapply Hne, Hv].
    rewrite (NoDup_keys_in_eq _ _ _ _ Hm Hv Hin), Es. discriminate.
Qed.

Lemma inc_block_wlq a b : wlq_ok (ia_wl a) (ia_c2q a) -> wlq_ok (ia_wl (inc_block a b)) (ia_c2q (inc_block a b)).
Proof.
  intros H. unfold inc_block. destruct (ia_panic a); [exact H|]. destruct b as [c data].
  pose proof (wlq_remove _ _ c H) as Hr. destruct (wl_remove (ia_wl a) c) as [w' removed]. cbn [fst] in Hr.
  destruct removed; cbn [negb]; [exact Hr|]. destruct (al_mem cid_eqb c (ia_c2q a)); exact H.
Qed.

Lemma inc_blocks_wlq blocks : forall a,
  wlq_ok (ia_wl a) (ia_c2q a) -> wlq_ok (ia_wl (fold_left inc_block blocks a)) (ia_c2q (fold_left inc_block blocks a)).
Proof. induction blocks as [|b bl IH]; intros a H; cbn [fold_left]; [exact H | apply IH, inc_block_wlq, H]. Qed.

Lemma INVB_incoming s p pres blocks : INVB s -> INVB (fst (c_incoming s p pres blocks)).
Proof.
  unfold INVB. intros HB. unfold c_incoming. destruct (al_find N.eqb p (cs_peers s)) as [ps|]; [|exact HB].
  set (a0 := MkInc (cs_wl s) (fold_left apply_presence pres (p_wl ps)) (cs_c2q s) (cs_queue s) [] false).
  pose proof (inc_blocks_wlq blocks a0 HB) as H. fold a0.
  destruct (ia_panic (fold_left inc_block blocks a0)); [exact H|].
  destruct (ia_new (fold_left inc_block blocks a0)); exact H.
Qed.

Lemma INVB_handle_result s r : INVB s -> INVB (fst (handle_task_result s r)).
Proof.
  unfold INVB. intros HB. destruct r as [q c res|ok bl|]; cbn [handle_task_result].
  - destruct res; cbn [fst]; try exact HB.
    pose proof (wlq_push _ _ c q HB) as Hp. cbn [set_abort cs_wl].
    destruct (wl_insert (cs_wl s) c) as [w' ins]. cbn [fst] in Hp. destruct ins; exact Hp.
  - destruct ok; exact HB.
  - exact HB.
Qed.

Lemma INVB_poll_iter ch s : INVB s -> INVB (fst (fst (poll_iter ch s))).
Proof.
  intros HB.
  destruct (poll_iter_cases ch s) as [(ev & q & Hq & ->) | [(Hq & Ht & ->) | [(r & Hq & Ht & Hr & ->) | (Hq & Ht & Hr & ->)]]];
    cbn [fst snd]; try exact HB.
  - apply INVB_handle_result. unfold INVB. destruct (after_tasks_frame s) as (_ & -> & _ & -> & _). exact HB.
  - unfold INVB. destruct (update_handlers_frame (after_tasks s) ch) as (_ & -> & _ & -> & _).
    destruct (after_tasks_frame s) as (_ & -> & _ & -> & _). exact HB.
Qed.

Lemma INVB_step s o : INVB s -> INVB (fst (cstep s o)).
Proof.
  intros HB. destruct o; cbn [cstep fst].
  - unfold c_new_conn. destruct (al_mem N.eqb p (cs_peers s)); exact HB.
  - unfold c_conn_closed. destruct (al_find N.eqb p (cs_peers s)); [destruct (p_conns (remove_conn c p0))|]; exact HB.
  - unfold c_get. destruct c; exact HB.
  - apply INVB_cancel, HB.
  - apply INVB_incoming, HB.
  - exact HB.
  - unfold c_release. destruct (find (call_is call) (cs_tasks s)) as [[tid t]|]; exact HB.
  - exact HB.
  - unfold c_poll. apply poll_loop_inv; [apply INVB_poll_iter | exact HB].
  - exact HB.
Qed.

Lemma INVB_init sdh : INVB (cinit sdh).
Proof. unfold INVB, wlq_ok; cbn. repeat split; try constructor; try tauto. Qed.

Lemma INVB_run sdh ops : INVB (snd (crun_sdh sdh ops)).
Proof. unfold crun_sdh. apply crun_inv; [apply INVB_step | apply INVB_init]. Qed.

(* ---------- C08 (client part): the debug_assert of process_incoming_message is unreachable ---------- *)
Lemma inc_block_no_panic a b :
  wlq_ok (ia_wl a) (ia_c2q a) -> ia_panic a = false -> ia_panic (inc_block a b) = false.
Proof.
  intros (Hw & Hm & Hk & Hne) Hp. unfold inc_block. rewrite Hp. destruct b as [c data].
  unfold wl_remove. destruct (cid_mem c (wl_cids (ia_wl a))) eqn:M; cbn [negb]; [reflexivity|].
  destruct (al_mem cid_eqb c (ia_c2q a)) eqn:M2; [|exact Hp].
  apply (al_mem_In _ cid_eqb_spec), Hk, cid_mem_In in M2. congruence.
Qed.

Lemma inc_blocks_no_panic blocks : forall a,
  wlq_ok (ia_wl a) (ia_c2q a) -> ia_panic a = false -> ia_panic (fold_left inc_block blocks a) = false.
Proof.
  induction blocks as [|b bl IH]; intros a H Hp; cbn [fold_left]; [exact Hp|].
  apply IH; [apply inc_block_wlq, H | apply inc_block_no_panic; assumption].
Qed.

Definition poll_out (o : cout) : Prop :=
  match o with
  | OResponse _ _ | OError _ _ | OSendWantlist _ _ _ _ | OGet _ _ | OPut _ _ | OBadChoice | OOutOfFuel => True
  | OQuery _ | ONewBlocks _ | OPanic => False
  end.

Lemma poll_task_start_out nc t o : poll_task nc t = TpStart o -> Forall poll_out o.
Proof.
  unfold poll_task. destruct (t_kind t) as [q0 c0|bl].
  - destruct (t_aborted t); [discriminate|]. destruct (t_call t); [destruct (t_result t); discriminate|].
    intros [= <-]. repeat constructor.
  - destruct (t_call t); [destruct (t_result t) as [[]|]; discriminate|]. intros [= <-]. repeat constructor.
Qed.

Lemma tasks_outs_poll_out s : Forall poll_out (tasks_outs s).
Proof.
  unfold tasks_outs.
  pose proof (poll_next_ind (fun _ _ _ _ _ _ outs _ => Forall poll_out outs)) as H.
  specialize (H (fun _ _ => Forall_nil _)).
  specialize (H (fun _ _ _ _ _ _ _ _ _ _ h => h)).
  specialize (H (fun _ _ _ _ _ _ _ _ => Forall_nil _)).
  assert (Hs : forall (tid : N) (rq : list N) (ts : list (N * task)) (nc : N) (t : task) (o : list cout)
                      (ts' : list (N * task)) (rq' : list N) (nc' : N) (outs : list cout) (res : option task_result),
             al_find N.eqb tid ts = Some t -> poll_task nc t = TpStart o ->
             Forall poll_out outs -> Forall poll_out (o ++ outs)).
  { intros. apply Forall_app. split; [eapply poll_task_start_out; eassumption | assumption]. }
  specialize (H Hs (cs_ready s) (cs_tasks s) (cs_next_call s)).
  destruct (poll_next (cs_ready s) (cs_tasks s) (cs_next_call s)) as [[[[ts rq] nc] outs] res]. exact H.
Qed.

Lemma handle_result_poll_out s r : Forall poll_out (snd (handle_task_result s r)).
Proof.
  destruct r as [q c res|ok bl|]; cbn [handle_task_result].
  - destruct res; cbn [snd]; repeat constructor.
    destruct (wl_insert (cs_wl (set_abort s (al_remove N.eqb q (cs_abort s)))) c) as [w' ins]. destruct ins; constructor.
  - destruct ok; constructor.
  - constructor.
Qed.

Lemma uh_loop_poll_out now w ch l :
  let '(_, _, outs) := uh_loop now w ch l in Forall poll_out outs.
Proof.
  induction l as [|[p ps] l IH]; cbn [uh_loop]; [constructor|].
  assert (H1 : let '(_, _, outs, _) := uh_peer now w ch p ps in Forall poll_out outs).
  { unfold uh_peer. destruct (uh_gate now ps) as [ps1|]; [|constructor].
    destruct (p_conns ps1) as [|c0 cs]; [constructor|].
    destruct (if p_send_full ps1 then wls_generate_full (p_wl ps1) w else wls_generate_update (p_wl ps1) w) as [es wls'].
    destruct (negb (p_send_full ps1) && match es with [] => true | _ => false end); [constructor|].
    unfold pick_conn. destruct (al_find N.eqb p ch) as [c|]; [destruct (n_mem c (c0 :: cs))|]; repeat constructor. }
  destruct (uh_peer now w ch p ps) as [[[ps' evs] outs] dead].
  destruct (uh_loop now w ch l) as [[l'' evs'] outs']. apply Forall_app. split; assumption.
Qed.

Lemma poll_iter_poll_out ch s : Forall poll_out (snd (fst (poll_iter ch s))).
Proof.
  destruct (poll_iter_cases ch s) as [(ev & q & Hq & ->) | [(Hq & Ht & ->) | [(r & Hq & Ht & Hr & ->) | (Hq & Ht & Hr & ->)]]];
    cbn [fst snd].
  - constructor; [destruct ev; exact I | constructor].
  - constructor.
  - apply Forall_app. split; [apply tasks_outs_poll_out | apply handle_result_poll_out].
  - apply Forall_app. split; [apply tasks_outs_poll_out|].
    unfold update_handlers. pose proof (uh_loop_poll_out (cs_now (after_tasks s)) (cs_wl (after_tasks s)) ch (cs_peers (after_tasks s))) as H.
    destruct (uh_loop (cs_now (after_tasks s)) (cs_wl (after_tasks s)) ch (cs_peers (after_tasks s))) as [[peers' evs] outs]. exact H.
Qed.

Lemma c_poll_poll_out s ch : Forall poll_out (snd (c_poll s ch)).
Proof.
  unfold c_poll. apply (poll_loop_rel (fun _ outs _ => Forall poll_out outs)).
  - intros. apply Forall_app. split; assumption.
  - intros. repeat constructor.
  - intros. apply poll_iter_poll_out.
Qed.

Lemma cstep_no_panic s o : INVB s -> ~ In OPanic (snd (cstep s o)).
Proof.
  intros HB. destruct o; cbn [cstep snd]; try (intros []; fail).
  - unfold c_get. destruct c; cbn; intros [H | []]; discriminate.
  - unfold c_incoming. destruct (al_find N.eqb p (cs_peers s)) as [ps|]; [|intros []].
    set (a0 := MkInc (cs_wl s) (fold_left apply_presence pres (p_wl ps)) (cs_c2q s) (cs_queue s) [] false).
    rewrite (inc_blocks_no_panic blocks a0 HB eq_refl).
    destruct (ia_new (fold_left inc_block blocks a0)); intros [].
  - intros H. pose proof (c_poll_poll_out s choice) as Hf. rewrite Forall_forall in Hf. apply (Hf _ H).
  - cbn. intros [H | []]; discriminate.
Qed.

(* no op list makes the client model panic *)
Theorem C08_client_no_panic sdh ops : ~ In OPanic (all_outs (fst (crun_sdh sdh ops))).
Proof.
  unfold crun_sdh.
  assert (H : INVB (cinit sdh) -> INVB (snd (crun_from (cinit sdh) ops)) /\ ~ In OPanic (all_outs (fst (crun_from (cinit sdh) ops)))).
  { apply (crun_rel (fun s outs s' => INVB s -> INVB s' /\ ~ In OPanic outs)).
    - intros s HB. split; [exact HB | intros []].
    - intros s o1 s1 o2 s2 H1 H2 HB. destruct (H1 HB) as [HB1 N1]. destruct (H2 HB1) as [HB2 N2].
      split; [exact HB2|]. rewrite in_app_iff. tauto.
    - intros s o HB. split; [apply INVB_step, HB | apply cstep_no_panic, HB]. }
  apply H, INVB_init.
Qed.

(* ---------- histories ---------- *)
Definition st_after (sdh : bool) (ops : list cop) : cstate := snd (crun_sdh sdh ops).
Definition outs_after (sdh : bool) (ops : list cop) : list cout := all_outs (fst (crun_sdh sdh ops)).

Lemma st_after_snoc sdh ops o : st_after sdh (ops ++ [o]) = fst (cstep (st_after sdh ops) o).
Proof.
  unfold st_after, crun_sdh. rewrite crun_from_app. cbn [snd]. rewrite crun_from_cons. reflexivity.
Qed.

Lemma outs_after_snoc sdh ops o :
  outs_after sdh (ops ++ [o]) = outs_after sdh ops ++ snd (cstep (st_after sdh ops) o).
Proof.
  unfold outs_after, st_after, crun_sdh, all_outs. rewrite crun_from_app. cbn [fst]. rewrite concat_app.
  rewrite crun_from_cons. cbn [fst crun_from concat]. rewrite app_nil_r. reflexivity.
Qed.

Lemma st_after_nil sdh : st_after sdh [] = cinit sdh.
Proof. reflexivity. Qed.

Lemma outs_after_nil sdh : outs_after sdh [] = [].
Proof. reflexivity. Qed.

Lemma poll_loop_acc (I : list cout -> cstate -> Prop) :
  (forall ch s acc, I acc s -> I (acc ++ snd (fst (poll_iter ch s))) (fst (fst (poll_iter ch s)))) ->
  (forall s acc, I acc s -> I (acc ++ [OOutOfFuel]) s) ->
  forall fuel ch s acc, I acc s -> I (acc ++ snd (poll_loop fuel ch s)) (fst (poll_loop fuel ch s)).
Proof.
  intros Hiter Hfuel fuel ch s.
  apply (poll_loop_rel (fun s o s' => forall acc, I acc s -> I (acc ++ o) s')).
  - intros s0 o1 s1 o2 s2 H1 H2 acc HI. rewrite app_assoc. apply H2, H1, HI.
  - intros s0 acc HI. apply Hfuel, HI.
  - intros ch0 s0 acc HI. apply Hiter, HI.
Qed.

(* the CID argument of the q-th get *)
Fixpoint get_args (ops : list cop) : list (option cid) :=
  match ops with
  | [] => []
  | CGet oc :: ops' => oc :: get_args ops'
  | _ :: ops' => get_args ops'
  end.

Definition qcid (ops : list cop) (q : qid) : option cid :=
  match nth_error (get_args ops) (N.to_nat q) with Some (Some c) => Some c | _ => None end.

Lemma get_args_app a b : get_args (a ++ b) = get_args a ++ get_args b.
Proof. induction a as [|o a IH]; cbn [app get_args]; [reflexivity|]. destruct o; rewrite ?IH; reflexivity. Qed.

Lemma get_args_length ops : N.of_nat (length (get_args ops)) = count_gets ops.
Proof. induction ops as [|o ops IH]; cbn [get_args count_gets]; [reflexivity|]. destruct o; cbn [length]; lia. Qed.

Lemma qcid_mono ops o q c : qcid ops q = Some c -> qcid (ops ++ [o]) q = Some c.
Proof.
  unfold qcid. rewrite get_args_app. intros H.
  destruct (nth_error (get_args ops) (N.to_nat q)) as [[c'|]|] eqn:E; try discriminate.
  rewrite nth_error_app1 by (apply nth_error_Some; congruence). rewrite E. exact H.
Qed.

Lemma qcid_new ops c : qcid (ops ++ [CGet (Some c)]) (count_gets ops) = Some c.
Proof.
  unfold qcid. rewrite get_args_app. cbn [get_args]. rewrite <- get_args_length, Nat2N.id.
  rewrite nth_error_app2 by lia. rewrite Nat.sub_diag. reflexivity.
Qed.

Lemma st_after_next_qid sdh ops : cs_next_qid (st_after sdh ops) = count_gets ops.
Proof. unfold st_after, crun_sdh. rewrite crun_next_qid. reflexivity. Qed.

(* ---------- what poll_next does to the task set ---------- *)
Definition same_task (t t' : task) : Prop :=
  t_kind t' = t_kind t /\ t_result t' = t_result t /\ t_aborted t' = t_aborted t.

Lemma same_task_refl t : same_task t t.
Proof. repeat split; auto. Qed.

Lemma same_task_trans a b c : same_task a b -> same_task b c -> same_task a c.
Proof. intros (K1 & R1 & A1) (K2 & R2 & A2). repeat split; congruence. Qed.

Definition tasks_from (ts ts' : list (N * task)) : Prop :=
  forall tid t', In (tid, t') ts' -> exists t, In (tid, t) ts /\ same_task t t'.

Lemma tasks_from_refl ts : tasks_from ts ts.
Proof. intros tid t H. exists t. split; [assumption | apply same_task_refl]. Qed.

Lemma tasks_from_trans a b c : tasks_from a b -> tasks_from b c -> tasks_from a c.
Proof.
  intros H1 H2 tid t Hin. destruct (H2 _ _ Hin) as (t1 & Hin1 & S1). destruct (H1 _ _ Hin1) as (t0 & Hin0 & S0).
  exists t0. split; [assumption | eapply same_task_trans; eassumption].
Qed.

Lemma tasks_from_remove tid ts : tasks_from ts (al_remove N.eqb tid ts).
Proof. intros k t H. unfold al_remove in H. apply filter_In in H. exists t. split; [apply H | apply same_task_refl]. Qed.

Lemma tasks_from_start tid nc ts : tasks_from ts (al_modify N.eqb tid (start_task nc) ts).
Proof.
  intros k t' H. apply in_al_modify in H. destruct H as (t & Hin & ->). exists t. split; [assumption|].
  destruct (tid =? k); [|apply same_task_refl]. unfold start_task, same_task. cbn. repeat split; auto.
Qed.

(* what a result says about the task it came from *)
Definition result_of (t : task) (r : task_result) : Prop :=
  match r with
  | TrGet q c res => t_kind t = TGet q c /\ t_result t = Some res /\ t_aborted t = false
  | TrSet ok bl => t_kind t = TPut bl /\ exists res, t_result t = Some res /\ (ok = false <-> res = SFail)
  | TrCancelled => t_aborted t = true /\ exists q c, t_kind t = TGet q c
  end.

Lemma poll_task_ready nc t r : poll_task nc t = TpReady r -> result_of t r /\ (r <> TrCancelled -> t_call t <> None).
Proof.
  unfold poll_task. destruct (t_kind t) as [q c|bl] eqn:Ek.
  - destruct (t_aborted t) eqn:Ea; [intros [= <-]; split; [split; eauto | congruence]|].
    destruct (t_call t) eqn:Ec; [|discriminate]. destruct (t_result t) eqn:Er; [|discriminate].
    intros [= <-]. split; [repeat split; auto | discriminate].
  - destruct (t_call t) eqn:Ec; [|discriminate]. destruct (t_result t) as [res|] eqn:Er; [|discriminate].
    destruct res; intros [= <-]; (split; [split; [first [reflexivity | exact Ek]|]; eexists; split; [first [reflexivity | exact Er]|]; split; congruence | discriminate]).
Qed.

Lemma poll_next_tasks rq ts nc :
  let '(ts', rq', nc', outs, res) := poll_next rq ts nc in
  tasks_from ts ts' /\
  match res with
  | Some r => exists tid t t0, In (tid, t0) ts /\ same_task t0 t /\ result_of t r
  | None => True
  end.
Proof.
  apply (poll_next_ind (fun rq ts nc ts' rq' nc' outs res =>
    tasks_from ts ts' /\
    match res with
    | Some r => exists tid t t0, In (tid, t0) ts /\ same_task t0 t /\ result_of t r
    | None => True
    end)).
  - intros. split; [apply tasks_from_refl | exact I].
  - intros tid rq0 ts0 nc0 ts' rq' nc' outs res _ H. exact H.
  - intros tid rq0 ts0 nc0 t r Hf Hp. split; [apply tasks_from_remove|].
    exists tid, t, t. split; [apply (al_find_some_in _ Neqb_spec); exact Hf|].
    split; [apply same_task_refl | apply (poll_task_ready _ _ _ Hp)].
  - intros tid rq0 ts0 nc0 t o ts' rq' nc' outs res Hf Hp [H1 H2]. split.
    + eapply tasks_from_trans; [apply tasks_from_start | exact H1].
    + destruct res as [r|]; [|exact I]. destruct H2 as (tid' & t' & t0 & Hin & Hs & Hr).
      destruct (tasks_from_start tid nc0 ts0 _ _ Hin) as (t00 & Hin0 & Hs0).
      exists tid', t', t00. split; [assumption|]. split; [eapply same_task_trans; eassumption | assumption].
Qed.

Lemma after_tasks_tasks s :
  tasks_from (cs_tasks s) (cs_tasks (after_tasks s)) /\
  match tasks_res s with
  | Some r => exists tid t t0, In (tid, t0) (cs_tasks s) /\ same_task t0 t /\ result_of t r
  | None => True
  end.
Proof.
  unfold after_tasks, tasks_res. pose proof (poll_next_tasks (cs_ready s) (cs_tasks s) (cs_next_call s)) as H.
  destruct (poll_next (cs_ready s) (cs_tasks s) (cs_next_call s)) as [[[[ts rq] nc] outs] res]. exact H.
Qed.

Lemma handle_result_frame s r :
  let s' := fst (handle_task_result s r) in
  cs_tasks s' = cs_tasks s /\ cs_queue s' = cs_queue s /\ cs_ready s' = cs_ready s /\ cs_now s' = cs_now s /\
  cs_deadline s' = cs_deadline s /\ cs_next_task s' = cs_next_task s /\ cs_next_call s' = cs_next_call s.
Proof.
  destruct r as [q c res|ok bl|]; cbn [handle_task_result].
  - destruct res; cbn [fst]; try (repeat split; reflexivity).
    destruct (wl_insert (cs_wl (set_abort s (al_remove N.eqb q (cs_abort s)))) c) as [w' ins]. destruct ins; repeat split; reflexivity.
  - destruct ok; repeat split; reflexivity.
  - repeat split; reflexivity.
Qed.
