(* NetF.v — package P: Net.v extended with TRANSMISSION FAULTS of the client handler.  Definitions only; the theorems are in
   NetF_proofs*.v / NetF_props.v.

   Net.v delivers every wantlist that was handed to a connection and reports `Ready` (or drops it with the connection).
   Here the handler may also FAIL a wantlist:

   * `FFailW i j delivered` : the oldest wantlist in flight from i to j (the one `do_deliver_w` would take) leaves the wire.
       If `delivered`, j processes it first, exactly as `do_deliver_w` does (the bytes arrived; the flush / close
       acknowledgement was lost).  Then i's client hears `SendingStateChanged(Failed(CONN))` instead of `Ready`
       (handler.rs: flush error, stream reset, SENDING timeout, a stream that was never allocated — all end in the Failed
       report, Props_C05 `C05_handler_reports`).  No wantlist in flight from i to j: no-op (the handler has nothing to fail).
       What the client does with the report is client.rs `sending_state_changed` = Client.v `c_report`: the peer's
       `sending_state` becomes `Failed(CONN)`; the NEXT `update_handlers` (the next `NPoll i`) removes CONN from the peer's
       `established_connections`, sets `send_full`, and — CONN being the only connection of the pair in Net.v — drops the
       whole peer entry (`peers_without_connection`).  `conns` still holds the pair: libp2p's handler closed a stream, not
       the connection.
   * `FReconnect i j` : the connection is closed and established again (`do_disconnect` then `do_connect`), the way a
       deployment recovers; a convenient composite of two base steps.
   * `FOp o` : a step of Net.v, `fstep s (FOp o)` is `nstep s o` by conversion.

   Ghost history for C14 (`fstep_h`, `frun_h`): every wantlist that ENTERS `wire_w` and the FATE of every wantlist that LEAVES
   it, computed beside the run from the states alone (the run itself is `frun`, see NetF_proofs `frun_h_run`). *)
From BS Require Export Net.
Open Scope N_scope.

Inductive fop :=
| FOp (o : nop)
| FFailW (i j : N) (delivered : bool)
| FReconnect (i j : N).

(* what became of a wantlist that left the wire *)
Inductive fate :=
| FtReady (m : wmsg)          (* processed whole by the receiver, the sender's client heard Ready *)
| FtFailedWhole (m : wmsg)    (* processed whole by the receiver, the sender's client heard Failed *)
| FtFailedNone (m : wmsg)     (* not processed at all, the sender's client heard Failed *)
| FtDropped (m : wmsg)        (* dropped with its connection (NDisconnect / FReconnect): nobody heard anything *)
| FtVoid (m : wmsg).          (* an end point does not exist (never in a reachable net): the message evaporates *)

Definition fate_msg (f : fate) : wmsg :=
  match f with FtReady m | FtFailedWhole m | FtFailedNone m | FtDropped m | FtVoid m => m end.

Record hist := MkHist { h_entered : list wmsg; h_fates : list fate }.
Definition hist_nil : hist := MkHist [] [].
Definition hist_app (a b : hist) : hist := MkHist (h_entered a ++ h_entered b) (h_fates a ++ h_fates b).

Section WithParams.
  Variable Sz : N.
  Variable Hh : hash_fn.

  (* ---------- FFailW i j delivered ---------- *)
  Definition do_fail_w (s : net) (i j : N) (delivered : bool) : net * list nevent :=
    match take_first (w_between i j) (wire_w s) with
    | None => (s, [])
    | Some (m, rest) =>
        let s0 := MkNet (nodes s) (conns s) rest (wire_b s) (now s) in
        match get_node s0 i, get_node s0 j with
        | Some ni, Some nj =>
            if delivered then
              let sdh := wl_sdh (cs_wl (n_client ni)) in
              let (nj1, evs) := node_incoming Sz Hh nj i (wantlist_message sdh (wm_full m) (wm_entries m)) in
              let s1 := set_node s0 j nj1 in
              (* the bytes arrived, the sender's handler failed afterwards *)
              (on_node s1 i (fun n => node_report n j CONN (RpFailed CONN)), map (ev_of j) evs)
            else
              (on_node s0 i (fun n => node_report n j CONN (RpFailed CONN)), [])
        | _, _ => (s0, [])
        end
    end.

  Definition do_reconnect (s : net) (i j : N) : net := do_connect Sz (do_disconnect Sz s i j) i j.

  Definition fstep (s : net) (o : fop) : net * list nevent :=
    match o with
    | FOp o => nstep Sz Hh s o
    | FFailW i j d => do_fail_w s i j d
    | FReconnect i j => (do_reconnect s i j, [])
    end.

  Fixpoint frun (s : net) (ops : list fop) : net * list nevent :=
    match ops with
    | [] => (s, [])
    | o :: ops' =>
        let (s1, e1) := fstep s o in
        let (s2, e2) := frun s1 ops' in (s2, e1 ++ e2)
    end.

  (* ---------- runs whose every fault is followed AT ONCE by the close of its connection ---------- *)
  (* the fault-free run such a run is equal to (NetF_proofs2 `episodic_run`); None = the run is not of that shape *)
  Definition closes (i j : N) (o : fop) : bool :=
    match o with
    | FReconnect a b | FOp (NDisconnect a b) => (a =? i) && (b =? j)
    | _ => false
    end.

  (* the step closes the connection between i and j (named in either order) *)
  Definition closes_pair (i j : N) (o : fop) : bool := closes i j o || closes j i o.

  Fixpoint erase (ops : list fop) : option (list nop) :=
    match ops with
    | [] => Some []
    | FOp o :: r => option_map (cons o) (erase r)
    | FReconnect i j :: r => option_map (fun l => NDisconnect i j :: NConnect i j :: l) (erase r)
    | FFailW i j d :: r =>
        match r with
        | x :: _ => if closes i j x then option_map (app (if d then [NDeliverW i j] else [])) (erase r) else None
        | [] => None
        end
    end.

  (* ---------- the ghost history ---------- *)
  Definition ends_exist (s : net) (i j : N) : bool :=
    match get_node s i, get_node s j with Some _, Some _ => true | _, _ => false end.

  (* does `do_disconnect s i j` do anything *)
  Definition disconnects (s : net) (i j : N) : bool := ends_exist s i j && connected s i j.

  Definition hist_of (s : net) (o : fop) : hist :=
    match o with
    | FOp (NPoll i) => MkHist (skipn (length (wire_w s)) (wire_w (fst (nstep Sz Hh s (NPoll i))))) []
    | FOp (NDeliverW i j) =>
        match take_first (w_between i j) (wire_w s) with
        | Some (m, _) => MkHist [] [if ends_exist s i j then FtReady m else FtVoid m]
        | None => hist_nil
        end
    | FFailW i j d =>
        match take_first (w_between i j) (wire_w s) with
        | Some (m, _) =>
            MkHist [] [if ends_exist s i j then (if d then FtFailedWhole m else FtFailedNone m) else FtVoid m]
        | None => hist_nil
        end
    | FOp (NDisconnect i j) | FReconnect i j =>
        if disconnects s i j then MkHist [] (map FtDropped (filter (w_touches i j) (wire_w s))) else hist_nil
    | FOp _ => hist_nil
    end.

  Fixpoint frun_h (s : net) (ops : list fop) : net * list nevent * hist :=
    match ops with
    | [] => (s, [], hist_nil)
    | o :: ops' =>
        let (s1, e1) := fstep s o in
        let '(s2, e2, h2) := frun_h s1 ops' in (s2, e1 ++ e2, hist_app (hist_of s o) h2)
    end.

  (* ---------- observations used by the statements ---------- *)
  (* i's client has a peer entry for j *)
  Definition tracks (s : net) (i j : N) : bool :=
    match get_node s i with
    | Some n => existsb (fun e => fst e =? j) (cs_peers (n_client n))
    | None => false
    end.

  (* i's client's peer entry for j *)
  Definition peer_of (s : net) (i j : N) : option peer_state :=
    match get_node s i with
    | Some n => al_find N.eqb j (cs_peers (n_client n))
    | None => None
    end.

  (* the wantlists in flight from i to j *)
  Definition inflight (s : net) (i j : N) : list wmsg := filter (w_between i j) (wire_w s).

  (* the sending state i's client records for j *)
  Definition ss_of (s : net) (i j : N) : option sending_state :=
    match get_node s i with
    | Some n => option_map p_ss (al_find N.eqb j (cs_peers (n_client n)))
    | None => None
    end.
End WithParams.
