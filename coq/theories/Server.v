(* Server.v — executable model of /repo/src/server.rs (ServerBehaviour) as driven by /repo/src/lib.rs.

   Modelled items (server.rs line numbers of the tree at commit 93f60f4):
     MAX_WANTLIST_ENTRIES_PER_PEER :35           PeerWantlist::process_wantlist :77-128
     PeerWantlist::wantlist_replace :130-140     schedule_store_get :162-169
     cancel_request :171-183                     process_incoming_message :185-223
     new_blocks_available :225-227               new_connection_handler :229-237
     on_peer_disconnected :240-249               update_handlers :251-295
     process_store_get_results :297-315          poll :317-336
     get_multiple_cids_from_store :470-482

   Representation.
   * `FnvHashMap<PeerId, PeerWantlist>`        -> association list  peer -> list cid   (`s_wants`)
   * `FnvHashMap<Cid, SmallVec<[Arc<PeerId>;1]>>` -> association list  cid -> list peer (`s_waiting`)
     The order of the *entries* of the two association lists and the order of the CIDs inside one
     want set carry no meaning (hash order in the Rust): compare them as sorted (multi)sets.  The order
     of the peers inside one waiter list is the SmallVec order (push / swap_remove) and is exact.
   * `FuturesUnordered` -> `s_ready` (its FIFO ready-to-run queue: tasks pushed or woken and not yet
     polled) and `s_blocked` (tasks parked on an outstanding `store.get`, keyed by the call number).
     `tasks.len()` = length s_ready + length s_blocked.
   * `outgoing_event_queue` is always empty between two ops (SPoll drains it), so it is not a field:
     the events are emitted directly, see `do_poll`.

   Everything is first computed with *labelled* outputs `lout` (a block is `(cid, data)`); the
   observable outputs `sout` are obtained by `erase`, which turns the CID into
   `CidPrefix::from_cid(&cid).to_bytes()`.  The ghost specification `sview` at the end of the file is
   defined from the labelled history only. *)
From BS Require Export Bytes Cid Prefix Proto Types.
Open Scope N_scope.

(* ------------------------------------------------------------------------------------------- *)
(* association lists: lookup = first match, set = replace first match or append, del = all       *)
Section Assoc.
  Context {K V : Type} (eqb : K -> K -> bool).

  Fixpoint alookup (k : K) (m : list (K * V)) : option V :=
    match m with
    | [] => None
    | (k', v) :: m' => if eqb k k' then Some v else alookup k m'
    end.

  Fixpoint aset (k : K) (v : V) (m : list (K * V)) : list (K * V) :=
    match m with
    | [] => [(k, v)]
    | (k', v') :: m' => if eqb k k' then (k', v) :: m' else (k', v') :: aset k v m'
    end.

  Definition adel (k : K) (m : list (K * V)) : list (K * V) :=
    filter (fun kv => negb (eqb k (fst kv))) m.
End Assoc.

(* sets of CIDs: duplicate-free lists, insertion order (the order is not observable) *)
Definition cmem (c : cid) (s : list cid) : bool := existsb (cid_eqb c) s.
Definition cadd (c : cid) (s : list cid) : list cid := if cmem c s then s else s ++ [c].
Definition cremove (c : cid) (s : list cid) : list cid := filter (fun x => negb (cid_eqb c x)) s.
Definition cset_of_list (l : list cid) : list cid := fold_left (fun s c => cadd c s) l [].

(* ------------------------------------------------------------------------------------------- *)
(* operations and outputs                                                                        *)
Inductive sop :=
| SNewConn (p : peer)                                 (* new_connection_handler *)
| SMsg (p : peer) (w : wantlist) (order : list cid)   (* process_incoming_message; `order` = iteration
                                                         order of the new want set the implementation
                                                         used for the lookups of a *full* wantlist
                                                         (ignored for an update) *)
| SNewBlocks (bl : list (cid * bytes))                (* new_blocks_available *)
| SDisconnected (p : peer)                            (* on_peer_disconnected *)
| SRelease (call : N) (r : store_result)              (* environment completes store.get call `call` *)
| SPoll.                                              (* poll() repeatedly until Pending *)

Inductive sout :=
| OGet (call : N) (c : cid)                           (* store.get(c) started; numbered 0,1,2,… *)
| OSend (p : peer) (blocks : list (bytes * bytes)).   (* NotifyHandler::Any QueueOutgoingMessages *)

(* labelled outputs: blocks still carry their CID *)
Inductive lout :=
| LGet (call : N) (c : cid)
| LSend (p : peer) (blocks : list (cid * bytes)).

Definition erase_block (b : cid * bytes) : bytes * bytes :=
  (prefix_to_bytes (prefix_of_cid (fst b)), snd b).

Definition erase (o : lout) : sout :=
  match o with
  | LGet k c => OGet k c
  | LSend p bl => OSend p (map erase_block bl)
  end.

(* ------------------------------------------------------------------------------------------- *)
(* state                                                                                         *)

(* one `get_multiple_cids_from_store` future: results so far (in order), CIDs still to fetch *)
Record task := MkTask {
  t_peer : peer;
  t_done : list (cid * store_result);
  t_todo : list cid
}.

Record sstate := MkS {
  s_wants : list (peer * list cid);          (* peers_wantlists *)
  s_waiting : list (cid * list peer);        (* peers_waiting_for_cid *)
  s_outq : list (cid * bytes);               (* outgoing_queue *)
  s_ready : list task;                       (* tasks: ready-to-run queue, FIFO *)
  s_blocked : list (N * (cid * task));       (* tasks: call number -> (cid being fetched, rest of task) *)
  s_next_call : N;                           (* number of store.get calls started so far *)
  s_panic : bool;                            (* a Rust panic happened (only possible when S < 32) *)
  s_bad_order : bool                         (* some `order` input was not a permutation *)
}.

Definition sinit : sstate := MkS [] [] [] [] [] 0 false false.

Definition tasks_len (st : sstate) : N := len (s_ready st) + len (s_blocked st).

(* ------------------------------------------------------------------------------------------- *)
(* PeerWantlist::process_wantlist                                                                *)

(* full wantlist (server.rs:80-94):
     let mut wanted_cids = FnvHashSet::default();
     for e in entries { if wanted_cids.len() >= MAX { break }  if e.cancel { continue }
                        if let Ok(cid) = CidGeneric::try_from(e.block) { wanted_cids.insert(cid); } }
   The length test comes first: once the set holds MAX distinct CIDs no further entry is parsed; a
   cancel entry is skipped before parsing.  None = the parse panicked. *)
Fixpoint full_collect (S : N) (es : list entry) (acc : list cid) : option (list cid) :=
  match es with
  | [] => Some acc
  | e :: es' =>
      if MAX_WANTLIST_ENTRIES_PER_PEER <=? len acc then Some acc
      else if e_cancel e then full_collect S es' acc
      else match cid_read_bytes S (e_block e) with
           | ROk c => full_collect S es' (cadd c acc)
           | RErr => full_collect S es' acc
           | RPanic => None
           end
  end.

(* update: entries.filter_map(parsable -> (cancel, cid)); every entry is parsed *)
Fixpoint upd_parse (S : N) (es : list entry) : option (list (bool * cid)) :=
  match es with
  | [] => Some []
  | e :: es' =>
      match cid_read_bytes S (e_block e) with
      | ROk c => option_map (cons (e_cancel e, c)) (upd_parse S es')
      | RErr => upd_parse S es'
      | RPanic => None
      end
  end.

(* for cid in cancels { if set.remove(cid) { removed.push(cid) } } *)
Fixpoint upd_cancel (cancels s removed : list cid) : list cid * list cid :=
  match cancels with
  | [] => (s, removed)
  | c :: r => if cmem c s then upd_cancel r (cremove c s) (removed ++ [c])
              else upd_cancel r s removed
  end.

(* for cid in additions { if set.len() >= MAX { break }  if set.insert(cid) { added.push(cid) } } *)
Fixpoint upd_add (adds s added : list cid) : list cid * list cid :=
  match adds with
  | [] => (s, added)
  | c :: r => if MAX_WANTLIST_ENTRIES_PER_PEER <=? len s then (s, added)
              else if cmem c s then upd_add r s added
              else upd_add r (s ++ [c]) (added ++ [c])
  end.

Inductive pw_result :=
| PwPanic
| PwOk (new additions removals : list cid).

Definition process_wantlist (S : N) (old : list cid) (w : wantlist) : pw_result :=
  if w_full w then
    match full_collect S (w_entries w) [] with
    | None => PwPanic
    | Some new =>
        PwOk new
             (filter (fun c => negb (cmem c old)) new)           (* cids.difference(&self.0) *)
             (filter (fun c => negb (cmem c new)) old)           (* self.0.difference(&cids) *)
    end
  else
    match upd_parse S (w_entries w) with
    | None => PwPanic
    | Some pes =>
        let cancels := map snd (filter (fun x => fst x) pes) in
        let adds := map snd (filter (fun x => negb (fst x)) pes) in
        let '(s1, removed) := upd_cancel cancels old [] in
        let '(s2, added) := upd_add adds s1 [] in
        PwOk s2 added removed
    end.

(* ------------------------------------------------------------------------------------------- *)
(* waiter lists                                                                                  *)

(* `peers.iter().position(|p| *p == peer)` followed by `peers.swap_remove(index)`: the first
   occurrence of p is overwritten by the last element, which is popped. *)
Fixpoint swap_remove_first (p : peer) (l : list peer) : list peer :=
  match l with
  | [] => []
  | q :: l' =>
      if q =? p then
        match rev l' with
        | [] => []
        | z :: r => z :: rev r
        end
      else q :: swap_remove_first p l'
  end.

Definition cancel_request (p : peer) (wt : list (cid * list peer)) (c : cid) : list (cid * list peer) :=
  match alookup cid_eqb c wt with
  | None => wt
  | Some peers =>
      if list_eqb N.eqb peers [p] then adel cid_eqb c wt
      else aset cid_eqb c (swap_remove_first p peers) wt
  end.

(* peers_waiting_for_cid.entry(cid).or_default().push(peer) *)
Definition add_waiter (p : peer) (wt : list (cid * list peer)) (c : cid) : list (cid * list peer) :=
  match alookup cid_eqb c wt with
  | None => wt ++ [(c, [p])]
  | Some peers => aset cid_eqb c (peers ++ [p]) wt
  end.

(* `order` is accepted iff it is a permutation of the (duplicate-free) set s *)
Definition perm_ok (order s : list cid) : bool :=
  (len order =? len s) && forallb (fun c => cmem c order) s && forallb (fun c => cmem c s) order.

(* ------------------------------------------------------------------------------------------- *)
(* the handlers                                                                                  *)

Definition new_connection (st : sstate) (p : peer) : sstate :=
  match alookup N.eqb p (s_wants st) with
  | Some _ => st
  | None => MkS (s_wants st ++ [(p, [])]) (s_waiting st) (s_outq st) (s_ready st) (s_blocked st)
                (s_next_call st) (s_panic st) (s_bad_order st)
  end.

Definition process_incoming_message (S : N) (st : sstate) (p : peer) (w : wantlist) (order : list cid)
  : sstate :=
  match alookup N.eqb p (s_wants st) with
  | None => st
  | Some old =>
      match process_wantlist S old w with
      | PwPanic => MkS (s_wants st) (s_waiting st) (s_outq st) (s_ready st) (s_blocked st)
                       (s_next_call st) true (s_bad_order st)
      | PwOk new additions removals =>
          let ok := if w_full w then perm_ok order new else true in
          let lookups := if w_full w then (if ok then order else new) else additions in
          let wt1 := fold_left (cancel_request p) removals (s_waiting st) in
          let wt2 := fold_left (add_waiter p) additions wt1 in
          MkS (aset N.eqb p new (s_wants st)) wt2 (s_outq st)
              (s_ready st ++ [MkTask p [] lookups]) (s_blocked st)
              (s_next_call st) (s_panic st) (s_bad_order st || negb ok)
      end
  end.

Definition new_blocks_available (st : sstate) (bl : list (cid * bytes)) : sstate :=
  MkS (s_wants st) (s_waiting st) (s_outq st ++ bl) (s_ready st) (s_blocked st)
      (s_next_call st) (s_panic st) (s_bad_order st).

(* peers_waiting_for_cid.retain(|_, peers| { peers.retain(|q| q != p); !peers.is_empty() }) *)
Fixpoint retain_waiting (p : peer) (wt : list (cid * list peer)) : list (cid * list peer) :=
  match wt with
  | [] => []
  | (c, peers) :: wt' =>
      match filter (fun q => negb (q =? p)) peers with
      | [] => retain_waiting p wt'
      | peers' => (c, peers') :: retain_waiting p wt'
      end
  end.

Definition peer_disconnected (st : sstate) (p : peer) : sstate :=
  match alookup N.eqb p (s_wants st) with
  | None => st
  | Some _ => MkS (adel N.eqb p (s_wants st)) (retain_waiting p (s_waiting st)) (s_outq st)
                  (s_ready st) (s_blocked st) (s_next_call st) (s_panic st) (s_bad_order st)
  end.

(* the harness completes call k: the task parked on it records the result and is woken, i.e. goes
   to the back of the ready-to-run queue *)
Definition release (st : sstate) (k : N) (r : store_result) : sstate :=
  match alookup N.eqb k (s_blocked st) with
  | None => st
  | Some (c, t) =>
      MkS (s_wants st) (s_waiting st) (s_outq st)
          (s_ready st ++ [MkTask (t_peer t) (t_done t ++ [(c, r)]) (t_todo t)])
          (adel N.eqb k (s_blocked st)) (s_next_call st) (s_panic st) (s_bad_order st)
  end.

(* process_store_get_results: the hits, in order *)
Fixpoint hits (res : list (cid * store_result)) : list (cid * bytes) :=
  match res with
  | [] => []
  | (c, SHit d) :: res' => (c, d) :: hits res'
  | _ :: res' => hits res'
  end.

(* polling one ready task: it either finishes (no CID left) or starts the next get and parks *)
Definition run_task (acc : sstate * list lout) (t : task) : sstate * list lout :=
  let '(st, out) := acc in
  match t_todo t with
  | [] => (MkS (s_wants st) (s_waiting st) (s_outq st ++ hits (t_done t)) (s_ready st)
               (s_blocked st) (s_next_call st) (s_panic st) (s_bad_order st), out)
  | c :: rest =>
      (MkS (s_wants st) (s_waiting st) (s_outq st) (s_ready st)
           (s_blocked st ++ [(s_next_call st, (c, MkTask (t_peer t) (t_done t) rest))])
           (s_next_call st + 1) (s_panic st) (s_bad_order st),
       out ++ [LGet (s_next_call st) c])
  end.

(* update_handlers *)
Definition batches := list (peer * list (cid * bytes)).      (* kept sorted by peer *)

Fixpoint badd (p : peer) (x : cid * bytes) (m : batches) : batches :=
  match m with
  | [] => [(p, [x])]
  | (q, l) :: m' =>
      if p =? q then (q, l ++ [x]) :: m'
      else if p <? q then (p, [x]) :: (q, l) :: m'
      else (q, l) :: badd p x m'
  end.

(* if let Some(wantlist) = peers_wantlists.get_mut(peer) { wantlist.0.remove(cid) } *)
Definition want_remove (c : cid) (wants : list (peer * list cid)) (p : peer) : list (peer * list cid) :=
  match alookup N.eqb p wants with
  | None => wants
  | Some s => aset N.eqb p (cremove c s) wants
  end.

Definition uh_state := (list (peer * list cid) * list (cid * list peer) * batches)%type.

Definition uh_block (acc : uh_state) (b : cid * bytes) : uh_state :=
  let '(wants, wt, bat) := acc in
  match alookup cid_eqb (fst b) wt with
  | None => acc
  | Some peers =>
      (fold_left (want_remove (fst b)) peers wants,
       adel cid_eqb (fst b) wt,
       fold_left (fun m p => badd p b m) peers bat)
  end.

Definition update_handlers (st : sstate) : sstate * list lout :=
  let '(wants, wt, bat) := fold_left uh_block (s_outq st) (s_wants st, s_waiting st, []) in
  (MkS wants wt [] (s_ready st) (s_blocked st) (s_next_call st) (s_panic st) (s_bad_order st),
   map (fun pb => LSend (fst pb) (snd pb)) bat).

(* poll() until Pending: every ready task is polled once, in FIFO order (nothing re-enters the queue
   meanwhile because releases only happen between polls); when the queue is exhausted
   update_handlers runs once and its events are popped. *)
Definition do_poll (st : sstate) : sstate * list lout :=
  let st0 := MkS (s_wants st) (s_waiting st) (s_outq st) [] (s_blocked st)
                 (s_next_call st) (s_panic st) (s_bad_order st) in
  let '(st1, out1) := fold_left run_task (s_ready st) (st0, []) in
  let '(st2, out2) := update_handlers st1 in
  (st2, out1 ++ out2).

(* ------------------------------------------------------------------------------------------- *)
(* step and run                                                                                  *)

Definition sstep_l (S : N) (st : sstate) (op : sop) : sstate * list lout :=
  if s_panic st then (st, [])
  else match op with
       | SNewConn p => (new_connection st p, [])
       | SMsg p w order => (process_incoming_message S st p w order, [])
       | SNewBlocks bl => (new_blocks_available st bl, [])
       | SDisconnected p => (peer_disconnected st p, [])
       | SRelease k r => (release st k r, [])
       | SPoll => do_poll st
       end.

Definition sstep (S : N) (st : sstate) (op : sop) : sstate * list sout :=
  let '(st', out) := sstep_l S st op in (st', map erase out).

(* labelled run from a state: the history (each op with its labelled outputs) and the final state *)
Fixpoint srun_l_from (S : N) (st : sstate) (ops : list sop) : list (sop * list lout) * sstate :=
  match ops with
  | [] => ([], st)
  | op :: ops' =>
      let '(st', out) := sstep_l S st op in
      let '(h, st'') := srun_l_from S st' ops' in
      ((op, out) :: h, st'')
  end.

Definition srun_l (S : N) (ops : list sop) : list (sop * list lout) * sstate := srun_l_from S sinit ops.

Fixpoint srun_from (S : N) (st : sstate) (ops : list sop) : list (list sout) * sstate :=
  match ops with
  | [] => ([], st)
  | op :: ops' =>
      let '(st', out) := sstep S st op in
      let '(outs, st'') := srun_from S st' ops' in
      (out :: outs, st'')
  end.

Definition srun (S : N) (ops : list sop) : list (list sout) * sstate := srun_from S sinit ops.

(* ------------------------------------------------------------------------------------------- *)
(* ghost specification: the Bitswap reference view of what peer p currently wants, defined from   *)
(* the labelled history only (None = p is not connected)                                          *)

(* CIDs of the parsable entries with the given cancel flag, in message order (a parse that would
   panic counts as unparsable here; panics are excluded by S >= 32) *)
Fixpoint entry_cids (S : N) (cancel : bool) (es : list entry) : list cid :=
  match es with
  | [] => []
  | e :: es' =>
      if Bool.eqb (e_cancel e) cancel then
        match cid_read_bytes S (e_block e) with
        | ROk c => c :: entry_cids S cancel es'
        | _ => entry_cids S cancel es'
        end
      else entry_cids S cancel es'
  end.

Definition N_firstn {A} (n : N) (l : list A) : list A := firstn (N.to_nat n) l.

(* add distinct CIDs in message order while the set has room *)
Fixpoint add_capped (adds s : list cid) : list cid :=
  match adds with
  | [] => s
  | c :: r => if MAX_WANTLIST_ENTRIES_PER_PEER <=? len s then s else add_capped r (cadd c s)
  end.

Definition view_msg (S : N) (w : wantlist) (s : list cid) : list cid :=
  if w_full w then
    add_capped (entry_cids S false (w_entries w)) []
  else
    add_capped (entry_cids S false (w_entries w))
               (fold_left (fun s c => cremove c s) (entry_cids S true (w_entries w)) s).

Definition sview_op (S : N) (p : peer) (v : option (list cid)) (op : sop) : option (list cid) :=
  match op with
  | SNewConn q => if q =? p then (match v with None => Some [] | Some s => Some s end) else v
  | SDisconnected q => if q =? p then None else v
  | SMsg q w _ => if q =? p then option_map (view_msg S w) v else v
  | _ => v
  end.

Definition sview_out (p : peer) (v : option (list cid)) (o : lout) : option (list cid) :=
  match o with
  | LSend q bl =>
      if q =? p then option_map (fun s => fold_left (fun s b => cremove (fst b) s) bl s) v else v
  | LGet _ _ => v
  end.

Definition sview_step (S : N) (p : peer) (v : option (list cid)) (h : sop * list lout)
  : option (list cid) :=
  fold_left (sview_out p) (snd h) (sview_op S p v (fst h)).

Definition sview (S : N) (p : peer) (hist : list (sop * list lout)) : option (list cid) :=
  fold_left (sview_step S p) hist None.

(* connected peers according to the op history (ghost; duplicate-free list) *)
Definition conn_op (cs : list peer) (op : sop) : list peer :=
  match op with
  | SNewConn p => if existsb (N.eqb p) cs then cs else cs ++ [p]
  | SDisconnected p => filter (fun q => negb (q =? p)) cs
  | _ => cs
  end.

Definition connected (ops : list sop) : list peer := fold_left conn_op ops [].

(* what the server owes p: the CIDs p currently wants *)
Definition owed := sview.
