(* Net_proofs33.v — package J, part 11: the light work `AA` (Net_proofs29) through a round of a net in which nothing is in
   flight: what a node looks like after its poll, and which steps keep it so. *)
From BS Require Import Server_lemmas Server_inv Wantlist_proofs Client_proofs Client_proofs2 Client_proofs3 Client_proofs4
  Client_proofs8 Net Net_proofs2 Net_proofs3 Net_proofs4 Net_proofs5 Net_proofs6 Net_proofs7 Net_proofs9 Net_proofs10 Net_proofs11
  Net_proofs17 Net_proofs23 Net_proofs24 Net_proofs25 Net_proofs26 Net_proofs27 Net_proofs28 Net_proofs29 Net_proofs30 Net_proofs31.
From Coq Require Import ZArith ZifyBool ZifyN ZifyNat Lia.
Open Scope nat_scope.

Local Notation cid_eqb_spec := Wantlist_proofs.cid_eqb_spec.

(* ---------- a client that has been polled: nothing left to start or to send ---------- *)
Definition PCc (c : cstate) : Prop :=
  (forall e, In e (cs_tasks c) -> unstarted e = false) /\ cs_queue c = [] /\ cs_new_blocks c = [] /\ timer_ready c = false /\
  (forall p ps, In (p, ps) (cs_peers c) -> p_send_full ps = false /\ fst (wls_generate_update (p_wl ps) (cs_wl c)) = []).

Lemma existsb_false {A} (f : A -> bool) l : (forall x, In x l -> f x = false) -> existsb f l = false.
Proof. induction l as [|x l IH]; intros H; cbn; [reflexivity|]. rewrite (H x (or_introl eq_refl)), IH; [reflexivity|]. intros y Hy. apply H. right. exact Hy. Qed.

Lemma PCc_sends c p ps : PCc c -> In (p, ps) (cs_peers c) -> sends1 (cs_wl c) (p, ps) = [].
Proof.
  intros (_ & _ & _ & _ & Hp) Hin. destruct (Hp p ps Hin) as [Hsf Hes]. unfold sends1. cbn [fst snd]. destruct (p_ss ps); try reflexivity.
  rewrite Hsf. destruct (wls_generate_update (p_wl ps) (cs_wl c)) as [es wls']. cbn [fst] in Hes. subst es. reflexivity.
Qed.

Lemma PCc_level c : PCc c -> a_client c <= 1.
Proof.
  intros HP. pose proof HP as (Ht & _ & _ & Htr & _). unfold a_client.
  rewrite (existsb_false unstarted _ Ht), Htr.
  rewrite (existsb_false (fun e => negb (is_nil (sends1 (cs_wl c) e))) (cs_peers c)).
  - cbn [orb]. destruct (_ || _); lia.
  - intros [p ps] Hin. rewrite (PCc_sends c p ps HP Hin). reflexivity.
Qed.

Lemma PCc_fields c c' :
  cs_tasks c' = cs_tasks c -> cs_queue c' = cs_queue c -> cs_wl c' = cs_wl c -> cs_peers c' = cs_peers c ->
  cs_new_blocks c' = cs_new_blocks c -> cs_now c' = cs_now c -> cs_deadline c' = cs_deadline c -> PCc c -> PCc c'.
Proof. unfold PCc, timer_ready. intros -> -> -> -> -> -> ->. auto. Qed.

Lemma PCc_release c m r : PCc c -> PCc (c_release c m r).
Proof.
  intros HP. pose proof HP as (Ht & Hq & Hn & Htr & Hp). unfold c_release. destruct (find (call_is m) (cs_tasks c)) as [[tid t0]|]; [|exact HP].
  split; [|exact (conj Hq (conj Hn (conj Htr Hp)))]. cbn [set_tasks cs_tasks]. intros [k t'] Hin. apply in_al_modify in Hin. destruct Hin as (t & Hin & ->).
  specialize (Ht _ Hin). unfold unstarted in *. cbn [snd] in *. destruct (tid =? k)%N; exact Ht.
Qed.

Lemma PCc_report c p cn : PCc c -> PCc (c_report c p cn RpReady).
Proof.
  intros (Ht & Hq & Hn & Htr & Hp). split; [exact Ht|]. split; [exact Hq|]. split; [exact Hn|]. split; [exact Htr|].
  intros k ps' Hin. cbn [c_report set_peers cs_peers cs_wl] in *. apply in_al_modify in Hin. destruct Hin as (ps & Hin & ->).
  destruct (Hp k ps Hin) as [A B]. destruct (p =? k)%N; [|auto]. destruct (report_accepted ps cn); auto.
Qed.

(* ---------- a node with nothing left to do but to wait ---------- *)
Definition PC0n (n : node) : Prop :=
  let c := n_client n in
  cs_tasks c = [] /\ cs_queue c = [] /\ cs_new_blocks c = [] /\ timer_ready c = false /\
  (forall p ps, In (p, ps) (cs_peers c) -> peer_idle (cs_wl c) (p, ps) = true) /\
  s_ready (n_server n) = [] /\ s_outq (n_server n) = [].

Lemma PC0n_level n : PC0n n -> a_node n = 0.
Proof.
  intros (Ht & Hq & Hn & Htr & Hp & Hr & Ho). unfold a_node, a_client, a_server. rewrite Ht, Hq, Hn, Htr, Hr, Ho. cbn [existsb orb is_nil negb].
  assert (E1 : existsb (fun e => negb (is_nil (sends1 (cs_wl (n_client n)) e))) (cs_peers (n_client n)) = false).
  { apply existsb_false. intros [p ps] Hin. specialize (Hp p ps Hin). unfold peer_idle in Hp. cbn [snd] in Hp. rewrite !andb_true_iff in Hp.
    destruct Hp as [[Hr0 Hsf] Hu]. apply negb_true_iff in Hsf. unfold sends1. cbn [fst snd]. destruct (p_ss ps); try reflexivity.
    rewrite Hsf, gen_update_unfold, Hu. reflexivity. }
  assert (E2 : forallb (peer_idle (cs_wl (n_client n))) (cs_peers (n_client n)) = true) by (apply forallb_forall; intros [p ps] Hin; apply Hp, Hin).
  rewrite E1, E2. reflexivity.
Qed.

(* ---------- the tasks of a poll when nothing can start and no get result waits ---------- *)
Lemma poll_task_ready_nonrg nc t r : poll_task nc t = TpReady r -> rgb t = false -> is_get_res r = 0.
Proof.
  unfold poll_task, rgb. destruct (t_kind t).
  - destruct (t_aborted t); [intros [= <-]; reflexivity|]. destruct (t_call t); [|discriminate]. destruct (t_result t); [|discriminate]. discriminate.
  - destruct (t_call t); [|discriminate]. destruct (t_result t) as [[]|]; try discriminate; intros [= <-]; reflexivity.
Qed.

Lemma poll_next_sub rq : forall ts nc,
  (forall e, In e ts -> unstarted e = false) ->
  let '(ts', rq', nc', outs, res) := poll_next rq ts nc in
  (forall e, In e ts' -> In e ts) /\ outs = [] /\
  (forall r, res = Some r -> exists tid t, In (tid, t) ts /\ poll_task nc t = TpReady r).
Proof.
  induction rq as [|tid rq IH]; intros ts nc Hu; cbn [poll_next]; [split; [auto|]; split; [reflexivity | discriminate]|].
  destruct (al_find N.eqb tid ts) as [t|] eqn:Ef; [|apply IH; exact Hu].
  pose proof (al_find_some_in _ Neqb_spec _ _ _ Ef) as Hin.
  destruct (poll_task nc t) as [r|o|] eqn:Ep.
  - split; [intros e He; unfold al_remove in He; apply filter_In in He; apply He|]. split; [reflexivity|]. intros r0 [= <-]. eauto.
  - exfalso. destruct (poll_task_start _ _ _ Ep) as [Hc _]. specialize (Hu _ Hin). unfold unstarted in Hu. cbn [snd] in Hu. rewrite Hc in Hu. discriminate.
  - apply IH; exact Hu.
Qed.

Lemma tasks_run_nog s outs s' :
  tasks_run s outs s' -> (forall e, In e (cs_tasks s) -> unstarted e = false /\ rgb (snd e) = false) ->
  (forall e, In e (cs_tasks s') -> In e (cs_tasks s)) /\ cs_wl s' = cs_wl s /\ cs_peers s' = cs_peers s /\ out_nums outs = [].
Proof.
  induction 1 as [s Hr | s r outs s' Hr Hrun IH]; intros Hu.
  - pose proof (poll_next_sub (cs_ready s) (cs_tasks s) (cs_next_call s) (fun e He => proj1 (Hu e He))) as Hp.
    destruct (after_tasks_frame s) as (_ & Fw & Fp & _). unfold after_tasks, tasks_outs in *.
    destruct (poll_next (cs_ready s) (cs_tasks s) (cs_next_call s)) as [[[[ts rq] nc] outs] res]. destruct Hp as (H1 & -> & _).
    cbn [set_tasks_calls cs_tasks] in *. auto.
  - pose proof (poll_next_sub (cs_ready s) (cs_tasks s) (cs_next_call s) (fun e He => proj1 (Hu e He))) as Hp.
    destruct (after_tasks_frame s) as (_ & Fw & Fp & _).
    destruct (handle_result_frame (after_tasks s) r) as (E1 & _).
    unfold after_tasks, tasks_outs, tasks_res in *.
    destruct (poll_next (cs_ready s) (cs_tasks s) (cs_next_call s)) as [[[[ts rq] nc] outs0] res] eqn:Epn. destruct Hp as (H1 & -> & H3).
    cbn [set_tasks_calls cs_tasks] in *. subst res. destruct (H3 r eq_refl) as (tid & t & Hin & Hpt).
    pose proof (poll_task_ready_nonrg _ _ _ Hpt (proj2 (Hu _ Hin))) as Hng.
    assert (Hh : cs_wl (fst (handle_task_result (set_tasks_calls s ts rq nc) r)) = cs_wl s /\
                 cs_peers (fst (handle_task_result (set_tasks_calls s ts rq nc) r)) = cs_peers s /\
                 out_nums (snd (handle_task_result (set_tasks_calls s ts rq nc) r)) = []).
    { destruct r as [q c res|ok bl|]; cbn [is_get_res] in Hng; [discriminate| |]; cbn [handle_task_result]; [destruct ok|]; cbn; auto. }
    destruct Hh as (Hw & Hp & Ho).
    destruct IH as (I1 & I2 & I3 & I4).
    { intros e He. rewrite E1 in He. apply Hu, H1, He. }
    split; [intros e He; apply H1; rewrite <- E1; apply I1, He|]. split; [congruence|]. split; [congruence|].
    cbn [app]. rewrite out_nums_app, Ho, I4. reflexivity.
Qed.

Lemma INVQ_tasks_run s outs s' : tasks_run s outs s' -> INVQ s -> INVQ s'.
Proof.
  induction 1 as [s Hr | s r outs s' Hr Hrun IH]; intros HQ; [apply INVQ_after_tasks, HQ|].
  apply IH. destruct (handle_result_frame (after_tasks s) r) as (E1 & _ & E3 & _). apply (INVQ_same (after_tasks s)); [exact E1 | exact E3 | apply INVQ_after_tasks, HQ].
Qed.

(* a full wantlist leaves nothing for the next update *)
Lemma gen_update_after_full s w : NoDup (map fst (req s)) -> NoDup (wl_cids w) ->
  fst (wls_generate_update (snd (wls_generate_full s w)) w) = [].
Proof.
  intros Hnd Hw. rewrite gen_update_unfold. destruct (wls_is_updated (snd (wls_generate_full s w)) w); [reflexivity|].
  destruct (fst (upd_body (snd (wls_generate_full s w)) w)) as [|[k c] es] eqn:E; [reflexivity|]. exfalso.
  assert (Hin : In (k, c) (fst (upd_body (snd (wls_generate_full s w)) w))) by (rewrite E; left; reflexivity).
  apply (upd_body_entries _ w k c (gen_full_NoDup s w Hw Hnd)) in Hin. rewrite gen_full_rget in Hin.
  destruct Hin as [(st & Hr & Hin)|(_ & Hc & Hn)].
  - unfold upd_entries in Hin. cbn [fst snd] in Hin. destruct (cid_mem c (wl_cids w)); [|discriminate]. injection Hr as <-.
    destruct (dflt (rget c s)); cbn in Hin; destruct Hin.
  - apply cid_mem_In in Hc. rewrite Hc in Hn. discriminate.
Qed.

Lemma gen_update_updated s w : wls_is_updated (snd (wls_generate_update s w)) w = true.
Proof.
  rewrite gen_update_unfold. destruct (wls_is_updated s w) eqn:E; [exact E|]. unfold upd_body, wls_is_updated. cbn [snd force_update synced_rev negb andb]. apply N.eqb_refl.
Qed.

Lemma do_poll_ready_outq st : s_ready (fst (Server.do_poll st)) = [] /\ s_outq (fst (Server.do_poll st)) = [].
Proof.
  unfold Server.do_poll. fold (poll_start st).
  pose proof (fold_run_task_frame (s_ready st) (poll_start st) []) as (_ & _ & _ & _ & F5). cbn zeta in *.
  destruct (fold_left run_task (s_ready st) (poll_start st, [])) as [st1 out1]. cbn [fst poll_start s_ready] in *.
  unfold Server.update_handlers. destruct (fold_left uh_block (s_outq st1) (s_wants st1, s_waiting st1, [])) as [[wants wt] bat]. cbn [fst s_ready s_outq]. auto.
Qed.

Lemma srv_poll_ready_outq st nb : s_ready (fst (srv_poll st nb)) = [] /\ s_outq (fst (srv_poll st nb)) = [].
Proof. unfold srv_poll. destruct nb; apply do_poll_ready_outq. Qed.

Lemma fold_run_task_nolook ready : forall st out,
  (forall t, In t ready -> Server.t_todo t = []) -> snd (fold_left run_task ready (st, out)) = out.
Proof.
  induction ready as [|t ready IH]; intros st out H; cbn [fold_left]; [reflexivity|].
  rewrite (run_task_nil _ _ _ (H t (or_introl eq_refl))). apply IH. intros t' Ht'. apply H. right. exact Ht'.
Qed.

Lemma lookups_0 st : lookups st = 0 -> forall t, In t (s_ready st) -> Server.t_todo t = [].
Proof.
  unfold lookups. intros H t Hin. destruct (Server.t_todo t) eqn:E; [reflexivity|]. exfalso.
  assert (Hf : In t (filter (fun t => negb (is_nil (Server.t_todo t))) (s_ready st))) by (apply filter_In; split; [exact Hin | rewrite E; reflexivity]).
  destruct (filter _ (s_ready st)); [destruct Hf | discriminate].
Qed.

Lemma srv_poll_nolook st nb : lookups st = 0 -> sv_calls (snd (srv_poll st nb)) = [].
Proof.
  intros H. assert (Hd : forall st', s_ready st' = s_ready st -> sv_calls (snd (Server.do_poll st')) = []).
  { intros st' Er. unfold Server.do_poll. fold (poll_start st').
    pose proof (fold_run_task_nolook (s_ready st') (poll_start st') []) as Hn. rewrite Er in Hn. specialize (Hn (lookups_0 st H)).
    rewrite Er in *. destruct (fold_left run_task (s_ready st) (poll_start st', [])) as [st1 out1]. cbn [snd] in Hn. subst out1.
    unfold Server.update_handlers. destruct (fold_left uh_block (s_outq st1) (s_wants st1, s_waiting st1, [])) as [[wants wt] bat]. cbn [snd app].
    apply (proj1 (sv_of_sends bat)). }
  unfold srv_poll. destruct nb; apply Hd; reflexivity.
Qed.

Section PolledNode.
  Variables (Sz : N) (Hh : hash_fn).
  Hypothesis HSz : (32 <= Sz)%N.

  Lemma INVQ_after_timer c : INVQ c -> INVQ (after_timer c).
  Proof. unfold after_timer. destruct (timer_ready (set_queue c [])); apply INVQ_same; reflexivity. Qed.

  (* after its poll a node whose records were all Ready has nothing left to start or to send *)
  Lemma poll_PC sa k n sC outsC :
    NL n -> (forall p, ~ busy (n_client n) p) -> poll_nf Sz Hh sa k n sC outsC ->
    PCc (set_peers (set_new_blocks (set_queue sC []) []) (map (fin1 (now sa) (cs_wl sC)) (cs_peers sC))).
  Proof.
    intros (HQ & HC & HT & HS) Hbusy [Hrun HCC Hto _].
    pose proof (INVQ_tasks_run _ _ _ Hrun (INVQ_after_timer _ HQ)) as HQC.
    destruct (tasks_run_frame _ _ _ Hrun) as (_ & F2 & F3 & Frd & _).
    destruct (after_timer_props (n_client n)) as (_ & HtB & _).
    assert (Hlink : peers_link (cs_peers (n_client n)) (cs_peers sC)).
    { eapply peers_link_trans; [apply after_timer_peers | apply (tasks_run_peers _ _ _ Hrun)]. }
    split; [|split; [reflexivity|split; [reflexivity|split]]].
    - cbn [set_peers set_new_blocks set_queue cs_tasks]. intros [k0 t] Hin. destruct HQC as (_ & _ & Q3 & _).
      destruct (needy t) eqn:En; [specialize (Q3 k0 t Hin En); rewrite Frd in Q3; destruct Q3|].
      destruct (not_needy_pending t En) as (m & Ec & _). unfold unstarted. cbn [snd]. rewrite Ec. reflexivity.
    - unfold timer_ready in *. cbn [set_peers set_new_blocks set_queue cs_deadline cs_now]. rewrite F2, F3. exact HtB.
    - cbn [set_peers set_new_blocks set_queue cs_peers cs_wl]. intros p ps' Hin. apply in_map_iff in Hin. destruct Hin as ([p0 psC] & Ef & HinC).
      destruct (ck_peers _ _ HCC p0 psC HinC) as ((Hnd & _) & _ & _).
      destruct (peers_link_in _ _ _ _ Hlink HinC) as (ps0 & Hin0 & (Hss0 & _)).
      assert (Hr : p_ss psC = SsReady).
      { destruct (p_ss ps0) eqn:E0; [congruence|..]; exfalso; apply (Hbusy p0); exists ps0; (split; [exact Hin0 | congruence]). }
      unfold fin1 in Ef. cbn [fst snd] in Ef. rewrite Hr in Ef. destruct (p_send_full psC) eqn:Esf.
      + pose proof (gen_update_after_full (p_wl psC) (cs_wl sC) Hnd (ck_wl _ _ HCC)) as Hu.
        destruct (wls_generate_full (p_wl psC) (cs_wl sC)) as [es wls']. cbn [snd] in Hu.
        destruct (negb true && is_nil es); injection Ef as <- <-; cbn [p_send_full p_wl]; auto.
      + pose proof (gen_update_idem (p_wl psC) (cs_wl sC)) as Hu.
        destruct (wls_generate_update (p_wl psC) (cs_wl sC)) as [es wls']. cbn [snd] in Hu.
        destruct (negb false && is_nil es); injection Ef as <- <-; cbn [p_send_full p_wl]; rewrite Hu; auto.
  Qed.

  (* a node that has only light work of level 1 and no lookup under way: after its poll it is done *)
  Lemma poll_PC0 sa k n sC outsC :
    net_ok Sz Hh sa -> NL n -> get_node sa k = Some n -> (forall p, ~ busy (n_client n) p) -> n_calls n = [] ->
    a_client (n_client n) <= 1 -> (forall e, In e (cs_tasks (n_client n)) -> rgb (snd e) = false) -> lookups (n_server n) = 0 ->
    poll_nf Sz Hh sa k n sC outsC ->
    PC0n (MkNode (set_peers (set_new_blocks (set_queue sC []) []) (map (fin1 (now sa) (cs_wl sC)) (cs_peers sC)))
                 (fst (srv_poll (n_server n) (cs_new_blocks sC))) (n_store n)
                 (n_calls n ++ cl_calls outsC ++ sv_calls (snd (srv_poll (n_server n) (cs_new_blocks sC))))) /\
    n_calls n ++ cl_calls outsC ++ sv_calls (snd (srv_poll (n_server n) (cs_new_blocks sC))) = [] /\
    flat_map (sends1 (cs_wl sC)) (cs_peers sC) = [].
  Proof.
    intros Hok HNL Hg Hbusy Hcalls Hlev Hnrg Hlk Hnf. pose proof HNL as (HQ & HC & HT & HS). destruct Hnf as [Hrun HCC Hto _].
    (* what level <= 1 says *)
    unfold a_client in Hlev.
    destruct (existsb unstarted (cs_tasks (n_client n))) eqn:Eu; [cbn [orb] in Hlev; lia|].
    destruct (timer_ready (n_client n)) eqn:Etr; [cbn [orb] in Hlev; lia|].
    destruct (existsb (fun e => negb (is_nil (sends1 (cs_wl (n_client n)) e))) (cs_peers (n_client n))) eqn:Es; [cbn [orb] in Hlev; lia|]. clear Hlev.
    assert (Hun : forall e, In e (cs_tasks (n_client n)) -> unstarted e = false).
    { intros e He. destruct (unstarted e) eqn:E; [|reflexivity]. assert (existsb unstarted (cs_tasks (n_client n)) = true); [apply existsb_exists; eauto | congruence]. }
    assert (Hsd : forall e, In e (cs_peers (n_client n)) -> sends1 (cs_wl (n_client n)) e = []).
    { intros e He. destruct (sends1 (cs_wl (n_client n)) e) eqn:E; [reflexivity|].
      assert (existsb (fun e => negb (is_nil (sends1 (cs_wl (n_client n)) e))) (cs_peers (n_client n)) = true); [|congruence].
      apply existsb_exists. exists e. rewrite E. auto. }
    assert (Eat : after_timer (n_client n) = set_queue (n_client n) []).
    { unfold after_timer. change (timer_ready (set_queue (n_client n) [])) with (timer_ready (n_client n)). rewrite Etr. reflexivity. }
    rewrite Eat in Hrun.
    destruct (tasks_run_nog _ _ _ Hrun) as (Hsub & Ew & Ep & Eo).
    { intros e He. cbn [set_queue cs_tasks] in He. split; [apply Hun, He | apply Hnrg, He]. }
    cbn [set_queue cs_tasks cs_wl cs_peers] in Hsub, Ew, Ep.
    pose proof (INVQ_tasks_run _ _ _ Hrun (INVQ_same (n_client n) _ eq_refl eq_refl HQ)) as HQC.
    destruct (tasks_run_frame _ _ _ Hrun) as (_ & F2 & F3 & Frd & _). cbn [set_queue cs_now cs_deadline] in F2, F3.
    assert (Etasks : cs_tasks sC = []).
    { destruct (cs_tasks sC) as [|[k0 t] ts] eqn:Ets; [reflexivity|]. exfalso.
      assert (Hin : In (k0, t) (cs_tasks (n_client n))) by (apply Hsub; left; reflexivity).
      destruct (needy t) eqn:En.
      - destruct HQC as (_ & _ & Q3 & _). rewrite Ets in Q3. specialize (Q3 k0 t (or_introl eq_refl) En). rewrite Frd in Q3. destruct Q3.
      - destruct HT as (_ & _ & H3). destruct (H3 k0 t Hin En) as (m & _ & Hm). rewrite Hcalls in Hm. destruct Hm. }
    assert (Ecalls : n_calls n ++ cl_calls outsC ++ sv_calls (snd (srv_poll (n_server n) (cs_new_blocks sC))) = []).
    { rewrite Hcalls, (srv_poll_nolook _ _ Hlk), app_nil_r. cbn [app]. pose proof (cl_calls_length outsC) as Hl. rewrite Eo in Hl.
      destruct (cl_calls outsC); [reflexivity | discriminate]. }
    assert (EL : flat_map (sends1 (cs_wl sC)) (cs_peers sC) = []).
    { rewrite Ew, Ep. apply flat_map_nil. intros e He. apply Hsd, He. }
    split; [|split; [exact Ecalls | exact EL]].
    unfold PC0n. cbn [n_client n_server set_peers set_new_blocks set_queue cs_tasks cs_queue cs_new_blocks cs_peers cs_wl].
    split; [exact Etasks|]. split; [reflexivity|]. split; [reflexivity|]. split; [|split; [|apply srv_poll_ready_outq]].
    - unfold timer_ready in *. cbn [set_peers set_new_blocks set_queue cs_deadline cs_now]. rewrite F2, F3. exact Etr.
    - rewrite Ew, Ep. intros p ps' Hin. apply in_map_iff in Hin. destruct Hin as ([p0 ps] & Ef & Hin0).
      assert (Hr : p_ss ps = SsReady).
      { destruct (p_ss ps) eqn:E0; [reflexivity|..]; exfalso; apply (Hbusy p0); exists ps; (split; [exact Hin0 | congruence]). }
      pose proof (Hsd _ Hin0) as Hs0. unfold sends1 in Hs0. unfold fin1 in Ef. cbn [fst snd] in Hs0, Ef. rewrite Hr in Hs0, Ef.
      pose proof (gen_update_updated (p_wl ps) (cs_wl (n_client n))) as Hup.
      destruct (p_send_full ps) eqn:Esf.
      + destruct (wls_generate_full (p_wl ps) (cs_wl (n_client n))) as [es wls']. cbn [negb andb] in Hs0. discriminate.
      + destruct (wls_generate_update (p_wl ps) (cs_wl (n_client n))) as [es wls']. cbn [snd] in Hup.
        destruct (negb false && is_nil es); [|discriminate]. injection Ef as <- <-.
        unfold peer_idle. cbn [snd p_ss p_send_full p_wl negb andb]. exact Hup.
  Qed.
End PolledNode.
