(* Client_proofs9.v — package I, part 3: a poll from two states that differ only in the connection set of
   one peer entry (C15: a further connection, one of several connections closed). *)
From BS Require Import Types Wantlist Wantlist_proofs Client Client_proofs Client_proofs2 Client_proofs3 Client_proofs4 Client_proofs5 Client_proofs7.
From Coq Require Import ZArith ZifyBool ZifyN ZifyNat Lia Permutation.
Open Scope N_scope.

(* ---------- changing only the connection set of the entry of p ---------- *)
Definition reconn (h : list conn -> list conn) (ps : peer_state) : peer_state :=
  MkPeer (h (p_conns ps)) (p_ss ps) (p_wl ps) (p_send_full ps).

Definition with_conns (p : peer) (h : list conn -> list conn) (s : cstate) : cstate :=
  set_peers s (al_modify N.eqb p (reconn h) (cs_peers s)).

Lemma map_al_modify_comm {V} (k : N) (G : V -> V) (F : N * V -> N * V) l :
  (forall e, fst (F e) = fst e) -> (forall e, F (fst e, G (snd e)) = (fst e, G (snd (F e)))) ->
  map F (al_modify N.eqb k G l) = al_modify N.eqb k G (map F l).
Proof.
  intros Hk Hc. unfold al_modify. rewrite !map_map. apply map_ext. intros e. rewrite Hk.
  destruct (k =? fst e); [apply Hc | reflexivity].
Qed.

Lemma after_timer_with p h s : after_timer (with_conns p h s) = with_conns p h (after_timer s).
Proof.
  unfold after_timer. change (timer_ready (set_queue (with_conns p h s) [])) with (timer_ready (set_queue s [])).
  destruct (timer_ready (set_queue s [])); [|reflexivity].
  unfold fire_timer, with_conns, set_peers, set_queue. cbn [cs_queue cs_wl cs_peers cs_c2q cs_tasks cs_ready cs_next_task cs_abort cs_next_qid cs_deadline cs_new_blocks cs_now cs_next_call].
  f_equal. apply map_al_modify_comm; intros e; reflexivity.
Qed.

Lemma after_tasks_with p h s :
  after_tasks (with_conns p h s) = with_conns p h (after_tasks s) /\
  tasks_outs (with_conns p h s) = tasks_outs s /\ tasks_res (with_conns p h s) = tasks_res s.
Proof.
  unfold after_tasks, tasks_outs, tasks_res, with_conns. cbn [set_peers cs_ready cs_tasks cs_next_call].
  destruct (poll_next (cs_ready s) (cs_tasks s) (cs_next_call s)) as [[[[ts rq] nc] outs] res]. repeat split; reflexivity.
Qed.

Lemma handle_result_with p h s r :
  handle_task_result (with_conns p h s) r = (with_conns p h (fst (handle_task_result s r)), snd (handle_task_result s r)).
Proof.
  destruct r as [q c res|ok bl|]; cbn [handle_task_result]; [destruct res| destruct ok |]; try reflexivity.
  cbn [with_conns set_abort set_peers cs_wl]. destruct (wl_insert (cs_wl s) c) as [w' ins]. destruct ins; cbn [fst snd]; [|reflexivity].
  unfold with_conns, set_c2q, set_peers, set_wl, set_abort.
  cbn [cs_queue cs_wl cs_peers cs_c2q cs_tasks cs_ready cs_next_task cs_abort cs_next_qid cs_deadline cs_new_blocks cs_now cs_next_call].
  f_equal. f_equal. unfold wanted_again_all. apply map_al_modify_comm; intros e; reflexivity.
Qed.

Lemma tasks_run_with p h s outs s' : tasks_run s outs s' -> tasks_run (with_conns p h s) outs (with_conns p h s').
Proof.
  induction 1 as [s Hr | s r outs s' Hr Hrun IH]; destruct (after_tasks_with p h s) as (E1 & E2 & E3).
  - rewrite <- E1, <- E2. apply TrDone. rewrite E3. exact Hr.
  - rewrite <- E2. replace (snd (handle_task_result (after_tasks s) r)) with (snd (handle_task_result (after_tasks (with_conns p h s)) r))
      by (rewrite E1, handle_result_with; reflexivity).
    apply TrMore; [rewrite E3; exact Hr|]. rewrite E1, handle_result_with. cbn [fst]. exact IH.
Qed.

Lemma tasks_run_det s o1 s1 : tasks_run s o1 s1 -> forall o2 s2, tasks_run s o2 s2 -> o1 = o2 /\ s1 = s2.
Proof.
  induction 1 as [s Hr | s r outs s' Hr Hrun IH]; intros o2 s2 H2; inversion H2 as [? Hr2 | ? r2 outs2 ? Hr2 Hrun2]; subst; try congruence.
  - auto.
  - assert (r2 = r) by congruence. subst r2. destruct (IH _ _ Hrun2) as [-> ->]. auto.
Qed.

Lemma c_poll_of_run s ch outsC sC :
  tasks_run (after_timer s) outsC sC ->
  c_poll s ch =
    (set_queue (set_peers sC (flat_map (uh_keep (cs_now s) (cs_wl sC) ch) (cs_peers sC))) [],
     map out_of_event (cs_queue s) ++ outsC ++ flat_map (uh_outs (cs_now s) (cs_wl sC) ch) (cs_peers sC)
       ++ map out_of_event (flat_map (uh_events (cs_now s) (cs_wl sC) ch) (cs_peers sC))).
Proof.
  intros Hrun. destruct (c_poll_phases s ch) as (outsC' & sC' & Hrun' & Hpoll).
  destruct (tasks_run_det _ _ _ Hrun' _ _ Hrun) as [-> ->].
  destruct (tasks_run_frame _ _ _ Hrun) as (_ & F2 & _). destruct (after_timer_props s) as (_ & _ & HnB).
  rewrite uh_loop_flat in Hpoll. rewrite F2, HnB in Hpoll. exact Hpoll.
Qed.

(* ---------- one entry with fewer (A) and with more (B) connections ---------- *)
Lemma n_remove_incl c l l' : incl l l' -> incl (n_remove c l) (n_remove c l').
Proof. intros H x Hx. apply n_remove_In in Hx. apply n_remove_In. split; [apply H|]; apply Hx. Qed.

Lemma uh_gate_mono now A B :
  p_ss B = p_ss A -> p_wl B = p_wl A -> p_send_full B = p_send_full A -> incl (p_conns A) (p_conns B) ->
  (uh_gate now A = None /\ uh_gate now B = None) \/
  exists a1 b1, uh_gate now A = Some a1 /\ uh_gate now B = Some b1 /\
    p_wl a1 = p_wl A /\ p_wl b1 = p_wl A /\ p_send_full b1 = p_send_full a1 /\ incl (p_conns a1) (p_conns b1) /\
    p_ss b1 = p_ss a1 /\
    ((p_conns a1 = p_conns A /\ p_conns b1 = p_conns B /\ p_send_full a1 = p_send_full A) \/
     (exists c0, p_conns a1 = n_remove c0 (p_conns A) /\ p_conns b1 = n_remove c0 (p_conns B) /\ p_send_full a1 = true)).
Proof.
  intros Hss Hwl Hsf Hin. unfold uh_gate. rewrite Hss. destruct (p_ss A) as [|t c|t c|t c|c] eqn:EA; auto.
  - right. exists A, B. split; [reflexivity|]. split; [reflexivity|]. split; [reflexivity|]. split; [exact Hwl|].
    split; [exact Hsf|]. split; [exact Hin|]. split; [congruence|]. left. auto.
  - destruct (now - t <? RECEIVE_REQUEST_TIMEOUT); [auto|]. right. eexists. eexists. split; [reflexivity|]. split; [reflexivity|].
    cbn [p_wl p_send_full p_conns p_ss]. split; [reflexivity|]. split; [exact Hwl|]. split; [reflexivity|].
    split; [apply n_remove_incl, Hin|]. split; [reflexivity|]. right. exists c. auto.
  - right. eexists. eexists. split; [reflexivity|]. split; [reflexivity|].
    cbn [p_wl p_send_full p_conns p_ss]. split; [reflexivity|]. split; [exact Hwl|]. split; [reflexivity|].
    split; [apply n_remove_incl, Hin|]. split; [reflexivity|]. right. exists c. auto.
Qed.

Lemma uh_mono now w ch p A B :
  p_ss B = p_ss A -> p_wl B = p_wl A -> p_send_full B = p_send_full A -> incl (p_conns A) (p_conns B) -> p_conns A <> [] ->
  (forall c f es, In (EvSend p c f es) (uh_events now w ch (p, A)) -> exists c', In (EvSend p c' f es) (uh_events now w ch (p, B))) /\
  (forall c' f es, In (EvSend p c' f es) (uh_events now w ch (p, B)) ->
     (exists c, In (EvSend p c f es) (uh_events now w ch (p, A))) \/
     (uh_keep now w ch (p, A) = [] /\ f = true /\ ~ In c' (p_conns A))) /\
  (forall a', In (p, a') (uh_keep now w ch (p, A)) ->
     exists b', uh_keep now w ch (p, B) = [(p, b')] /\ p_wl b' = p_wl a' /\ p_send_full b' = p_send_full a' /\
       incl (p_conns a') (p_conns b') /\
       (p_ss b' = p_ss a' \/
        exists cA cB, p_ss a' = SsRequested now cA /\ p_ss b' = SsRequested now cB /\ In cA (p_conns a') /\ In cB (p_conns b'))).
Proof.
  intros Hss Hwl Hsf Hin Hne. unfold uh_events, uh_keep, uh_peer. cbn [fst snd].
  destruct (uh_gate_mono now A B Hss Hwl Hsf Hin) as [[-> ->] | (a1 & b1 & -> & -> & Wa & Wb & Sf & Hi1 & Ss1 & Hshape)].
  - split; [intros c f es []|]. split; [intros c f es []|]. intros a' [[= <-] | []]. exists B. repeat split; auto.
  - destruct (p_conns a1) as [|ca la] eqn:Ea; destruct (p_conns b1) as [|cb lb] eqn:Eb.
    + split; [intros c f es []|]. split; [intros c f es []|]. intros a' [].
    + (* A is dropped, B still has a connection: B is sent the full wantlist *)
      assert (Hfull : p_send_full a1 = true /\ forall x, In x (cb :: lb) -> ~ In x (p_conns A)).
      { destruct Hshape as [(E1 & _ & _) | (c0 & E1 & E2 & E3)]; [congruence|]. split; [exact E3|].
        intros x Hx Hx'. rewrite E2 in Hx. apply n_remove_In in Hx.
        assert (Hx2 : In x (n_remove c0 (p_conns A))) by (apply n_remove_In; split; [exact Hx' | apply Hx]).
        rewrite <- E1 in Hx2. destruct Hx2. }
      destruct Hfull as [Hfull Hnot]. rewrite Sf, Hfull, Wb. cbn [negb andb].
      destruct (wls_generate_full (p_wl A) w) as [es wls'].
      pose proof (pick_conn_spec ch p cb lb) as HpB. destruct (pick_conn ch p (cb :: lb) cb) as [cB badB]. destruct HpB as (HcB & _ & _).
      split; [intros c f es0 []|]. split; [|intros a' []].
      intros c' f es0 [[= <- <- <-] | []]. right. split; [reflexivity|]. split; [reflexivity|]. apply Hnot, HcB.
    + exfalso. apply (Hi1 ca). left. reflexivity.
    + rewrite Sf, Wa, Wb.
      destruct (if p_send_full a1 then wls_generate_full (p_wl A) w else wls_generate_update (p_wl A) w) as [es wls'].
      destruct (negb (p_send_full a1) && match es with [] => true | _ :: _ => false end).
      * split; [intros c f es0 []|]. split; [intros c f es0 []|]. intros a' [[= <-] | []]. eexists. split; [reflexivity|].
        cbn [p_wl p_send_full p_ss p_conns]. repeat split; auto.
      * pose proof (pick_conn_spec ch p ca la) as HpA. destruct (pick_conn ch p (ca :: la) ca) as [cA badA]. destruct HpA as (HcA & _ & _).
        pose proof (pick_conn_spec ch p cb lb) as HpB. destruct (pick_conn ch p (cb :: lb) cb) as [cB badB]. destruct HpB as (HcB & _ & _).
        split; [intros c f es0 [[= <- <- <-] | []]; exists cB; left; reflexivity|].
        split; [intros c f es0 [[= <- <- <-] | []]; left; exists cA; left; reflexivity|].
        intros a' [[= <-] | []]. eexists. split; [reflexivity|]. cbn [p_wl p_send_full p_ss p_conns].
        split; [reflexivity|]. split; [reflexivity|]. split; [exact Hi1|]. right. exists cA, cB. auto.
Qed.

(* ---------- the outputs of a poll, by origin ---------- *)
Lemma uh_outs_bad now w ch e o : In o (uh_outs now w ch e) -> o = OBadChoice.
Proof.
  unfold uh_outs. destruct e as [p ps]. cbn [fst snd]. pose proof (uh_peer_case now w ch p ps) as Hc.
  destruct (uh_peer now w ch p ps) as [[[ps' evs] outs] dead]. intros Hin.
  inversion Hc; subst; try (destruct Hin; fail).
  match goal with H : Forall _ _ |- _ => rewrite Forall_forall in H; apply H in Hin; exact Hin end.
Qed.

Lemma uh_events_form now w ch e ev : In ev (uh_events now w ch e) -> exists c f es, ev = EvSend (fst e) c f es.
Proof.
  unfold uh_events. destruct e as [p ps]. cbn [fst snd]. pose proof (uh_peer_case now w ch p ps) as Hc.
  destruct (uh_peer now w ch p ps) as [[[ps' evs] outs] dead]. intros Hin.
  inversion Hc; subst; try (destruct Hin; fail). destruct Hin as [<- | []]. eauto.
Qed.

Lemma send_in_form q outsC now w ch l p c f es :
  (forall p c f es, ~ In (EvSend p c f es) q) -> Forall task_out outsC ->
  (In (OSendWantlist p c f es)
      (map out_of_event q ++ outsC ++ flat_map (uh_outs now w ch) l ++ map out_of_event (flat_map (uh_events now w ch) l))
   <-> exists ps1, In (p, ps1) l /\ In (EvSend p c f es) (uh_events now w ch (p, ps1))).
Proof.
  intros Hq HoC. rewrite !in_app_iff. split.
  - intros [Hin | [Hin | [Hin | Hin]]].
    + apply in_map_iff in Hin. destruct Hin as (ev & E & Hev). destruct ev; try discriminate.
      injection E as -> -> -> ->. exfalso. eapply Hq, Hev.
    + rewrite Forall_forall in HoC. apply HoC in Hin. destruct Hin.
    + apply in_flat_map in Hin. destruct Hin as (e & _ & Hin). apply uh_outs_bad in Hin. discriminate.
    + apply in_map_iff in Hin. destruct Hin as (ev & E & Hev). apply in_flat_map in Hev. destruct Hev as ([p' ps'] & Hin' & Hev).
      destruct (uh_events_form _ _ _ _ _ Hev) as (c0 & f0 & es0 & ->). cbn [fst out_of_event] in E. injection E as -> -> -> ->. eauto.
  - intros (ps1 & Hin & Hev). right; right; right. apply in_map_iff. exists (EvSend p c f es). split; [reflexivity|].
    apply in_flat_map. exists (p, ps1). split; assumption.
Qed.

Lemma find_keep_none now w ch l q : al_find N.eqb q l = None -> al_find N.eqb q (flat_map (uh_keep now w ch) l) = None.
Proof.
  intros H. apply (al_find_none _ Neqb_spec). intros Hk. apply uh_keep_keys in Hk.
  apply (al_find_none _ Neqb_spec) in H. contradiction.
Qed.

(* ---------- a poll from s and from s with another connection set for p ---------- *)
Lemma poll_pair s ch p h ps :
  INVS s -> al_find N.eqb p (cs_peers s) = Some ps ->
  exists psl w,
    link_ok ps psl /\
    (forall c f es, In (OSendWantlist p c f es) (snd (c_poll s ch)) <-> In (EvSend p c f es) (uh_events (cs_now s) w ch (p, psl))) /\
    al_find N.eqb p (cs_peers (fst (c_poll s ch))) = al_find N.eqb p (uh_keep (cs_now s) w ch (p, psl)) /\
    (forall c f es, In (OSendWantlist p c f es) (snd (c_poll (with_conns p h s) ch)) <->
                    In (EvSend p c f es) (uh_events (cs_now s) w ch (p, reconn h psl))) /\
    al_find N.eqb p (cs_peers (fst (c_poll (with_conns p h s) ch))) = al_find N.eqb p (uh_keep (cs_now s) w ch (p, reconn h psl)) /\
    (forall q, q <> p -> al_find N.eqb q (cs_peers (fst (c_poll (with_conns p h s) ch))) = al_find N.eqb q (cs_peers (fst (c_poll s ch)))) /\
    fst (c_poll (with_conns p h s) ch) = set_peers (fst (c_poll s ch)) (cs_peers (fst (c_poll (with_conns p h s) ch))) /\
    (forall o, (forall c f es, o <> OSendWantlist p c f es) -> o <> OBadChoice ->
               (In o (snd (c_poll (with_conns p h s) ch)) <-> In o (snd (c_poll s ch)))).
Proof.
  intros [Hnd Hq] Hf.
  destruct (tasks_run_exists _ (after_timer s) eq_refl) as (outsC & sC & Hrun).
  pose proof (c_poll_of_run s ch outsC sC Hrun) as E1.
  assert (Hrun2 : tasks_run (after_timer (with_conns p h s)) outsC (with_conns p h sC))
    by (rewrite after_timer_with; apply tasks_run_with; exact Hrun).
  pose proof (c_poll_of_run (with_conns p h s) ch outsC (with_conns p h sC) Hrun2) as E2.
  change (cs_now (with_conns p h s)) with (cs_now s) in E2. change (cs_queue (with_conns p h s)) with (cs_queue s) in E2.
  change (cs_wl (with_conns p h sC)) with (cs_wl sC) in E2.
  change (cs_peers (with_conns p h sC)) with (al_modify N.eqb p (reconn h) (cs_peers sC)) in E2.
  set (l := cs_peers sC) in *. set (l2 := al_modify N.eqb p (reconn h) l) in *. set (w := cs_wl sC) in *. set (now := cs_now s) in *.
  assert (Hl : peers_link (cs_peers s) l) by (eapply peers_link_trans; [apply after_timer_peers | apply (tasks_run_peers _ _ _ Hrun)]).
  assert (Hndl : NoDup (map fst l)) by (rewrite (peers_link_keys _ _ Hl); exact Hnd).
  assert (Hndl2 : NoDup (map fst l2)) by (unfold l2; rewrite al_modify_keys; exact Hndl).
  destruct (peers_link_find _ _ _ _ Hl Hf) as (psl & Hfl & Hlink).
  pose proof (al_find_some_in _ Neqb_spec _ _ _ Hfl) as Hinl.
  assert (Hinl2 : In (p, reconn h psl) l2).
  { unfold l2, al_modify. apply in_map_iff. exists (p, psl). split; [cbn [fst snd]; rewrite N.eqb_refl; reflexivity | exact Hinl]. }
  assert (Hother : forall q v, q <> p -> (In (q, v) l2 <-> In (q, v) l)).
  { intros q v Hne. unfold l2. split.
    - intros H. apply in_al_modify in H. destruct H as (v0 & Hv0 & ->).
      destruct (p =? q) eqn:E; [apply N.eqb_eq in E; congruence | exact Hv0].
    - intros H. unfold al_modify. apply in_map_iff. exists (q, v). split; [|exact H]. cbn [fst snd].
      destruct (p =? q) eqn:E; [apply N.eqb_eq in E; congruence | reflexivity]. }
  assert (HoC : Forall task_out outsC) by (apply (tasks_run_outs _ _ _ Hrun)).
  exists psl, w. split; [exact Hlink|]. rewrite E1, E2. cbn [fst snd set_queue set_peers cs_peers].
  split; [|split; [|split; [|split; [|split; [|split]]]]].
  - intros c f es. rewrite send_in_form by assumption. split.
    + intros (ps1 & Hin1 & Hev). assert (ps1 = psl) by (apply (NoDup_keys_in_eq l p ps1 psl Hndl Hin1 Hinl)). subst. exact Hev.
    + intros Hev. eauto.
  - apply find_in_keep; assumption.
  - intros c f es. rewrite send_in_form by assumption. split.
    + intros (ps1 & Hin1 & Hev). assert (ps1 = reconn h psl) by (apply (NoDup_keys_in_eq l2 p ps1 (reconn h psl) Hndl2 Hin1 Hinl2)). subst. exact Hev.
    + intros Hev. eauto.
  - apply find_in_keep; assumption.
  - intros q Hne. destruct (al_find N.eqb q l) as [v|] eqn:Eq.
    + apply (al_find_some_in _ Neqb_spec) in Eq. rewrite (find_in_keep now w ch l q v Hndl Eq).
      apply find_in_keep; [exact Hndl2 | apply Hother; assumption].
    + rewrite (find_keep_none now w ch l q Eq). apply find_keep_none. apply (al_find_none _ Neqb_spec). unfold l2. rewrite al_modify_keys.
      apply (al_find_none _ Neqb_spec). exact Eq.
  - reflexivity.
  - intros o Hns Hnb. rewrite !in_app_iff.
    assert (Hbad : forall l0, ~ In o (flat_map (uh_outs now w ch) l0)).
    { intros l0 H. apply in_flat_map in H. destruct H as (e & _ & H). apply uh_outs_bad in H. contradiction. }
    assert (Hev : forall la lb, (forall q v, q <> p -> In (q, v) la -> In (q, v) lb) ->
                  In o (map out_of_event (flat_map (uh_events now w ch) la)) -> In o (map out_of_event (flat_map (uh_events now w ch) lb))).
    { intros la lb Hsub H. apply in_map_iff in H. destruct H as (ev & <- & H). apply in_flat_map in H. destruct H as ([q v] & Hin & H).
      destruct (uh_events_form _ _ _ _ _ H) as (c0 & f0 & es0 & ->). cbn [fst] in *.
      assert (q <> p) by (intros ->; eapply Hns; reflexivity).
      apply in_map_iff. exists (EvSend q c0 f0 es0). split; [reflexivity|]. apply in_flat_map. exists (q, v). split; [apply Hsub; assumption | exact H]. }
    split; (intros [H | [H | [H | H]]]; [auto | auto | exfalso; eapply Hbad; exact H | right; right; right]).
    + apply (Hev l2 l); [intros q v Hne Hin; apply Hother; assumption | exact H].
    + apply (Hev l l2); [intros q v Hne Hin; apply Hother; assumption | exact H].
Qed.

Lemma ev_send_conn now w ch p psl c f es :
  In (EvSend p c f es) (uh_events now w ch (p, psl)) -> In c (p_conns psl).
Proof.
  intros Hev. destruct (uh_send_inv _ _ _ _ _ _ _ _ Hev) as (ps1 & wls' & Hg & Hc & _). eapply uh_gate_conns_sub; eassumption.
Qed.

(* an entry whose gate opens with a connection left is still there after the poll *)
Lemma poll_keeps_entry sdh ops ch p ps ps1 :
  let s := st_after sdh ops in
  al_find N.eqb p (cs_peers s) = Some ps -> uh_gate (cs_now s) ps = Some ps1 -> p_conns ps1 <> [] ->
  al_find N.eqb p (cs_peers (fst (c_poll s ch))) <> None.
Proof.
  intros s Hf Hg Hne. destruct (poll_peer sdh ops ch p ps Hf) as (psl & w & Hlink & _ & Hfin & _). fold s in Hfin. rewrite Hfin.
  pose proof (uh_gate_link (cs_now s) ps psl Hlink) as Hgl. rewrite Hg in Hgl.
  destruct (uh_gate (cs_now s) psl) as [psl1|] eqn:Egl; [|destruct Hgl]. destruct Hgl as (Ec & _).
  unfold uh_keep. cbn [fst snd]. pose proof (uh_peer_case (cs_now s) w ch p psl) as Hcase.
  destruct (uh_peer (cs_now s) w ch p psl) as [[[a b] c'] d].
  inversion Hcase as [Hg1 | ps2 Hg1 Hcn1 | ps2 wls' conns Hg1 Hcn1 Hne1 Hsf Hgen | ps2 es0 wls' cX bad conns sf Hg1 Hcn1 Hsf Hgen Hsend Hin1 Hbad Hch]; subst;
    try (cbn [al_find]; rewrite N.eqb_refl; discriminate).
  rewrite Egl in Hg1. injection Hg1 as <-. congruence.
Qed.

Lemma find_single {V} (p : N) (v : V) : al_find N.eqb p [(p, v)] = Some v.
Proof. cbn [al_find]. rewrite N.eqb_refl. reflexivity. Qed.

(* ---------- C15: a further connection to a peer that already has an entry ---------- *)
Theorem C15_extra_connection_keeps_state sdh ops p c2 ps ch :
  let s := st_after sdh ops in
  al_find N.eqb p (cs_peers s) = Some ps ->
  let s2 := fst (cstep s (CNewConn p c2)) in
  (* the step: nothing is emitted and only the connection set of p's entry changes *)
  snd (cstep s (CNewConn p c2)) = [] /\
  al_find N.eqb p (cs_peers s2) =
    Some (MkPeer (if n_mem c2 (p_conns ps) then p_conns ps else p_conns ps ++ [c2]) (p_ss ps) (p_wl ps) (p_send_full ps)) /\
  s2 = set_peers s (cs_peers s2) /\
  (forall q, q <> p -> al_find N.eqb q (cs_peers s2) = al_find N.eqb q (cs_peers s)) /\
  (* the next poll sends p what it would have sent without the new connection, possibly on another connection *)
  (forall c f es, In (OSendWantlist p c f es) (snd (c_poll s ch)) -> exists c', In (OSendWantlist p c' f es) (snd (c_poll s2 ch))) /\
  (forall c' f es, In (OSendWantlist p c' f es) (snd (c_poll s2 ch)) ->
     (exists c, In (OSendWantlist p c f es) (snd (c_poll s ch))) \/
     (al_find N.eqb p (cs_peers (fst (c_poll s ch))) = None /\ f = true /\ c' = c2 /\ ~ In c2 (p_conns ps))) /\
  (* and leaves the same exchange state *)
  (forall ps', al_find N.eqb p (cs_peers (fst (c_poll s ch))) = Some ps' ->
     exists ps2', al_find N.eqb p (cs_peers (fst (c_poll s2 ch))) = Some ps2' /\
       p_wl ps2' = p_wl ps' /\ p_send_full ps2' = p_send_full ps' /\ incl (p_conns ps') (p_conns ps2') /\
       (p_ss ps2' = p_ss ps' \/
        exists cA cB, p_ss ps' = SsRequested (cs_now s) cA /\ p_ss ps2' = SsRequested (cs_now s) cB /\
                      In cA (p_conns ps') /\ In cB (p_conns ps2'))) /\
  (* nothing else differs *)
  (forall q, q <> p -> al_find N.eqb q (cs_peers (fst (c_poll s2 ch))) = al_find N.eqb q (cs_peers (fst (c_poll s ch)))) /\
  fst (c_poll s2 ch) = set_peers (fst (c_poll s ch)) (cs_peers (fst (c_poll s2 ch))) /\
  (forall o, (forall c f es, o <> OSendWantlist p c f es) -> o <> OBadChoice ->
             (In o (snd (c_poll s2 ch)) <-> In o (snd (c_poll s ch)))).
Proof.
  intros s Hf s2. destruct (C15_new_conn_frame s p c2 ps Hf) as (Estep & Efind & Eoth).
  set (h := fun l : list conn => if n_mem c2 l then l else l ++ [c2]).
  assert (Es2 : s2 = with_conns p h s) by (unfold s2; rewrite Estep; reflexivity).
  split; [rewrite Estep; reflexivity|]. split; [exact Efind|]. split; [rewrite Es2; reflexivity|]. split; [exact Eoth|].
  destruct (poll_pair s ch p h ps (INVS_run sdh ops) Hf) as (psl & w & (Hss & Hcn & _) & HsA & HfA & HsB & HfB & Hq & Hst & Hout).
  rewrite <- Es2 in HsB, HfB, Hq, Hst, Hout.
  pose proof (al_find_some_in _ Neqb_spec _ _ _ Hf) as Hinps. destruct (INVC_run sdh ops p ps Hinps) as [Hne _]. fold s in Hne.
  assert (Hincl : incl (p_conns psl) (p_conns (reconn h psl))).
  { cbn [reconn p_conns]. unfold h. destruct (n_mem c2 (p_conns psl)); [apply incl_refl | apply incl_appl, incl_refl]. }
  destruct (uh_mono (cs_now s) w ch p psl (reconn h psl) eq_refl eq_refl eq_refl Hincl ltac:(rewrite Hcn; exact Hne)) as (M1 & M2 & M3).
  split; [|split; [|split; [|split; [exact Hq|split; [exact Hst | exact Hout]]]]].
  - intros c f es Hin. apply HsA in Hin. destruct (M1 c f es Hin) as (c' & H'). exists c'. apply HsB. exact H'.
  - intros c' f es Hin. apply HsB in Hin. destruct (M2 c' f es Hin) as [(c & H') | (Hk & Hfull & Hnot)].
    + left. exists c. apply HsA. exact H'.
    + right. split; [exact (eq_trans HfA (f_equal (al_find N.eqb p) Hk))|]. split; [exact Hfull|].
      apply ev_send_conn in Hin. cbn [reconn p_conns] in Hin. unfold h in Hin. rewrite Hcn in Hin, Hnot.
      destruct (n_mem c2 (p_conns ps)) eqn:M; [contradiction|]. apply in_app_iff in Hin. destruct Hin as [Hin | [<- | []]]; [contradiction|].
      split; [reflexivity | exact Hnot].
  - intros ps' Hf'. rewrite HfA in Hf'. apply (al_find_some_in _ Neqb_spec) in Hf'. destruct (M3 ps' Hf') as (b' & Hk & H1 & H2 & H3 & H4).
    exists b'. split; [exact (eq_trans HfB (eq_trans (f_equal (al_find N.eqb p) Hk) (find_single p b')))|]. auto.
Qed.

(* ---------- C15: one of several connections is closed ---------- *)
Theorem C15_close_one_keeps_peer_served sdh ops p c ps c' ch :
  let s := st_after sdh ops in
  al_find N.eqb p (cs_peers s) = Some ps -> In c' (p_conns ps) -> c' <> c ->
  let s3 := fst (cstep s (CConnClosed p c)) in
  (* the step: the entry stays, with its request states, sending state and send_full *)
  snd (cstep s (CConnClosed p c)) = [] /\
  al_find N.eqb p (cs_peers s3) = Some (MkPeer (n_remove c (p_conns ps)) (p_ss ps) (p_wl ps) (p_send_full ps)) /\
  s3 = set_peers s (cs_peers s3) /\
  (forall q, q <> p -> al_find N.eqb q (cs_peers s3) = al_find N.eqb q (cs_peers s)) /\
  (* the closed connection is the one a failed / unacknowledged transmission names: the next poll sends the
     FULL wantlist over a remaining connection *)
  ((p_ss ps = SsFailed c \/ exists t, p_ss ps = SsRequested t c /\ (cs_now s - t <? RECEIVE_REQUEST_TIMEOUT) = false) ->
     (exists c1 es, In (OSendWantlist p c1 true es) (snd (c_poll s3 ch))) /\
     (forall c1 f es, In (OSendWantlist p c1 f es) (snd (c_poll s3 ch)) -> f = true /\ c1 <> c /\ In c1 (p_conns ps))) /\
  (* a transmission is outstanding (on any connection): the poll leaves p alone and keeps the entry *)
  (uh_gate (cs_now s) ps = None ->
     (forall c1 f es, ~ In (OSendWantlist p c1 f es) (snd (c_poll s3 ch))) /\
     exists ps', al_find N.eqb p (cs_peers (fst (c_poll s3 ch))) = Some ps' /\ p_ss ps' = p_ss ps /\ p_conns ps' = n_remove c (p_conns ps)) /\
  (* in every case the next poll sends p what it would have sent, over a remaining connection *)
  (forall c1 f es, In (OSendWantlist p c1 f es) (snd (c_poll s3 ch)) ->
     c1 <> c /\ In c1 (p_conns ps) /\ exists c1', In (OSendWantlist p c1' f es) (snd (c_poll s ch))) /\
  (forall c1 f es, In (OSendWantlist p c1 f es) (snd (c_poll s ch)) ->
     (exists c1', In (OSendWantlist p c1' f es) (snd (c_poll s3 ch))) \/
     (al_find N.eqb p (cs_peers (fst (c_poll s3 ch))) = None /\ f = true /\ c1 = c)) /\
  (forall ps3', al_find N.eqb p (cs_peers (fst (c_poll s3 ch))) = Some ps3' ->
     exists ps', al_find N.eqb p (cs_peers (fst (c_poll s ch))) = Some ps' /\
       p_wl ps' = p_wl ps3' /\ p_send_full ps' = p_send_full ps3' /\ incl (p_conns ps3') (p_conns ps') /\
       (p_ss ps' = p_ss ps3' \/
        exists cA cB, p_ss ps3' = SsRequested (cs_now s) cA /\ p_ss ps' = SsRequested (cs_now s) cB /\
                      In cA (p_conns ps3') /\ In cB (p_conns ps'))) /\
  (* nothing else differs *)
  (forall q, q <> p -> al_find N.eqb q (cs_peers (fst (c_poll s3 ch))) = al_find N.eqb q (cs_peers (fst (c_poll s ch)))) /\
  fst (c_poll s3 ch) = set_peers (fst (c_poll s ch)) (cs_peers (fst (c_poll s3 ch))) /\
  (forall o, (forall c1 f es, o <> OSendWantlist p c1 f es) -> o <> OBadChoice ->
             (In o (snd (c_poll s3 ch)) <-> In o (snd (c_poll s ch)))).
Proof.
  intros s Hf Hc' Hne s3. destruct (C15_close_one_keeps_peer s p c ps c' Hf Hc' Hne) as (Efind & Eout & Eoth).
  assert (Es3 : s3 = with_conns p (n_remove c) s).
  { unfold s3. cbn [cstep fst]. unfold c_conn_closed. rewrite Hf.
    assert (Hc : In c' (p_conns (remove_conn c ps))) by (cbn; apply n_remove_In; auto).
    destruct (p_conns (remove_conn c ps)) as [|x xs]; [destruct Hc | reflexivity]. }
  assert (Es3' : s3 = st_after sdh (ops ++ [CConnClosed p c])) by (rewrite st_after_snoc; reflexivity).
  assert (Hnow : cs_now (st_after sdh (ops ++ [CConnClosed p c])) = cs_now s) by (rewrite <- Es3', Es3; reflexivity).
  assert (Efind3 : al_find N.eqb p (cs_peers (st_after sdh (ops ++ [CConnClosed p c]))) =
                   Some (MkPeer (n_remove c (p_conns ps)) (p_ss ps) (p_wl ps) (p_send_full ps))) by (rewrite <- Es3'; exact Efind).
  split; [exact Eout|]. split; [exact Efind|]. split; [rewrite Es3; reflexivity|]. split; [exact Eoth|].
  destruct (poll_pair s ch p (n_remove c) ps (INVS_run sdh ops) Hf) as (psl & w & (Hss & Hcn & _) & HsB & HfB & HsA & HfA & Hq & Hst & Hout).
  rewrite <- Es3 in HsA, HfA, Hq, Hst, Hout.
  assert (Hincl : incl (p_conns (reconn (n_remove c) psl)) (p_conns psl)).
  { cbn [reconn p_conns]. intros x Hx. apply n_remove_In in Hx. apply Hx. }
  assert (HneA : p_conns (reconn (n_remove c) psl) <> []).
  { cbn [reconn p_conns]. rewrite Hcn. intros E. assert (H : In c' (n_remove c (p_conns ps))) by (apply n_remove_In; auto). rewrite E in H. destruct H. }
  destruct (uh_mono (cs_now s) w ch p (reconn (n_remove c) psl) psl eq_refl eq_refl eq_refl Hincl HneA) as (M1 & M2 & M3).
  assert (Hconn3 : forall c1 f es, In (OSendWantlist p c1 f es) (snd (c_poll s3 ch)) -> c1 <> c /\ In c1 (p_conns ps)).
  { intros c1 f es Hin. apply HsA in Hin. apply ev_send_conn in Hin. cbn [reconn p_conns] in Hin. rewrite Hcn in Hin.
    apply n_remove_In in Hin. destruct Hin; auto. }
  split; [|split; [|split; [|split; [|split; [|split; [exact Hq|split; [exact Hst | exact Hout]]]]]]].
  - (* fault on the closed connection *)
    intros Hfault. rewrite Es3'.
    assert (Hfault3 : p_ss (MkPeer (n_remove c (p_conns ps)) (p_ss ps) (p_wl ps) (p_send_full ps)) = SsFailed c \/
                      exists t, p_ss (MkPeer (n_remove c (p_conns ps)) (p_ss ps) (p_wl ps) (p_send_full ps)) = SsRequested t c /\
                                (cs_now (st_after sdh (ops ++ [CConnClosed p c])) - t <? RECEIVE_REQUEST_TIMEOUT) = false).
    { cbn [p_ss]. rewrite Hnow. exact Hfault. }
    destruct (C05_full_after_fault sdh (ops ++ [CConnClosed p c]) ch p _ c Efind3 Hfault3) as [Hall Hex].
    split.
    + destruct Hex as [Hex | Hnone]; [exact Hex|]. exfalso.
      assert (Hg : uh_gate (cs_now (st_after sdh (ops ++ [CConnClosed p c]))) (MkPeer (n_remove c (p_conns ps)) (p_ss ps) (p_wl ps) (p_send_full ps))
                   = Some (MkPeer (n_remove c (n_remove c (p_conns ps))) SsReady (p_wl ps) true)).
      { unfold uh_gate. cbn [p_ss p_conns p_wl]. rewrite Hnow. destruct Hfault as [-> | (t & -> & ->)]; reflexivity. }
      apply (poll_keeps_entry sdh (ops ++ [CConnClosed p c]) ch p _ _ Efind3 Hg); [|exact Hnone].
      cbn [p_conns]. intros E. assert (H : In c' (n_remove c (n_remove c (p_conns ps)))) by (apply n_remove_In; split; [apply n_remove_In|]; auto).
      rewrite E in H. destruct H.
    + intros c1 f es Hin. destruct (Hall c1 f es Hin) as (H1 & H2 & H3). split; [exact H1|]. split; [exact H2|].
      cbn [p_conns] in H3. apply n_remove_In in H3. apply H3.
  - (* outstanding transmission *)
    intros Hg. rewrite Es3'.
    assert (Hg3 : uh_gate (cs_now (st_after sdh (ops ++ [CConnClosed p c]))) (MkPeer (n_remove c (p_conns ps)) (p_ss ps) (p_wl ps) (p_send_full ps)) = None).
    { rewrite Hnow. unfold uh_gate in *. cbn [p_ss]. destruct (p_ss ps) as [|t c0|t c0|t c0|c0]; try discriminate; try reflexivity.
      destruct (cs_now s - t <? RECEIVE_REQUEST_TIMEOUT); [reflexivity | discriminate]. }
    apply (C14_outstanding_blocks_poll sdh (ops ++ [CConnClosed p c]) ch p _ Efind3 Hg3).
  - intros c1 f es Hin. destruct (Hconn3 c1 f es Hin) as [H1 H2]. split; [exact H1|]. split; [exact H2|].
    apply HsA in Hin. destruct (M1 c1 f es Hin) as (c1' & H'). exists c1'. apply HsB. exact H'.
  - intros c1 f es Hin. apply HsB in Hin. destruct (M2 c1 f es Hin) as [(c1' & H') | (Hk & Hfull & Hnot)].
    + left. exists c1'. apply HsA. exact H'.
    + right. split; [exact (eq_trans HfA (f_equal (al_find N.eqb p) Hk))|]. split; [exact Hfull|].
      apply ev_send_conn in Hin. cbn [reconn p_conns] in Hnot. destruct (N.eq_dec c1 c) as [E | E]; [exact E|].
      exfalso. apply Hnot. apply n_remove_In. auto.
  - intros ps3' Hf'. rewrite HfA in Hf'. apply (al_find_some_in _ Neqb_spec) in Hf'. destruct (M3 ps3' Hf') as (b' & Hk & H1 & H2 & H3 & H4).
    exists b'. split; [exact (eq_trans HfB (eq_trans (f_equal (al_find N.eqb p) Hk) (find_single p b')))|]. auto.
Qed.

(* ---------- examples ---------- *)
(* peer 7 is Ready with one connection and an update (WANT_HAVE c1) is due; with a second connection the
   same update is sent, here on the new connection because the environment picks it *)
Example C15_extra_connection_example :
  let ops := [CNewConn 7 1; CPoll [(7, 1)]; CReport 7 1 (RpRequestReceived 1); CReport 7 1 (RpSending 1); CReport 7 1 RpReady;
              CGet (Some ex_c1); CPoll [(7, 1)]; CRelease 0 SMiss] in
  let s := st_after true ops in
  let s2 := fst (cstep s (CNewConn 7 2)) in
  al_find N.eqb 7 (cs_peers s) = Some (MkPeer [1] SsReady wls_new false) /\
  al_find N.eqb 7 (cs_peers s2) = Some (MkPeer [1; 2] SsReady wls_new false) /\
  In (OSendWantlist 7 1 false [(KWantHave, ex_c1)]) (snd (c_poll s [(7, 2)])) /\
  In (OSendWantlist 7 2 false [(KWantHave, ex_c1)]) (snd (c_poll s2 [(7, 2)])).
Proof. vm_compute. split; [reflexivity|]. split; [reflexivity|]. split; repeat (first [left; reflexivity | right]). Qed.

(* the corner of the second clause: the only connection failed; without a further connection the next poll
   drops the entry, with one it sends the full wantlist there *)
Example C15_extra_connection_corner :
  let ops := [CNewConn 7 1; CPoll [(7, 1)]; CReport 7 1 (RpFailed 1)] in
  let s := st_after true ops in
  let s2 := fst (cstep s (CNewConn 7 2)) in
  al_find N.eqb 7 (cs_peers s) = Some (MkPeer [1] (SsFailed 1) wls_new false) /\
  snd (c_poll s [(7, 2)]) = [] /\ al_find N.eqb 7 (cs_peers (fst (c_poll s [(7, 2)]))) = None /\
  snd (c_poll s2 [(7, 2)]) = [OSendWantlist 7 2 true []].
Proof. vm_compute. repeat split; reflexivity. Qed.

(* connection 1 carries an unacknowledged wantlist and is closed; after the timeout the next poll sends the
   full wantlist on connection 2; closing the idle connection 2 instead leaves only the faulty connection: the
   entry is dropped by the next poll (the corner of the fourth clause) *)
Example C15_close_one_example :
  let ops := [CNewConn 7 1; CNewConn 7 2; CGet (Some ex_c1); CPoll [(7, 1)]; CRelease 0 SMiss; CAdvance 1000] in
  let s := st_after true ops in
  al_find N.eqb 7 (cs_peers s) = Some (MkPeer [1; 2] (SsRequested 0 1) wls_new false) /\
  (let s3 := fst (cstep s (CConnClosed 7 1)) in
   al_find N.eqb 7 (cs_peers s3) = Some (MkPeer [2] (SsRequested 0 1) wls_new false) /\
   snd (c_poll s3 [(7, 2)]) = [OSendWantlist 7 2 true [(KWantHave, ex_c1)]]) /\
  (let s3 := fst (cstep s (CConnClosed 7 2)) in
   al_find N.eqb 7 (cs_peers s3) = Some (MkPeer [1] (SsRequested 0 1) wls_new false) /\
   snd (c_poll s3 [(7, 2)]) = [] /\ al_find N.eqb 7 (cs_peers (fst (c_poll s3 [(7, 2)]))) = None /\
   snd (c_poll s [(7, 2)]) = [OSendWantlist 7 2 true [(KWantHave, ex_c1)]]).
Proof. vm_compute. repeat split; reflexivity. Qed.
